import Mathlib.Tactic.Ring
import Mathlib.Tactic.LinearCombination
import Mathlib.Tactic.Linarith
import Mathlib.Tactic.Positivity
import Mathlib.Tactic.FieldSimp
import Mathlib.Tactic.SplitIfs
import Mathlib.Algebra.Order.Field.Basic
import Mathlib.Algebra.Order.Ring.Abs
import Mathlib.Analysis.Real.Sqrt
import M3d.Model.Svd2
/-!
Helper lemmas for C17: `Matrix2.Eigenvalues`, `symEigs`, `SVD` (`M3d/Model/Svd2.lean`) over a linear
ordered field with a square-root function `sqrt` satisfying `sqrt x · sqrt x = x` and `0 ≤ sqrt x` on `x ≥ 0`.
-/
namespace M3d.Num
set_option linter.unusedSectionVars false
set_option linter.unusedVariables false

variable {K : Type} [Field K] [LinearOrder K] [IsStrictOrderedRing K]

/-- The specification of `math.Sqrt` the theorems assume. -/
def SqrtSpec (sqrt : K → K) : Prop := ∀ x : K, 0 ≤ x → sqrt x * sqrt x = x ∧ 0 ≤ sqrt x

theorem isZero_iff (x : K) : isZero x = true ↔ x = 0 := by
  simp only [isZero, Nat.cast_zero, Bool.not_eq_true', Bool.or_eq_false_iff, decide_eq_false_iff_not, not_lt]
  constructor
  · rintro ⟨h1, h2⟩; exact le_antisymm h2 h1
  · rintro rfl; exact ⟨le_refl _, le_refl _⟩

theorem max0_of_nonneg {x : K} (h : 0 ≤ x) : max0 x = x := by
  simp only [max0, Nat.cast_zero]
  split_ifs with h1
  · rfl
  · exact le_antisymm h (not_lt.mp h1)

namespace SqrtSpec
variable {sqrt : K → K} (hs : SqrtSpec sqrt)
include hs

theorem sq {x : K} (h : 0 ≤ x) : sqrt x * sqrt x = x := (hs x h).1
theorem nonneg {x : K} (h : 0 ≤ x) : 0 ≤ sqrt x := (hs x h).2

theorem eq_zero_iff {x : K} (h : 0 ≤ x) : sqrt x = 0 ↔ x = 0 := by
  constructor
  · intro h0; have := hs.sq h; rw [h0] at this; linarith
  · intro h0; subst h0
    have := hs.sq (le_refl (0 : K))
    exact mul_self_eq_zero.mp this

theorem zero : sqrt 0 = 0 := (hs.eq_zero_iff (le_refl _)).mpr rfl

theorem pos {x : K} (h : 0 < x) : 0 < sqrt x := by
  rcases (hs.nonneg h.le).lt_or_eq with h1 | h1
  · exact h1
  · exact absurd ((hs.eq_zero_iff h.le).mp h1.symm) (ne_of_gt h)

/-- A non-negative number whose square is `x` is `sqrt x`. -/
theorem unique {x y : K} (hx : 0 ≤ x) (hy : 0 ≤ y) (h : y * y = x) : y = sqrt x := by
  have h1 := hs.sq hx
  have h2 := hs.nonneg hx
  have : (y - sqrt x) * (y + sqrt x) = 0 := by linear_combination h - h1
  rcases mul_eq_zero.mp this with h3 | h3
  · linarith
  · have : y = 0 := by linarith
    have : sqrt x = 0 := by linarith
    linarith

theorem mono {x y : K} (hx : 0 ≤ x) (hxy : x ≤ y) : sqrt x ≤ sqrt y := by
  have hy : 0 ≤ y := le_trans hx hxy
  by_contra hlt
  rw [not_le] at hlt
  have h1 := hs.sq hx; have h2 := hs.sq hy
  have h3 := hs.nonneg hy
  nlinarith

end SqrtSpec

/-! ## `Matrix2.Eigenvalues` -/

namespace M2

theorem eigDisc_eq (m : M2 K) :
    eigDisc m = (m.m0 + m.m3) * (m.m0 + m.m3) - 4 * (m.m0 * m.m3 - m.m1 * m.m2) := by
  simp only [eigDisc, eigCoeffs, det]; push_cast; ring

/-- A symmetric matrix has a non-negative discriminant `(m₀ − m₃)² + 4·m₁²`. -/
theorem eigDisc_sym_nonneg (m : M2 K) (h : m.m1 = m.m2) : 0 ≤ eigDisc m := by
  rw [eigDisc_eq, ← h]
  nlinarith [mul_self_nonneg (m.m0 - m.m3), mul_self_nonneg m.m1]

/-- Real branch of `Eigenvalues`: the two values are the roots of the characteristic polynomial, in ascending
order, with sum `trace` and product `Det()`; the imaginary part is zero. -/
theorem eigenvalues_real {sqrt : K → K} (hs : SqrtSpec sqrt) (m : M2 K) (hd : 0 ≤ eigDisc m) :
    let e := eigenvalues sqrt m
    (xIminus e.1 m).det = 0 ∧ (xIminus e.2.1 m).det = 0 ∧ e.1 + e.2.1 = m.m0 + m.m3 ∧
      e.1 * e.2.1 = m.det ∧ e.1 ≤ e.2.1 ∧ e.2.2 = 0 := by
  have h1 := hs.sq hd
  have h2 := hs.nonneg hd
  have hnot : ¬ eigDisc m < ((0 : Nat) : K) := by push_cast; exact not_lt.mpr hd
  simp only [eigenvalues, if_neg hnot]
  generalize sqrt (eigDisc m) = s at h1 h2 ⊢
  rw [eigDisc_eq] at h1
  simp only [eigCoeffs, xIminus, det]
  push_cast
  refine ⟨?_, ?_, ?_, ?_, ?_, rfl⟩
  · field_simp; linear_combination h1
  · field_simp; linear_combination h1
  · field_simp; ring
  · field_simp; linear_combination -h1
  · have : (-(-(m.m0 + m.m3)) - s) / (2 * 1) ≤ (-(-(m.m0 + m.m3)) + s) / (2 * 1) := by
      apply div_le_div_of_nonneg_right _ (by norm_num : (0 : K) ≤ 2 * 1)
      linarith
    exact this

/-- Complex branch: no real eigenvalue exists; both values have real part `trace/2` and
`re² + im² = Det()` (they are the conjugate pair of roots). -/
theorem eigenvalues_complex {sqrt : K → K} (hs : SqrtSpec sqrt) (m : M2 K) (hd : eigDisc m < 0) :
    let e := eigenvalues sqrt m
    (∀ x : K, (xIminus x m).det ≠ 0) ∧ e.1 = (m.m0 + m.m3) / 2 ∧ e.2.1 = (m.m0 + m.m3) / 2 ∧
      e.1 * e.1 + e.2.2 * e.2.2 = m.det ∧ 0 < e.2.2 := by
  have hd' : 0 ≤ -eigDisc m := by linarith
  have h1 := hs.sq hd'
  have h2 := hs.pos (by linarith : 0 < -eigDisc m)
  have hlt : eigDisc m < ((0 : Nat) : K) := by push_cast; exact hd
  simp only [eigenvalues, if_pos hlt]
  generalize sqrt (-eigDisc m) = s at h1 h2 ⊢
  rw [eigDisc_eq] at h1 hd
  simp only [eigCoeffs, xIminus, det]
  push_cast
  refine ⟨?_, ?_, ?_, ?_, ?_⟩
  · intro x hx
    nlinarith [mul_self_nonneg (2 * x - (m.m0 + m.m3))]
  · field_simp; ring
  · field_simp; ring
  · field_simp; linear_combination h1
  · positivity

/-! ## `symEigs`, `sortedEig` -/

/-- `v2` is a unit vector and `v1 = ±perp(v2)`: the columns of a 2×2 orthogonal matrix. -/
def OrthoPair (v1 v2 : V2 K) : Prop :=
  v2.x * v2.x + v2.y * v2.y = 1 ∧ ((v1.x = -v2.y ∧ v1.y = v2.x) ∨ (v1.x = v2.y ∧ v1.y = -v2.x))

theorem norm_sq {sqrt : K → K} (hs : SqrtSpec sqrt) (r : V2 K) :
    V2.norm sqrt r * V2.norm sqrt r = r.x * r.x + r.y * r.y ∧ 0 ≤ V2.norm sqrt r := by
  have h : 0 ≤ r.x * r.x + r.y * r.y := by nlinarith [mul_self_nonneg r.x, mul_self_nonneg r.y]
  exact ⟨hs.sq h, hs.nonneg h⟩

theorem norm_eq_zero {sqrt : K → K} (hs : SqrtSpec sqrt) (r : V2 K) (h : V2.norm sqrt r = 0) :
    r.x = 0 ∧ r.y = 0 := by
  have h1 := (norm_sq hs r).1
  rw [h] at h1
  constructor <;> nlinarith [mul_self_nonneg r.x, mul_self_nonneg r.y]

/-- `symEigs` of a symmetric matrix at a root `L` of its characteristic polynomial returns an orthonormal pair
whose first member is an eigenvector for `L`. -/
theorem symEigs_spec {sqrt : K → K} (hs : SqrtSpec sqrt) (A : M2 K) (L : K) (hsym : A.m1 = A.m2)
    (hL : (A.m0 - L) * (A.m3 - L) = A.m1 * A.m1) :
    OrthoPair (symEigs sqrt A L).1 (symEigs sqrt A L).2 ∧
      A.mulColumn (symEigs sqrt A L).1 = (symEigs sqrt A L).1.scale L := by
  obtain ⟨p, q, q', r⟩ := A
  simp only at hsym hL
  subst hsym
  obtain ⟨h1s, h1n⟩ := norm_sq hs (⟨p - L, q⟩ : V2 K)
  obtain ⟨h2s, h2n⟩ := norm_sq hs (⟨q, r - L⟩ : V2 K)
  simp only at h1s h2s
  unfold symEigs
  simp only
  by_cases hz : (isZero (V2.norm sqrt (⟨p - L, q⟩ : V2 K)) && isZero (V2.norm sqrt (⟨q, r - L⟩ : V2 K))) = true
  · rw [if_pos hz]
    rw [Bool.and_eq_true, isZero_iff, isZero_iff] at hz
    obtain ⟨e1, e2⟩ := norm_eq_zero hs _ hz.1
    obtain ⟨e3, e4⟩ := norm_eq_zero hs _ hz.2
    simp only at e1 e2 e3 e4
    refine ⟨⟨by push_cast; ring, Or.inr ⟨by push_cast; ring, by push_cast; ring⟩⟩, ?_⟩
    simp only [mulColumn, V2.scale, V2.mk.injEq]
    push_cast
    constructor
    · linear_combination e1
    · linear_combination e2
  · rw [if_neg hz]
    generalize V2.norm sqrt (⟨p - L, q⟩ : V2 K) = n1 at *
    generalize V2.norm sqrt (⟨q, r - L⟩ : V2 K) = n2 at *
    by_cases hlt : n1 < n2
    · rw [if_pos hlt]
      have hn : n2 ≠ 0 := ne_of_gt (lt_of_le_of_lt h1n hlt)
      simp only [V2.scale, mulColumn, V2.mk.injEq]
      refine ⟨⟨?_, Or.inl ⟨rfl, rfl⟩⟩, ?_, ?_⟩
      · push_cast; field_simp; linear_combination -h2s
      · push_cast; field_simp; linear_combination -hL
      · push_cast; field_simp; ring
    · rw [if_neg hlt]
      have hn : n1 ≠ 0 := by
        intro h0
        apply hz
        rw [Bool.and_eq_true, isZero_iff, isZero_iff]
        refine ⟨h0, le_antisymm ?_ h2n⟩
        rw [← h0]; exact not_lt.mp hlt
      simp only [V2.scale, mulColumn, V2.mk.injEq]
      refine ⟨⟨?_, Or.inl ⟨rfl, rfl⟩⟩, ?_, ?_⟩
      · push_cast; field_simp; linear_combination -h1s
      · push_cast; field_simp; ring
      · push_cast; field_simp; linear_combination hL

/-- `sortedEig` of a symmetric matrix: the two eigenvalues, larger first; sum `trace`, product `Det()`. -/
theorem sortedEig_spec {sqrt : K → K} (hs : SqrtSpec sqrt) (A : M2 K) (hsym : A.m1 = A.m2) :
    (sortedEig sqrt A).1 + (sortedEig sqrt A).2 = A.m0 + A.m3 ∧
      (sortedEig sqrt A).1 * (sortedEig sqrt A).2 = A.det ∧ (sortedEig sqrt A).2 ≤ (sortedEig sqrt A).1 := by
  obtain ⟨_, _, hsum, hprod, hle, _⟩ := eigenvalues_real hs A (eigDisc_sym_nonneg A hsym)
  unfold sortedEig
  simp only
  split_ifs with h
  · exact ⟨by linear_combination hsum, by linear_combination hprod, le_of_lt h⟩
  · exact ⟨hsum, hprod, le_of_eq (le_antisymm (not_lt.mp h) hle)⟩

theorem OrthoPair.symm {v1 v2 : V2 K} (h : OrthoPair v1 v2) : OrthoPair v2 v1 := by
  obtain ⟨hu, h | h⟩ := h
  · refine ⟨by rw [h.1, h.2]; linear_combination hu, Or.inr ⟨h.2.symm, by rw [h.1]; ring⟩⟩
  · refine ⟨by rw [h.1, h.2]; linear_combination hu, Or.inl ⟨by rw [h.2]; ring, h.1.symm⟩⟩

/-- The columns of an orthonormal pair form an orthogonal matrix. -/
theorem OrthoPair.ortho {v1 v2 : V2 K} (h : OrthoPair v1 v2) :
    (⟨v1.x, v2.x, v1.y, v2.y⟩ : M2 K).transpose.mul ⟨v1.x, v2.x, v1.y, v2.y⟩ = M2.one := by
  obtain ⟨hu, h | h⟩ := h <;>
  · simp only [transpose, mul, one, h.1, h.2]
    push_cast
    congr 1 <;> first | linear_combination hu | ring

/-! ## `SVD` -/

/-- `svdUs` with `M·v1`, `M·v2`, the fallback pair and the norm `|M·v1|` as arguments. -/
def svdUsN (g k : V2 K) (alt : V2 K × V2 K) (n : K) : V2 K × V2 K :=
  let us : V2 K × V2 K :=
    if isZero n then alt
    else
      let u1 := g.scale (((1 : Nat) : K) / n)
      (u1, ⟨-u1.y, u1.x⟩)
  let z := ((0 : Nat) : K)
  let u1 := if g.dot us.1 < z then us.1.scale (-((1 : Nat) : K)) else us.1
  let u2 := if k.dot us.2 < z then us.2.scale (-((1 : Nat) : K)) else us.2
  (u1, u2)

theorem svdUs_eq (sqrt : K → K) (m aat : M2 K) (v1 v2 : V2 K) (L : K) :
    svdUs sqrt m aat v1 v2 L =
      svdUsN (m.mulColumn v1) (m.mulColumn v2) (symEigs sqrt aat L) (V2.norm sqrt (m.mulColumn v1)) := rfl

/-- Core of the SVD argument: `g = M·v1`, `k = M·v2` orthogonal with `|g|² = L ≥ |k|² = l`, `n = |g|`. -/
theorem svdUsN_spec {sqrt : K → K} (hs : SqrtSpec sqrt) (g1 g2 k1 k2 n L l : K) (alt : V2 K × V2 K)
    (hns : n * n = L) (hnn : 0 ≤ n)
    (N1 : g1 * g1 + g2 * g2 = L) (N2 : g1 * k1 + g2 * k2 = 0) (N3 : k1 * k1 + k2 * k2 = l) (hle : l ≤ L)
    (halt : L = 0 → OrthoPair alt.1 alt.2) :
    (⟨g1, g2⟩ : V2 K) = (svdUsN ⟨g1, g2⟩ ⟨k1, k2⟩ alt n).1.scale (sqrt (max0 L)) ∧
      (⟨k1, k2⟩ : V2 K) = (svdUsN ⟨g1, g2⟩ ⟨k1, k2⟩ alt n).2.scale (sqrt (max0 l)) ∧
      OrthoPair (svdUsN ⟨g1, g2⟩ ⟨k1, k2⟩ alt n).2 (svdUsN ⟨g1, g2⟩ ⟨k1, k2⟩ alt n).1 := by
  have hl0 : 0 ≤ l := by rw [← N3]; nlinarith [mul_self_nonneg k1, mul_self_nonneg k2]
  have hL0 : 0 ≤ L := le_trans hl0 hle
  by_cases hz : isZero n = true
  · -- M v1 = 0: then L = l = 0, g = k = 0
    have hz' := (isZero_iff n).mp hz
    have hLz : L = 0 := by rw [← hns, hz']; ring
    have hlz : l = 0 := le_antisymm (hLz ▸ hle) hl0
    have hg : g1 = 0 ∧ g2 = 0 := by
      rw [hLz] at N1
      constructor <;> nlinarith [mul_self_nonneg g1, mul_self_nonneg g2]
    have hk : k1 = 0 ∧ k2 = 0 := by
      rw [hlz] at N3
      constructor <;> nlinarith [mul_self_nonneg k1, mul_self_nonneg k2]
    obtain ⟨hg1z, hg2z⟩ := hg
    obtain ⟨hk1z, hk2z⟩ := hk
    have hop := halt hLz
    have hc1 : ¬ ((⟨g1, g2⟩ : V2 K).dot alt.1 < ((0 : Nat) : K)) := by
      simp only [V2.dot, hg1z, hg2z]; push_cast; simp
    have hc2 : ¬ ((⟨k1, k2⟩ : V2 K).dot alt.2 < ((0 : Nat) : K)) := by
      simp only [V2.dot, hk1z, hk2z]; push_cast; simp
    have e : svdUsN ⟨g1, g2⟩ ⟨k1, k2⟩ alt n = alt := by
      unfold svdUsN
      simp only
      rw [if_pos hz, if_neg hc1, if_neg hc2]
    rw [e]
    refine ⟨?_, ?_, hop.symm⟩
    · rw [hLz, max0_of_nonneg (le_refl (0 : K)), hs.zero, hg1z, hg2z]; simp [V2.scale]
    · rw [hlz, max0_of_nonneg (le_refl (0 : K)), hs.zero, hk1z, hk2z]; simp [V2.scale]
  · have hz' : n ≠ 0 := fun h => hz ((isZero_iff n).mpr h)
    have hnpos : 0 < n := lt_of_le_of_ne hnn (Ne.symm hz')
    have hsL : sqrt (max0 L) = n := by
      rw [max0_of_nonneg hL0]; exact (hs.unique hL0 hnn hns).symm
    have hL' : g1 * g1 + g2 * g2 = n * n := by rw [hns, N1]
    -- the first flip never fires
    have hd1 : g1 * (g1 * (1 / n)) + g2 * (g2 * (1 / n)) = n := by
      field_simp; linear_combination hL'
    have hc1 : ¬ ((⟨g1, g2⟩ : V2 K).dot ((⟨g1, g2⟩ : V2 K).scale (((1 : Nat) : K) / n)) < ((0 : Nat) : K)) := by
      simp only [V2.dot, V2.scale]; push_cast; rw [hd1]; exact not_lt.mpr hnn
    -- the coefficient of `k` along `perp u1`
    have key : ∀ t : K, t = k1 * -(g2 * (1 / n)) + k2 * (g1 * (1 / n)) → t * t = l ∧
        k1 = -(g2 * (1 / n)) * t ∧ k2 = g1 * (1 / n) * t := by
      intro t ht
      refine ⟨?_, ?_, ?_⟩
      · rw [ht]; field_simp
        have : (k2 * g1 - k1 * g2) * (k2 * g1 - k1 * g2) = l * (n * n) := by
          linear_combination (k1 * k1 + k2 * k2) * hL' + (n * n) * N3 - (g1 * k1 + g2 * k2) * N2
        linear_combination this
      · rw [ht]; field_simp
        linear_combination (-k1) * hL' + g1 * N2
      · rw [ht]; field_simp
        linear_combination (-k2) * hL' + g2 * N2
    obtain ⟨ht2, hk1e, hk2e⟩ := key _ rfl
    by_cases hneg : (⟨k1, k2⟩ : V2 K).dot
        (⟨-((⟨g1, g2⟩ : V2 K).scale (((1 : Nat) : K) / n)).y, ((⟨g1, g2⟩ : V2 K).scale (((1 : Nat) : K) / n)).x⟩ : V2 K)
        < ((0 : Nat) : K)
    · have e : svdUsN ⟨g1, g2⟩ ⟨k1, k2⟩ alt n = ((⟨g1, g2⟩ : V2 K).scale (((1 : Nat) : K) / n),
          (⟨-((⟨g1, g2⟩ : V2 K).scale (((1 : Nat) : K) / n)).y,
            ((⟨g1, g2⟩ : V2 K).scale (((1 : Nat) : K) / n)).x⟩ : V2 K).scale (-((1 : Nat) : K))) := by
        unfold svdUsN
        simp only
        rw [if_neg hz]
        simp only
        rw [if_neg hc1, if_pos hneg]
      rw [e]
      simp only [V2.dot, V2.scale] at hneg ⊢
      push_cast at hneg ⊢
      refine ⟨?_, ?_, ?_⟩
      · rw [hsL]; simp only [V2.mk.injEq]; constructor <;> field_simp
      · rw [max0_of_nonneg hl0]
        have hq : sqrt l = -(k1 * -(g2 * (1 / n)) + k2 * (g1 * (1 / n))) :=
          (hs.unique hl0 (by linarith) (by linear_combination ht2)).symm
        rw [hq]; simp only [V2.mk.injEq]
        constructor
        · linear_combination hk1e
        · linear_combination hk2e
      · exact ⟨by field_simp; linear_combination hL', Or.inr ⟨by ring, by ring⟩⟩
    · have e : svdUsN ⟨g1, g2⟩ ⟨k1, k2⟩ alt n = ((⟨g1, g2⟩ : V2 K).scale (((1 : Nat) : K) / n),
          (⟨-((⟨g1, g2⟩ : V2 K).scale (((1 : Nat) : K) / n)).y,
            ((⟨g1, g2⟩ : V2 K).scale (((1 : Nat) : K) / n)).x⟩ : V2 K)) := by
        unfold svdUsN
        simp only
        rw [if_neg hz]
        simp only
        rw [if_neg hc1, if_neg hneg]
      rw [e]
      simp only [V2.dot, V2.scale] at hneg ⊢
      push_cast at hneg ⊢
      refine ⟨?_, ?_, ?_⟩
      · rw [hsL]; simp only [V2.mk.injEq]; constructor <;> field_simp
      · rw [max0_of_nonneg hl0]
        have hq : sqrt l = (k1 * -(g2 * (1 / n)) + k2 * (g1 * (1 / n))) :=
          (hs.unique hl0 (not_lt.mp hneg) ht2).symm
        rw [hq]; simp only [V2.mk.injEq]
        constructor
        · linear_combination hk1e
        · linear_combination hk2e
      · exact ⟨by field_simp; linear_combination hL', Or.inl ⟨rfl, rfl⟩⟩

/-- The left singular vectors computed by `SVD` from an orthonormal pair `v1, v2` with `MᵀM·v1 = L·v1`,
`L + l = trace(MᵀM)`, `l ≤ L`: `M·v1 = σ₁·u1`, `M·v2 = σ₂·u2` with `σ₁ = sqrt L`, `σ₂ = sqrt l`, `(u1, u2)` orthonormal. -/
theorem svdUs_spec {sqrt : K → K} (hs : SqrtSpec sqrt) (m : M2 K) (v1 v2 : V2 K) (L l : K)
    (hv : OrthoPair v1 v2) (hev : (m.transpose.mul m).mulColumn v1 = v1.scale L)
    (hsum : L + l = (m.transpose.mul m).m0 + (m.transpose.mul m).m3) (hle : l ≤ L) :
    m.mulColumn v1 = (svdUs sqrt m (m.mul m.transpose) v1 v2 L).1.scale (sqrt (max0 L)) ∧
      m.mulColumn v2 = (svdUs sqrt m (m.mul m.transpose) v1 v2 L).2.scale (sqrt (max0 l)) ∧
      OrthoPair (svdUs sqrt m (m.mul m.transpose) v1 v2 L).2 (svdUs sqrt m (m.mul m.transpose) v1 v2 L).1 ∧
      0 ≤ l := by
  rw [svdUs_eq]
  obtain ⟨a, b, c, d⟩ := m
  obtain ⟨x1, y1⟩ := v1
  obtain ⟨x2, y2⟩ := v2
  obtain ⟨hu2, halt⟩ := hv
  simp only at hu2 halt
  simp only [transpose, mul, mulColumn, V2.scale, V2.mk.injEq] at hev hsum
  obtain ⟨hev1, hev2⟩ := hev
  have hu1 : x1 * x1 + y1 * y1 = 1 := by
    rcases halt with h | h <;> (rw [h.1, h.2]; linear_combination hu2)
  have hdot : x1 * x2 + y1 * y2 = 0 := by
    rcases halt with h | h <;> (rw [h.1, h.2]; ring)
  have N1 : (a * x1 + b * y1) * (a * x1 + b * y1) + (c * x1 + d * y1) * (c * x1 + d * y1) = L := by
    linear_combination x1 * hev1 + y1 * hev2 + L * hu1
  have N2 : (a * x1 + b * y1) * (a * x2 + b * y2) + (c * x1 + d * y1) * (c * x2 + d * y2) = 0 := by
    linear_combination x2 * hev1 + y2 * hev2 + L * hdot
  have N3 : (a * x2 + b * y2) * (a * x2 + b * y2) + (c * x2 + d * y2) * (c * x2 + d * y2) = l := by
    rcases halt with h | h <;>
    · rw [h.1, h.2] at N1
      linear_combination (a * a + b * b + c * c + d * d) * hu2 - N1 - hsum
  have hl0 : 0 ≤ l := by
    rw [← N3]; nlinarith [mul_self_nonneg (a * x2 + b * y2), mul_self_nonneg (c * x2 + d * y2)]
  obtain ⟨hns, hnn⟩ := norm_sq hs (⟨a * x1 + b * y1, c * x1 + d * y1⟩ : V2 K)
  simp only at hns
  rw [N1] at hns
  have hfall : L = 0 → OrthoPair
      (symEigs sqrt ((⟨a, b, c, d⟩ : M2 K).mul (⟨a, b, c, d⟩ : M2 K).transpose) L).1
      (symEigs sqrt ((⟨a, b, c, d⟩ : M2 K).mul (⟨a, b, c, d⟩ : M2 K).transpose) L).2 := by
    intro hLz
    have hlz : l = 0 := le_antisymm (hLz ▸ hle) hl0
    rw [hLz, hlz] at hsum
    have ha : a = 0 := mul_self_eq_zero.mp (by linarith [mul_self_nonneg a, mul_self_nonneg b, mul_self_nonneg c, mul_self_nonneg d])
    have hb : b = 0 := mul_self_eq_zero.mp (by linarith [mul_self_nonneg a, mul_self_nonneg b, mul_self_nonneg c, mul_self_nonneg d])
    have hc : c = 0 := mul_self_eq_zero.mp (by linarith [mul_self_nonneg a, mul_self_nonneg b, mul_self_nonneg c, mul_self_nonneg d])
    have hd : d = 0 := mul_self_eq_zero.mp (by linarith [mul_self_nonneg a, mul_self_nonneg b, mul_self_nonneg c, mul_self_nonneg d])
    subst ha hb hc hd hLz
    exact (symEigs_spec hs ((⟨0, 0, 0, 0⟩ : M2 K).mul (⟨0, 0, 0, 0⟩ : M2 K).transpose) 0
      (by simp only [transpose, mul]) (by simp only [transpose, mul]; ring)).1
  obtain ⟨r1, r2, r3⟩ := svdUsN_spec hs (a * x1 + b * y1) (c * x1 + d * y1) (a * x2 + b * y2) (c * x2 + d * y2)
    (V2.norm sqrt (⟨a * x1 + b * y1, c * x1 + d * y1⟩ : V2 K)) L l
    (symEigs sqrt ((⟨a, b, c, d⟩ : M2 K).mul (⟨a, b, c, d⟩ : M2 K).transpose) L) hns hnn N1 N2 N3 hle hfall
  exact ⟨r1, r2, r3, hl0⟩

/-- `U·Σ·Vᵀ = M` from `M·v1 = σ₁·u1`, `M·v2 = σ₂·u2` and the completeness of the orthonormal pair `(v1, v2)`. -/
theorem recon (m : M2 K) (u1 u2 v1 v2 : V2 K) (s1 s2 : K) (hv : OrthoPair v1 v2)
    (h1 : m.mulColumn v1 = u1.scale s1) (h2 : m.mulColumn v2 = u2.scale s2) :
    ((⟨u1.x, u2.x, u1.y, u2.y⟩ : M2 K).mul ⟨s1, ((0 : Nat) : K), ((0 : Nat) : K), s2⟩).mul
      (⟨v1.x, v2.x, v1.y, v2.y⟩ : M2 K).transpose = m := by
  obtain ⟨a, b, c, d⟩ := m
  obtain ⟨hu, halt⟩ := hv
  simp only [mulColumn, V2.scale, V2.mk.injEq] at h1 h2
  obtain ⟨h1x, h1y⟩ := h1
  obtain ⟨h2x, h2y⟩ := h2
  have c1 : v1.x * v1.x + v2.x * v2.x = 1 := by
    rcases halt with h | h <;> (rw [h.1]; linear_combination hu)
  have c2 : v1.x * v1.y + v2.x * v2.y = 0 := by
    rcases halt with h | h <;> (rw [h.1, h.2]; ring)
  have c3 : v1.y * v1.y + v2.y * v2.y = 1 := by
    rcases halt with h | h <;> (rw [h.2]; linear_combination hu)
  simp only [mul, transpose]
  push_cast
  congr 1
  · linear_combination (-v1.x) * h1x - v2.x * h2x + a * c1 + b * c2
  · linear_combination (-v1.y) * h1x - v2.y * h2x + a * c2 + b * c3
  · linear_combination (-v1.x) * h1y - v2.x * h2y + c * c1 + d * c2
  · linear_combination (-v1.y) * h1y - v2.y * h2y + c * c2 + d * c3

/-- **`Matrix2.SVD` is correct for every matrix** (exact arithmetic, `sqrt` with `sqrt(x)² = x`, `sqrt(x) ≥ 0` on
`x ≥ 0`): `U·Σ·Vᵀ = M`, `UᵀU = VᵀV = 1`, `Σ` diagonal with `σ₁ ≥ σ₂ ≥ 0`, `σ₁² + σ₂² = ‖M‖_F²` and
`σ₁·σ₂ = |det M|`. -/
theorem svd_correct {sqrt : K → K} (hs : SqrtSpec sqrt) (m : M2 K) :
    ((svd sqrt m).1.mul (svd sqrt m).2.1).mul (svd sqrt m).2.2.transpose = m ∧
      (svd sqrt m).1.transpose.mul (svd sqrt m).1 = M2.one ∧
      (svd sqrt m).2.2.transpose.mul (svd sqrt m).2.2 = M2.one ∧
      (svd sqrt m).2.1.m1 = 0 ∧ (svd sqrt m).2.1.m2 = 0 ∧
      0 ≤ (svd sqrt m).2.1.m3 ∧ (svd sqrt m).2.1.m3 ≤ (svd sqrt m).2.1.m0 ∧
      (svd sqrt m).2.1.m0 * (svd sqrt m).2.1.m0 + (svd sqrt m).2.1.m3 * (svd sqrt m).2.1.m3 =
        m.m0 * m.m0 + m.m1 * m.m1 + m.m2 * m.m2 + m.m3 * m.m3 ∧
      (svd sqrt m).2.1.m0 * (svd sqrt m).2.1.m3 = |m.det| := by
  have hsym : (m.transpose.mul m).m1 = (m.transpose.mul m).m2 := by simp only [transpose, mul]; ring
  obtain ⟨hsum, hprod, hle⟩ := sortedEig_spec hs (m.transpose.mul m) hsym
  generalize hL : (sortedEig sqrt (m.transpose.mul m)).1 = L at hsum hprod hle
  generalize hl : (sortedEig sqrt (m.transpose.mul m)).2 = l at hsum hprod hle
  have hchar : ((m.transpose.mul m).m0 - L) * ((m.transpose.mul m).m3 - L) =
      (m.transpose.mul m).m1 * (m.transpose.mul m).m1 := by
    have hd : (m.transpose.mul m).det = (m.transpose.mul m).m0 * (m.transpose.mul m).m3 -
        (m.transpose.mul m).m1 * (m.transpose.mul m).m1 := by
      simp only [det]; rw [← hsym]
    rw [hd] at hprod
    linear_combination L * hsum - hprod
  obtain ⟨hvp, hev⟩ := symEigs_spec hs (m.transpose.mul m) L hsym hchar
  obtain ⟨r1, r2, r3, hl0⟩ := svdUs_spec hs m _ _ L l hvp hev hsum hle
  have hL0 : 0 ≤ L := le_trans hl0 hle
  have e : svd sqrt m =
      (⟨(svdUs sqrt m (m.mul m.transpose) (symEigs sqrt (m.transpose.mul m) L).1
            (symEigs sqrt (m.transpose.mul m) L).2 L).1.x,
        (svdUs sqrt m (m.mul m.transpose) (symEigs sqrt (m.transpose.mul m) L).1
            (symEigs sqrt (m.transpose.mul m) L).2 L).2.x,
        (svdUs sqrt m (m.mul m.transpose) (symEigs sqrt (m.transpose.mul m) L).1
            (symEigs sqrt (m.transpose.mul m) L).2 L).1.y,
        (svdUs sqrt m (m.mul m.transpose) (symEigs sqrt (m.transpose.mul m) L).1
            (symEigs sqrt (m.transpose.mul m) L).2 L).2.y⟩,
       ⟨sqrt (max0 L), ((0 : Nat) : K), ((0 : Nat) : K), sqrt (max0 l)⟩,
       ⟨(symEigs sqrt (m.transpose.mul m) L).1.x, (symEigs sqrt (m.transpose.mul m) L).2.x,
        (symEigs sqrt (m.transpose.mul m) L).1.y, (symEigs sqrt (m.transpose.mul m) L).2.y⟩) := by
    unfold svd
    simp only [hL, hl]
  rw [e]
  generalize symEigs sqrt (m.transpose.mul m) L = vs at *
  generalize svdUs sqrt m (m.mul m.transpose) vs.1 vs.2 L = us at *
  have hs1 : sqrt (max0 L) * sqrt (max0 L) = L := by rw [max0_of_nonneg hL0]; exact hs.sq hL0
  have hs2 : sqrt (max0 l) * sqrt (max0 l) = l := by rw [max0_of_nonneg hl0]; exact hs.sq hl0
  have hn1 : 0 ≤ sqrt (max0 L) := by rw [max0_of_nonneg hL0]; exact hs.nonneg hL0
  have hn2 : 0 ≤ sqrt (max0 l) := by rw [max0_of_nonneg hl0]; exact hs.nonneg hl0
  refine ⟨recon m us.1 us.2 vs.1 vs.2 _ _ hvp r1 r2, r3.symm.ortho, hvp.ortho, by simp, by simp, hn2, ?_, ?_, ?_⟩
  · simp only
    rw [max0_of_nonneg hL0, max0_of_nonneg hl0]
    exact hs.mono hl0 hle
  · simp only
    rw [hs1, hs2, hsum]
    simp only [transpose, mul]; ring
  · simp only
    have hdd : (m.transpose.mul m).det = m.det * m.det := by
      simp only [transpose, mul, det]; ring
    have hsq : (sqrt (max0 L) * sqrt (max0 l)) * (sqrt (max0 L) * sqrt (max0 l)) = |m.det| * |m.det| := by
      rw [abs_mul_abs_self, ← hdd, ← hprod]
      linear_combination l * hs1 + (sqrt (max0 L) * sqrt (max0 L)) * hs2
    have hp : 0 ≤ sqrt (max0 L) * sqrt (max0 l) := mul_nonneg hn1 hn2
    have ha : 0 ≤ |m.det| := abs_nonneg _
    nlinarith [sq_nonneg (sqrt (max0 L) * sqrt (max0 l) - |m.det|),
      sq_nonneg (sqrt (max0 L) * sqrt (max0 l) + |m.det|)]

/-- **`Matrix2.symEigDecomp` is correct for every symmetric matrix**: `V·S·Vᵀ = M`, `VᵀV = 1`, `S` diagonal with
the larger eigenvalue first. -/
theorem symEigDecomp_correct {sqrt : K → K} (hs : SqrtSpec sqrt) (m : M2 K) (hsym : m.m1 = m.m2) :
    ((symEigDecomp sqrt m).2.mul (symEigDecomp sqrt m).1).mul (symEigDecomp sqrt m).2.transpose = m ∧
      (symEigDecomp sqrt m).2.transpose.mul (symEigDecomp sqrt m).2 = M2.one ∧
      (symEigDecomp sqrt m).1.m1 = 0 ∧ (symEigDecomp sqrt m).1.m2 = 0 ∧
      (symEigDecomp sqrt m).1.m3 ≤ (symEigDecomp sqrt m).1.m0 ∧
      (symEigDecomp sqrt m).1.m0 + (symEigDecomp sqrt m).1.m3 = m.m0 + m.m3 ∧
      (symEigDecomp sqrt m).1.m0 * (symEigDecomp sqrt m).1.m3 = m.det := by
  obtain ⟨hsum, hprod, hle⟩ := sortedEig_spec hs m hsym
  unfold symEigDecomp
  simp only
  generalize (sortedEig sqrt m).1 = L at hsum hprod hle ⊢
  generalize (sortedEig sqrt m).2 = l at hsum hprod hle ⊢
  have hchar : (m.m0 - L) * (m.m3 - L) = m.m1 * m.m1 := by
    simp only [det] at hprod; rw [← hsym] at hprod
    linear_combination L * hsum - hprod
  obtain ⟨hvp, hev⟩ := symEigs_spec hs m L hsym hchar
  generalize symEigs sqrt m L = vs at hvp hev ⊢
  have h2 : m.mulColumn vs.2 = vs.2.scale l := by
    obtain ⟨p, q, q', r⟩ := m
    simp only at hsym hsum
    subst hsym
    obtain ⟨hu, halt⟩ := hvp
    simp only [mulColumn, V2.scale, V2.mk.injEq] at hev ⊢
    obtain ⟨e1, e2⟩ := hev
    rcases halt with h | h
    · rw [h.1, h.2] at e1 e2
      constructor
      · linear_combination -e2 - vs.2.x * hsum
      · linear_combination e1 - vs.2.y * hsum
    · rw [h.1, h.2] at e1 e2
      constructor
      · linear_combination e2 - vs.2.x * hsum
      · linear_combination -e1 - vs.2.y * hsum
  refine ⟨recon m vs.1 vs.2 vs.1 vs.2 L l hvp hev h2, hvp.ortho, by simp, by simp, hle, hsum, hprod⟩

/-- The hypothesis on `sqrt` is satisfied by the real square root. -/
theorem sqrtSpec_real : SqrtSpec (K := ℝ) Real.sqrt :=
  fun x hx => ⟨Real.mul_self_sqrt hx, Real.sqrt_nonneg x⟩

end M2
end M3d.Num
