import M3d.Gen.Kernels
import M3d.Model.Triangulate
import M3d.Model.TriFace
import Mathlib.Tactic.Ring
import Mathlib.Tactic.NormNum
import Mathlib.Tactic.LinearCombination
import Mathlib.Tactic.FieldSimp
import Mathlib.Algebra.Order.Field.Basic
/-!
# Tie between the REGENERATED kernels and the C14 models (`M3d/Model/Triangulate.lean`)

`M3d/Gen/Kernels.lean` is produced on every run by the Go→Lean translator from the current
`model2d/matrix.go`, `model2d/coords.go`, `model3d/coords.go` (…).  The C14 code is mostly outside the
translator's subset (`atan2`, slices, maps, recursion), but the arithmetic kernels it calls are
translated, and the theorems below re-prove against the CURRENT text that the hand-written model
computes what those kernels compute, for every linear ordered field:

* `blocks_tie` — the point-in-ear test of `isVertexEar`:
  `inverseMat := (&Matrix2{p1.X-p2.X, p3.X-p2.X, p1.Y-p2.Y, p3.Y-p2.Y}).Inverse()`,
  `coords := inverseMat.MulColumn(p.Sub(p2))`, then the three comparisons — the model `blocks`
  is exactly that composition of the generated `Matrix2_Inverse` (`Det`, `InvertInPlaceDet`, `Scale`),
  `Matrix2_MulColumn` and `Coord_Sub`;
* `projectFace_tie` — `TriangulateFace`'s chart `Coord2D{X: basis1.Dot(p1), Y: basis2.Dot(p1)}` with
  `p1 := p.Sub(polygon[0])` is the model `projectFace`;
* `lift_tie` — `ProfileMesh`'s cap corners `XYZ(t.X, t.Y, minZ|maxZ)` are the model `lift`;
* `residual3_tie` — `TriangulateFace`'s candidate `p.Sub(polygon[0]).ProjectOut(basis1)` (generated
  `Coord3D_ProjectOut`, which normalises its argument with `math.Sqrt`) is, multiplied by `u·u`, the
  sqrt-free model `residual3 u w` of `M3d/Model/TriFace.lean`, for every `sqrt` with `sqrt(u·u)² = u·u ≠ 0`.

An edit of one of these Go functions changes the generated text; then either the equation is still
provable (a harmless rewrite) or this file stops compiling and the check reports the broken
obligation and searches for a failing input with the correspondence.
-/
namespace M3d.KernelsTie.Triangulate
open M3d.Tri M3d.Gen.Kernels M3d.GenPrelude
set_option linter.unusedSectionVars false
set_option linter.unusedVariables false
set_option linter.unusedSimpArgs false
set_option linter.unreachableTactic false
set_option linter.unusedTactic false

variable {K : Type} [Field K] [LinearOrder K] [IsStrictOrderedRing K]

/-- model point → generated `model2d.Coord` -/
@[reducible] def g2 (a : P2 K) : model2d.Coord K := ⟨a.x, a.y⟩
/-- model point → generated `model3d.Coord3D` -/
@[reducible] def g3 (a : P3 K) : model3d.Coord3D K := ⟨a.x, a.y, a.z⟩

/-- The barycentric coordinates `coords` of `isVertexEar`, composed from the generated kernels
exactly as the Go source composes them. -/
def earCoords (p1 p2 p3 p : P2 K) : model2d.Coord K :=
  model2d.Matrix2_MulColumn
    (model2d.Matrix2_Inverse ⟨p1.x - p2.x, p3.x - p2.x, p1.y - p2.y, p3.y - p2.y⟩)
    (model2d.Coord_Sub (g2 p) (g2 p2))

/-- **`blocks_tie`.**  The model's point-in-ear test is the comparison
`coords.X > 0 && coords.Y > 0 && coords.X+coords.Y < 1 (+ε ↦ ≤ 1)` on the coordinates the generated
kernels compute. -/
theorem blocks_tie (strictDiag : Bool) (p1 p2 p3 p : P2 K) :
    blocks strictDiag p1 p2 p3 p =
      (if strictDiag then
        decide (0 < (earCoords p1 p2 p3 p).X) && decide (0 < (earCoords p1 p2 p3 p).Y) &&
          decide ((earCoords p1 p2 p3 p).X + (earCoords p1 p2 p3 p).Y < 1)
      else
        decide (0 < (earCoords p1 p2 p3 p).X) && decide (0 < (earCoords p1 p2 p3 p).Y) &&
          decide ((earCoords p1 p2 p3 p).X + (earCoords p1 p2 p3 p).Y ≤ 1)) := by
  have hX : (earCoords p1 p2 p3 p).X =
      (p3.y - p2.y) * (1 / ((p1.x - p2.x) * (p3.y - p2.y) - (p3.x - p2.x) * (p1.y - p2.y))) * (p.x - p2.x) +
      (0 - (p3.x - p2.x)) * (1 / ((p1.x - p2.x) * (p3.y - p2.y) - (p3.x - p2.x) * (p1.y - p2.y))) * (p.y - p2.y) := by
    simp only [earCoords, model2d.Matrix2_MulColumn, model2d.Matrix2_Inverse, model2d.Matrix2_InvertInPlace,
      model2d.Matrix2_InvertInPlaceDet, model2d.Matrix2_Det, model2d.Matrix2_Scale, model2d.Coord_Sub,
      model2d.Coord_Add, model2d.Coord_Scale, g2]
    ring
  have hY : (earCoords p1 p2 p3 p).Y =
      (0 - (p1.y - p2.y)) * (1 / ((p1.x - p2.x) * (p3.y - p2.y) - (p3.x - p2.x) * (p1.y - p2.y))) * (p.x - p2.x) +
      (p1.x - p2.x) * (1 / ((p1.x - p2.x) * (p3.y - p2.y) - (p3.x - p2.x) * (p1.y - p2.y))) * (p.y - p2.y) := by
    simp only [earCoords, model2d.Matrix2_MulColumn, model2d.Matrix2_Inverse, model2d.Matrix2_InvertInPlace,
      model2d.Matrix2_InvertInPlaceDet, model2d.Matrix2_Det, model2d.Matrix2_Scale, model2d.Coord_Sub,
      model2d.Coord_Add, model2d.Coord_Scale, g2]
    ring
  rw [hX, hY]
  rfl

/-- **`projectFace_tie`.**  Every entry of the model chart of `TriangulateFace` is
`Coord2D{X: basis1.Dot(p.Sub(p0)), Y: basis2.Dot(p.Sub(p0))}` of the generated kernels. -/
theorem projectFace_tie (b1 b2 p0 : P3 K) (rest : List (P3 K)) :
    projectFace b1 b2 (p0 :: rest) =
      (p0 :: rest).map fun p =>
        ⟨model3d.Coord3D_Dot (g3 b1) (model3d.Coord3D_Sub (g3 p) (g3 p0)),
         model3d.Coord3D_Dot (g3 b2) (model3d.Coord3D_Sub (g3 p) (g3 p0))⟩ := by
  unfold projectFace
  apply List.map_congr_left
  intro p _
  simp only [dot3, sub3, model3d.Coord3D_Dot, model3d.Coord3D_Sub, model3d.Coord3D_Add,
    model3d.Coord3D_Scale, g3]
  congr 1 <;> ring

/-- **`lift_tie`.**  The corner `XYZ(t.X, t.Y, minZ)` / `XYZ(t.X, t.Y, maxZ)` of a cap triangle of
`ProfileMesh` is the model `lift` of the vertex id. -/
theorem lift_tie (c : Nat → P2 K) (z0 z1 : K) (i : Nat) :
    g3 (lift c z0 z1 i) = model3d.XYZ (c (i / 2)).x (c (i / 2)).y (if i % 2 = 0 then z0 else z1) := rfl

/-- **`residual3_tie`.**  For `u ≠ 0` and any `math.Sqrt` with `sqrt(u·u)·sqrt(u·u) = u·u`, the generated
`w.ProjectOut(u)` (= `w − n·(n·w)`, `n = u.Scale(1/u.Norm())`) multiplied by `u·u` is the model's
`residual3 u w = (u·u)·w − (u·w)·u`; in particular it vanishes exactly when the model's does. -/
theorem residual3_tie [HasSqrt K] (u w : P3 K)
    (hs : HasSqrt.sqrt (dot3 u u) * HasSqrt.sqrt (dot3 u u) = dot3 u u) (hne : dot3 u u ≠ 0) :
    model3d.Coord3D_Scale (model3d.Coord3D_ProjectOut (g3 w) (g3 u)) (dot3 u u) = g3 (residual3 u w) := by
  have hN : ((u.x * u.x) + (u.y * u.y)) + (u.z * u.z) = dot3 u u := by simp only [dot3]
  have hs0 : HasSqrt.sqrt (dot3 u u) ≠ 0 := by
    intro h0; rw [h0, mul_zero] at hs; exact hne hs.symm
  simp only [model3d.Coord3D_ProjectOut, model3d.Coord3D_Normalize, model3d.Coord3D_Norm, model3d.Coord3D_Scale,
    model3d.Coord3D_Sub, model3d.Coord3D_Add, model3d.Coord3D_Dot, g3, hN, residual3, scale3, sub3]
  generalize hS : HasSqrt.sqrt (dot3 u u) = S at hs hs0
  have h1 : (1 / S) * (1 / S) * dot3 u u = 1 := by rw [← hs]; field_simp
  simp only [dot3] at h1 ⊢
  congr 1
  · linear_combination (-(u.x * (u.x * w.x + u.y * w.y + u.z * w.z))) * h1
  · linear_combination (-(u.y * (u.x * w.x + u.y * w.y + u.z * w.z))) * h1
  · linear_combination (-(u.z * (u.x * w.x + u.y * w.y + u.z * w.z))) * h1

/-- Non-vacuity: `u = (1,2,2)` with `sqrt 9 = 3`. -/
example : (letI : HasSqrt ℚ := ⟨fun _ => 3⟩
    HasSqrt.sqrt (dot3 (⟨1, 2, 2⟩ : P3 ℚ) ⟨1, 2, 2⟩) * HasSqrt.sqrt (dot3 (⟨1, 2, 2⟩ : P3 ℚ) ⟨1, 2, 2⟩)
      = dot3 (⟨1, 2, 2⟩ : P3 ℚ) ⟨1, 2, 2⟩ ∧ dot3 (⟨1, 2, 2⟩ : P3 ℚ) ⟨1, 2, 2⟩ ≠ 0) := by
  norm_num [dot3]

end M3d.KernelsTie.Triangulate
