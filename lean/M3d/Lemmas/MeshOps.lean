import M3d.Model.MeshOps
import M3d.Lemmas.Surface
/-!
Combinatorial lemmas about the 2-D vertex-removal loops and the decimation hole filling.
Core-only.
-/
namespace M3d.MeshOps
open M3d.Surface

/-! ## `InOutOne` as "starts and ends are duplicate-free and equal as sets" -/

theorem mem_segVertsAll {ss : List Seg} {v : Nat} :
    v ∈ segVertsAll ss ↔ v ∈ starts ss ∨ v ∈ ends ss := by
  simp only [segVertsAll, starts, ends, List.mem_flatMap, List.mem_map, List.mem_cons,
    List.not_mem_nil, or_false]
  constructor
  · rintro ⟨s, hs, h | h⟩
    · exact Or.inl ⟨s, hs, h.symm⟩
    · exact Or.inr ⟨s, hs, h.symm⟩
  · rintro (⟨s, hs, h⟩ | ⟨s, hs, h⟩)
    · exact ⟨s, hs, Or.inl h.symm⟩
    · exact ⟨s, hs, Or.inr h.symm⟩

theorem count_eq_one_of_nodup {l : List Nat} (h : l.Nodup) {a : Nat} (ha : a ∈ l) : l.count a = 1 := by
  have h1 := (List.nodup_iff_count.1 h) a
  have h2 : 0 < l.count a := List.count_pos_iff.2 ha
  omega

theorem inOutOne_iff_nodup (ss : List Seg) :
    InOutOne ss ↔ (starts ss).Nodup ∧ (ends ss).Nodup ∧ ∀ v, v ∈ starts ss ↔ v ∈ ends ss := by
  constructor
  · intro h
    have hc : ∀ (l : List Nat), (∀ v ∈ segVertsAll ss, l.count v = 1) → (∀ v ∈ l, v ∈ segVertsAll ss) → l.Nodup := by
      intro l h1 h2
      rw [List.nodup_iff_count]
      intro a
      by_cases ha : a ∈ l
      · rw [h1 a (h2 a ha)]; exact Nat.le_refl 1
      · rw [List.count_eq_zero.2 ha]; exact Nat.zero_le _
    refine ⟨hc _ (fun v hv => (h v hv).1) (fun v hv => mem_segVertsAll.2 (Or.inl hv)),
      hc _ (fun v hv => (h v hv).2) (fun v hv => mem_segVertsAll.2 (Or.inr hv)), fun v => ⟨fun hv => ?_, fun hv => ?_⟩⟩
    · have := (h v (mem_segVertsAll.2 (Or.inl hv))).2
      exact List.count_pos_iff.1 (by omega)
    · have := (h v (mem_segVertsAll.2 (Or.inr hv))).1
      exact List.count_pos_iff.1 (by omega)
  · rintro ⟨h1, h2, h3⟩ v hv
    have hs : v ∈ starts ss := by
      rcases mem_segVertsAll.1 hv with h | h
      · exact h
      · exact (h3 v).2 h
    exact ⟨count_eq_one_of_nodup h1 hs, count_eq_one_of_nodup h2 ((h3 v).1 hs)⟩

theorem eq_of_nodup_map_snd {l : List Seg} (h : (l.map (·.2)).Nodup) {x y : Seg}
    (hx : x ∈ l) (hy : y ∈ l) (hxy : x.2 = y.2) : x = y := by
  induction l with
  | nil => cases hx
  | cons z l ih =>
    simp only [List.map_cons, List.nodup_cons, List.mem_map, not_exists, not_and] at h
    rcases List.mem_cons.1 hx with rfl | hx' <;> rcases List.mem_cons.1 hy with rfl | hy'
    · rfl
    · exact absurd hxy.symm (h.1 y hy')
    · exact absurd hxy (h.1 x hx')
    · exact ih h.2 hx' hy'

theorem prevOf_mem {ss : List Seg} {v p : Nat} (h : prevOf ss v = some p) : (p, v) ∈ ss := by
  simp only [prevOf, Option.map_eq_some_iff] at h
  obtain ⟨s, hs, rfl⟩ := h
  have h2 : s.2 = v := by simpa using List.find?_some hs
  have := List.mem_of_find?_eq_some hs
  rw [← h2]; exact this

theorem succOf_mem {ss : List Seg} {v n : Nat} (h : succOf ss v = some n) : (v, n) ∈ ss := by
  simp only [succOf, Option.map_eq_some_iff] at h
  obtain ⟨s, hs, rfl⟩ := h
  have h1 : s.1 = v := by simpa using List.find?_some hs
  have := List.mem_of_find?_eq_some hs
  rw [← h1]; exact this

/-! ## Removing a vertex and bridging its neighbours -/

section Bridge
variable {ss : List Seg} {v p n : Nat}

theorem bridge_sub {s : Seg} (h : s ∈ bridge ss v p n) : s = (p, n) ∨ (s ∈ ss ∧ s.1 ≠ v ∧ s.2 ≠ v) := by
  simp only [bridge, List.mem_cons, List.mem_filter, Bool.and_eq_true, bne_iff_ne, ne_eq] at h
  rcases h with h | ⟨h1, h2, h3⟩
  · exact Or.inl h
  · exact Or.inr ⟨h1, h2, h3⟩

/-- **Vertex removal keeps a closed oriented 1-manifold closed and oriented**: if `v` has the
single predecessor `p` and the single successor `n` (`p ≠ n`), deleting the two segments at `v`
and adding `p → n` leaves every remaining vertex with exactly one incoming and one outgoing
segment, creates no self-loop, and `v` is gone. -/
theorem bridge_closedCurves (h : ClosedCurves ss) (hp : (p, v) ∈ ss) (hn : (v, n) ∈ ss) (hpn : p ≠ n) :
    ClosedCurves (bridge ss v p n) := by
  obtain ⟨hio, hnl⟩ := h
  obtain ⟨hS, hE, hSE⟩ := (inOutOne_iff_nodup ss).1 hio
  have hpv : p ≠ v := hnl _ hp
  have hvn : v ≠ n := hnl _ hn
  -- membership in the kept part
  have keep_iff : ∀ s, s ∈ ss.filter (fun s => s.1 != v && s.2 != v) ↔ s ∈ ss ∧ s.1 ≠ v ∧ s.2 ≠ v := by
    intro s; simp [List.mem_filter]
  have startsF : ∀ w, w ∈ starts (ss.filter (fun s => s.1 != v && s.2 != v)) ↔ w ∈ starts ss ∧ w ≠ v ∧ w ≠ p := by
    intro w
    simp only [starts, List.mem_map]
    constructor
    · rintro ⟨s, hs, rfl⟩
      obtain ⟨h1, h2, h3⟩ := (keep_iff s).1 hs
      refine ⟨⟨s, h1, rfl⟩, h2, fun e => ?_⟩
      have := eq_of_nodup_map_fst hS h1 hp e
      exact h3 (by rw [this])
    · rintro ⟨⟨s, hs, rfl⟩, h2, h3⟩
      refine ⟨s, (keep_iff s).2 ⟨hs, h2, fun e => ?_⟩, rfl⟩
      have := eq_of_nodup_map_snd hE hs hp e
      exact h3 (by rw [this])
  have endsF : ∀ w, w ∈ ends (ss.filter (fun s => s.1 != v && s.2 != v)) ↔ w ∈ ends ss ∧ w ≠ v ∧ w ≠ n := by
    intro w
    simp only [ends, List.mem_map]
    constructor
    · rintro ⟨s, hs, rfl⟩
      obtain ⟨h1, h2, h3⟩ := (keep_iff s).1 hs
      refine ⟨⟨s, h1, rfl⟩, h3, fun e => ?_⟩
      have := eq_of_nodup_map_snd hE h1 hn e
      exact h2 (by rw [this])
    · rintro ⟨⟨s, hs, rfl⟩, h2, h3⟩
      refine ⟨s, (keep_iff s).2 ⟨hs, fun e => ?_, h2⟩, rfl⟩
      have := eq_of_nodup_map_fst hS hs hn e
      exact h3 (by rw [this])
  refine ⟨(inOutOne_iff_nodup _).2 ⟨?_, ?_, ?_⟩, ?_⟩
  · show (p :: starts (ss.filter _)).Nodup
    rw [List.nodup_cons]
    refine ⟨fun hm => ((startsF p).1 hm).2.2 rfl, ?_⟩
    exact List.Nodup.sublist (List.Sublist.map _ List.filter_sublist) hS
  · show (n :: ends (ss.filter _)).Nodup
    rw [List.nodup_cons]
    refine ⟨fun hm => ((endsF n).1 hm).2.2 rfl, ?_⟩
    exact List.Nodup.sublist (List.Sublist.map _ List.filter_sublist) hE
  · intro w
    show w ∈ p :: starts (ss.filter _) ↔ w ∈ n :: ends (ss.filter _)
    have hpS : p ∈ starts ss := List.mem_map.2 ⟨_, hp, rfl⟩
    have hnE : n ∈ ends ss := List.mem_map.2 ⟨_, hn, rfl⟩
    rw [List.mem_cons, List.mem_cons, startsF, endsF]
    constructor
    · rintro (rfl | ⟨h1, h2, _⟩)
      · by_cases e : w = n
        · exact Or.inl e
        · exact Or.inr ⟨(hSE w).1 hpS, hpv, e⟩
      · by_cases e : w = n
        · exact Or.inl e
        · exact Or.inr ⟨(hSE w).1 h1, h2, e⟩
    · rintro (rfl | ⟨h1, h2, _⟩)
      · by_cases e : w = p
        · exact Or.inl e
        · exact Or.inr ⟨(hSE w).2 hnE, fun e' => hvn e'.symm, e⟩
      · by_cases e : w = p
        · exact Or.inl e
        · exact Or.inr ⟨(hSE w).2 h1, h2, e⟩
  · intro s hs
    rcases bridge_sub hs with rfl | ⟨h1, _, _⟩
    · exact hpn
    · exact hnl s h1

theorem bridge_verts_sub (hp : (p, v) ∈ ss) (hn : (v, n) ∈ ss) :
    ∀ w ∈ segVertsAll (bridge ss v p n), w ∈ segVertsAll ss ∧ w ≠ v ∨ (w = p ∨ w = n) := by
  intro w hw
  simp only [segVertsAll, List.mem_flatMap, List.mem_cons, List.not_mem_nil, or_false] at hw ⊢
  obtain ⟨s, hs, hw⟩ := hw
  rcases bridge_sub hs with rfl | ⟨h1, h2, h3⟩
  · rcases hw with rfl | rfl
    · exact Or.inr (Or.inl rfl)
    · exact Or.inr (Or.inr rfl)
  · rcases hw with rfl | rfl
    · exact Or.inl ⟨⟨s, h1, Or.inl rfl⟩, h2⟩
    · exact Or.inl ⟨⟨s, h1, Or.inr rfl⟩, h3⟩

/-- Bridging strictly shortens the mesh: the termination measure of the elimination loops. -/
theorem bridge_length (hp : (p, v) ∈ ss) (hn : (v, n) ∈ ss) (hpv : p ≠ v) :
    (bridge ss v p n).length + 1 ≤ ss.length := by
  have hne : (v, n) ≠ (p, v) := fun e => hpv (by cases e; rfl)
  have h1 : ss.Perm ((p, v) :: ss.erase (p, v)) := List.perm_cons_erase hp
  have hn' : (v, n) ∈ ss.erase (p, v) := (List.mem_erase_of_ne hne).2 hn
  have h2 : (ss.erase (p, v)).Perm ((v, n) :: (ss.erase (p, v)).erase (v, n)) := List.perm_cons_erase hn'
  have h3 : ss.Perm ((p, v) :: (v, n) :: (ss.erase (p, v)).erase (v, n)) := h1.trans (List.Perm.cons _ h2)
  have h4 := (h3.filter (fun s => s.1 != v && s.2 != v)).length_eq
  have h5 := h3.length_eq
  have e1 : ((p, v) :: (v, n) :: (ss.erase (p, v)).erase (v, n)).filter (fun s => s.1 != v && s.2 != v)
      = ((ss.erase (p, v)).erase (v, n)).filter (fun s => s.1 != v && s.2 != v) := by
    simp
  rw [e1] at h4
  have h6 := List.length_filter_le (fun s : Seg => s.1 != v && s.2 != v) ((ss.erase (p, v)).erase (v, n))
  simp only [bridge, List.length_cons] at h5 ⊢
  omega

end Bridge


/-! ## The elimination loops -/

theorem length_filter_ne_lt {l : List Nat} {a : Nat} (h : a ∈ l) : (l.filter (· != a)).length + 1 ≤ l.length := by
  induction l with
  | nil => cases h
  | cons b l ih =>
    by_cases e : b = a
    · subst e
      simp only [List.filter_cons, bne_self_eq_false, Bool.false_eq_true, ↓reduceIte, List.length_cons]
      have := List.length_filter_le (· != b) l
      omega
    · have hm : a ∈ l := by
        rcases List.mem_cons.1 h with h | h
        · exact absurd h.symm e
        · exact h
      have := ih hm
      simp only [List.filter_cons, bne_iff_ne, ne_eq, e, not_false_eq_true, ↓reduceIte, List.length_cons]
      omega

section Step
variable (skip : List Seg → Nat → Nat → Nat → Bool) (readd : List Seg → Nat → Bool)

theorem upd_length (res' : List Seg) (cs : List Nat) (c : Nat) :
    (if readd res' c then (if cs.contains c then cs else c :: cs) else cs.filter (· != c)).length ≤ cs.length + 1 := by
  split
  · split <;> simp
  · have := List.length_filter_le (· != c) cs; omega

/-- One iteration keeps the mesh a closed oriented curve set, adds no vertex, and decreases the
measure `3·|res| + |cands|`. -/
theorem removalStep_spec {next : Nat} {cands : List Nat} {res : List Seg} (h : ClosedCurves res)
    (hmem : next ∈ cands)
    (hd : ∀ n, prevOf res next = some n → succOf res next = some n → skip res next n n = true) :
    let st := removalStep skip readd next cands res
    ClosedCurves st.2 ∧ (∀ w ∈ segVertsAll st.2, w ∈ segVertsAll res) ∧
      3 * st.2.length + st.1.length < 3 * res.length + cands.length := by
  have hc := length_filter_ne_lt hmem
  simp only [removalStep]
  cases hp : prevOf res next with
  | none => exact ⟨h, fun _ hw => hw, by simp only; omega⟩
  | some n1 =>
    cases hn : succOf res next with
    | none => exact ⟨h, fun _ hw => hw, by simp only; omega⟩
    | some n2 =>
      simp only
      by_cases hs : skip res next n1 n2 = true
      · simp only [hs, ↓reduceIte]
        exact ⟨h, fun _ hw => hw, by omega⟩
      · simp only [hs, Bool.false_eq_true, ↓reduceIte]
        have hp' := prevOf_mem hp
        have hn' := succOf_mem hn
        have hne : n1 ≠ n2 := by
          intro e; subst e
          exact hs (hd n1 hp hn)
        refine ⟨bridge_closedCurves h hp' hn' hne, ?_, ?_⟩
        · intro w hw
          rcases bridge_verts_sub hp' hn' w hw with h1 | h1 | h1
          · exact h1.1
          · subst h1; exact mem_segVertsAll.2 (Or.inl (List.mem_map.2 ⟨_, hp', rfl⟩))
          · subst h1; exact mem_segVertsAll.2 (Or.inr (List.mem_map.2 ⟨_, hn', rfl⟩))
        · have hb := bridge_length hp' hn' (h.2 _ hp')
          have u1 := upd_length readd (bridge res next n1 n2) (cands.filter (· != next)) n1
          have u2 := upd_length readd (bridge res next n1 n2)
            (if readd (bridge res next n1 n2) n1 then
              (if (cands.filter (· != next)).contains n1 then cands.filter (· != next) else n1 :: cands.filter (· != next))
             else (cands.filter (· != next)).filter (· != n1)) n2
          omega

end Step

/-- The oracles never bridge a vertex whose two neighbours coincide (for `Decimate` this is the
explicit duplicate-segment guard; for `EliminateColinear` it is geometry: the two segments of
such a vertex have opposite normals, so it is never eligible). -/
def Safe (pick : List Nat → List Seg → Option Nat) (skip : List Seg → Nat → Nat → Nat → Bool) : Prop :=
  ∀ cands res next n, pick cands res = some next → prevOf res next = some n → succOf res next = some n →
    skip res next n n = true

theorem removalLoop_spec (pick : List Nat → List Seg → Option Nat) (skip : List Seg → Nat → Nat → Nat → Bool)
    (readd : List Seg → Nat → Bool)
    (hpick : ∀ cands res next, pick cands res = some next → next ∈ cands) (hsafe : Safe pick skip) :
    ∀ (fuel : Nat) (cands : List Nat) (res : List Seg), ClosedCurves res →
      3 * res.length + cands.length < fuel →
      ∃ out, removalLoop pick skip readd fuel cands res = some out ∧ ClosedCurves out ∧
        ∀ w ∈ segVertsAll out, w ∈ segVertsAll res := by
  intro fuel
  induction fuel with
  | zero => intro _ _ _ h; omega
  | succ fuel ih =>
    intro cands res hcc hlt
    simp only [removalLoop]
    cases hpk : pick cands res with
    | none => exact ⟨res, rfl, hcc, fun _ h => h⟩
    | some next =>
      simp only
      obtain ⟨h1, h2, h3⟩ := removalStep_spec skip readd hcc (hpick _ _ _ hpk)
        (fun n hp hn => hsafe cands res next n hpk hp hn)
      obtain ⟨out, ho, hcl, hsub⟩ := ih (removalStep skip readd next cands res).1
        (removalStep skip readd next cands res).2 h1 (by omega)
      exact ⟨out, ho, hcl, fun w hw => h2 w (hsub w hw)⟩


/-! ## Decimation: filling the hole -/

/-- `fillLoop` returns `n - 2` triangles whose corners all lie on the loop — for every chord
oracle (i.e. whatever the aspect-ratio search decides) and every fuel. -/
theorem fillLoop_spec (chord : List Nat → Option (Nat × Nat)) :
    ∀ (fuel : Nat) (l : List Nat) (ts : List Tri), fillLoop chord fuel l = some ts →
      ts.length + 2 = l.length ∧ ∀ t ∈ ts, ∀ x ∈ triVerts t, x ∈ l := by
  intro fuel
  induction fuel with
  | zero => intro l ts h; simp [fillLoop] at h
  | succ fuel ih =>
    intro l ts h
    unfold fillLoop at h
    split at h
    · -- a loop of three
      cases h
      refine ⟨rfl, ?_⟩
      intro t ht x hx
      simp only [List.mem_singleton] at ht
      subst ht
      simp only [triVerts, List.mem_cons, List.not_mem_nil, or_false] at hx ⊢
      rcases hx with rfl | rfl | rfl <;> simp
    · split at h
      · cases h
      · rename_i hlen
        split at h
        · cases h
        · rename_i i j hch
          split at h
          · rename_i hij
            obtain ⟨h1, h2, h3⟩ := hij
            generalize hl1 : (l.drop i).take (j - i + 1) = loop1 at h
            generalize hl2 : l.drop j ++ l.take (i + 1) = loop2 at h
            cases hf1 : fillLoop chord fuel loop1 with
            | none => simp [hf1] at h
            | some t1 =>
              cases hf2 : fillLoop chord fuel loop2 with
              | none => simp [hf1, hf2] at h
              | some t2 =>
                simp only [hf1, hf2, Option.some.injEq] at h
                subst h
                obtain ⟨a1, b1⟩ := ih loop1 t1 hf1
                obtain ⟨a2, b2⟩ := ih loop2 t2 hf2
                have len1 : loop1.length = j - i + 1 := by
                  rw [← hl1, List.length_take, List.length_drop]; omega
                have len2 : loop2.length = l.length - j + (i + 1) := by
                  rw [← hl2, List.length_append, List.length_drop, List.length_take]; omega
                refine ⟨by rw [List.length_append]; omega, ?_⟩
                intro t ht x hx
                rcases List.mem_append.1 ht with ht | ht
                · have := b1 t ht x hx
                  rw [← hl1] at this
                  exact List.mem_of_mem_drop (List.mem_of_mem_take this)
                · have := b2 t ht x hx
                  rw [← hl2] at this
                  rcases List.mem_append.1 this with h | h
                  · exact List.mem_of_mem_drop h
                  · exact List.mem_of_mem_take h
          · cases h

/-- Consecutive pairs of a path. -/
def pathEdges (l : List Nat) : List Edge := List.zip l l.tail

theorem zip_append_left_of_le {u w z : List Nat} (h : w.length ≤ u.length) :
    List.zip (u ++ z) w = List.zip u w := by
  induction u generalizing w with
  | nil => cases w with
    | nil => simp
    | cons _ _ => simp at h
  | cons x u ih => cases w with
    | nil => simp
    | cons y w => simp at h; simp [ih h]

theorem cycleEdges_eq_path (a : Nat) (t : List Nat) : cycleEdges (a :: t) = pathEdges (a :: t ++ [a]) := by
  simp only [cycleEdges, pathEdges, List.cons_append, List.tail_cons]
  have : a :: (t ++ [a]) = (a :: t) ++ [a] := rfl
  rw [this, zip_append_left_of_le (by simp)]

theorem pathEdges_append (u w : List Nat) (m : Nat) :
    pathEdges (u ++ m :: w) = pathEdges (u ++ [m]) ++ pathEdges (m :: w) := by
  induction u with
  | nil => simp [pathEdges]
  | cons x u ih =>
    cases u with
    | nil => simp [pathEdges]
    | cons y u =>
      simp only [pathEdges, List.cons_append, List.tail_cons, List.zip_cons_cons] at ih ⊢
      rw [ih]

/-- **Splitting a loop along a chord**: the boundary edges of the two sub-loops `x…y` and `y…x`
are those of the whole loop plus the chord once in each direction (which cancel when the two
fillings are glued) — the inductive step of `fillLoop`. -/
theorem split_loop_edges (x y : Nat) (B D : List Nat) :
    (cycleEdges (x :: B ++ [y]) ++ cycleEdges (y :: D ++ [x])).Perm
      (cycleEdges (x :: B ++ y :: D) ++ [(y, x), (x, y)]) := by
  have e1 : cycleEdges (x :: B ++ [y]) = pathEdges (x :: B ++ [y]) ++ [(y, x)] := by
    have := cycleEdges_eq_path x (B ++ [y])
    rw [show x :: B ++ [y] = x :: (B ++ [y]) from rfl, this]
    have h := pathEdges_append (x :: B) [x] y
    simpa [pathEdges] using h
  have e2 : cycleEdges (y :: D ++ [x]) = pathEdges (y :: D ++ [x]) ++ [(x, y)] := by
    have := cycleEdges_eq_path y (D ++ [x])
    rw [show y :: D ++ [x] = y :: (D ++ [x]) from rfl, this]
    have h := pathEdges_append (y :: D) [y] x
    simpa [pathEdges] using h
  have e3 : cycleEdges (x :: B ++ y :: D) = pathEdges (x :: B ++ [y]) ++ pathEdges (y :: D ++ [x]) := by
    have := cycleEdges_eq_path x (B ++ y :: D)
    rw [show x :: B ++ y :: D = x :: (B ++ y :: D) from rfl, this]
    have h := pathEdges_append (x :: B) (D ++ [x]) y
    simpa using h
  rw [e1, e2, e3]
  -- (P1 ++ [yx]) ++ (P2 ++ [xy]) ~ (P1 ++ P2) ++ [yx, xy]
  have : (pathEdges (x :: B ++ [y]) ++ [(y, x)] ++ (pathEdges (y :: D ++ [x]) ++ [(x, y)])).Perm
      (pathEdges (x :: B ++ [y]) ++ (pathEdges (y :: D ++ [x]) ++ ([(y, x)] ++ [(x, y)]))) := by
    rw [List.append_assoc]
    apply List.Perm.append_left
    rw [← List.append_assoc, ← List.append_assoc]
    exact List.Perm.append_right _ List.perm_append_comm
  simpa [List.append_assoc] using this

end M3d.MeshOps
