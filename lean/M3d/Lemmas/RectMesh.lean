import M3d.Model.RectMesh
import M3d.Lemmas.RectSetHist
import Mathlib.Data.List.Nodup
import Mathlib.Tactic.Tauto
/-!
# `RectSet.ExactMesh`: a face is cancelled iff a second stored box has it (property C01)

Over every linear order `K`.  `Inv` is C04's representation invariant (the stored boxes are distinct cells of the
grid of the split lists), proved for every history of `Add / Remove / AddRectSet / RemoveRectSet` (`hinv`).

* `hist_pos`: boxes of positive extent in ⇒ stored boxes of positive extent;
* `mem_togAll_*`: the `uniqueQuads` loop keeps exactly the entries whose key occurs an odd number of times;
* `keys_boxQuads`: the six keys of a box are its six faces `faceKey r axis side`;
* `faceKey_eq`: two boxes of positive extent with a common face key have it on the same axis, agree on the other
  two axes, and — being cells of one grid — are equal (same side) or adjacent across that face (opposite sides);
* `exactQuads_iff`: a quad is in the result iff it is a face of a stored box that no OTHER stored box has.
-/
namespace M3d.RectMesh
open M3d.RectSet
set_option linter.unusedSectionVars false
set_option linter.unusedVariables false

/-! ### the toggle loop, generically -/
section toggle
variable {κ ν : Type} [DecidableEq κ]

def tog (m : List (κ × ν)) (e : κ × ν) : List (κ × ν) :=
  if m.any (fun x => decide (x.1 = e.1)) then m.filter (fun x => !decide (x.1 = e.1)) else m ++ [e]

def keys (m : List (κ × ν)) : List κ := m.map Prod.fst

theorem any_key (m : List (κ × ν)) (k : κ) : (m.any fun x => decide (x.1 = k)) = true ↔ k ∈ keys m := by
  simp only [List.any_eq_true, decide_eq_true_eq, keys, List.mem_map]

theorem mem_tog (m : List (κ × ν)) (e x : κ × ν) :
    x ∈ tog m e ↔ ((e.1 ∈ keys m ∧ x ∈ m ∧ x.1 ≠ e.1) ∨ (e.1 ∉ keys m ∧ (x ∈ m ∨ x = e))) := by
  unfold tog
  by_cases h : e.1 ∈ keys m
  · rw [if_pos ((any_key m e.1).2 h)]
    simp [h]
  · rw [if_neg (fun hh => h ((any_key m e.1).1 hh))]
    simp [h]

theorem mem_keys_tog (m : List (κ × ν)) (e : κ × ν) (k : κ) :
    k ∈ keys (tog m e) ↔ ((k = e.1 ∧ e.1 ∉ keys m) ∨ (k ≠ e.1 ∧ k ∈ keys m)) := by
  constructor
  · intro hk
    obtain ⟨x, hx, rfl⟩ := List.mem_map.1 hk
    rcases (mem_tog m e x).1 hx with ⟨h1, h2, h3⟩ | ⟨h1, h2 | rfl⟩
    · exact Or.inr ⟨h3, List.mem_map.2 ⟨x, h2, rfl⟩⟩
    · by_cases hk : x.1 = e.1
      · exact Or.inl ⟨hk, h1⟩
      · exact Or.inr ⟨hk, List.mem_map.2 ⟨x, h2, rfl⟩⟩
    · exact Or.inl ⟨rfl, h1⟩
  · rintro (⟨rfl, h⟩ | ⟨hne, hk⟩)
    · exact List.mem_map.2 ⟨e, (mem_tog m e e).2 (Or.inr ⟨h, Or.inr rfl⟩), rfl⟩
    · obtain ⟨x, hx, rfl⟩ := List.mem_map.1 hk
      by_cases h : e.1 ∈ keys m
      · exact List.mem_map.2 ⟨x, (mem_tog m e x).2 (Or.inl ⟨h, hx, hne⟩), rfl⟩
      · exact List.mem_map.2 ⟨x, (mem_tog m e x).2 (Or.inr ⟨h, Or.inl hx⟩), rfl⟩

theorem mem_foldl_tog (L : List (κ × ν)) : ∀ (m : List (κ × ν)) (x : κ × ν), x ∈ L.foldl tog m → x ∈ m ∨ x ∈ L := by
  induction L with
  | nil => intro m x h; exact Or.inl h
  | cons e L ih =>
    intro m x h
    rcases ih (tog m e) x h with h1 | h1
    · rcases (mem_tog m e x).1 h1 with ⟨_, h2, _⟩ | ⟨_, h2 | rfl⟩
      · exact Or.inl h2
      · exact Or.inl h2
      · exact Or.inr List.mem_cons_self
    · exact Or.inr (List.mem_cons_of_mem _ h1)

/-- a key is present after the loop iff (it was present) XOR (it was toggled an odd number of times) -/
theorem mem_keys_foldl_tog (k : κ) (L : List (κ × ν)) : ∀ (m : List (κ × ν)),
    (k ∈ keys (L.foldl tog m) ↔
      ((k ∈ keys m ∧ (keys L).count k % 2 = 0) ∨ (k ∉ keys m ∧ (keys L).count k % 2 = 1))) := by
  induction L with
  | nil => intro m; simp [keys]
  | cons e L ih =>
    intro m
    rw [List.foldl_cons, ih (tog m e), mem_keys_tog]
    have hc : (keys (e :: L)).count k = (keys L).count k + (if e.1 = k then 1 else 0) := by
      simp only [keys, List.map_cons, List.count_cons, beq_iff_eq]
    rw [hc]
    by_cases hk : e.1 = k
    · subst hk
      simp only [if_true, true_and, ne_eq, not_true_eq_false, false_and, or_false, not_not]
      by_cases hm : e.1 ∈ keys m
      · simp only [hm, not_true_eq_false, false_and, true_and, false_or, or_false]
        omega
      · simp only [hm, not_false_eq_true, true_and, false_and, false_or, or_false]
        omega
    · have hk' : k ≠ e.1 := fun h => hk h.symm
      simp only [hk, if_false, Nat.add_zero, hk', false_and, false_or, ne_eq, not_false_eq_true, true_and]

def togAll (L : List (κ × ν)) : List (κ × ν) := L.foldl tog []

theorem mem_togAll (L : List (κ × ν)) (x : κ × ν) (h : x ∈ togAll L) :
    x ∈ L ∧ (keys L).count x.1 % 2 = 1 := by
  refine ⟨(mem_foldl_tog L [] x h).resolve_left (by simp), ?_⟩
  have hk : x.1 ∈ keys (togAll L) := List.mem_map.2 ⟨x, h, rfl⟩
  rcases (mem_keys_foldl_tog x.1 L []).1 hk with ⟨h1, _⟩ | ⟨_, h2⟩
  · simp [keys] at h1
  · exact h2

theorem unique_of_count_one (L : List (κ × ν)) (k : κ) (h : (keys L).count k = 1) {x y : κ × ν}
    (hx : x ∈ L) (hy : y ∈ L) (kx : x.1 = k) (ky : y.1 = k) : x = y := by
  induction L with
  | nil => cases hx
  | cons e L ih =>
    simp only [keys, List.map_cons, List.count_cons, beq_iff_eq] at h
    by_cases he : e.1 = k
    · have h0 : (List.map Prod.fst L).count k = 0 := by simp [he] at h; exact h
      have hno : ∀ z ∈ L, z.1 ≠ k := by
        intro z hz hzk
        have : k ∈ List.map Prod.fst L := List.mem_map.2 ⟨z, hz, hzk⟩
        exact (List.count_eq_zero.1 h0) this
      rcases List.mem_cons.1 hx with rfl | hx'
      · rcases List.mem_cons.1 hy with rfl | hy'
        · rfl
        · exact absurd ky (hno y hy')
      · exact absurd kx (hno x hx')
    · have h1 : (List.map Prod.fst L).count k = 1 := by simp [he] at h; exact h
      rcases List.mem_cons.1 hx with rfl | hx'
      · exact absurd kx he
      · rcases List.mem_cons.1 hy with rfl | hy'
        · exact absurd ky he
        · exact ih h1 hx' hy'

theorem mem_togAll_of_count_one (L : List (κ × ν)) (x : κ × ν) (hx : x ∈ L) (h : (keys L).count x.1 = 1) :
    x ∈ togAll L := by
  have hk : x.1 ∈ keys (togAll L) :=
    (mem_keys_foldl_tog x.1 L []).2 (Or.inr ⟨by simp [keys], by rw [h]⟩)
  obtain ⟨y, hy, hyx⟩ := List.mem_map.1 hk
  have hyL := (mem_togAll L y hy).1
  rw [unique_of_count_one L x.1 h hx hyL rfl hyx]
  exact hy

end toggle

/-! ### counting a key over the boxes -/
section count
variable {β γ : Type} [DecidableEq β] [DecidableEq γ]

theorem count_flatMap_one (g : β → List γ) (k : γ) : ∀ (l : List β), l.Nodup → (∀ x ∈ l, (g x).Nodup) →
    ∀ c ∈ l, k ∈ g c → ((l.flatMap g).count k = 1 ↔ ∀ c' ∈ l, c' ≠ c → k ∉ g c') := by
  intro l
  induction l with
  | nil => intro _ _ c hc; cases hc
  | cons x l ih =>
    intro hn hg c hc hk
    rw [List.flatMap_cons, List.count_append]
    have hn' := List.nodup_cons.1 hn
    rcases List.mem_cons.1 hc with rfl | hc'
    · have h1 : (g c).count k = 1 := List.count_eq_one_of_mem (hg c List.mem_cons_self) hk
      rw [h1]
      constructor
      · intro h c' hc' hne
        rcases List.mem_cons.1 hc' with rfl | hc''
        · exact absurd rfl hne
        · intro hkc
          have : k ∈ l.flatMap g := List.mem_flatMap.2 ⟨c', hc'', hkc⟩
          have := List.count_pos_iff.2 this
          omega
      · intro h
        have : (l.flatMap g).count k = 0 := by
          rw [List.count_eq_zero]
          intro hm
          obtain ⟨c', hc', hkc⟩ := List.mem_flatMap.1 hm
          exact h c' (List.mem_cons_of_mem _ hc') (fun e => hn'.1 (e ▸ hc')) hkc
        omega
    · have hxc : x ≠ c := fun e => hn'.1 (e ▸ hc')
      have hpos : 0 < (l.flatMap g).count k := List.count_pos_iff.2 (List.mem_flatMap.2 ⟨c, hc', hk⟩)
      by_cases hkx : k ∈ g x
      · have : 0 < (g x).count k := List.count_pos_iff.2 hkx
        constructor
        · intro h; omega
        · intro h; exact absurd hkx (h x List.mem_cons_self hxc)
      · have h0 : (g x).count k = 0 := List.count_eq_zero.2 hkx
        rw [h0, Nat.zero_add, ih hn'.2 (fun y hy => hg y (List.mem_cons_of_mem _ hy)) c hc' hk]
        constructor
        · intro h c' hc'' hne
          rcases List.mem_cons.1 hc'' with rfl | h3
          · exact hkx
          · exact h c' h3 hne
        · intro h c' hc'' hne
          exact h c' (List.mem_cons_of_mem _ hc'') hne

/-- exactly two boxes have the key ⇒ it occurs twice -/
theorem count_flatMap_two (g : β → List γ) (k : γ) : ∀ (l : List β), l.Nodup → (∀ x ∈ l, (g x).Nodup) →
    ∀ c ∈ l, ∀ c' ∈ l, c ≠ c' → k ∈ g c → k ∈ g c' → (∀ x ∈ l, k ∈ g x → x = c ∨ x = c') →
    (l.flatMap g).count k = 2 := by
  intro l
  induction l with
  | nil => intro _ _ c hc; cases hc
  | cons x l ih =>
    intro hn hg c hc c' hc' hne hk hk' hall
    rw [List.flatMap_cons, List.count_append]
    have hn' := List.nodup_cons.1 hn
    have hgl : ∀ y ∈ l, (g y).Nodup := fun y hy => hg y (List.mem_cons_of_mem _ hy)
    have one : ∀ a ∈ l, ∀ b, b ≠ a → (b = x) → k ∈ g a → (∀ y ∈ x :: l, k ∈ g y → y = a ∨ y = b) →
        (l.flatMap g).count k = 1 := by
      intro a ha b hba hbx hka hab
      rw [count_flatMap_one g k l hn'.2 hgl a ha hka]
      intro y hy hya hky
      rcases hab y (List.mem_cons_of_mem _ hy) hky with e | e
      · exact hya e
      · exact hn'.1 (hbx ▸ e ▸ hy)
    rcases List.mem_cons.1 hc with rfl | hcl
    · rcases List.mem_cons.1 hc' with rfl | hcl'
      · exact absurd rfl hne
      · rw [List.count_eq_one_of_mem (hg c List.mem_cons_self) hk,
          one c' hcl' c hne rfl hk' (fun y hy hky => (hall y hy hky).symm)]
    · rcases List.mem_cons.1 hc' with rfl | hcl'
      · rw [List.count_eq_one_of_mem (hg c' List.mem_cons_self) hk',
          one c hcl c' (Ne.symm hne) rfl hk hall]
      · have hx : k ∉ g x := by
          intro hkx
          rcases hall x List.mem_cons_self hkx with e | e
          · exact hn'.1 (e ▸ hcl)
          · exact hn'.1 (e ▸ hcl')
        rw [List.count_eq_zero.2 hx, Nat.zero_add]
        exact ih hn'.2 hgl c hcl c' hcl' hne hk hk' (fun y hy => hall y (List.mem_cons_of_mem _ hy))

end count

/-! ### faces of a box and their keys -/
section geom
variable {K : Type} [LinearOrder K] [OfNat K 0]

/-- positive extent on every axis -/
def Pos (r : Rect K) : Prop := ∀ ax, ax < 3 → r.lo.get ax < r.hi.get ax

/-- the key of the face of `r` on axis `a`, side `s` (`true` = the max side): the box with axis `a` collapsed
onto that side -/
def faceKey (r : Rect K) (a : Nat) (s : Bool) : V3 K × V3 K :=
  (r.lo.set a (if s then r.hi.get a else r.lo.get a), r.hi.set a (if s then r.hi.get a else r.lo.get a))

/-- (axis, side) of the six quads of `boxQuads`, in its order -/
def faces : List (Nat × Bool) := [(1, false), (1, true), (0, false), (0, true), (2, false), (2, true)]

theorem smin_self (a : K) : smin a a = a := by unfold smin; simp
theorem smax_self (a : K) : smax a a = a := by unfold smax; simp
theorem smin_lt {a b : K} (h : a < b) : smin a b = a ∧ smin b a = a := by
  unfold smin; exact ⟨if_neg (lt_asymm h), if_pos h⟩
theorem smax_lt {a b : K} (h : a < b) : smax a b = b ∧ smax b a = b := by
  unfold smax; exact ⟨if_pos h, if_neg (lt_asymm h)⟩

/-- `quadMinMax` of the six quads of a box = its six faces -/
theorem keys_boxQuads (r : Rect K) (h : Pos r) :
    (boxQuads r).map quadKey = faces.map (fun f => faceKey r f.1 f.2) := by
  obtain ⟨⟨a, b, c⟩, ⟨d, e, f⟩⟩ := r
  have hx : a < d := h 0 (by omega)
  have hy : b < e := h 1 (by omega)
  have hz : c < f := h 2 (by omega)
  simp [boxQuads, corner, quadKey, vmin, vmax, faces, faceKey, V3.get, V3.set, smin_self, smax_self,
    (smin_lt hx).1, (smin_lt hx).2, (smin_lt hy).1, (smin_lt hy).2, (smin_lt hz).1, (smin_lt hz).2,
    (smax_lt hx).1, (smax_lt hx).2, (smax_lt hy).1, (smax_lt hy).2, (smax_lt hz).1, (smax_lt hz).2]

theorem faces_lt {f : Nat × Bool} (h : f ∈ faces) : f.1 < 3 := by
  simp only [faces, List.mem_cons, List.not_mem_nil, or_false] at h
  rcases h with rfl | rfl | rfl | rfl | rfl | rfl <;> simp

/-- two boxes of positive extent with a common face key: same axis, same extent on the other axes, same plane -/
theorem faceKey_eq {c c' : Rect K} (hc' : Pos c') {a a' : Nat} (ha : a < 3) (ha' : a' < 3) {s s' : Bool}
    (h : faceKey c a s = faceKey c' a' s') :
    a = a' ∧ (∀ b, b < 3 → b ≠ a → c.lo.get b = c'.lo.get b ∧ c.hi.get b = c'.hi.get b) ∧
      (if s then c.hi.get a else c.lo.get a) = (if s' then c'.hi.get a else c'.lo.get a) := by
  unfold faceKey at h
  obtain ⟨h1, h2⟩ := Prod.mk.inj h
  have haa : a = a' := by
    by_contra hne
    have e1 := congrArg (fun v => v.get a) h1
    have e2 := congrArg (fun v => v.get a) h2
    simp only [V3.get_set_same] at e1 e2
    rw [V3.get_set_ne _ ha' ha (fun e => hne e.symm)] at e1 e2
    exact absurd (e1.symm.trans e2) (ne_of_lt (hc' a ha))
  subst haa
  refine ⟨rfl, fun b hb hba => ?_, ?_⟩
  · have e1 := congrArg (fun v => v.get b) h1
    have e2 := congrArg (fun v => v.get b) h2
    rw [V3.get_set_ne _ ha hb (Ne.symm hba), V3.get_set_ne _ ha hb (Ne.symm hba)] at e1 e2
    exact ⟨e1, e2⟩
  · have e1 := congrArg (fun v => v.get a) h1
    simpa only [V3.get_set_same] using e1

/-- the six keys of one box of positive extent are distinct -/
theorem nodup_keys (c : Rect K) (hc : Pos c) : ((boxQuads c).map quadKey).Nodup := by
  rw [keys_boxQuads c hc]
  refine List.Nodup.map_on ?_ (by decide)
  intro x hx y hy hxy
  obtain ⟨e1, _, e3⟩ := faceKey_eq hc (faces_lt hx) (faces_lt hy) hxy
  have hlt := hc x.1 (faces_lt hx)
  refine Prod.ext e1 ?_
  cases hs : x.2 <;> cases hs' : y.2
  · rfl
  · rw [hs, hs'] at e3; simp only [if_true, Bool.false_eq_true, if_false] at e3
    exact absurd e3 (ne_of_lt hlt)
  · rw [hs, hs'] at e3; simp only [if_true, Bool.false_eq_true, if_false] at e3
    exact absurd e3.symm (ne_of_lt hlt)
  · rfl

/-- two CELLS of one grid that have a face key on the same side are the same cell -/
theorem same_side_eq {S : V3 (List K)} {c c' : Rect K} (hc : Pos c) (hc' : Pos c')
    (ec : ∀ ax, ax < 3 → c.lo.get ax ∈ S.get ax ∧ c.hi.get ax ∈ S.get ax)
    (ac : ∀ ax, ax < 3 → ∀ w ∈ S.get ax, ¬ (c.lo.get ax < w ∧ w < c.hi.get ax))
    (ec' : ∀ ax, ax < 3 → c'.lo.get ax ∈ S.get ax ∧ c'.hi.get ax ∈ S.get ax)
    (ac' : ∀ ax, ax < 3 → ∀ w ∈ S.get ax, ¬ (c'.lo.get ax < w ∧ w < c'.hi.get ax))
    {a a' : Nat} (ha : a < 3) (ha' : a' < 3) {s : Bool} (h : faceKey c a s = faceKey c' a' s) : c = c' := by
  obtain ⟨e1, e2, e3⟩ := faceKey_eq hc' ha ha' h
  have p := hc a ha
  have p' := hc' a ha
  cases s
  · simp only [Bool.false_eq_true, if_false] at e3
    apply Rect.ext_get
    · intro b hb
      by_cases hba : b = a
      · subst hba; exact e3
      · exact (e2 b hb hba).1
    · intro b hb
      by_cases hba : b = a
      · subst hba
        rcases lt_trichotomy (c.hi.get b) (c'.hi.get b) with hlt | heq | hgt
        · exact absurd ⟨e3 ▸ p, hlt⟩ (ac' b hb _ (ec b hb).2)
        · exact heq
        · exact absurd ⟨e3.symm ▸ p', hgt⟩ (ac b hb _ (ec' b hb).2)
      · exact (e2 b hb hba).2
  · simp only [if_true] at e3
    apply Rect.ext_get
    · intro b hb
      by_cases hba : b = a
      · subst hba
        rcases lt_trichotomy (c.lo.get b) (c'.lo.get b) with hlt | heq | hgt
        · exact absurd ⟨hlt, e3.symm ▸ p'⟩ (ac b hb _ (ec' b hb).1)
        · exact heq
        · exact absurd ⟨hgt, e3 ▸ p⟩ (ac' b hb _ (ec b hb).1)
      · exact (e2 b hb hba).1
    · intro b hb
      by_cases hba : b = a
      · subst hba; exact e3
      · exact (e2 b hb hba).2

theorem mem_keys_iff (c : Rect K) (hc : Pos c) (k : V3 K × V3 K) :
    k ∈ (boxQuads c).map quadKey ↔ ∃ a s, a < 3 ∧ (a, s) ∈ faces ∧ faceKey c a s = k := by
  rw [keys_boxQuads c hc, List.mem_map]
  constructor
  · rintro ⟨f, hf, rfl⟩; exact ⟨f.1, f.2, faces_lt hf, hf, rfl⟩
  · rintro ⟨a, s, _, hf, rfl⟩; exact ⟨(a, s), hf, rfl⟩

theorem toggle_eq_tog (m : List ((V3 K × V3 K) × Quad K)) (q : Quad K) : toggle m q = tog m (quadKey q, q) := rfl

theorem exactQuads_eq (rects : List (Rect K)) :
    exactQuads rects = (togAll ((rects.flatMap boxQuads).map fun q => (quadKey q, q))).map Prod.snd := by
  unfold exactQuads togAll
  rw [List.foldl_map]
  rfl

theorem keys_all (rects : List (Rect K)) :
    keys ((rects.flatMap boxQuads).map fun q => (quadKey q, q)) = rects.flatMap fun c => (boxQuads c).map quadKey := by
  unfold keys
  rw [List.map_map, List.map_flatMap]
  rfl

/-- **Face cancellation, exactly**: on a state satisfying the representation invariant whose stored boxes have
positive extent, a quad is in the result of the `uniqueQuads` loop iff it is a face of a stored box and no OTHER
stored box has a face with the same key. -/
theorem exactQuads_iff {s : RS K} (hI : Inv s) (hP : ∀ r ∈ s.rects, Pos r) (q : Quad K) :
    q ∈ exactQuads s.rects ↔
      ∃ c ∈ s.rects, q ∈ boxQuads c ∧ ∀ c' ∈ s.rects, c' ≠ c → quadKey q ∉ (boxQuads c').map quadKey := by
  have hg : ∀ x ∈ s.rects, ((boxQuads x).map quadKey).Nodup := fun x hx => nodup_keys x (hP x hx)
  rw [exactQuads_eq]
  constructor
  · intro hq
    obtain ⟨x, hx, rfl⟩ := List.mem_map.1 hq
    obtain ⟨hxL, hodd⟩ := mem_togAll _ x hx
    obtain ⟨q', hq', rfl⟩ := List.mem_map.1 hxL
    obtain ⟨c, hc, hqc⟩ := List.mem_flatMap.1 hq'
    refine ⟨c, hc, hqc, fun c' hc' hne hk' => ?_⟩
    have hk : quadKey q' ∈ (boxQuads c).map quadKey := List.mem_map.2 ⟨q', hqc, rfl⟩
    rw [keys_all] at hodd
    have h2 := count_flatMap_two (fun c => (boxQuads c).map quadKey) (quadKey q') s.rects hI.nodup hg c hc c' hc'
      (Ne.symm hne) hk hk' (by
      intro x hx hkx
      obtain ⟨a, sd, ha, _, e⟩ := (mem_keys_iff c (hP c hc) _).1 hk
      obtain ⟨a', sd', ha', _, e'⟩ := (mem_keys_iff c' (hP c' hc') _).1 hk'
      obtain ⟨a'', sd'', ha'', _, e''⟩ := (mem_keys_iff x (hP x hx) _).1 hkx
      by_cases h1 : sd'' = sd
      · left
        exact same_side_eq (hP x hx) (hP c hc) (hI.ends x hx) (hI.aligned x hx) (hI.ends c hc) (hI.aligned c hc)
          ha'' ha (s := sd) (by rw [h1] at e''; exact e''.trans e.symm)
      · right
        have h3 : sd' ≠ sd := by
          intro h3
          exact hne (same_side_eq (hP c' hc') (hP c hc) (hI.ends c' hc') (hI.aligned c' hc') (hI.ends c hc)
            (hI.aligned c hc) ha' ha (s := sd) (by rw [h3] at e'; exact e'.trans e.symm))
        have h4 : sd'' = sd' := by
          cases sd <;> cases sd' <;> cases sd'' <;> simp_all
        exact same_side_eq (hP x hx) (hP c' hc') (hI.ends x hx) (hI.aligned x hx) (hI.ends c' hc')
          (hI.aligned c' hc') ha'' ha' (s := sd') (by rw [h4] at e''; exact e''.trans e'.symm))
    rw [h2] at hodd
    omega
  · rintro ⟨c, hc, hqc, hno⟩
    have hk : quadKey q ∈ (boxQuads c).map quadKey := List.mem_map.2 ⟨q, hqc, rfl⟩
    have hL : (quadKey q, q) ∈ (s.rects.flatMap boxQuads).map fun q => (quadKey q, q) :=
      List.mem_map.2 ⟨q, List.mem_flatMap.2 ⟨c, hc, hqc⟩, rfl⟩
    have h1 := (count_flatMap_one (fun c => (boxQuads c).map quadKey) (quadKey q) s.rects hI.nodup hg c hc hk).2 hno
    exact List.mem_map.2 ⟨_, mem_togAll_of_count_one _ _ hL (by rw [keys_all]; exact h1), rfl⟩

/-- … and a face key shared by two DIFFERENT stored boxes is the face between two adjacent cells: same extent on
the other two axes, and the max face of one is the min face of the other. -/
theorem shared_face_adjacent {s : RS K} (hI : Inv s) (hP : ∀ r ∈ s.rects, Pos r) {c c' : Rect K}
    (hc : c ∈ s.rects) (hc' : c' ∈ s.rects) (hne : c ≠ c') {k : V3 K × V3 K}
    (hk : k ∈ (boxQuads c).map quadKey) (hk' : k ∈ (boxQuads c').map quadKey) :
    ∃ a, a < 3 ∧ (∀ b, b < 3 → b ≠ a → c.lo.get b = c'.lo.get b ∧ c.hi.get b = c'.hi.get b) ∧
      ((c.hi.get a = c'.lo.get a ∧ k = faceKey c a true ∧ k = faceKey c' a false) ∨
       (c.lo.get a = c'.hi.get a ∧ k = faceKey c a false ∧ k = faceKey c' a true)) := by
  obtain ⟨a, sd, ha, _, e⟩ := (mem_keys_iff c (hP c hc) _).1 hk
  obtain ⟨a', sd', ha', _, e'⟩ := (mem_keys_iff c' (hP c' hc') _).1 hk'
  obtain ⟨e1, e2, e3⟩ := faceKey_eq (hP c' hc') ha ha' (e.trans e'.symm)
  subst e1
  have hsd : sd ≠ sd' := by
    intro h
    subst h
    exact hne (same_side_eq (hP c hc) (hP c' hc') (hI.ends c hc) (hI.aligned c hc) (hI.ends c' hc')
      (hI.aligned c' hc') ha ha (e.trans e'.symm))
  refine ⟨a, ha, e2, ?_⟩
  cases sd <;> cases sd'
  · exact absurd rfl hsd
  · right; simp only [Bool.false_eq_true, if_false, if_true] at e3; exact ⟨e3, e.symm, e'.symm⟩
  · left; simp only [Bool.false_eq_true, if_false, if_true] at e3; exact ⟨e3, e.symm, e'.symm⟩
  · exact absurd rfl hsd

/-! ### positive extent is kept by every operation -/

theorem pos_splitRect {r r1 r2 : Rect K} {ax : Nat} {v : K} (hax : ax < 3) (hr : Pos r)
    (h : splitRect r ax v = some (r1, r2)) : Pos r1 ∧ Pos r2 := by
  obtain ⟨h1, h2, rfl, rfl⟩ := splitRect_some h
  constructor
  · intro b hb
    simp only
    rw [V3.get_set _ hax hb]
    split_ifs with e
    · subst e; exact h1
    · exact hr b hb
  · intro b hb
    simp only
    rw [V3.get_set _ hax hb]
    split_ifs with e
    · subst e; exact h2
    · exact hr b hb

theorem pos_splitAll {rects : List (Rect K)} (hn : rects.Nodup) (hP : ∀ r ∈ rects, Pos r) {ax : Nat} (hax : ax < 3)
    (v : K) : ∀ q ∈ splitAll rects ax v, Pos q := by
  intro q hq
  rcases (mem_splitAll hn ax v q).1 hq with ⟨h1, _⟩ | ⟨r, hr, r1, r2, hs, h2⟩
  · exact hP q h1
  · rcases h2 with rfl | rfl
    · exact (pos_splitRect hax (hP r hr) hs).1
    · exact (pos_splitRect hax (hP r hr) hs).2

theorem pos_addMany (l : List (Nat × K)) : ∀ {s : RS K}, Inv s → (∀ av ∈ l, av.1 < 3) → (∀ r ∈ s.rects, Pos r) →
    ∀ q ∈ (addMany s l).rects, Pos q := by
  induction l with
  | nil => intro s _ _ hP; exact hP
  | cons av l ih =>
    intro s hI hl hP
    have hav : av.1 < 3 := hl av List.mem_cons_self
    have hP' : ∀ r ∈ (addSplit s av.1 av.2).rects, Pos r := by
      rw [addSplit_eq hI hav]
      exact pos_splitAll hI.nodup hP hav av.2
    exact ih (inv_addSplit hI hav av.2) (fun x hx => hl x (List.mem_cons_of_mem _ hx)) hP'

theorem pos_addRectSplits {s : RS K} (hI : Inv s) (hP : ∀ r ∈ s.rects, Pos r) (r : Rect K) :
    ∀ q ∈ (addRectSplits s r).rects, Pos q := by
  rw [addRectSplits_eq]
  refine pos_addMany _ hI ?_ hP
  intro av hav
  simp only [List.mem_cons, List.not_mem_nil, or_false] at hav
  rcases hav with rfl | rfl | rfl | rfl | rfl | rfl <;> simp

theorem pos_addSplitsOf {s : RS K} (hI : Inv s) (hP : ∀ r ∈ s.rects, Pos r) (o : V3 (List K)) :
    ∀ q ∈ (addSplitsOf s o).rects, Pos q := by
  rw [addSplitsOf_eq]
  refine pos_addMany _ hI ?_ hP
  intro av hav
  simp only [List.mem_append, List.mem_map] at hav
  rcases hav with (⟨_, _, rfl⟩ | ⟨_, _, rfl⟩) | ⟨_, _, rfl⟩ <;> simp

theorem pos_pieces {ax : Nat} (hax : ax < 3) : ∀ (vs : List K) (cur : Rect K), Pos cur → ∀ q ∈ pieces ax cur vs, Pos q := by
  intro vs
  induction vs with
  | nil => intro cur hc q hq; simp only [pieces, List.mem_singleton] at hq; exact hq ▸ hc
  | cons v vs ih =>
    intro cur hc q hq
    unfold pieces at hq
    cases h : splitRect cur ax v with
    | none => simp only [h] at hq; exact ih cur hc q hq
    | some pr =>
      obtain ⟨r1, r2⟩ := pr
      simp only [h] at hq
      obtain ⟨p1, p2⟩ := pos_splitRect hax hc h
      rcases List.mem_cons.1 hq with rfl | hq'
      · exact p1
      · exact ih r2 p2 q hq'

theorem pos_splitRectAll (sp : V3 (List K)) {r : Rect K} (hr : Pos r) : ∀ q ∈ splitRectAll sp r, Pos q := by
  have e : splitRectAll sp r = (([r].flatMap (fun q => splitRectAxis (sp.get 0) q 0)).flatMap
      (fun q => splitRectAxis (sp.get 1) q 1)).flatMap (fun q => splitRectAxis (sp.get 2) q 2) := rfl
  have step : ∀ (L : List (Rect K)) (ax : Nat), ax < 3 → (∀ q ∈ L, Pos q) →
      ∀ q ∈ L.flatMap (fun q => splitRectAxis (sp.get ax) q ax), Pos q := by
    intro L ax hax hL q hq
    obtain ⟨q0, hq0, hq⟩ := List.mem_flatMap.1 hq
    rw [splitRectAxis_eq] at hq
    exact pos_pieces hax _ q0 (hL q0 hq0) q hq
  rw [e]
  refine step _ 2 (by omega) (step _ 1 (by omega) (step _ 0 (by omega) ?_))
  intro q hq
  rw [List.mem_singleton] at hq
  exact hq ▸ hr

attribute [local irreducible] addRectSplits addSplitsOf insertPieces erasePieces rebuildSplits splitRectAll

/-- **Every history of boxes of positive extent stores boxes of positive extent.** -/
theorem hist_pos (h : Hist K) (hb : ∀ r ∈ h.boxes, Pos r) : ∀ q ∈ h.eval.rects, Pos q := by
  induction h with
  | new => intro q hq; simp [Hist.eval, RS.empty] at hq
  | add h r ih =>
    have hb' : ∀ r' ∈ h.boxes, Pos r' := fun r' hr' => hb r' (List.mem_cons_of_mem _ hr')
    have hI := (hinv h).inv
    have a1 := (addRectSplits_spec hI r).1
    intro q hq
    rw [Hist.eval, add_eq] at hq
    rcases ((mem_insertPieces (addRectSplits h.eval r).splits [r] (addRectSplits h.eval r).rects a1.nodup).2 q).1 hq with h1 | ⟨r', hr', h1⟩
    · exact pos_addRectSplits hI (ih hb') r q h1
    · rw [List.mem_singleton] at hr'; subst hr'
      exact pos_splitRectAll _ (hb r' List.mem_cons_self) q h1
  | remove h r ih =>
    have hb' : ∀ r' ∈ h.boxes, Pos r' := fun r' hr' => hb r' (List.mem_cons_of_mem _ hr')
    have hI := (hinv h).inv
    have a1 := (addRectSplits_spec hI r).1
    intro q hq
    rw [Hist.eval, remove_eq] at hq
    exact pos_addRectSplits hI (ih hb') r q (((mem_erasePieces (addRectSplits h.eval r).splits [r] (addRectSplits h.eval r).rects a1.nodup).2 q).1 hq).1
  | addSet h h1 ih ih1 =>
    have hb' : ∀ r' ∈ h.boxes, Pos r' := fun r' hr' => hb r' (List.mem_append_left _ hr')
    have hb1 : ∀ r' ∈ h1.boxes, Pos r' := fun r' hr' => hb r' (List.mem_append_right _ hr')
    have hI := (hinv h).inv
    have a1 := (addSplitsOf_spec hI h1.eval.splits).1
    intro q hq
    rw [Hist.eval, addSet_eq] at hq
    rcases ((mem_insertPieces (addSplitsOf h.eval h1.eval.splits).splits h1.eval.rects (addSplitsOf h.eval h1.eval.splits).rects a1.nodup).2 q).1 hq with h2 | ⟨r', hr', h2⟩
    · exact pos_addSplitsOf hI (ih hb') _ q h2
    · exact pos_splitRectAll _ (ih1 hb1 r' hr') q h2
  | removeSet h h1 ih ih1 =>
    have hb' : ∀ r' ∈ h.boxes, Pos r' := fun r' hr' => hb r' (List.mem_append_left _ hr')
    have hI := (hinv h).inv
    have a1 := (addSplitsOf_spec hI h1.eval.splits).1
    intro q hq
    rw [Hist.eval, removeSet_eq] at hq
    exact pos_addSplitsOf hI (ih hb') _ q (((mem_erasePieces (addSplitsOf h.eval h1.eval.splits).splits h1.eval.rects (addSplitsOf h.eval h1.eval.splits).rects a1.nodup).2 q).1 hq).1

end geom

end M3d.RectMesh
