import M3d.Model.Partition
import Mathlib.Data.List.Perm.Basic
import Mathlib.Data.List.Range
import Mathlib.Data.List.Nodup
import Mathlib.Tactic.Ring
/-!
Lemmas for `M3d.Model.Partition` (property C12): splitting partitions cells, `Pieces` partitions
the root, ring of slab caches, dual-contouring windows, raster tiles.
-/
namespace M3d.Partition
open M3d.Marching

/-! ### ranges -/

theorem range'_mid (a b : Nat) :
    List.range' a (b - a) = List.range' a ((b + a) / 2 - a) ++ List.range' ((b + a) / 2) (b - (b + a) / 2) := by
  by_cases h : a ≤ b
  · have e : (b + a) / 2 = a + ((b + a) / 2 - a) := by omega
    conv_rhs => rw [e]
    rw [← e, show List.range' ((b + a) / 2) (b - (b + a) / 2) = List.range' (a + ((b + a) / 2 - a)) (b - (b + a) / 2) by rw [← e]]
    rw [List.range'_append_1]
    congr 1
    omega
  · have h1 : b - a = 0 := by omega
    have h2 : (b + a) / 2 - a = 0 := by omega
    have h3 : b - (b + a) / 2 = 0 := by omega
    simp [h1, h2, h3]

theorem perm_swap_mid {α} (a b c d : List α) : ((a ++ b) ++ (c ++ d)).Perm ((a ++ c) ++ (b ++ d)) := by
  simp only [List.append_assoc]
  exact List.Perm.append_left a (List.perm_append_comm_assoc b c d)

theorem flatMap_flatMap_append_perm {α β γ} (l : List α) (m : α → List β) (f g : α → β → List γ) :
    (l.flatMap fun z => (m z).flatMap fun y => f z y ++ g z y).Perm
      ((l.flatMap fun z => (m z).flatMap (f z)) ++ (l.flatMap fun z => (m z).flatMap (g z))) := by
  have h1 : (l.flatMap fun z => (m z).flatMap fun y => f z y ++ g z y).Perm
      (l.flatMap fun z => (m z).flatMap (f z) ++ (m z).flatMap (g z)) :=
    List.Perm.flatMap_left l fun z _ => (List.flatMap_append_perm (m z) (f z) (g z)).symm
  exact h1.trans (List.flatMap_append_perm l _ _).symm

/-! ### blocks -/

theorem Block.mem_cells (b : Block) (c : Nat × Nat × Nat) : c ∈ b.cells ↔ b.Mem c := by
  obtain ⟨x, y, z⟩ := c
  simp only [Block.cells, Block.Mem, Block.lenX, Block.lenY, Block.lenZ, List.mem_flatMap, List.mem_map,
    List.mem_range'_1, Prod.mk.injEq]
  constructor
  · rintro ⟨z', hz, y', hy, x', hx, rfl, rfl, rfl⟩
    omega
  · intro h
    exact ⟨z, by omega, y, by omega, x, by omega, rfl, rfl, rfl⟩

theorem Block.cells_nodup (b : Block) : b.cells.Nodup := by
  unfold Block.cells
  rw [List.nodup_flatMap]
  refine ⟨fun z _ => ?_, ?_⟩
  · rw [List.nodup_flatMap]
    refine ⟨fun y _ => ?_, ?_⟩
    · exact (List.nodup_range' 1).map (fun a b h => by simpa using h)
    · refine (List.pairwise_lt_range' (s := b.y0) (n := b.lenY) 1).imp ?_
      intro y1 y2 hlt
      simp only [Function.onFun, List.disjoint_left, List.mem_map]
      rintro c ⟨x1, _, rfl⟩ ⟨x2, _, h⟩
      simp only [Prod.mk.injEq] at h
      omega
  · refine (List.pairwise_lt_range' (s := b.z0) (n := b.lenZ) 1).imp ?_
    intro z1 z2 hlt
    simp only [Function.onFun, List.disjoint_left, List.mem_flatMap, List.mem_map]
    rintro c ⟨y1, _, x1, _, rfl⟩ ⟨y2, _, x2, _, h⟩
    simp only [Prod.mk.injEq] at h
    omega

/-- The cells of a block are, up to order, the cells of its two halves. -/
theorem Block.cells_split_perm (b : Block) : b.cells.Perm (b.split.1.cells ++ b.split.2.cells) := by
  unfold Block.split
  by_cases h0 : b.splitAxis = 0
  · simp only [h0, if_true, Block.cells, Block.lenX, Block.lenY, Block.lenZ]
    rw [range'_mid b.x0 b.x1]
    simp only [List.map_append]
    exact flatMap_flatMap_append_perm _ _ _ _
  · by_cases h1 : b.splitAxis = 1
    · simp only [h1, if_true, Block.cells, Block.lenX, Block.lenY, Block.lenZ]
      rw [range'_mid b.y0 b.y1]
      simp only [List.flatMap_append]
      exact (List.flatMap_append_perm _ _ _).symm
    · simp only [h0, h1, if_false, Block.cells, Block.lenX, Block.lenY, Block.lenZ]
      rw [range'_mid b.z0 b.z1, List.flatMap_append]

/-- membership form of the split: every cell of the block is in exactly one half -/
theorem Block.mem_split (b : Block) (c : Nat × Nat × Nat) :
    (b.Mem c ↔ (b.split.1.Mem c ∨ b.split.2.Mem c)) ∧ ¬ (b.split.1.Mem c ∧ b.split.2.Mem c) := by
  unfold Block.split
  by_cases h0 : b.splitAxis = 0
  · rw [if_pos h0]; simp only [Block.Mem]; omega
  · by_cases h1 : b.splitAxis = 1
    · rw [if_neg h0, if_pos h1]; simp only [Block.Mem]; omega
    · rw [if_neg h0, if_neg h1]; simp only [Block.Mem]; omega

theorem pieces_unfold (mv : Nat) (hpos : 0 < mv) (g : Block → Bool) (b : Block) :
    pieces mv hpos g b =
      if g b = false then [] else if b.volume / 2 < mv then [b]
      else pieces mv hpos g b.split.1 ++ pieces mv hpos g b.split.2 := by
  rw [pieces]

theorem rejected_unfold (mv : Nat) (hpos : 0 < mv) (g : Block → Bool) (b : Block) :
    rejected mv hpos g b =
      if g b = false then [b] else if b.volume / 2 < mv then []
      else rejected mv hpos g b.split.1 ++ rejected mv hpos g b.split.2 := by
  rw [rejected]

/-- `Pieces` visits a partition: the cells of the root are, up to order, the cells of the leaves
handed to `f` together with the cells of the blocks the filter rejected. -/
theorem cells_perm_pieces (mv : Nat) (hpos : 0 < mv) (g : Block → Bool) :
    ∀ b : Block, b.cells.Perm
      ((pieces mv hpos g b).flatMap Block.cells ++ (rejected mv hpos g b).flatMap Block.cells) := by
  intro b
  induction hv : b.volume using Nat.strong_induction_on generalizing b with
  | _ n ih =>
    rw [pieces_unfold, rejected_unfold]
    by_cases hg : g b = false
    · simp [hg]
    · by_cases hs : b.volume / 2 < mv
      · simp [hg, hs]
      · rw [if_neg hg, if_neg hs, if_neg hg, if_neg hs]
        simp only [List.flatMap_append]
        have h2 : 2 ≤ b.volume := by omega
        have hl := Block.split_volume_lt b h2
        have i1 := ih _ (hv ▸ hl.1) b.split.1 rfl
        have i2 := ih _ (hv ▸ hl.2) b.split.2 rfl
        exact (Block.cells_split_perm b).trans ((i1.append i2).trans (perm_swap_mid _ _ _ _))

/-! ### 2-D twin -/

theorem Block2.mem_cells (b : Block2) (c : Nat × Nat) : c ∈ b.cells ↔ b.Mem c := by
  obtain ⟨x, y⟩ := c
  simp only [Block2.cells, Block2.Mem, Block2.lenX, Block2.lenY, List.mem_flatMap, List.mem_map,
    List.mem_range'_1, Prod.mk.injEq]
  constructor
  · rintro ⟨y', hy, x', hx, rfl, rfl⟩
    omega
  · intro h
    exact ⟨y, by omega, x, by omega, rfl, rfl⟩

theorem Block2.cells_nodup (b : Block2) : b.cells.Nodup := by
  unfold Block2.cells
  rw [List.nodup_flatMap]
  refine ⟨fun y _ => ?_, ?_⟩
  · exact (List.nodup_range' 1).map (fun a b h => by simpa using h)
  · refine (List.pairwise_lt_range' (s := b.y0) (n := b.lenY) 1).imp ?_
    intro y1 y2 hlt
    simp only [Function.onFun, List.disjoint_left, List.mem_map]
    rintro c ⟨x1, _, rfl⟩ ⟨x2, _, h⟩
    simp only [Prod.mk.injEq] at h
    omega

theorem Block2.cells_split_perm (b : Block2) : b.cells.Perm (b.split.1.cells ++ b.split.2.cells) := by
  unfold Block2.split
  by_cases h0 : b.splitAxis = 0
  · simp only [h0, if_true, Block2.cells, Block2.lenX, Block2.lenY]
    rw [range'_mid b.x0 b.x1]
    simp only [List.map_append]
    exact (List.flatMap_append_perm _ _ _).symm
  · simp only [h0, if_false, Block2.cells, Block2.lenX, Block2.lenY]
    rw [range'_mid b.y0 b.y1, List.flatMap_append]

theorem Block2.mem_split (b : Block2) (c : Nat × Nat) :
    (b.Mem c ↔ (b.split.1.Mem c ∨ b.split.2.Mem c)) ∧ ¬ (b.split.1.Mem c ∧ b.split.2.Mem c) := by
  unfold Block2.split
  by_cases h0 : b.splitAxis = 0
  · rw [if_pos h0]; simp only [Block2.Mem]; omega
  · rw [if_neg h0]; simp only [Block2.Mem]; omega

theorem pieces2_unfold (mv : Nat) (hpos : 0 < mv) (g : Block2 → Bool) (b : Block2) :
    pieces2 mv hpos g b =
      if g b = false then [] else if b.area / 2 < mv then [b]
      else pieces2 mv hpos g b.split.1 ++ pieces2 mv hpos g b.split.2 := by
  rw [pieces2]

theorem rejected2_unfold (mv : Nat) (hpos : 0 < mv) (g : Block2 → Bool) (b : Block2) :
    rejected2 mv hpos g b =
      if g b = false then [b] else if b.area / 2 < mv then []
      else rejected2 mv hpos g b.split.1 ++ rejected2 mv hpos g b.split.2 := by
  rw [rejected2]

theorem cells_perm_pieces2 (mv : Nat) (hpos : 0 < mv) (g : Block2 → Bool) :
    ∀ b : Block2, b.cells.Perm
      ((pieces2 mv hpos g b).flatMap Block2.cells ++ (rejected2 mv hpos g b).flatMap Block2.cells) := by
  intro b
  induction hv : b.area using Nat.strong_induction_on generalizing b with
  | _ n ih =>
    rw [pieces2_unfold, rejected2_unfold]
    by_cases hg : g b = false
    · simp [hg]
    · by_cases hs : b.area / 2 < mv
      · simp [hg, hs]
      · rw [if_neg hg, if_neg hs, if_neg hg, if_neg hs]
        simp only [List.flatMap_append]
        have h2 : 2 ≤ b.area := by omega
        have hl := Block2.split_area_lt b h2
        have i1 := ih _ (hv ▸ hl.1) b.split.1 rfl
        have i2 := ih _ (hv ▸ hl.2) b.split.2 rfl
        exact (Block2.cells_split_perm b).trans ((i1.append i2).trans (perm_swap_mid _ _ _ _))

/-! ### meshes: per-cell contributions summed over a partition -/

theorem flatten_flatMap {α β} (L : List (List α)) (f : α → List β) :
    L.flatMap (fun l => l.flatMap f) = L.flatten.flatMap f := by
  induction L with
  | nil => rfl
  | cons a L ih => simp [List.flatMap_cons, List.flatten_cons, List.flatMap_append, ih]

/-- If the cells of the rejected blocks contribute nothing, the leaves of `Pieces` contribute what
the whole block contributes. -/
theorem block_contrib_perm {β} (T : Nat × Nat × Nat → List β) (mv : Nat) (hpos : 0 < mv)
    (g : Block → Bool) (b : Block)
    (h : ∀ r ∈ rejected mv hpos g b, ∀ c ∈ r.cells, T c = []) :
    (b.cells.flatMap T).Perm ((pieces mv hpos g b).flatMap fun leaf => leaf.cells.flatMap T) := by
  have hp := (cells_perm_pieces mv hpos g b).flatMap_right T
  rw [List.flatMap_append, List.flatMap_assoc, List.flatMap_assoc] at hp
  have hnil : (rejected mv hpos g b).flatMap (fun x => x.cells.flatMap T) = [] := by
    rw [List.flatMap_eq_nil_iff]
    intro r hr
    rw [List.flatMap_eq_nil_iff]
    exact h r hr
  rw [hnil, List.append_nil] at hp
  exact hp

theorem filter_contrib_perm {β} (T : Nat × Nat × Nat → List β) (g : Block → Bool) (root : Block)
    (sched : List (List Block)) (hs : Schedule (blockQueue g root) sched)
    (h1 : ∀ r ∈ rejected (divideVolume root.volume) (divideVolume_pos _) g root, ∀ c ∈ r.cells, T c = [])
    (h2 : ∀ q ∈ blockQueue g root, ∀ r ∈ rejected subDivideVolume subDivideVolume_pos g q,
      ∀ c ∈ r.cells, T c = []) :
    (sched.flatMap fun blocks => blocks.flatMap fun blk =>
      (pieces subDivideVolume subDivideVolume_pos g blk).flatMap fun leaf => leaf.cells.flatMap T).Perm
      (root.cells.flatMap T) := by
  rw [flatten_flatMap]
  refine (List.Perm.flatMap_right _ hs).trans ?_
  have hq : ((blockQueue g root).flatMap fun blk =>
      (pieces subDivideVolume subDivideVolume_pos g blk).flatMap fun leaf => leaf.cells.flatMap T).Perm
      ((blockQueue g root).flatMap fun blk => blk.cells.flatMap T) :=
    List.Perm.flatMap_left _ fun q hq => (block_contrib_perm T _ _ g q (h2 q hq)).symm
  exact hq.trans (block_contrib_perm T _ _ g root h1).symm

theorem block_contrib_perm2 {β} (T : Nat × Nat → List β) (mv : Nat) (hpos : 0 < mv)
    (g : Block2 → Bool) (b : Block2)
    (h : ∀ r ∈ rejected2 mv hpos g b, ∀ c ∈ r.cells, T c = []) :
    (b.cells.flatMap T).Perm ((pieces2 mv hpos g b).flatMap fun leaf => leaf.cells.flatMap T) := by
  have hp := (cells_perm_pieces2 mv hpos g b).flatMap_right T
  rw [List.flatMap_append, List.flatMap_assoc, List.flatMap_assoc] at hp
  have hnil : (rejected2 mv hpos g b).flatMap (fun x => x.cells.flatMap T) = [] := by
    rw [List.flatMap_eq_nil_iff]
    intro r hr
    rw [List.flatMap_eq_nil_iff]
    exact h r hr
  rw [hnil, List.append_nil] at hp
  exact hp

theorem filter_contrib_perm2 {β} (T : Nat × Nat → List β) (g : Block2 → Bool) (root : Block2)
    (sched : List (List Block2)) (hs : Schedule2 (blockQueue2 g root) sched)
    (h1 : ∀ r ∈ rejected2 (divideVolume root.area) (divideVolume_pos _) g root, ∀ c ∈ r.cells, T c = [])
    (h2 : ∀ q ∈ blockQueue2 g root, ∀ r ∈ rejected2 subDivideVolume subDivideVolume_pos g q,
      ∀ c ∈ r.cells, T c = []) :
    (sched.flatMap fun blocks => blocks.flatMap fun blk =>
      (pieces2 subDivideVolume subDivideVolume_pos g blk).flatMap fun leaf => leaf.cells.flatMap T).Perm
      (root.cells.flatMap T) := by
  rw [flatten_flatMap]
  refine (List.Perm.flatMap_right _ hs).trans ?_
  have hq : ((blockQueue2 g root).flatMap fun blk =>
      (pieces2 subDivideVolume subDivideVolume_pos g blk).flatMap fun leaf => leaf.cells.flatMap T).Perm
      ((blockQueue2 g root).flatMap fun blk => blk.cells.flatMap T) :=
    List.Perm.flatMap_left _ fun q hq => (block_contrib_perm2 T _ _ g q (h2 q hq)).symm
  exact hq.trans (block_contrib_perm2 T _ _ g root h1).symm

/-- `M3d.Marching.mcMesh` (the plain model C01 is about) visits the cells of the root block. -/
theorem mcMesh_eq_cells (table : List (List (List Nat))) (nx ny nz : Nat) (lab : Nat → Nat → Nat → Bool) :
    mcMesh table nx ny nz lab = (rootBlock nx ny nz).cells.flatMap (cellTris table lab) := by
  simp only [mcMesh, rootBlock, Block.cells, Block.lenX, Block.lenY, Block.lenZ, Nat.sub_zero,
    List.flatMap_assoc, List.flatMap_map, List.range_eq_range', cellTris]
  rfl

theorem msMesh_eq_cells (table : List (List (List Nat))) (nx ny : Nat) (lab : Nat → Nat → Bool) :
    msMesh table nx ny lab = (rootBlock2 nx ny).cells.flatMap (cellSegs table lab) := by
  simp only [msMesh, rootBlock2, Block2.cells, Block2.lenX, Block2.lenY, Nat.sub_zero,
    List.flatMap_assoc, List.flatMap_map, List.range_eq_range', cellSegs]
  rfl

theorem cellCfg_uniform (lab : Nat → Nat → Nat → Bool) (c : Nat × Nat × Nat) (h : uniformCell lab c) :
    cellCfg lab c.1 c.2.1 c.2.2 = 0 ∨ cellCfg lab c.1 c.2.1 c.2.2 = 255 := by
  have e : List.range 8 = [0, 1, 2, 3, 4, 5, 6, 7] := by decide
  unfold cellCfg
  rw [e]
  simp only [List.foldl]
  rw [h 0 (by decide), h 1 (by decide), h 2 (by decide), h 3 (by decide), h 4 (by decide),
    h 5 (by decide), h 6 (by decide), h 7 (by decide)]
  cases lab c.1 c.2.1 c.2.2 <;> simp

theorem cellCfg2_uniform (lab : Nat → Nat → Bool) (c : Nat × Nat) (h : uniformCell2 lab c) :
    cellCfg2 lab c.1 c.2 = 0 ∨ cellCfg2 lab c.1 c.2 = 15 := by
  have e : List.range 4 = [0, 1, 2, 3] := by decide
  unfold cellCfg2
  rw [e]
  simp only [List.foldl]
  rw [h 0 (by decide), h 1 (by decide), h 2 (by decide), h 3 (by decide)]
  cases lab c.1 c.2 <;> simp

/-! ### the ring of slab caches -/

theorem mod_ne_of_lt {k l m : Nat} (h1 : k < l) (h2 : l < k + m) : l % m ≠ k % m := by
  intro h
  have h3 : (l - k) % m = 0 := Nat.sub_mod_eq_zero_of_mod_eq h
  have h4 : m ∣ l - k := Nat.dvd_of_mod_eq_zero h3
  have h5 : m ≤ l - k := Nat.le_of_dvd (by omega) h4
  omega

/-- Before step `z = k+1`: every layer `l` with `k ≤ l < k+1+g` (and `l < nz`) sits in cache `l mod (g+1)`. -/
def ScanInv (g nz : Nat) (c : Nat → Nat) (k : Nat) : Prop :=
  ∀ l, k ≤ l → l < k + 1 + g → l < nz → c (l % (g + 1)) = l

theorem scan_fold (g nz : Nat) (hg : 1 ≤ g) : ∀ k, k + 1 ≤ nz →
    ((List.range' 1 k).foldl (scanStep g nz) (fun i => i, [])).2
        = (List.range' 1 k).map (fun z => (z, z - 1, z)) ∧
    ScanInv g nz ((List.range' 1 k).foldl (scanStep g nz) (fun i => i, [])).1 k := by
  intro k
  induction k with
  | zero =>
    intro _
    refine ⟨rfl, ?_⟩
    intro l _ h2 _
    simp only [List.range'_zero, List.foldl_nil]
    exact Nat.mod_eq_of_lt (by omega)
  | succ k ih =>
    intro hk
    obtain ⟨ho, hi⟩ := ih (by omega)
    rw [List.range'_1_concat, List.foldl_append, List.map_append]
    simp only [List.foldl_cons, List.foldl_nil, List.map_cons, List.map_nil]
    generalize (List.range' 1 k).foldl (scanStep g nz) (fun i => i, []) = st at ho hi
    obtain ⟨c, out⟩ := st
    simp only at ho hi
    have e1 : 1 + k - 1 = k := by omega
    have hk0 : c (k % (g + 1)) = k := hi k (le_refl _) (by omega) (by omega)
    have hk1 : c ((1 + k) % (g + 1)) = 1 + k := hi (1 + k) (by omega) (by omega) (by omega)
    refine ⟨?_, ?_⟩
    · simp only [scanStep, e1, hk0, hk1, ho]
    · intro l h1 h2 h3
      simp only [scanStep, e1]
      by_cases hl : l = k + 1 + g
      · have hlt : 1 + k + g < nz := by omega
        have hm : l % (g + 1) = k % (g + 1) := by
          rw [hl, show k + 1 + g = k + (g + 1) by omega, Nat.add_mod_right]
        simp only [hlt, if_true, hm]
        omega
      · have hne : l % (g + 1) ≠ k % (g + 1) := mod_ne_of_lt (by omega) (by omega)
        have hc : c (l % (g + 1)) = l := hi l (by omega) (by omega) h3
        split
        · simp only [hne, if_false]; exact hc
        · exact hc

theorem scan_eq (procs nz : Nat) (hp : 1 ≤ procs) :
    scan procs nz = (List.range' 1 (nz - 1)).map (fun z => (z, z - 1, z)) := by
  unfold scan
  by_cases h : nz ≤ 1
  · have : nz - 1 = 0 := by omega
    simp [this]
  · exact (scan_fold (min procs (nz - 1)) nz (by omega) (nz - 1) (by omega)).1

theorem cellCfgLayers_eq (lab : Nat → Nat → Nat → Bool) (x y z : Nat) :
    cellCfgLayers lab x y z (z + 1) = cellCfg lab x y z := by
  have e : List.range 8 = [0, 1, 2, 3, 4, 5, 6, 7] := by decide
  unfold cellCfgLayers cellCfg
  rw [e]
  simp [List.foldl, cornerOff, bit]

/-! ### dual-contouring windows -/

theorem filter_range_ge (p : Nat → Bool) (k u : Nat) (hk : k ≤ u) :
    (List.range u).filter (fun i => decide (k ≤ i) && p i) = (List.range' k (u - k)).filter p := by
  have e : List.range u = List.range' 0 k ++ List.range' k (u - k) := by
    rw [List.range_eq_range']
    have := @List.range'_append_1 0 k (u - k)
    rw [Nat.zero_add] at this
    rw [this]
    congr 1
    omega
  rw [e, List.filter_append]
  have h1 : (List.range' 0 k).filter (fun i => decide (k ≤ i) && p i) = [] := by
    rw [List.filter_eq_nil_iff]
    intro i hi
    rw [List.mem_range'_1] at hi
    have : ¬ k ≤ i := by omega
    simp [this]
  have h2 : (List.range' k (u - k)).filter (fun i => decide (k ≤ i) && p i) = (List.range' k (u - k)).filter p := by
    apply List.filter_congr
    intro i hi
    rw [List.mem_range'_1] at hi
    have : k ≤ i := hi.1
    simp [this]
  rw [h1, h2, List.nil_append]

/-- Window invariant: in the buffer, exactly the first `k` slots are done (flagged iff active). -/
def DcInv (B : Nat) (active : Nat → Bool) (s : DcState) (k : Nat) : Prop :=
  ∀ i, i < dcSlots B → s.flags i = (decide (i < k) && active (2 * s.zOff + i))

theorem dcAppend_fst (nz B : Nat) (active : Nat → Bool) (s : DcState) (k : Nat)
    (hinv : DcInv B active s k) (hk : k ≤ dcUsable nz B s) (hu : dcUsable nz B s ≤ dcSlots B) :
    (dcAppend nz B active s).1.map Prod.fst
      = (List.range' (2 * s.zOff + k) (dcUsable nz B s - k)).filter active := by
  simp only [dcAppend, List.map_map]
  have hc : (List.range (dcUsable nz B s)).filter (fun i => !s.flags i && active (2 * s.zOff + i))
      = (List.range (dcUsable nz B s)).filter (fun i => decide (k ≤ i) && active (2 * s.zOff + i)) := by
    apply List.filter_congr
    intro i hi
    rw [List.mem_range] at hi
    rw [hinv i (by omega)]
    by_cases h : i < k
    · have : ¬ k ≤ i := by omega
      simp [h, this]
    · have : k ≤ i := by omega
      simp [h, this]
  rw [hc, filter_range_ge (fun i => active (2 * s.zOff + i)) k _ hk]
  have hm : (Prod.fst ∘ fun i => (2 * s.zOff + i, i)) = fun i => 2 * s.zOff + i := rfl
  rw [hm]
  have hf := @List.filter_map Nat Nat (fun i => 2 * s.zOff + i) active (List.range' k (dcUsable nz B s - k))
  rw [List.map_add_range'] at hf
  rw [hf]
  rfl

theorem dcAppend_inv (nz B : Nat) (active : Nat → Bool) (s : DcState) (k : Nat)
    (hinv : DcInv B active s k) (hk : k ≤ dcUsable nz B s) :
    DcInv B active (dcAppend nz B active s).2 (dcUsable nz B s) := by
  intro i hi
  simp only [dcAppend]
  rw [hinv i hi]
  by_cases h1 : i < k
  · have : i < dcUsable nz B s := by omega
    simp [h1, this]
  · simp [h1]

theorem dcShift_inv (nz B : Nat) (active : Nat → Bool) (s : DcState) (u : Nat)
    (hinv : DcInv B active s u) (hr : 2 * min (dcRemaining nz B s) (B - 2) ≤ u) (hu : u ≤ dcSlots B) :
    DcInv B active (dcShift nz B s) (u - 2 * min (dcRemaining nz B s) (B - 2)) := by
  intro i hi
  simp only [dcShift]
  generalize min (dcRemaining nz B s) (B - 2) = r at hr ⊢
  by_cases h : i + 2 * r < dcSlots B
  · rw [if_pos h, hinv _ h]
    have e : 2 * s.zOff + (i + 2 * r) = 2 * (s.zOff + r) + i := by omega
    rw [e]
    by_cases h2 : i + 2 * r < u
    · have : i < u - 2 * r := by omega
      simp [h2, this]
    · have : ¬ i < u - 2 * r := by omega
      simp [h2, this]
  · rw [if_neg h]
    have : ¬ i < u - 2 * r := by omega
    simp [this]

theorem dcRun_emits (nz B : Nat) (hB : 2 < B) (active : Nat → Bool) :
    ∀ (n : Nat) (s : DcState) (k : Nat), dcRemaining nz B s = n → B + s.zOff ≤ nz → k ≤ 2 * B - 2 →
      DcInv B active s k →
      (dcRun nz B hB active s).flatten.map Prod.fst
        = (List.range' (2 * s.zOff + k) (2 * nz - 1 - (2 * s.zOff + k))).filter active := by
  intro n
  induction n using Nat.strong_induction_on with
  | _ n ih =>
    intro s k hn hle hk hinv
    have hu1 : k ≤ dcUsable nz B s := by unfold dcUsable dcSlots; split <;> omega
    have hu2 : dcUsable nz B s ≤ dcSlots B := by unfold dcUsable dcSlots; split <;> omega
    have hfst := dcAppend_fst nz B active s k hinv hu1 hu2
    have hinv1 := dcAppend_inv nz B active s k hinv hu1
    have hz : (dcAppend nz B active s).2.zOff = s.zOff := rfl
    have hrem : dcRemaining nz B (dcAppend nz B active s).2 = dcRemaining nz B s := rfl
    rw [dcRun]
    by_cases h0 : dcRemaining nz B (dcAppend nz B active s).2 = 0
    · rw [dif_pos h0]
      simp only [List.flatten_cons, List.flatten_nil, List.append_nil]
      rw [hfst]
      have hb : s.zOff + B = nz := by
        rw [hrem] at h0; unfold dcRemaining at h0; omega
      have : dcUsable nz B s = dcSlots B := by unfold dcUsable; rw [if_pos hb]
      rw [this]
      congr 2
      unfold dcSlots; omega
    · rw [dif_neg h0]
      simp only [List.flatten_cons, List.map_append]
      rw [hfst]
      have hrem' : dcRemaining nz B s = nz - (B + s.zOff) := rfl
      have hb : s.zOff + B < nz := by rw [hrem, hrem'] at h0; omega
      have hu : dcUsable nz B s = 2 * B - 2 := by
        unfold dcUsable dcSlots; rw [if_neg (by omega)]; omega
      set s1 := (dcAppend nz B active s).2 with hs1
      have hrdef : dcRemaining nz B s1 = nz - (B + s.zOff) := rfl
      obtain ⟨r, hr⟩ : ∃ r, r = min (dcRemaining nz B s1) (B - 2) := ⟨_, rfl⟩
      have hr1 : 1 ≤ r := by rw [hr, hrdef]; omega
      have hr2 : r ≤ nz - (B + s.zOff) := by rw [hr, hrdef]; omega
      have hr3 : r ≤ B - 2 := by rw [hr]; omega
      have hinv2 := dcShift_inv nz B active s1 (dcUsable nz B s) hinv1 (by rw [← hr, hu]; omega) hu2
      rw [← hr] at hinv2
      have hz2 : (dcShift nz B s1).zOff = s.zOff + r := by rw [hr]; rfl
      have hrem2 : dcRemaining nz B (dcShift nz B s1) < n := by
        have : dcRemaining nz B (dcShift nz B s1) = nz - (B + (dcShift nz B s1).zOff) := rfl
        rw [this, hz2, ← hn, hrem']; omega
      have hle2 : B + (dcShift nz B s1).zOff ≤ nz := by rw [hz2]; omega
      rw [ih _ hrem2 (dcShift nz B s1) _ rfl hle2 (by omega) hinv2]
      rw [hz2, hu]
      rw [← List.filter_append]
      congr 1
      have e1 : 2 * (s.zOff + r) + (2 * B - 2 - 2 * r) = (2 * s.zOff + k) + (2 * B - 2 - k) := by omega
      rw [e1, List.range'_append_1]
      congr 1
      omega

/-- Where in the buffer an edge is when it is triangulated: an X/Y-edge slot (even) that is not in
the outermost lattice rows has local row `l` with `1 ≤ l ≤ B-2`, so the cube rows `l-1` and `l`
that `EdgeCubes` reads exist in the buffer. -/
theorem dcRun_local (nz B : Nat) (hB : 2 < B) (active : Nat → Bool) :
    ∀ (n : Nat) (s : DcState) (k : Nat), dcRemaining nz B s = n → B + s.zOff ≤ nz → k ≤ 2 * B - 2 →
      DcInv B active s k → (2 ≤ k ∨ s.zOff = 0) →
      ∀ w ∈ dcRun nz B hB active s, ∀ p ∈ w, p.1 % 2 = 0 → 2 ≤ p.1 → p.1 < 2 * (nz - 1) →
        2 ≤ p.2 ∧ p.2 + 2 < 2 * B := by
  intro n
  induction n using Nat.strong_induction_on with
  | _ n ih =>
    intro s k hn hle hk hinv hk2
    have hu1 : k ≤ dcUsable nz B s := by unfold dcUsable dcSlots; split <;> omega
    have hu2 : dcUsable nz B s ≤ dcSlots B := by unfold dcUsable dcSlots; split <;> omega
    have hinv1 := dcAppend_inv nz B active s k hinv hu1
    have hrem : dcRemaining nz B (dcAppend nz B active s).2 = dcRemaining nz B s := rfl
    have hrem' : dcRemaining nz B s = nz - (B + s.zOff) := rfl
    -- the edges of this window
    have hthis : ∀ p ∈ (dcAppend nz B active s).1, p.1 % 2 = 0 → 2 ≤ p.1 → p.1 < 2 * (nz - 1) →
        2 ≤ p.2 ∧ p.2 + 2 < 2 * B := by
      intro p hp he h2 hlt
      simp only [dcAppend, List.mem_map, List.mem_filter, List.mem_range] at hp
      obtain ⟨i, ⟨hi, hq⟩, rfl⟩ := hp
      rw [hinv i (by omega)] at hq
      have hki : k ≤ i := by
        by_cases h : i < k
        · simp [h] at hq
        · omega
      simp only at he h2 hlt ⊢
      have hub : i + 2 < 2 * B := by
        unfold dcUsable dcSlots at hi
        split at hi <;> omega
      refine ⟨?_, hub⟩
      rcases hk2 with h | h
      · omega
      · rw [h] at h2; omega
    rw [dcRun]
    by_cases h0 : dcRemaining nz B (dcAppend nz B active s).2 = 0
    · rw [dif_pos h0]
      intro w hw
      rw [List.mem_singleton] at hw
      subst hw
      exact hthis
    · rw [dif_neg h0]
      intro w hw
      rw [List.mem_cons] at hw
      rcases hw with hw | hw
      · subst hw; exact hthis
      · have hb : s.zOff + B < nz := by rw [hrem, hrem'] at h0; omega
        have hu : dcUsable nz B s = 2 * B - 2 := by
          unfold dcUsable dcSlots; rw [if_neg (by omega)]; omega
        set s1 := (dcAppend nz B active s).2 with hs1
        have hrdef : dcRemaining nz B s1 = nz - (B + s.zOff) := rfl
        obtain ⟨r, hr⟩ : ∃ r, r = min (dcRemaining nz B s1) (B - 2) := ⟨_, rfl⟩
        have hr1 : 1 ≤ r := by rw [hr, hrdef]; omega
        have hr2 : r ≤ nz - (B + s.zOff) := by rw [hr, hrdef]; omega
        have hr3 : r ≤ B - 2 := by rw [hr]; omega
        have hinv2 := dcShift_inv nz B active s1 (dcUsable nz B s) hinv1 (by rw [← hr, hu]; omega) hu2
        rw [← hr] at hinv2
        have hz2 : (dcShift nz B s1).zOff = s.zOff + r := by rw [hr]; rfl
        have hrem2 : dcRemaining nz B (dcShift nz B s1) < n := by
          have : dcRemaining nz B (dcShift nz B s1) = nz - (B + (dcShift nz B s1).zOff) := rfl
          rw [this, hz2, ← hn, hrem']; omega
        have hle2 : B + (dcShift nz B s1).zOff ≤ nz := by rw [hz2]; omega
        exact ih _ hrem2 (dcShift nz B s1) _ rfl hle2 (by omega) hinv2 (Or.inl (by omega)) w hw

theorem dcInit_inv (B : Nat) (active : Nat → Bool) : DcInv B active dcInit 0 := by
  intro i _
  simp [dcInit]

/-- every `BufRows` the constructor can produce for `len(Zs) ≥ 3` -/
theorem dcBufRows_bounds (bufSize nx ny nz : Nat) (h : 3 ≤ nz) :
    2 < dcBufRows bufSize nx ny nz ∧ dcBufRows bufSize nx ny nz ≤ nz := by
  unfold dcBufRows
  omega

/-! ### raster tiles -/

theorem flatMap_comm_perm {α β γ} (l1 : List α) (l2 : List β) (F : α → β → List γ) :
    (l1.flatMap fun a => l2.flatMap fun b => F a b).Perm (l2.flatMap fun b => l1.flatMap fun a => F a b) := by
  induction l1 with
  | nil =>
    have : (l2.flatMap fun _ => ([] : List γ)) = [] := by
      rw [List.flatMap_eq_nil_iff]; intros; rfl
    simp only [List.flatMap_nil, this]
    exact List.Perm.refl _
  | cons a l1 ih =>
    simp only [List.flatMap_cons]
    exact ((List.Perm.append_left _ ih).trans (List.flatMap_append_perm l2 _ _))

def tileRange (n fs s : Nat) : List Nat := List.range' s (min n (s + fs) - s)

theorem tile_cover_aux (n fs : Nat) (_hfs : 0 < fs) :
    ∀ k, k ≤ (n + fs - 1) / fs →
      (List.range k).flatMap (fun i => tileRange n fs (i * fs)) = List.range (min n (k * fs)) := by
  intro k
  induction k with
  | zero => intro _; simp
  | succ k ih =>
    intro hk
    have h1 : (k + 1) * fs ≤ (n + fs - 1) / fs * fs := Nat.mul_le_mul_right fs hk
    have h2 : (n + fs - 1) / fs * fs ≤ n + fs - 1 := Nat.div_mul_le_self _ _
    have h3 : (k + 1) * fs = k * fs + fs := Nat.succ_mul k fs
    have hlt : k * fs < n := by omega
    rw [List.range_succ, List.flatMap_append, ih (by omega)]
    simp only [List.flatMap_cons, List.flatMap_nil, List.append_nil, tileRange]
    rw [h3, Nat.min_eq_right (Nat.le_of_lt hlt), List.range_eq_range', List.range_eq_range']
    have := @List.range'_append_1 0 (k * fs) (min n (k * fs + fs) - k * fs)
    rw [Nat.zero_add] at this
    rw [this]
    congr 1
    omega

/-- The tile starts `0, fs, 2fs, … < n` with their clipped extents cover `0..n-1` in order. -/
theorem tile_cover (n fs : Nat) (hfs : 0 < fs) :
    (tileStarts n fs).flatMap (tileRange n fs) = List.range n := by
  unfold tileStarts
  rw [List.flatMap_map, tile_cover_aux n fs hfs _ (le_refl _)]
  congr 1
  apply Nat.min_eq_left
  have h := Nat.lt_mul_div_succ (n + fs - 1) hfs
  have e : fs * ((n + fs - 1) / fs + 1) = (n + fs - 1) / fs * fs + fs := by
    rw [Nat.mul_add, Nat.mul_one, Nat.mul_comm]
  omega

theorem tiles_pixels_perm (w h fs : Nat) (hfs : 0 < fs) :
    ((tiles w h fs).flatMap tilePixels).Perm (allPixels w h) := by
  have hl : (tiles w h fs).flatMap tilePixels =
      (tileStarts h fs).flatMap fun y => (tileStarts w fs).flatMap fun x =>
        (tileRange h fs y).flatMap fun sy => (tileRange w fs x).map fun sx => (sx, sy) := by
    simp only [tiles, List.flatMap_assoc, List.flatMap_map, tilePixels, tileRange]
  have hr : allPixels w h =
      (tileStarts h fs).flatMap fun y => (tileRange h fs y).flatMap fun sy =>
        (tileStarts w fs).flatMap fun x => (tileRange w fs x).map fun sx => (sx, sy) := by
    unfold allPixels
    rw [← tile_cover h fs hfs, ← tile_cover w fs hfs]
    simp only [List.flatMap_assoc, List.map_flatMap]
  rw [hl, hr]
  exact List.Perm.flatMap_left _ fun y _ => flatMap_comm_perm _ _ _

theorem allPixels_nodup (w h : Nat) : (allPixels w h).Nodup := by
  unfold allPixels
  rw [List.nodup_flatMap]
  refine ⟨fun y _ => ?_, ?_⟩
  · exact List.nodup_range.map (fun a b hab => by simpa using hab)
  · rw [List.range_eq_range' (n := h)]
    refine (List.pairwise_lt_range' (s := 0) (n := h) 1).imp ?_
    intro y1 y2 hlt
    simp only [Function.onFun, List.disjoint_left, List.mem_map]
    rintro c ⟨x1, _, rfl⟩ ⟨x2, _, hh⟩
    simp only [Prod.mk.injEq] at hh
    omega

theorem mem_allPixels (w h : Nat) (p : Nat × Nat) : p ∈ allPixels w h ↔ p.1 < w ∧ p.2 < h := by
  obtain ⟨x, y⟩ := p
  simp only [allPixels, List.mem_flatMap, List.mem_map, List.mem_range, Prod.mk.injEq]
  constructor
  · rintro ⟨y', hy, x', hx, rfl, rfl⟩; exact ⟨hx, hy⟩
  · rintro ⟨hx, hy⟩; exact ⟨y, hy, x, hx, rfl, rfl⟩

theorem insideCount_all {P : Type} (contains : P → Bool) (l : List P) (h : ∀ p ∈ l, contains p = true) :
    insideCount contains l = l.length := by
  unfold insideCount
  rw [List.filter_eq_self.2 h]

theorem insideCount_none {P : Type} (contains : P → Bool) (l : List P) (h : ∀ p ∈ l, contains p = false) :
    insideCount contains l = 0 := by
  unfold insideCount
  rw [List.length_eq_zero_iff, List.filter_eq_nil_iff]
  intro p hp
  simp [h p hp]

/-! ### volumes of the halves -/

theorem Block.split_volume_add (b : Block) : b.volume = b.split.1.volume + b.split.2.volume := by
  unfold Block.split
  by_cases h0 : b.splitAxis = 0
  · rw [if_pos h0]
    simp only [Block.volume, Block.lenX, Block.lenY, Block.lenZ]
    have : b.x1 - b.x0 = ((b.x1 + b.x0) / 2 - b.x0) + (b.x1 - (b.x1 + b.x0) / 2) := by omega
    rw [this]; ring
  · by_cases h1 : b.splitAxis = 1
    · rw [if_neg h0, if_pos h1]
      simp only [Block.volume, Block.lenX, Block.lenY, Block.lenZ]
      have : b.y1 - b.y0 = ((b.y1 + b.y0) / 2 - b.y0) + (b.y1 - (b.y1 + b.y0) / 2) := by omega
      rw [this]; ring
    · rw [if_neg h0, if_neg h1]
      simp only [Block.volume, Block.lenX, Block.lenY, Block.lenZ]
      have : b.z1 - b.z0 = ((b.z1 + b.z0) / 2 - b.z0) + (b.z1 - (b.z1 + b.z0) / 2) := by omega
      rw [this]; ring

theorem Block2.split_area_add (b : Block2) : b.area = b.split.1.area + b.split.2.area := by
  unfold Block2.split
  by_cases h0 : b.splitAxis = 0
  · rw [if_pos h0]
    simp only [Block2.area, Block2.lenX, Block2.lenY]
    have : b.x1 - b.x0 = ((b.x1 + b.x0) / 2 - b.x0) + (b.x1 - (b.x1 + b.x0) / 2) := by omega
    rw [this]; ring
  · rw [if_neg h0]
    simp only [Block2.area, Block2.lenX, Block2.lenY]
    have : b.y1 - b.y0 = ((b.y1 + b.y0) / 2 - b.y0) + (b.y1 - (b.y1 + b.y0) / 2) := by omega
    rw [this]; ring

/-! ### the always-true filter rejects nothing (non-vacuity of `Conservative`) -/

theorem rejected_of_true (mv : Nat) (hpos : 0 < mv) :
    ∀ b : Block, rejected mv hpos (fun _ => true) b = [] := by
  intro b
  induction hv : b.volume using Nat.strong_induction_on generalizing b with
  | _ n ih =>
    rw [rejected_unfold]
    by_cases hs : b.volume / 2 < mv
    · simp [hs]
    · have hl := Block.split_volume_lt b (by omega)
      simp only [hs, if_false, Bool.true_eq_false]
      rw [ih _ (hv ▸ hl.1) b.split.1 rfl, ih _ (hv ▸ hl.2) b.split.2 rfl]
      rfl

end M3d.Partition
