import M3d.Lemmas.MeshDiagFan
/-!
# C11 — `maybeFaceOrientations` / `RepairNormalsMajority`
-/
namespace M3d.MeshDiag
open M3d.Surface

/-! ## flipping a face reverses its three edges -/

theorem triEdges_flipTri_perm (t : Tri) : (triEdges (flipTri t)).Perm ((triEdges t).map swap) := by
  obtain ⟨a, b, c⟩ := t
  simp only [flipTri, triEdges, swap, List.map_cons, List.map_nil]
  -- [(b,a),(a,c),(c,b)] ~ [(b,a),(c,b),(a,c)]
  exact List.Perm.cons _ (List.Perm.swap _ _ _)

theorem map_swap_swap (l : List Edge) : (l.map swap).map swap = l := by
  induction l with
  | nil => rfl
  | cons e es ih => simp [swap, ih]

/-! ## the vote -/

theorem countP_not {α : Type} (p : α → Bool) (l : List α) :
    l.countP (fun x => !p x) = l.length - l.countP p := by
  induction l with
  | nil => rfl
  | cons x xs ih =>
    have := List.countP_le_length (p := p) (l := xs)
    simp only [List.countP_cons, List.length_cons, ih]
    cases p x <;> simp <;> omega

/-- The vote flips the smaller side. -/
theorem majorityFlags_count (g : List (Face × Bool)) :
    (majorityFlags g).countP (·.2) = min (g.countP (·.2)) (g.length - g.countP (·.2)) := by
  unfold majorityFlags
  simp only [List.countP_map]
  by_cases h : g.countP (·.2) > g.length / 2
  · have : (fun (p : Face × Bool) => (p.1, p.2 == !decide (g.countP (·.2) > g.length / 2)).2) =
        fun p => !p.2 := by
      funext p; simp [h]
    show List.countP ((fun (p : Face × Bool) => p.2) ∘ fun p => (p.1, p.2 == !decide (g.countP (·.2) > g.length / 2))) g = _
    rw [Function.comp_def, this, countP_not (fun (p : Face × Bool) => p.2) g]
    omega
  · have : (fun (p : Face × Bool) => (p.1, p.2 == !decide (g.countP (·.2) > g.length / 2)).2) =
        fun p => p.2 := by
      funext p; simp [h]
    show List.countP ((fun (p : Face × Bool) => p.2) ∘ fun p => (p.1, p.2 == !decide (g.countP (·.2) > g.length / 2))) g = _
    rw [Function.comp_def, this]
    omega

/-- The vote keeps the relative orientation found by the search: it returns the flags or their
complement. -/
theorem majorityFlags_cases (g : List (Face × Bool)) :
    majorityFlags g = g ∨ majorityFlags g = g.map fun p => (p.1, !p.2) := by
  unfold majorityFlags
  by_cases h : g.countP (·.2) > g.length / 2
  · right
    apply List.map_congr_left
    intro p _
    simp [h]
  · left
    have : ∀ p ∈ g, (fun (p : Face × Bool) => (p.1, p.2 == !decide (g.countP (·.2) > g.length / 2))) p = p := by
      intro p _; simp [h]
    rw [List.map_congr_left this]; simp

/-- Complementing every flag reverses every edge: a consistent orientation stays consistent. -/
theorem dirEdges_applyFlags_compl (g : List (Face × Bool)) :
    (dirEdges (applyFlags (g.map fun p => (p.1, !p.2)))).Perm ((dirEdges (applyFlags g)).map swap) := by
  induction g with
  | nil => simp [applyFlags, dirEdges]
  | cons p ps ih =>
    simp only [applyFlags, List.map_cons, dirEdges, List.flatMap_cons, List.map_append] at ih ⊢
    refine List.Perm.append ?_ ih
    cases p.2 with
    | false =>
      simp only [Bool.not_false, if_true, Bool.false_eq_true, if_false]
      exact triEdges_flipTri_perm _
    | true =>
      simp only [Bool.not_true, Bool.false_eq_true, if_false, if_true]
      have := (triEdges_flipTri_perm p.1.2).map swap
      rw [map_swap_swap] at this
      exact this.symm

/-! ## the orientation search -/

theorem addEdges_spec : ∀ (es seen seen' : List Edge), addEdges es seen = some seen' → seen.Nodup →
    seen'.Perm (es ++ seen) ∧ seen'.Nodup := by
  intro es
  induction es with
  | nil => intro seen seen' h hn; simp [addEdges] at h; subst h; exact ⟨List.Perm.refl _, hn⟩
  | cons e es ih =>
    intro seen seen' h hn
    simp only [addEdges] at h
    split at h
    · cases h
    · rename_i hc
      have hne : e ∉ seen := by simpa using hc
      obtain ⟨h1, h2⟩ := ih (e :: seen) seen' h (List.nodup_cons.mpr ⟨hne, hn⟩)
      exact ⟨h1.trans (by simpa using (List.perm_middle (l₁ := es) (a := e) (l₂ := seen))), h2⟩

/-- Invariant of the group loop: the edges registered so far are exactly the edges of the faces
oriented so far (after their flips), each once. -/
theorem orientGroup_spec :
    ∀ (n : Nat) (queue rem : List Face) (group : List (Face × Bool)) (seen : List Edge)
      (g : List (Face × Bool)) (rem' : List Face),
      orientGroup n queue rem group seen = .ok g rem' →
      seen.Nodup → seen.Perm (dirEdges (applyFlags group)) →
      (dirEdges (applyFlags g)).Nodup ∧ (∀ f ∈ rem', f ∈ rem) := by
  intro n
  induction n with
  | zero =>
    intro queue rem group seen g rem' h hn hp
    simp only [orientGroup] at h
    cases h
    exact ⟨hp.nodup_iff.mp hn, fun _ h => h⟩
  | succ n ih =>
    intro queue rem group seen g rem' h hn hp
    cases queue with
    | nil =>
      simp only [orientGroup] at h
      cases h
      exact ⟨hp.nodup_iff.mp hn, fun _ h => h⟩
    | cons next queue =>
      simp only [orientGroup] at h
      split at h
      · cases h
      · split at h
        · cases h
        · split at h
          · cases h
          · rename_i seen' hadd
            obtain ⟨h1, h2⟩ := addEdges_spec _ _ _ hadd hn
            have := ih _ _ _ _ g rem' h h2 (by
              refine h1.trans ?_
              simp only [applyFlags, List.map_append, List.map_cons, List.map_nil, dirEdges,
                List.flatMap_append, List.flatMap_cons, List.flatMap_nil, List.append_nil] at hp ⊢
              refine (List.perm_append_comm).trans (List.Perm.append hp ?_)
              cases hf : (triEdges next.2).any fun e => seen.contains e with
              | true => simp only [if_true]; exact (triEdges_flipTri_perm _).symm
              | false => simp only [Bool.false_eq_true, if_false]; exact List.Perm.refl _)
            exact ⟨this.1, fun f hf => (List.mem_filter.mp (this.2 f hf)).1⟩

theorem triEdges_nodup {t : Tri} (h : TriNondeg t) : (triEdges t).Nodup := by
  obtain ⟨a, b, c⟩ := t
  obtain ⟨h1, h2, h3⟩ := h
  simp only at h1 h2 h3
  simp only [triEdges, List.nodup_cons, List.mem_cons, List.mem_nil_iff, or_false, Prod.mk.injEq,
    not_or, not_and, List.not_mem_nil, not_false_eq_true, List.nodup_nil, and_true]
  omega

theorem orientAll_spec (all : List Face) (hd : ∀ f ∈ all, TriNondeg f.2) :
    ∀ (n : Nat) (rem : List Face) (gs gs' : List (List (Face × Bool))),
      (∀ f ∈ rem, f ∈ all) →
      orientAll all n rem gs = .groups gs' →
      (∀ g ∈ gs, (dirEdges (applyFlags g)).Nodup) →
      ∀ g ∈ gs', (dirEdges (applyFlags g)).Nodup := by
  intro n
  induction n with
  | zero => intro rem gs gs' _ h hg; simp only [orientAll] at h; cases h; exact hg
  | succ n ih =>
    intro rem gs gs' hsub h hg
    cases rem with
    | nil => simp only [orientAll] at h; cases h; exact hg
    | cons start rem =>
      simp only [orientAll] at h
      split at h
      · rename_i g rem' hgr
        have hstart : TriNondeg start.2 := hd start (hsub start List.mem_cons_self)
        obtain ⟨hnew, hsub'⟩ := orientGroup_spec _ _ _ _ _ g rem' hgr (triEdges_nodup hstart)
          (by simp [applyFlags, dirEdges])
        refine ih rem' (gs ++ [g]) gs' (fun f hf => ?_) h ?_
        · exact hsub f (List.mem_cons_of_mem _ (List.mem_filter.mp (hsub' f hf)).1)
        · intro g' hg'
          rcases List.mem_append.mp hg' with h' | h'
          · exact hg g' h'
          · have : g' = g := by simpa using h'
            subst this; exact hnew
      · cases h
      · cases h

end M3d.MeshDiag
