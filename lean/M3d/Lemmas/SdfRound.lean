import M3d.Lemmas.SdfSeg
/-!
C06 helper lemmas: `Sphere`/`Circle`, `safeNormal`, `Capsule`.
-/
namespace M3d.Sdf
set_option linter.unusedSectionVars false
set_option linter.unusedVariables false

variable {K : Type} [Field K] [LinearOrder K] [IsStrictOrderedRing K]

theorem V3.sub_normSq (a b : V3 K) : (a.sub b).normSq = a.sqDist b := rfl
theorem V2.sub_normSq (a b : V2 K) : (a.sub b).normSq = a.sqDist b := rfl

/-- `Sphere.SDF/PointSDF/NormalSDF`: with `ρ = ‖c - center‖`, the value is `r - ρ`, the normal is a unit
vector with `c - center = ρ n`, the point is `center + r n` (so it is on the sphere) and it is at distance
`|value|` from `c`.  Also at the centre (`ρ = 0`, arbitrary direction `(1,0,0)`). -/
theorem sphereOut_spec {E : Env K} (hE : E.Exact) (center c : V3 K) (r : K) :
    ∃ ρ, 0 ≤ ρ ∧ ρ * ρ = c.sqDist center ∧ sphereSDF E center r c = r - ρ ∧
      (sphereOut E center r c).val = r - ρ ∧ (sphereOut E center r c).n.normSq = 1 ∧
      (sphereOut E center r c).p = center.add ((sphereOut E center r c).n.scale r) ∧
      c.sub center = (sphereOut E center r c).n.scale ρ ∧
      c.sqDist (sphereOut E center r c).p = (sphereOut E center r c).val * (sphereOut E center r c).val := by
  have h0 := V3.sqDist_nonneg c center
  refine ⟨E.sqrt (c.sqDist center), hE.sqrt_nonneg _ h0, hE.sqrt_sq _ h0, rfl, ?_⟩
  unfold sphereOut
  have hnorm : (c.sub center).norm E = E.sqrt (c.sqDist center) := rfl
  simp only [hnorm]
  by_cases hz : c.sqDist center = 0
  · have hs : E.sqrt (c.sqDist center) = 0 := by rw [hz]; exact hE.sqrt_zero
    have hiz : isZero (E.sqrt (c.sqDist center)) = true := (isZero_iff _).mpr hs
    obtain ⟨e1, e2, e3⟩ := V3.normSq_eq_zero (a := c.sub center) hz
    simp only [V3.sub] at e1 e2 e3
    simp only [hiz, if_true]
    rw [hs]
    refine ⟨by ring, by simp [V3.normSq], by ext <;> simp [V3.add, V3.scale], by ext <;> simp [V3.sub, V3.scale, e1, e2, e3], ?_⟩
    simp only [V3.sqDist, V3.add]
    have : c.x = center.x := by linarith
    have : c.y = center.y := by linarith
    have : c.z = center.z := by linarith
    subst_vars
    simp_all
    ring
  · have hpos : 0 < c.sqDist center := lt_of_le_of_ne h0 (Ne.symm hz)
    obtain ⟨hn, hu, hun, huu⟩ := inv_norm_facts hE hpos
    have hiz : isZero (E.sqrt (c.sqDist center)) = false := (isZero_false_iff _).mpr hn.ne'
    simp only [hiz, Bool.false_eq_true, if_false, sphereSDF, V3.dist]
    have hsq := hE.sqrt_sq _ h0
    generalize E.sqrt (c.sqDist center) = ρ at *
    have hρ : ρ ≠ 0 := hn.ne'
    have hexp : c.sqDist center = (c.x - center.x) * (c.x - center.x) + (c.y - center.y) * (c.y - center.y) + (c.z - center.z) * (c.z - center.z) := rfl
    refine ⟨rfl, ?_, ?_, ?_, ?_⟩
    · simp only [V3.normSq, V3.scale, V3.sub]
      rw [hexp] at huu; linear_combination huu
    · ext <;> simp only [V3.add, V3.scale, V3.sub] <;> field_simp
    · ext <;> simp only [V3.scale, V3.sub] <;> field_simp
    · simp only [V3.sqDist, V3.add, V3.scale, V3.sub]
      rw [hexp] at hsq
      field_simp
      linear_combination (ρ - r) * (ρ - r) * hsq

theorem circleOut_spec {E : Env K} (hE : E.Exact) (center c : V2 K) (r : K) :
    ∃ ρ, 0 ≤ ρ ∧ ρ * ρ = c.sqDist center ∧ circleSDF E center r c = r - ρ ∧
      (circleOut E center r c).val = r - ρ ∧ (circleOut E center r c).n.normSq = 1 ∧
      (circleOut E center r c).p = center.add ((circleOut E center r c).n.scale r) ∧
      c.sub center = (circleOut E center r c).n.scale ρ ∧
      c.sqDist (circleOut E center r c).p = (circleOut E center r c).val * (circleOut E center r c).val := by
  have h0 := V2.sqDist_nonneg c center
  refine ⟨E.sqrt (c.sqDist center), hE.sqrt_nonneg _ h0, hE.sqrt_sq _ h0, rfl, ?_⟩
  unfold circleOut
  have hnorm : (c.sub center).norm E = E.sqrt (c.sqDist center) := rfl
  simp only [hnorm]
  by_cases hz : c.sqDist center = 0
  · have hs : E.sqrt (c.sqDist center) = 0 := by rw [hz]; exact hE.sqrt_zero
    have hiz : isZero (E.sqrt (c.sqDist center)) = true := (isZero_iff _).mpr hs
    obtain ⟨e1, e2⟩ := V2.normSq_eq_zero (a := c.sub center) hz
    simp only [V2.sub] at e1 e2
    simp only [hiz, if_true]
    rw [hs]
    refine ⟨by ring, by simp [V2.normSq], by ext <;> simp [V2.add, V2.scale], by ext <;> simp [V2.sub, V2.scale, e1, e2], ?_⟩
    simp only [V2.sqDist, V2.add]
    have : c.x = center.x := by linarith
    have : c.y = center.y := by linarith
    subst_vars
    simp_all
    ring
  · have hpos : 0 < c.sqDist center := lt_of_le_of_ne h0 (Ne.symm hz)
    obtain ⟨hn, hu, hun, huu⟩ := inv_norm_facts hE hpos
    have hiz : isZero (E.sqrt (c.sqDist center)) = false := (isZero_false_iff _).mpr hn.ne'
    simp only [hiz, Bool.false_eq_true, if_false, circleSDF, V2.dist]
    have hsq := hE.sqrt_sq _ h0
    generalize E.sqrt (c.sqDist center) = ρ at *
    have hρ : ρ ≠ 0 := hn.ne'
    have hexp : c.sqDist center = (c.x - center.x) * (c.x - center.x) + (c.y - center.y) * (c.y - center.y) := rfl
    refine ⟨rfl, ?_, ?_, ?_, ?_⟩
    · simp only [V2.normSq, V2.scale, V2.sub]
      rw [hexp] at huu; linear_combination huu
    · ext <;> simp only [V2.add, V2.scale, V2.sub] <;> field_simp
    · ext <;> simp only [V2.scale, V2.sub] <;> field_simp
    · simp only [V2.sqDist, V2.add, V2.scale, V2.sub]
      rw [hexp] at hsq
      field_simp
      linear_combination (ρ - r) * (ρ - r) * hsq

end M3d.Sdf
