import M3d.Lemmas.SdfSeg
/-!
C06 helper lemmas: `Sphere`/`Circle`, `safeNormal`, `Capsule`.
-/
namespace M3d.Sdf
set_option linter.unusedSectionVars false
set_option linter.unusedVariables false

variable {K : Type} [Field K] [LinearOrder K] [IsStrictOrderedRing K]

theorem V3.sub_normSq (a b : V3 K) : (a.sub b).normSq = a.sqDist b := rfl
theorem V2.sub_normSq (a b : V2 K) : (a.sub b).normSq = a.sqDist b := rfl

/-- `Sphere.SDF/PointSDF/NormalSDF`: with `ρ = ‖c - center‖`, the value is `r - ρ`, the normal is a unit
vector with `c - center = ρ n`, the point is `center + r n` (so it is on the sphere) and it is at distance
`|value|` from `c`.  Also at the centre (`ρ = 0`, arbitrary direction `(1,0,0)`). -/
theorem sphereOut_spec {E : Env K} (hE : E.Exact) (center c : V3 K) (r : K) :
    ∃ ρ, 0 ≤ ρ ∧ ρ * ρ = c.sqDist center ∧ sphereSDF E center r c = r - ρ ∧
      (sphereOut E center r c).val = r - ρ ∧ (sphereOut E center r c).n.normSq = 1 ∧
      (sphereOut E center r c).p = center.add ((sphereOut E center r c).n.scale r) ∧
      c.sub center = (sphereOut E center r c).n.scale ρ ∧
      c.sqDist (sphereOut E center r c).p = (sphereOut E center r c).val * (sphereOut E center r c).val := by
  have h0 := V3.sqDist_nonneg c center
  have hsq : (c.sub center).norm E * (c.sub center).norm E = c.sqDist center := hE.sqrt_sq _ h0
  refine ⟨(c.sub center).norm E, hE.sqrt_nonneg _ h0, hsq, rfl, ?_⟩
  have hexp : c.sqDist center = (c.x - center.x) * (c.x - center.x) + (c.y - center.y) * (c.y - center.y) + (c.z - center.z) * (c.z - center.z) := rfl
  by_cases hz : c.sqDist center = 0
  · have hs : (c.sub center).norm E = 0 := by
      show E.sqrt (c.sqDist center) = 0
      rw [hz]; exact hE.sqrt_zero
    have hiz : isZero ((c.sub center).norm E) = true := (isZero_iff _).mpr hs
    have ho : sphereOut E center r c = ⟨r, ⟨1, 0, 0⟩, center.add ⟨r, 0, 0⟩⟩ := by
      unfold sphereOut; rw [if_pos hiz]
    obtain ⟨e1, e2, e3⟩ := V3.normSq_eq_zero (a := c.sub center) hz
    simp only [V3.sub] at e1 e2 e3
    rw [ho, hs]
    refine ⟨by ring, by simp [V3.normSq], by ext <;> simp [V3.add, V3.scale],
      by ext <;> simp [V3.sub, V3.scale, e1, e2, e3], ?_⟩
    simp only [V3.sqDist, V3.add]
    have hx : c.x = center.x := by linarith
    have hy : c.y = center.y := by linarith
    have hz' : c.z = center.z := by linarith
    rw [hx, hy, hz']; ring
  · have hpos : 0 < c.sqDist center := lt_of_le_of_ne h0 (Ne.symm hz)
    obtain ⟨hn, hu, hun, huu⟩ := inv_norm_facts hE hpos
    change 0 < (c.sub center).norm E at hn
    change 1 / (c.sub center).norm E * (c.sub center).norm E = 1 at hun
    change 1 / (c.sub center).norm E * (1 / (c.sub center).norm E) * c.sqDist center = 1 at huu
    have hiz : ¬ (isZero ((c.sub center).norm E) = true) := by
      rw [Bool.not_eq_true]; exact (isZero_false_iff _).mpr hn.ne'
    have ho : sphereOut E center r c = ⟨sphereSDF E center r c, (c.sub center).scale (1 / (c.sub center).norm E),
        center.add ((c.sub center).scale (r / (c.sub center).norm E))⟩ := by
      unfold sphereOut; rw [if_neg hiz]
    have hval : sphereSDF E center r c = r - (c.sub center).norm E := rfl
    rw [ho, hval]
    generalize (c.sub center).norm E = ρ at *
    have hdiv : r / ρ = r * (1 / ρ) := by ring
    rw [hdiv]
    generalize 1 / ρ = u at *
    rw [hexp] at huu hsq
    refine ⟨rfl, ?_, ?_, ?_, ?_⟩
    · simp only [V3.normSq, V3.scale, V3.sub]
      linear_combination huu
    · ext <;> simp only [V3.add, V3.scale, V3.sub] <;> ring
    · ext <;> simp only [V3.scale, V3.sub] <;>
        first
        | linear_combination (-(c.x - center.x)) * hun
        | linear_combination (-(c.y - center.y)) * hun
        | linear_combination (-(c.z - center.z)) * hun
    · simp only [V3.sqDist, V3.add, V3.scale, V3.sub]
      have key : (1 - r * u) * ρ = ρ - r := by linear_combination (-r) * hun
      have : ((c.x - center.x) * (c.x - center.x) + (c.y - center.y) * (c.y - center.y) + (c.z - center.z) * (c.z - center.z)) * ((1 - r * u) * (1 - r * u)) = (r - ρ) * (r - ρ) := by
        rw [← hsq]; linear_combination (ρ - r + (1 - r * u) * ρ) * key
      linear_combination this

theorem circleOut_spec {E : Env K} (hE : E.Exact) (center c : V2 K) (r : K) :
    ∃ ρ, 0 ≤ ρ ∧ ρ * ρ = c.sqDist center ∧ circleSDF E center r c = r - ρ ∧
      (circleOut E center r c).val = r - ρ ∧ (circleOut E center r c).n.normSq = 1 ∧
      (circleOut E center r c).p = center.add ((circleOut E center r c).n.scale r) ∧
      c.sub center = (circleOut E center r c).n.scale ρ ∧
      c.sqDist (circleOut E center r c).p = (circleOut E center r c).val * (circleOut E center r c).val := by
  have h0 := V2.sqDist_nonneg c center
  have hsq : (c.sub center).norm E * (c.sub center).norm E = c.sqDist center := hE.sqrt_sq _ h0
  refine ⟨(c.sub center).norm E, hE.sqrt_nonneg _ h0, hsq, rfl, ?_⟩
  have hexp : c.sqDist center = (c.x - center.x) * (c.x - center.x) + (c.y - center.y) * (c.y - center.y) := rfl
  by_cases hz : c.sqDist center = 0
  · have hs : (c.sub center).norm E = 0 := by
      show E.sqrt (c.sqDist center) = 0
      rw [hz]; exact hE.sqrt_zero
    have hiz : isZero ((c.sub center).norm E) = true := (isZero_iff _).mpr hs
    have ho : circleOut E center r c = ⟨r, ⟨1, 0⟩, center.add ⟨r, 0⟩⟩ := by
      unfold circleOut; rw [if_pos hiz]
    obtain ⟨e1, e2⟩ := V2.normSq_eq_zero (a := c.sub center) hz
    simp only [V2.sub] at e1 e2
    rw [ho, hs]
    refine ⟨by ring, by simp [V2.normSq], by ext <;> simp [V2.add, V2.scale],
      by ext <;> simp [V2.sub, V2.scale, e1, e2], ?_⟩
    simp only [V2.sqDist, V2.add]
    have hx : c.x = center.x := by linarith
    have hy : c.y = center.y := by linarith
    rw [hx, hy]; ring
  · have hpos : 0 < c.sqDist center := lt_of_le_of_ne h0 (Ne.symm hz)
    obtain ⟨hn, hu, hun, huu⟩ := inv_norm_facts hE hpos
    change 0 < (c.sub center).norm E at hn
    change 1 / (c.sub center).norm E * (c.sub center).norm E = 1 at hun
    change 1 / (c.sub center).norm E * (1 / (c.sub center).norm E) * c.sqDist center = 1 at huu
    have hiz : ¬ (isZero ((c.sub center).norm E) = true) := by
      rw [Bool.not_eq_true]; exact (isZero_false_iff _).mpr hn.ne'
    have ho : circleOut E center r c = ⟨circleSDF E center r c, (c.sub center).scale (1 / (c.sub center).norm E),
        center.add ((c.sub center).scale (r / (c.sub center).norm E))⟩ := by
      unfold circleOut; rw [if_neg hiz]
    have hval : circleSDF E center r c = r - (c.sub center).norm E := rfl
    rw [ho, hval]
    generalize (c.sub center).norm E = ρ at *
    have hdiv : r / ρ = r * (1 / ρ) := by ring
    rw [hdiv]
    generalize 1 / ρ = u at *
    rw [hexp] at huu hsq
    refine ⟨rfl, ?_, ?_, ?_, ?_⟩
    · simp only [V2.normSq, V2.scale, V2.sub]
      linear_combination huu
    · ext <;> simp only [V2.add, V2.scale, V2.sub] <;> ring
    · ext <;> simp only [V2.scale, V2.sub] <;>
        first
        | linear_combination (-(c.x - center.x)) * hun
        | linear_combination (-(c.y - center.y)) * hun
    · simp only [V2.sqDist, V2.add, V2.scale, V2.sub]
      have key : (1 - r * u) * ρ = ρ - r := by linear_combination (-r) * hun
      have : ((c.x - center.x) * (c.x - center.x) + (c.y - center.y) * (c.y - center.y)) * ((1 - r * u) * (1 - r * u)) = (r - ρ) * (r - ρ) := by
        rw [← hsq]; linear_combination (ρ - r + (1 - r * u) * ρ) * key
      linear_combination this


/-! ## `safeNormal` -/

/-- facts about `v / ‖v‖` for `v ≠ 0` -/
theorem V3.normalized_spec {E : Env K} (hE : E.Exact) (d : V3 K) (hd : 0 < d.normSq) :
    0 < d.norm E ∧ d.norm E * d.norm E = d.normSq ∧ (d.scale (1 / d.norm E)).normSq = 1 ∧
      d = (d.scale (1 / d.norm E)).scale (d.norm E) := by
  obtain ⟨hn, hu, hun, huu⟩ := inv_norm_facts hE hd
  have hsq : d.norm E * d.norm E = d.normSq := hE.sqrt_sq _ hd.le
  change 0 < d.norm E at hn
  change 1 / d.norm E * d.norm E = 1 at hun
  change 1 / d.norm E * (1 / d.norm E) * d.normSq = 1 at huu
  refine ⟨hn, hsq, ?_, ?_⟩
  · simp only [V3.normSq, V3.scale] at huu ⊢; linear_combination huu
  · generalize d.norm E = ρ at *
    generalize 1 / ρ = u at *
    ext <;> simp only [V3.scale]
    · linear_combination (-d.x) * hun
    · linear_combination (-d.y) * hun
    · linear_combination (-d.z) * hun

theorem V2.normalized_spec {E : Env K} (hE : E.Exact) (d : V2 K) (hd : 0 < d.normSq) :
    0 < d.norm E ∧ d.norm E * d.norm E = d.normSq ∧ (d.scale (1 / d.norm E)).normSq = 1 ∧
      d = (d.scale (1 / d.norm E)).scale (d.norm E) := by
  obtain ⟨hn, hu, hun, huu⟩ := inv_norm_facts hE hd
  have hsq : d.norm E * d.norm E = d.normSq := hE.sqrt_sq _ hd.le
  change 0 < d.norm E at hn
  change 1 / d.norm E * d.norm E = 1 at hun
  change 1 / d.norm E * (1 / d.norm E) * d.normSq = 1 at huu
  refine ⟨hn, hsq, ?_, ?_⟩
  · simp only [V2.normSq, V2.scale] at huu ⊢; linear_combination huu
  · generalize d.norm E = ρ at *
    generalize 1 / ρ = u at *
    ext <;> simp only [V2.scale]
    · linear_combination (-d.x) * hun
    · linear_combination (-d.y) * hun

/-- `safeNormal(direction, fallback, invalid)` is `direction / ‖direction‖` whenever `direction ≠ 0` is
already orthogonal to `invalid` (which is what the callers arrange in exact arithmetic): projecting out
changes nothing and the norm test `< 1e-5` fails. -/
theorem safeNormal3_of_orth {E : Env K} (hE : E.Exact) (d fb inv : V3 K) (hd : 0 < d.normSq)
    (horth : inv.dot d = 0) : safeNormal3 E d fb inv = d.scale (1 / d.norm E) := by
  obtain ⟨hn, hsq, hunit, _⟩ := V3.normalized_spec hE d hd
  have hiz : ¬ (isZero (d.norm E) = true) := by
    rw [Bool.not_eq_true]; exact (isZero_false_iff _).mpr hn.ne'
  have hproj : (d.scale (1 / d.norm E)).projectOut E inv = d.scale (1 / d.norm E) := by
    simp only [V3.projectOut, V3.normalize]
    have : (inv.scale (1 / inv.norm E)).dot (d.scale (1 / d.norm E)) = 0 := by
      have : (inv.scale (1 / inv.norm E)).dot (d.scale (1 / d.norm E))
          = (1 / inv.norm E) * (1 / d.norm E) * inv.dot d := by
        simp only [V3.dot, V3.scale]; ring
      rw [this, horth, mul_zero]
    rw [this]
    ext <;> simp [V3.sub, V3.scale]
  have hn2 : (d.scale (1 / d.norm E)).norm E = 1 := by
    show E.sqrt (d.scale (1 / d.norm E)).normSq = 1
    rw [hunit]; exact hE.sqrt_one
  unfold safeNormal3
  rw [if_neg hiz]
  simp only [hproj, hn2]
  rw [if_neg (not_lt.mpr hE.eps_lt.le)]
  ext <;> simp [V3.scale]

theorem safeNormal2_of_orth {E : Env K} (hE : E.Exact) (d fb inv : V2 K) (hd : 0 < d.normSq)
    (horth : inv.dot d = 0) : safeNormal2 E d fb inv = d.scale (1 / d.norm E) := by
  obtain ⟨hn, hsq, hunit, _⟩ := V2.normalized_spec hE d hd
  have hiz : ¬ (isZero (d.norm E) = true) := by
    rw [Bool.not_eq_true]; exact (isZero_false_iff _).mpr hn.ne'
  have hproj : (d.scale (1 / d.norm E)).projectOut E inv = d.scale (1 / d.norm E) := by
    simp only [V2.projectOut, V2.normalize]
    have : (inv.scale (1 / inv.norm E)).dot (d.scale (1 / d.norm E)) = 0 := by
      have : (inv.scale (1 / inv.norm E)).dot (d.scale (1 / d.norm E))
          = (1 / inv.norm E) * (1 / d.norm E) * inv.dot d := by
        simp only [V2.dot, V2.scale]; ring
      rw [this, horth, mul_zero]
    rw [this]
    ext <;> simp [V2.sub, V2.scale]
  have hn2 : (d.scale (1 / d.norm E)).norm E = 1 := by
    show E.sqrt (d.scale (1 / d.norm E)).normSq = 1
    rw [hunit]; exact hE.sqrt_one
  unfold safeNormal2
  rw [if_neg hiz]
  simp only [hproj, hn2]
  rw [if_neg (not_lt.mpr hE.eps_lt.le)]
  ext <;> simp [V2.scale]

/-- `safeNormal` of the zero vector is the fallback. -/
theorem safeNormal3_zero {E : Env K} (hE : E.Exact) (d fb inv : V3 K) (hd : d.normSq = 0) :
    safeNormal3 E d fb inv = fb := by
  have : d.norm E = 0 := by show E.sqrt d.normSq = 0; rw [hd]; exact hE.sqrt_zero
  unfold safeNormal3
  rw [if_pos ((isZero_iff _).mpr this)]

theorem safeNormal2_zero {E : Env K} (hE : E.Exact) (d fb inv : V2 K) (hd : d.normSq = 0) :
    safeNormal2 E d fb inv = fb := by
  have : d.norm E = 0 := by show E.sqrt d.normSq = 0; rw [hd]; exact hE.sqrt_zero
  unfold safeNormal2
  rw [if_pos ((isZero_iff _).mpr this)]

end M3d.Sdf
