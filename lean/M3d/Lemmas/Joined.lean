import M3d.Model.Spatial
import M3d.Lemmas.Prune
import M3d.Lemmas.Box
/-!
# Joined colliders: construction gives sound hierarchies with the same leaves, queries = scans

Generic part: for ANY bound type `β` with a containment preorder `sub` and an upper bound `union`.
-/
namespace M3d.Spatial
open M3d.Prune M3d.Box
set_option linter.unusedSectionVars false

section Generic
variable {ι β : Type}

/-- What the construction needs from bounds: a preorder in which `union` is an upper bound. -/
structure BoundAlg (β : Type) (sub : β → β → Prop) (union : β → β → β) : Prop where
  refl : ∀ a, sub a a
  trans : ∀ {a b c}, sub a b → sub b c → sub a c
  left : ∀ a b, sub a (union a b)
  right : ∀ a b, sub b (union a b)

/-- All top-level trees of the forest have bounds inside `bx`. -/
def TopSub (boxOf : ι → β) (sub : β → β → Prop) (bx : β) : Forest ι β → Prop
  | .nil => True
  | .leaf i r => sub (boxOf i) bx ∧ TopSub boxOf sub bx r
  | .node b _ r => sub b bx ∧ TopSub boxOf sub bx r

variable {sub : β → β → Prop} {union : β → β → β} {boxOf : ι → β}

theorem topBounds_ge (A : BoundAlg β sub union) :
    ∀ (f : Forest ι β) (acc : Option β) (bx : β), topBounds boxOf union f acc = some bx →
      (∀ a, acc = some a → sub a bx) ∧ TopSub boxOf sub bx f := by
  intro f
  induction f with
  | nil =>
      intro acc bx h
      simp only [topBounds] at h
      exact ⟨fun a ha => by rw [h] at ha; cases ha; exact A.refl _, trivial⟩
  | leaf i r ih =>
      intro acc bx h
      simp only [topBounds] at h
      obtain ⟨h1, h2⟩ := ih _ bx h
      cases acc with
      | none => exact ⟨fun a ha => (by cases ha), h1 _ rfl, h2⟩
      | some a0 =>
          have := h1 _ rfl
          exact ⟨fun a ha => by cases ha; exact A.trans (A.left _ _) this, A.trans (A.right _ _) this, h2⟩
  | node b c r _ ih =>
      intro acc bx h
      simp only [topBounds] at h
      obtain ⟨h1, h2⟩ := ih _ bx h
      cases acc with
      | none => exact ⟨fun a ha => (by cases ha), h1 _ rfl, h2⟩
      | some a0 =>
          have := h1 _ rfl
          exact ⟨fun a ha => by cases ha; exact A.trans (A.left _ _) this, A.trans (A.right _ _) this, h2⟩

theorem topBounds_none :
    ∀ (f : Forest ι β) (acc : Option β), topBounds boxOf union f acc = none → acc = none ∧ f = .nil := by
  intro f
  induction f with
  | nil => intro acc h; exact ⟨h, rfl⟩
  | leaf i r ih => intro acc h; simp only [topBounds] at h; have := (ih _ h).1; cases acc <;> cases this
  | node b c r _ ih => intro acc h; simp only [topBounds] at h; have := (ih _ h).1; cases acc <;> cases this

/-- A bound above all top-level bounds covers every item of a sound forest. -/
theorem covers_of_topSub (A : BoundAlg β sub union) (bx : β) :
    ∀ f : Forest ι β, Forest.Sound (fun b i => sub (boxOf i) b) f → TopSub boxOf sub bx f →
      ∀ i ∈ f.items, sub (boxOf i) bx := by
  intro f
  induction f with
  | nil => intro _ _ i hi; simp [Forest.items] at hi
  | leaf j r ih =>
      intro hs ht i hi
      simp only [Forest.items, List.mem_cons] at hi
      rcases hi with rfl | hi
      · exact ht.1
      · exact ih hs ht.2 i hi
  | node b c r _ ihr =>
      intro hs ht i hi
      simp only [Forest.items, List.mem_append] at hi
      rcases hi with hi | hi
      · exact A.trans (hs.1 i hi) ht.1
      · exact ihr hs.2.2 ht.2 i hi

@[simp] theorem items_flattenInto [DecidableEq β] (bx : β) (f : Forest ι β) :
    (flattenInto bx f).items = f.items := by
  induction f with
  | nil => rfl
  | leaf i r ih => simp [flattenInto, Forest.items, ih]
  | node b c r _ ih =>
      simp only [flattenInto]
      split <;> simp [Forest.items, ih]

theorem sound_flattenInto [DecidableEq β] {covers : β → ι → Prop} (bx : β) (f : Forest ι β)
    (h : Forest.Sound covers f) : Forest.Sound covers (flattenInto bx f) := by
  induction f with
  | nil => trivial
  | leaf i r ih => exact ih h
  | node b c r _ ih =>
      simp only [flattenInto]
      split
      · exact (Forest.sound_append _ _).2 ⟨h.2.1, ih h.2.2⟩
      · exact ⟨h.1, h.2.1, ih h.2.2⟩

/-- **Flattening / joining keeps exactly the same leaves in the same order**
(`flatten_same_leaves`). -/
theorem items_newJoined [DecidableEq β] (fl : Bool) (ch : Forest ι β) :
    (newJoined fl boxOf union ch).items = ch.items := by
  unfold newJoined
  cases h : topBounds boxOf union ch none with
  | none => rw [(topBounds_none ch none h).2]
  | some bx =>
      cases fl
      · simp [Forest.items]
      · simp [Forest.items]

/-- `NewJoinedCollider` of sound children is sound: its bounds cover every leaf below. -/
theorem sound_newJoined [DecidableEq β] (A : BoundAlg β sub union) (fl : Bool) (ch : Forest ι β)
    (h : Forest.Sound (fun b i => sub (boxOf i) b) ch) :
    Forest.Sound (fun b i => sub (boxOf i) b) (newJoined fl boxOf union ch) := by
  unfold newJoined
  cases hb : topBounds boxOf union ch none with
  | none => trivial
  | some bx =>
      have hc := covers_of_topSub A bx ch h (topBounds_ge A ch none bx hb).2
      cases fl
      · exact ⟨hc, h, trivial⟩
      · refine ⟨?_, sound_flattenInto bx ch h, trivial⟩
        simpa using hc

theorem items_shapeToForest [DecidableEq β] (fl : Bool) (s : Shape ι) :
    (s.toForest fl boxOf union).items = s.leaves := by
  induction s with
  | leaf i => rfl
  | node l r ihl ihr => simp [Shape.toForest, items_newJoined, Shape.leaves, ihl, ihr]

/-- **`BVHToCollider` / `BVHToObject` / the grouped constructors build sound hierarchies.** -/
theorem sound_shapeToForest [DecidableEq β] (A : BoundAlg β sub union) (fl : Bool) (s : Shape ι) :
    Forest.Sound (fun b i => sub (boxOf i) b) (s.toForest fl boxOf union) := by
  induction s with
  | leaf i => trivial
  | node l r ihl ihr =>
      exact sound_newJoined A fl _ ((Forest.sound_append _ _).2 ⟨ihl, ihr⟩)

/-- **`BVHToCollider` / `BVHToObject` on n-ary branches keep every leaf, in order.** -/
theorem items_bvhJoin [DecidableEq β] (fl : Bool) (f : Forest ι Unit) :
    (bvhJoin fl boxOf union f).items = f.items := by
  induction f with
  | nil => rfl
  | leaf i r ih => simp [bvhJoin, Forest.items, ih]
  | node b c r ihc ihr => simp [bvhJoin, Forest.items, items_newJoined, ihc, ihr]

/-- … and build sound hierarchies (every node's bounds cover every leaf below it). -/
theorem sound_bvhJoin [DecidableEq β] (A : BoundAlg β sub union) (fl : Bool) (f : Forest ι Unit) :
    Forest.Sound (fun b i => sub (boxOf i) b) (bvhJoin fl boxOf union f) := by
  induction f with
  | nil => trivial
  | leaf i r ih => exact ih
  | node b c r ihc ihr =>
      exact (Forest.sound_append _ _).2 ⟨sound_newJoined A fl _ ihc, ihr⟩

/-! ### the halving recursion -/

theorem halveF_spec : ∀ (fuel : Nat) (l : List ι), l ≠ [] → l.length ≤ fuel →
    ∃ s, halveF fuel l = some s ∧ s.leaves = l := by
  intro fuel
  induction fuel with
  | zero => intro l hne hl; exact absurd (List.length_eq_zero_iff.1 (Nat.le_zero.1 hl)) hne
  | succ fuel ih =>
      intro l hne hl
      match l, hne, hl with
      | [a], _, _ => exact ⟨.leaf a, rfl, rfl⟩
      | a :: b :: r, _, hl =>
          simp only [halveF]
          have hlen : (a :: b :: r).length = r.length + 2 := rfl
          have hmid1 : 0 < (a :: b :: r).length / 2 := by rw [hlen]; omega
          have hmid2 : (a :: b :: r).length / 2 < (a :: b :: r).length := by rw [hlen]; omega
          obtain ⟨s1, h1, e1⟩ := ih ((a :: b :: r).take ((a :: b :: r).length / 2))
            (by intro h; have := congrArg List.length h; simp at this; omega)
            (by simp only [List.length_take]; omega)
          obtain ⟨s2, h2, e2⟩ := ih ((a :: b :: r).drop ((a :: b :: r).length / 2))
            (by intro h; have := congrArg List.length h; simp at this; omega)
            (by simp only [List.length_drop]; omega)
          rw [h1, h2]
          exact ⟨.node s1 s2, rfl, by simp [Shape.leaves, e1, e2]⟩

theorem halve_spec (l : List ι) (hne : l ≠ []) : ∃ s, halve l = some s ∧ s.leaves = l :=
  halveF_spec l.length l hne (le_refl _)

theorem halve_nil : halve ([] : List ι) = none := rfl

/-- **`GroupedTrianglesToCollider` keeps the triangles in order, each exactly once.** -/
theorem items_grouped [DecidableEq β] (fl : Bool) (l : List ι) :
    (grouped fl boxOf union l).items = l := by
  unfold grouped
  by_cases hne : l = []
  · subst hne; rfl
  · obtain ⟨s, hs, e⟩ := halve_spec l hne
    rw [hs]; simp [items_shapeToForest, e]

theorem sound_grouped [DecidableEq β] (A : BoundAlg β sub union) (fl : Bool) (l : List ι) :
    Forest.Sound (fun b i => sub (boxOf i) b) (grouped fl boxOf union l) := by
  unfold grouped
  cases halve l with
  | none => trivial
  | some s => exact sound_shapeToForest A fl s

/-- Strengthen the cover relation by a property that holds of every leaf. -/
theorem sound_and {covers : β → ι → Prop} {P : ι → Prop} :
    ∀ f : Forest ι β, Forest.Sound covers f → (∀ i ∈ f.items, P i) →
      Forest.Sound (fun b i => covers b i ∧ P i) f := by
  intro f
  induction f with
  | nil => intro _ _; trivial
  | leaf i r ih => intro h hp; exact ih h (fun j hj => hp j (by simp [Forest.items, hj]))
  | node b c r ihc ihr =>
      intro h hp
      refine ⟨fun i hi => ⟨h.1 i hi, hp i (by simp [Forest.items, hi])⟩, ?_, ?_⟩
      · exact ihc h.2.1 (fun j hj => hp j (by simp [Forest.items, hj]))
      · exact ihr h.2.2 (fun j hj => hp j (by simp [Forest.items, hj]))

end Generic

/-! ## Boxes form a bound algebra -/
section Field
variable {K : Type} [Field K] [LinearOrder K] [IsStrictOrderedRing K]

theorem boxAlg3 : BoundAlg (Box3 K) Box3.Sub Box3.union :=
  ⟨Box3.sub_refl, fun h1 h2 => h1.trans h2, Box3.sub_union_left, Box3.sub_union_right⟩
theorem boxAlg2 : BoundAlg (Box2 K) Box2.Sub Box2.union :=
  ⟨Box2.sub_refl, fun h1 h2 => h1.trans h2, Box2.sub_union_left, Box2.sub_union_right⟩

/-- **The single hypothesis on a 3D leaf: whatever it reports lies in its own bounding box.** -/
structure LeafSound3 (l : Leaf3 K) : Prop where
  ray : ∀ o d h, h ∈ l.ray o d → 0 ≤ h.scale ∧ l.box.Contains (o.along d h.scale)
  first : ∀ o d h, l.first o d = some h → 0 ≤ h.scale ∧ l.box.Contains (o.along d h.scale)
  sphere : ∀ c r, l.sphere c r = true → ∃ p, l.box.Contains p ∧ c.sqDist p ≤ r * r
  seg : ∀ p q, l.seg p q = true → ∃ t, 0 ≤ t ∧ t ≤ 1 ∧ l.box.Contains (p.along (q.sub p) t)
  rect : ∀ r, l.rect r = true → ∃ p, l.box.Contains p ∧ r.Contains p
  tri : ∀ a b c, l.tri a b c ≠ [] → ∃ p, l.box.Contains p ∧ (triBox a b c).Contains p

structure LeafSound2 (l : Leaf2 K) : Prop where
  ray : ∀ o d h, h ∈ l.ray o d → 0 ≤ h.scale ∧ l.box.Contains (o.along d h.scale)
  first : ∀ o d h, l.first o d = some h → 0 ≤ h.scale ∧ l.box.Contains (o.along d h.scale)
  sphere : ∀ c r, l.sphere c r = true → ∃ p, l.box.Contains p ∧ c.sqDist p ≤ r * r
  seg : ∀ p q, l.seg p q = true → ∃ t, 0 ≤ t ∧ t ≤ 1 ∧ l.box.Contains (p.along (q.sub p) t)
  rect : ∀ r, l.rect r = true → ∃ p, l.box.Contains p ∧ r.Contains p

/-- A hierarchy is *well formed* when every node's box contains the boxes of the leaves below it
and every leaf is sound w.r.t. its own box. -/
def WF3 (f : Forest (Leaf3 K) (Box3 K)) : Prop :=
  Forest.Sound (fun b l => l.box.Sub b) f ∧ ∀ l ∈ f.items, LeafSound3 l
def WF2 (f : Forest (Leaf2 K) (Box2 K)) : Prop :=
  Forest.Sound (fun b l => l.box.Sub b) f ∧ ∀ l ∈ f.items, LeafSound2 l

theorem WF3.sound {f : Forest (Leaf3 K) (Box3 K)} (h : WF3 f) :
    Forest.Sound (fun b l => l.box.Sub b ∧ LeafSound3 l) f := sound_and f h.1 h.2
theorem WF2.sound {f : Forest (Leaf2 K) (Box2 K)} (h : WF2 f) :
    Forest.Sound (fun b l => l.box.Sub b ∧ LeafSound2 l) f := sound_and f h.1 h.2

/-! ### 3D queries -/

theorem joinedRay3_eq (o d : V3 K) (f : Forest (Leaf3 K) (Box3 K)) (h : WF3 f) :
    joinedRay3 o d f = f.items.flatMap (fun l => l.ray o d) := by
  apply Forest.collect_eq_flatMap (covers := fun b l => l.box.Sub b ∧ LeafSound3 l) _ f h.sound
  intro b l ⟨hsub, hl⟩ hb
  cases hr : l.ray o d with
  | nil => rfl
  | cons x xs =>
      obtain ⟨h0, hc⟩ := hl.ray o d x (by rw [hr]; simp)
      rw [rayAdmits_sound3 o d b x.scale h0 (hc.of_sub hsub)] at hb
      cases hb

theorem joinedRayCount3_eq (o d : V3 K) (f : Forest (Leaf3 K) (Box3 K)) (h : WF3 f) :
    joinedRayCount3 o d f = (f.items.flatMap (fun l => l.ray o d)).length := by
  have : joinedRayCount3 o d f = (f.items.map (fun l => (l.ray o d).length)).sum := by
    apply Forest.count_eq_sum (covers := fun b l => l.box.Sub b ∧ LeafSound3 l) _ f h.sound
    intro b l ⟨hsub, hl⟩ hb
    cases hr : l.ray o d with
    | nil => rfl
    | cons x xs =>
        obtain ⟨h0, hc⟩ := hl.ray o d x (by rw [hr]; simp)
        rw [rayAdmits_sound3 o d b x.scale h0 (hc.of_sub hsub)] at hb
        cases hb
  rw [this, List.length_flatMap]

theorem closer_assoc (a b c : Option (Hit K)) :
    Forest.merge closer (Forest.merge closer a b) c = Forest.merge closer a (Forest.merge closer b c) :=
  merge_key_assoc (fun h : Hit K => h.scale) a b c

theorem joinedFirst3_eq (o d : V3 K) (f : Forest (Leaf3 K) (Box3 K)) (h : WF3 f) :
    joinedFirst3 o d f = f.items.foldl (fun s l => Forest.merge closer s (l.first o d)) none := by
  apply Forest.best_eq_foldl (covers := fun b l => l.box.Sub b ∧ LeafSound3 l) closer_assoc _ f none h.sound
  intro b l ⟨hsub, hl⟩ hb
  cases hr : l.first o d with
  | none => rfl
  | some x =>
      obtain ⟨h0, hc⟩ := hl.first o d x hr
      rw [rayAdmits_sound3 o d b x.scale h0 (hc.of_sub hsub)] at hb
      cases hb

theorem joinedSphere3_eq (c : V3 K) (r : K) (f : Forest (Leaf3 K) (Box3 K)) (h : WF3 f) :
    joinedSphere3 c r f = f.items.any (fun l => l.sphere c r) := by
  apply Forest.any_eq_any (covers := fun b l => l.box.Sub b ∧ LeafSound3 l) _ f h.sound
  intro b l ⟨hsub, hl⟩ hb
  cases hr : l.sphere c r with
  | false => rfl
  | true =>
      obtain ⟨p, hp, hd⟩ := hl.sphere c r hr
      rw [sphereTouches3_sound c p r b (hp.of_sub hsub) hd] at hb
      cases hb

theorem joinedSeg3_eq (p q : V3 K) (f : Forest (Leaf3 K) (Box3 K)) (h : WF3 f) :
    joinedSeg3 p q f = f.items.any (fun l => l.seg p q) := by
  apply Forest.any_eq_any (covers := fun b l => l.box.Sub b ∧ LeafSound3 l) _ f h.sound
  intro b l ⟨hsub, hl⟩ hb
  cases hr : l.seg p q with
  | false => rfl
  | true =>
      obtain ⟨t, h0, h1, hc⟩ := hl.seg p q hr
      rw [segAdmits_sound3 p (q.sub p) b t h0 h1 (hc.of_sub hsub)] at hb
      cases hb

theorem joinedRect3_eq (r : Box3 K) (f : Forest (Leaf3 K) (Box3 K)) (h : WF3 f) :
    joinedRect3 r f = f.items.any (fun l => l.rect r) := by
  apply Forest.any_eq_any (covers := fun b l => l.box.Sub b ∧ LeafSound3 l) _ f h.sound
  intro b l ⟨hsub, hl⟩ hb
  cases hr : l.rect r with
  | false => rfl
  | true =>
      obtain ⟨p, hp, hq⟩ := hl.rect r hr
      rw [rectAdmits3_sound r b p hq (hp.of_sub hsub)] at hb
      cases hb

theorem joinedTri3_eq (a b c : V3 K) (f : Forest (Leaf3 K) (Box3 K)) (h : WF3 f) :
    joinedTri3 a b c f = f.items.flatMap (fun l => l.tri a b c) := by
  apply Forest.collect_eq_flatMap (covers := fun b l => l.box.Sub b ∧ LeafSound3 l) _ f h.sound
  intro bx l ⟨hsub, hl⟩ hb
  by_cases hr : l.tri a b c = []
  · exact hr
  · obtain ⟨p, hp, hq⟩ := hl.tri a b c hr
    rw [triAdmits3_sound (triBox a b c) bx p hq (hp.of_sub hsub)] at hb
    cases hb

/-! ### 2D queries -/

theorem joinedRay2_eq (o d : V2 K) (f : Forest (Leaf2 K) (Box2 K)) (h : WF2 f) :
    joinedRay2 o d f = f.items.flatMap (fun l => l.ray o d) := by
  apply Forest.collect_eq_flatMap (covers := fun b l => l.box.Sub b ∧ LeafSound2 l) _ f h.sound
  intro b l ⟨hsub, hl⟩ hb
  cases hr : l.ray o d with
  | nil => rfl
  | cons x xs =>
      obtain ⟨h0, hc⟩ := hl.ray o d x (by rw [hr]; simp)
      rw [rayAdmits_sound2 o d b x.scale h0 (hc.of_sub hsub)] at hb
      cases hb

theorem joinedFirst2_eq (o d : V2 K) (f : Forest (Leaf2 K) (Box2 K)) (h : WF2 f) :
    joinedFirst2 o d f = f.items.foldl (fun s l => Forest.merge closer s (l.first o d)) none := by
  apply Forest.best_eq_foldl (covers := fun b l => l.box.Sub b ∧ LeafSound2 l) closer_assoc _ f none h.sound
  intro b l ⟨hsub, hl⟩ hb
  cases hr : l.first o d with
  | none => rfl
  | some x =>
      obtain ⟨h0, hc⟩ := hl.first o d x hr
      rw [rayAdmits_sound2 o d b x.scale h0 (hc.of_sub hsub)] at hb
      cases hb

theorem joinedSphere2_eq (c : V2 K) (r : K) (f : Forest (Leaf2 K) (Box2 K)) (h : WF2 f) :
    joinedSphere2 c r f = f.items.any (fun l => l.sphere c r) := by
  apply Forest.any_eq_any (covers := fun b l => l.box.Sub b ∧ LeafSound2 l) _ f h.sound
  intro b l ⟨hsub, hl⟩ hb
  cases hr : l.sphere c r with
  | false => rfl
  | true =>
      obtain ⟨p, hp, hd⟩ := hl.sphere c r hr
      rw [sphereTouches2_sound c p r b (hp.of_sub hsub) hd] at hb
      cases hb

theorem joinedSeg2_eq (p q : V2 K) (f : Forest (Leaf2 K) (Box2 K)) (h : WF2 f) :
    joinedSeg2 p q f = f.items.any (fun l => l.seg p q) := by
  apply Forest.any_eq_any (covers := fun b l => l.box.Sub b ∧ LeafSound2 l) _ f h.sound
  intro b l ⟨hsub, hl⟩ hb
  cases hr : l.seg p q with
  | false => rfl
  | true =>
      obtain ⟨t, h0, h1, hc⟩ := hl.seg p q hr
      rw [segAdmits_sound2 p (q.sub p) b t h0 h1 (hc.of_sub hsub)] at hb
      cases hb

theorem joinedRect2_eq (r : Box2 K) (f : Forest (Leaf2 K) (Box2 K)) (h : WF2 f) :
    joinedRect2 r f = f.items.any (fun l => l.rect r) := by
  apply Forest.any_eq_any (covers := fun b l => l.box.Sub b ∧ LeafSound2 l) _ f h.sound
  intro b l ⟨hsub, hl⟩ hb
  cases hr : l.rect r with
  | false => rfl
  | true =>
      obtain ⟨p, hp, hq⟩ := hl.rect r hr
      rw [rectAdmits2_sound r b p hq (hp.of_sub hsub)] at hb
      cases hb

end Field

end M3d.Spatial
