import M3d.Model.CodecMesh
/-! Vertex de-duplication (`WritePLY`, `BuildVertexColorOBJ`, `BuildMaterialOBJ`): index correctness. -/
namespace M3d.Codec

variable {α κ : Type} [DecidableEq κ]

theorem dedupStep_prefix (key : α → κ) (st : List α) (p : α) : ∃ t, dedupStep key st p = st ++ t := by
  unfold dedupStep
  split
  · exact ⟨[], by simp⟩
  · exact ⟨[p], rfl⟩

theorem foldl_dedup_prefix (key : α → κ) (ps : List α) (st : List α) :
    ∃ t, ps.foldl (dedupStep key) st = st ++ t := by
  induction ps generalizing st with
  | nil => exact ⟨[], by simp⟩
  | cons p ps ih =>
    obtain ⟨t1, h1⟩ := dedupStep_prefix key st p
    obtain ⟨t2, h2⟩ := ih (dedupStep key st p)
    exact ⟨t1 ++ t2, by rw [List.foldl_cons, h2, h1, List.append_assoc]⟩

theorem dedupStep_has (key : α → κ) (st : List α) (p : α) :
    (dedupStep key st p).any (fun q => decide (key q = key p)) = true := by
  unfold dedupStep
  split
  · assumption
  · simp

theorem any_mono (key : α → κ) (st t : List α) (p : α)
    (h : st.any (fun q => decide (key q = key p)) = true) :
    (st ++ t).any (fun q => decide (key q = key p)) = true := by
  simp only [List.any_append, h, Bool.true_or]

/-- every visited corner has an equal-keyed entry in the table -/
theorem foldl_dedup_has (key : α → κ) (ps : List α) (st : List α) (p : α)
    (h : p ∈ ps ∨ st.any (fun q => decide (key q = key p)) = true) :
    (ps.foldl (dedupStep key) st).any (fun q => decide (key q = key p)) = true := by
  induction ps generalizing st with
  | nil =>
    rcases h with h | h
    · simp at h
    · simpa using h
  | cons x xs ih =>
    rw [List.foldl_cons]
    apply ih
    rcases h with h | h
    · rcases List.mem_cons.mp h with rfl | h
      · exact Or.inr (dedupStep_has key st p)
      · exact Or.inl h
    · obtain ⟨t, ht⟩ := dedupStep_prefix key st x
      rw [ht]
      exact Or.inr (any_mono key st t p h)

/-- keys in the table stay pairwise distinct -/
theorem dedupStep_nodup (key : α → κ) (st : List α) (p : α) (h : (st.map key).Nodup) :
    ((dedupStep key st p).map key).Nodup := by
  unfold dedupStep
  split
  · exact h
  · next hn =>
    rw [List.map_append, List.nodup_append]
    refine ⟨h, by simp, ?_⟩
    intro a ha b hb
    simp only [List.map_cons, List.map_nil, List.mem_singleton] at hb
    subst hb
    intro hab
    apply hn
    rw [List.any_eq_true]
    obtain ⟨q, hq, hqa⟩ := List.mem_map.mp ha
    exact ⟨q, hq, by simp [hqa, hab]⟩

theorem foldl_dedup_nodup (key : α → κ) (ps : List α) (st : List α) (h : (st.map key).Nodup) :
    ((ps.foldl (dedupStep key) st).map key).Nodup := by
  induction ps generalizing st with
  | nil => exact h
  | cons x xs ih => exact ih _ (dedupStep_nodup key st x h)

/-- **de-duplication index correctness**: for every visited corner `p`, the index the writer emits
is in range and the table entry at that index has the same key (is `==` to `p`); and no two table
entries are `==`. -/
theorem dedup_index (key : α → κ) (ps : List α) (p : α) (hp : p ∈ ps) :
    ∃ h : indexOfKey key (dedupCoords key ps) p < (dedupCoords key ps).length,
      key ((dedupCoords key ps)[indexOfKey key (dedupCoords key ps) p]) = key p := by
  have hany := foldl_dedup_has key ps [] p (Or.inl hp)
  unfold indexOfKey
  unfold dedupCoords at *
  cases hf : (ps.foldl (dedupStep key) []).findIdx? (fun q => decide (key q = key p)) with
  | none =>
    rw [List.findIdx?_eq_none_iff] at hf
    rw [List.any_eq_true] at hany
    obtain ⟨q, hq, hk⟩ := hany
    exact absurd hk (by simpa using hf q hq)
  | some i =>
    rw [List.findIdx?_eq_some_iff_getElem] at hf
    obtain ⟨hi, hk, _⟩ := hf
    exact ⟨hi, by simpa using hk⟩

theorem dedup_nodup (key : α → κ) (ps : List α) : ((dedupCoords key ps).map key).Nodup :=
  foldl_dedup_nodup key ps [] (by simp)

end M3d.Codec
