import M3d.Model.SdfTriDeg
import M3d.Lemmas.SdfMesh
import M3d.Lemmas.SdfTri
import M3d.Lemmas.SdfTriFull
/-!
C06 helper lemmas: 3-D `Triangle.Closest` / `Triangle.Dist` on triangles with a repeated corner (an edge of length
0, whose distance is NaN in the float run and is skipped by `d < result`), `Model/SdfTriDeg.lean`.
-/
namespace M3d.Sdf
set_option linter.unusedSectionVars false
set_option linter.unusedVariables false

section order
variable {K : Type} [LinearOrder K] {β γ γ' : Type}

/-- two leaf evaluations with the same distances are scanned in lock step (`Triangle.Dist` and `Triangle.Closest`
run the same loop, one keeps the point) -/
theorem scanWith_map (leaf : β → Option (K × γ)) (leaf' : β → Option (K × γ')) (g : γ → γ')
    (h : ∀ f, leaf' f = (leaf f).map (fun x => (x.1, g x.2))) (fs : List β) :
    scanWith leaf' fs = (scanWith leaf fs).map (fun x => (x.1, g x.2)) := by
  unfold scanWith
  have key : ∀ cur : Option (K × γ),
      fs.foldl (scanStep leaf') (cur.map (fun x => (x.1, g x.2))) =
        (fs.foldl (scanStep leaf) cur).map (fun x => (x.1, g x.2)) := by
    induction fs with
    | nil => intro cur; rfl
    | cons f fs ih =>
      intro cur
      simp only [List.foldl_cons]
      rw [← ih]
      congr 1
      unfold scanStep
      rw [h f]
      cases leaf f with
      | none => rfl
      | some x =>
        cases cur with
        | none => simp [ltCur]
        | some y =>
          simp only [Option.map_some, ltCur]
          by_cases hlt : x.1 < y.1 <;> simp [hlt]
  exact key none

/-- three leaves that all have a distance: the scan from `+Inf` is the first strict minimum `pickMin` -/
theorem scanWith_three (leaf : β → Option (K × γ)) (v : β → K × γ) (h : ∀ f, leaf f = some (v f)) (a b c : β) :
    scanWith leaf [a, b, c] = some (pickMin (v a) [v b, v c]) := by
  simp only [scanWith, List.foldl_cons, List.foldl_nil, scanStep, h, Option.map_none, Option.map_some, ltCur,
    pickMin, if_true]
  by_cases h1 : (v b).1 < (v a).1
  · simp only [h1, decide_true, if_true, Option.map_some]
    by_cases h2 : (v c).1 < (v b).1 <;> simp [h2]
  · simp only [h1, decide_false, Bool.false_eq_true, if_false, Option.map_some]
    by_cases h2 : (v c).1 < (v a).1 <;> simp [h2]

end order

section field
variable {K : Type} [Field K] [LinearOrder K] [IsStrictOrderedRing K]

theorem V3.normSq_sub_pos {a b : V3 K} (h : a ≠ b) : 0 < (b.sub a).normSq := by
  by_contra hn
  rw [not_lt] at hn
  apply h
  simp only [V3.normSq, V3.sub] at hn
  have hx : (b.x - a.x) * (b.x - a.x) = 0 := by
    nlinarith [mul_self_nonneg (b.x - a.x), mul_self_nonneg (b.y - a.y), mul_self_nonneg (b.z - a.z)]
  have hy : (b.y - a.y) * (b.y - a.y) = 0 := by
    nlinarith [mul_self_nonneg (b.x - a.x), mul_self_nonneg (b.y - a.y), mul_self_nonneg (b.z - a.z)]
  have hz : (b.z - a.z) * (b.z - a.z) = 0 := by
    nlinarith [mul_self_nonneg (b.x - a.x), mul_self_nonneg (b.y - a.y), mul_self_nonneg (b.z - a.z)]
  ext
  · have := mul_self_eq_zero.mp hx; linarith
  · have := mul_self_eq_zero.mp hy; linarith
  · have := mul_self_eq_zero.mp hz; linarith

theorem V3.lerp_zero (a b : V3 K) : V3.lerp a b 0 = a := by ext <;> simp [V3.lerp, V3.add, V3.sub, V3.scale]
theorem V3.lerp_one (a b : V3 K) : V3.lerp a b 1 = b := by ext <;> simp [V3.lerp, V3.add, V3.sub, V3.scale]
theorem V3.lerp_self (a : V3 K) (t : K) : V3.lerp a a t = a := by ext <;> simp [V3.lerp, V3.add, V3.sub, V3.scale]

theorem V3.dist_comm (E : Env K) (a b : V3 K) : a.dist E b = b.dist E a := by
  unfold V3.dist
  congr 1
  unfold V3.sqDist; ring

/-! ### over a field every edge has a distance: `triClosestN`/`triDistN` are `triClosest`/`triDist` -/

theorem triEdgeLeafC_eq (E : Env K) (c : V3 K) (s : V3 K × V3 K) :
    triEdgeLeafC E c s = some ((segClosest3 E s.1 s.2 c).dist E c, segClosest3 E s.1 s.2 c) := by
  simp [triEdgeLeafC, notNaN_true]

theorem triEdgeLeafD_eq (E : Env K) (c : V3 K) (s : V3 K × V3 K) :
    triEdgeLeafD E c s = some (segDist3 E s.1 s.2 c, ()) := by
  simp [triEdgeLeafD, notNaN_true]

theorem triClosestN_eq (E : Env K) (t0 t1 t2 c : V3 K) : triClosestN E t0 t1 t2 c = triClosest E t0 t1 t2 c := by
  unfold triClosestN triClosest triSegments
  rw [scanWith_three _ _ (triEdgeLeafC_eq E c)]
  rfl

theorem triDistN_eq (E : Env K) (t0 t1 t2 c : V3 K) : triDistN E t0 t1 t2 c = triDist E t0 t1 t2 c := by
  unfold triDistN triDist triSegments
  rw [scanWith_three _ _ (triEdgeLeafD_eq E c)]
  by_cases h : triInside (triComponents E t0 t1 t2 c) = true
  · simp only [h, if_true]
  · simp only [h, Bool.false_eq_true, if_false, Option.map_some, Option.getD_some]

/-! ### the float run on a triangle whose normal is `0/0` -/

/-- edge leaf of `Triangle.Closest` as the float run behaves: `Segment.Closest` of a zero-length edge `{p, p}` is
`0 · (1/0)`, its distance NaN, the edge is skipped -/
def triEdgeLeafCSkip (E : Env K) (c : V3 K) (s : V3 K × V3 K) : Option (K × V3 K) :=
  if vecEq3 s.1 s.2 then none else triEdgeLeafC E c s

/-- edge leaf of `Triangle.Dist` as the float run behaves -/
def triEdgeLeafDSkip (E : Env K) (c : V3 K) (s : V3 K × V3 K) : Option (K × Unit) :=
  if vecEq3 s.1 s.2 then none else triEdgeLeafD E c s

/-- `t.Normal()` is `0 · (1/0)` = NaN: the cross product of the sides is exactly 0 -/
def triNormalNaN (t0 t1 t2 : V3 K) : Bool := vecEq3 ((t1.sub t0).cross (t2.sub t0)) V3.zero

/-- `Triangle.Closest` as the float run behaves: with a NaN normal every `component` is NaN, the in-plane test fails,
and the edge loop skips the zero-length edges; otherwise `triClosestN` -/
def triClosestSkip (E : Env K) (t0 t1 t2 c : V3 K) : V3 K :=
  if triNormalNaN t0 t1 t2 then
    match scanWith (triEdgeLeafCSkip E c) (triSegments t0 t1 t2) with
    | some x => x.2
    | none => t0
  else triClosestN E t0 t1 t2 c

/-- `Triangle.Dist` as the float run behaves (scan result `none`: `result` is still `+Inf`, `c.Dist(t[0])` is returned) -/
def triDistSkip (E : Env K) (t0 t1 t2 c : V3 K) : K :=
  if triNormalNaN t0 t1 t2 then
    ((scanWith (triEdgeLeafDSkip E c) (triSegments t0 t1 t2)).map (·.1)).getD (c.dist E t0)
  else triDistN E t0 t1 t2 c

theorem triEdgeLeafDSkip_eq (E : Env K) (c : V3 K) (s : V3 K × V3 K) :
    triEdgeLeafDSkip E c s = (triEdgeLeafCSkip E c s).map (fun x => (x.1, ())) := by
  unfold triEdgeLeafDSkip triEdgeLeafCSkip
  by_cases h : vecEq3 s.1 s.2 = true
  · simp only [h, if_true, Option.map_none]
  · simp only [h, Bool.false_eq_true, if_false, triEdgeLeafC_eq, triEdgeLeafD_eq, Option.map_some, segDist3]
    rw [V3.dist_comm]

/-- the two loops agree: `Dist` is the distance kept by the loop of `Closest` -/
theorem triDistSkip_scan (E : Env K) (c : V3 K) (segs : List (V3 K × V3 K)) :
    (scanWith (triEdgeLeafDSkip E c) segs).map (·.1) = (scanWith (triEdgeLeafCSkip E c) segs).map (·.1) := by
  rw [scanWith_map (triEdgeLeafCSkip E c) (triEdgeLeafDSkip E c) (fun _ => ()) (triEdgeLeafDSkip_eq E c) segs]
  cases scanWith (triEdgeLeafCSkip E c) segs <;> rfl

theorem segClosestQ3_self (a c : V3 K) : segClosestQ3 a a c = a := by
  rw [segClosestQ3_eq_lerp, V3.lerp_self]

/-- **Edge scan with zero-length edges skipped.**  If every zero-length edge `{p, p}` of a non-empty list has `p` as
an end point of a proper edge of the list, the scan returns a distance `d ≥ 0` and a point `p` of a proper edge at that
distance (`d² = ‖p - c‖²`, `p` its `Closest`), and no point of any edge — the zero-length ones included — is closer. -/
theorem edgeScanSkip_spec {E : Env K} (hE : E.Exact) (segs : List (V3 K × V3 K)) (c : V3 K) (hne : segs ≠ [])
    (hcov : ∀ g ∈ segs, g.1 = g.2 → ∃ f ∈ segs, f.1 ≠ f.2 ∧ (f.1 = g.1 ∨ f.2 = g.1)) :
    ∃ d p, scanWith (triEdgeLeafCSkip E c) segs = some (d, p) ∧ 0 ≤ d ∧ d * d = p.sqDist c ∧ d = p.dist E c ∧
      (∃ f ∈ segs, f.1 ≠ f.2 ∧ p = segClosest3 E f.1 f.2 c ∧ ∃ t, 0 ≤ t ∧ t ≤ 1 ∧ p = V3.lerp f.1 f.2 t) ∧
      ∀ g ∈ segs, ∀ t, 0 ≤ t → t ≤ 1 → d * d ≤ (V3.lerp g.1 g.2 t).sqDist c := by
  have hleaf : ∀ f : V3 K × V3 K, f.1 ≠ f.2 →
      triEdgeLeafCSkip E c f = some ((segClosest3 E f.1 f.2 c).dist E c, segClosest3 E f.1 f.2 c) := by
    intro f hf
    have : vecEq3 f.1 f.2 = false := by
      rw [Bool.eq_false_iff]; intro hv; exact hf ((vecEq3_iff _ _).mp hv)
    simp only [triEdgeLeafCSkip, this, Bool.false_eq_true, if_false, triEdgeLeafC_eq]
  have hnone : ∀ f : V3 K × V3 K, f.1 = f.2 → triEdgeLeafCSkip E c f = none := by
    intro f hf
    simp only [triEdgeLeafCSkip, (vecEq3_iff _ _).mpr hf, if_true]
  -- reference distance of an edge: to the `sqrt`-free closest point (the point itself for a zero-length edge)
  let D : V3 K × V3 K → K := fun g => (segClosestQ3 g.1 g.2 c).dist E c
  have hDle : ∀ g : V3 K × V3 K, ∀ t, 0 ≤ t → t ≤ 1 → D g * D g ≤ (V3.lerp g.1 g.2 t).sqDist c := by
    intro g t ht0 ht1
    show (segClosestQ3 g.1 g.2 c).dist E c * (segClosestQ3 g.1 g.2 c).dist E c ≤ _
    rw [(V3.dist_facts hE _ _).2]
    by_cases hg : g.1 = g.2
    · rw [← hg, segClosestQ3_self, V3.lerp_self]
    · exact segClosestQ3_le _ _ _ (V3.normSq_sub_pos hg) t ht0 ht1
  have hD : ∀ f ∈ segs, ∀ x, triEdgeLeafCSkip E c f = some x → x.1 = D f := by
    intro f _ x hx
    by_cases hf : f.1 = f.2
    · rw [hnone f hf] at hx; cases hx
    · rw [hleaf f hf] at hx; cases hx
      show (segClosest3 E f.1 f.2 c).dist E c = (segClosestQ3 f.1 f.2 c).dist E c
      rw [segClosest3_eq_Q hE _ _ _ (V3.normSq_sub_pos hf)]
  have hc : ∀ g ∈ segs, triEdgeLeafCSkip E c g = none →
      ∃ f ∈ segs, ∃ x, triEdgeLeafCSkip E c f = some x ∧ x.1 ≤ D g := by
    intro g hg hgn
    have hdeg : g.1 = g.2 := by
      by_contra hnd
      rw [hleaf g hnd] at hgn; cases hgn
    obtain ⟨f, hf, hfnd, hend⟩ := hcov g hg hdeg
    refine ⟨f, hf, _, hleaf f hfnd, ?_⟩
    show (segClosest3 E f.1 f.2 c).dist E c ≤ (segClosestQ3 g.1 g.2 c).dist E c
    apply le_of_sq_le (V3.dist_facts hE _ _).1 (V3.dist_facts hE _ _).1
    rw [← hdeg, segClosestQ3_self, (V3.dist_facts hE g.1 c).2, (V3.dist_facts hE _ c).2,
      segClosest3_eq_Q hE _ _ _ (V3.normSq_sub_pos hfnd)]
    rcases hend with h | h
    · have := segClosestQ3_le f.1 f.2 c (V3.normSq_sub_pos hfnd) 0 le_rfl zero_le_one
      rw [V3.lerp_zero] at this
      rw [← h]; exact this
    · have := segClosestQ3_le f.1 f.2 c (V3.normSq_sub_pos hfnd) 1 zero_le_one le_rfl
      rw [V3.lerp_one] at this
      rw [← h]; exact this
  obtain ⟨r, hr, ⟨f, hf, hfr, _⟩, hmin⟩ := scanWith_covered (triEdgeLeafCSkip E c) D segs hne hD hc
  have hfnd : f.1 ≠ f.2 := by
    intro hdeg; rw [hnone f hdeg] at hfr; cases hfr
  rw [hleaf f hfnd] at hfr
  cases hfr
  refine ⟨_, _, hr, (V3.dist_facts hE _ _).1, (V3.dist_facts hE _ _).2, rfl, ?_, ?_⟩
  · refine ⟨f, hf, hfnd, rfl, ?_⟩
    rw [segClosest3_eq_Q hE _ _ _ (V3.normSq_sub_pos hfnd)]
    exact segClosestQ3_mem _ _ _ (V3.normSq_sub_pos hfnd)
  · intro g hg t ht0 ht1
    have h1 := hmin g hg
    have hd0 := (V3.dist_facts hE (segClosest3 E f.1 f.2 c) c).1
    exact le_trans (sq_le_of_le hd0 h1) (hDle g t ht0 ht1)

/-- in a triangle whose corners are not all the same point every zero-length edge shares its point with a proper
edge -/
theorem triSegments_cover (t0 t1 t2 : V3 K) (hne : ¬ (t0 = t1 ∧ t1 = t2)) :
    ∀ g ∈ triSegments t0 t1 t2, g.1 = g.2 →
      ∃ f ∈ triSegments t0 t1 t2, f.1 ≠ f.2 ∧ (f.1 = g.1 ∨ f.2 = g.1) := by
  have hseg : ∀ p q : V3 K, (newSegment3 p q).1 = (newSegment3 p q).2 → p = q := by
    intro p q h
    rcases newSegment3_cases p q with e | e <;> rw [e] at h <;> dsimp only at h
    · exact h
    · exact h.symm
  -- a proper edge `NewSegment(p, q)` has both `p` and `q` among its end points
  have hprop : ∀ p q : V3 K, p ≠ q → (newSegment3 p q).1 ≠ (newSegment3 p q).2 ∧
      ((newSegment3 p q).1 = p ∨ (newSegment3 p q).2 = p) ∧ ((newSegment3 p q).1 = q ∨ (newSegment3 p q).2 = q) := by
    intro p q hpq
    rcases newSegment3_cases p q with e | e <;> rw [e] <;> dsimp only
    · exact ⟨hpq, Or.inl rfl, Or.inr rfl⟩
    · exact ⟨fun h => hpq h.symm, Or.inr rfl, Or.inl rfl⟩
  have hself : ∀ p q : V3 K, p = q → (newSegment3 p q).1 = p := by
    intro p q h
    rcases newSegment3_cases p q with e | e <;> rw [e]
    exact h.symm
  intro g hg hdeg
  simp only [triSegments, List.mem_cons, List.mem_nil_iff, or_false] at hg
  rcases hg with rfl | rfl | rfl
  · have h01 := hseg _ _ hdeg
    have h12 : t1 ≠ t2 := fun h => hne ⟨h01, h⟩
    obtain ⟨a, b, _⟩ := hprop t1 t2 h12
    refine ⟨newSegment3 t1 t2, by simp [triSegments], a, ?_⟩
    rw [hself t0 t1 h01, h01]; exact b
  · have h12 := hseg _ _ hdeg
    have h01 : t0 ≠ t1 := fun h => hne ⟨h, h12⟩
    obtain ⟨a, _, b⟩ := hprop t0 t1 h01
    refine ⟨newSegment3 t0 t1, by simp [triSegments], a, ?_⟩
    rw [hself t1 t2 h12]; exact b
  · have h20 := hseg _ _ hdeg
    have h01 : t0 ≠ t1 := fun h => hne ⟨h, by rw [← h, h20]⟩
    obtain ⟨a, b, _⟩ := hprop t0 t1 h01
    refine ⟨newSegment3 t0 t1, by simp [triSegments], a, ?_⟩
    rw [hself t2 t0 h20, h20]; exact b

/-- points of the canonically ordered edge are the points of the edge -/
theorem newSegment3_lerp (p q : V3 K) (t : K) (ht0 : 0 ≤ t) (ht1 : t ≤ 1) :
    ∃ t', 0 ≤ t' ∧ t' ≤ 1 ∧ V3.lerp p q t = V3.lerp (newSegment3 p q).1 (newSegment3 p q).2 t' := by
  rcases newSegment3_cases p q with e | e <;> rw [e] <;> dsimp only
  · exact ⟨t, ht0, ht1, rfl⟩
  · exact ⟨1 - t, by linarith, by linarith, (lerp_swap p q t).symm⟩

/-- a triangle with a repeated corner has cross product 0: its normal is `0 · (1/0)` -/
theorem triNormalNaN_of_repeated (t0 t1 t2 : V3 K) (h : t0 = t1 ∨ t1 = t2 ∨ t2 = t0) :
    triNormalNaN t0 t1 t2 = true := by
  unfold triNormalNaN
  rw [vecEq3_iff]
  rcases h with h | h | h <;> subst h <;> ext <;> simp [V3.cross, V3.sub, V3.zero] <;> ring

/-- every point of a triangle with a repeated corner lies on one of its edges -/
theorem triPoint_on_edge_of_repeated (t0 t1 t2 : V3 K) (h : t0 = t1 ∨ t1 = t2 ∨ t2 = t0) (u v : K)
    (huv : InTri u v) :
    ∃ t, 0 ≤ t ∧ t ≤ 1 ∧ (triPoint t0 t1 t2 u v = V3.lerp t0 t1 t ∨ triPoint t0 t1 t2 u v = V3.lerp t2 t0 t) := by
  obtain ⟨hu, hv, huv1⟩ := huv
  rcases h with h | h | h
  · subst h
    refine ⟨1 - v, by linarith, by linarith, Or.inr ?_⟩
    ext <;> simp [triPoint, V3.lerp, V3.add, V3.sub, V3.scale] <;> ring
  · subst h
    refine ⟨u + v, by linarith, huv1, Or.inl ?_⟩
    ext <;> simp [triPoint, V3.lerp, V3.add, V3.sub, V3.scale] <;> ring
  · subst h
    refine ⟨u, hu, by linarith, Or.inl ?_⟩
    ext <;> simp [triPoint, V3.lerp, V3.add, V3.sub, V3.scale]

/-- a triangle whose three corners are one point: every edge is skipped -/
theorem edgeScanSkip_point (E : Env K) (a c : V3 K) :
    scanWith (triEdgeLeafCSkip E c) (triSegments a a a) = none := by
  rw [(scanWith_spec _ _).1]
  intro f hf
  have hs : newSegment3 a a = (a, a) := by rcases newSegment3_cases a a with e | e <;> exact e
  simp only [triSegments, hs, List.mem_cons, List.mem_nil_iff, or_false, or_self] at hf
  subst hf
  simp only [triEdgeLeafCSkip, (vecEq3_iff _ _).mpr rfl, if_true]

theorem triPoint_self (a : V3 K) (u v : K) : triPoint a a a u v = a := by
  ext <;> simp [triPoint, V3.add, V3.sub, V3.scale]

end field

/-- environment of the worked example of `triangle_repeated_corner_dist_exact` over `Rat`: a "square root" that is
exact on the squares that occur there -/
def exEnvQ : Env Rat := ⟨fun s => if s = 25 then 5 else if s = 4 then 2 else s, 1 / 100000, 1 / 2⟩

end M3d.Sdf
