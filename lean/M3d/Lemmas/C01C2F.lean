import M3d.Props.C12
import M3d.Lemmas.MsLift3
import M3d.Lemmas.McLift3
/-!
# Coarse-to-fine marching is watertight whenever the documented cover holds (property C01)

`MarchingSquaresC2F` / `MarchingCubesC2F` (model2d/marching.go, model3d/mc.go) are documented as

  "computes a coarse mesh for the solid, then uses that mesh to compute a fine mesh more efficiently.
   The extraSpace argument, if non-zero, is extra space to consider around the coarse mesh.  It can be
   increased in the case where the solid has fine details that are totally missed by the coarse mesh."

so the contract is: **everything within `extraSpace` (plus the built-in conservative margin, which has to
bridge the cell of the coarse lattice the coarse mesh runs through) of the coarse mesh is meshed at the
fine spacing.**  In lattice terms (both lattices start one spacing below `s.Min()`, ratio
`bigDelta = m·smallDelta`): with `E·smallDelta ≤ extraSpace`, every fine cell with a sign change that
lies, in the max-norm, within `E` fine steps + one coarse cell of a coarse cell with a sign change
(`M3d.C2F.seenAll2/3 m (m+E)`) must be meshed.  Under exactly that precondition the C12 covering theorems
(`M3d.C12.c2f_ms_sound / c2f_mc_sound`) give: the C2F face multiset IS the plain fine one, and the plain
fine mesh is watertight on every lattice (`ms_in_out_one`, `mc_edges_balanced`) — hence so is the C2F
mesh.  The counts `cnt` / `ecnt` only depend on the face multiset.
-/
namespace M3d.C01
open M3d.Marching M3d.Partition M3d.C2F

theorem cnt_perm {m m' : List (GV2 × GV2)} (h : m.Perm m') (sel : Bool) (v : GV2) :
    cnt sel m v = cnt sel m' v := by
  unfold cnt
  exact h.countP_eq _

theorem ecnt_perm {m m' : List (GV × GV × GV)} (h : m.Perm m') (d : GV × GV) :
    ecnt m d = ecnt m' d := by
  unfold ecnt
  exact (h.flatMap_right gsides).countP_eq _

/-- 2-D: a face list that is a permutation of the plain fine marching-squares mesh of a labelling with
empty outer layer is closed: in-degree = out-degree ≤ 1 at every point. -/
theorem closed_of_perm_msMesh {table : List (List (List Nat))} (hok : msLocalOk table = true)
    (nx ny : Nat) (lab : Nat → Nat → Bool)
    (hb : ∀ x y, (x = 0 ∨ y = 0 ∨ nx ≤ x ∨ ny ≤ y) → lab x y = false)
    (mesh : List (GV2 × GV2)) (hp : mesh.Perm (msMesh table nx ny lab)) (v : GV2) :
    cnt false mesh v = cnt true mesh v ∧ cnt false mesh v ≤ 1 := by
  rw [cnt_perm hp false v, cnt_perm hp true v]
  exact ms_in_out_one hok nx ny lab hb v

/-- 3-D: a face list that is a permutation of the plain fine marching-cubes mesh of a labelling with
empty outer layer is edge-balanced. -/
theorem balanced_of_perm_mcMesh {table : List (List (List Nat))} (hok : mcLocalOk table = true)
    (nx ny nz : Nat) (lab : Nat → Nat → Nat → Bool)
    (hb : ∀ x y z, (x = 0 ∨ y = 0 ∨ z = 0 ∨ nx ≤ x ∨ ny ≤ y ∨ nz ≤ z) → lab x y z = false)
    (mesh : List (GV × GV × GV)) (hp : mesh.Perm (mcMesh table nx ny nz lab)) (U V : GV) :
    ecnt mesh (U, V) = ecnt mesh (V, U) ∧ ecnt mesh (U, V) ≤ 1 := by
  rw [ecnt_perm hp (U, V), ecnt_perm hp (V, U)]
  exact mc_edges_balanced hok nx ny nz lab hb U V

section margin
variable {K : Type} [Field K] [LinearOrder K] [IsStrictOrderedRing K]

/-- The margin arithmetic of the documented contract: with `bigDelta = m·δ`, a caller's `extraSpace`
of at least `E` fine steps, and a built-in margin of at least two coarse spacings, the total expansion
covers the reach `R = m + E` of `c2f_ms_sound / c2f_mc_sound`: `(R + m)·δ ≤ extraSpace + margin`. -/
theorem reach_covered (m E : Nat) (δ extraSpace margin : K)
    (hE : (E : K) * δ ≤ extraSpace) (hmargin : 2 * ((m : K) * δ) ≤ margin) :
    (((m + E : Nat) : K) + m) * δ ≤ extraSpace + margin := by
  push_cast
  nlinarith

end margin

end M3d.C01
