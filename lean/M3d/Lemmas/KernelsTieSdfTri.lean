import M3d.Lemmas.KernelsTieSdf
/-!
# Tie between the REGENERATED 3-D `Triangle.Dist` / `Triangle.Closest` and the hand-written C06 models

`M3d/Gen/Kernels.lean` contains (translated on every run from the current `model3d/primitives.go`)
`model3d.Triangle_Dist`, `model3d.Triangle_Closest` and `model3d.Triangle_Segments`.  The theorems below prove, for
every linear ordered field, that they are `triDist` / `triClosest` of `M3d/Model/Sdf.lean` — the definitions the C06
theorems `triangle_closest_optimal`, `mesh_sdf_exhaustive_min` … are about.

The edge loops start their running minimum at `math.Inf(1)` (`HasInf.posInf`) and update it with `if d < result`; the
models' `pickMin` lets the first edge win unconditionally.  Over a field with ANY `HasInf` instance the two agree as soon
as the distance of the first edge is below `posInf` (`TriFinite`; true for every finite float, and over a field with
`posInf` larger than the data).  An edit of the loop (e.g. folding with `math.Min`, which differs from `if d < result`
exactly on NaN) changes the generated text and this file stops compiling unless the rewrite is provably equal over
every ordered field; the degenerate (NaN) behaviour itself is covered by the `b.tri3d` correspondence.
-/
namespace M3d.KernelsTie.SdfTri
open M3d.Sdf M3d.Gen.Kernels M3d.GenPrelude M3d.KernelsTie.Sdf
set_option linter.unusedSectionVars false
set_option linter.unusedVariables false
set_option linter.unusedSimpArgs false
set_option linter.unreachableTactic false
set_option linter.unusedTactic false

variable {K : Type} [Field K] [LinearOrder K] [IsStrictOrderedRing K]
variable (E : Env K)

/-- `t.Segments()` -/
theorem triangle_segments (t0 t1 t2 : V3 K) :
    model3d.Triangle_Segments ⟨g3 t0, g3 t1, g3 t2⟩ =
      ⟨gseg (newSegment3 t0 t1), gseg (newSegment3 t1 t2), gseg (newSegment3 t2 t0)⟩ := by
  unfold model3d.Triangle_Segments
  simp only [newSegment]

theorem matrix3_invertInPlace (m : M3 K) : model3d.Matrix3_InvertInPlace (gm3 m) = gm3 m.inverse := rfl

/-- the in-plane test `components.X >= 0 && components.Y >= 0 && components.X+components.Y <= 1` -/
theorem inside_test (k : V3 K) :
    (decide (k.x ≥ 0) && decide (k.y ≥ 0) && decide (k.x + k.y ≤ 1)) = triInside k := by
  unfold triInside
  simp only [ge_iff_le]
  by_cases hx : k.x < 0 <;> by_cases hy : k.y < 0 <;>
    simp [hx, hy, not_le.mpr, not_lt.mp]

/-- the `components` of both functions -/
theorem triangle_components (t0 t1 t2 c : V3 K) :
    (letI := sqrtOf E
     model3d.Matrix3_MulColumn
      (model3d.Matrix3_InvertInPlace
        (model3d.NewMatrix3Columns (model3d.Coord3D_Sub (g3 t1) (g3 t0)) (model3d.Coord3D_Sub (g3 t2) (g3 t0))
          (model3d.Triangle_Normal ⟨g3 t0, g3 t1, g3 t2⟩)))
      (model3d.Coord3D_Sub (g3 c) (g3 t0))) = g3 (triComponents E t0 t1 t2 c) := by
  unfold triComponents
  simp only [coord3_sub, triangle_normal, matrix3_columns, matrix3_invertInPlace, matrix3_mulColumn]

theorem segment_dist_gseg (s : V3 K × V3 K) (c : V3 K) :
    (letI := sqrtOf E; model3d.Segment_Dist (gseg s) (g3 c)) = segDist3 E s.1 s.2 c := segment_dist E s.1 s.2 c

theorem segment_closest_gseg (s : V3 K × V3 K) (c : V3 K) :
    (letI := sqrtOf E; model3d.Segment_Closest (gseg s) (g3 c)) = g3 (segClosest3 E s.1 s.2 c) :=
  segment_closest E s.1 s.2 c

section inf
variable [I : HasInf K]

/-- the distance of the first edge is below `math.Inf(1)` -/
def TriFinite (t0 t1 t2 c : V3 K) : Prop :=
  segDist3 E (newSegment3 t0 t1).1 (newSegment3 t0 t1).2 c < I.posInf

/-- **`Triangle.Dist` of the source is `triDist`.** -/
theorem triangle_dist_eq (t0 t1 t2 c : V3 K) (hf : TriFinite E t0 t1 t2 c) :
    (letI := sqrtOf E; model3d.Triangle_Dist ⟨g3 t0, g3 t1, g3 t2⟩ (g3 c)) = triDist E t0 t1 t2 c := by
  unfold model3d.Triangle_Dist triDist
  simp only [triangle_components, g3_X, g3_Y, g3_Z, inside_test, triangle_segments]
  by_cases hin : triInside (triComponents E t0 t1 t2 c) = true
  · simp only [hin, if_true, g3_Z, M3d.KernelsTie.Sdf.absS_eq]
  · have hf' : segDist3 E (newSegment3 t0 t1).1 (newSegment3 t0 t1).2 c < HasInf.posInf := hf
    simp only [hin, Bool.false_eq_true, if_false, segment_dist_gseg, hf', decide_true, if_true, pickMin,
      decide_eq_true_eq]
    generalize segDist3 E (newSegment3 t0 t1).1 (newSegment3 t0 t1).2 c = d0 at hf'
    generalize segDist3 E (newSegment3 t1 t2).1 (newSegment3 t1 t2).2 c = d1
    generalize segDist3 E (newSegment3 t2 t0).1 (newSegment3 t2 t0).2 c = d2
    -- the final `if result == math.Inf(1)`: the result is one of the three distances, at most the first one
    have hne : ∀ x : K, x ≤ d0 → feq x HasInf.posInf = false := by
      intro x hx
      have hlt : x < HasInf.posInf := lt_of_le_of_lt hx hf'
      simp [feq, hlt, not_lt.mpr hlt.le]
    by_cases h1 : d1 < d0
    · by_cases h2 : d2 < d1
      · simp [h1, h2, hne d2 (le_of_lt (lt_trans h2 h1))]
      · simp [h1, h2, hne d1 h1.le]
    · by_cases h3 : d2 < d0
      · simp [h1, h3, hne d2 h3.le]
      · simp [h1, h3, hne d0 le_rfl]

/-- **`Triangle.Closest` of the source is `triClosest`** (the first edge's point is at a distance below `math.Inf(1)`). -/
theorem triangle_closest_eq (t0 t1 t2 c : V3 K)
    (hf : (segClosest3 E (newSegment3 t0 t1).1 (newSegment3 t0 t1).2 c).dist E c < I.posInf) :
    (letI := sqrtOf E; model3d.Triangle_Closest ⟨g3 t0, g3 t1, g3 t2⟩ (g3 c)) = g3 (triClosest E t0 t1 t2 c) := by
  unfold model3d.Triangle_Closest triClosest triEdgeClosest
  simp only [triangle_components, g3_X, g3_Y, g3_Z, inside_test, triangle_segments]
  by_cases hin : triInside (triComponents E t0 t1 t2 c) = true
  · simp only [hin, if_true, coord3_sub, coord3_scale, coord3_add, g3_X, g3_Y]
  · have hf' : (segClosest3 E (newSegment3 t0 t1).1 (newSegment3 t0 t1).2 c).dist E c < HasInf.posInf := hf
    simp only [hin, Bool.false_eq_true, if_false, segment_closest_gseg, coord3_dist, hf', decide_true, if_true, pickMin,
      decide_eq_true_eq]
    generalize segClosest3 E (newSegment3 t0 t1).1 (newSegment3 t0 t1).2 c = p0
    generalize segClosest3 E (newSegment3 t1 t2).1 (newSegment3 t1 t2).2 c = p1
    generalize segClosest3 E (newSegment3 t2 t0).1 (newSegment3 t2 t0).2 c = p2
    by_cases h1 : p1.dist E c < p0.dist E c <;> by_cases h2 : p2.dist E c < p1.dist E c <;>
      by_cases h3 : p2.dist E c < p0.dist E c <;> simp [h1, h2, h3]

end inf

/-- Non-vacuity of `TriFinite`: over `ℚ` with `posInf = 1000`. -/
example : (letI : HasInf ℚ := ⟨1000, -1000, fun _ => false⟩
    TriFinite (⟨id, 1 / 100000, 1 / 2⟩ : Env ℚ) ⟨0, 0, 0⟩ ⟨1, 0, 0⟩ ⟨0, 1, 0⟩ ⟨2, 2, 2⟩) := by
  unfold TriFinite
  decide +kernel

end M3d.KernelsTie.SdfTri
