import M3d.Lemmas.CollideGeom
import Mathlib.Tactic.Tauto
/-!
# C07 — the slab method (`rayCollisionWithBounds`, `Rect.RayCollisions`) over a linear ordered field
-/
set_option linter.unusedSectionVars false
namespace M3d.Col

variable {K : Type} [Field K] [LinearOrder K] [IsStrictOrderedRing K]

/-- `t` lies between the optional bounds (`none` = infinite). -/
def Within (mn mx : Option K) (t : K) : Prop := (∀ m, mn = some m → m ≤ t) ∧ (∀ m, mx = some m → t ≤ m)

/-- the ray point at `t` satisfies the interval constraint of one axis -/
def AxIn (a : Ax K) (t : K) : Prop := a.lo ≤ a.o + a.d * t ∧ a.o + a.d * t ≤ a.hi

theorem axIn_iff_of_pos (a : Ax K) (t : K) (hd : 0 < a.d) :
    AxIn a t ↔ (a.lo - a.o) / a.d ≤ t ∧ t ≤ (a.hi - a.o) / a.d := by
  unfold AxIn
  rw [div_le_iff₀ hd, le_div_iff₀ hd]
  constructor <;> rintro ⟨h1, h2⟩ <;> constructor <;> linarith

theorem axIn_iff_of_neg (a : Ax K) (t : K) (hd : a.d < 0) :
    AxIn a t ↔ (a.hi - a.o) / a.d ≤ t ∧ t ≤ (a.lo - a.o) / a.d := by
  unfold AxIn
  rw [div_le_iff_of_neg hd, le_div_iff_of_neg hd]
  constructor <;> rintro ⟨h1, h2⟩ <;> constructor <;> linarith

/-- For a non-zero rate the admissible parameters of one axis are exactly `[s1, s2]`, the sorted pair the
loop computes. -/
theorem axIn_iff (a : Ax K) (t : K) (hd : a.d ≠ 0) (hbox : a.lo ≤ a.hi) :
    let t1 := (a.lo - a.o) / a.d
    let t2 := (a.hi - a.o) / a.d
    AxIn a t ↔ (if t2 < t1 then t2 else t1) ≤ t ∧ t ≤ (if t2 < t1 then t1 else t2) := by
  intro t1 t2
  rcases lt_or_gt_of_ne hd with hneg | hpos
  · rw [axIn_iff_of_neg a t hneg]
    have h12 : t2 ≤ t1 := by
      show (a.hi - a.o) / a.d ≤ (a.lo - a.o) / a.d
      exact div_le_div_of_nonpos_of_le (le_of_lt hneg) (by linarith)
    by_cases hlt : t2 < t1
    · simp only [hlt, if_true]; exact Iff.rfl
    · have heq : t1 = t2 := le_antisymm (not_lt.1 hlt) h12
      simp only [hlt, if_false]
      show t2 ≤ t ∧ t ≤ t1 ↔ t1 ≤ t ∧ t ≤ t2
      rw [heq]
  · rw [axIn_iff_of_pos a t hpos]
    have h12 : t1 ≤ t2 := by
      show (a.lo - a.o) / a.d ≤ (a.hi - a.o) / a.d
      exact div_le_div_of_nonneg_right (by linarith) (le_of_lt hpos)
    have hlt : ¬ t2 < t1 := not_lt.2 h12
    simp only [hlt, if_false]; exact Iff.rfl

theorem lo_some (N s1 t : K) :
    (∀ m, (if N < s1 then some s1 else some N) = some m → m ≤ t) ↔ N ≤ t ∧ s1 ≤ t := by
  by_cases h : N < s1
  · simp only [h, if_true, Option.some.injEq, forall_eq']
    exact ⟨fun h1 => ⟨by linarith, h1⟩, fun h1 => h1.2⟩
  · simp only [h, if_false, Option.some.injEq, forall_eq']
    exact ⟨fun h1 => ⟨h1, by linarith [not_lt.1 h]⟩, fun h1 => h1.1⟩

theorem hi_some (N s2 t : K) :
    (∀ m, (if s2 < N then some s2 else some N) = some m → t ≤ m) ↔ t ≤ N ∧ t ≤ s2 := by
  by_cases h : s2 < N
  · simp only [h, if_true, Option.some.injEq, forall_eq']
    exact ⟨fun h1 => ⟨by linarith, h1⟩, fun h1 => h1.2⟩
  · simp only [h, if_false, Option.some.injEq, forall_eq']
    exact ⟨fun h1 => ⟨h1, by linarith [not_lt.1 h]⟩, fun h1 => h1.1⟩

/-- **The slab loop computes the parameter interval of the box**: for `t ≥ 0`, `t` is between the returned
bounds iff it was between the incoming bounds and the ray point at `t` satisfies every axis constraint.
(The miss value `(0, -1)` denotes the empty interval.) -/
theorem slabLoop_spec : ∀ (as : List (Ax K)) (mn mx : Option K) (t : K), 0 ≤ t →
    (∀ a ∈ as, a.lo ≤ a.hi) →
    (Within (slabLoop as mn mx).1 (slabLoop as mn mx).2 t ↔ Within mn mx t ∧ ∀ a ∈ as, AxIn a t)
  | [], mn, mx, t, _, _ => by simp [slabLoop]
  | a :: as, mn, mx, t, ht, hbox => by
    have hboxa : a.lo ≤ a.hi := hbox a List.mem_cons_self
    have hboxas : ∀ a' ∈ as, a'.lo ≤ a'.hi := fun a' h => hbox a' (List.mem_cons_of_mem _ h)
    have miss : ¬ Within (some (0 : K)) (some (-1 : K)) t := by
      rintro ⟨h1, h2⟩
      have := h2 (-1) rfl
      linarith
    simp only [slabLoop]
    by_cases hz : isZero a.d = true
    · have hd0 : a.d = 0 := (isZero_iff _).1 hz
      simp only [hz, if_true]
      by_cases hout : a.o < a.lo ∨ a.hi < a.o
      · simp only [hout, if_true]
        constructor
        · intro h; exact absurd h miss
        · rintro ⟨_, h⟩
          have := h a List.mem_cons_self
          unfold AxIn at this
          rw [hd0] at this
          rcases hout with h' | h' <;> linarith [this.1, this.2]
      · simp only [hout, if_false]
        rw [slabLoop_spec as mn mx t ht hboxas]
        have hin : AxIn a t := by
          unfold AxIn; rw [hd0]
          have := not_or.1 hout
          constructor <;> linarith [not_lt.1 this.1, not_lt.1 this.2]
        constructor
        · rintro ⟨h1, h2⟩
          exact ⟨h1, fun a' ha' => by
            rcases List.mem_cons.1 ha' with rfl | ha'
            · exact hin
            · exact h2 a' ha'⟩
        · rintro ⟨h1, h2⟩
          exact ⟨h1, fun a' ha' => h2 a' (List.mem_cons_of_mem _ ha')⟩
    · have hd : a.d ≠ 0 := fun h => hz ((isZero_iff _).2 h)
      simp only [hz, Bool.false_eq_true, if_false]
      have hax := axIn_iff a t hd hboxa
      simp only [] at hax
      set s1 := (if (a.hi - a.o) / a.d < (a.lo - a.o) / a.d then (a.hi - a.o) / a.d else (a.lo - a.o) / a.d) with hs1
      set s2 := (if (a.hi - a.o) / a.d < (a.lo - a.o) / a.d then (a.lo - a.o) / a.d else (a.hi - a.o) / a.d) with hs2
      by_cases hs2neg : s2 < 0
      · simp only [hs2neg, if_true]
        constructor
        · intro h; exact absurd h miss
        · rintro ⟨_, h⟩
          have := (hax.1 (h a List.mem_cons_self)).2
          linarith
      · simp only [hs2neg, if_false]
        rw [slabLoop_spec as _ _ t ht hboxas]
        refine Iff.trans (and_congr_left' (b := Within mn mx t ∧ s1 ≤ t ∧ t ≤ s2) ?_) ?_
        · unfold Within
          cases mn <;> cases mx <;>
            simp only [lo_some, hi_some, Option.some.injEq, forall_eq', reduceCtorEq, false_implies,
              implies_true, true_and, and_true] <;> tauto
        constructor
        · rintro ⟨⟨h1, h2, h3⟩, h4⟩
          exact ⟨h1, fun a' ha' => by
            rcases List.mem_cons.1 ha' with rfl | ha'
            · exact hax.2 ⟨h2, h3⟩
            · exact h4 a' ha'⟩
        · rintro ⟨h1, h2⟩
          have := hax.1 (h2 a List.mem_cons_self)
          exact ⟨⟨h1, this.1, this.2⟩, fun a' ha' => h2 a' (List.mem_cons_of_mem _ ha')⟩

/-- membership of a point in the closed box -/
def InBox (lo hi p : V3 K) : Prop :=
  (lo.x ≤ p.x ∧ p.x ≤ hi.x) ∧ (lo.y ≤ p.y ∧ p.y ≤ hi.y) ∧ (lo.z ≤ p.z ∧ p.z ≤ hi.z)

theorem axes3_in (lo hi o d : V3 K) (t : K) :
    (∀ a ∈ axes3 o d lo hi, AxIn a t) ↔ InBox lo hi (o.along d t) := by
  simp only [axes3, List.mem_cons, List.not_mem_nil, or_false, forall_eq_or_imp, forall_eq, AxIn, InBox,
    V3.along, V3.add, V3.scale]

/-- **Slab theorem for `Rect`**: whenever the loop returns finite bounds `(mn, mx)`, the ray points (for
`t ≥ 0`) inside the closed box are exactly those with `mn ≤ t ≤ mx`. -/
theorem rect_interval (lo hi o d : V3 K) (hbox : lo.x ≤ hi.x ∧ lo.y ≤ hi.y ∧ lo.z ≤ hi.z) (mn mx : K)
    (h : slabLoop (axes3 o d lo hi) none none = (some mn, some mx)) (t : K) (ht : 0 ≤ t) :
    InBox lo hi (o.along d t) ↔ mn ≤ t ∧ t ≤ mx := by
  have hb : ∀ a ∈ axes3 o d lo hi, a.lo ≤ a.hi := by
    simp only [axes3, List.mem_cons, List.not_mem_nil, or_false, forall_eq_or_imp, forall_eq]
    exact hbox
  have := slabLoop_spec (axes3 o d lo hi) none none t ht hb
  rw [h, axes3_in] at this
  simp only [Within] at this
  constructor
  · intro hin
    have := this.2 ⟨⟨(fun m hm => by cases hm), (fun m hm => by cases hm)⟩, hin⟩
    exact ⟨this.1 mn rfl, this.2 mx rfl⟩
  · rintro ⟨h1, h2⟩
    exact (this.1 ⟨(fun m hm => by cases hm; exact h1), (fun m hm => by cases hm; exact h2)⟩).2

/-- what `Rect.RayCollisions` reports, in terms of the slab bounds -/
theorem rectTs_eq (lo hi o d : V3 K) (mn mx : K)
    (h : slabLoop (axes3 o d lo hi) none none = (some mn, some mx)) :
    rectTs lo hi o d = if mx < mn ∨ mx < 0 then [] else if mn < 0 then [mx] else [mn, mx] := by
  unfold rectTs
  rw [h]
  simp only
  by_cases h1 : mx < mn ∨ mx < 0
  · simp [h1]
  · have h1' := not_or.1 h1
    simp only [h1, if_false]
    by_cases h2 : mn < 0
    · simp [h2, h1'.2, List.filter]
    · simp [h2, h1'.2, List.filter]

end M3d.Col
