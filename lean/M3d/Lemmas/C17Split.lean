import M3d.Lemmas.C17Bezier
/-!
Helper lemmas for C17: the two halves produced by `BezierCurve.Split` (first column and
anti-diagonal of de Casteljau's triangle) reparametrise the curve.
-/
namespace M3d.Curves

variable {K : Type} [Field K]

theorem iter_succ' {β : Type} (f : β → β) (n : ℕ) (x : β) : iter f (n + 1) x = f (iter f n x) := by
  induction n generalizing x with
  | zero => rfl
  | succ n ih => simp only [iter] at ih ⊢; rw [ih]

/-- Level `k` of the triangle is `k` interpolation rounds. -/
theorem D_eq_iter (t : K) (k : ℕ) (s : ℕ → K) (i : ℕ) : D t k s i = iter (stepS t) k s i := by
  induction k generalizing s with
  | zero => rfl
  | succ k ih => rw [D_succ_step, ih]; rfl

/-- Left half: the de Casteljau triangle (parameter `u`) of the first column of the `t`-triangle
is the `t·u`-triangle. -/
theorem left_half (t u : K) (s : ℕ → K) (k i : ℕ) :
    D u k (fun i => D t i s 0) i = D (t * u) k (iter (stepS t) i s) 0 := by
  induction k generalizing i with
  | zero => simp only [D]; exact D_eq_iter t i s 0
  | succ k ih =>
    simp only [D]
    rw [ih i, ih (i + 1), iter_succ', D_step]
    ring

/-- Right half: the triangle (parameter `u`) of the anti-diagonal `i ↦ b_i^{(n-i)}` is the
`t + (1−t)u`-triangle. -/
theorem right_half (t u : K) (s : ℕ → K) (n k i : ℕ) (h : i + k ≤ n) :
    D u k (fun i => D t (n - i) s i) i = D (t + (1 - t) * u) k (iter (stepS t) (n - i - k) s) i := by
  induction k generalizing i with
  | zero => simp only [D, Nat.sub_zero]; exact D_eq_iter t (n - i) s i
  | succ k ih =>
    simp only [D]
    rw [ih i (by omega), ih (i + 1) (by omega)]
    have e1 : n - i - k = (n - i - (k + 1)) + 1 := by omega
    have e2 : n - (i + 1) - k = n - i - (k + 1) := by omega
    rw [e1, e2, iter_succ', D_step]
    ring

/-! ### the list program -/

theorem getElem?_dcRows (t : K) (m : ℕ) (r : List K) (i : ℕ) (h : i ≤ m) :
    (dcRows t m r)[i]? = some (iter (dcStep t) i r) := by
  induction m generalizing r i with
  | zero =>
    have : i = 0 := by omega
    subst this; rfl
  | succ m ih =>
    cases i with
    | zero => rfl
    | succ i => simp only [dcRows, List.getElem?_cons_succ]; exact ih (dcStep t r) i (by omega)

theorem length_dcRows (t : K) (m : ℕ) (r : List K) : (dcRows t m r).length = m + 1 := by
  induction m generalizing r with
  | zero => rfl
  | succ m ih => simp [dcRows, ih]

theorem split_lengths (b : List K) (t : K) :
    (split b t).1.length = b.length - 1 + 1 ∧ (split b t).2.length = b.length - 1 + 1 := by
  simp [split, length_dcRows]

theorem seqOf_split_left (b : List K) (t : K) (j : ℕ) (hj : j + 1 ≤ b.length) :
    seqOf (split b t).1 j = D t j (seqOf b) 0 := by
  simp only [seqOf, split, List.getD_eq_getElem?_getD, List.getElem?_map]
  rw [getElem?_dcRows t _ b j (by omega)]
  simp only [Option.map_some, Option.getD_some]
  push_cast
  rw [headD_eq_getD, getD_iter_dcStep t j b 0 (by omega)]

theorem seqOf_split_right (b : List K) (t : K) (j : ℕ) (hj : j + 1 ≤ b.length) :
    seqOf (split b t).2 j = D t (b.length - 1 - j) (seqOf b) j := by
  simp only [seqOf, split, List.getD_eq_getElem?_getD, List.getElem?_map]
  rw [List.getElem?_range (by omega)]
  simp only [Option.map_some, Option.getD_some]
  rw [getElem?_dcRows t _ b (b.length - 1 - j) (by omega)]
  simp only [Option.getD_some]
  push_cast
  rw [← List.getD_eq_getElem?_getD, getD_iter_dcStep t _ b j (by omega)]

/-- Both halves of `Split(t)` reparametrise the curve. -/
theorem split_eval (b : List K) (t u : K) (h : b ≠ []) :
    deCasteljau (split b t).1 u = deCasteljau b (t * u) ∧
      deCasteljau (split b t).2 u = deCasteljau b (t + (1 - t) * u) := by
  have hl : 0 < b.length := List.length_pos_of_ne_nil h
  obtain ⟨l1, l2⟩ := split_lengths b t
  have n1 : (split b t).1 ≠ [] := by intro e; rw [e] at l1; simp at l1
  have n2 : (split b t).2 ≠ [] := by intro e; rw [e] at l2; simp at l2
  rw [deCasteljau_eq_D _ u n1, deCasteljau_eq_D _ u n2, deCasteljau_eq_D b _ h, deCasteljau_eq_D b _ h,
    l1, l2, Nat.add_sub_cancel]
  constructor
  · rw [D_congr u _ (seqOf (split b t).1) (fun i => D t i (seqOf b) 0) 0
      (fun j _ hj => seqOf_split_left b t j (by omega))]
    rw [left_half]; rfl
  · rw [D_congr u _ (seqOf (split b t).2) (fun i => D t (b.length - 1 - i) (seqOf b) i) 0
      (fun j _ hj => seqOf_split_right b t j (by omega))]
    rw [right_half t u (seqOf b) (b.length - 1) (b.length - 1) 0 (by omega)]
    simp only [Nat.sub_zero, Nat.sub_self]; rfl

end M3d.Curves
