import M3d.Lemmas.Sdf
/-!
C06 helper lemmas: `profileSDF.SDF` / `profilePointSDF.PointSDF` (extruded 2-D profile).
-/
namespace M3d.Sdf
set_option linter.unusedSectionVars false
set_option linter.unusedVariables false

variable {K : Type} [Field K] [LinearOrder K] [IsStrictOrderedRing K]

/-- Squared distance from `(xy, z)` to the *side* of the extruded boundary (2-D boundary × `[lo, hi]`),
given the value `s` of a true 2-D SDF at `xy` (`|s|` = distance from `xy` to the 2-D boundary): the nearest
side point is above the nearest 2-D boundary point, at the height `z` clamped to `[lo, hi]`. -/
def profSideSq (lo hi s z : K) : K :=
  s * s + (if z < lo then (lo - z) * (lo - z) else if hi < z then (z - hi) * (z - hi) else 0)

/-- Squared distance from `(xy, z)` to the *cap* at height `zk` (the filled profile × `{zk}`): straight
down when `xy` is inside the profile (`s > 0`), else to the rim, `|s|` away horizontally. -/
def profCapSq (zk s z : K) : K := (z - zk) * (z - zk) + (if 0 < s then 0 else s * s)

/-- Squared distance to the whole extruded boundary: the minimum over its three pieces. -/
def profBoundarySq (lo hi s z : K) : K :=
  min (profSideSq lo hi s z) (min (profCapSq lo s z) (profCapSq hi s z))

theorem zDist_spec (lo hi z : K) (h : lo ≤ hi) :
    mn (absS (z - lo)) (absS (z - hi)) =
      if z < lo then lo - z else if hi < z then z - hi else min (z - lo) (hi - z) := by
  rw [mn_eq, absS_eq, absS_eq]
  split_ifs with h1 h2
  · rw [abs_of_neg (by linarith), abs_of_neg (by linarith), min_eq_left (by linarith)]; ring
  · rw [abs_of_pos (by linarith), abs_of_pos (by linarith), min_eq_right (by linarith)]
  · rw [abs_of_nonneg (by linarith), abs_of_nonpos (by linarith)]; congr 1; ring

theorem min_mul_self {a b : K} (ha : 0 ≤ a) (hb : 0 ≤ b) : min a b * min a b = min (a * a) (b * b) := by
  rcases le_total a b with h | h
  · rw [min_eq_left h, min_eq_left (mul_self_le_mul_self ha h)]
  · rw [min_eq_right h, min_eq_right (mul_self_le_mul_self hb h)]

/-- **`profileSDF.SDF`**: its square is the squared distance to the extruded boundary (the minimum over
side, bottom cap and top cap), and its sign is positive exactly inside (`s > 0` and `lo ≤ z ≤ hi`). -/
theorem profileSDF_spec {E : Env K} (hE : E.Exact) (lo hi s z : K) (h : lo ≤ hi) :
    profileSDF E lo hi s z * profileSDF E lo hi s z = profBoundarySq lo hi s z ∧
    ((0 < s ∧ lo ≤ z ∧ z ≤ hi) → 0 ≤ profileSDF E lo hi s z) ∧
    (¬ (0 < s ∧ lo ≤ z ∧ z ≤ hi) → profileSDF E lo hi s z ≤ 0) := by
  have hz := zDist_spec lo hi z h
  unfold profileSDF
  simp only [hz]
  unfold profBoundarySq profSideSq profCapSq
  have hsq : ∀ x : K, 0 ≤ x → E.sqrt x * E.sqrt x = x := fun x hx => hE.sqrt_sq x hx
  have hsn : ∀ x : K, 0 ≤ x → 0 ≤ E.sqrt x := fun x hx => hE.sqrt_nonneg x hx
  by_cases h1 : z < lo
  · have hin : (!decide (z < lo) && !decide (hi < z)) = false := by simp [h1]
    simp only [hin]
    simp only [h1, if_true, Bool.not_false]
    by_cases hs : 0 < s
    · simp only [hs, if_true]
      refine ⟨?_, fun hc => by linarith [hc.2.1], fun _ => by linarith⟩
      have e1 : (z - lo) * (z - lo) ≤ (z - hi) * (z - hi) := by nlinarith
      rw [min_eq_left (by linarith : (z - lo) * (z - lo) + 0 ≤ (z - hi) * (z - hi) + 0),
        min_eq_right (by nlinarith [mul_self_nonneg s])]
      ring
    · simp only [hs, if_false]
      have hnn : 0 ≤ (lo - z) * (lo - z) + s * s := by nlinarith [mul_self_nonneg s, mul_self_nonneg (lo - z)]
      refine ⟨?_, fun hc => hc.1.elim, fun _ => by linarith [hsn _ hnn]⟩
      rw [min_eq_left (by nlinarith : (z - lo) * (z - lo) + s * s ≤ (z - hi) * (z - hi) + s * s),
        min_eq_left (by nlinarith)]
      have := hsq _ hnn
      linear_combination this
  · by_cases h2 : hi < z
    · have hin : (!decide (z < lo) && !decide (hi < z)) = false := by simp [h2]
      simp only [hin]
      simp only [h1, h2, if_true, if_false, Bool.not_false]
      by_cases hs : 0 < s
      · simp only [hs, if_true]
        refine ⟨?_, fun hc => by linarith [hc.2.2], fun _ => by linarith⟩
        rw [min_eq_right (by nlinarith : (z - hi) * (z - hi) + 0 ≤ (z - lo) * (z - lo) + 0),
          min_eq_right (by nlinarith [mul_self_nonneg s])]
        ring
      · simp only [hs, if_false]
        have hnn : 0 ≤ (z - hi) * (z - hi) + s * s := by nlinarith [mul_self_nonneg s, mul_self_nonneg (z - hi)]
        refine ⟨?_, fun hc => hc.1.elim, fun _ => by linarith [hsn _ hnn]⟩
        rw [min_eq_right (by nlinarith : (z - hi) * (z - hi) + s * s ≤ (z - lo) * (z - lo) + s * s),
          min_eq_left (by nlinarith)]
        have := hsq _ hnn
        linear_combination this
    · have hin : (!decide (z < lo) && !decide (hi < z)) = true := by simp [h1, h2]
      have h1' := not_lt.mp h1
      have h2' := not_lt.mp h2
      simp only [hin]
      simp only [h1, h2, if_false, Bool.not_true, Bool.false_eq_true]
      by_cases hs : 0 < s
      · simp only [hs, if_true, mn_eq]
        have hzd : 0 ≤ min (z - lo) (hi - z) := le_min (by linarith) (by linarith)
        refine ⟨?_, fun _ => le_min hs.le hzd, fun hc => absurd ⟨trivial, h1', h2'⟩ hc⟩
        rw [min_mul_self hs.le hzd, min_mul_self (by linarith) (by linarith)]
        have : (hi - z) * (hi - z) = (z - hi) * (z - hi) := by ring
        rw [this]; simp
      · simp only [hs, if_false]
        refine ⟨?_, fun hc => hc.1.elim, fun _ => not_lt.mp hs⟩
        rw [min_eq_left]
        · ring
        · apply le_min <;> nlinarith [mul_self_nonneg (z - lo), mul_self_nonneg (z - hi)]

/-- **`profilePointSDF.PointSDF`**: the value is that of `profileSDF.SDF`, and if the 2-D point is at the
2-D distance `|s|` from `xy`, the reported 3-D point is at the reported distance. -/
theorem profilePointSDF_spec {E : Env K} (hE : E.Exact) (lo hi s : K) (p2 : V2 K) (c : V3 K) (h : lo ≤ hi)
    (hp : (⟨c.x, c.y⟩ : V2 K).sqDist p2 = s * s) :
    (profilePointSDF E lo hi p2 s c).2 = profileSDF E lo hi s c.z ∧
    c.sqDist (profilePointSDF E lo hi p2 s c).1 =
      (profilePointSDF E lo hi p2 s c).2 * (profilePointSDF E lo hi p2 s c).2 := by
  have hz := zDist_spec lo hi c.z h
  simp only [V2.sqDist] at hp
  unfold profilePointSDF profileSDF
  simp only [hz]
  rw [absS_eq, absS_eq]
  have hsq : ∀ x : K, 0 ≤ x → E.sqrt x * E.sqrt x = x := fun x hx => hE.sqrt_sq x hx
  by_cases h1 : c.z < lo
  · have hin : (!decide (c.z < lo) && !decide (hi < c.z)) = false := by simp [h1]
    have hhit : ¬ (|c.z - hi| < |c.z - lo|) := by
      rw [abs_of_neg (by linarith), abs_of_neg (by linarith)]; linarith
    simp only [hin]
    simp only [h1, hhit, if_true, if_false, Bool.not_false]
    by_cases hs : 0 < s
    · simp only [hs, if_true, V3.sqDist]; exact ⟨by trivial, by ring⟩
    · simp only [hs, if_false, V3.sqDist]
      have hnn : 0 ≤ (lo - c.z) * (lo - c.z) + s * s := by nlinarith [mul_self_nonneg s, mul_self_nonneg (lo - c.z)]
      refine ⟨by trivial, ?_⟩
      have := hsq _ hnn
      linear_combination hp - this
  · by_cases h2 : hi < c.z
    · have hin : (!decide (c.z < lo) && !decide (hi < c.z)) = false := by simp [h2]
      have hhz : (if |c.z - hi| < |c.z - lo| then hi else lo) = hi := by
        rw [abs_of_pos (by linarith), abs_of_pos (by linarith)]
        split_ifs with hh
        · rfl
        · exact le_antisymm h (by linarith)
      simp only [hin]
      simp only [h1, h2, hhz, if_true, if_false, Bool.not_false]
      by_cases hs : 0 < s
      · simp only [hs, if_true, V3.sqDist]; exact ⟨by trivial, by ring⟩
      · simp only [hs, if_false, V3.sqDist]
        have hnn : 0 ≤ (c.z - hi) * (c.z - hi) + s * s := by nlinarith [mul_self_nonneg s, mul_self_nonneg (c.z - hi)]
        refine ⟨by trivial, ?_⟩
        have := hsq _ hnn
        linear_combination hp - this
    · have hin : (!decide (c.z < lo) && !decide (hi < c.z)) = true := by simp [h1, h2]
      have h1' := not_lt.mp h1
      have h2' := not_lt.mp h2
      simp only [hin]
      simp only [h1, h2, if_false, Bool.not_true, Bool.false_eq_true]
      rw [abs_of_nonneg (by linarith : 0 ≤ c.z - lo), abs_of_nonpos (by linarith : c.z - hi ≤ 0)]
      by_cases hs : 0 < s
      · simp only [hs, if_true, mn_eq]
        by_cases hlt : min (c.z - lo) (hi - c.z) < s
        · simp only [hlt, if_true]
          rw [min_eq_right hlt.le]
          refine ⟨by trivial, ?_⟩
          by_cases hh : -(c.z - hi) < c.z - lo
          · simp only [hh, if_true, V3.sqDist]
            rw [min_eq_right (by linarith)]; ring
          · simp only [hh, if_false, V3.sqDist]
            rw [min_eq_left (by linarith)]; ring
        · simp only [hlt, if_false]
          rw [min_eq_left (not_lt.mp hlt)]
          refine ⟨by trivial, ?_⟩
          simp only [V3.sqDist]; linear_combination hp
      · simp only [hs, if_false]
        refine ⟨by trivial, ?_⟩
        simp only [V3.sqDist]; linear_combination hp

end M3d.Sdf
