import M3d.Model.BoundedPolyRect
import M3d.Lemmas.BoundedPoly
import M3d.Lemmas.BoundedPolyHull
/-!
# `NewConvexPolytopeRect(min, max)`: the half-space test is the box test, and the box of the vertices that
`Mesh()` enumerates is exactly `[min, max]`
-/
set_option linter.unusedSectionVars false
set_option linter.unusedVariables false
set_option linter.unusedSimpArgs false
namespace M3d.Bd

variable {K : Type} [Field K] [LinearOrder K] [IsStrictOrderedRing K]

/-- `NewConvexPolytopeRect(min, max).Contains(p)` is `min ≤ p ≤ max` on the three axes. -/
theorem polyContains_rect3 (lo hi p : Pt K) : polyContains (rectCons3 lo hi) p = inB true ⟨lo, hi⟩ p := by
  rw [Bool.eq_iff_iff, inB_iff]
  simp only [polyContains, rectCons3, List.all_cons, List.all_nil, Bool.and_true, Bool.and_eq_true,
    decide_eq_true_eq, pdot_xyz, mk3_x, mk3_y, mk3_z, mul_one, mul_zero, add_zero, zero_add, mul_neg, neg_le_neg_iff]
  constructor
  · rintro ⟨h1, h2, h3, h4, h5, h6⟩ i _
    rcases fin3 i with rfl | rfl | rfl
    · exact ⟨h2, h1⟩
    · exact ⟨h4, h3⟩
    · exact ⟨h6, h5⟩
  · intro h
    have h0 := h 0 (active0 _)
    have h1 := h 1 (active1 _)
    have h2 := h 2 (active_true _)
    exact ⟨h0.2, h0.1, h1.2, h1.1, h2.2, h2.1⟩

/-- the 2-D twin (`model2d.NewConvexPolytopeRect`); the third slot of the point is irrelevant -/
theorem polyContains_rect2 (lo hi p : Pt K) : polyContains (rectCons2 lo hi) p = inB false ⟨lo, hi⟩ p := by
  rw [Bool.eq_iff_iff, inB_iff]
  simp only [polyContains, rectCons2, List.all_cons, List.all_nil, Bool.and_true, Bool.and_eq_true,
    decide_eq_true_eq, pdot_xyz, mk3_x, mk3_y, mk3_z, mul_one, mul_zero, add_zero, zero_add, mul_neg, neg_le_neg_iff]
  constructor
  · rintro ⟨h1, h2, h3, h4⟩ i hi
    rcases fin3 i with rfl | rfl | rfl
    · exact ⟨h2, h1⟩
    · exact ⟨h4, h3⟩
    · rcases hi with hi | hi
      · exact absurd hi (by decide)
      · exact absurd hi (by decide)
  · intro h
    have h0 := h 0 (active0 _)
    have h1 := h 1 (active1 _)
    exact ⟨h0.2, h0.1, h1.2, h1.1⟩

/-! ## the vertices `Mesh()` enumerates for `NewConvexPolytopeRect(min, max)` are the corners -/

theorem sq_one (sq : K → K) (hsq : SqrtOK sq) : sq 1 = 1 := by
  have h := hsq 1 zero_le_one
  have : (sq 1 - 1) * (sq 1 + 1) = 0 := by linear_combination h.2
  rcases mul_eq_zero.mp this with h1 | h1
  · linarith
  · linarith [h.1]

theorem triples6 {β : Type} (a b c d e f : β) : triples [a,b,c,d,e,f] =
  [(a,b,c,[d,e,f]), (a,b,d,[c,e,f]), (a,b,e,[c,d,f]), (a,b,f,[c,d,e]),
   (a,c,d,[b,e,f]), (a,c,e,[b,d,f]), (a,c,f,[b,d,e]),
   (a,d,e,[b,c,f]), (a,d,f,[b,c,e]), (a,e,f,[b,c,d]),
   (b,c,d,[a,e,f]), (b,c,e,[a,d,f]), (b,c,f,[a,d,e]),
   (b,d,e,[a,c,f]), (b,d,f,[a,c,e]), (b,e,f,[a,c,d]),
   (c,d,e,[a,b,f]), (c,d,f,[a,b,e]), (c,e,f,[a,b,d]), (d,e,f,[a,b,c])] := by
  simp [triples, triples.picks2, triples.picksAfter]

theorem pairs4 {β : Type} (a b c d : β) : pairs [a,b,c,d] =
  [(a,b,[c,d]), (a,c,[b,d]), (a,d,[b,c]), (b,c,[a,d]), (b,d,[a,c]), (c,d,[a,b])] := by
  simp [pairs, triples.picks2, triples.picksAfter]

theorem pnorm_axis (sq : K → K) (hsq : SqrtOK sq) :
    pnorm sq (mk3 (1:K) 0 0) = 1 ∧ pnorm sq (mk3 (-1:K) 0 0) = 1 ∧ pnorm sq (mk3 (0:K) 1 0) = 1 ∧
    pnorm sq (mk3 (0:K) (-1) 0) = 1 ∧ pnorm sq (mk3 (0:K) 0 1) = 1 ∧ pnorm sq (mk3 (0:K) 0 (-1)) = 1 := by
  refine ⟨?_, ?_, ?_, ?_, ?_, ?_⟩ <;>
  · rw [pnorm_eq, pdot_xyz]
    simp only [mk3_x, mk3_y, mk3_z, mul_one, mul_zero, add_zero, zero_add, neg_mul_neg]
    exact sq_one sq hsq

theorem verts3_rect_aux (sq : K → K) (hsq : SqrtOK sq) (tol eps : K) (h0 : 0 < tol) (h1 : tol ≤ 1) (he : 0 ≤ eps)
    (lo hi : Pt K) (hx : lo.x ≤ hi.x) (hy : lo.y ≤ hi.y) (hz : lo.z ≤ hi.z) :
    (triples (rectCons3 lo hi)).filterMap (fun (a, b, c, r) => vertex3 sq tol eps a b c r) =
      [mk3 hi.x hi.y hi.z, mk3 hi.x hi.y lo.z, mk3 hi.x lo.y hi.z, mk3 hi.x lo.y lo.z,
       mk3 lo.x hi.y hi.z, mk3 lo.x hi.y lo.z, mk3 lo.x lo.y hi.z, mk3 lo.x lo.y lo.z] := by
  obtain ⟨n1, n2, n3, n4, n5, n6⟩ := pnorm_axis sq hsq
  have a1 : lo.x ≤ eps + hi.x := by linarith
  have a2 : lo.x ≤ hi.x + eps := by linarith
  have a3 : lo.y ≤ eps + hi.y := by linarith
  have a4 : lo.y ≤ hi.y + eps := by linarith
  have a5 : lo.z ≤ eps + hi.z := by linarith
  have a6 : lo.z ≤ hi.z + eps := by linarith
  rw [rectCons3, triples6]
  simp only [List.filterMap_cons, List.filterMap_nil, vertex3, vertexOk, det3, mulColInv3, mk3_x, mk3_y, mk3_z,
    n1, n2, n3, n4, n5, n6, sabs_eq, List.all_cons, List.all_nil, pdot_xyz]
  simp [h0, not_lt.mpr h1, a1, a2, a3, a4, a5, a6]

theorem verts2_rect_aux (sq : K → K) (hsq : SqrtOK sq) (tol eps : K) (h0 : 0 < tol) (h1 : tol ≤ 1) (he : 0 ≤ eps)
    (lo hi : Pt K) (hx : lo.x ≤ hi.x) (hy : lo.y ≤ hi.y) :
    (pairs (rectCons2 lo hi)).filterMap (fun (a, b, r) => vertex2 sq tol eps a b r) =
      [mk3 hi.x hi.y 0, mk3 hi.x lo.y 0, mk3 lo.x hi.y 0, mk3 lo.x lo.y 0] := by
  obtain ⟨n1, n2, n3, n4, n5, n6⟩ := pnorm_axis sq hsq
  have a1 : lo.x ≤ eps + hi.x := by linarith
  have a2 : lo.x ≤ hi.x + eps := by linarith
  have a3 : lo.y ≤ eps + hi.y := by linarith
  have a4 : lo.y ≤ hi.y + eps := by linarith
  rw [rectCons2, pairs4]
  simp only [List.filterMap_cons, List.filterMap_nil, vertex2, vertexOk, det2, mulColInv2, mk3_x, mk3_y, mk3_z,
    n1, n2, n3, n4, sabs_eq, List.all_cons, List.all_nil, pdot_xyz]
  simp [h0, not_lt.mpr h1, a1, a2, a3, a4]

/-- **The vertices `Mesh()` enumerates for `NewConvexPolytopeRect(min, max)`** (`min ≤ max`, conditioning literal
`0 < tol ≤ 1`; the source has `1e-8`): exactly the eight corners, in the order of the sorted index triples. -/
theorem meshVerts3_rect (sq : K → K) (hsq : SqrtOK sq) (tol : K) (h0 : 0 < tol) (h1 : tol ≤ 1)
    (lo hi : Pt K) (hx : lo.x ≤ hi.x) (hy : lo.y ≤ hi.y) (hz : lo.z ≤ hi.z) :
    meshVerts3 sq tol (rectCons3 lo hi) =
      [mk3 hi.x hi.y hi.z, mk3 hi.x hi.y lo.z, mk3 hi.x lo.y hi.z, mk3 hi.x lo.y lo.z,
       mk3 lo.x hi.y hi.z, mk3 lo.x hi.y lo.z, mk3 lo.x lo.y hi.z, mk3 lo.x lo.y lo.z] :=
  verts3_rect_aux sq hsq tol _ h0 h1 (spatialEps_nonneg sq tol (le_of_lt h0) _) lo hi hx hy hz

theorem meshVerts2_rect (sq : K → K) (hsq : SqrtOK sq) (tol : K) (h0 : 0 < tol) (h1 : tol ≤ 1)
    (lo hi : Pt K) (hx : lo.x ≤ hi.x) (hy : lo.y ≤ hi.y) :
    meshVerts2 sq tol (rectCons2 lo hi) = [mk3 hi.x hi.y 0, mk3 hi.x lo.y 0, mk3 lo.x hi.y 0, mk3 lo.x lo.y 0] :=
  verts2_rect_aux sq hsq tol _ h0 h1 (spatialEps_nonneg sq tol (le_of_lt h0) _) lo hi hx hy

/-- `Mesh().Min()/Max()` of `NewConvexPolytopeRect(min, max)` is `[min, max]` (for the model of `Mesh()`'s
vertex enumeration). -/
theorem vertsBox_rect3 (sq : K → K) (hsq : SqrtOK sq) (tol : K) (h0 : 0 < tol) (h1 : tol ≤ 1)
    (lo hi : Pt K) (hx : lo.x ≤ hi.x) (hy : lo.y ≤ hi.y) (hz : lo.z ≤ hi.z) :
    vertsBox (meshVerts3 sq tol (rectCons3 lo hi)) = ⟨lo, hi⟩ := by
  rw [meshVerts3_rect sq hsq tol h0 h1 lo hi hx hy hz]
  cases lo; cases hi
  simp only [vertsBox, hullOf, List.foldl_cons, List.foldl_nil, pmin, pmax, get0, get1, get2, smin_eq, smax_eq] at *
  simp [mk3, hx, hy, hz]

theorem vertsBox_rect2 (sq : K → K) (hsq : SqrtOK sq) (tol : K) (h0 : 0 < tol) (h1 : tol ≤ 1)
    (lo hi : Pt K) (hx : lo.x ≤ hi.x) (hy : lo.y ≤ hi.y) :
    vertsBox (meshVerts2 sq tol (rectCons2 lo hi)) = ⟨mk3 lo.x lo.y 0, mk3 hi.x hi.y 0⟩ := by
  rw [meshVerts2_rect sq hsq tol h0 h1 lo hi hx hy]
  cases lo; cases hi
  simp only [vertsBox, hullOf, List.foldl_cons, List.foldl_nil, pmin, pmax, get0, get1, get2, smin_eq, smax_eq] at *
  simp [mk3, hx, hy]

/-! ## `NewConvexPolytopeRect(min, max).Solid()` is the rect: nothing leaks, nothing is cut -/

theorem inB_false_of_not_le (d3 : Bool) (lo hi p : Pt K) (i : Fin 3) (ha : Active d3 i) (h : ¬ lo i ≤ hi i) :
    inB d3 ⟨lo, hi⟩ p = false := by
  rw [Bool.eq_false_iff]
  intro hp
  have := (inB_iff d3 ⟨lo, hi⟩ p).mp hp i ha
  exact h (le_trans this.1 this.2)

/-- `NewConvexPolytopeRect(min, max).Solid().Contains` is the box test of `[min, max]`, for *every* `min, max`
(an inverted rect is empty either way). -/
theorem rectPolyS3_contains (sq : K → K) (hsq : SqrtOK sq) (tol : K) (h0 : 0 < tol) (h1 : tol ≤ 1) (lo hi p : Pt K) :
    (rectPolyS3 sq tol lo hi).f p = inB true ⟨lo, hi⟩ p := by
  simp only [rectPolyS3, polytopeS, polyContains_rect3]
  by_cases hx : lo.x ≤ hi.x
  · by_cases hy : lo.y ≤ hi.y
    · by_cases hz : lo.z ≤ hi.z
      · rw [vertsBox_rect3 sq hsq tol h0 h1 lo hi hx hy hz, Bool.and_self]
      · rw [inB_false_of_not_le true lo hi p 2 (active_true _) hz, Bool.and_false]
    · rw [inB_false_of_not_le true lo hi p 1 (active_true _) hy, Bool.and_false]
  · rw [inB_false_of_not_le true lo hi p 0 (active_true _) hx, Bool.and_false]

theorem rectPolyS2_contains (sq : K → K) (hsq : SqrtOK sq) (tol : K) (h0 : 0 < tol) (h1 : tol ≤ 1) (lo hi p : Pt K) :
    (rectPolyS2 sq tol lo hi).f p = inB false ⟨lo, hi⟩ p := by
  simp only [rectPolyS2, polytopeS, polyContains_rect2]
  by_cases hx : lo.x ≤ hi.x
  · by_cases hy : lo.y ≤ hi.y
    · rw [vertsBox_rect2 sq hsq tol h0 h1 lo hi hx hy]
      have : inB false ⟨mk3 lo.x lo.y 0, mk3 hi.x hi.y 0⟩ p = inB false ⟨lo, hi⟩ p := by
        rfl
      rw [this, Bool.and_self]
    · rw [inB_false_of_not_le false lo hi p 1 (active1 _) hy, Bool.and_false]
  · rw [inB_false_of_not_le false lo hi p 0 (active0 _) hx, Bool.and_false]

end M3d.Bd
