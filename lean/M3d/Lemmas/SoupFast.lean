import M3d.Model.SoupFast
import M3d.Lemmas.Surface
import Mathlib.Data.List.Sort
import Mathlib.Data.List.Perm.Basic
import Mathlib.Tactic.Linarith
/-!
# The sort-based deciders decide the same predicates as the quadratic ones (property C01)

`edgeBalancedFast N ts = true ↔ Surface.EdgeBalanced ts` for soups with ids below `N`, and
`inOutOneFast ss = true ↔ Surface.InOutOne ss`: running them on the id soup of a real output mesh is a
proved judgement about that output.
-/
namespace M3d.SoupFast
open M3d.Surface

theorem strictInc_head {a : Nat} {l : List Nat} (h : strictInc (a :: l) = true) : ∀ x ∈ l, a < x := by
  induction l generalizing a with
  | nil => intro x hx; cases hx
  | cons b r ih =>
    simp only [strictInc, Bool.and_eq_true, decide_eq_true_eq] at h
    intro x hx
    rcases List.mem_cons.1 hx with rfl | hx
    · exact h.1
    · exact lt_trans h.1 (ih h.2 x hx)

theorem strictInc_tail {a : Nat} {l : List Nat} (h : strictInc (a :: l) = true) : strictInc l = true := by
  cases l with
  | nil => rfl
  | cons b r =>
    simp only [strictInc, Bool.and_eq_true] at h
    exact h.2

theorem strictInc_pairwise {l : List Nat} (h : strictInc l = true) : l.Pairwise (· < ·) := by
  induction l with
  | nil => exact List.Pairwise.nil
  | cons a r ih => exact List.Pairwise.cons (strictInc_head h) (ih (strictInc_tail h))

theorem pairwise_strictInc {l : List Nat} (h : l.Pairwise (· < ·)) : strictInc l = true := by
  induction l with
  | nil => rfl
  | cons a r ih =>
    cases r with
    | nil => rfl
    | cons b r' =>
      have h1 := List.pairwise_cons.1 h
      simp only [strictInc, Bool.and_eq_true, decide_eq_true_eq]
      exact ⟨h1.1 b (List.mem_cons_self), ih h1.2⟩

theorem strictInc_nodup {l : List Nat} (h : strictInc l = true) : l.Nodup :=
  (strictInc_pairwise h).imp (fun hab => Nat.ne_of_lt hab)

theorem sortNat_perm (l : List Nat) : (sortNat l).Perm l := List.mergeSort_perm l _

theorem sortNat_sorted (l : List Nat) : (sortNat l).Pairwise (· ≤ ·) := by
  have h := List.pairwise_mergeSort (le := fun a b : Nat => decide (a ≤ b))
    (fun a b c h1 h2 => by simp only [decide_eq_true_eq] at *; omega)
    (fun a b => by simp only [Bool.or_eq_true, decide_eq_true_eq]; omega) l
  exact h.imp (fun hab => by simpa using hab)

/-- a sorted list without repetition is strictly increasing -/
theorem sortNat_strict {l : List Nat} (h : l.Nodup) : strictInc (sortNat l) = true := by
  apply pairwise_strictInc
  have hs := sortNat_sorted l
  have hn : (sortNat l).Nodup := (sortNat_perm l).nodup_iff.2 h
  exact (hs.and hn).imp (fun hab => lt_of_le_of_ne hab.1 hab.2)

theorem sortNat_eq_of_perm {l l' : List Nat} (h : l.Perm l') : sortNat l = sortNat l' := by
  apply List.Perm.eq_of_pairwise (le := (· ≤ ·)) (fun a b _ _ h1 h2 => Nat.le_antisymm h1 h2)
    (sortNat_sorted l) (sortNat_sorted l')
  exact (sortNat_perm l).trans (h.trans (sortNat_perm l').symm)

theorem encE_inj {N : Nat} {e e' : Edge} (h : e.2 < N) (h' : e'.2 < N) (he : encE N e = encE N e') : e = e' := by
  obtain ⟨a, b⟩ := e
  obtain ⟨a', b'⟩ := e'
  simp only [encE] at he
  simp only at h h'
  have hN : 0 < N := by omega
  have h1 : (a * N + b) / N = a := by
    rw [Nat.mul_comm, Nat.mul_add_div hN, Nat.div_eq_of_lt h]; rfl
  have h2 : (a' * N + b') / N = a' := by
    rw [Nat.mul_comm, Nat.mul_add_div hN, Nat.div_eq_of_lt h']; rfl
  have ha : a = a' := by rw [← h1, ← h2, he]
  subst ha
  have hb : b = b' := by omega
  subst hb
  rfl

theorem edge_ids_below {N : Nat} {ts : List Tri} (hN : idsBelow N ts = true) {e : Edge}
    (he : e ∈ dirEdges ts) : e.1 < N ∧ e.2 < N := by
  unfold dirEdges at he
  obtain ⟨t, ht, het⟩ := List.mem_flatMap.1 he
  have hb := List.all_eq_true.1 hN t ht
  simp only [Bool.and_eq_true, decide_eq_true_eq] at hb
  simp only [triEdges, List.mem_cons, List.not_mem_nil, or_false] at het
  rcases het with rfl | rfl | rfl
  · exact ⟨hb.1.1, hb.1.2⟩
  · exact ⟨hb.1.2, hb.2⟩
  · exact ⟨hb.2, hb.1.1⟩

/-- **Soundness**: the sort-based decider accepts only edge-balanced soups. -/
theorem edgeBalancedFast_sound {N : Nat} {ts : List Tri} (hN : idsBelow N ts = true)
    (h : edgeBalancedFast N ts = true) : EdgeBalanced ts := by
  simp only [edgeBalancedFast, Bool.and_eq_true, beq_iff_eq] at h
  obtain ⟨hs, hr⟩ := h
  have hnd : ((dirEdges ts).map (encE N)).Nodup := (sortNat_perm _).nodup_iff.1 (strictInc_nodup hs)
  have hes : (dirEdges ts).Nodup := List.Nodup.of_map _ hnd
  have hperm : ((dirEdges ts).map (encE N)).Perm ((dirEdges ts).map fun e => encE N (swap e)) :=
    (sortNat_perm _).symm.trans (hr ▸ sortNat_perm _)
  intro e he
  refine ⟨List.count_eq_one_of_mem hes he, ?_⟩
  have hm : encE N e ∈ (dirEdges ts).map fun e => encE N (swap e) :=
    hperm.subset (List.mem_map_of_mem he)
  obtain ⟨e', he', heq⟩ := List.mem_map.1 hm
  have hb := edge_ids_below hN he
  have hb' := edge_ids_below hN he'
  have : swap e' = e := encE_inj (by simpa [swap] using hb'.1) hb.2 heq
  have hsw : swap e = e' := by rw [← this]; rfl
  exact List.count_eq_one_of_mem hes (hsw ▸ he')

/-- **Completeness**: it accepts every edge-balanced soup (no false alarm from the decider). -/
theorem edgeBalancedFast_complete {N : Nat} {ts : List Tri} (hN : idsBelow N ts = true)
    (h : EdgeBalanced ts) : edgeBalancedFast N ts = true := by
  have hes : (dirEdges ts).Nodup := by
    rw [List.nodup_iff_count_le_one]
    intro a
    by_cases ha : a ∈ dirEdges ts
    · exact le_of_eq (h a ha).1
    · rw [List.count_eq_zero_of_not_mem ha]; omega
  have hinj : ∀ e ∈ dirEdges ts, ∀ e' ∈ dirEdges ts, encE N e = encE N e' → e = e' :=
    fun e he e' he' heq => encE_inj (edge_ids_below hN he).2 (edge_ids_below hN he').2 heq
  have hnd : ((dirEdges ts).map (encE N)).Nodup := (List.nodup_map_iff_inj_on hes).2 hinj
  have hsw : ((dirEdges ts).map swap).Nodup :=
    (List.nodup_map_iff_inj_on hes).2 (fun e _ e' _ heq => by
      have := congrArg swap heq
      simpa [swap] using this)
  have hperm : (dirEdges ts).Perm ((dirEdges ts).map swap) := by
    rw [List.perm_ext_iff_of_nodup hes hsw]
    intro a
    constructor
    · intro ha
      have h1 : (dirEdges ts).count (swap a) = 1 := (h a ha).2
      have : swap a ∈ dirEdges ts := List.count_pos_iff.1 (by omega)
      exact List.mem_map.2 ⟨swap a, this, rfl⟩
    · intro ha
      obtain ⟨b, hb, rfl⟩ := List.mem_map.1 ha
      have h1 : (dirEdges ts).count (swap b) = 1 := (h b hb).2
      exact List.count_pos_iff.1 (by omega)
  simp only [edgeBalancedFast, Bool.and_eq_true, beq_iff_eq]
  refine ⟨sortNat_strict hnd, sortNat_eq_of_perm ?_⟩
  have := hperm.map (encE N)
  simpa [List.map_map, Function.comp_def] using this

theorem edgeBalancedFast_iff {N : Nat} {ts : List Tri} (hN : idsBelow N ts = true) :
    edgeBalancedFast N ts = true ↔ EdgeBalanced ts :=
  ⟨edgeBalancedFast_sound hN, edgeBalancedFast_complete hN⟩

/-- 2-D: the sort-based decider decides `InOutOne`. -/
theorem inOutOneFast_iff (ss : List Seg) : inOutOneFast ss = true ↔ InOutOne ss := by
  simp only [inOutOneFast, Bool.and_eq_true, beq_iff_eq]
  constructor
  · rintro ⟨hs, he⟩
    have hns : (starts ss).Nodup := (sortNat_perm _).nodup_iff.1 (strictInc_nodup hs)
    have hperm : (starts ss).Perm (ends ss) := (sortNat_perm _).symm.trans (he ▸ sortNat_perm _)
    have hne : (ends ss).Nodup := hperm.nodup_iff.1 hns
    intro v hv
    have hv' : v ∈ starts ss ∨ v ∈ ends ss := by
      unfold segVertsAll at hv
      obtain ⟨s, hs', hvs⟩ := List.mem_flatMap.1 hv
      simp only [List.mem_cons, List.not_mem_nil, or_false] at hvs
      rcases hvs with rfl | rfl
      · exact Or.inl (List.mem_map_of_mem (f := (·.1)) hs')
      · exact Or.inr (List.mem_map_of_mem (f := (·.2)) hs')
    have hboth : v ∈ starts ss ∧ v ∈ ends ss := by
      rcases hv' with h1 | h1
      · exact ⟨h1, hperm.subset h1⟩
      · exact ⟨hperm.symm.subset h1, h1⟩
    exact ⟨List.count_eq_one_of_mem hns hboth.1, List.count_eq_one_of_mem hne hboth.2⟩
  · intro h
    have mem_all_s : ∀ v ∈ starts ss, v ∈ segVertsAll ss := by
      intro v hv
      obtain ⟨s, hs, rfl⟩ := List.mem_map.1 hv
      exact List.mem_flatMap.2 ⟨s, hs, by simp⟩
    have mem_all_e : ∀ v ∈ ends ss, v ∈ segVertsAll ss := by
      intro v hv
      obtain ⟨s, hs, rfl⟩ := List.mem_map.1 hv
      exact List.mem_flatMap.2 ⟨s, hs, by simp⟩
    have hns : (starts ss).Nodup := by
      rw [List.nodup_iff_count_le_one]
      intro a
      by_cases ha : a ∈ starts ss
      · exact le_of_eq (h a (mem_all_s a ha)).1
      · rw [List.count_eq_zero_of_not_mem ha]; omega
    have hne : (ends ss).Nodup := by
      rw [List.nodup_iff_count_le_one]
      intro a
      by_cases ha : a ∈ ends ss
      · exact le_of_eq (h a (mem_all_e a ha)).2
      · rw [List.count_eq_zero_of_not_mem ha]; omega
    have hperm : (starts ss).Perm (ends ss) := by
      rw [List.perm_ext_iff_of_nodup hns hne]
      intro a
      constructor
      · intro ha
        have := (h a (mem_all_s a ha)).2
        exact List.count_pos_iff.1 (by omega)
      · intro ha
        have := (h a (mem_all_e a ha)).1
        exact List.count_pos_iff.1 (by omega)
    exact ⟨sortNat_strict hns, sortNat_eq_of_perm hperm⟩

end M3d.SoupFast

/-! ### the bucketed fan decider -/

namespace M3d.SoupFast
open M3d.Surface

/-- one step of `linkBuckets` -/
def bucketStep (acc : Array (List Edge)) (t : Tri) : Array (List Edge) :=
  ((acc.modify t.1 ((t.2.1, t.2.2) :: ·)).modify t.2.1 ((t.2.2, t.1) :: ·)).modify t.2.2 ((t.1, t.2.1) :: ·)

/-- what a triangle puts into the bucket of `v` (in the order `bucketStep` conses it) -/
def contrib (v : Nat) (t : Tri) : List Edge :=
  (if t.2.2 = v then [(t.1, t.2.1)] else []) ++ ((if t.2.1 = v then [(t.2.2, t.1)] else []) ++
    (if t.1 = v then [(t.2.1, t.2.2)] else []))

theorem linkBuckets_eq (N : Nat) (ts : List Tri) :
    linkBuckets N ts = ts.foldl bucketStep (Array.replicate N []) := rfl

theorem bucketStep_size (acc : Array (List Edge)) (t : Tri) : (bucketStep acc t).size = acc.size := by
  simp [bucketStep, Array.size_modify]

theorem bucketStep_get (acc : Array (List Edge)) (t : Tri) (v : Nat) (hv : v < acc.size) :
    ((bucketStep acc t)[v]?).getD [] = contrib v t ++ (acc[v]?).getD [] := by
  have hs : acc[v]? = some acc[v] := Array.getElem?_eq_getElem hv
  simp only [bucketStep, Array.getElem?_modify, contrib, hs]
  by_cases h1 : t.1 = v <;> by_cases h2 : t.2.1 = v <;> by_cases h3 : t.2.2 = v <;> simp [h1, h2, h3]

theorem fold_size (ts : List Tri) (acc : Array (List Edge)) : (ts.foldl bucketStep acc).size = acc.size := by
  induction ts generalizing acc with
  | nil => rfl
  | cons t r ih => rw [List.foldl_cons, ih, bucketStep_size]

theorem fold_get (ts : List Tri) (acc : Array (List Edge)) (v : Nat) (hv : v < acc.size) :
    (((ts.foldl bucketStep acc)[v]?).getD []).Perm (ts.flatMap (contrib v) ++ (acc[v]?).getD []) := by
  induction ts generalizing acc with
  | nil => simp
  | cons t r ih =>
    rw [List.foldl_cons]
    have h := ih (bucketStep acc t) (by rw [bucketStep_size]; exact hv)
    rw [bucketStep_get acc t v hv] at h
    refine h.trans ?_
    rw [List.flatMap_cons, List.append_assoc]
    exact List.perm_append_comm_assoc _ _ _

theorem contrib_eq_rot {v : Nat} {t : Tri} (h : triNondeg t = true) : contrib v t = (rot v t).toList := by
  simp only [triNondeg, Bool.and_eq_true, bne_iff_ne, ne_eq] at h
  obtain ⟨⟨h1, h2⟩, h3⟩ := h
  unfold contrib rot
  by_cases e1 : t.1 = v
  · have e2 : ¬ t.2.1 = v := fun e => h1 (e1.trans e.symm)
    have e3 : ¬ t.2.2 = v := fun e => h3 (e.trans e1.symm)
    simp [e1, e2, e3]
  · by_cases e2 : t.2.1 = v
    · have e3 : ¬ t.2.2 = v := fun e => h2 (e2.trans e.symm)
      simp [e1, e2, e3]
    · by_cases e3 : t.2.2 = v <;> simp [e1, e2, e3]

/-- the bucket of `v` is a rearrangement of the link of `v` -/
theorem bucket_perm_link {N : Nat} {ts : List Tri} (hd : noDegenerate ts = true) (v : Nat) (hv : v < N) :
    (((linkBuckets N ts)[v]?).getD []).Perm (link v ts) := by
  rw [linkBuckets_eq]
  have h := fold_get ts (Array.replicate N []) v (by rw [Array.size_replicate]; exact hv)
  have e : ((Array.replicate N ([] : List Edge))[v]?).getD [] = [] := by
    rw [Array.getElem?_replicate, if_pos hv]; rfl
  rw [e, List.append_nil] at h
  refine h.trans ?_
  unfold link
  rw [List.filterMap_eq_flatMap_toList]
  have : ts.flatMap (contrib v) = ts.flatMap (fun a => (rot v a).toList) := by
    apply List.flatMap_congr
    intro t ht
    exact contrib_eq_rot (List.all_eq_true.1 hd t ht)
  rw [this]

theorem fanCycle_perm {es es' : List Edge} (h : es.Perm es') : FanCycle es → FanCycle es' :=
  fun ⟨l, hl, hp⟩ => ⟨l, hl, h.symm.trans hp⟩

theorem vert_below {N : Nat} {ts : List Tri} (hN : idsBelow N ts = true) {v : Nat} (hv : v ∈ verts ts) : v < N := by
  have hv' : v ∈ vertsAll ts := by
    unfold verts at hv
    exact List.mem_eraseDups.1 hv
  unfold vertsAll at hv'
  obtain ⟨t, ht, hvt⟩ := List.mem_flatMap.1 hv'
  have hb := List.all_eq_true.1 hN t ht
  simp only [Bool.and_eq_true, decide_eq_true_eq] at hb
  simp only [triVerts, List.mem_cons, List.not_mem_nil, or_false] at hvt
  rcases hvt with rfl | rfl | rfl
  · exact hb.1.1
  · exact hb.1.2
  · exact hb.2

theorem link_nil_of_not_vert {ts : List Tri} {v : Nat} (hv : v ∉ verts ts) : link v ts = [] := by
  unfold link
  rw [List.filterMap_eq_nil_iff]
  intro t ht
  have hnot : v ∉ triVerts t := by
    intro hm
    apply hv
    unfold verts
    exact List.mem_eraseDups.2 (List.mem_flatMap.2 ⟨t, ht, hm⟩)
  simp only [triVerts, List.mem_cons, List.not_mem_nil, or_false, not_or] at hnot
  unfold rot
  simp [Ne.symm hnot.1, Ne.symm hnot.2.1, Ne.symm hnot.2.2]

/-- **The bucketed fan decider decides `FanConnected`** on non-degenerate soups with ids below `N`. -/
theorem fanConnectedFast_iff {N : Nat} {ts : List Tri} (hN : idsBelow N ts = true)
    (hd : noDegenerate ts = true) : fanConnectedFast N ts = true ↔ FanConnected ts := by
  have hsize : (linkBuckets N ts).size = N := by
    rw [linkBuckets_eq, fold_size]; simp
  unfold fanConnectedFast
  rw [Array.all_eq_true]
  constructor
  · intro h v hv
    have hvN := vert_below hN hv
    have hvs : v < (linkBuckets N ts).size := by rw [hsize]; exact hvN
    have hb := h v hvs
    have hp := bucket_perm_link hd v hvN
    rw [Array.getElem?_eq_getElem hvs] at hp
    exact fanCycle_perm hp ((fanCycle_iff _).1 hb)
  · intro h i hi
    have hiN : i < N := by rw [← hsize]; exact hi
    have hp := bucket_perm_link hd i hiN
    rw [Array.getElem?_eq_getElem hi] at hp
    by_cases hv : i ∈ verts ts
    · exact (fanCycle_iff _).2 (fanCycle_perm hp.symm (h i hv))
    · rw [link_nil_of_not_vert hv] at hp
      have : (linkBuckets N ts)[i] = [] := List.Perm.eq_nil hp
      rw [this]
      rfl

/-- **`closedManifoldFast` decides `ClosedManifold`** (edge balance + one cycle per vertex fan + no
degenerate triangle) for every soup with ids below `N`. -/
theorem closedManifoldFast_iff {N : Nat} {ts : List Tri} (hN : idsBelow N ts = true) :
    closedManifoldFast N ts = true ↔ ClosedManifold ts := by
  unfold closedManifoldFast ClosedManifold
  simp only [Bool.and_eq_true, hN, true_and]
  constructor
  · rintro ⟨⟨h1, h2⟩, h3⟩
    exact ⟨edgeBalancedFast_sound hN h1, (fanConnectedFast_iff hN h3).1 h2, (noDegenerate_iff ts).1 h3⟩
  · rintro ⟨h1, h2, h3⟩
    have h3' := (noDegenerate_iff ts).2 h3
    exact ⟨⟨edgeBalancedFast_complete hN h1, (fanConnectedFast_iff hN h3').2 h2⟩, h3'⟩

end M3d.SoupFast
