import M3d.Lemmas.TriCert
/-!
Helper lemmas for C14, part 4: `ProfileMesh` — the signed volume of the extruded soup.
-/
namespace M3d.Tri
open M3d.Surface (Tri Edge swap triEdges dirEdges)

section Field
variable {K : Type} [Field K] [LinearOrder K] [IsStrictOrderedRing K]

theorem lift_bot (c : Nat → P2 K) (z0 z1 : K) (v : Nat) : lift c z0 z1 (bot v) = ⟨(c v).x, (c v).y, z0⟩ := by
  have h1 : 2 * v / 2 = v := by omega
  have h2 : 2 * v % 2 = 0 := by omega
  simp [lift, bot, h1, h2]

theorem lift_top (c : Nat → P2 K) (z0 z1 : K) (v : Nat) : lift c z0 z1 (top v) = ⟨(c v).x, (c v).y, z1⟩ := by
  have h1 : (2 * v + 1) / 2 = v := by omega
  have h2 : (2 * v + 1) % 2 = 1 := by omega
  simp [lift, top, h1, h2]

theorem vol6_nil (c3 : Nat → P3 K) : vol6 c3 [] = 0 := rfl
theorem vol6_cons (c3 : Nat → P3 K) (t : Tri) (ts : List Tri) :
    vol6 c3 (t :: ts) = det3 (c3 t.1) (c3 t.2.1) (c3 t.2.2) + vol6 c3 ts := rfl

theorem vol6_append (c3 : Nat → P3 K) (ts us : List Tri) : vol6 c3 (ts ++ us) = vol6 c3 ts + vol6 c3 us := by
  induction ts with
  | nil => simp [vol6_nil]
  | cons t ts ih => simp only [List.cons_append, vol6_cons, ih]; ring

/-- The two caps over a 2-D triangle contribute `(z0 − z1)·orient`. -/
theorem vol6_caps (c : Nat → P2 K) (z0 z1 : K) (ts : List Tri) :
    vol6 (lift c z0 z1) (ts.flatMap fun t => [(bot t.1, bot t.2.1, bot t.2.2), (top t.2.1, top t.1, top t.2.2)])
      = (z0 - z1) * sumF (triOrient c) ts := by
  induction ts with
  | nil => simp [vol6_nil, sumF_nil]
  | cons t ts ih =>
    simp only [List.flatMap_cons, vol6_append, vol6_cons, vol6_nil, sumF_cons, ih, lift_bot, lift_top,
      det3, triOrient, orient]
    ring

/-- The side quad over a cap edge contributes `2·(z0 − z1)·(shoelace term of the edge)`. -/
theorem vol6_sides (c : Nat → P2 K) (z0 z1 : K) (es : List Edge) :
    vol6 (lift c z0 z1) (es.flatMap sideTris) = 2 * (z0 - z1) * sumF (crossE c) es := by
  induction es with
  | nil => simp [vol6_nil, sumF_nil]
  | cons e es ih =>
    simp only [List.flatMap_cons, vol6_append, sideTris, vol6_cons, vol6_nil, sumF_cons, ih, lift_bot, lift_top,
      det3, crossE, cross]
    ring

/-- Algebraic core: if the side edges carry the same shoelace total as the caps (discrete Stokes),
six times the signed volume of the extrusion is `3·(z0 − z1)·Σ orient`. -/
theorem vol6_profileSoupOn (c : Nat → P2 K) (z0 z1 : K) (ts : List Tri) (sides : List Edge)
    (h : sumF (crossE c) sides = sumF (triOrient c) ts) :
    vol6 (lift c z0 z1) (profileSoupOn ts sides) = 3 * (z0 - z1) * sumF (triOrient c) ts := by
  unfold profileSoupOn
  rw [vol6_append, vol6_caps, vol6_sides, h]; ring

/-! ### the unshared cap edges are exactly the boundary -/

theorem count_eq_one_of_nodup {e : Edge} {E : List Edge} (hE : E.Nodup) (he : e ∈ E) : E.count e = 1 :=
  List.count_eq_one_of_mem hE he

theorem unshared_perm_boundary {B : List Edge} {ts : List Tri} (h : Glued B (dirEdges ts)) :
    (unsharedEdges ts).Perm B := by
  obtain ⟨hE, hB, hBE, hEB⟩ := h
  have hnd : (unsharedEdges ts).Nodup := by
    unfold unsharedEdges; exact hE.filter _
  rw [List.perm_ext_iff_of_nodup hnd hB]
  intro e
  simp only [unsharedEdges, List.mem_filter, beq_iff_eq]
  constructor
  · rintro ⟨he, hc⟩
    rcases hEB e he with hb | hs
    · exact hb
    · have h1 := count_eq_one_of_nodup hE he
      have h2 := count_eq_one_of_nodup hE hs
      omega
  · intro hb
    obtain ⟨he, hs⟩ := hBE e hb
    refine ⟨he, ?_⟩
    rw [count_eq_one_of_nodup hE he, List.count_eq_zero_of_not_mem hs]

theorem profileSoup_eq_on (ts : List Tri) : profileSoup ts = profileSoupOn ts (unsharedEdges ts) := rfl

end Field
end M3d.Tri
