import M3d.Gen.Kernels
import M3d.Model.MeshDiagSweep
import Mathlib.Tactic.Ring
import Mathlib.Algebra.Order.Field.Basic
/-!
# Tie between the REGENERATED `Coord3D.Dot` / `Coord.Dot` and the sweep key of C11

`uncheckedMeshToHierarchy` visits the vertices by increasing `c.Dot(arbitraryAxis)`
(`newSortedCoords`); the bounding-box theorems of `M3d.C11` (`bbox_far_corner_prefilter_sound`,
`bbox_max_corner_is_not_the_far_corner`, …) are about `M3d.MeshDiag.vdot`.  `M3d/Gen/Kernels.lean`
is regenerated from the current `model3d/coords.go` and `model2d/coords.go`; the theorems below say
that `vdot` IS the `Dot` of the source as it is now (3-D, and 2-D for vectors without a third
component).  An edit of `Dot` changes the generated text; then either the equation is still
provable or this file stops compiling and the check reports the broken obligation.
-/
namespace M3d.KernelsTie.Hier
open M3d.MeshDiag M3d.Gen.Kernels M3d.GenPrelude
set_option linter.unusedSectionVars false
set_option linter.unusedVariables false

variable {K : Type} [Field K] [LinearOrder K] [IsStrictOrderedRing K]

/-- hand vector → generated `Coord3D` -/
def toC3 (a : Vec3 K) : model3d.Coord3D K := ⟨a.x, a.y, a.z⟩

/-- hand vector (third component unused) → generated 2-D `Coord` -/
def toC2 (a : Vec3 K) : model2d.Coord K := ⟨a.x, a.y⟩

/-- The sweep key `c.Dot(arbitraryAxis)` of `model3d`. -/
theorem vdot_eq_Coord3D_Dot (a b : Vec3 K) : vdot a b = model3d.Coord3D_Dot (toC3 a) (toC3 b) := by
  simp only [vdot, model3d.Coord3D_Dot, toC3]
  try ring

/-- The sweep key of `model2d` (the axis `axis2Q` has third component 0). -/
theorem vdot_eq_Coord_Dot (a b : Vec3 K) (hb : b.z = 0) :
    vdot a b = model2d.Coord_Dot (toC2 a) (toC2 b) := by
  simp only [vdot, model2d.Coord_Dot, toC2, hb]
  ring

/-- The shortcut test `corner.Dot(axis) < minVertex.Dot(axis)` of `cornerKeep`, written with the
generated `Dot`. -/
theorem cornerKeep_eq_generated (axis : Vec3 K) (corner : Comp → Vec3 K) (pos : Nat → Vec3 K)
    (y x : Comp) :
    cornerKeep axis corner pos y x =
      !decide (model3d.Coord3D_Dot (toC3 (corner y)) (toC3 axis) < model3d.Coord3D_Dot (toC3 (pos x.1)) (toC3 axis)) := by
  simp only [cornerKeep, vdot_eq_Coord3D_Dot]

end M3d.KernelsTie.Hier
