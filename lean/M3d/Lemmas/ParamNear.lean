import M3d.Model.Param
import M3d.Lemmas.Prune
import Mathlib.Tactic.Ring
import Mathlib.Tactic.Linarith
import Mathlib.Tactic.FieldSimp
import Mathlib.Tactic.Positivity
import Mathlib.Algebra.Order.Field.Basic
/-!
# `MapFn` outside the triangulation: the pruned nearest-triangle search is the linear scan

* generic part (any items, bounds, linearly ordered keys): `nearestGo` — the faithful model of
  `tri2dLookup.findNearest`, closer child first, `break` at the first child that cannot win — is the
  pruned fold `Prune.Forest.search` over the query-ordered forest `NTree.kids`, hence (for every sound
  lower bound, `Prune.Forest.search_eq_foldl`) the linear scan over a permutation of the items, hence
  returns an item of smallest key;
* numeric part (every linear ordered field): the closest point of a segment / of the boundary of a
  triangle as `Triangle.genericSDF` computes it really is closest; the value `rectLB` derived from
  `Rect.SDF` is a lower bound of the squared distance to every point of the rectangle; the hierarchy
  built by `newTri2dLookup` (`buildTree`) is sound for it.
-/
namespace M3d.Param
open M3d.Prune
set_option linter.unusedSectionVars false
set_option linter.unusedVariables false

section Search
variable {ι β K : Type} [LinearOrder K]

/-- The children of a node as `findNearest` visits them for this query: the child with the smaller
bound value first (the second child first iff its value is strictly smaller). -/
def NTree.kids (lb : β → K) : NTree ι β → Forest ι K
  | .leaf _ i => .leaf i .nil
  | .node _ l r =>
    if lb r.bound < lb l.bound then .node (lb r.bound) (kids lb r) (.node (lb l.bound) (kids lb l) .nil)
    else .node (lb l.bound) (kids lb l) (.node (lb r.bound) (kids lb r) .nil)

/-- Every node's bound covers every item below it (leaves included: a leaf's bound is checked by
its parent). -/
def NTree.Sound (cov : β → ι → Prop) : NTree ι β → Prop
  | .leaf b i => cov b i
  | .node b l r => (∀ i ∈ l.items ++ r.items, cov b i) ∧ l.Sound cov ∧ r.Sound cov

theorem NTree.Sound.mono {cov cov' : β → ι → Prop} (h : ∀ b i, cov b i → cov' b i) :
    ∀ t : NTree ι β, t.Sound cov → t.Sound cov'
  | .leaf b i, hs => h b i hs
  | .node b l r, hs => ⟨fun i hi => h b i (hs.1 i hi), NTree.Sound.mono h l hs.2.1, NTree.Sound.mono h r hs.2.2⟩

theorem NTree.bound_covers {cov : β → ι → Prop} : ∀ t : NTree ι β, t.Sound cov → ∀ i ∈ t.items, cov t.bound i
  | .leaf b i, hs, j, hj => by
      simp only [NTree.items, List.mem_singleton] at hj
      subst hj; exact hs
  | .node b l r, hs, j, hj => hs.1 j (by simpa [NTree.items] using hj)

theorem admitB_mono {b1 b2 : K} (h : b1 ≤ b2) (s : Best ι K) (h1 : admitB b1 s = false) : admitB b2 s = false := by
  cases s with
  | none => simp [admitB] at h1
  | some jd =>
    obtain ⟨j, d⟩ := jd
    simp only [admitB, Bool.not_eq_false', decide_eq_true_eq] at h1 ⊢
    exact lt_of_lt_of_le h1 h

/-- **`findNearest` is the pruned left-to-right fold over the query-ordered children** (no
hypothesis: this is only the closer-child-first order and the `break`). -/
theorem nearestGo_eq_search (lb : β → K) (key : ι → K) :
    ∀ (t : NTree ι β) (s : Best ι K),
      nearestGo lb key t s = Forest.search admitB (stepBest key) (NTree.kids lb t) s
  | .leaf b i, s => by simp [nearestGo, NTree.kids, Forest.search]
  | .node b l r, s => by
      have ihl := nearestGo_eq_search lb key l
      have ihr := nearestGo_eq_search lb key r
      simp only [nearestGo, NTree.kids]
      by_cases hsw : lb r.bound < lb l.bound
      · simp only [hsw, if_true, Forest.search]
        cases h1 : admitB (lb r.bound) s with
        | true => simp only [if_true, ihr, ihl]
        | false =>
          have h2 := admitB_mono (le_of_lt hsw) s h1
          simp [h2]
      · simp only [hsw, if_false, Forest.search]
        cases h1 : admitB (lb l.bound) s with
        | true => simp only [if_true, ihr, ihl]
        | false =>
          have h2 := admitB_mono (not_lt.1 hsw) s h1
          simp [h2]

theorem kids_items_perm (lb : β → K) : ∀ t : NTree ι β, (Forest.items (NTree.kids lb t)).Perm t.items
  | .leaf b i => by simp [NTree.kids, Forest.items, NTree.items]
  | .node b l r => by
      have hl := kids_items_perm lb l
      have hr := kids_items_perm lb r
      simp only [NTree.kids, NTree.items]
      by_cases hsw : lb r.bound < lb l.bound
      · simp only [hsw, if_true, Forest.items, List.append_nil]
        exact (hr.append hl).trans List.perm_append_comm
      · simp only [hsw, if_false, Forest.items, List.append_nil]
        exact hl.append hr

theorem kids_sound (lb : β → K) (key : ι → K) :
    ∀ t : NTree ι β, t.Sound (fun b i => lb b ≤ key i) → Forest.Sound (fun (b : K) i => b ≤ key i) (NTree.kids lb t)
  | .leaf b i, _ => by simp [NTree.kids, Forest.Sound]
  | .node b l r, hs => by
      have hl := kids_sound lb key l hs.2.1
      have hr := kids_sound lb key r hs.2.2
      have cl : ∀ i ∈ Forest.items (NTree.kids lb l), lb l.bound ≤ key i := fun i hi =>
        NTree.bound_covers l hs.2.1 i ((kids_items_perm lb l).mem_iff.1 hi)
      have cr : ∀ i ∈ Forest.items (NTree.kids lb r), lb r.bound ≤ key i := fun i hi =>
        NTree.bound_covers r hs.2.2 i ((kids_items_perm lb r).mem_iff.1 hi)
      simp only [NTree.kids]
      by_cases hsw : lb r.bound < lb l.bound
      · simp only [hsw, if_true, Forest.Sound]
        exact ⟨cr, hr, cl, hl, trivial⟩
      · simp only [hsw, if_false, Forest.Sound]
        exact ⟨cl, hl, cr, hr, trivial⟩

theorem stepBest_skip (key : ι → K) (b : K) (s : Best ι K) (i : ι) (hc : b ≤ key i) (ha : admitB b s = false) :
    stepBest key s i = s := by
  cases s with
  | none => simp [admitB] at ha
  | some jd =>
    obtain ⟨j, d⟩ := jd
    simp only [admitB, Bool.not_eq_false', decide_eq_true_eq] at ha
    have : ¬ key i < d := not_lt.2 (le_trans (le_of_lt ha) hc)
    simp [stepBest, this]

/-- The linear scan from a running answer: the key only decreases, ends at most at every scanned
key, and the answer is the old one or a scanned item with its key. -/
theorem foldl_stepBest_some (key : ι → K) :
    ∀ (l : List ι) (i0 : ι) (d0 : K), ∃ i d, l.foldl (stepBest key) (some (i0, d0)) = some (i, d) ∧
      d ≤ d0 ∧ (∀ j ∈ l, d ≤ key j) ∧ ((i = i0 ∧ d = d0) ∨ (i ∈ l ∧ d = key i))
  | [], i0, d0 => ⟨i0, d0, rfl, le_refl _, by simp, Or.inl ⟨rfl, rfl⟩⟩
  | a :: l, i0, d0 => by
      simp only [List.foldl_cons, stepBest]
      by_cases h : key a < d0
      · simp only [h, if_true]
        obtain ⟨i, d, he, hle, hall, hor⟩ := foldl_stepBest_some key l a (key a)
        refine ⟨i, d, he, le_trans hle (le_of_lt h), ?_, ?_⟩
        · intro j hj
          rcases List.mem_cons.1 hj with rfl | hj
          · exact hle
          · exact hall j hj
        · rcases hor with ⟨rfl, rfl⟩ | ⟨hm, hd⟩
          · exact Or.inr ⟨by simp, rfl⟩
          · exact Or.inr ⟨List.mem_cons_of_mem _ hm, hd⟩
      · simp only [h, if_false]
        obtain ⟨i, d, he, hle, hall, hor⟩ := foldl_stepBest_some key l i0 d0
        refine ⟨i, d, he, hle, ?_, ?_⟩
        · intro j hj
          rcases List.mem_cons.1 hj with rfl | hj
          · exact le_trans hle (not_lt.1 h)
          · exact hall j hj
        · rcases hor with h1 | ⟨hm, hd⟩
          · exact Or.inl h1
          · exact Or.inr ⟨List.mem_cons_of_mem _ hm, hd⟩

/-- The scan from nothing over a non-empty list returns an item of smallest key. -/
theorem scanBest_min (key : ι → K) (l : List ι) (hne : l ≠ []) :
    ∃ i, scanBest key l = some (i, key i) ∧ i ∈ l ∧ ∀ j ∈ l, key i ≤ key j := by
  cases l with
  | nil => exact absurd rfl hne
  | cons a l =>
    obtain ⟨i, d, he, hle, hall, hor⟩ := foldl_stepBest_some key l a (key a)
    simp only [scanBest, List.foldl_cons, stepBest]
    rcases hor with ⟨rfl, rfl⟩ | ⟨hm, rfl⟩
    · refine ⟨i, he, by simp, ?_⟩
      intro j hj
      rcases List.mem_cons.1 hj with rfl | hj
      · exact le_refl _
      · exact hall j hj
    · refine ⟨i, he, List.mem_cons_of_mem _ hm, ?_⟩
      intro j hj
      rcases List.mem_cons.1 hj with rfl | hj
      · exact hle
      · exact hall j hj

theorem NTree.items_ne_nil : ∀ t : NTree ι β, t.items ≠ []
  | .leaf _ _ => by simp [NTree.items]
  | .node _ l r => by simp [NTree.items, NTree.items_ne_nil l]

/-- **Pruned nearest search = linear scan, for every sound lower bound.** -/
theorem nearestGo_eq_scan (lb : β → K) (key : ι → K) (t : NTree ι β) (hs : t.Sound fun b i => lb b ≤ key i) :
    nearestGo lb key t none = scanBest key (Forest.items (NTree.kids lb t)) := by
  rw [nearestGo_eq_search]
  exact Forest.search_eq_foldl (covers := fun (b : K) i => b ≤ key i)
    (fun b s i hc ha => stepBest_skip key b s i hc ha) _ _ (kids_sound lb key t hs)

/-! ### `newTri2dLookup` -/

theorem buildTree_spec {cov : β → ι → Prop} (bnd : ι → β) (join : β → β → β) (hb : ∀ i, cov (bnd i) i)
    (hj1 : ∀ a b i, cov a i → cov (join a b) i) (hj2 : ∀ a b i, cov b i → cov (join a b) i) :
    ∀ (f : Nat) (l : List ι) (t : NTree ι β), buildTree bnd join f l = some t → t.items = l ∧ t.Sound cov := by
  intro f
  induction f with
  | zero =>
    intro l t h
    match l, h with
    | [i], h =>
      simp only [buildTree, Option.some.injEq] at h
      subst h
      exact ⟨rfl, hb i⟩
  | succ f ih =>
    intro l t h
    match l, h with
    | [i], h =>
      simp only [buildTree, Option.some.injEq] at h
      subst h
      exact ⟨rfl, hb i⟩
    | i :: j :: l, h =>
      simp only [buildTree] at h
      split at h
      · rename_i a b ha hb'
        simp only [Option.some.injEq] at h
        subst h
        obtain ⟨ia, sa⟩ := ih _ a ha
        obtain ⟨ib, sb⟩ := ih _ b hb'
        refine ⟨?_, ?_, sa, sb⟩
        · simp only [NTree.items, ia, ib]
          exact List.take_append_drop _ _
        · intro x hx
          rcases List.mem_append.1 hx with hx | hx
          · exact hj1 _ _ _ (NTree.bound_covers a sa x hx)
          · exact hj2 _ _ _ (NTree.bound_covers b sb x hx)
      · exact absurd h (by simp)

end Search

/-! ## Numeric part -/
section Geo
variable {K : Type} [Field K] [LinearOrder K] [IsStrictOrderedRing K]

theorem dist2_nonneg (a b : V2 K) : 0 ≤ dist2 a b := by
  simp only [dist2, dot2, V2.sub]
  exact add_nonneg (mul_self_nonneg _) (mul_self_nonneg _)

theorem dist2_comm (a b : V2 K) : dist2 a b = dist2 b a := by
  simp only [dist2, dot2, V2.sub]; ring

/-- `p` lies in the rectangle. -/
def Rect.Has (r : Rect K) (p : V2 K) : Prop := r.lo.x ≤ p.x ∧ p.x ≤ r.hi.x ∧ r.lo.y ≤ p.y ∧ p.y ≤ r.hi.y

theorem clamp1_sq_le (lo hi x q : K) (h1 : lo ≤ q) (h2 : q ≤ hi) :
    (x - clamp1 lo hi x) * (x - clamp1 lo hi x) ≤ (x - q) * (x - q) := by
  unfold clamp1
  by_cases hx : hi < x
  · simp only [hx, if_true]
    have : ¬ hi < lo := not_lt.2 (le_trans h1 h2)
    simp only [this, if_false]
    nlinarith
  · simp only [hx, if_false]
    by_cases hl : x < lo
    · simp only [hl, if_true]; nlinarith
    · simp only [hl, if_false]; nlinarith [mul_self_nonneg (x - q)]

/-- **The value derived from `Rect.SDF` is a lower bound of the squared distance from the query to
every point of the rectangle** (negative or zero when the query is inside). -/
theorem rectLB_le (r : Rect K) (c q : V2 K) (hq : Rect.Has r q) : rectLB r c ≤ dist2 q c := by
  obtain ⟨h1, h2, h3, h4⟩ := hq
  unfold rectLB
  simp only
  split_ifs with hc
  · have := dist2_nonneg q c
    have h0 : 0 ≤ (minOf (minOf (c.x - r.lo.x) (r.hi.x - c.x)) (minOf (c.y - r.lo.y) (r.hi.y - c.y))) *
        (minOf (minOf (c.x - r.lo.x) (r.hi.x - c.x)) (minOf (c.y - r.lo.y) (r.hi.y - c.y))) := mul_self_nonneg _
    linarith
  · rw [dist2_comm q c]
    have hx := clamp1_sq_le r.lo.x r.hi.x c.x q.x h1 h2
    have hy := clamp1_sq_le r.lo.y r.hi.y c.y q.y h3 h4
    simp only [dist2, dot2, V2.sub]
    linarith

/-- The closest point of the segment as `genericSDF` computes it: weights `≥ 0` summing to 1, the
reported squared distance is that of the point with these weights. -/
theorem segNearest_point (p1 p2 c : V2 K) :
    0 ≤ (segNearest p1 p2 c).2.1 ∧ 0 ≤ (segNearest p1 p2 c).2.2 ∧
    (segNearest p1 p2 c).2.1 + (segNearest p1 p2 c).2.2 = 1 ∧
    (segNearest p1 p2 c).1 = dist2 (segPoint p1 p2 (segNearest p1 p2 c).2) c := by
  unfold segNearest
  simp only
  split_ifs with h1 h2
  · refine ⟨zero_le_one, le_refl _, by ring, ?_⟩
    simp only [segPoint, dist2, dot2, V2.sub, V2.add, V2.scale]; ring
  · refine ⟨le_refl _, zero_le_one, by ring, ?_⟩
    simp only [segPoint, dist2, dot2, V2.sub, V2.add, V2.scale]; ring
  · refine ⟨by linarith [not_le.1 h2], le_of_lt (not_le.1 h1), by ring, ?_⟩
    simp only [segPoint, dist2, dot2, V2.sub, V2.add, V2.scale]; ring

/-- **The point `genericSDF` picks on a (non-degenerate) segment is the closest point of the
segment.** -/
theorem segNearest_min (p1 p2 c : V2 K) (hne : 0 < dot2 (p2.sub p1) (p2.sub p1)) (s : K) (hs0 : 0 ≤ s) (hs1 : s ≤ 1) :
    (segNearest p1 p2 c).1 ≤ dist2 (segPoint p1 p2 (1 - s, s)) c := by
  unfold segNearest
  simp only
  -- names for v·w and v·v
  have hn := hne
  simp only [dot2, V2.sub] at hn
  have hd : (dot2 (p2.sub p1) (c.sub p1) / dot2 (p2.sub p1) (p2.sub p1)) * dot2 (p2.sub p1) (p2.sub p1) =
      dot2 (p2.sub p1) (c.sub p1) := div_mul_cancel₀ _ (ne_of_gt hne)
  generalize hdd : dot2 (p2.sub p1) (c.sub p1) / dot2 (p2.sub p1) (p2.sub p1) = d at hd ⊢
  simp only [dot2, V2.sub] at hd
  split_ifs with h1 h2
  · -- d ≤ 0: v·w ≤ 0
    have hvw : (p2.x - p1.x) * (c.x - p1.x) + (p2.y - p1.y) * (c.y - p1.y) ≤ 0 := by
      rw [← hd]; exact mul_nonpos_of_nonpos_of_nonneg h1 (le_of_lt hn)
    simp only [segPoint, dist2, dot2, V2.sub, V2.add, V2.scale]
    nlinarith [mul_nonneg hs0 (le_of_lt hn), mul_nonneg hs0 (mul_nonneg hs0 (le_of_lt hn)), mul_nonneg hs0 (neg_nonneg.2 hvw)]
  · -- d ≥ 1: v·w ≥ v·v
    have hvw : (p2.x - p1.x) * (p2.x - p1.x) + (p2.y - p1.y) * (p2.y - p1.y) ≤
        (p2.x - p1.x) * (c.x - p1.x) + (p2.y - p1.y) * (c.y - p1.y) := by
      rw [← hd]; nlinarith
    simp only [segPoint, dist2, dot2, V2.sub, V2.add, V2.scale]
    have hs' : 0 ≤ 1 - s := by linarith
    nlinarith [mul_nonneg hs' (le_of_lt hn), mul_nonneg hs' (mul_nonneg hs' (le_of_lt hn)),
      mul_nonneg hs' (sub_nonneg.2 hvw)]
  · simp only [segPoint, dist2, dot2, V2.sub, V2.add, V2.scale]
    have key : ((p1.x * (1 - s) + p2.x * s) - c.x) * ((p1.x * (1 - s) + p2.x * s) - c.x) +
        ((p1.y * (1 - s) + p2.y * s) - c.y) * ((p1.y * (1 - s) + p2.y * s) - c.y) -
        (((p1.x + (p2.x - p1.x) * d) - c.x) * ((p1.x + (p2.x - p1.x) * d) - c.x) +
         ((p1.y + (p2.y - p1.y) * d) - c.y) * ((p1.y + (p2.y - p1.y) * d) - c.y)) =
        ((p2.x - p1.x) * (p2.x - p1.x) + (p2.y - p1.y) * (p2.y - p1.y)) * ((s - d) * (s - d)) +
        2 * (s - d) * (d * ((p2.x - p1.x) * (p2.x - p1.x) + (p2.y - p1.y) * (p2.y - p1.y)) -
          ((p2.x - p1.x) * (c.x - p1.x) + (p2.y - p1.y) * (c.y - p1.y))) := by ring
    have h0 : 0 ≤ ((p2.x - p1.x) * (p2.x - p1.x) + (p2.y - p1.y) * (p2.y - p1.y)) * ((s - d) * (s - d)) :=
      mul_nonneg (le_of_lt hn) (mul_self_nonneg _)
    rw [hd, sub_self, mul_zero, add_zero] at key
    linarith

/-- Weights `≥ 0` summing to 1 keep a point inside every rectangle that holds both end points. -/
theorem segPoint_in (r : Rect K) (p1 p2 : V2 K) (w : K × K) (h1 : Rect.Has r p1) (h2 : Rect.Has r p2)
    (hw1 : 0 ≤ w.1) (hw2 : 0 ≤ w.2) (hsum : w.1 + w.2 = 1) : Rect.Has r (segPoint p1 p2 w) := by
  obtain ⟨a1, a2, a3, a4⟩ := h1
  obtain ⟨b1, b2, b3, b4⟩ := h2
  have e : w.1 = 1 - w.2 := by linarith
  simp only [Rect.Has, segPoint, V2.add, V2.scale]
  rw [e]
  have hw1' : 0 ≤ 1 - w.2 := by linarith
  refine ⟨?_, ?_, ?_, ?_⟩ <;> nlinarith

/-- All three corners of the triangle lie in the rectangle. -/
def Rect.HasTri (r : Rect K) (t : Tri2 K) : Prop := Rect.Has r t.a ∧ Rect.Has r t.b ∧ Rect.Has r t.c

/-- The key of a triangle (squared distance of its closest boundary point) is the squared distance
of a point of every rectangle that holds its corners … -/
theorem triNearest_in (r : Rect K) (t : Tri2 K) (c : V2 K) (h : Rect.HasTri r t) :
    ∃ q, Rect.Has r q ∧ (triNearest t c).1 = dist2 q c := by
  obtain ⟨ha, hb, hc⟩ := h
  obtain ⟨a1, a2, a3, a4⟩ := segNearest_point t.a t.b c
  obtain ⟨b1, b2, b3, b4⟩ := segNearest_point t.b t.c c
  obtain ⟨c1, c2, c3, c4⟩ := segNearest_point t.c t.a c
  unfold triNearest
  simp only
  split_ifs
  · exact ⟨_, segPoint_in r _ _ _ hc ha c1 c2 c3, c4⟩
  · exact ⟨_, segPoint_in r _ _ _ hb hc b1 b2 b3, b4⟩
  · exact ⟨_, segPoint_in r _ _ _ hc ha c1 c2 c3, c4⟩
  · exact ⟨_, segPoint_in r _ _ _ ha hb a1 a2 a3, a4⟩

/-- … hence at least the rectangle's bound value: **every rectangle that holds the triangle is a sound
bound for `findNearest`**, for every query. -/
theorem rectLB_le_triNearest (r : Rect K) (t : Tri2 K) (c : V2 K) (h : Rect.HasTri r t) :
    rectLB r c ≤ (triNearest t c).1 := by
  obtain ⟨q, hq, he⟩ := triNearest_in r t c h
  rw [he]; exact rectLB_le r c q hq

/-- The barycentric coordinates `genericSDF` reports are `≥ 0`, sum to 1, and the reported squared
distance is that of the point of the triangle with these coordinates (`AtBarycentric`). -/
theorem triNearest_point (t : Tri2 K) (c : V2 K) :
    0 ≤ (triNearest t c).2.1 ∧ 0 ≤ (triNearest t c).2.2.1 ∧ 0 ≤ (triNearest t c).2.2.2 ∧
    (triNearest t c).2.1 + (triNearest t c).2.2.1 + (triNearest t c).2.2.2 = 1 ∧
    (triNearest t c).1 = dist2 (atBary2 t (triNearest t c).2) c := by
  obtain ⟨a1, a2, a3, a4⟩ := segNearest_point t.a t.b c
  obtain ⟨b1, b2, b3, b4⟩ := segNearest_point t.b t.c c
  obtain ⟨c1, c2, c3, c4⟩ := segNearest_point t.c t.a c
  unfold triNearest
  simp only
  split_ifs
  · refine ⟨c2, le_refl _, c1, by linarith, ?_⟩
    rw [c4]; simp only [segPoint, atBary2, dist2, dot2, V2.sub, V2.add, V2.scale]; ring
  · refine ⟨le_refl _, b1, b2, by linarith, ?_⟩
    rw [b4]; simp only [segPoint, atBary2, dist2, dot2, V2.sub, V2.add, V2.scale]; ring
  · refine ⟨c2, le_refl _, c1, by linarith, ?_⟩
    rw [c4]; simp only [segPoint, atBary2, dist2, dot2, V2.sub, V2.add, V2.scale]; ring
  · refine ⟨a1, a2, le_refl _, by linarith, ?_⟩
    rw [a4]; simp only [segPoint, atBary2, dist2, dot2, V2.sub, V2.add, V2.scale]; ring

/-- **No point of the boundary of a (non-degenerate) triangle is closer to the query than the one
`genericSDF` reports.** -/
theorem triNearest_min (t : Tri2 K) (c : V2 K)
    (hab : 0 < dot2 (t.b.sub t.a) (t.b.sub t.a)) (hbc : 0 < dot2 (t.c.sub t.b) (t.c.sub t.b))
    (hca : 0 < dot2 (t.a.sub t.c) (t.a.sub t.c)) (s : K) (hs0 : 0 ≤ s) (hs1 : s ≤ 1) :
    (triNearest t c).1 ≤ dist2 (segPoint t.a t.b (1 - s, s)) c ∧
    (triNearest t c).1 ≤ dist2 (segPoint t.b t.c (1 - s, s)) c ∧
    (triNearest t c).1 ≤ dist2 (segPoint t.c t.a (1 - s, s)) c := by
  have ha := segNearest_min t.a t.b c hab s hs0 hs1
  have hb := segNearest_min t.b t.c c hbc s hs0 hs1
  have hc := segNearest_min t.c t.a c hca s hs0 hs1
  unfold triNearest
  simp only
  split_ifs with h1 h2 h3
  · exact ⟨by linarith, by linarith, hc⟩
  · exact ⟨by linarith [not_lt.1 h2], hb, by linarith [not_lt.1 h2]⟩
  · exact ⟨by linarith, by linarith [not_lt.1 h1], hc⟩
  · exact ⟨ha, by linarith [not_lt.1 h1], by linarith [not_lt.1 h3]⟩


/-! ### From the boundary to the solid triangle

For a query outside the triangle (some barycentric coordinate negative) every point of the SOLID
triangle is at least as far as some boundary point: walk from the point towards the query until
the first barycentric coordinate vanishes. -/

/-- the parameter at which the coordinate `ξ + s (x − ξ)` (from `ξ ≥ 0` towards `x`) vanishes, 1 if it never does -/
def exitS (ξ x : K) : K := if x < 0 then ξ / (ξ - x) else 1

theorem exitS_range (ξ x : K) (hξ : 0 ≤ ξ) : 0 ≤ exitS ξ x ∧ exitS ξ x ≤ 1 := by
  unfold exitS
  split_ifs with hx
  · have hd : 0 < ξ - x := by linarith
    exact ⟨div_nonneg hξ (le_of_lt hd), (div_le_one hd).2 (by linarith)⟩
  · exact ⟨zero_le_one, le_refl _⟩

theorem exitS_lt_one (ξ x : K) (hξ : 0 ≤ ξ) (hx : x < 0) : exitS ξ x < 1 := by
  unfold exitS
  simp only [hx, if_true]
  have hd : 0 < ξ - x := by linarith
  exact (div_lt_one hd).2 (by linarith)

theorem exitS_zero (ξ x : K) (hξ : 0 ≤ ξ) (hx : x < 0) : ξ + exitS ξ x * (x - ξ) = 0 := by
  unfold exitS
  simp only [hx, if_true]
  have hd : ξ - x ≠ 0 := by
    have : 0 < ξ - x := by linarith
    exact ne_of_gt this
  field_simp
  ring

theorem exitS_coord_nonneg (ξ x s : K) (hξ : 0 ≤ ξ) (hs0 : 0 ≤ s) (hs1 : s ≤ 1) (hs : s ≤ exitS ξ x) :
    0 ≤ ξ + s * (x - ξ) := by
  unfold exitS at hs
  split_ifs at hs with hx
  · have hd : 0 < ξ - x := by linarith
    have := (le_div_iff₀ hd).1 hs
    nlinarith
  · have hx' : 0 ≤ x := not_lt.1 hx
    nlinarith [mul_nonneg hs0 hx', mul_nonneg (sub_nonneg.2 hs1) hξ]

/-- walking from barycentric coordinates `(α,β,γ) ≥ 0` towards `(a,b,c)` with a negative entry there
is a parameter `s ∈ [0,1)` where all three coordinates are still `≥ 0` and one of them is `0` -/
theorem exit_point (α β γ a b c : K) (hα : 0 ≤ α) (hβ : 0 ≤ β) (hγ : 0 ≤ γ) (hneg : a < 0 ∨ b < 0 ∨ c < 0) :
    ∃ s, 0 ≤ s ∧ s < 1 ∧ 0 ≤ α + s * (a - α) ∧ 0 ≤ β + s * (b - β) ∧ 0 ≤ γ + s * (c - γ) ∧
      (α + s * (a - α) = 0 ∨ β + s * (b - β) = 0 ∨ γ + s * (c - γ) = 0) := by
  obtain ⟨ra0, ra1⟩ := exitS_range α a hα
  obtain ⟨rb0, rb1⟩ := exitS_range β b hβ
  obtain ⟨rc0, rc1⟩ := exitS_range γ c hγ
  refine ⟨min (exitS α a) (min (exitS β b) (exitS γ c)), le_min ra0 (le_min rb0 rc0), ?_, ?_, ?_, ?_, ?_⟩
  · rcases hneg with h | h | h
    · exact lt_of_le_of_lt (min_le_left _ _) (exitS_lt_one α a hα h)
    · exact lt_of_le_of_lt (le_trans (min_le_right _ _) (min_le_left _ _)) (exitS_lt_one β b hβ h)
    · exact lt_of_le_of_lt (le_trans (min_le_right _ _) (min_le_right _ _)) (exitS_lt_one γ c hγ h)
  · exact exitS_coord_nonneg α a _ hα (le_min ra0 (le_min rb0 rc0)) (le_trans (min_le_left _ _) ra1) (min_le_left _ _)
  · exact exitS_coord_nonneg β b _ hβ (le_min ra0 (le_min rb0 rc0)) (le_trans (min_le_left _ _) ra1)
      (le_trans (min_le_right _ _) (min_le_left _ _))
  · exact exitS_coord_nonneg γ c _ hγ (le_min ra0 (le_min rb0 rc0)) (le_trans (min_le_left _ _) ra1)
      (le_trans (min_le_right _ _) (min_le_right _ _))
  · have hlt : min (exitS α a) (min (exitS β b) (exitS γ c)) < 1 := by
      rcases hneg with h | h | h
      · exact lt_of_le_of_lt (min_le_left _ _) (exitS_lt_one α a hα h)
      · exact lt_of_le_of_lt (le_trans (min_le_right _ _) (min_le_left _ _)) (exitS_lt_one β b hβ h)
      · exact lt_of_le_of_lt (le_trans (min_le_right _ _) (min_le_right _ _)) (exitS_lt_one γ c hγ h)
    have key : ∀ ξ x : K, 0 ≤ ξ → exitS ξ x < 1 → ξ + exitS ξ x * (x - ξ) = 0 := by
      intro ξ x hξ h1
      by_cases hx : x < 0
      · exact exitS_zero ξ x hξ hx
      · exfalso
        unfold exitS at h1
        simp only [hx, if_false] at h1
        exact lt_irrefl _ h1
    rcases min_choice (exitS α a) (min (exitS β b) (exitS γ c)) with h | h
    · rw [h] at hlt ⊢
      exact Or.inl (key α a hα hlt)
    · rcases min_choice (exitS β b) (exitS γ c) with h2 | h2
      · rw [h, h2] at hlt ⊢
        exact Or.inr (Or.inl (key β b hβ hlt))
      · rw [h, h2] at hlt ⊢
        exact Or.inr (Or.inr (key γ c hγ hlt))

/-- **The point `genericSDF` reports is the nearest point of the SOLID triangle for a query outside
it.**  `p` has barycentric coordinates `(a,b,c)` (summing to 1) with a negative entry, i.e. lies
outside the triangle; `q` is any point of the triangle (coordinates `≥ 0` summing to 1).  Then the
reported squared distance is at most `|q − p|²`. -/
theorem triNearest_le_solid (t : Tri2 K)
    (hab : 0 < dot2 (t.b.sub t.a) (t.b.sub t.a)) (hbc : 0 < dot2 (t.c.sub t.b) (t.c.sub t.b))
    (hca : 0 < dot2 (t.a.sub t.c) (t.a.sub t.c))
    (a b c α β γ : K) (habc : a + b + c = 1) (hneg : a < 0 ∨ b < 0 ∨ c < 0)
    (hα : 0 ≤ α) (hβ : 0 ≤ β) (hγ : 0 ≤ γ) (hsum : α + β + γ = 1) :
    (triNearest t (atBary2 t (a, b, c))).1 ≤ dist2 (atBary2 t (α, β, γ)) (atBary2 t (a, b, c)) := by
  obtain ⟨s, hs0, hs1, h1, h2, h3, hz⟩ := exit_point α β γ a b c hα hβ hγ hneg
  -- the exit point and its distance
  have hd : dist2 (atBary2 t (α + s * (a - α), β + s * (b - β), γ + s * (c - γ))) (atBary2 t (a, b, c)) =
      (1 - s) * (1 - s) * dist2 (atBary2 t (α, β, γ)) (atBary2 t (a, b, c)) := by
    simp only [atBary2, dist2, dot2, V2.sub, V2.add, V2.scale]; ring
  have hle : (1 - s) * (1 - s) * dist2 (atBary2 t (α, β, γ)) (atBary2 t (a, b, c)) ≤
      dist2 (atBary2 t (α, β, γ)) (atBary2 t (a, b, c)) := by
    have hn := dist2_nonneg (atBary2 t (α, β, γ)) (atBary2 t (a, b, c))
    have h01 : (1 - s) * (1 - s) ≤ 1 := by nlinarith
    nlinarith
  have hs' : (α + s * (a - α)) + (β + s * (b - β)) + (γ + s * (c - γ)) = 1 := by
    have : (α + s * (a - α)) + (β + s * (b - β)) + (γ + s * (c - γ)) = (α + β + γ) + s * ((a + b + c) - (α + β + γ)) := by ring
    rw [this, habc, hsum]; ring
  rcases hz with hz | hz | hz
  · -- on the edge b → c
    have hg1 : γ + s * (c - γ) ≤ 1 := by linarith
    have hm := (triNearest_min t (atBary2 t (a, b, c)) hab hbc hca (γ + s * (c - γ)) h3 hg1).2.1
    have he : segPoint t.b t.c (1 - (γ + s * (c - γ)), γ + s * (c - γ)) =
        atBary2 t (α + s * (a - α), β + s * (b - β), γ + s * (c - γ)) := by
      have hb' : β + s * (b - β) = 1 - (γ + s * (c - γ)) := by linarith
      rw [hz, hb']
      simp only [segPoint, atBary2, V2.add, V2.scale]
      congr 1 <;> ring
    rw [he, hd] at hm
    exact le_trans hm hle
  · -- on the edge c → a
    have ha1 : α + s * (a - α) ≤ 1 := by linarith
    have hm := (triNearest_min t (atBary2 t (a, b, c)) hab hbc hca (α + s * (a - α)) h1 ha1).2.2
    have he : segPoint t.c t.a (1 - (α + s * (a - α)), α + s * (a - α)) =
        atBary2 t (α + s * (a - α), β + s * (b - β), γ + s * (c - γ)) := by
      have hc' : γ + s * (c - γ) = 1 - (α + s * (a - α)) := by linarith
      rw [hz, hc']
      simp only [segPoint, atBary2, V2.add, V2.scale]
      congr 1 <;> ring
    rw [he, hd] at hm
    exact le_trans hm hle
  · -- on the edge a → b
    have hb1 : β + s * (b - β) ≤ 1 := by linarith
    have hm := (triNearest_min t (atBary2 t (a, b, c)) hab hbc hca (β + s * (b - β)) h2 hb1).1
    have he : segPoint t.a t.b (1 - (β + s * (b - β)), β + s * (b - β)) =
        atBary2 t (α + s * (a - α), β + s * (b - β), γ + s * (c - γ)) := by
      have ha' : α + s * (a - α) = 1 - (β + s * (b - β)) := by linarith
      rw [hz, ha']
      simp only [segPoint, atBary2, V2.add, V2.scale]
      congr 1 <;> ring
    rw [he, hd] at hm
    exact le_trans hm hle

/-! ### The hierarchy `newTri2dLookup` builds is sound -/

theorem min3_le (a b c : K) : min3 a b c ≤ a ∧ min3 a b c ≤ b ∧ min3 a b c ≤ c := by
  unfold min3; simp only; split_ifs <;> refine ⟨?_, ?_, ?_⟩ <;> linarith

theorem le_max3 (a b c : K) : a ≤ max3 a b c ∧ b ≤ max3 a b c ∧ c ≤ max3 a b c := by
  unfold max3; simp only; split_ifs <;> refine ⟨?_, ?_, ?_⟩ <;> linarith

theorem triBounds_has (t : Tri2 K) : Rect.HasTri (triBounds t) t := by
  obtain ⟨x1, x2, x3⟩ := min3_le t.a.x t.b.x t.c.x
  obtain ⟨y1, y2, y3⟩ := min3_le t.a.y t.b.y t.c.y
  obtain ⟨u1, u2, u3⟩ := le_max3 t.a.x t.b.x t.c.x
  obtain ⟨v1, v2, v3⟩ := le_max3 t.a.y t.b.y t.c.y
  exact ⟨⟨x1, u1, y1, v1⟩, ⟨x2, u2, y2, v2⟩, ⟨x3, u3, y3, v3⟩⟩

theorem minOf_le (a b : K) : minOf a b ≤ a ∧ minOf a b ≤ b := by
  unfold minOf; split_ifs <;> constructor <;> linarith

theorem le_maxOf (a b : K) : a ≤ maxOf a b ∧ b ≤ maxOf a b := by
  unfold maxOf; split_ifs <;> constructor <;> linarith

theorem Rect.has_join_left (a b : Rect K) (p : V2 K) (h : Rect.Has a p) : Rect.Has (Rect.join a b) p := by
  obtain ⟨h1, h2, h3, h4⟩ := h
  simp only [Rect.Has, Rect.join]
  exact ⟨le_trans (minOf_le _ _).1 h1, le_trans h2 (le_maxOf _ _).1, le_trans (minOf_le _ _).1 h3, le_trans h4 (le_maxOf _ _).1⟩

theorem Rect.has_join_right (a b : Rect K) (p : V2 K) (h : Rect.Has b p) : Rect.Has (Rect.join a b) p := by
  obtain ⟨h1, h2, h3, h4⟩ := h
  simp only [Rect.Has, Rect.join]
  exact ⟨le_trans (minOf_le _ _).2 h1, le_trans h2 (le_maxOf _ _).2, le_trans (minOf_le _ _).2 h3, le_trans h4 (le_maxOf _ _).2⟩

/-- **The hierarchy built by `newTri2dLookup` (any order of the triangles) is sound for the
`Rect.SDF` bound, for every query**: every node's bound value is at most the key of every
triangle below it. -/
theorem tri2dTree_sound (f : Nat) (l : List (Tri2 K × Nat)) (t : NTree (Tri2 K × Nat) (Rect K)) (p : V2 K)
    (h : buildTree (fun (it : Tri2 K × Nat) => triBounds it.1) Rect.join f l = some t) :
    t.items = l ∧ t.Sound (fun r it => rectLB r p ≤ (triNearest it.1 p).1) := by
  obtain ⟨hi, hs⟩ := buildTree_spec (cov := fun (r : Rect K) (it : Tri2 K × Nat) => Rect.HasTri r it.1)
    (fun (it : Tri2 K × Nat) => triBounds it.1) Rect.join
    (fun it => triBounds_has it.1)
    (fun a b it hc => ⟨Rect.has_join_left a b _ hc.1, Rect.has_join_left a b _ hc.2.1, Rect.has_join_left a b _ hc.2.2⟩)
    (fun a b it hc => ⟨Rect.has_join_right a b _ hc.1, Rect.has_join_right a b _ hc.2.1, Rect.has_join_right a b _ hc.2.2⟩)
    f l t h
  exact ⟨hi, NTree.Sound.mono (fun r it hc => rectLB_le_triNearest r it.1 p hc) t hs⟩

end Geo

end M3d.Param
