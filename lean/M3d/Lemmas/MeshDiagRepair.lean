import M3d.Lemmas.MeshDiagSearch
/-!
# C11 — `Repair` merges exactly the classes of the equivalence closure of "share a grid hash"
-/
namespace M3d.MeshDiag

variable {H : Type} [BEq H] [LawfulBEq H]
set_option linter.unusedSectionVars false

theorem linked_symm (hashOf : Nat → List H) (a b : Nat) : linked hashOf a b = linked hashOf b a := by
  simp only [linked]
  rw [Bool.eq_iff_iff]
  simp only [List.any_eq_true, List.contains_iff_mem]
  constructor <;> rintro ⟨h, h1, h2⟩ <;> exact ⟨h, h2, h1⟩

theorem linked_iff (hashOf : Nat → List H) (a b : Nat) :
    linked hashOf a b = true ↔ ∃ h, h ∈ hashOf a ∧ h ∈ hashOf b := by
  simp [linked, List.any_eq_true, List.contains_iff_mem]

theorem mem_mergeHashes (acc hs : List H) (h : H) : h ∈ mergeHashes acc hs ↔ h ∈ acc ∨ h ∈ hs := by
  unfold mergeHashes
  induction hs generalizing acc with
  | nil => simp
  | cons x xs ih =>
    simp only [List.foldl_cons]
    rw [ih]
    by_cases hx : acc.contains x = true
    · simp only [hx, if_true, List.mem_cons]
      have : x ∈ acc := List.contains_iff_mem.mp hx
      constructor
      · rintro (h1 | h1)
        · exact Or.inl h1
        · exact Or.inr (Or.inr h1)
      · rintro (h1 | h1 | h1)
        · exact Or.inl h1
        · exact Or.inl (h1 ▸ this)
        · exact Or.inr h1
    · simp only [hx, Bool.false_eq_true, if_false, List.mem_append, List.mem_cons, List.mem_nil_iff, or_false]
      constructor
      · rintro ((h1 | h1) | h1)
        · exact Or.inl h1
        · exact Or.inr (Or.inl h1)
        · exact Or.inr (Or.inr h1)
      · rintro (h1 | h1 | h1)
        · exact Or.inl (Or.inl h1)
        · exact Or.inl (Or.inr h1)
        · exact Or.inr h1

/-- The class absorbing `hit` into `acc`. -/
def mergeAll (c : Nat) (acc : EqClass H) (hit : List (EqClass H)) : EqClass H :=
  hit.foldl (fun acc k => ⟨acc.elements ++ k.elements, mergeHashes acc.hashes k.hashes, c⟩) acc

theorem mergeAll_elements (c : Nat) (acc : EqClass H) (hit : List (EqClass H)) :
    (mergeAll c acc hit).elements = acc.elements ++ hit.flatMap (·.elements) := by
  unfold mergeAll
  induction hit generalizing acc with
  | nil => simp
  | cons k ks ih => simp only [List.foldl_cons, ih, List.flatMap_cons, List.append_assoc]

theorem mergeAll_hashes (c : Nat) (acc : EqClass H) (hit : List (EqClass H)) (h : H) :
    h ∈ (mergeAll c acc hit).hashes ↔ h ∈ acc.hashes ∨ ∃ k ∈ hit, h ∈ k.hashes := by
  unfold mergeAll
  induction hit generalizing acc with
  | nil => simp
  | cons k ks ih =>
    simp only [List.foldl_cons, ih, mem_mergeHashes, List.mem_cons, exists_eq_or_imp]
    constructor
    · rintro ((h1 | h1) | h1)
      · exact Or.inl h1
      · exact Or.inr (Or.inl h1)
      · exact Or.inr (Or.inr h1)
    · rintro (h1 | h1 | h1)
      · exact Or.inl (Or.inl h1)
      · exact Or.inl (Or.inr h1)
      · exact Or.inr h1

theorem mergeAll_canonical (c : Nat) (acc : EqClass H) (hit : List (EqClass H)) (ha : acc.canonical = c) :
    (mergeAll c acc hit).canonical = c := by
  unfold mergeAll
  induction hit generalizing acc with
  | nil => simpa using ha
  | cons k ks ih => simp only [List.foldl_cons]; exact ih _ rfl

theorem repairStep_eq (hashOf : Nat → List H) (classes : List (EqClass H)) (c : Nat) :
    repairStep hashOf classes c =
      classes.filter (fun k => !(hashOf c).any k.hashes.contains) ++
        [mergeAll c ⟨[c], hashOf c, c⟩ (classes.filter fun k => (hashOf c).any k.hashes.contains)] := rfl

/-- What the loop maintains (`S` = the vertices processed so far). -/
structure RepairInv (hashOf : Nat → List H) (cls : List (EqClass H)) (S : List Nat) : Prop where
  cover : (cls.flatMap (·.elements)).Perm S
  hashes : ∀ k ∈ cls, ∀ h, h ∈ k.hashes ↔ ∃ e ∈ k.elements, h ∈ hashOf e
  disjoint : cls.Pairwise fun k k' => ∀ h, h ∈ k.hashes → h ∉ k'.hashes
  connected : ∀ k ∈ cls, ∀ a ∈ k.elements, ∀ b ∈ k.elements, Reach (linked hashOf) S a b
  canon : ∀ k ∈ cls, k.canonical ∈ k.elements

theorem pairwise_mem {α : Type} {R : α → α → Prop} {l : List α} (h : l.Pairwise R) {a b : α}
    (ha : a ∈ l) (hb : b ∈ l) : a = b ∨ R a b ∨ R b a := by
  induction l with
  | nil => cases ha
  | cons x xs ih =>
    obtain ⟨h1, h2⟩ := List.pairwise_cons.mp h
    rcases List.mem_cons.mp ha with ha | ha <;> rcases List.mem_cons.mp hb with hb | hb
    · exact Or.inl (ha.trans hb.symm)
    · exact Or.inr (Or.inl (ha ▸ h1 b hb))
    · exact Or.inr (Or.inr (hb ▸ h1 a ha))
    · exact ih h2 ha hb

theorem repairStep_inv (hashOf : Nat → List H) (cls : List (EqClass H)) (S : List Nat) (c : Nat)
    (inv : RepairInv hashOf cls S) : RepairInv hashOf (repairStep hashOf cls c) (S ++ [c]) := by
  rw [repairStep_eq]
  let touch : EqClass H → Bool := fun k => (hashOf c).any k.hashes.contains
  have htouch : ∀ k, touch k = true ↔ ∃ h, h ∈ hashOf c ∧ h ∈ k.hashes := by
    intro k; simp [touch, List.any_eq_true, List.contains_iff_mem]
  have hhit : ∀ k, k ∈ cls.filter touch ↔ k ∈ cls ∧ touch k = true := fun k => List.mem_filter
  have hmiss : ∀ k, k ∈ cls.filter (fun k => !touch k) ↔ k ∈ cls ∧ touch k = false := by
    intro k; simp [List.mem_filter]
  let new := mergeAll c ⟨[c], hashOf c, c⟩ (cls.filter touch)
  have hnewE : new.elements = c :: (cls.filter touch).flatMap (·.elements) := by
    simp [new, mergeAll_elements]
  have hnewH : ∀ h, h ∈ new.hashes ↔ h ∈ hashOf c ∨ ∃ k ∈ cls.filter touch, h ∈ k.hashes := by
    intro h; simp only [new, mergeAll_hashes]
  have hmono : ∀ {a b}, Reach (linked hashOf) S a b → Reach (linked hashOf) (S ++ [c]) a b :=
    fun h => h.mono fun x hx => List.mem_append_left _ hx
  have hsubS : ∀ k ∈ cls, ∀ e ∈ k.elements, e ∈ S := by
    intro k hk e he
    exact inv.cover.subset (List.mem_flatMap.mpr ⟨k, hk, he⟩)
  refine ⟨?_, ?_, ?_, ?_, ?_⟩
  · -- cover
    show ((cls.filter (fun k => !touch k) ++ [new]).flatMap (·.elements)).Perm (S ++ [c])
    simp only [List.flatMap_append, List.flatMap_cons, List.flatMap_nil, List.append_nil, hnewE]
    have h1 : ((cls.filter touch).flatMap (·.elements) ++ (cls.filter fun k => !touch k).flatMap (·.elements)).Perm S := by
      rw [← List.flatMap_append]
      exact ((List.filter_append_perm touch cls).flatMap_right _).trans inv.cover
    refine List.perm_middle.trans ?_
    refine (List.Perm.cons c (List.perm_append_comm.trans h1)).trans ?_
    exact (List.perm_append_singleton c S).symm
  · -- hashes
    intro k hk h
    rcases List.mem_append.mp hk with hk | hk
    · exact inv.hashes k ((hmiss k).mp hk).1 h
    · have : k = new := by simpa using hk
      subst this
      rw [hnewH, hnewE]
      constructor
      · rintro (h1 | ⟨k', hk', h1⟩)
        · exact ⟨c, List.mem_cons_self, h1⟩
        · obtain ⟨e, he, hh⟩ := (inv.hashes k' ((hhit k').mp hk').1 h).mp h1
          exact ⟨e, List.mem_cons_of_mem _ (List.mem_flatMap.mpr ⟨k', hk', he⟩), hh⟩
      · rintro ⟨e, he, hh⟩
        rcases List.mem_cons.mp he with he | he
        · subst he; exact Or.inl hh
        · obtain ⟨k', hk', he'⟩ := List.mem_flatMap.mp he
          exact Or.inr ⟨k', hk', (inv.hashes k' ((hhit k').mp hk').1 h).mpr ⟨e, he', hh⟩⟩
  · -- disjoint
    show (cls.filter (fun k => !touch k) ++ [new]).Pairwise _
    rw [List.pairwise_append]
    refine ⟨inv.disjoint.filter _, by simp, ?_⟩
    intro k hk k' hk' h hh hh'
    have : k' = new := by simpa using hk'
    subst this
    obtain ⟨hkc, hkt⟩ := (hmiss k).mp hk
    rcases (hnewH h).mp hh' with h1 | ⟨k2, hk2, h1⟩
    · have : touch k = true := (htouch k).mpr ⟨h, h1, hh⟩
      rw [this] at hkt; cases hkt
    · obtain ⟨hk2c, hk2t⟩ := (hhit k2).mp hk2
      rcases pairwise_mem inv.disjoint hkc hk2c with heq | hd | hd
      · subst heq; rw [hk2t] at hkt; cases hkt
      · exact hd h hh h1
      · exact hd h h1 hh
  · -- connected
    intro k hk a ha b hb
    rcases List.mem_append.mp hk with hk | hk
    · exact hmono (inv.connected k ((hmiss k).mp hk).1 a ha b hb)
    · have : k = new := by simpa using hk
      subst this
      rw [hnewE] at ha hb
      -- every element of the new class is linked to `c` through its old class
      have toC : ∀ x ∈ c :: (cls.filter touch).flatMap (·.elements), Reach (linked hashOf) (S ++ [c]) x c := by
        intro x hx
        rcases List.mem_cons.mp hx with hx | hx
        · subst hx; exact .refl _
        · obtain ⟨k', hk', hx'⟩ := List.mem_flatMap.mp hx
          obtain ⟨hk'c, hk't⟩ := (hhit k').mp hk'
          obtain ⟨h, hhc, hhk⟩ := (htouch k').mp hk't
          obtain ⟨e, he, hhe⟩ := (inv.hashes k' hk'c h).mp hhk
          have h1 : Reach (linked hashOf) (S ++ [c]) x e := hmono (inv.connected k' hk'c x hx' e he)
          exact .step h1 (by simp) ((linked_iff hashOf e c).mpr ⟨h, hhe, hhc⟩)
      have hxS : ∀ x ∈ c :: (cls.filter touch).flatMap (·.elements), x ∈ S ++ [c] := by
        intro x hx
        rcases List.mem_cons.mp hx with hx | hx
        · subst hx; simp
        · obtain ⟨k', hk', hx'⟩ := List.mem_flatMap.mp hx
          exact List.mem_append_left _ (hsubS k' ((hhit k').mp hk').1 x hx')
      exact Reach.trans (toC a ha) (Reach.symm (linked_symm hashOf) (hxS b hb) (toC b hb))
  · -- canon
    intro k hk
    rcases List.mem_append.mp hk with hk | hk
    · exact inv.canon k ((hmiss k).mp hk).1
    · have : k = new := by simpa using hk
      subst this
      have : new.canonical = c := mergeAll_canonical c _ _ rfl
      rw [this, hnewE]; exact List.mem_cons_self

theorem repairClasses_inv_aux (hashOf : Nat → List H) :
    ∀ (vs : List Nat) (cls : List (EqClass H)) (S : List Nat), RepairInv hashOf cls S →
      RepairInv hashOf (vs.foldl (repairStep hashOf) cls) (S ++ vs) := by
  intro vs
  induction vs with
  | nil => intro cls S inv; simpa using inv
  | cons v vs ih =>
    intro cls S inv
    simp only [List.foldl_cons]
    have := ih _ _ (repairStep_inv hashOf cls S v inv)
    simpa [List.append_assoc] using this

theorem repairClasses_inv (hashOf : Nat → List H) (vs : List Nat) :
    RepairInv hashOf (repairClasses hashOf vs) vs := by
  have h0 : RepairInv hashOf ([] : List (EqClass H)) [] :=
    { cover := by simp
      hashes := fun k hk => by cases hk
      disjoint := List.Pairwise.nil
      connected := fun k hk => by cases hk
      canon := fun k hk => by cases hk }
  have := repairClasses_inv_aux hashOf vs [] [] h0
  simpa [repairClasses] using this

/-- Two processed vertices lie in a common class iff they are related by the equivalence closure
of "share a grid hash". -/
theorem same_class_iff (hashOf : Nat → List H) (vs : List Nat) (a b : Nat) (ha : a ∈ vs) (hb : b ∈ vs) :
    (∃ k ∈ repairClasses hashOf vs, a ∈ k.elements ∧ b ∈ k.elements) ↔
      Reach (linked hashOf) vs a b := by
  have inv := repairClasses_inv hashOf vs
  constructor
  · rintro ⟨k, hk, hak, hbk⟩; exact inv.connected k hk a hak b hbk
  · intro hr
    have hcls : ∀ x ∈ vs, ∃ k ∈ repairClasses hashOf vs, x ∈ k.elements := by
      intro x hx
      obtain ⟨k, hk, hxk⟩ := List.mem_flatMap.mp (inv.cover.mem_iff.mpr hx)
      exact ⟨k, hk, hxk⟩
    induction hr with
    | refl => obtain ⟨k, hk, hak⟩ := hcls a ha; exact ⟨k, hk, hak, hak⟩
    | step hab hc hadj ih =>
      rename_i b c
      have hbv : b ∈ vs := by
        rcases hab.eq_or_mem with h | h
        · exact h ▸ ha
        · exact h
      obtain ⟨k, hk, hak, hbk⟩ := ih hbv
      obtain ⟨k', hk', hck'⟩ := hcls c hc
      obtain ⟨h, hhb, hhc⟩ := (linked_iff hashOf b c).mp hadj
      have h1 : h ∈ k.hashes := (inv.hashes k hk h).mpr ⟨b, hbk, hhb⟩
      have h2 : h ∈ k'.hashes := (inv.hashes k' hk' h).mpr ⟨c, hck', hhc⟩
      rcases pairwise_mem inv.disjoint hk hk' with heq | hd | hd
      · subst heq; exact ⟨k, hk, hak, hck'⟩
      · exact absurd h2 (hd h h1)
      · exact absurd h1 (hd h h2)

theorem flatMap_nodup_unique {α β : Type} (f : α → List β) :
    ∀ (l : List α), (l.flatMap f).Nodup → ∀ k1 ∈ l, ∀ k2 ∈ l, ∀ x, x ∈ f k1 → x ∈ f k2 → k1 = k2 := by
  intro l
  induction l with
  | nil => intro _ k1 h1; cases h1
  | cons y ys ih =>
    intro hnd k1 h1 k2 h2 x hx1 hx2
    rw [List.flatMap_cons, List.nodup_append] at hnd
    obtain ⟨_, hn2, hn3⟩ := hnd
    rcases List.mem_cons.mp h1 with e1 | m1
    · rcases List.mem_cons.mp h2 with e2 | m2
      · exact e1.trans e2.symm
      · subst e1
        exact absurd rfl (hn3 x hx1 x (List.mem_flatMap.mpr ⟨k2, m2, hx2⟩))
    · rcases List.mem_cons.mp h2 with e2 | m2
      · subst e2
        exact absurd rfl (hn3 x hx2 x (List.mem_flatMap.mpr ⟨k1, m1, hx1⟩))
      · exact ih hn2 k1 m1 k2 m2 x hx1 hx2

/-- `coordToClass[v]` is the class that holds `v`. -/
theorem canonOf_eq (hashOf : Nat → List H) (vs : List Nat) (hnd : vs.Nodup) (v : Nat) (hv : v ∈ vs) :
    ∃ k ∈ repairClasses hashOf vs, v ∈ k.elements ∧ canonOf (repairClasses hashOf vs) v = k.canonical := by
  have inv := repairClasses_inv hashOf vs
  obtain ⟨k, hk, hvk⟩ := List.mem_flatMap.mp (inv.cover.mem_iff.mpr hv)
  unfold canonOf
  cases hf : (repairClasses hashOf vs).find? (fun k => k.elements.contains v) with
  | none =>
    have := List.find?_eq_none.mp hf k hk
    simp [hvk] at this
  | some k' =>
    have h1 : k' ∈ repairClasses hashOf vs := List.mem_of_find?_eq_some hf
    have h2 : v ∈ k'.elements := by
      have := List.find?_some hf
      exact List.contains_iff_mem.mp this
    exact ⟨k', h1, h2, rfl⟩

theorem canonOf_eq_iff (hashOf : Nat → List H) (vs : List Nat) (hnd : vs.Nodup) (a b : Nat)
    (ha : a ∈ vs) (hb : b ∈ vs) :
    canonOf (repairClasses hashOf vs) a = canonOf (repairClasses hashOf vs) b ↔
      Reach (linked hashOf) vs a b := by
  have inv := repairClasses_inv hashOf vs
  have hnd' : ((repairClasses hashOf vs).flatMap (·.elements)).Nodup := inv.cover.nodup_iff.mpr hnd
  have huniq := flatMap_nodup_unique (fun (k : EqClass H) => k.elements) _ hnd'
  obtain ⟨ka, hka, haka, hca⟩ := canonOf_eq hashOf vs hnd a ha
  obtain ⟨kb, hkb, hbkb, hcb⟩ := canonOf_eq hashOf vs hnd b hb
  rw [← same_class_iff hashOf vs a b ha hb, hca, hcb]
  constructor
  · intro h
    have : ka = kb := huniq ka hka kb hkb ka.canonical (inv.canon ka hka) (h ▸ inv.canon kb hkb)
    subst this
    exact ⟨ka, hka, haka, hbkb⟩
  · rintro ⟨k, hk, hak, hbk⟩
    have h1 : ka = k := huniq ka hka k hk a haka hak
    have h2 : kb = k := huniq kb hkb k hk b hbkb hbk
    rw [h1, h2]

theorem canonOf_mem (hashOf : Nat → List H) (vs : List Nat) (hnd : vs.Nodup) (a : Nat) (ha : a ∈ vs) :
    canonOf (repairClasses hashOf vs) a ∈ vs ∧
      Reach (linked hashOf) vs a (canonOf (repairClasses hashOf vs) a) := by
  have inv := repairClasses_inv hashOf vs
  obtain ⟨ka, hka, haka, hca⟩ := canonOf_eq hashOf vs hnd a ha
  rw [hca]
  exact ⟨inv.cover.subset (List.mem_flatMap.mpr ⟨ka, hka, inv.canon ka hka⟩),
    inv.connected ka hka a haka _ (inv.canon ka hka)⟩

end M3d.MeshDiag
