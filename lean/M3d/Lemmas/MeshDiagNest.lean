import M3d.Model.MeshDiag
/-!
# C11 — nesting and even–odd classification of the hierarchy forest

`IsAnc a b f`: `a` is a proper ancestor of `b` in the forest `f`.  Under the hypotheses that the
containment oracle `enc` is a laminar strict order compatible with the insertion order
(enclosing components are swept first), inserting leaves one by one keeps
"ancestor ⇔ encloses", and `Forest.contains` is the parity of the number of nodes containing the
point.
-/
namespace M3d.MeshDiag
namespace Forest
variable {α : Type}

/-- `a` is a proper ancestor of `b`. -/
def IsAnc (a b : α) : Forest α → Prop
  | nil => False
  | node x kids sibs => (x = a ∧ b ∈ nodes kids) ∨ IsAnc a b kids ∨ IsAnc a b sibs

theorem IsAnc.mem {a b : α} : ∀ {f : Forest α}, IsAnc a b f → a ∈ nodes f ∧ b ∈ nodes f := by
  intro f
  induction f with
  | nil => intro h; cases h
  | node x kids sibs ihk ihs =>
    intro h
    simp only [IsAnc] at h
    simp only [nodes, List.mem_cons, List.mem_append]
    rcases h with ⟨h1, h2⟩ | h | h
    · exact ⟨Or.inl h1.symm, Or.inr (Or.inl h2)⟩
    · exact ⟨Or.inr (Or.inl (ihk h).1), Or.inr (Or.inl (ihk h).2)⟩
    · exact ⟨Or.inr (Or.inr (ihs h).1), Or.inr (Or.inr (ihs h).2)⟩

theorem mem_nodes_insertLeaf (enc : α → α → Bool) (x : α) :
    ∀ (f : Forest α) (a : α), a ∈ nodes (insertLeaf enc x f) ↔ a = x ∨ a ∈ nodes f := by
  intro f
  induction f with
  | nil => intro a; simp [insertLeaf, nodes]
  | node y kids sibs ihk ihs =>
    intro a
    simp only [insertLeaf]
    split
    · simp only [nodes, List.mem_cons, List.mem_append, ihk]
      constructor
      · rintro (h | (h | h) | h)
        · exact Or.inr (Or.inl h)
        · exact Or.inl h
        · exact Or.inr (Or.inr (Or.inl h))
        · exact Or.inr (Or.inr (Or.inr h))
      · rintro (h | h | h | h)
        · exact Or.inr (Or.inl (Or.inl h))
        · exact Or.inl h
        · exact Or.inr (Or.inl (Or.inr h))
        · exact Or.inr (Or.inr h)
    · simp only [nodes, List.mem_cons, List.mem_append, ihs]
      constructor
      · rintro (h | h | h | h)
        · exact Or.inr (Or.inl h)
        · exact Or.inr (Or.inr (Or.inl h))
        · exact Or.inl h
        · exact Or.inr (Or.inr (Or.inr h))
      · rintro (h | h | h | h)
        · exact Or.inr (Or.inr (Or.inl h))
        · exact Or.inl h
        · exact Or.inr (Or.inl h)
        · exact Or.inr (Or.inr (Or.inr h))

theorem insertTop_eq_insertLeaf (enc : α → α → Bool) (x : α) :
    ∀ f : Forest α, insertTop enc enc x f = insertLeaf enc x f := by
  intro f
  induction f with
  | nil => rfl
  | node y kids sibs _ ihs => simp only [insertTop, insertLeaf, ihs]

/-- Inserting a leaf does not change the ancestor relation among the old nodes. -/
theorem isAnc_insertLeaf_old (enc : α → α → Bool) (x : α) {a b : α} (hb : b ≠ x) :
    ∀ f : Forest α, IsAnc a b (insertLeaf enc x f) ↔ IsAnc a b f := by
  intro f
  induction f with
  | nil =>
    simp only [insertLeaf, IsAnc, nodes, List.not_mem_nil, and_false, or_self]
  | node y kids sibs ihk ihs =>
    simp only [insertLeaf]
    split
    · simp only [IsAnc, ihk, mem_nodes_insertLeaf]
      constructor
      · rintro (⟨h1, h2 | h2⟩ | h | h)
        · exact absurd h2 hb
        · exact Or.inl ⟨h1, h2⟩
        · exact Or.inr (Or.inl h)
        · exact Or.inr (Or.inr h)
      · rintro (⟨h1, h2⟩ | h | h)
        · exact Or.inl ⟨h1, Or.inr h2⟩
        · exact Or.inr (Or.inl h)
        · exact Or.inr (Or.inr h)
    · simp only [IsAnc, ihs]

/-- The new leaf is nobody's ancestor. -/
theorem isAnc_insertLeaf_new_left (enc : α → α → Bool) (x : α) (b : α) :
    ∀ f : Forest α, x ∉ nodes f → ¬ IsAnc x b (insertLeaf enc x f) := by
  intro f
  induction f with
  | nil => intro _ h; simp [insertLeaf, IsAnc, nodes] at h
  | node y kids sibs ihk ihs =>
    intro hx
    simp only [nodes, List.mem_cons, List.mem_append, not_or] at hx
    obtain ⟨hxy, hxk, hxs⟩ := hx
    simp only [insertLeaf]
    split
    · simp only [IsAnc]
      rintro (⟨h1, _⟩ | h | h)
      · exact hxy h1.symm
      · exact ihk hxk h
      · exact hxs h.mem.1
    · simp only [IsAnc]
      rintro (⟨h1, _⟩ | h | h)
      · exact hxy h1.symm
      · exact hxk h.mem.1
      · exact ihs hxs h

/-- Well-nestedness of a (sub-)forest with respect to `enc`. -/
def WellNested (enc : α → α → Bool) (f : Forest α) : Prop :=
  ∀ a ∈ nodes f, ∀ b ∈ nodes f, IsAnc a b f ↔ enc a b = true

theorem nodup_parts {y : α} {kids sibs : Forest α} (h : (nodes (node y kids sibs)).Nodup) :
    y ∉ nodes kids ∧ y ∉ nodes sibs ∧ (nodes kids).Nodup ∧ (nodes sibs).Nodup ∧
      (∀ a ∈ nodes kids, a ∉ nodes sibs) := by
  simp only [nodes, List.nodup_cons, List.mem_append, not_or, List.nodup_append] at h
  obtain ⟨⟨h1, h2⟩, h3, h4, h5⟩ := h
  exact ⟨h1, h2, h3, h4, fun a ha hs => h5 a ha a hs rfl⟩

theorem wellNested_kids {enc : α → α → Bool} {y : α} {kids sibs : Forest α}
    (hnd : (nodes (node y kids sibs)).Nodup) (h : WellNested enc (node y kids sibs)) :
    WellNested enc kids := by
  obtain ⟨h1, h2, _, _, h5⟩ := nodup_parts hnd
  intro a ha b hb
  rw [← h a (by simp [nodes, ha]) b (by simp [nodes, hb])]
  simp only [IsAnc]
  constructor
  · intro h; exact Or.inr (Or.inl h)
  · rintro (⟨h, _⟩ | h | h)
    · exact absurd (h ▸ ha) h1
    · exact h
    · exact absurd h.mem.1 (h5 a ha)

theorem wellNested_sibs {enc : α → α → Bool} {y : α} {kids sibs : Forest α}
    (hnd : (nodes (node y kids sibs)).Nodup) (h : WellNested enc (node y kids sibs)) :
    WellNested enc sibs := by
  obtain ⟨h1, h2, _, _, h5⟩ := nodup_parts hnd
  intro a ha b hb
  rw [← h a (by simp [nodes, ha]) b (by simp [nodes, hb])]
  simp only [IsAnc]
  constructor
  · intro h; exact Or.inr (Or.inr h)
  · rintro (⟨h, _⟩ | h | h)
    · exact absurd (h ▸ ha) h2
    · exact absurd ha (h5 a h.mem.1)
    · exact h

/-- Where the new leaf ends up: its ancestors are exactly the old nodes that enclose it. -/
theorem isAnc_insertLeaf_new (enc : α → α → Bool) (x : α) (U : List α)
    (htrans : ∀ a ∈ U, ∀ b ∈ U, enc a b = true → enc b x = true → enc a x = true)
    (hlam : ∀ a ∈ U, ∀ b ∈ U, enc a x = true → enc b x = true → a = b ∨ enc a b = true ∨ enc b a = true) :
    ∀ f : Forest α, (∀ a ∈ nodes f, a ∈ U) → (nodes f).Nodup → x ∉ nodes f → WellNested enc f →
      ∀ a, IsAnc a x (insertLeaf enc x f) ↔ a ∈ nodes f ∧ enc a x = true := by
  intro f
  induction f with
  | nil => intro _ _ _ _ a; simp [insertLeaf, IsAnc, nodes]
  | node y kids sibs ihk ihs =>
    intro hU hnd hx hw a
    obtain ⟨h1, h2, h3, h4, h5⟩ := nodup_parts hnd
    have hx' := hx
    simp only [nodes, List.mem_cons, List.mem_append, not_or] at hx'
    obtain ⟨hxy, hxk, hxs⟩ := hx'
    have hwk := wellNested_kids hnd hw
    have hws := wellNested_sibs hnd hw
    have hymem : y ∈ nodes (node y kids sibs) := by simp [nodes]
    have hUk : ∀ a ∈ nodes kids, a ∈ U := fun a ha => hU a (by simp [nodes, ha])
    have hUs : ∀ a ∈ nodes sibs, a ∈ U := fun a ha => hU a (by simp [nodes, ha])
    simp only [insertLeaf]
    split
    · rename_i hyx
      simp only [IsAnc, ihk hUk h3 hxk hwk, mem_nodes_insertLeaf, nodes, List.mem_cons, List.mem_append]
      constructor
      · rintro (⟨h, _⟩ | ⟨h, he⟩ | h)
        · exact ⟨Or.inl h.symm, h ▸ hyx⟩
        · exact ⟨Or.inr (Or.inl h), he⟩
        · exact absurd h.mem.2 hxs
      · rintro ⟨h | h | h, he⟩
        · exact Or.inl ⟨h.symm, Or.inl trivial⟩
        · exact Or.inr (Or.inl ⟨h, he⟩)
        · -- a sibling tree cannot enclose x as well as y does
          exfalso
          have hamem : a ∈ nodes (node y kids sibs) := by simp [nodes, h]
          rcases hlam a (hU a hamem) y (hU y hymem) he hyx with h' | h' | h'
          · exact h2 (h' ▸ h)
          · have := (hw a hamem y hymem).mpr h'
            simp only [IsAnc] at this
            rcases this with ⟨_, h''⟩ | h'' | h''
            · exact h1 h''
            · exact h1 h''.mem.2
            · exact h2 h''.mem.2
          · have := (hw y hymem a hamem).mpr h'
            simp only [IsAnc] at this
            rcases this with ⟨_, h''⟩ | h'' | h''
            · exact h5 a h'' h
            · exact h1 h''.mem.1
            · exact h2 h''.mem.1
    · rename_i hyx
      simp only [IsAnc, ihs hUs h4 hxs hws, nodes, List.mem_cons, List.mem_append]
      constructor
      · rintro (⟨_, h⟩ | h | ⟨h, he⟩)
        · exact absurd h hxk
        · exact absurd h.mem.2 hxk
        · exact ⟨Or.inr (Or.inr h), he⟩
      · rintro ⟨h | h | h, he⟩
        · exact absurd (h ▸ he) hyx
        · -- y encloses its descendants, hence (transitivity) x
          exfalso
          have hamem : a ∈ nodes (node y kids sibs) := by simp [nodes, h]
          have : enc y a = true := (hw y hymem a hamem).mp (by simp only [IsAnc]; exact Or.inl ⟨trivial, h⟩)
          exact hyx (htrans y (hU y hymem) a (hU a hamem) this he)
        · exact Or.inr (Or.inr ⟨h, he⟩)

/-- One insertion keeps the forest well nested. -/
theorem wellNested_insertLeaf (enc : α → α → Bool) (x : α) (f : Forest α)
    (hnd : (nodes f).Nodup) (hx : x ∉ nodes f) (hw : WellNested enc f)
    (hirr : enc x x = false) (hlate : ∀ b ∈ nodes f, enc x b = false)
    (htrans : ∀ a ∈ nodes f, ∀ b ∈ nodes f, enc a b = true → enc b x = true → enc a x = true)
    (hlam : ∀ a ∈ nodes f, ∀ b ∈ nodes f, enc a x = true → enc b x = true →
      a = b ∨ enc a b = true ∨ enc b a = true) :
    WellNested enc (insertLeaf enc x f) := by
  intro a ha b hb
  rw [mem_nodes_insertLeaf] at ha hb
  by_cases hbx : b = x
  · subst hbx
    rw [isAnc_insertLeaf_new enc b (nodes f) htrans hlam f (fun _ h => h) hnd hx hw a]
    rcases ha with ha | ha
    · subst ha; simp [hirr, hx]
    · simp [ha]
  · rw [isAnc_insertLeaf_old enc x hbx f]
    have hb' : b ∈ nodes f := hb.resolve_left hbx
    rcases ha with ha | ha
    · subst ha
      constructor
      · intro h; exact absurd h.mem.1 hx
      · intro h; rw [hlate b hb'] at h; cases h
    · exact hw a ha b hb'

theorem nodes_insertLeaf_perm (enc : α → α → Bool) (x : α) :
    ∀ f : Forest α, (nodes (insertLeaf enc x f)).Perm (x :: nodes f) := by
  intro f
  induction f with
  | nil => simp [insertLeaf, nodes]
  | node y kids sibs ihk ihs =>
    simp only [insertLeaf]
    split
    · simp only [nodes]
      refine (List.Perm.cons y (List.Perm.append_right _ ihk)).trans ?_
      simp only [List.cons_append]
      exact List.Perm.swap x y _
    · simp only [nodes]
      refine (List.Perm.cons y (List.Perm.append_left _ ihs)).trans ?_
      refine (List.Perm.cons y (List.perm_middle)).trans ?_
      exact List.Perm.swap x y _

/-- Inserting the components one after the other (enclosing ones first) gives a forest in which
"ancestor" is exactly "encloses". -/
theorem build_wellNested (enc : α → α → Bool) :
    ∀ (xs : List α) (f : Forest α), (nodes f ++ xs).Nodup → WellNested enc f →
      (∀ a ∈ nodes f ++ xs, enc a a = false) →
      (∀ x ∈ xs, ∀ b ∈ nodes f, enc x b = false) →
      xs.Pairwise (fun a b => enc b a = false) →
      (∀ a ∈ nodes f ++ xs, ∀ b ∈ nodes f ++ xs, ∀ c ∈ nodes f ++ xs,
        enc a b = true → enc b c = true → enc a c = true) →
      (∀ a ∈ nodes f ++ xs, ∀ b ∈ nodes f ++ xs, ∀ c ∈ nodes f ++ xs,
        enc a c = true → enc b c = true → a = b ∨ enc a b = true ∨ enc b a = true) →
      WellNested enc (xs.foldl (fun f x => insertLeaf enc x f) f) ∧
        (nodes (xs.foldl (fun f x => insertLeaf enc x f) f)).Perm (nodes f ++ xs) := by
  intro xs
  induction xs with
  | nil => intro f _ hw _ _ _ _ _; simpa using hw
  | cons x xs ih =>
    intro f hnd hw hirr hlate hord htrans hlam
    have hperm := nodes_insertLeaf_perm enc x f
    have hmem : ∀ a, a ∈ nodes (insertLeaf enc x f) ++ xs ↔ a ∈ nodes f ++ x :: xs := by
      intro a
      simp only [List.mem_append, mem_nodes_insertLeaf, List.mem_cons]
      constructor
      · rintro ((h | h) | h)
        · exact Or.inr (Or.inl h)
        · exact Or.inl h
        · exact Or.inr (Or.inr h)
      · rintro (h | h | h)
        · exact Or.inl (Or.inr h)
        · exact Or.inl (Or.inl h)
        · exact Or.inr h
    have hnd0 : (nodes f).Nodup := (List.nodup_append.mp hnd).1
    have hxf : x ∉ nodes f := fun h => (List.nodup_append.mp hnd).2.2 x h x List.mem_cons_self rfl
    have hxmem : x ∈ nodes f ++ x :: xs := by simp
    have hfm : ∀ a ∈ nodes f, a ∈ nodes f ++ x :: xs := fun a h => List.mem_append_left _ h
    have hw' := wellNested_insertLeaf enc x f hnd0 hxf hw (hirr x hxmem)
      (hlate x List.mem_cons_self)
      (fun a ha b hb => htrans a (hfm a ha) b (hfm b hb) x hxmem)
      (fun a ha b hb => hlam a (hfm a ha) b (hfm b hb) x hxmem)
    have hnd' : (nodes (insertLeaf enc x f) ++ xs).Nodup := by
      have : (nodes (insertLeaf enc x f) ++ xs).Perm (nodes f ++ x :: xs) :=
        (List.Perm.append_right xs hperm).trans (by simpa using (List.perm_middle).symm)
      exact this.nodup_iff.mpr hnd
    obtain ⟨r1, r2⟩ := ih (insertLeaf enc x f) hnd' hw'
      (fun a ha => hirr a ((hmem a).mp ha))
      (fun y hy b hb => by
        rcases (mem_nodes_insertLeaf enc x f b).mp hb with h | h
        · subst h; exact (List.pairwise_cons.mp hord).1 y hy
        · exact hlate y (List.mem_cons_of_mem _ hy) b h)
      (List.pairwise_cons.mp hord).2
      (fun a ha b hb c hc => htrans a ((hmem a).mp ha) b ((hmem b).mp hb) c ((hmem c).mp hc))
      (fun a ha b hb c hc => hlam a ((hmem a).mp ha) b ((hmem b).mp hb) c ((hmem c).mp hc))
    refine ⟨r1, ?_⟩
    simp only [List.foldl_cons]
    refine r2.trans ?_
    exact (List.Perm.append_right xs hperm).trans (by simpa using (List.perm_middle).symm)

/-! ## even–odd -/

/-- Number of nodes whose solid contains the point. -/
def cnt (inside : α → Bool) (f : Forest α) : Nat := (nodes f).countP inside

theorem cnt_node (inside : α → Bool) (y : α) (kids sibs : Forest α) :
    cnt inside (node y kids sibs) = (if inside y then 1 else 0) + cnt inside kids + cnt inside sibs := by
  simp only [cnt, nodes, List.countP_cons, List.countP_append]; omega

theorem cnt_pos_iff (inside : α → Bool) (f : Forest α) : 0 < cnt inside f ↔ ∃ a ∈ nodes f, inside a = true := by
  simp [cnt, List.countP_pos_iff]

/-- `MeshHierarchy.Contains` is the parity of the number of nodes containing the point, provided
containment is inherited by ancestors and two nodes containing the point are nested. -/
theorem contains_eq_parity (inside : α → Bool) :
    ∀ f : Forest α, (nodes f).Nodup →
      (∀ a b, IsAnc a b f → inside b = true → inside a = true) →
      (∀ a ∈ nodes f, ∀ b ∈ nodes f, inside a = true → inside b = true → a = b ∨ IsAnc a b f ∨ IsAnc b a f) →
      contains inside f = decide (cnt inside f % 2 = 1) := by
  intro f
  induction f with
  | nil => intro _ _ _; simp [contains, cnt, nodes]
  | node y kids sibs ihk ihs =>
    intro hnd hP1 hP2
    obtain ⟨h1, h2, h3, h4, h5⟩ := nodup_parts hnd
    have hymem : y ∈ nodes (node y kids sibs) := by simp [nodes]
    have hk := ihk h3 (fun a b h => hP1 a b (by simp only [IsAnc]; exact Or.inr (Or.inl h)))
      (fun a ha b hb hia hib => by
        rcases hP2 a (by simp [nodes, ha]) b (by simp [nodes, hb]) hia hib with h | h | h
        · exact Or.inl h
        · simp only [IsAnc] at h
          rcases h with ⟨h, _⟩ | h | h
          · exact absurd (h ▸ ha) h1
          · exact Or.inr (Or.inl h)
          · exact absurd h.mem.1 (h5 a ha)
        · simp only [IsAnc] at h
          rcases h with ⟨h, _⟩ | h | h
          · exact absurd (h ▸ hb) h1
          · exact Or.inr (Or.inr h)
          · exact absurd h.mem.1 (h5 b hb))
    have hs := ihs h4 (fun a b h => hP1 a b (by simp only [IsAnc]; exact Or.inr (Or.inr h)))
      (fun a ha b hb hia hib => by
        rcases hP2 a (by simp [nodes, ha]) b (by simp [nodes, hb]) hia hib with h | h | h
        · exact Or.inl h
        · simp only [IsAnc] at h
          rcases h with ⟨h, _⟩ | h | h
          · exact absurd (h ▸ ha) h2
          · exact absurd ha (h5 a h.mem.1)
          · exact Or.inr (Or.inl h)
        · simp only [IsAnc] at h
          rcases h with ⟨h, _⟩ | h | h
          · exact absurd (h ▸ hb) h2
          · exact absurd hb (h5 b h.mem.1)
          · exact Or.inr (Or.inr h))
    -- (i) a containing descendant forces the root to contain the point
    have hi : 0 < cnt inside kids → inside y = true := by
      intro h
      obtain ⟨b, hb, hib⟩ := (cnt_pos_iff inside kids).mp h
      exact hP1 y b (by simp only [IsAnc]; exact Or.inl ⟨trivial, hb⟩) hib
    -- (ii) then no sibling tree contains it
    have hii : inside y = true → cnt inside sibs = 0 := by
      intro hy
      cases hc : cnt inside sibs with
      | zero => rfl
      | succ k =>
        exfalso
        obtain ⟨b, hb, hib⟩ := (cnt_pos_iff inside sibs).mp (by omega)
        have hbm : b ∈ nodes (node y kids sibs) := by simp [nodes, hb]
        rcases hP2 y hymem b hbm hy hib with h | h | h
        · exact h2 (h ▸ hb)
        · simp only [IsAnc] at h
          rcases h with ⟨_, h⟩ | h | h
          · exact h5 b h hb
          · exact h1 h.mem.1
          · exact h2 h.mem.1
        · simp only [IsAnc] at h
          rcases h with ⟨h, _⟩ | h | h
          · exact h2 (h ▸ hb)
          · exact h1 h.mem.2
          · exact h2 h.mem.2
    rw [cnt_node]
    simp only [contains, hk, hs]
    cases hy : inside y with
    | true =>
      have := hii hy
      simp only [this, if_true, Bool.true_and]
      by_cases hpar : cnt inside kids % 2 = 1
      · simp [hpar]; omega
      · simp [hpar]; omega
    | false =>
      have : cnt inside kids = 0 := by
        cases hc : cnt inside kids with
        | zero => rfl
        | succ k => have := hi (by omega); rw [hy] at this; cases this
      simp [this]

end Forest
end M3d.MeshDiag
