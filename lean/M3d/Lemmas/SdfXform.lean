import M3d.Lemmas.Sdf
import M3d.Lemmas.SdfTri
import Mathlib.Tactic.NormNum
import Mathlib.Tactic.GCongr
/-!
C06 helper lemmas: collider- and transform-derived fields.

* the bisection of `colliderSDF` over a threshold ball query `r ↦ (D ≤ r)` brackets `D`;
* `Translate`, `Scale` (factor `≠ 0`), a distance-preserving matrix and any `JoinedTransform` of them is a
  similarity (`Sim`): squared distances are multiplied by `k²`, `Inverse()` is the inverse map,
  `ApplyDistance d = d k`, `Inverse().ApplyDistance d = d / k`;
* hence `TransformSDF` multiplies the value by `k` and the transformed collider's ball query is the threshold
  query for `k · |SDF(t⁻¹ c)|`.
-/
namespace M3d.Sdf
set_option linter.unusedSectionVars false
set_option linter.unusedVariables false

variable {K : Type} [Field K] [LinearOrder K] [IsStrictOrderedRing K]

/-! ## bisection -/

section bisect
variable (D : K) (coll : K → Bool) (hc : ∀ r, coll r = decide (D ≤ r))
include hc

theorem boundLoop_down : ∀ (fuel : Nat) (l n : K), D ≤ n → 0 < n → n < D * 2 ^ fuel →
    (boundLoop 2 coll true fuel l n).2 < D ∧ D ≤ (boundLoop 2 coll true fuel l n).1 ∧
    (boundLoop 2 coll true fuel l n).1 = 2 * (boundLoop 2 coll true fuel l n).2 ∧
    0 < (boundLoop 2 coll true fuel l n).2 := by
  intro fuel
  induction fuel with
  | zero =>
      intro l n h1 h2 h3
      simp only [pow_zero, mul_one] at h3
      exact absurd h1 (not_le.mpr h3)
  | succ f ih =>
      intro l n h1 h2 h3
      unfold boundLoop
      simp only [if_true, hc]
      by_cases hh : D ≤ n / 2
      · have : (decide (D ≤ n / 2) != true) = false := by simp [hh]
        simp only [this, Bool.false_eq_true, if_false]
        refine ih n (n / 2) hh (by positivity) ?_
        rw [pow_succ] at h3
        have : n / 2 * 2 < D * 2 ^ f * 2 := by linarith
        exact lt_of_mul_lt_mul_right this (by norm_num)
      · have : (decide (D ≤ n / 2) != true) = true := by simp [hh]
        simp only [this, if_true]
        refine ⟨not_le.mp hh, h1, by ring, by positivity⟩

theorem boundLoop_up : ∀ (fuel : Nat) (l n : K), n < D → 0 < n → D ≤ n * 2 ^ fuel →
    (boundLoop 2 coll false fuel l n).1 < D ∧ D ≤ (boundLoop 2 coll false fuel l n).2 ∧
    (boundLoop 2 coll false fuel l n).2 = 2 * (boundLoop 2 coll false fuel l n).1 ∧
    0 < (boundLoop 2 coll false fuel l n).1 := by
  intro fuel
  induction fuel with
  | zero =>
      intro l n h1 h2 h3
      simp only [pow_zero, mul_one] at h3
      exact absurd h3 (not_le.mpr h1)
  | succ f ih =>
      intro l n h1 h2 h3
      unfold boundLoop
      simp only [Bool.false_eq_true, if_false, hc]
      by_cases hh : D ≤ n * 2
      · have : (decide (D ≤ n * 2) != false) = true := by simp [hh]
        simp only [this, if_true]
        exact ⟨h1, hh, by ring, h2⟩
      · have : (decide (D ≤ n * 2) != false) = false := by simp [hh]
        simp only [this, Bool.false_eq_true, if_false]
        refine ih n (n * 2) (not_le.mp hh) (by positivity) ?_
        rw [pow_succ] at h3
        linarith

/-- `boundDistance` finds `lo < D ≤ hi = 2 lo` whenever `2^-iters < D ≤ 2^iters`. -/
theorem boundDistance_spec (iters : Nat) (h1 : 1 < D * 2 ^ iters) (h2 : D ≤ 2 ^ iters) :
    (boundDistance 2 coll iters).1 < D ∧ D ≤ (boundDistance 2 coll iters).2 ∧
    (boundDistance 2 coll iters).2 = 2 * (boundDistance 2 coll iters).1 ∧ 0 < (boundDistance 2 coll iters).1 := by
  unfold boundDistance
  by_cases hD : D ≤ 1
  · have hc1 : coll 1 = true := by rw [hc]; simp [hD]
    obtain ⟨a, b, c, d⟩ := boundLoop_down D coll hc iters 1 1 hD one_pos h1
    rw [hc1]
    have hnot : ¬ (boundLoop 2 coll true iters 1 1).1 < (boundLoop 2 coll true iters 1 1).2 := by
      rw [c]; linarith
    simp only [hnot, if_false]
    exact ⟨a, b, c, d⟩
  · have hc1 : coll 1 = false := by rw [hc]; simp [hD]
    obtain ⟨a, b, c, d⟩ := boundLoop_up D coll hc iters 1 1 (not_le.mp hD) one_pos (by simpa using h2)
    rw [hc1]
    have hlt : (boundLoop 2 coll false iters 1 1).1 < (boundLoop 2 coll false iters 1 1).2 := by
      rw [c]; linarith
    simp only [hlt, if_true]
    exact ⟨a, b, c, d⟩

theorem bisectLoop_spec : ∀ (fuel : Nat) (lo hi : K), lo < D → D ≤ hi →
    (bisectLoop 2 coll fuel lo hi).1 < D ∧ D ≤ (bisectLoop 2 coll fuel lo hi).2 ∧
    lo ≤ (bisectLoop 2 coll fuel lo hi).1 ∧
    ((bisectLoop 2 coll fuel lo hi).2 - (bisectLoop 2 coll fuel lo hi).1) * 2 ^ fuel = hi - lo := by
  intro fuel
  induction fuel with
  | zero => intro lo hi h1 h2; simp only [bisectLoop, pow_zero, mul_one]; exact ⟨h1, h2, le_rfl, trivial⟩
  | succ f ih =>
      intro lo hi h1 h2
      unfold bisectLoop
      simp only [hc]
      by_cases hh : D ≤ (lo + hi) / 2
      · simp only [hh, decide_true, if_true]
        obtain ⟨a, b, c, d⟩ := ih lo ((lo + hi) / 2) h1 hh
        refine ⟨a, b, c, ?_⟩
        rw [pow_succ, ← mul_assoc, d]; ring
      · simp only [hh, decide_false, Bool.false_eq_true, if_false]
        have hlt := not_le.mp hh
        have hlo : lo < hi := lt_of_lt_of_le h1 h2
        obtain ⟨a, b, c, d⟩ := ih ((lo + hi) / 2) hi hlt h2
        refine ⟨a, b, le_trans (by linarith) c, ?_⟩
        rw [pow_succ, ← mul_assoc, d]; ring

/-- **`colliderSDF.SDF` brackets the threshold of the ball query**: when `SphereCollision(c, r) ⇔ D ≤ r` and
`2^-Iterations < D ≤ 2^Iterations`, the result is `± res` (sign from `Contains`) with `res > 0` and
`|res - D| < D / 2^(Iterations+1)`. -/
theorem colliderSDF_brackets (contains : Bool) (iters : Nat) (h1 : 1 < D * 2 ^ iters) (h2 : D ≤ 2 ^ iters) :
    ∃ res : K, 0 < res ∧ |res - D| * 2 ^ (iters + 1) < D ∧
      colliderSDF 2 coll contains iters = if contains then res else -res := by
  obtain ⟨b1, b2, b3, b4⟩ := boundDistance_spec D coll hc iters h1 h2
  obtain ⟨r1, r2, r3, r4⟩ := bisectLoop_spec D coll hc iters _ _ b1 b2
  set b := boundDistance 2 coll iters with hb
  set r := bisectLoop 2 coll iters b.1 b.2 with hr
  refine ⟨(r.1 + r.2) / 2, ?_, ?_, ?_⟩
  · have : 0 < r.1 := lt_of_lt_of_le b4 r3
    have : 0 < r.2 := lt_of_lt_of_le (lt_trans this r1) r2
    positivity
  · have hw : (r.2 - r.1) * 2 ^ iters < D := by rw [r4, b3]; linarith
    have habs : |(r.1 + r.2) / 2 - D| ≤ (r.2 - r.1) / 2 := by
      rw [abs_le]; constructor <;> linarith
    have hp : (0 : K) < 2 ^ (iters + 1) := by positivity
    calc |(r.1 + r.2) / 2 - D| * 2 ^ (iters + 1) ≤ (r.2 - r.1) / 2 * 2 ^ (iters + 1) :=
          mul_le_mul_of_nonneg_right habs hp.le
      _ = (r.2 - r.1) * 2 ^ iters := by rw [pow_succ]; ring
      _ < D := hw
  · unfold colliderSDF
    simp only [← hb, ← hr]
    split_ifs <;> ring

end bisect

/-! ## similarities -/

/-- `f` is a similarity of factor `k > 0` with inverse `g`; `df`/`dg` are the `ApplyDistance` of `f`/`g`. -/
structure Sim {V : Type} (sq : V → V → K) (f g : V → V) (df dg : K → K) (k : K) : Prop where
  kpos : 0 < k
  sq_map : ∀ a b, sq (f a) (f b) = k * k * sq a b
  fg : ∀ c, f (g c) = c
  gf : ∀ c, g (f c) = c
  df_eq : ∀ d, df d = d * k
  dg_eq : ∀ d, dg d = d / k

theorem Sim.comp {V : Type} {sq : V → V → K} {f1 g1 f2 g2 : V → V} {df1 dg1 df2 dg2 : K → K} {k1 k2 : K}
    (h1 : Sim sq f1 g1 df1 dg1 k1) (h2 : Sim sq f2 g2 df2 dg2 k2) :
    Sim sq (fun c => f2 (f1 c)) (fun c => g1 (g2 c)) (fun d => df2 (df1 d)) (fun d => dg1 (dg2 d)) (k1 * k2) where
  kpos := mul_pos h1.kpos h2.kpos
  sq_map a b := by rw [h2.sq_map, h1.sq_map]; ring
  fg c := by simp only [h1.fg, h2.fg]
  gf c := by simp only [h1.gf, h2.gf]
  df_eq d := by rw [h2.df_eq, h1.df_eq]; ring
  dg_eq d := by
    rw [h1.dg_eq, h2.dg_eq]
    have := h1.kpos.ne'; have := h2.kpos.ne'
    field_simp

/-- the factor of a chain -/
def chainFac {T : Type} (fac : T → K) : List T → K
  | [] => 1
  | t :: ts => fac t * chainFac fac ts

theorem sim_chain {T V : Type} (sq : V → V → K) (ap : T → V → V) (ad : T → K → K) (inv : T → T) (fac : T → K) :
    ∀ ts : List T, (∀ t ∈ ts, Sim sq (ap t) (ap (inv t)) (ad t) (ad (inv t)) (fac t)) →
    Sim sq (fun c => ts.foldl (fun c t => ap t c) c) (fun c => (ts.reverse.map inv).foldl (fun c t => ap t c) c)
      (fun d => ts.foldl (fun d t => ad t d) d) (fun d => (ts.reverse.map inv).foldl (fun d t => ad t d) d)
      (chainFac fac ts) := by
  intro ts
  induction ts with
  | nil =>
      intro _
      exact ⟨one_pos, fun a b => by simp [chainFac], fun c => rfl, fun c => rfl, fun d => by simp [chainFac],
        fun d => by simp [chainFac]⟩
  | cons t ts ih =>
      intro h
      have ht := h t (List.mem_cons_self)
      have hts := ih (fun u hu => h u (List.mem_cons_of_mem _ hu))
      have := Sim.comp ht hts
      simp only [List.foldl_cons, List.reverse_cons, List.map_append, List.map_cons, List.map_nil,
        List.foldl_append, List.foldl_nil, chainFac]
      exact this

/-- **nearest points are mapped to nearest points, distances are multiplied by `k`.** -/
theorem Sim.nearest {V : Type} {sq : V → V → K} {f g : V → V} {df dg : K → K} {k : K}
    (h : Sim sq f g df dg k) (q p : V) : sq q (f p) = k * k * sq (g q) p := by
  conv_lhs => rw [← h.fg q]
  exact h.sq_map _ _

/-! ### the members -/

theorem V3.sqDist_eq_zero {a b : V3 K} (h : a.sqDist b = 0) : a = b := by
  unfold V3.sqDist at h
  have hx : (a.x - b.x) * (a.x - b.x) = 0 := by nlinarith [mul_self_nonneg (a.x - b.x), mul_self_nonneg (a.y - b.y), mul_self_nonneg (a.z - b.z)]
  have hy : (a.y - b.y) * (a.y - b.y) = 0 := by nlinarith [mul_self_nonneg (a.x - b.x), mul_self_nonneg (a.y - b.y), mul_self_nonneg (a.z - b.z)]
  have hz : (a.z - b.z) * (a.z - b.z) = 0 := by nlinarith [mul_self_nonneg (a.x - b.x), mul_self_nonneg (a.y - b.y), mul_self_nonneg (a.z - b.z)]
  ext
  · exact sub_eq_zero.mp (mul_self_eq_zero.mp hx)
  · exact sub_eq_zero.mp (mul_self_eq_zero.mp hy)
  · exact sub_eq_zero.mp (mul_self_eq_zero.mp hz)

theorem V2.sqDist_eq_zero {a b : V2 K} (h : a.sqDist b = 0) : a = b := by
  unfold V2.sqDist at h
  have hx : (a.x - b.x) * (a.x - b.x) = 0 := by nlinarith [mul_self_nonneg (a.x - b.x), mul_self_nonneg (a.y - b.y)]
  have hy : (a.y - b.y) * (a.y - b.y) = 0 := by nlinarith [mul_self_nonneg (a.x - b.x), mul_self_nonneg (a.y - b.y)]
  ext
  · exact sub_eq_zero.mp (mul_self_eq_zero.mp hx)
  · exact sub_eq_zero.mp (mul_self_eq_zero.mp hy)

theorem absS_one_div (k : K) : absS (1 / k) = 1 / absS k := by
  rw [absS_eq, absS_eq, abs_div, abs_one]

/-- columns of `m` orthonormal (`mᵀ m = 1`) -/
def M3.Ortho (m : M3 K) : Prop :=
  m.m0 * m.m0 + m.m3 * m.m3 + m.m6 * m.m6 = 1 ∧ m.m1 * m.m1 + m.m4 * m.m4 + m.m7 * m.m7 = 1 ∧
  m.m2 * m.m2 + m.m5 * m.m5 + m.m8 * m.m8 = 1 ∧ m.m0 * m.m1 + m.m3 * m.m4 + m.m6 * m.m7 = 0 ∧
  m.m0 * m.m2 + m.m3 * m.m5 + m.m6 * m.m8 = 0 ∧ m.m1 * m.m2 + m.m4 * m.m5 + m.m7 * m.m8 = 0

def M2.det (m : M2 K) : K := m.m0 * m.m3 - m.m1 * m.m2

def M2.Ortho (m : M2 K) : Prop :=
  m.m0 * m.m0 + m.m2 * m.m2 = 1 ∧ m.m1 * m.m1 + m.m3 * m.m3 = 1 ∧ m.m0 * m.m1 + m.m2 * m.m3 = 0

theorem M3.Ortho.sqDist {m : M3 K} (h : m.Ortho) (a b : V3 K) :
    (m.mulColumn a).sqDist (m.mulColumn b) = a.sqDist b := by
  obtain ⟨h1, h2, h3, h4, h5, h6⟩ := h
  simp only [M3.mulColumn, V3.sqDist]
  linear_combination ((a.x - b.x) * (a.x - b.x)) * h1 + ((a.y - b.y) * (a.y - b.y)) * h2 +
    ((a.z - b.z) * (a.z - b.z)) * h3 + (2 * (a.x - b.x) * (a.y - b.y)) * h4 +
    (2 * (a.x - b.x) * (a.z - b.z)) * h5 + (2 * (a.y - b.y) * (a.z - b.z)) * h6

theorem M2.Ortho.sqDist {m : M2 K} (h : m.Ortho) (a b : V2 K) :
    (m.mulColumn a).sqDist (m.mulColumn b) = a.sqDist b := by
  obtain ⟨h1, h2, h3⟩ := h
  simp only [M2.mulColumn, V2.sqDist]
  linear_combination ((a.x - b.x) * (a.x - b.x)) * h1 + ((a.y - b.y) * (a.y - b.y)) * h2 +
    (2 * (a.x - b.x) * (a.y - b.y)) * h3

theorem M2.mulColumn_inverse (m : M2 K) (h : m.det ≠ 0) (w : V2 K) :
    m.mulColumn (m.inverse.mulColumn w) = w := by
  unfold M2.det at h
  have hs : (m.m0 * m.m3 - m.m1 * m.m2) * (1 / (m.m0 * m.m3 - m.m1 * m.m2)) = 1 := by field_simp
  simp only [M2.inverse, M2.mulColumn]
  generalize 1 / (m.m0 * m.m3 - m.m1 * m.m2) = s at *
  ext <;> simp only
  · linear_combination w.x * hs
  · linear_combination w.y * hs

/-- what the similarity theorems need of a matrix member (a `Rotation`): it preserves distances and
`Matrix.Inverse()` inverts it.  `M3.good_of_ortho`: true for every invertible matrix with orthonormal columns. -/
def M3.Good (m : M3 K) : Prop :=
  (∀ a b, (m.mulColumn a).sqDist (m.mulColumn b) = a.sqDist b) ∧
  (∀ c, m.mulColumn (m.inverse.mulColumn c) = c) ∧ (∀ c, m.inverse.mulColumn (m.mulColumn c) = c)

def M2.Good (m : M2 K) : Prop :=
  (∀ a b, (m.mulColumn a).sqDist (m.mulColumn b) = a.sqDist b) ∧
  (∀ c, m.mulColumn (m.inverse.mulColumn c) = c) ∧ (∀ c, m.inverse.mulColumn (m.mulColumn c) = c)

theorem M3.good_of_ortho (m : M3 K) (hd : m.det ≠ 0) (ho : m.Ortho) : m.Good := by
  refine ⟨ho.sqDist, M3.mulColumn_inverse m hd, fun c => ?_⟩
  apply V3.sqDist_eq_zero
  rw [← ho.sqDist, M3.mulColumn_inverse m hd]
  unfold V3.sqDist; ring

theorem M2.good_of_ortho (m : M2 K) (hd : m.det ≠ 0) (ho : m.Ortho) : m.Good := by
  refine ⟨ho.sqDist, M2.mulColumn_inverse m hd, fun c => ?_⟩
  apply V2.sqDist_eq_zero
  rw [← ho.sqDist, M2.mulColumn_inverse m hd]
  unfold V2.sqDist; ring

/-- the member is a distance-scaling transform: a `Scale` has a non-zero factor, a matrix is `Good` -/
def Xf3.Good : Xf3 K → Prop
  | .translate _ => True
  | .scale k => k ≠ 0
  | .rot m => m.Good
def Xf2.Good : Xf2 K → Prop
  | .translate _ => True
  | .scale k => k ≠ 0
  | .rot m => m.Good

/-- the factor by which the member multiplies distances -/
def Xf3.factor : Xf3 K → K
  | .scale k => |k|
  | _ => 1
def Xf2.factor : Xf2 K → K
  | .scale k => |k|
  | _ => 1

theorem Xf3.sim (t : Xf3 K) (h : t.Good) :
    Sim V3.sqDist t.apply t.inverse.apply t.applyDistance t.inverse.applyDistance t.factor := by
  cases t with
  | translate o =>
      refine ⟨one_pos, fun a b => ?_, fun c => ?_, fun c => ?_, fun d => ?_, fun d => ?_⟩
      · simp only [Xf3.apply, V3.add, V3.sqDist, Xf3.factor]; ring
      · simp only [Xf3.apply, Xf3.inverse, V3.add, V3.scale]; ext <;> simp
      · simp only [Xf3.apply, Xf3.inverse, V3.add, V3.scale]; ext <;> simp
      · simp [Xf3.applyDistance, Xf3.factor]
      · simp [Xf3.applyDistance, Xf3.inverse, Xf3.factor]
  | scale k =>
      have hk : k ≠ 0 := h
      refine ⟨abs_pos.mpr hk, fun a b => ?_, fun c => ?_, fun c => ?_, fun d => ?_, fun d => ?_⟩
      · simp only [Xf3.apply, V3.scale, V3.sqDist, Xf3.factor, abs_mul_abs_self]; ring
      · simp only [Xf3.apply, Xf3.inverse, V3.scale]; ext <;> simp only <;> field_simp
      · simp only [Xf3.apply, Xf3.inverse, V3.scale]; ext <;> simp only <;> field_simp
      · simp only [Xf3.applyDistance, Xf3.factor, absS_eq]
      · simp only [Xf3.applyDistance, Xf3.inverse, Xf3.factor]; rw [absS_one_div, absS_eq]; ring
  | rot m =>
      obtain ⟨h1, h2, h3⟩ : m.Good := h
      refine ⟨one_pos, fun a b => ?_, h2, h3, fun d => ?_, fun d => ?_⟩
      · simp only [Xf3.apply, Xf3.factor, h1]; ring
      · simp [Xf3.applyDistance, Xf3.factor]
      · simp [Xf3.applyDistance, Xf3.inverse, Xf3.factor]

theorem Xf2.sim (t : Xf2 K) (h : t.Good) :
    Sim V2.sqDist t.apply t.inverse.apply t.applyDistance t.inverse.applyDistance t.factor := by
  cases t with
  | translate o =>
      refine ⟨one_pos, fun a b => ?_, fun c => ?_, fun c => ?_, fun d => ?_, fun d => ?_⟩
      · simp only [Xf2.apply, V2.add, V2.sqDist, Xf2.factor]; ring
      · simp only [Xf2.apply, Xf2.inverse, V2.add, V2.scale]; ext <;> simp
      · simp only [Xf2.apply, Xf2.inverse, V2.add, V2.scale]; ext <;> simp
      · simp [Xf2.applyDistance, Xf2.factor]
      · simp [Xf2.applyDistance, Xf2.inverse, Xf2.factor]
  | scale k =>
      have hk : k ≠ 0 := h
      refine ⟨abs_pos.mpr hk, fun a b => ?_, fun c => ?_, fun c => ?_, fun d => ?_, fun d => ?_⟩
      · simp only [Xf2.apply, V2.scale, V2.sqDist, Xf2.factor, abs_mul_abs_self]; ring
      · simp only [Xf2.apply, Xf2.inverse, V2.scale]; ext <;> simp only <;> field_simp
      · simp only [Xf2.apply, Xf2.inverse, V2.scale]; ext <;> simp only <;> field_simp
      · simp only [Xf2.applyDistance, Xf2.factor, absS_eq]
      · simp only [Xf2.applyDistance, Xf2.inverse, Xf2.factor]; rw [absS_one_div, absS_eq]; ring
  | rot m =>
      obtain ⟨h1, h2, h3⟩ : m.Good := h
      refine ⟨one_pos, fun a b => ?_, h2, h3, fun d => ?_, fun d => ?_⟩
      · simp only [Xf2.apply, Xf2.factor, h1]; ring
      · simp [Xf2.applyDistance, Xf2.factor]
      · simp [Xf2.applyDistance, Xf2.inverse, Xf2.factor]

/-- the factor of a `JoinedTransform` -/
def xfFactor3 (ts : List (Xf3 K)) : K := chainFac Xf3.factor ts
def xfFactor2 (ts : List (Xf2 K)) : K := chainFac Xf2.factor ts

/-- **a `JoinedTransform` of translations, non-zero scalings and rotations is a similarity** and
`JoinedTransform.Inverse()` is its inverse. -/
theorem xf3_sim (ts : List (Xf3 K)) (h : ∀ t ∈ ts, t.Good) :
    Sim V3.sqDist (xfApply3 ts) (xfApply3 (xfInverse3 ts)) (xfDist3 ts) (xfDist3 (xfInverse3 ts)) (xfFactor3 ts) :=
  sim_chain V3.sqDist Xf3.apply Xf3.applyDistance Xf3.inverse Xf3.factor ts (fun t ht => t.sim (h t ht))

theorem xf2_sim (ts : List (Xf2 K)) (h : ∀ t ∈ ts, t.Good) :
    Sim V2.sqDist (xfApply2 ts) (xfApply2 (xfInverse2 ts)) (xfDist2 ts) (xfDist2 (xfInverse2 ts)) (xfFactor2 ts) :=
  sim_chain V2.sqDist Xf2.apply Xf2.applyDistance Xf2.inverse Xf2.factor ts (fun t ht => t.sim (h t ht))

/-- the transformed collider's ball query is the threshold query for `k · |s|` -/
theorem xfBallQuery_threshold {dg : K → K} {k : K} (hk : 0 < k) (hdg : ∀ d, dg d = d / k) (s r : K) :
    xfBallQuery dg s r = decide (k * |s| ≤ r) := by
  unfold xfBallQuery
  rw [absS_eq, hdg]
  have : (|s| ≤ r / k) ↔ (k * |s| ≤ r) := by rw [le_div_iff₀ hk, mul_comm]
  simp only [this]

end M3d.Sdf
