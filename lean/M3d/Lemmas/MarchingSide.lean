import M3d.Model.MarchingSide
import Mathlib.Tactic.Ring
/-!
# Lifting the per-row table facts to the whole lattice

`rowWellFormed` (C01, kernel-decided over the regenerated 256-row table) says: inside one cell,
every triangle corner is a cube edge with differently labelled ends and every such cube edge is
used.  Here this is lifted to the whole-lattice mesh `mcMesh`: the set of mesh vertices is exactly
the set of midpoints of lattice edges whose two ends are labelled differently; and along every
lattice line the parity of the number of vertices passed equals the label.  Same for `msMesh`.

The lift is parametric in the table: it uses only `rowWellFormed` for every configuration.
-/
namespace M3d.Marching

/-! ### configuration bits -/

def cfgB (b0 b1 b2 b3 b4 b5 b6 b7 : Bool) : Nat :=
  (if b0 then 1 else 0) + (if b1 then 2 else 0) + (if b2 then 4 else 0) + (if b3 then 8 else 0) +
  (if b4 then 16 else 0) + (if b5 then 32 else 0) + (if b6 then 64 else 0) + (if b7 then 128 else 0)

def pick (b0 b1 b2 b3 b4 b5 b6 b7 : Bool) (c : Nat) : Bool :=
  match c with | 0 => b0 | 1 => b1 | 2 => b2 | 3 => b3 | 4 => b4 | 5 => b5 | 6 => b6 | _ => b7

theorem cfgB_spec : ∀ b0 b1 b2 b3 b4 b5 b6 b7 : Bool,
    cfgB b0 b1 b2 b3 b4 b5 b6 b7 < 256 ∧
    (List.range 8).all (fun c => inside (cfgB b0 b1 b2 b3 b4 b5 b6 b7) c == pick b0 b1 b2 b3 b4 b5 b6 b7 c) = true := by
  decide +kernel

theorem cfgOf8_eq (g : Nat → Bool) : cfgOf 8 g = cfgB (g 0) (g 1) (g 2) (g 3) (g 4) (g 5) (g 6) (g 7) := by
  have hr : List.range 8 = [0,1,2,3,4,5,6,7] := by decide
  unfold cfgOf cfgB
  rw [hr]
  simp only [List.foldl_cons, List.foldl_nil]
  cases g 0 <;> cases g 1 <;> cases g 2 <;> cases g 3 <;> cases g 4 <;> cases g 5 <;> cases g 6 <;> cases g 7 <;> rfl

theorem cfgOf8_spec (g : Nat → Bool) : cfgOf 8 g < 256 ∧ ∀ c, c < 8 → inside (cfgOf 8 g) c = g c := by
  rw [cfgOf8_eq]
  have h := cfgB_spec (g 0) (g 1) (g 2) (g 3) (g 4) (g 5) (g 6) (g 7)
  refine ⟨h.1, ?_⟩
  intro c hc
  have := List.all_eq_true.1 h.2 c (List.mem_range.2 hc)
  rw [beq_iff_eq] at this
  rw [this]
  match c, hc with
  | 0, _ => rfl | 1, _ => rfl | 2, _ => rfl | 3, _ => rfl | 4, _ => rfl | 5, _ => rfl | 6, _ => rfl | 7, _ => rfl
  | n + 8, hc => omega

theorem cfgOf4_spec (g : Nat → Bool) : cfgOf 4 g < 16 ∧ ∀ c, c < 4 → inside (cfgOf 4 g) c = g c := by
  have hr : List.range 4 = [0,1,2,3] := by decide
  have key : ∀ b0 b1 b2 b3 : Bool,
      let n := (if b0 then 1 else 0) + (if b1 then 2 else 0) + (if b2 then 4 else 0) + (if b3 then 8 else 0)
      n < 16 ∧ inside n 0 = b0 ∧ inside n 1 = b1 ∧ inside n 2 = b2 ∧ inside n 3 = b3 := by decide
  have he : cfgOf 4 g = (if g 0 then 1 else 0) + (if g 1 then 2 else 0) + (if g 2 then 4 else 0) + (if g 3 then 8 else 0) := by
    unfold cfgOf; rw [hr]; simp only [List.foldl_cons, List.foldl_nil]
    cases g 0 <;> cases g 1 <;> cases g 2 <;> cases g 3 <;> rfl
  rw [he]
  have h := key (g 0) (g 1) (g 2) (g 3)
  refine ⟨h.1, ?_⟩
  intro c hc
  match c, hc with
  | 0, _ => exact h.2.1 | 1, _ => exact h.2.2.1 | 2, _ => exact h.2.2.2.1 | 3, _ => exact h.2.2.2.2
  | n + 4, hc => omega

/-- Label of corner `c` of cell `(x,y,z)`. -/
def cornerLab (lab : Nat → Nat → Nat → Bool) (x y z c : Nat) : Bool :=
  lab (x + cornerOff c 0) (y + cornerOff c 1) (z + cornerOff c 2)

theorem cellCfg_spec (lab : Nat → Nat → Nat → Bool) (x y z : Nat) :
    cellCfg lab x y z < 256 ∧ ∀ c, c < 8 → inside (cellCfg lab x y z) c = cornerLab lab x y z c :=
  cfgOf8_spec (fun c => lab (x + cornerOff c 0) (y + cornerOff c 1) (z + cornerOff c 2))

def cornerLab2 (lab : Nat → Nat → Bool) (x y c : Nat) : Bool := lab (x + cornerOff c 0) (y + cornerOff c 1)

theorem cellCfg2_spec (lab : Nat → Nat → Bool) (x y : Nat) :
    cellCfg2 lab x y < 16 ∧ ∀ c, c < 4 → inside (cellCfg2 lab x y) c = cornerLab2 lab x y c :=
  cfgOf4_spec (fun c => lab (x + cornerOff c 0) (y + cornerOff c 1))

theorem cornerOff_le (c k : Nat) : cornerOff c k ≤ 1 := by
  unfold cornerOff bit; omega

/-! ### cube edges -/

theorem cubeEdgeFacts_all : ∀ a, a < 8 → ∀ b, b < 8 → cubeEdgeFacts a b = true := by
  have h : (List.range 8).all (fun a => (List.range 8).all fun b => cubeEdgeFacts a b) = true := by decide +kernel
  intro a ha b hb
  exact List.all_eq_true.1 (List.all_eq_true.1 h a (List.mem_range.2 ha)) b (List.mem_range.2 hb)

theorem isCubeEdge_lt (a b : Nat) (h : isCubeEdge a b = true) : a < 8 ∧ b < 8 := by
  unfold isCubeEdge at h
  simp only [Bool.and_eq_true, decide_eq_true_eq] at h
  exact ⟨h.1.1, h.1.2⟩

/-- The lattice data of a cube edge `(a, b)` of cell `(x, y, z)`. -/
theorem cube_edge_lattice (lab : Nat → Nat → Nat → Bool) (x y z a b : Nat) (he : isCubeEdge a b = true)
    (hs : signChange (cellCfg lab x y z) (a, b) = true) :
    ∃ p k, k < 3 ∧ gvOf x y z a b = edgeVertex p k ∧
      (x ≤ p.1 ∧ p.1 ≤ x + 1 ∧ y ≤ p.2.1 ∧ p.2.1 ≤ y + 1 ∧ z ≤ p.2.2 ∧ p.2.2 ≤ z + 1) ∧
      ((step3 p k).1 ≤ x + 1 ∧ (step3 p k).2.1 ≤ y + 1 ∧ (step3 p k).2.2 ≤ z + 1) ∧
      lab p.1 p.2.1 p.2.2 ≠ lab (step3 p k).1 (step3 p k).2.1 (step3 p k).2.2 := by
  obtain ⟨ha, hb⟩ := isCubeEdge_lt a b he
  have hf := cubeEdgeFacts_all a ha b hb
  unfold cubeEdgeFacts at hf
  rw [he] at hf
  simp only [Bool.not_true, Bool.false_or, Bool.and_eq_true, decide_eq_true_eq, beq_iff_eq] at hf
  obtain ⟨⟨⟨hc8, hd8⟩, hck⟩, hall⟩ := hf
  have hj : ∀ j, j < 3 →
      cornerOff a j + cornerOff b j = 2 * cornerOff (min a b) j + unit (if (a ^^^ b) == 1 then 0 else if (a ^^^ b) == 2 then 1 else 2) j ∧
      cornerOff (max a b) j = cornerOff (min a b) j + unit (if (a ^^^ b) == 1 then 0 else if (a ^^^ b) == 2 then 1 else 2) j := by
    intro j hj
    have := List.all_eq_true.1 hall j (List.mem_range.2 hj)
    simpa only [Bool.and_eq_true, beq_iff_eq] using this
  generalize hk : (if (a ^^^ b) == 1 then 0 else if (a ^^^ b) == 2 then 1 else 2) = k at hj hck
  have hk3 : k < 3 := by rw [← hk]; split <;> [decide; (split <;> decide)]
  have h0 := hj 0 (by decide); have h1 := hj 1 (by decide); have h2 := hj 2 (by decide)
  have l0 := cornerOff_le (min a b) 0; have l1 := cornerOff_le (min a b) 1; have l2 := cornerOff_le (min a b) 2
  have m0 := cornerOff_le (max a b) 0; have m1 := cornerOff_le (max a b) 1; have m2 := cornerOff_le (max a b) 2
  refine ⟨(x + cornerOff (min a b) 0, y + cornerOff (min a b) 1, z + cornerOff (min a b) 2), k, hk3, ?_, ?_, ?_, ?_⟩
  · simp only [gvOf, edgeVertex, Prod.mk.injEq]; omega
  · simp only; omega
  · simp only [step3]; omega
  · simp only [step3, Nat.add_assoc]
    rw [← h0.2, ← h1.2, ← h2.2]
    have sp := cellCfg_spec lab x y z
    unfold signChange at hs
    simp only [bne_iff_ne, ne_eq] at hs
    rw [sp.2 a ha, sp.2 b hb] at hs
    unfold cornerLab at hs
    rcases Nat.le_total a b with hab | hab
    · rw [Nat.min_eq_left hab, Nat.max_eq_right hab]; exact hs
    · rw [Nat.min_eq_right hab, Nat.max_eq_left hab]; exact fun h => hs h.symm

/-- What `rowWellFormed` says about one 6-entry row element. -/
theorem row_elem_facts (cfg : Nat) (row : List (List Nat)) (hw : rowWellFormed cfg row = true)
    (a0 a1 b0 b1 c0 c1 : Nat) (hr : [a0, a1, b0, b1, c0, c1] ∈ row) :
    (isCubeEdge a0 a1 = true ∧ signChange cfg (a0, a1) = true) ∧
    (isCubeEdge b0 b1 = true ∧ signChange cfg (b0, b1) = true) ∧
    (isCubeEdge c0 c1 = true ∧ signChange cfg (c0, c1) = true) := by
  unfold rowWellFormed at hw
  rw [Bool.and_eq_true] at hw
  have h := List.all_eq_true.1 hw.1 _ hr
  simp only [Bool.and_eq_true] at h
  obtain ⟨⟨⟨⟨⟨⟨⟨⟨h1, h2⟩, h3⟩, h4⟩, h5⟩, h6⟩, _⟩, _⟩, _⟩ := h
  exact ⟨⟨h1, h4⟩, ⟨h2, h5⟩, ⟨h3, h6⟩⟩

/-- **Every mesh vertex sits on a lattice edge whose two ends are labelled differently** (whole
lattice, any table whose rows are well formed). -/
theorem mcMesh_vertex_on_sign_change (table : List (List (List Nat)))
    (hwf : ∀ cfg, cfg < 256 → rowWellFormed cfg (getRow table cfg) = true)
    (nx ny nz : Nat) (lab : Nat → Nat → Nat → Bool) (v : GV)
    (hv : v ∈ meshVerts (mcMesh table nx ny nz lab)) :
    ∃ p k, k < 3 ∧ v = edgeVertex p k ∧ inBox3 nx ny nz p ∧ inBox3 nx ny nz (step3 p k) ∧
      lab p.1 p.2.1 p.2.2 ≠ lab (step3 p k).1 (step3 p k).2.1 (step3 p k).2.2 := by
  simp only [meshVerts, mcMesh, List.mem_flatMap, List.mem_range, List.mem_filterMap] at hv
  obtain ⟨t, ⟨z, hz, y, hy, x, hx, r, hr, hrt⟩, hvt⟩ := hv
  have hw := hwf _ (cellCfg_spec lab x y z).1
  split at hrt
  · rename_i a0 a1 b0 b1 c0 c1
    have hf := row_elem_facts _ _ hw a0 a1 b0 b1 c0 c1 hr
    simp only [Option.some.injEq] at hrt
    subst hrt
    simp only [List.mem_cons, List.not_mem_nil, or_false] at hvt
    have fin : ∀ a b, isCubeEdge a b = true → signChange (cellCfg lab x y z) (a, b) = true → v = gvOf x y z a b →
        ∃ p k, k < 3 ∧ v = edgeVertex p k ∧ inBox3 nx ny nz p ∧ inBox3 nx ny nz (step3 p k) ∧
          lab p.1 p.2.1 p.2.2 ≠ lab (step3 p k).1 (step3 p k).2.1 (step3 p k).2.2 := by
      intro a b he hs hv
      obtain ⟨p, k, hk, hg, hp, hq, hne⟩ := cube_edge_lattice lab x y z a b he hs
      refine ⟨p, k, hk, hv.trans hg, ?_, ?_, hne⟩
      · unfold inBox3; omega
      · unfold inBox3; omega
    rcases hvt with h | h | h
    · exact fin _ _ hf.1.1 hf.1.2 h
    · exact fin _ _ hf.2.1.1 hf.2.1.2 h
    · exact fin _ _ hf.2.2.1 hf.2.2.2 h
  · cases hrt

/-! ### the converse: every sign-changing lattice edge carries a vertex -/

/-- For a cell corner with offsets `(o0,o1,o2)` and an axis `k` with `o_k = 0`: the cube edge. -/
def offsetFacts (o0 o1 o2 k : Nat) : Bool :=
  let c := cornerOfOffsets o0 o1 o2
  let d := c + 2 ^ k
  cubeEdges.contains (c, d) && c < 8 && d < 8 &&
  cornerOff c 0 == o0 && cornerOff c 1 == o1 && cornerOff c 2 == o2 &&
  cornerOff d 0 == o0 + unit k 0 && cornerOff d 1 == o1 + unit k 1 && cornerOff d 2 == o2 + unit k 2

theorem offsetFacts_all : ∀ o0, o0 < 2 → ∀ o1, o1 < 2 → ∀ o2, o2 < 2 → ∀ k, k < 3 →
    (if k = 0 then o0 else if k = 1 then o1 else o2) = 0 → offsetFacts o0 o1 o2 k = true := by
  decide

theorem gvOf_comm (x y z a b : Nat) : gvOf x y z a b = gvOf x y z b a := by
  simp only [gvOf, Prod.mk.injEq]; omega

theorem gvOf_mkVtx (x y z a b : Nat) : gvOf x y z (mkVtx a b).1 (mkVtx a b).2 = gvOf x y z a b := by
  unfold mkVtx
  split
  · rfl
  · exact gvOf_comm x y z b a

/-- **Every lattice edge whose ends are labelled differently carries a mesh vertex.** -/
theorem mcMesh_sign_change_has_vertex (table : List (List (List Nat)))
    (hwf : ∀ cfg, cfg < 256 → rowWellFormed cfg (getRow table cfg) = true)
    (nx ny nz : Nat) (hnx : 0 < nx) (hny : 0 < ny) (hnz : 0 < nz) (lab : Nat → Nat → Nat → Bool)
    (p : Nat × Nat × Nat) (k : Nat) (hk : k < 3)
    (hp : inBox3 nx ny nz p) (hq : inBox3 nx ny nz (step3 p k))
    (hne : lab p.1 p.2.1 p.2.2 ≠ lab (step3 p k).1 (step3 p k).2.1 (step3 p k).2.2) :
    edgeVertex p k ∈ meshVerts (mcMesh table nx ny nz lab) := by
  obtain ⟨px, py, pz⟩ := p
  unfold inBox3 at hp hq
  simp only [step3] at hq hne
  simp only at hp
  -- the cell and the corner offsets
  obtain ⟨x, o0, hxo, hx, ho0, hk0⟩ : ∃ x o, px = x + o ∧ x < nx ∧ o < 2 ∧ (k = 0 → o = 0) := by
    by_cases h : px < nx
    · exact ⟨px, 0, rfl, h, by decide, fun _ => rfl⟩
    · refine ⟨px - 1, 1, by omega, by omega, by decide, ?_⟩
      intro hk0; subst hk0; simp [unit] at hq; omega
  obtain ⟨y, o1, hyo, hy, ho1, hk1⟩ : ∃ y o, py = y + o ∧ y < ny ∧ o < 2 ∧ (k = 1 → o = 0) := by
    by_cases h : py < ny
    · exact ⟨py, 0, rfl, h, by decide, fun _ => rfl⟩
    · refine ⟨py - 1, 1, by omega, by omega, by decide, ?_⟩
      intro hk1; subst hk1; simp [unit] at hq; omega
  obtain ⟨z, o2, hzo, hz, ho2, hk2⟩ : ∃ z o, pz = z + o ∧ z < nz ∧ o < 2 ∧ (k = 2 → o = 0) := by
    by_cases h : pz < nz
    · exact ⟨pz, 0, rfl, h, by decide, fun _ => rfl⟩
    · refine ⟨pz - 1, 1, by omega, by omega, by decide, ?_⟩
      intro hk2; subst hk2; simp [unit] at hq; omega
  have hsel : (if k = 0 then o0 else if k = 1 then o1 else o2) = 0 := by
    by_cases h0 : k = 0
    · simp [h0, hk0 h0]
    · by_cases h1 : k = 1
      · simp [h1, hk1 h1]
      · have h2 : k = 2 := by omega
        simp [h2, hk2 h2]
  have hof := offsetFacts_all o0 ho0 o1 ho1 o2 ho2 k hk hsel
  unfold offsetFacts at hof
  simp only [Bool.and_eq_true, decide_eq_true_eq, beq_iff_eq, List.contains_iff_mem] at hof
  obtain ⟨⟨⟨⟨⟨⟨⟨⟨hmem, hc8⟩, hd8⟩, hc0⟩, hc1⟩, hc2⟩, hd0⟩, hd1⟩, hd2⟩ := hof
  generalize hc : cornerOfOffsets o0 o1 o2 = c at *
  generalize hd : c + 2 ^ k = d at *
  have sp := cellCfg_spec lab x y z
  have hw := hwf _ sp.1
  -- the edge (c, d) changes sign
  have hsc : signChange (cellCfg lab x y z) (c, d) = true := by
    unfold signChange
    simp only [bne_iff_ne, ne_eq]
    rw [sp.2 c hc8, sp.2 d hd8]
    unfold cornerLab
    rw [hc0, hc1, hc2, hd0, hd1, hd2, ← Nat.add_assoc, ← Nat.add_assoc, ← Nat.add_assoc, ← hxo, ← hyo, ← hzo]
    exact hne
  -- so the row uses it
  unfold rowWellFormed at hw
  rw [Bool.and_eq_true] at hw
  have hany := List.all_eq_true.1 hw.2 (c, d) hmem
  rw [hsc] at hany
  have hany' : (rowTris (getRow table (cellCfg lab x y z))).any
      (fun t => t.1 == (c, d) || t.2.1 == (c, d) || t.2.2 == (c, d)) = true := by
    simpa using hany.symm
  obtain ⟨t, ht, hte⟩ := List.any_eq_true.1 hany'
  unfold rowTris at ht
  obtain ⟨r, hr, hrt⟩ := List.mem_filterMap.1 ht
  -- r is a six-entry row element
  unfold triVerts at hrt
  split at hrt
  · rename_i a0 a1 b0 b1 c0 c1
    simp only [Option.some.injEq] at hrt
    have hgv : edgeVertex (px, py, pz) k = gvOf x y z c d := by
      simp only [gvOf, edgeVertex, Prod.mk.injEq]
      rw [hc0, hc1, hc2, hd0, hd1, hd2]; omega
    simp only [meshVerts, mcMesh, List.mem_flatMap, List.mem_range, List.mem_filterMap]
    refine ⟨(gvOf x y z a0 a1, gvOf x y z b0 b1, gvOf x y z c0 c1),
      ⟨z, hz, y, hy, x, hx, [a0, a1, b0, b1, c0, c1], hr, rfl⟩, ?_⟩
    simp only [List.mem_cons, List.not_mem_nil, or_false]
    rw [hgv]
    subst hrt
    simp only [Bool.or_eq_true, beq_iff_eq] at hte
    rcases hte with (h | h) | h
    · left; rw [← gvOf_mkVtx x y z a0 a1, h]
    · right; left; rw [← gvOf_mkVtx x y z b0 b1, h]
    · right; right; rw [← gvOf_mkVtx x y z c0 c1, h]
  · cases hrt

/-! ### one vertex position per edge, and the parity rule along lattice lines -/

theorem edgeVertex_inj (p p' : Nat × Nat × Nat) (k k' : Nat) (hk : k < 3) (hk' : k' < 3)
    (h : edgeVertex p k = edgeVertex p' k') : p = p' ∧ k = k' := by
  obtain ⟨a, b, c⟩ := p
  obtain ⟨a', b', c'⟩ := p'
  simp only [edgeVertex, unit, Prod.mk.injEq] at h ⊢
  have h3 : k = 0 ∨ k = 1 ∨ k = 2 := by omega
  have h3' : k' = 0 ∨ k' = 1 ∨ k' = 2 := by omega
  rcases h3 with rfl | rfl | rfl <;> rcases h3' with rfl | rfl | rfl <;> simp at h <;> omega

theorem mcMesh_vertex_iff (table : List (List (List Nat)))
    (hwf : ∀ cfg, cfg < 256 → rowWellFormed cfg (getRow table cfg) = true)
    (nx ny nz : Nat) (hnx : 0 < nx) (hny : 0 < ny) (hnz : 0 < nz) (lab : Nat → Nat → Nat → Bool)
    (p : Nat × Nat × Nat) (k : Nat) (hk : k < 3)
    (hp : inBox3 nx ny nz p) (hq : inBox3 nx ny nz (step3 p k)) :
    edgeVertex p k ∈ meshVerts (mcMesh table nx ny nz lab) ↔
      lab p.1 p.2.1 p.2.2 ≠ lab (step3 p k).1 (step3 p k).2.1 (step3 p k).2.2 := by
  constructor
  · intro h
    obtain ⟨p', k', hk', he, _, _, hne⟩ := mcMesh_vertex_on_sign_change table hwf nx ny nz lab _ h
    obtain ⟨rfl, rfl⟩ := edgeVertex_inj p p' k k' hk hk' he
    exact hne
  · exact mcMesh_sign_change_has_vertex table hwf nx ny nz hnx hny hnz lab p k hk hp hq

theorem parity_flips (f : Nat → Bool) (h0 : f 0 = false) (i : Nat) :
    ((List.range i).filter (fun j => f j != f (j + 1))).length % 2 = if f i then 1 else 0 := by
  induction i with
  | zero => simp [h0]
  | succ i ih =>
    rw [List.range_succ, List.filter_append, List.length_append]
    simp only [List.filter_cons, List.filter_nil]
    cases h1 : f i <;> cases h2 : f (i + 1) <;> simp [h1] at ih ⊢ <;> omega

/-- `p` with its coordinate along axis `k` replaced by `j`. -/
def setAxis (p : Nat × Nat × Nat) (k j : Nat) : Nat × Nat × Nat :=
  (if k = 0 then j else p.1, if k = 1 then j else p.2.1, if k = 2 then j else p.2.2)

def axisCoord (p : Nat × Nat × Nat) (k : Nat) : Nat := if k = 0 then p.1 else if k = 1 then p.2.1 else p.2.2

/-- Number of mesh vertices on the lattice line through `p` along axis `k`, strictly between the
outer layer (coordinate 0) and `p`. -/
def vertsBefore (verts : List GV) (p : Nat × Nat × Nat) (k : Nat) : Nat :=
  ((List.range (axisCoord p k)).filter fun j => decide (edgeVertex (setAxis p k j) k ∈ verts)).length

theorem mcMesh_side_correct (table : List (List (List Nat)))
    (hwf : ∀ cfg, cfg < 256 → rowWellFormed cfg (getRow table cfg) = true)
    (nx ny nz : Nat) (hnx : 0 < nx) (hny : 0 < ny) (hnz : 0 < nz) (lab : Nat → Nat → Nat → Bool)
    (p : Nat × Nat × Nat) (k : Nat) (hk : k < 3) (hp : inBox3 nx ny nz p)
    (h0 : lab (setAxis p k 0).1 (setAxis p k 0).2.1 (setAxis p k 0).2.2 = false) :
    vertsBefore (meshVerts (mcMesh table nx ny nz lab)) p k % 2 = if lab p.1 p.2.1 p.2.2 then 1 else 0 := by
  let f : Nat → Bool := fun j => lab (setAxis p k j).1 (setAxis p k j).2.1 (setAxis p k j).2.2
  have hstep : ∀ j, step3 (setAxis p k j) k = setAxis p k (j + 1) := by
    intro j
    have h3 : k = 0 ∨ k = 1 ∨ k = 2 := by omega
    rcases h3 with rfl | rfl | rfl <;> simp [step3, setAxis, unit]
  have hself : setAxis p k (axisCoord p k) = p := by
    obtain ⟨a, b, c⟩ := p
    have h3 : k = 0 ∨ k = 1 ∨ k = 2 := by omega
    rcases h3 with rfl | rfl | rfl <;> simp [setAxis, axisCoord]
  have hbox : ∀ j, j ≤ axisCoord p k → inBox3 nx ny nz (setAxis p k j) := by
    intro j hj
    obtain ⟨a, b, c⟩ := p
    unfold inBox3 at hp ⊢
    have h3 : k = 0 ∨ k = 1 ∨ k = 2 := by omega
    rcases h3 with rfl | rfl | rfl <;> simp [setAxis, axisCoord] at hj ⊢ <;> simp at hp <;> omega
  have hcongr : (List.range (axisCoord p k)).filter
        (fun j => decide (edgeVertex (setAxis p k j) k ∈ meshVerts (mcMesh table nx ny nz lab)))
      = (List.range (axisCoord p k)).filter (fun j => f j != f (j + 1)) := by
    apply List.filter_congr
    intro j hj
    have hj' : j < axisCoord p k := List.mem_range.1 hj
    have hiff := mcMesh_vertex_iff table hwf nx ny nz hnx hny hnz lab (setAxis p k j) k hk
      (hbox j (by omega)) (by rw [hstep]; exact hbox (j + 1) (by omega))
    rw [hstep] at hiff
    by_cases hm : edgeVertex (setAxis p k j) k ∈ meshVerts (mcMesh table nx ny nz lab)
    · have := hiff.1 hm
      simp only [hm, decide_true, f]
      exact (bne_iff_ne.2 this).symm
    · have : ¬ (f j ≠ f (j + 1)) := fun h => hm (hiff.2 h)
      simp only [hm, decide_false]
      simp only [ne_eq, not_not] at this
      simp [this]
  unfold vertsBefore
  rw [hcongr, parity_flips f h0]
  simp only [f, hself]

/-! ### marching squares: the same lift -/

theorem squareEdgeFacts_all : ∀ a, a < 4 → ∀ b, b < 4 → squareEdgeFacts a b = true := by decide

theorem isSquareEdge_lt (a b : Nat) (h : isSquareEdge a b = true) : a < 4 ∧ b < 4 := by
  unfold isSquareEdge at h
  simp only [Bool.and_eq_true, decide_eq_true_eq] at h
  exact ⟨h.1.1, h.1.2⟩

theorem square_edge_lattice (lab : Nat → Nat → Bool) (x y a b : Nat) (he : isSquareEdge a b = true)
    (hs : signChange (cellCfg2 lab x y) (a, b) = true) :
    ∃ p k, k < 2 ∧ gv2Of x y a b = edgeVertex2 p k ∧
      (x ≤ p.1 ∧ p.1 ≤ x + 1 ∧ y ≤ p.2 ∧ p.2 ≤ y + 1) ∧
      ((step2 p k).1 ≤ x + 1 ∧ (step2 p k).2 ≤ y + 1) ∧
      lab p.1 p.2 ≠ lab (step2 p k).1 (step2 p k).2 := by
  obtain ⟨ha, hb⟩ := isSquareEdge_lt a b he
  have hf := squareEdgeFacts_all a ha b hb
  unfold squareEdgeFacts at hf
  rw [he] at hf
  simp only [Bool.not_true, Bool.false_or, Bool.and_eq_true, decide_eq_true_eq, beq_iff_eq] at hf
  obtain ⟨⟨⟨⟨hc4, hd4⟩, hk2⟩, hck⟩, hall⟩ := hf
  have hj : ∀ j, j < 2 →
      cornerOff a j + cornerOff b j = 2 * cornerOff (min a b) j + unit (edgeAxis a b) j ∧
      cornerOff (max a b) j = cornerOff (min a b) j + unit (edgeAxis a b) j := by
    intro j hj
    have := List.all_eq_true.1 hall j (List.mem_range.2 hj)
    simpa only [Bool.and_eq_true, beq_iff_eq] using this
  generalize edgeAxis a b = k at hj hck hk2
  have h0 := hj 0 (by decide); have h1 := hj 1 (by decide)
  have l0 := cornerOff_le (min a b) 0; have l1 := cornerOff_le (min a b) 1
  have m0 := cornerOff_le (max a b) 0; have m1 := cornerOff_le (max a b) 1
  refine ⟨(x + cornerOff (min a b) 0, y + cornerOff (min a b) 1), k, hk2, ?_, ?_, ?_, ?_⟩
  · simp only [gv2Of, edgeVertex2, Prod.mk.injEq]; omega
  · simp only; omega
  · simp only [step2]; omega
  · simp only [step2, Nat.add_assoc]
    rw [← h0.2, ← h1.2]
    have sp := cellCfg2_spec lab x y
    unfold signChange at hs
    simp only [bne_iff_ne, ne_eq] at hs
    rw [sp.2 a ha, sp.2 b hb] at hs
    unfold cornerLab2 at hs
    rcases Nat.le_total a b with hab | hab
    · rw [Nat.min_eq_left hab, Nat.max_eq_right hab]; exact hs
    · rw [Nat.min_eq_right hab, Nat.max_eq_left hab]; exact fun h => hs h.symm

theorem ms_row_elem_facts (cfg : Nat) (row : List (List Nat)) (hw : msRowWellFormed cfg row = true)
    (a0 a1 b0 b1 : Nat) (hr : [a0, a1, b0, b1] ∈ row) :
    (isSquareEdge a0 a1 = true ∧ signChange cfg (a0, a1) = true) ∧
    (isSquareEdge b0 b1 = true ∧ signChange cfg (b0, b1) = true) := by
  unfold msRowWellFormed at hw
  rw [Bool.and_eq_true] at hw
  have h := List.all_eq_true.1 hw.1 _ hr
  simp only [Bool.and_eq_true] at h
  obtain ⟨⟨⟨⟨h1, h2⟩, h3⟩, h4⟩, _⟩ := h
  exact ⟨⟨h1, h3⟩, ⟨h2, h4⟩⟩

theorem msMesh_vertex_on_sign_change (table : List (List (List Nat)))
    (hwf : ∀ cfg, cfg < 16 → msRowWellFormed cfg (getRow table cfg) = true)
    (nx ny : Nat) (lab : Nat → Nat → Bool) (v : GV2)
    (hv : v ∈ meshVerts2 (msMesh table nx ny lab)) :
    ∃ p k, k < 2 ∧ v = edgeVertex2 p k ∧ inBox2 nx ny p ∧ inBox2 nx ny (step2 p k) ∧
      lab p.1 p.2 ≠ lab (step2 p k).1 (step2 p k).2 := by
  simp only [meshVerts2, msMesh, List.mem_flatMap, List.mem_range, List.mem_filterMap] at hv
  obtain ⟨t, ⟨y, hy, x, hx, r, hr, hrt⟩, hvt⟩ := hv
  have hw := hwf _ (cellCfg2_spec lab x y).1
  split at hrt
  · rename_i a0 a1 b0 b1
    have hf := ms_row_elem_facts _ _ hw a0 a1 b0 b1 hr
    simp only [Option.some.injEq] at hrt
    subst hrt
    simp only [List.mem_cons, List.not_mem_nil, or_false] at hvt
    have fin : ∀ a b, isSquareEdge a b = true → signChange (cellCfg2 lab x y) (a, b) = true → v = gv2Of x y a b →
        ∃ p k, k < 2 ∧ v = edgeVertex2 p k ∧ inBox2 nx ny p ∧ inBox2 nx ny (step2 p k) ∧
          lab p.1 p.2 ≠ lab (step2 p k).1 (step2 p k).2 := by
      intro a b he hs hv
      obtain ⟨p, k, hk, hg, hp, hq, hne⟩ := square_edge_lattice lab x y a b he hs
      refine ⟨p, k, hk, hv.trans hg, ?_, ?_, hne⟩
      · unfold inBox2; omega
      · unfold inBox2; omega
    rcases hvt with h | h
    · exact fin _ _ hf.1.1 hf.1.2 h
    · exact fin _ _ hf.2.1 hf.2.2 h
  · cases hrt

def offsetFacts2 (o0 o1 k : Nat) : Bool :=
  let c := o0 + 2 * o1
  let d := c + 2 ^ k
  squareEdges.contains (c, d) && c < 4 && d < 4 &&
  cornerOff c 0 == o0 && cornerOff c 1 == o1 &&
  cornerOff d 0 == o0 + unit k 0 && cornerOff d 1 == o1 + unit k 1

theorem offsetFacts2_all : ∀ o0, o0 < 2 → ∀ o1, o1 < 2 → ∀ k, k < 2 →
    (if k = 0 then o0 else o1) = 0 → offsetFacts2 o0 o1 k = true := by
  decide

theorem gv2Of_comm (x y a b : Nat) : gv2Of x y a b = gv2Of x y b a := by
  simp only [gv2Of, Prod.mk.injEq]; omega

theorem gv2Of_mkVtx (x y a b : Nat) : gv2Of x y (mkVtx a b).1 (mkVtx a b).2 = gv2Of x y a b := by
  unfold mkVtx
  split
  · rfl
  · exact gv2Of_comm x y b a

theorem msMesh_sign_change_has_vertex (table : List (List (List Nat)))
    (hwf : ∀ cfg, cfg < 16 → msRowWellFormed cfg (getRow table cfg) = true)
    (nx ny : Nat) (hnx : 0 < nx) (hny : 0 < ny) (lab : Nat → Nat → Bool)
    (p : Nat × Nat) (k : Nat) (hk : k < 2)
    (hp : inBox2 nx ny p) (hq : inBox2 nx ny (step2 p k))
    (hne : lab p.1 p.2 ≠ lab (step2 p k).1 (step2 p k).2) :
    edgeVertex2 p k ∈ meshVerts2 (msMesh table nx ny lab) := by
  obtain ⟨px, py⟩ := p
  unfold inBox2 at hp hq
  simp only [step2] at hq hne
  simp only at hp
  obtain ⟨x, o0, hxo, hx, ho0, hk0⟩ : ∃ x o, px = x + o ∧ x < nx ∧ o < 2 ∧ (k = 0 → o = 0) := by
    by_cases h : px < nx
    · exact ⟨px, 0, rfl, h, by decide, fun _ => rfl⟩
    · refine ⟨px - 1, 1, by omega, by omega, by decide, ?_⟩
      intro hk0; subst hk0; simp [unit] at hq; omega
  obtain ⟨y, o1, hyo, hy, ho1, hk1⟩ : ∃ y o, py = y + o ∧ y < ny ∧ o < 2 ∧ (k = 1 → o = 0) := by
    by_cases h : py < ny
    · exact ⟨py, 0, rfl, h, by decide, fun _ => rfl⟩
    · refine ⟨py - 1, 1, by omega, by omega, by decide, ?_⟩
      intro hk1; subst hk1; simp [unit] at hq; omega
  have hsel : (if k = 0 then o0 else o1) = 0 := by
    by_cases h0 : k = 0
    · simp [h0, hk0 h0]
    · have h1 : k = 1 := by omega
      simp [h1, hk1 h1]
  have hof := offsetFacts2_all o0 ho0 o1 ho1 k hk hsel
  unfold offsetFacts2 at hof
  simp only [Bool.and_eq_true, decide_eq_true_eq, beq_iff_eq, List.contains_iff_mem] at hof
  obtain ⟨⟨⟨⟨⟨⟨hmem, hc4⟩, hd4⟩, hc0⟩, hc1⟩, hd0⟩, hd1⟩ := hof
  generalize hc : o0 + 2 * o1 = c at *
  generalize hd : c + 2 ^ k = d at *
  have sp := cellCfg2_spec lab x y
  have hw := hwf _ sp.1
  have hsc : signChange (cellCfg2 lab x y) (c, d) = true := by
    unfold signChange
    simp only [bne_iff_ne, ne_eq]
    rw [sp.2 c hc4, sp.2 d hd4]
    unfold cornerLab2
    rw [hc0, hc1, hd0, hd1, ← Nat.add_assoc, ← Nat.add_assoc, ← hxo, ← hyo]
    exact hne
  unfold msRowWellFormed at hw
  rw [Bool.and_eq_true] at hw
  have hcnt := List.all_eq_true.1 hw.2 (c, d) hmem
  simp only [hsc, if_true, beq_iff_eq] at hcnt
  -- some segment starts or ends at (c, d)
  have hex : ∃ s ∈ rowSegs (getRow table (cellCfg2 lab x y)), s.1 = (c, d) ∨ s.2 = (c, d) := by
    by_contra hno
    have h1 : (List.filter (fun s => s.1 == (c, d)) (rowSegs (getRow table (cellCfg2 lab x y)))) = [] := by
      apply List.filter_eq_nil_iff.2
      intro s hs hh
      exact hno ⟨s, hs, Or.inl (beq_iff_eq.1 hh)⟩
    have h2 : (List.filter (fun s => s.2 == (c, d)) (rowSegs (getRow table (cellCfg2 lab x y)))) = [] := by
      apply List.filter_eq_nil_iff.2
      intro s hs hh
      exact hno ⟨s, hs, Or.inr (beq_iff_eq.1 hh)⟩
    rw [h1, h2] at hcnt
    simp at hcnt
  obtain ⟨t, ht, hte⟩ := hex
  unfold rowSegs at ht
  obtain ⟨r, hr, hrt⟩ := List.mem_filterMap.1 ht
  unfold segEnds at hrt
  split at hrt
  · rename_i a0 a1 b0 b1
    simp only [Option.some.injEq] at hrt
    have hgv : edgeVertex2 (px, py) k = gv2Of x y c d := by
      simp only [gv2Of, edgeVertex2, Prod.mk.injEq]
      rw [hc0, hc1, hd0, hd1]; omega
    simp only [meshVerts2, msMesh, List.mem_flatMap, List.mem_range, List.mem_filterMap]
    refine ⟨(gv2Of x y a0 a1, gv2Of x y b0 b1), ⟨y, hy, x, hx, [a0, a1, b0, b1], hr, rfl⟩, ?_⟩
    simp only [List.mem_cons, List.not_mem_nil, or_false]
    rw [hgv]
    subst hrt
    rcases hte with h | h
    · left; simp only at h; rw [← gv2Of_mkVtx x y a0 a1, h]
    · right; simp only at h; rw [← gv2Of_mkVtx x y b0 b1, h]
  · cases hrt

theorem edgeVertex2_inj (p p' : Nat × Nat) (k k' : Nat) (hk : k < 2) (hk' : k' < 2)
    (h : edgeVertex2 p k = edgeVertex2 p' k') : p = p' ∧ k = k' := by
  obtain ⟨a, b⟩ := p
  obtain ⟨a', b'⟩ := p'
  simp only [edgeVertex2, unit, Prod.mk.injEq] at h ⊢
  have h3 : k = 0 ∨ k = 1 := by omega
  have h3' : k' = 0 ∨ k' = 1 := by omega
  rcases h3 with rfl | rfl <;> rcases h3' with rfl | rfl <;> simp at h <;> omega

theorem msMesh_vertex_iff (table : List (List (List Nat)))
    (hwf : ∀ cfg, cfg < 16 → msRowWellFormed cfg (getRow table cfg) = true)
    (nx ny : Nat) (hnx : 0 < nx) (hny : 0 < ny) (lab : Nat → Nat → Bool)
    (p : Nat × Nat) (k : Nat) (hk : k < 2) (hp : inBox2 nx ny p) (hq : inBox2 nx ny (step2 p k)) :
    edgeVertex2 p k ∈ meshVerts2 (msMesh table nx ny lab) ↔ lab p.1 p.2 ≠ lab (step2 p k).1 (step2 p k).2 := by
  constructor
  · intro h
    obtain ⟨p', k', hk', he, _, _, hne⟩ := msMesh_vertex_on_sign_change table hwf nx ny lab _ h
    obtain ⟨rfl, rfl⟩ := edgeVertex2_inj p p' k k' hk hk' he
    exact hne
  · exact msMesh_sign_change_has_vertex table hwf nx ny hnx hny lab p k hk hp hq

def setAxis2 (p : Nat × Nat) (k j : Nat) : Nat × Nat := (if k = 0 then j else p.1, if k = 1 then j else p.2)
def axisCoord2 (p : Nat × Nat) (k : Nat) : Nat := if k = 0 then p.1 else p.2

def vertsBefore2 (verts : List GV2) (p : Nat × Nat) (k : Nat) : Nat :=
  ((List.range (axisCoord2 p k)).filter fun j => decide (edgeVertex2 (setAxis2 p k j) k ∈ verts)).length

theorem msMesh_side_correct (table : List (List (List Nat)))
    (hwf : ∀ cfg, cfg < 16 → msRowWellFormed cfg (getRow table cfg) = true)
    (nx ny : Nat) (hnx : 0 < nx) (hny : 0 < ny) (lab : Nat → Nat → Bool)
    (p : Nat × Nat) (k : Nat) (hk : k < 2) (hp : inBox2 nx ny p)
    (h0 : lab (setAxis2 p k 0).1 (setAxis2 p k 0).2 = false) :
    vertsBefore2 (meshVerts2 (msMesh table nx ny lab)) p k % 2 = if lab p.1 p.2 then 1 else 0 := by
  let f : Nat → Bool := fun j => lab (setAxis2 p k j).1 (setAxis2 p k j).2
  have hstep : ∀ j, step2 (setAxis2 p k j) k = setAxis2 p k (j + 1) := by
    intro j
    have h3 : k = 0 ∨ k = 1 := by omega
    rcases h3 with rfl | rfl <;> simp [step2, setAxis2, unit]
  have hself : setAxis2 p k (axisCoord2 p k) = p := by
    obtain ⟨a, b⟩ := p
    have h3 : k = 0 ∨ k = 1 := by omega
    rcases h3 with rfl | rfl <;> simp [setAxis2, axisCoord2]
  have hbox : ∀ j, j ≤ axisCoord2 p k → inBox2 nx ny (setAxis2 p k j) := by
    intro j hj
    obtain ⟨a, b⟩ := p
    unfold inBox2 at hp ⊢
    have h3 : k = 0 ∨ k = 1 := by omega
    rcases h3 with rfl | rfl <;> simp [setAxis2, axisCoord2] at hj ⊢ <;> simp at hp <;> omega
  have hcongr : (List.range (axisCoord2 p k)).filter
        (fun j => decide (edgeVertex2 (setAxis2 p k j) k ∈ meshVerts2 (msMesh table nx ny lab)))
      = (List.range (axisCoord2 p k)).filter (fun j => f j != f (j + 1)) := by
    apply List.filter_congr
    intro j hj
    have hj' : j < axisCoord2 p k := List.mem_range.1 hj
    have hiff := msMesh_vertex_iff table hwf nx ny hnx hny lab (setAxis2 p k j) k hk
      (hbox j (by omega)) (by rw [hstep]; exact hbox (j + 1) (by omega))
    rw [hstep] at hiff
    by_cases hm : edgeVertex2 (setAxis2 p k j) k ∈ meshVerts2 (msMesh table nx ny lab)
    · have := hiff.1 hm
      simp only [hm, decide_true, f]
      exact (bne_iff_ne.2 this).symm
    · have : ¬ (f j ≠ f (j + 1)) := fun h => hm (hiff.2 h)
      simp only [hm, decide_false]
      simp only [ne_eq, not_not] at this
      simp [this]
  unfold vertsBefore2
  rw [hcongr, parity_flips f h0]
  simp only [f, hself]

end M3d.Marching
