import M3d.Gen.Kernels
import M3d.Lemmas.Transform
import Mathlib.Tactic.Ring
import Mathlib.Tactic.SplitIfs
import Mathlib.Tactic.LinearCombination
import Mathlib.Algebra.Order.Field.Basic
/-!
# C17 "rotations reconstruct": theorems ABOUT THE REGENERATED rotation constructors

`numerical.NewMatrix3Rotation`, `model3d.NewMatrix3Rotation`, `numerical.NewMatrix2Rotation`,
`model2d.NewMatrix2Rotation` and `numerical.Vec3.OrthoBasis` / `model3d.Coord3D.OrthoBasis` as the Go
source defines them NOW (`M3d/Gen/Kernels.lean`, regenerated on every run).  `math.Cos`, `math.Sin`
and `math.Sqrt` are uninterpreted functions constrained only by `cos² + sin² = 1` (at the angle used)
and `sqrt(x)² = x` for `x > 0`.  Over every linear ordered field:

* the rotation about a unit axis is orthogonal (`Rᵀ·R = 1`), has determinant `1` and fixes the axis;
* the 2-D rotation is orthogonal with determinant `1`;
* the rotation by the opposite angle (`cos` even, `sin` odd) is the transpose, hence the inverse:
  rotating back reconstructs the input.

The algebra is that of `M3d/Lemmas/Transform.lean` (`orthoBasis_orthonormal`, `rotationIn_ortho`, written for
C05); what is new here is that the statements are about the GENERATED definitions, so an edit of these Go
functions either is absorbed by the proof or breaks this file (an obligation of C17).
-/
namespace M3d.KernelsTie.Rotation
open M3d.Tf M3d.Gen.Kernels M3d.GenPrelude
set_option linter.unusedSectionVars false
set_option linter.unusedVariables false
set_option linter.unusedSimpArgs false
set_option linter.unreachableTactic false
set_option linter.unusedTactic false

variable {K : Type} [Field K] [LinearOrder K] [IsStrictOrderedRing K]

/-- Closes a tie goal: by `rfl` when the generated text is literally the model's, otherwise (a harmless rewrite of
the Go source) by unfolding both sides and `ring` per component. -/
macro "tie" : tactic => `(tactic| first
  | rfl
  | (simp only [numerical.Matrix3_Mul, numerical.Matrix3_Transpose, numerical.Matrix3_Det, numerical.Matrix3_MulColumn,
        numerical.Matrix2_Mul, numerical.Matrix2_Transpose, numerical.Matrix2_Det, numerical.NewMatrix3Columns,
        numerical.NewMatrix2Rotation,
        model3d.Matrix3_Mul, model3d.Matrix3_Transpose, model3d.Matrix3_Det, model3d.Matrix3_MulColumn,
        model2d.Matrix2_Mul, model2d.Matrix2_Transpose, model2d.Matrix2_Det, model3d.NewMatrix3Columns,
        model2d.NewMatrix2Rotation,
        M3.mul, M3.transpose, M3.det, M3.mulColumn, M3.ofColumns, M2.mul, M2.transpose, M2.det, M2.rotation,
        rotation3, rotationIn, rotX, HasLibm.cos, HasLibm.sin] <;>
      first | rfl | ring | (congr 1 <;> first | rfl | ring)))

/-- `math.Sqrt` of the generated code. -/
@[reducible] def sqrtOf (sqrtF : K → K) : HasSqrt K := ⟨sqrtF⟩
/-- `math.Cos` / `math.Sin` of the generated code (the other libm functions do not occur). -/
@[reducible] def libmOf (cos sin : K → K) : HasLibm K :=
  ⟨cos, sin, id, id, id, id, id, id, fun x _ => x, fun x _ => x⟩

@[reducible] def n3 (a : V3 K) : numerical.Vec3 K := ⟨a.x, a.y, a.z⟩
@[reducible] def nm3 (m : M3 K) : numerical.Matrix3 K := ⟨m.a0, m.a1, m.a2, m.a3, m.a4, m.a5, m.a6, m.a7, m.a8⟩
@[reducible] def nm2 (m : M2 K) : numerical.Matrix2 K := ⟨m.a0, m.a1, m.a2, m.a3⟩
@[reducible] def g3 (a : V3 K) : model3d.Coord3D K := ⟨a.x, a.y, a.z⟩
@[reducible] def gm3 (m : M3 K) : model3d.Matrix3 K := ⟨m.a0, m.a1, m.a2, m.a3, m.a4, m.a5, m.a6, m.a7, m.a8⟩
@[reducible] def gm2 (m : M2 K) : model2d.Matrix2 K := ⟨m.a0, m.a1, m.a2, m.a3⟩

theorem absS_eq (a : K) : GenPrelude.absS a = Tf.absS a := by
  unfold GenPrelude.absS Tf.absS
  split_ifs with h1 h2 h2
  · rfl
  · exact absurd (le_of_lt h1) h2
  · have : a = 0 := le_antisymm (not_lt.mp h1) h2
    subst this; simp
  · simp

/-! ## `OrthoBasis` (both packages) is the model's -/

theorem numerical_orthoBasis (sqrtF : K → K) (c : V3 K) :
    (letI := sqrtOf sqrtF; numerical.Vec3_OrthoBasis (n3 c)) =
      (n3 (orthoBasis sqrtF c).1, n3 (orthoBasis sqrtF c).2) := by
  unfold numerical.Vec3_OrthoBasis orthoBasis
  simp only [absS_eq, gt_iff_lt, Bool.and_eq_true, decide_eq_true_eq]
  split_ifs <;> rfl

theorem model3d_orthoBasis (sqrtF : K → K) (c : V3 K) :
    (letI := sqrtOf sqrtF; model3d.Coord3D_OrthoBasis (g3 c)) =
      (g3 (orthoBasis sqrtF c).1, g3 (orthoBasis sqrtF c).2) := by
  unfold model3d.Coord3D_OrthoBasis orthoBasis
  simp only [absS_eq, gt_iff_lt, Bool.and_eq_true, decide_eq_true_eq]
  split_ifs <;> rfl

/-! ## `NewMatrix3Rotation` / `NewMatrix2Rotation` are the model's `rotation3` / `M2.rotation` -/

theorem numerical_rotation3 (sqrtF cos sin : K → K) (axis : V3 K) (θ : K) :
    (letI := sqrtOf sqrtF; letI := libmOf cos sin; numerical.NewMatrix3Rotation (n3 axis) θ) =
      nm3 (rotation3 sqrtF axis (cos θ) (sin θ)) := by
  unfold numerical.NewMatrix3Rotation
  rw [numerical_orthoBasis]
  tie

theorem model3d_rotation3 (sqrtF cos sin : K → K) (axis : V3 K) (θ : K) :
    (letI := sqrtOf sqrtF; letI := libmOf cos sin; model3d.NewMatrix3Rotation (g3 axis) θ) =
      gm3 (rotation3 sqrtF axis (cos θ) (sin θ)) := by
  unfold model3d.NewMatrix3Rotation
  rw [model3d_orthoBasis]
  tie

theorem numerical_rotation2 (cos sin : K → K) (θ : K) :
    (letI := libmOf cos sin; numerical.NewMatrix2Rotation θ) = nm2 (M2.rotation (cos θ) (sin θ)) := by tie

theorem model2d_rotation2 (cos sin : K → K) (θ : K) :
    (letI := libmOf cos sin; model2d.NewMatrix2Rotation θ) = gm2 (M2.rotation (cos θ) (sin θ)) := by tie

/-! ## the property, stated on the generated definitions -/

theorem rotation3_model_ortho (sqrtF : K → K) (hs : ∀ x, 0 < x → sqrtF x * sqrtF x = x) (axis : V3 K)
    (c s : K) (hax : axis.dot axis = 1) (hcs : c * c + s * s = 1) :
    (rotation3 sqrtF axis c s).transpose.mul (rotation3 sqrtF axis c s) = M3.one ∧
      (rotation3 sqrtF axis c s).det = 1 ∧ (rotation3 sqrtF axis c s).mulColumn axis = axis := by
  have hn : axis.normSq = 1 := by simpa [V3.normSq, V3.dot] using hax
  obtain ⟨h11, h22, ha1, ha2, h12⟩ := orthoBasis_orthonormal sqrtF hs axis hn
  exact rotationIn_ortho axis _ _ c s hax h11 h22 ha1 ha2 h12 hcs

/-- **`numerical.NewMatrix3Rotation(axis, θ)` (as generated from the source) is orthogonal, has determinant 1 and
fixes the axis**, for a unit axis, given `cos²θ + sin²θ = 1` and `sqrt(x)² = x` on positives. -/
theorem numerical_rotation3_orthogonal (sqrtF cos sin : K → K) (hs : ∀ x, 0 < x → sqrtF x * sqrtF x = x)
    (axis : V3 K) (θ : K) (hax : axis.dot axis = 1) (hcs : cos θ * cos θ + sin θ * sin θ = 1) :
    letI := sqrtOf sqrtF; letI := libmOf cos sin
    numerical.Matrix3_Mul (numerical.Matrix3_Transpose (numerical.NewMatrix3Rotation (n3 axis) θ))
        (numerical.NewMatrix3Rotation (n3 axis) θ) = nm3 M3.one ∧
      numerical.Matrix3_Det (numerical.NewMatrix3Rotation (n3 axis) θ) = 1 ∧
      numerical.Matrix3_MulColumn (numerical.NewMatrix3Rotation (n3 axis) θ) (n3 axis) = n3 axis := by
  obtain ⟨h1, h2, h3⟩ := rotation3_model_ortho sqrtF hs axis (cos θ) (sin θ) hax hcs
  simp only [numerical_rotation3]
  refine ⟨?_, ?_, ?_⟩
  · have : numerical.Matrix3_Mul (numerical.Matrix3_Transpose (nm3 (rotation3 sqrtF axis (cos θ) (sin θ))))
        (nm3 (rotation3 sqrtF axis (cos θ) (sin θ))) =
        nm3 ((rotation3 sqrtF axis (cos θ) (sin θ)).transpose.mul (rotation3 sqrtF axis (cos θ) (sin θ))) := by tie
    rw [this, h1]
  · have : numerical.Matrix3_Det (nm3 (rotation3 sqrtF axis (cos θ) (sin θ))) =
        (rotation3 sqrtF axis (cos θ) (sin θ)).det := by tie
    rw [this, h2]
  · have : numerical.Matrix3_MulColumn (nm3 (rotation3 sqrtF axis (cos θ) (sin θ))) (n3 axis) =
        n3 ((rotation3 sqrtF axis (cos θ) (sin θ)).mulColumn axis) := by tie
    rw [this, h3]

/-- The same for the twin `model3d.NewMatrix3Rotation`. -/
theorem model3d_rotation3_orthogonal (sqrtF cos sin : K → K) (hs : ∀ x, 0 < x → sqrtF x * sqrtF x = x)
    (axis : V3 K) (θ : K) (hax : axis.dot axis = 1) (hcs : cos θ * cos θ + sin θ * sin θ = 1) :
    letI := sqrtOf sqrtF; letI := libmOf cos sin
    model3d.Matrix3_Mul (model3d.Matrix3_Transpose (model3d.NewMatrix3Rotation (g3 axis) θ))
        (model3d.NewMatrix3Rotation (g3 axis) θ) = gm3 M3.one ∧
      model3d.Matrix3_Det (model3d.NewMatrix3Rotation (g3 axis) θ) = 1 ∧
      model3d.Matrix3_MulColumn (model3d.NewMatrix3Rotation (g3 axis) θ) (g3 axis) = g3 axis := by
  obtain ⟨h1, h2, h3⟩ := rotation3_model_ortho sqrtF hs axis (cos θ) (sin θ) hax hcs
  simp only [model3d_rotation3]
  refine ⟨?_, ?_, ?_⟩
  · have : model3d.Matrix3_Mul (model3d.Matrix3_Transpose (gm3 (rotation3 sqrtF axis (cos θ) (sin θ))))
        (gm3 (rotation3 sqrtF axis (cos θ) (sin θ))) =
        gm3 ((rotation3 sqrtF axis (cos θ) (sin θ)).transpose.mul (rotation3 sqrtF axis (cos θ) (sin θ))) := by tie
    rw [this, h1]
  · have : model3d.Matrix3_Det (gm3 (rotation3 sqrtF axis (cos θ) (sin θ))) =
        (rotation3 sqrtF axis (cos θ) (sin θ)).det := by tie
    rw [this, h2]
  · have : model3d.Matrix3_MulColumn (gm3 (rotation3 sqrtF axis (cos θ) (sin θ))) (g3 axis) =
        g3 ((rotation3 sqrtF axis (cos θ) (sin θ)).mulColumn axis) := by tie
    rw [this, h3]

/-- **Rotating back reconstructs**: with `cos` even and `sin` odd at `θ`, `NewMatrix3Rotation(axis, −θ)` is the
transpose of `NewMatrix3Rotation(axis, θ)` — hence, by orthogonality, its inverse: `R(−θ)·R(θ) = 1`. -/
theorem numerical_rotation3_neg (sqrtF cos sin : K → K) (hs : ∀ x, 0 < x → sqrtF x * sqrtF x = x)
    (axis : V3 K) (θ : K) (hax : axis.dot axis = 1) (hcs : cos θ * cos θ + sin θ * sin θ = 1)
    (hc : cos (-θ) = cos θ) (hsn : sin (-θ) = -sin θ) :
    letI := sqrtOf sqrtF; letI := libmOf cos sin
    numerical.NewMatrix3Rotation (n3 axis) (-θ) =
        numerical.Matrix3_Transpose (numerical.NewMatrix3Rotation (n3 axis) θ) ∧
      numerical.Matrix3_Mul (numerical.NewMatrix3Rotation (n3 axis) (-θ))
        (numerical.NewMatrix3Rotation (n3 axis) θ) = nm3 M3.one := by
  have htr : rotation3 sqrtF axis (cos θ) (-sin θ) = (rotation3 sqrtF axis (cos θ) (sin θ)).transpose := by
    simp only [rotation3, rotationIn, M3.ofColumns, rotX, M3.mul, M3.transpose]
    ext <;> simp only [] <;> ring
  obtain ⟨h1, _, _⟩ := rotation3_model_ortho sqrtF hs axis (cos θ) (sin θ) hax hcs
  simp only [numerical_rotation3, hc, hsn, htr]
  refine ⟨rfl, ?_⟩
  have : numerical.Matrix3_Mul (nm3 (rotation3 sqrtF axis (cos θ) (sin θ)).transpose)
      (nm3 (rotation3 sqrtF axis (cos θ) (sin θ))) =
      nm3 ((rotation3 sqrtF axis (cos θ) (sin θ)).transpose.mul (rotation3 sqrtF axis (cos θ) (sin θ))) := by tie
  rw [this, h1]

/-- **`NewMatrix2Rotation(θ)` (both packages, as generated) is orthogonal with determinant 1**, and the rotation by
`−θ` is its transpose (so rotating back reconstructs). -/
theorem rotation2_orthogonal (cos sin : K → K) (θ : K) (hcs : cos θ * cos θ + sin θ * sin θ = 1) :
    letI := libmOf cos sin
    numerical.Matrix2_Mul (numerical.Matrix2_Transpose (numerical.NewMatrix2Rotation θ))
        (numerical.NewMatrix2Rotation θ) = nm2 M2.one ∧
      numerical.Matrix2_Det (numerical.NewMatrix2Rotation θ) = 1 ∧
      model2d.Matrix2_Mul (model2d.Matrix2_Transpose (model2d.NewMatrix2Rotation θ))
        (model2d.NewMatrix2Rotation θ) = gm2 M2.one ∧
      model2d.Matrix2_Det (model2d.NewMatrix2Rotation θ) = 1 := by
  obtain ⟨h1, h2⟩ := M2.rotation_ortho (cos θ) (sin θ) hcs
  simp only [numerical_rotation2, model2d_rotation2]
  refine ⟨?_, ?_, ?_, ?_⟩
  · have : numerical.Matrix2_Mul (numerical.Matrix2_Transpose (nm2 (M2.rotation (cos θ) (sin θ))))
        (nm2 (M2.rotation (cos θ) (sin θ))) =
        nm2 ((M2.rotation (cos θ) (sin θ)).transpose.mul (M2.rotation (cos θ) (sin θ))) := by tie
    rw [this, h1]
  · have : numerical.Matrix2_Det (nm2 (M2.rotation (cos θ) (sin θ))) = (M2.rotation (cos θ) (sin θ)).det := by tie
    rw [this, h2]
  · have : model2d.Matrix2_Mul (model2d.Matrix2_Transpose (gm2 (M2.rotation (cos θ) (sin θ))))
        (gm2 (M2.rotation (cos θ) (sin θ))) =
        gm2 ((M2.rotation (cos θ) (sin θ)).transpose.mul (M2.rotation (cos θ) (sin θ))) := by tie
    rw [this, h1]
  · have : model2d.Matrix2_Det (gm2 (M2.rotation (cos θ) (sin θ))) = (M2.rotation (cos θ) (sin θ)).det := by tie
    rw [this, h2]

/-- non-vacuity at ℚ: the Pythagorean angle `(cos, sin) = (3/5, 4/5)` about the unit axis `(1/3, 2/3, 2/3)`; the
hypothesis on `sqrt` is satisfiable on the values that occur (the basis vectors have rational norms here). -/
example : (rotationIn (⟨1/3, 2/3, 2/3⟩ : V3 ℚ) ⟨2/3, 1/3, -2/3⟩ ⟨2/3, -2/3, 1/3⟩ (3/5) (4/5)).mulColumn ⟨1/3, 2/3, 2/3⟩ =
    ⟨1/3, 2/3, 2/3⟩ := by decide +kernel

end M3d.KernelsTie.Rotation
