import Mathlib.Tactic.Ring
import Mathlib.Tactic.LinearCombination
import Mathlib.Tactic.Linarith
import Mathlib.Tactic.Positivity
import Mathlib.Tactic.FieldSimp
import Mathlib.Algebra.Order.Field.Basic
import Mathlib.Algebra.Order.Ring.Cast
import Mathlib.Algebra.Order.Ring.Abs
import Mathlib.Algebra.Order.Floor.Ring
import Mathlib.Data.Rat.Floor
import M3d.Model.Numeric
/-!
Helper lemmas for C17: list polynomials (`numerical/polynomial.go`) over a field.
-/
namespace M3d.Num.Poly

variable {K : Type} [Field K]

@[simp] theorem evalSpec_nil (x : K) : evalSpec x ([] : List K) = 0 := by simp [evalSpec]
@[simp] theorem evalSpec_cons (x c : K) (cs : List K) :
    evalSpec x (c :: cs) = c + x * evalSpec x cs := rfl

/-- The accumulator loop of `Eval` computes `res + xP · p(x)`. -/
theorem evalAux_eq (x : K) (p : List K) (xP res : K) :
    evalAux x p xP res = res + xP * evalSpec x p := by
  induction p generalizing xP res with
  | nil => simp [evalAux]
  | cons c cs ih => simp only [evalAux, ih, evalSpec_cons]; ring

theorem eval_eq_spec (p : List K) (x : K) : eval p x = evalSpec x p := by
  simp only [eval, evalAux_eq]; push_cast; ring

theorem evalSpec_map_mul_right (x c : K) (p : List K) :
    evalSpec x (p.map (· * c)) = evalSpec x p * c := by
  induction p with
  | nil => simp
  | cons a as ih => simp only [List.map_cons, evalSpec_cons, ih]; ring

theorem evalSpec_map_mul_left (x c : K) (p : List K) :
    evalSpec x (p.map (c * ·)) = c * evalSpec x p := by
  induction p with
  | nil => simp
  | cons a as ih => simp only [List.map_cons, evalSpec_cons, ih]; ring

theorem evalSpec_map_zero_add (x : K) (p : List K) :
    evalSpec x (p.map (((0 : Nat) : K) + ·)) = evalSpec x p := by
  induction p with
  | nil => simp
  | cons a as ih => simp only [List.map_cons, evalSpec_cons, ih]; push_cast; ring

theorem evalSpec_addRaw (x : K) (p q : List K) :
    evalSpec x (addRaw p q) = evalSpec x p + evalSpec x q := by
  induction p generalizing q with
  | nil => simp [addRaw, evalSpec_map_zero_add]
  | cons a as ih =>
    cases q with
    | nil => simp only [addRaw, evalSpec_map_zero_add, evalSpec_nil, add_zero]
    | cons b bs => simp only [addRaw, evalSpec_cons, ih]; push_cast; ring

theorem evalSpec_addPlain (x : K) (p q : List K) :
    evalSpec x (addPlain p q) = evalSpec x p + evalSpec x q := by
  induction p generalizing q with
  | nil => simp [addPlain]
  | cons a as ih =>
    cases q with
    | nil => simp [addPlain]
    | cons b bs => simp only [addPlain, evalSpec_cons, ih]; ring

theorem evalSpec_trimZeros [DecidableEq K] (x : K) (p : List K) :
    evalSpec x (trimZeros p) = evalSpec x p := by
  induction p with
  | nil => simp [trimZeros]
  | cons c cs ih =>
    simp only [trimZeros]
    split
    · rename_i h
      rw [h] at ih
      split
      · rename_i hc
        simp only [evalSpec_nil, evalSpec_cons, ← ih, hc]; push_cast; ring
      · simp only [evalSpec_cons, ← ih]
    · simp only [evalSpec_cons, ih]

theorem evalSpec_mulAux (x : K) (p q : List K) :
    evalSpec x (mulAux p q) = evalSpec x p * evalSpec x q := by
  induction p with
  | nil => simp [mulAux]
  | cons a as ih =>
    cases as with
    | nil => simp [mulAux, evalSpec_map_mul_left]
    | cons a' as' =>
      simp only [mulAux, evalSpec_addPlain, evalSpec_map_mul_left, evalSpec_cons, ih]
      push_cast; ring

theorem evalSpec_mul (x : K) (p q : List K) :
    evalSpec x (mul p q) = evalSpec x p * evalSpec x q := by
  cases p with
  | nil => simp [mul]
  | cons a as =>
    cases q with
    | nil => simp [mul]
    | cons b bs => simp only [mul, evalSpec_mulAux]

theorem evalSpec_derivAux_succ (x : K) (i : Nat) (cs : List K) :
    evalSpec x (derivAux (i + 1) cs) = evalSpec x (derivAux i cs) + evalSpec x cs := by
  induction cs generalizing i with
  | nil => simp [derivAux]
  | cons c cs ih => simp only [derivAux, evalSpec_cons, ih]; push_cast; ring

/-- Synthetic division: `p(y) = (y − r)·q(y) + t` and `t = p(r)`. -/
theorem divAux_spec (r y : K) (p : List K) (hp : p ≠ []) :
    evalSpec y p = (y - r) * evalSpec y (divAux r p).1 + (divAux r p).2 ∧
      (divAux r p).2 = evalSpec r p := by
  induction p with
  | nil => exact absurd rfl hp
  | cons c cs ih =>
    cases cs with
    | nil => simp [divAux]
    | cons c' cs' =>
      obtain ⟨h1, h2⟩ := ih (by simp)
      simp only [divAux]
      constructor
      · rw [evalSpec_cons, h1]; simp only [evalSpec_cons]; ring
      · rw [h2]; simp only [evalSpec_cons]

end M3d.Num.Poly

/-! ### angles and closed-form roots -/
namespace M3d.Num

variable {K : Type} [Field K] [LinearOrder K] [IsStrictOrderedRing K]

/-- The behaviour of a truncation toward zero (the integer quotient inside `math.Mod`,
Go's `int(x)` conversion). -/
def IsTrunc (trunc : K → Int) : Prop :=
  ∀ x : K, (0 ≤ x → ((trunc x : Int) : K) ≤ x ∧ x < ((trunc x : Int) : K) + 1) ∧
           (x ≤ 0 → x ≤ ((trunc x : Int) : K) ∧ ((trunc x : Int) : K) - 1 < x)

theorem fmod_spec (trunc : K → Int) (ht : IsTrunc trunc) (τ θ : K) (hτ : 0 < τ) :
    ∃ n : Int, Angle.fmod trunc θ τ = θ - (n : K) * τ ∧
      (0 ≤ θ → 0 ≤ Angle.fmod trunc θ τ ∧ Angle.fmod trunc θ τ < τ) ∧
      (θ ≤ 0 → -τ < Angle.fmod trunc θ τ ∧ Angle.fmod trunc θ τ ≤ 0) := by
  refine ⟨trunc (θ / τ), rfl, ?_, ?_⟩
  · intro h
    have hq : 0 ≤ θ / τ := div_nonneg h hτ.le
    obtain ⟨h1, h2⟩ := (ht (θ / τ)).1 hq
    have e : θ = θ / τ * τ := by field_simp
    simp only [Angle.fmod]
    constructor
    · have := mul_le_mul_of_nonneg_right h1 hτ.le
      linarith
    · have := mul_lt_mul_of_pos_right h2 hτ
      linarith
  · intro h
    have hq : θ / τ ≤ 0 := div_nonpos_of_nonpos_of_nonneg h hτ.le
    obtain ⟨h1, h2⟩ := (ht (θ / τ)).2 hq
    have e : θ = θ / τ * τ := by field_simp
    simp only [Angle.fmod]
    constructor
    · have := mul_lt_mul_of_pos_right h2 hτ
      linarith
    · have := mul_le_mul_of_nonneg_right h1 hτ.le
      linarith

theorem abs'_eq (x : K) : Angle.abs' x = |x| := by
  simp only [Angle.abs']; push_cast
  split
  · rename_i h; rw [abs_of_neg h]
  · rename_i h; rw [abs_of_nonneg (not_lt.mp h)]

omit [Field K] [IsStrictOrderedRing K] in
theorem min'_eq (x y : K) : Angle.min' x y = min x y := by
  simp only [Angle.min']
  split
  · rename_i h; rw [min_eq_right h.le]
  · rename_i h; rw [min_eq_left (not_lt.mp h)]

theorem circ_min (τ x : K) (hτ : 0 < τ) (h1 : -τ < x) (h2 : x < τ) (j : Int) :
    min |x| (τ - |x|) ≤ |x + (j : K) * τ| := by
  rcases lt_trichotomy j 0 with hj | hj | hj
  · have : (j : K) ≤ -1 := by exact_mod_cast (Int.le_sub_one_of_lt hj)
    have hh : x + (j : K) * τ ≤ x - τ := by nlinarith
    have : |x + (j : K) * τ| = -(x + (j : K) * τ) := abs_of_neg (by linarith)
    rw [this]
    have := le_abs_self x
    exact (min_le_right _ _).trans (by linarith)
  · subst hj; simp
  · have : (1 : K) ≤ (j : K) := by exact_mod_cast hj
    have hh : x + τ ≤ x + (j : K) * τ := by nlinarith
    have : |x + (j : K) * τ| = x + (j : K) * τ := abs_of_pos (by linarith)
    rw [this]
    have := neg_abs_le x
    exact (min_le_right _ _).trans (by linarith)

omit [LinearOrder K] [IsStrictOrderedRing K] in
theorem strip_of_last_ne [DecidableEq K] (p : List K) (a : K) (ha : a ≠ 0) :
    Poly.stripLeadingZeros (p ++ [a]) = p ++ [a] := by
  induction p with
  | nil => simp [Poly.stripLeadingZeros, ha]
  | cons c cs ih =>
    simp only [List.cons_append, Poly.stripLeadingZeros, ih]
    cases cs <;> simp

omit [LinearOrder K] [IsStrictOrderedRing K] in
theorem strip_append_zero [DecidableEq K] (p : List K) :
    Poly.stripLeadingZeros (p ++ [0]) = Poly.stripLeadingZeros p := by
  induction p with
  | nil => simp [Poly.stripLeadingZeros]
  | cons c cs ih => simp only [List.cons_append, Poly.stripLeadingZeros, ih]

/-! ### Cauchy's root bound -/

theorem absP_eq (x : K) : Poly.absP x = |x| := by
  simp only [Poly.absP]; push_cast
  split
  · rename_i h; rw [abs_of_neg h]
  · rename_i h; rw [abs_of_nonneg (not_lt.mp h)]

theorem maxP_eq (x y : K) : Poly.maxP x y = max x y := by
  simp only [Poly.maxP]
  split
  · rename_i h; rw [max_eq_right h.le]
  · rename_i h; rw [max_eq_left (not_lt.mp h)]

theorem foldl_max_ge (g : K → K) (cs : List K) (init : K) :
    init ≤ cs.foldl (fun acc x => Poly.maxP acc (g x)) init ∧
      ∀ c ∈ cs, g c ≤ cs.foldl (fun acc x => Poly.maxP acc (g x)) init := by
  induction cs generalizing init with
  | nil => simp
  | cons c cs ih =>
    simp only [List.foldl_cons]
    obtain ⟨h1, h2⟩ := ih (Poly.maxP init (g c))
    rw [maxP_eq] at h1 ⊢
    refine ⟨(le_max_left _ _).trans h1, ?_⟩
    intro d hd
    rcases List.mem_cons.mp hd with rfl | hd
    · exact (le_max_right _ _).trans h1
    · rw [maxP_eq] at h2; exact h2 d hd

/-- Horner chain: if every non-leading coefficient is at most `M·|a|` in modulus and `|r| ≥ 1 + M`
then `|p(r)| ≥ |a|`. -/
theorem eval_ge_lead (cs : List K) (a r M : K) (hM : 0 ≤ M) (hc : ∀ c ∈ cs, |c| ≤ M * |a|)
    (hr : 1 + M ≤ |r|) : |a| ≤ |Poly.evalSpec r (cs ++ [a])| := by
  induction cs with
  | nil => simp
  | cons c cs ih =>
    have ih' := ih (fun d hd => hc d (List.mem_cons_of_mem _ hd))
    have hcc := hc c List.mem_cons_self
    simp only [List.cons_append, Poly.evalSpec_cons]
    set E := Poly.evalSpec r (cs ++ [a])
    have h1 : |r * E| = |r| * |E| := abs_mul r E
    have h2 : |r * E| - |c| ≤ |c + r * E| := by
      have := abs_sub_abs_le_abs_sub (r * E) (-c)
      rw [abs_neg, sub_neg_eq_add, add_comm] at this
      exact this
    have h3 : (1 + M) * |a| ≤ |r| * |E| :=
      mul_le_mul hr ih' (abs_nonneg a) (by linarith [abs_nonneg r])
    nlinarith [abs_nonneg a]


end M3d.Num
