import M3d.Gen.Kernels
import M3d.Model.Transform
import M3d.Model.Transform2
import Mathlib.Tactic.Ring
import Mathlib.Tactic.SplitIfs
import Mathlib.Algebra.Order.Field.Basic
/-!
# Tie between the REGENERATED kernels and the transform vocabulary of C05 (`M3d/Model/Transform.lean`)

`Apply`, `ApplyBounds`, `ApplyDistance` of `Translate`, `Scale`, `VecScale`, `Matrix3Transform`, the ortho
wrapper, and the `Matrix3`/`Matrix2` algebra (`Det`, `Inverse`, `MulColumn`, `MulColumnInv`, `Mul`,
`Transpose`) as the Go source defines them NOW (`M3d/Gen/Kernels.lean`, regenerated on every run) are the
clauses of `Xf.apply`, `Xf.applyBounds`, `Xf.applyDistance` and the `M3`/`M2` functions the C05 theorems are
about, over every linear ordered field.
-/
namespace M3d.KernelsTie.Transform
open M3d.Tf M3d.Gen.Kernels
set_option linter.unusedSectionVars false
set_option linter.unusedVariables false
set_option linter.unusedSimpArgs false
set_option linter.unreachableTactic false
set_option linter.unusedTactic false

variable {K : Type} [Field K] [LinearOrder K] [IsStrictOrderedRing K]

@[reducible] def g3 (a : V3 K) : model3d.Coord3D K := ⟨a.x, a.y, a.z⟩
@[reducible] def g2 (a : V2 K) : model2d.Coord K := ⟨a.x, a.y⟩
@[reducible] def gm3 (m : M3 K) : model3d.Matrix3 K := ⟨m.a0, m.a1, m.a2, m.a3, m.a4, m.a5, m.a6, m.a7, m.a8⟩
@[reducible] def gm2 (m : M2 K) : model2d.Matrix2 K := ⟨m.a0, m.a1, m.a2, m.a3⟩

theorem mn_eq (a b : K) : GenPrelude.mn a b = Tf.mn a b := by
  unfold GenPrelude.mn Tf.mn
  split_ifs with h1 h2 h2
  · exact absurd h2 (not_le.mpr h1)
  · rfl
  · rfl
  · exact le_antisymm (not_lt.mp h1) (le_of_lt (not_le.mp h2))
theorem mx_eq (a b : K) : GenPrelude.mx a b = Tf.mx a b := by
  unfold GenPrelude.mx Tf.mx
  split_ifs with h1 h2 h2
  · rfl
  · exact absurd (le_of_lt h1) h2
  · exact le_antisymm (not_lt.mp h1) h2 |>.symm
  · rfl
theorem absS_eq (a : K) : GenPrelude.absS a = Tf.absS a := by
  unfold GenPrelude.absS Tf.absS
  split_ifs with h1 h2 h2
  · rfl
  · exact absurd (le_of_lt h1) h2
  · have : a = 0 := le_antisymm (not_lt.mp h1) h2
    subst this; simp
  · simp

/-! ## vectors -/
theorem add3 (a b : V3 K) : model3d.Coord3D_Add (g3 a) (g3 b) = g3 (a.add b) := rfl
theorem scale3 (a : V3 K) (s : K) : model3d.Coord3D_Scale (g3 a) s = g3 (a.scale s) := rfl
theorem mul3 (a b : V3 K) : model3d.Coord3D_Mul (g3 a) (g3 b) = g3 (a.mul b) := rfl
theorem recip3 (a : V3 K) : model3d.Coord3D_Recip (g3 a) = g3 a.recip := rfl
theorem dot3 (a b : V3 K) : model3d.Coord3D_Dot (g3 a) (g3 b) = a.dot b := rfl
theorem min3 (a b : V3 K) : model3d.Coord3D_Min (g3 a) (g3 b) = g3 (a.min b) := by
  simp [model3d.Coord3D_Min, g3, V3.min, mn_eq]
theorem max3 (a b : V3 K) : model3d.Coord3D_Max (g3 a) (g3 b) = g3 (a.max b) := by
  simp [model3d.Coord3D_Max, g3, V3.max, mx_eq]
theorem abs3 (a : V3 K) : model3d.Coord3D_Abs (g3 a) = g3 a.abs := by
  simp [model3d.Coord3D_Abs, g3, V3.abs, absS_eq]
theorem sub3 (a b : V3 K) : model3d.Coord3D_Sub (g3 a) (g3 b) = g3 (a.sub b) := by
  cases a; cases b
  simp [model3d.Coord3D_Sub, model3d.Coord3D_Add, model3d.Coord3D_Scale, g3, V3.sub]
  try (refine ⟨?_, ?_, ?_⟩ <;> ring)

/-! ## `Matrix3` -/
theorem det3 (m : M3 K) : model3d.Matrix3_Det (gm3 m) = m.det := rfl
theorem inverse3 (m : M3 K) : model3d.Matrix3_Inverse (gm3 m) = gm3 m.inverse := rfl
theorem mulColumn3 (m : M3 K) (c : V3 K) : model3d.Matrix3_MulColumn (gm3 m) (g3 c) = g3 (m.mulColumn c) := rfl
theorem mulColumnInv3 (m : M3 K) (c : V3 K) (d : K) :
    model3d.Matrix3_MulColumnInv (gm3 m) (g3 c) d = g3 (m.mulColumnInv c d) := rfl
theorem mul3m (m n : M3 K) : model3d.Matrix3_Mul (gm3 m) (gm3 n) = gm3 (m.mul n) := rfl
theorem transpose3 (m : M3 K) : model3d.Matrix3_Transpose (gm3 m) = gm3 m.transpose := rfl
theorem columns3 (a b c : V3 K) : model3d.NewMatrix3Columns (g3 a) (g3 b) (g3 c) = gm3 (M3.ofColumns a b c) := rfl

/-! ## the transforms: `Apply`, `ApplyBounds`, `ApplyDistance` clause by clause -/
theorem translate_apply (o c : V3 K) : model3d.Translate_Apply ⟨g3 o⟩ (g3 c) = g3 ((Xf.translate o).apply c) := rfl
theorem translate_bounds (o lo hi : V3 K) :
    model3d.Translate_ApplyBounds ⟨g3 o⟩ (g3 lo) (g3 hi) =
      (g3 ((Xf.translate o).applyBounds lo hi).1, g3 ((Xf.translate o).applyBounds lo hi).2) := rfl
theorem translate_distance (o : V3 K) (d : K) :
    model3d.Translate_ApplyDistance ⟨g3 o⟩ d = (Xf.translate o).applyDistance d := rfl

theorem scale_apply (s : K) (c : V3 K) : model3d.Scale_Apply ⟨s⟩ (g3 c) = g3 ((Xf.scale s).apply c) := rfl
theorem scale_bounds (s : K) (lo hi : V3 K) :
    model3d.Scale_ApplyBounds ⟨s⟩ (g3 lo) (g3 hi) =
      (g3 ((Xf.scale s).applyBounds lo hi).1, g3 ((Xf.scale s).applyBounds lo hi).2) := by
  simp only [model3d.Scale_ApplyBounds, Xf.applyBounds, scale3, min3, max3]
theorem scale_distance (s d : K) : model3d.Scale_ApplyDistance ⟨s⟩ d = (Xf.scale s).applyDistance d := by
  simp only [model3d.Scale_ApplyDistance, Xf.applyDistance, absS_eq]

theorem vecScale_apply (v c : V3 K) : model3d.VecScale_Apply ⟨g3 v⟩ (g3 c) = g3 ((Xf.vecScale v).apply c) := rfl
theorem vecScale_bounds (v lo hi : V3 K) :
    model3d.VecScale_ApplyBounds ⟨g3 v⟩ (g3 lo) (g3 hi) =
      (g3 ((Xf.vecScale v).applyBounds lo hi).1, g3 ((Xf.vecScale v).applyBounds lo hi).2) := by
  simp only [model3d.VecScale_ApplyBounds, Xf.applyBounds, mul3, min3, max3]

theorem matrix_apply (m : M3 K) (c : V3 K) :
    model3d.Matrix3Transform_Apply ⟨gm3 m⟩ (g3 c) = g3 ((Xf.matrix m).apply c) := rfl
theorem ortho_distance (m : M3 K) (d : K) :
    model3d.orthoMatrix3Transform_ApplyDistance ⟨⟨gm3 m⟩⟩ d = (Xf.ortho m).applyDistance d := rfl

/-! ## `Matrix2` -/
theorem det2 (m : M2 K) : model2d.Matrix2_Det (gm2 m) = m.det := rfl
theorem inverse2 (m : M2 K) : model2d.Matrix2_Inverse (gm2 m) = gm2 m.inverse := rfl
theorem mulColumn2 (m : M2 K) (c : V2 K) : model2d.Matrix2_MulColumn (gm2 m) (g2 c) = g2 (m.mulColumn c) := rfl
theorem mulColumnInv2 (m : M2 K) (c : V2 K) (d : K) :
    model2d.Matrix2_MulColumnInv (gm2 m) (g2 c) d = g2 (m.mulColumnInv c d) := rfl
theorem mul2m (m n : M2 K) : model2d.Matrix2_Mul (gm2 m) (gm2 n) = gm2 (m.mul n) := rfl
theorem transpose2 (m : M2 K) : model2d.Matrix2_Transpose (gm2 m) = gm2 m.transpose := rfl

/-! ## the 2-D instance (`model2d/transform.go`, `model2d/coords.go`) against `M3d/Model/Transform2.lean` -/
theorem add2 (a b : V2 K) : model2d.Coord_Add (g2 a) (g2 b) = g2 (a.add b) := rfl
theorem scale2 (a : V2 K) (s : K) : model2d.Coord_Scale (g2 a) s = g2 (a.scale s) := rfl
theorem mul2 (a b : V2 K) : model2d.Coord_Mul (g2 a) (g2 b) = g2 (a.mul b) := rfl
theorem recip2 (a : V2 K) : model2d.Coord_Recip (g2 a) = g2 a.recip := rfl
theorem dot2 (a b : V2 K) : model2d.Coord_Dot (g2 a) (g2 b) = a.dot b := rfl
theorem min2 (a b : V2 K) : model2d.Coord_Min (g2 a) (g2 b) = g2 (a.min b) := by
  simp [model2d.Coord_Min, g2, V2.min, mn_eq]
theorem max2 (a b : V2 K) : model2d.Coord_Max (g2 a) (g2 b) = g2 (a.max b) := by
  simp [model2d.Coord_Max, g2, V2.max, mx_eq]
theorem abs2 (a : V2 K) : model2d.Coord_Abs (g2 a) = g2 a.abs := by
  simp [model2d.Coord_Abs, g2, V2.abs, absS_eq]
theorem sub2 (a b : V2 K) : model2d.Coord_Sub (g2 a) (g2 b) = g2 (a.sub b) := by
  cases a; cases b
  simp [model2d.Coord_Sub, model2d.Coord_Add, model2d.Coord_Scale, g2, V2.sub]
  try (refine ⟨?_, ?_⟩ <;> ring)

theorem translate_apply2 (o c : V2 K) : model2d.Translate_Apply ⟨g2 o⟩ (g2 c) = g2 ((Xf2.translate o).apply c) := rfl
theorem translate_bounds2 (o lo hi : V2 K) :
    model2d.Translate_ApplyBounds ⟨g2 o⟩ (g2 lo) (g2 hi) =
      (g2 ((Xf2.translate o).applyBounds lo hi).1, g2 ((Xf2.translate o).applyBounds lo hi).2) := rfl
theorem translate_distance2 (o : V2 K) (d : K) :
    model2d.Translate_ApplyDistance ⟨g2 o⟩ d = (Xf2.translate o).applyDistance d := rfl

theorem scale_apply2 (s : K) (c : V2 K) : model2d.Scale_Apply ⟨s⟩ (g2 c) = g2 ((Xf2.scale s).apply c) := rfl
theorem scale_bounds2 (s : K) (lo hi : V2 K) :
    model2d.Scale_ApplyBounds ⟨s⟩ (g2 lo) (g2 hi) =
      (g2 ((Xf2.scale s).applyBounds lo hi).1, g2 ((Xf2.scale s).applyBounds lo hi).2) := by
  simp only [model2d.Scale_ApplyBounds, Xf2.applyBounds, scale2, min2, max2]
theorem scale_distance2 (s d : K) : model2d.Scale_ApplyDistance ⟨s⟩ d = (Xf2.scale s).applyDistance d := by
  simp only [model2d.Scale_ApplyDistance, Xf2.applyDistance, absS_eq]

theorem vecScale_apply2 (v c : V2 K) : model2d.VecScale_Apply ⟨g2 v⟩ (g2 c) = g2 ((Xf2.vecScale v).apply c) := rfl
theorem vecScale_bounds2 (v lo hi : V2 K) :
    model2d.VecScale_ApplyBounds ⟨g2 v⟩ (g2 lo) (g2 hi) =
      (g2 ((Xf2.vecScale v).applyBounds lo hi).1, g2 ((Xf2.vecScale v).applyBounds lo hi).2) := by
  simp only [model2d.VecScale_ApplyBounds, Xf2.applyBounds, mul2, min2, max2]

theorem matrix_apply2 (m : M2 K) (c : V2 K) :
    model2d.Matrix2Transform_Apply ⟨gm2 m⟩ (g2 c) = g2 ((Xf2.matrix m).apply c) := rfl
theorem ortho_distance2 (m : M2 K) (d : K) :
    model2d.orthoMatrix2Transform_ApplyDistance ⟨⟨gm2 m⟩⟩ d = (Xf2.ortho m).applyDistance d := rfl

/-! ## `Normalize`, `MaxCoord`, `OrthoBasis` and the rotation matrices (`math.Sqrt` = `sq`, `math.Cos/Sin` = the
uninterpreted `HasLibm.cos/sin`): the generated `NewMatrix3Rotation` / `NewMatrix2Rotation` are `rotation3` / `M2.rotation`
of the model, i.e. exactly the matrices `M3d.C05.rotation3_orthogonal` / `rotation2_orthogonal` are about. -/
@[reducible] def sqrtOf (sq : K → K) : GenPrelude.HasSqrt K := ⟨sq⟩
variable (sq : K → K)

theorem normalize3 (a : V3 K) :
    (letI := sqrtOf sq; model3d.Coord3D_Normalize (g3 a)) = g3 (a.normalize sq) := rfl
theorem normalize2 (a : V2 K) :
    (letI := sqrtOf sq; model2d.Coord_Normalize (g2 a)) = g2 (a.normalize sq) := rfl
theorem maxCoord3 (a : V3 K) : model3d.Coord3D_MaxCoord (g3 a) = a.maxCoord := by
  simp only [model3d.Coord3D_MaxCoord, V3.maxCoord, gt_iff_lt, decide_eq_true_eq]
theorem maxCoord2 (a : V2 K) : model2d.Coord_MaxCoord (g2 a) = a.maxCoord := by
  simp only [model2d.Coord_MaxCoord, V2.maxCoord, mx_eq]

theorem orthoBasis3 (a : V3 K) :
    (letI := sqrtOf sq; model3d.Coord3D_OrthoBasis (g3 a)) = (g3 (orthoBasis sq a).1, g3 (orthoBasis sq a).2) := by
  simp only [model3d.Coord3D_OrthoBasis, orthoBasis, absS_eq, gt_iff_lt, Bool.and_eq_true, decide_eq_true_eq]
  split_ifs <;> rfl

theorem rotation3_eq [GenPrelude.HasLibm K] (axis : V3 K) (θ : K) :
    (letI := sqrtOf sq; model3d.NewMatrix3Rotation (g3 axis) θ) =
      gm3 (rotation3 sq axis (GenPrelude.HasLibm.cos θ) (GenPrelude.HasLibm.sin θ)) := by
  simp only [model3d.NewMatrix3Rotation, orthoBasis3, rotation3, rotationIn, rotX]
  rfl

theorem rotation2_eq [GenPrelude.HasLibm K] (θ : K) :
    model2d.NewMatrix2Rotation θ = gm2 (M2.rotation (GenPrelude.HasLibm.cos θ) (GenPrelude.HasLibm.sin θ)) := rfl

/-- `Matrix3Transform.ApplyBounds`: the three nested loops over `[]float64{min, max}` (unrolled by the
translator, with their `i == 0 && j == 0 && k == 0` first-corner test) are the running min/max over the eight
corner images of the model. -/
theorem matrix_bounds (m : M3 K) (lo hi : V3 K) :
    model3d.Matrix3Transform_ApplyBounds ⟨gm3 m⟩ (g3 lo) (g3 hi) =
      (g3 ((Xf.matrix m).applyBounds lo hi).1, g3 ((Xf.matrix m).applyBounds lo hi).2) := by
  simp only [model3d.Matrix3Transform_ApplyBounds, Xf.applyBounds, Xf.matrixBounds, Xf.cornerImages, List.foldl,
    show ∀ x y z : K, model3d.XYZ x y z = g3 ⟨x, y, z⟩ from fun _ _ _ => rfl, mulColumn3]
  simp [min3, max3]

/-- `Matrix2Transform.ApplyBounds` (2-D): the two nested loops over `[]float64{min, max}`, unrolled, are the running
min/max over the four corner images of the model (`Xf2.matrixBounds`). -/
theorem matrix_bounds2 (m : M2 K) (lo hi : V2 K) :
    model2d.Matrix2Transform_ApplyBounds ⟨gm2 m⟩ (g2 lo) (g2 hi) =
      (g2 ((Xf2.matrix m).applyBounds lo hi).1, g2 ((Xf2.matrix m).applyBounds lo hi).2) := by
  simp only [model2d.Matrix2Transform_ApplyBounds, Xf2.applyBounds, Xf2.matrixBounds, List.foldl,
    show ∀ x y : K, model2d.XY x y = g2 ⟨x, y⟩ from fun _ _ => rfl, mulColumn2]
  simp [min2, max2]

end M3d.KernelsTie.Transform
