import M3d.Gen.Kernels
import M3d.Model.Transform
import Mathlib.Tactic.Ring
import Mathlib.Tactic.SplitIfs
import Mathlib.Algebra.Order.Field.Basic
/-!
# Tie between the REGENERATED kernels and the transform vocabulary of C05 (`M3d/Model/Transform.lean`)

`Apply`, `ApplyBounds`, `ApplyDistance` of `Translate`, `Scale`, `VecScale`, `Matrix3Transform`, the ortho
wrapper, and the `Matrix3`/`Matrix2` algebra (`Det`, `Inverse`, `MulColumn`, `MulColumnInv`, `Mul`,
`Transpose`) as the Go source defines them NOW (`M3d/Gen/Kernels.lean`, regenerated on every run) are the
clauses of `Xf.apply`, `Xf.applyBounds`, `Xf.applyDistance` and the `M3`/`M2` functions the C05 theorems are
about, over every linear ordered field.
-/
namespace M3d.KernelsTie.Transform
open M3d.Tf M3d.Gen.Kernels
set_option linter.unusedSectionVars false
set_option linter.unusedVariables false
set_option linter.unusedSimpArgs false
set_option linter.unreachableTactic false
set_option linter.unusedTactic false

variable {K : Type} [Field K] [LinearOrder K] [IsStrictOrderedRing K]

@[reducible] def g3 (a : V3 K) : model3d.Coord3D K := ⟨a.x, a.y, a.z⟩
@[reducible] def g2 (a : V2 K) : model2d.Coord K := ⟨a.x, a.y⟩
@[reducible] def gm3 (m : M3 K) : model3d.Matrix3 K := ⟨m.a0, m.a1, m.a2, m.a3, m.a4, m.a5, m.a6, m.a7, m.a8⟩
@[reducible] def gm2 (m : M2 K) : model2d.Matrix2 K := ⟨m.a0, m.a1, m.a2, m.a3⟩

theorem mn_eq (a b : K) : GenPrelude.mn a b = Tf.mn a b := by
  unfold GenPrelude.mn Tf.mn
  split_ifs with h1 h2 h2
  · exact absurd h2 (not_le.mpr h1)
  · rfl
  · rfl
  · exact le_antisymm (not_lt.mp h1) (le_of_lt (not_le.mp h2))
theorem mx_eq (a b : K) : GenPrelude.mx a b = Tf.mx a b := by
  unfold GenPrelude.mx Tf.mx
  split_ifs with h1 h2 h2
  · rfl
  · exact absurd (le_of_lt h1) h2
  · exact le_antisymm (not_lt.mp h1) h2 |>.symm
  · rfl
theorem absS_eq (a : K) : GenPrelude.absS a = Tf.absS a := by
  unfold GenPrelude.absS Tf.absS
  split_ifs with h1 h2 h2
  · rfl
  · exact absurd (le_of_lt h1) h2
  · have : a = 0 := le_antisymm (not_lt.mp h1) h2
    subst this; simp
  · simp

/-! ## vectors -/
theorem add3 (a b : V3 K) : model3d.Coord3D_Add (g3 a) (g3 b) = g3 (a.add b) := rfl
theorem scale3 (a : V3 K) (s : K) : model3d.Coord3D_Scale (g3 a) s = g3 (a.scale s) := rfl
theorem mul3 (a b : V3 K) : model3d.Coord3D_Mul (g3 a) (g3 b) = g3 (a.mul b) := rfl
theorem recip3 (a : V3 K) : model3d.Coord3D_Recip (g3 a) = g3 a.recip := rfl
theorem dot3 (a b : V3 K) : model3d.Coord3D_Dot (g3 a) (g3 b) = a.dot b := rfl
theorem min3 (a b : V3 K) : model3d.Coord3D_Min (g3 a) (g3 b) = g3 (a.min b) := by
  simp [model3d.Coord3D_Min, g3, V3.min, mn_eq]
theorem max3 (a b : V3 K) : model3d.Coord3D_Max (g3 a) (g3 b) = g3 (a.max b) := by
  simp [model3d.Coord3D_Max, g3, V3.max, mx_eq]
theorem abs3 (a : V3 K) : model3d.Coord3D_Abs (g3 a) = g3 a.abs := by
  simp [model3d.Coord3D_Abs, g3, V3.abs, absS_eq]
theorem sub3 (a b : V3 K) : model3d.Coord3D_Sub (g3 a) (g3 b) = g3 (a.sub b) := by
  cases a; cases b
  simp [model3d.Coord3D_Sub, model3d.Coord3D_Add, model3d.Coord3D_Scale, g3, V3.sub]
  try (refine ⟨?_, ?_, ?_⟩ <;> ring)

/-! ## `Matrix3` -/
theorem det3 (m : M3 K) : model3d.Matrix3_Det (gm3 m) = m.det := rfl
theorem inverse3 (m : M3 K) : model3d.Matrix3_Inverse (gm3 m) = gm3 m.inverse := rfl
theorem mulColumn3 (m : M3 K) (c : V3 K) : model3d.Matrix3_MulColumn (gm3 m) (g3 c) = g3 (m.mulColumn c) := rfl
theorem mulColumnInv3 (m : M3 K) (c : V3 K) (d : K) :
    model3d.Matrix3_MulColumnInv (gm3 m) (g3 c) d = g3 (m.mulColumnInv c d) := rfl
theorem mul3m (m n : M3 K) : model3d.Matrix3_Mul (gm3 m) (gm3 n) = gm3 (m.mul n) := rfl
theorem transpose3 (m : M3 K) : model3d.Matrix3_Transpose (gm3 m) = gm3 m.transpose := rfl
theorem columns3 (a b c : V3 K) : model3d.NewMatrix3Columns (g3 a) (g3 b) (g3 c) = gm3 (M3.ofColumns a b c) := rfl

/-! ## the transforms: `Apply`, `ApplyBounds`, `ApplyDistance` clause by clause -/
theorem translate_apply (o c : V3 K) : model3d.Translate_Apply ⟨g3 o⟩ (g3 c) = g3 ((Xf.translate o).apply c) := rfl
theorem translate_bounds (o lo hi : V3 K) :
    model3d.Translate_ApplyBounds ⟨g3 o⟩ (g3 lo) (g3 hi) =
      (g3 ((Xf.translate o).applyBounds lo hi).1, g3 ((Xf.translate o).applyBounds lo hi).2) := rfl
theorem translate_distance (o : V3 K) (d : K) :
    model3d.Translate_ApplyDistance ⟨g3 o⟩ d = (Xf.translate o).applyDistance d := rfl

theorem scale_apply (s : K) (c : V3 K) : model3d.Scale_Apply ⟨s⟩ (g3 c) = g3 ((Xf.scale s).apply c) := rfl
theorem scale_bounds (s : K) (lo hi : V3 K) :
    model3d.Scale_ApplyBounds ⟨s⟩ (g3 lo) (g3 hi) =
      (g3 ((Xf.scale s).applyBounds lo hi).1, g3 ((Xf.scale s).applyBounds lo hi).2) := by
  simp only [model3d.Scale_ApplyBounds, Xf.applyBounds, scale3, min3, max3]
theorem scale_distance (s d : K) : model3d.Scale_ApplyDistance ⟨s⟩ d = (Xf.scale s).applyDistance d := by
  simp only [model3d.Scale_ApplyDistance, Xf.applyDistance, absS_eq]

theorem vecScale_apply (v c : V3 K) : model3d.VecScale_Apply ⟨g3 v⟩ (g3 c) = g3 ((Xf.vecScale v).apply c) := rfl
theorem vecScale_bounds (v lo hi : V3 K) :
    model3d.VecScale_ApplyBounds ⟨g3 v⟩ (g3 lo) (g3 hi) =
      (g3 ((Xf.vecScale v).applyBounds lo hi).1, g3 ((Xf.vecScale v).applyBounds lo hi).2) := by
  simp only [model3d.VecScale_ApplyBounds, Xf.applyBounds, mul3, min3, max3]

theorem matrix_apply (m : M3 K) (c : V3 K) :
    model3d.Matrix3Transform_Apply ⟨gm3 m⟩ (g3 c) = g3 ((Xf.matrix m).apply c) := rfl
theorem ortho_distance (m : M3 K) (d : K) :
    model3d.orthoMatrix3Transform_ApplyDistance ⟨⟨gm3 m⟩⟩ d = (Xf.ortho m).applyDistance d := rfl

/-! ## `Matrix2` -/
theorem det2 (m : M2 K) : model2d.Matrix2_Det (gm2 m) = m.det := rfl
theorem inverse2 (m : M2 K) : model2d.Matrix2_Inverse (gm2 m) = gm2 m.inverse := rfl
theorem mulColumn2 (m : M2 K) (c : V2 K) : model2d.Matrix2_MulColumn (gm2 m) (g2 c) = g2 (m.mulColumn c) := rfl
theorem mulColumnInv2 (m : M2 K) (c : V2 K) (d : K) :
    model2d.Matrix2_MulColumnInv (gm2 m) (g2 c) d = g2 (m.mulColumnInv c d) := rfl
theorem mul2m (m n : M2 K) : model2d.Matrix2_Mul (gm2 m) (gm2 n) = gm2 (m.mul n) := rfl
theorem transpose2 (m : M2 K) : model2d.Matrix2_Transpose (gm2 m) = gm2 m.transpose := rfl

end M3d.KernelsTie.Transform
