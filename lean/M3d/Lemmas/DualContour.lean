import M3d.Model.DualContour
import Mathlib.Algebra.Order.Field.Basic
import Mathlib.Tactic.Linarith
import Mathlib.Tactic.Ring
import Mathlib.Tactic.Positivity
/-!
# Dual contouring: index arithmetic, quad topology and orientation, clipping

All statements are for every grid size.
-/
namespace M3d.DC
set_option linter.unusedSimpArgs false

/-! ### `cubeAt` -/

theorem cubeAt_some (nx ny rows : Nat) (x y z : Int) (c : Nat × Nat × Nat) :
    cubeAt nx ny rows x y z = some c ↔
      (0 ≤ x ∧ 0 ≤ y ∧ 0 ≤ z ∧ x < (nx:Int) - 1 ∧ y < (ny:Int) - 1 ∧ z < (rows:Int) - 1 ∧
        (c.1 : Int) = x ∧ (c.2.1 : Int) = y ∧ (c.2.2 : Int) = z) := by
  unfold cubeAt
  rcases c with ⟨a, b, d⟩
  by_cases h : (z < 0 || x < 0 || y < 0 || x ≥ (nx : Int) - 1 || y ≥ (ny : Int) - 1 || z ≥ (rows : Int) - 1) = true
  · rw [if_pos h]
    simp only [Bool.or_eq_true, decide_eq_true_eq] at h
    constructor
    · intro h'; cases h'
    · intro h'; omega
  · rw [if_neg h]
    simp only [Bool.or_eq_true, decide_eq_true_eq, not_or, Int.not_lt, Int.not_le] at h
    simp only [Option.some.injEq, Prod.mk.injEq]
    constructor
    · intro h'; omega
    · intro h'; omega

theorem cubeAt_of_valid (nx ny rows x y z : Nat) (h : validCube nx ny rows x y z = true) :
    cubeAt nx ny rows x y z = some (x, y, z) := by
  simp only [validCube, Bool.and_eq_true, decide_eq_true_eq] at h
  rw [cubeAt_some]; omega

/-! ### coordinate form of `c ∈ EdgeCubes(e) ⇔ e ∈ CubeEdges(c)` -/

theorem edgeCubesC_mem_iff (nx ny rows : Nat) (e : EdgeC) (c : Nat × Nat × Nat)
    (he : validEdge nx ny rows e = true) (hc : validCube nx ny rows c.1 c.2.1 c.2.2 = true) :
    some c ∈ edgeCubesC nx ny rows e ↔ e ∈ cubeEdgesC c.1 c.2.1 c.2.2 := by
  rcases e with ⟨ax, x, y, z⟩
  rcases c with ⟨cx, cy, cz⟩
  simp only [validCube, Bool.and_eq_true, decide_eq_true_eq] at hc
  have d01 : ((0:Nat) = 1) = False := by decide
  have d02 : ((0:Nat) = 2) = False := by decide
  have d10 : ((1:Nat) = 0) = False := by decide
  have d12 : ((1:Nat) = 2) = False := by decide
  have d20 : ((2:Nat) = 0) = False := by decide
  have d21 : ((2:Nat) = 1) = False := by decide
  match ax, he with
  | 0, he =>
    simp only [validEdge, Bool.and_eq_true, decide_eq_true_eq] at he
    simp only [edgeCubesC, cubeEdgesC, List.mem_cons, List.not_mem_nil, or_false, EdgeC.mk.injEq,
      eq_comm (a := some (cx, cy, cz)), cubeAt_some, d01, d02, false_and, true_and, false_or]
    constructor
    · rintro (h|h|h|h) <;> omega
    · rintro (h|h|h|h) <;> omega
  | 1, he =>
    simp only [validEdge, Bool.and_eq_true, decide_eq_true_eq] at he
    simp only [edgeCubesC, cubeEdgesC, List.mem_cons, List.not_mem_nil, or_false, EdgeC.mk.injEq,
      eq_comm (a := some (cx, cy, cz)), cubeAt_some, d10, d12, false_and, true_and, false_or]
    constructor
    · rintro (h|h|h|h) <;> omega
    · rintro (h|h|h|h) <;> omega
  | 2, he =>
    simp only [validEdge, Bool.and_eq_true, decide_eq_true_eq] at he
    simp only [edgeCubesC, cubeEdgesC, List.mem_cons, List.not_mem_nil, or_false, EdgeC.mk.injEq,
      eq_comm (a := some (cx, cy, cz)), cubeAt_some, d20, d21, false_and, true_and, false_or]
    constructor
    · rintro (h|h|h|h) <;> omega
    · rintro (h|h|h|h) <;> omega
  | n + 3, he => simp [validEdge] at he

/-- An edge is interior when the four cells round it all exist. -/
def interiorEdge (nx ny rows : Nat) (e : EdgeC) : Bool :=
  match e.axis with
  | 0 => e.x + 1 < nx && 1 ≤ e.y && e.y + 1 < ny && 1 ≤ e.z && e.z + 1 < rows
  | 1 => 1 ≤ e.x && e.x + 1 < nx && e.y + 1 < ny && 1 ≤ e.z && e.z + 1 < rows
  | 2 => 1 ≤ e.x && e.x + 1 < nx && 1 ≤ e.y && e.y + 1 < ny && e.z + 1 < rows
  | _ => false

/-- The explicit four cells of an interior edge, in `EdgeCubes` order. -/
def fourCells (e : EdgeC) : List (Nat × Nat × Nat) :=
  match e.axis with
  | 0 => [(e.x, e.y, e.z-1), (e.x, e.y-1, e.z-1), (e.x, e.y-1, e.z), (e.x, e.y, e.z)]
  | 1 => [(e.x-1, e.y, e.z), (e.x-1, e.y, e.z-1), (e.x, e.y, e.z-1), (e.x, e.y, e.z)]
  | _ => [(e.x, e.y-1, e.z), (e.x-1, e.y-1, e.z), (e.x-1, e.y, e.z), (e.x, e.y, e.z)]

theorem edgeCubesC_interior (nx ny rows : Nat) (e : EdgeC) (h : interiorEdge nx ny rows e = true) :
    edgeCubesC nx ny rows e = (fourCells e).map some := by
  rcases e with ⟨ax, x, y, z⟩
  match ax, h with
  | 0, h =>
    simp only [interiorEdge, Bool.and_eq_true, decide_eq_true_eq] at h
    simp only [edgeCubesC, fourCells, List.map_cons, List.map_nil, List.cons.injEq, and_true, cubeAt_some]
    omega
  | 1, h =>
    simp only [interiorEdge, Bool.and_eq_true, decide_eq_true_eq] at h
    simp only [edgeCubesC, fourCells, List.map_cons, List.map_nil, List.cons.injEq, and_true, cubeAt_some]
    omega
  | 2, h =>
    simp only [interiorEdge, Bool.and_eq_true, decide_eq_true_eq] at h
    simp only [edgeCubesC, fourCells, List.map_cons, List.map_nil, List.cons.injEq, and_true, cubeAt_some]
    omega
  | n + 3, h => simp [interiorEdge] at h

/-- A border edge misses at least one of its four cells (`appendMesh` would panic on it). -/
theorem edgeCubesC_border (nx ny rows : Nat) (e : EdgeC) (hv : validEdge nx ny rows e = true)
    (h : interiorEdge nx ny rows e = false) : none ∈ edgeCubesC nx ny rows e := by
  rcases e with ⟨ax, x, y, z⟩
  have hn : ∀ a b c : Int, (cubeAt nx ny rows a b c = none) ↔
      (c < 0 ∨ a < 0 ∨ b < 0 ∨ a ≥ (nx:Int) - 1 ∨ b ≥ (ny:Int) - 1 ∨ c ≥ (rows:Int) - 1) := by
    intro a b c
    unfold cubeAt
    by_cases hh : (c < 0 || a < 0 || b < 0 || a ≥ (nx : Int) - 1 || b ≥ (ny : Int) - 1 || c ≥ (rows : Int) - 1) = true
    · rw [if_pos hh]; simp only [Bool.or_eq_true, decide_eq_true_eq] at hh; simp only [true_iff]; omega
    · rw [if_neg hh]; simp only [Bool.or_eq_true, decide_eq_true_eq] at hh; simp only [reduceCtorEq, false_iff]; omega
  match ax, hv, h with
  | 0, hv, h =>
    simp only [validEdge, Bool.and_eq_true, decide_eq_true_eq] at hv
    simp only [interiorEdge, Bool.and_eq_false_iff, decide_eq_false_iff_not] at h
    simp only [edgeCubesC, List.mem_cons, List.not_mem_nil, or_false, eq_comm (a := none), hn]
    omega
  | 1, hv, h =>
    simp only [validEdge, Bool.and_eq_true, decide_eq_true_eq] at hv
    simp only [interiorEdge, Bool.and_eq_false_iff, decide_eq_false_iff_not] at h
    simp only [edgeCubesC, List.mem_cons, List.not_mem_nil, or_false, eq_comm (a := none), hn]
    omega
  | 2, hv, h =>
    simp only [validEdge, Bool.and_eq_true, decide_eq_true_eq] at hv
    simp only [interiorEdge, Bool.and_eq_false_iff, decide_eq_false_iff_not] at h
    simp only [edgeCubesC, List.mem_cons, List.not_mem_nil, or_false, eq_comm (a := none), hn]
    omega
  | n + 3, hv, _ => simp [validEdge] at hv

/-! ### flat indices: decode ∘ encode = id, encode ∘ decode = id -/

theorem cubeCoord_cubeIdx (nx ny x y z : Nat) (hx : x + 1 < nx) (hy : y + 1 < ny) :
    cubeCoord nx ny (cubeIdx nx ny x y z) = (x, y, z) := by
  unfold cubeCoord cubeIdx
  have ha : x < nx - 1 := by omega
  have hb : y < ny - 1 := by omega
  have h1 : (x + (y + z * (ny - 1)) * (nx - 1)) % (nx - 1) = x := by
    rw [Nat.add_mul_mod_self_right]; exact Nat.mod_eq_of_lt ha
  have h2 : (x + (y + z * (ny - 1)) * (nx - 1)) / (nx - 1) = y + z * (ny - 1) := by
    rw [Nat.add_mul_div_right _ _ (by omega : 0 < nx - 1), Nat.div_eq_of_lt ha, Nat.zero_add]
  have h3 : (y + z * (ny - 1)) % (ny - 1) = y := by
    rw [Nat.add_mul_mod_self_right]; exact Nat.mod_eq_of_lt hb
  have h4 : (y + z * (ny - 1)) / (ny - 1) = z := by
    rw [Nat.add_mul_div_right _ _ (by omega : 0 < ny - 1), Nat.div_eq_of_lt hb, Nat.zero_add]
  rw [h1, h2, h3, h4]

theorem cubeIdx_cubeCoord (nx ny c : Nat) :
    cubeIdx nx ny (cubeCoord nx ny c).1 (cubeCoord nx ny c).2.1 (cubeCoord nx ny c).2.2 = c := by
  unfold cubeCoord cubeIdx
  simp only
  have h1 := Nat.mod_add_div (c / (nx - 1)) (ny - 1)
  have h2 := Nat.mod_add_div c (nx - 1)
  calc c % (nx - 1) + (c / (nx - 1) % (ny - 1) + c / (nx - 1) / (ny - 1) * (ny - 1)) * (nx - 1)
      = c % (nx - 1) + (c / (nx - 1) % (ny - 1) + (ny - 1) * (c / (nx - 1) / (ny - 1))) * (nx - 1) := by
        rw [Nat.mul_comm (c / (nx - 1) / (ny - 1))]
    _ = c % (nx - 1) + (c / (nx - 1)) * (nx - 1) := by rw [h1]
    _ = c % (nx - 1) + (nx - 1) * (c / (nx - 1)) := by rw [Nat.mul_comm]
    _ = c := h2

theorem layer_split (L z r : Nat) (h : r < L) : (z * L + r) / L = z ∧ (z * L + r) % L = r := by
  have hL : 0 < L := by omega
  constructor
  · rw [Nat.add_comm, Nat.add_mul_div_right _ _ hL, Nat.div_eq_of_lt h, Nat.zero_add]
  · rw [Nat.add_comm, Nat.add_mul_mod_self_right]; exact Nat.mod_eq_of_lt h

theorem mul_add_lt (a y x n : Nat) (hx : x < a) (hy : y < n) : a * y + x < a * n := by
  calc a * y + x < a * y + a := by omega
    _ = a * (y + 1) := by rw [Nat.mul_add, Nat.mul_one]
    _ ≤ a * n := Nat.mul_le_mul_left a hy

theorem row_split (a y x : Nat) (hx : x < a) : (a * y + x) % a = x ∧ (a * y + x) / a = y := by
  have ha : 0 < a := by omega
  constructor
  · rw [Nat.add_comm, Nat.mul_comm, Nat.add_mul_mod_self_right]; exact Nat.mod_eq_of_lt hx
  · rw [Nat.add_comm, Nat.mul_comm, Nat.add_mul_div_right _ _ ha, Nat.div_eq_of_lt hx, Nat.zero_add]

theorem edgeDecode_edgeEncode (nx ny rows : Nat) (e : EdgeC) (h : validEdge nx ny rows e = true) :
    edgeDecode nx ny (edgeEncode nx ny e) = e := by
  rcases e with ⟨ax, x, y, z⟩
  match ax, h with
  | 0, h =>
    simp only [validEdge, Bool.and_eq_true, decide_eq_true_eq] at h
    have hr : (nx - 1) * y + x < xCount nx ny := mul_add_lt (nx - 1) y x ny (by omega) (by omega)
    have hL : (nx - 1) * y + x < layerEdges nx ny := by unfold layerEdges; omega
    have hs := layer_split (layerEdges nx ny) z ((nx - 1) * y + x) hL
    have hrow := row_split (nx - 1) y x (by omega)
    simp only [edgeEncode, xEdgeIdx, edgeDecode, Nat.add_assoc]
    rw [hs.1, hs.2, if_pos hr, hrow.1, hrow.2]
  | 1, h =>
    simp only [validEdge, Bool.and_eq_true, decide_eq_true_eq] at h
    have hr : nx * y + x < yCount nx ny := by
      unfold yCount; rw [Nat.mul_comm (ny - 1)]; exact mul_add_lt nx y x (ny - 1) (by omega) (by omega)
    have hL : xCount nx ny + (nx * y + x) < layerEdges nx ny := by unfold layerEdges; omega
    have hs := layer_split (layerEdges nx ny) z (xCount nx ny + (nx * y + x)) hL
    have hrow := row_split nx y x (by omega)
    simp only [edgeEncode, yEdgeIdx, edgeDecode, Nat.add_assoc]
    rw [hs.1, hs.2, if_neg (by omega), if_pos (by omega), Nat.add_sub_cancel_left, hrow.1, hrow.2]
  | 2, h =>
    simp only [validEdge, Bool.and_eq_true, decide_eq_true_eq] at h
    have hr : nx * y + x < zCount nx ny := mul_add_lt nx y x ny (by omega) (by omega)
    have hL : xCount nx ny + (yCount nx ny + (nx * y + x)) < layerEdges nx ny := by unfold layerEdges; omega
    have hs := layer_split (layerEdges nx ny) z (xCount nx ny + (yCount nx ny + (nx * y + x))) hL
    have hrow := row_split nx y x (by omega)
    simp only [edgeEncode, zEdgeIdx, edgeDecode, Nat.add_assoc]
    rw [hs.1, hs.2, if_neg (by omega), if_neg (by omega),
      show xCount nx ny + (yCount nx ny + (nx * y + x)) - (xCount nx ny + yCount nx ny) = nx * y + x by omega,
      hrow.1, hrow.2]
  | n + 3, h => simp [validEdge] at h

theorem edgeEncode_edgeDecode (nx ny e : Nat) : edgeEncode nx ny (edgeDecode nx ny e) = e := by
  unfold edgeDecode
  have hL := Nat.div_add_mod e (layerEdges nx ny)
  by_cases h1 : e % layerEdges nx ny < xCount nx ny
  · simp only [h1, if_true, edgeEncode, xEdgeIdx]
    have := Nat.div_add_mod (e % layerEdges nx ny) (nx - 1)
    rw [Nat.mul_comm] at hL
    omega
  · by_cases h2 : e % layerEdges nx ny < xCount nx ny + yCount nx ny
    · simp only [h1, h2, if_true, if_false, edgeEncode, yEdgeIdx]
      have := Nat.div_add_mod (e % layerEdges nx ny - xCount nx ny) nx
      rw [Nat.mul_comm] at hL
      omega
    · simp only [h1, h2, if_false, edgeEncode, zEdgeIdx]
      have := Nat.div_add_mod (e % layerEdges nx ny - (xCount nx ny + yCount nx ny)) nx
      rw [Nat.mul_comm] at hL
      omega

/-! ### the index-level statement -/

theorem mem_edgeCubes_iff (nx ny rows e c : Nat) :
    some c ∈ edgeCubes nx ny rows e ↔
      ∃ q, some q ∈ edgeCubesC nx ny rows (edgeDecode nx ny e) ∧ cubeIdx nx ny q.1 q.2.1 q.2.2 = c := by
  unfold edgeCubes
  simp only [List.mem_map]
  constructor
  · rintro ⟨o, ho, hc⟩
    cases o with
    | none => simp at hc
    | some q => exact ⟨q, ho, by simpa using hc⟩
  · rintro ⟨q, hq, hc⟩
    exact ⟨some q, hq, by simp [hc]⟩

theorem cubeAt_valid (nx ny rows : Nat) (x y z : Int) (q : Nat × Nat × Nat)
    (h : cubeAt nx ny rows x y z = some q) : validCube nx ny rows q.1 q.2.1 q.2.2 = true := by
  rw [cubeAt_some] at h
  simp only [validCube, Bool.and_eq_true, decide_eq_true_eq]; omega

theorem edgeCubesC_valid (nx ny rows : Nat) (e : EdgeC) (q : Nat × Nat × Nat)
    (h : some q ∈ edgeCubesC nx ny rows e) : validCube nx ny rows q.1 q.2.1 q.2.2 = true := by
  unfold edgeCubesC at h
  split at h <;>
    (simp only [List.mem_cons, List.not_mem_nil, or_false] at h
     rcases h with h | h | h | h <;> exact cubeAt_valid _ _ _ _ _ _ _ h.symm)

end M3d.DC
