import M3d.Model.DualContour
import Mathlib.Algebra.Order.Field.Basic
import Mathlib.Tactic.Linarith
import Mathlib.Tactic.Ring
import Mathlib.Tactic.Positivity
import Mathlib.Tactic.NormNum
import Mathlib.Data.List.Nodup
import Mathlib.Tactic.Tauto
/-!
# Dual contouring: index arithmetic, quad topology and orientation, clipping

All statements are for every grid size.
-/
namespace M3d.DC
set_option linter.unusedSimpArgs false
set_option linter.unusedSectionVars false

/-! ### `cubeAt` -/

theorem cubeAt_some (nx ny rows : Nat) (x y z : Int) (c : Nat × Nat × Nat) :
    cubeAt nx ny rows x y z = some c ↔
      (0 ≤ x ∧ 0 ≤ y ∧ 0 ≤ z ∧ x < (nx:Int) - 1 ∧ y < (ny:Int) - 1 ∧ z < (rows:Int) - 1 ∧
        (c.1 : Int) = x ∧ (c.2.1 : Int) = y ∧ (c.2.2 : Int) = z) := by
  unfold cubeAt
  rcases c with ⟨a, b, d⟩
  by_cases h : (z < 0 || x < 0 || y < 0 || x ≥ (nx : Int) - 1 || y ≥ (ny : Int) - 1 || z ≥ (rows : Int) - 1) = true
  · rw [if_pos h]
    simp only [Bool.or_eq_true, decide_eq_true_eq] at h
    constructor
    · intro h'; cases h'
    · intro h'; omega
  · rw [if_neg h]
    simp only [Bool.or_eq_true, decide_eq_true_eq, not_or, Int.not_lt, Int.not_le] at h
    simp only [Option.some.injEq, Prod.mk.injEq]
    constructor
    · intro h'; omega
    · intro h'; omega

theorem cubeAt_of_valid (nx ny rows x y z : Nat) (h : validCube nx ny rows x y z = true) :
    cubeAt nx ny rows x y z = some (x, y, z) := by
  simp only [validCube, Bool.and_eq_true, decide_eq_true_eq] at h
  rw [cubeAt_some]; dsimp only; omega

/-! ### coordinate form of `c ∈ EdgeCubes(e) ⇔ e ∈ CubeEdges(c)` -/

theorem edgeCubesC_mem_iff (nx ny rows : Nat) (e : EdgeC) (c : Nat × Nat × Nat)
    (he : validEdge nx ny rows e = true) (hc : validCube nx ny rows c.1 c.2.1 c.2.2 = true) :
    some c ∈ edgeCubesC nx ny rows e ↔ e ∈ cubeEdgesC c.1 c.2.1 c.2.2 := by
  rcases e with ⟨ax, x, y, z⟩
  rcases c with ⟨cx, cy, cz⟩
  simp only [validCube, Bool.and_eq_true, decide_eq_true_eq] at hc
  have d01 : ((0:Nat) = 1) = False := by decide
  have d02 : ((0:Nat) = 2) = False := by decide
  have d10 : ((1:Nat) = 0) = False := by decide
  have d12 : ((1:Nat) = 2) = False := by decide
  have d20 : ((2:Nat) = 0) = False := by decide
  have d21 : ((2:Nat) = 1) = False := by decide
  match ax, he with
  | 0, he =>
    simp only [validEdge, Bool.and_eq_true, decide_eq_true_eq] at he
    simp only [edgeCubesC, cubeEdgesC, List.mem_cons, List.not_mem_nil, or_false, EdgeC.mk.injEq,
      eq_comm (a := some (cx, cy, cz)), cubeAt_some, d01, d02, false_and, true_and, false_or]
    constructor
    · rintro (h|h|h|h) <;> omega
    · rintro (h|h|h|h) <;> omega
  | 1, he =>
    simp only [validEdge, Bool.and_eq_true, decide_eq_true_eq] at he
    simp only [edgeCubesC, cubeEdgesC, List.mem_cons, List.not_mem_nil, or_false, EdgeC.mk.injEq,
      eq_comm (a := some (cx, cy, cz)), cubeAt_some, d10, d12, false_and, true_and, false_or]
    constructor
    · rintro (h|h|h|h) <;> omega
    · rintro (h|h|h|h) <;> omega
  | 2, he =>
    simp only [validEdge, Bool.and_eq_true, decide_eq_true_eq] at he
    simp only [edgeCubesC, cubeEdgesC, List.mem_cons, List.not_mem_nil, or_false, EdgeC.mk.injEq,
      eq_comm (a := some (cx, cy, cz)), cubeAt_some, d20, d21, false_and, true_and, false_or]
    constructor
    · rintro (h|h|h|h) <;> omega
    · rintro (h|h|h|h) <;> omega
  | n + 3, he => simp [validEdge] at he

/-- An edge is interior when the four cells round it all exist. -/
def interiorEdge (nx ny rows : Nat) (e : EdgeC) : Bool :=
  match e.axis with
  | 0 => e.x + 1 < nx && 1 ≤ e.y && e.y + 1 < ny && 1 ≤ e.z && e.z + 1 < rows
  | 1 => 1 ≤ e.x && e.x + 1 < nx && e.y + 1 < ny && 1 ≤ e.z && e.z + 1 < rows
  | 2 => 1 ≤ e.x && e.x + 1 < nx && 1 ≤ e.y && e.y + 1 < ny && e.z + 1 < rows
  | _ => false

/-- The explicit four cells of an interior edge, in `EdgeCubes` order. -/
def fourCells (e : EdgeC) : List (Nat × Nat × Nat) :=
  match e.axis with
  | 0 => [(e.x, e.y, e.z-1), (e.x, e.y-1, e.z-1), (e.x, e.y-1, e.z), (e.x, e.y, e.z)]
  | 1 => [(e.x-1, e.y, e.z), (e.x-1, e.y, e.z-1), (e.x, e.y, e.z-1), (e.x, e.y, e.z)]
  | _ => [(e.x, e.y-1, e.z), (e.x-1, e.y-1, e.z), (e.x-1, e.y, e.z), (e.x, e.y, e.z)]

theorem edgeCubesC_interior (nx ny rows : Nat) (e : EdgeC) (h : interiorEdge nx ny rows e = true) :
    edgeCubesC nx ny rows e = (fourCells e).map some := by
  rcases e with ⟨ax, x, y, z⟩
  match ax, h with
  | 0, h =>
    simp only [interiorEdge, Bool.and_eq_true, decide_eq_true_eq] at h
    simp only [edgeCubesC, fourCells, List.map_cons, List.map_nil, List.cons.injEq, and_true, cubeAt_some]
    (repeat' constructor) <;> omega
  | 1, h =>
    simp only [interiorEdge, Bool.and_eq_true, decide_eq_true_eq] at h
    simp only [edgeCubesC, fourCells, List.map_cons, List.map_nil, List.cons.injEq, and_true, cubeAt_some]
    (repeat' constructor) <;> omega
  | 2, h =>
    simp only [interiorEdge, Bool.and_eq_true, decide_eq_true_eq] at h
    simp only [edgeCubesC, fourCells, List.map_cons, List.map_nil, List.cons.injEq, and_true, cubeAt_some]
    (repeat' constructor) <;> omega
  | n + 3, h => simp [interiorEdge] at h

/-- A border edge misses at least one of its four cells (`appendMesh` would panic on it). -/
theorem edgeCubesC_border (nx ny rows : Nat) (e : EdgeC) (hv : validEdge nx ny rows e = true)
    (h : interiorEdge nx ny rows e = false) : none ∈ edgeCubesC nx ny rows e := by
  rcases e with ⟨ax, x, y, z⟩
  have hn : ∀ a b c : Int, (cubeAt nx ny rows a b c = none) ↔
      (c < 0 ∨ a < 0 ∨ b < 0 ∨ a ≥ (nx:Int) - 1 ∨ b ≥ (ny:Int) - 1 ∨ c ≥ (rows:Int) - 1) := by
    intro a b c
    unfold cubeAt
    by_cases hh : (c < 0 || a < 0 || b < 0 || a ≥ (nx : Int) - 1 || b ≥ (ny : Int) - 1 || c ≥ (rows : Int) - 1) = true
    · rw [if_pos hh]; simp only [Bool.or_eq_true, decide_eq_true_eq] at hh; simp only [true_iff]; omega
    · rw [if_neg hh]; simp only [Bool.or_eq_true, decide_eq_true_eq] at hh; simp only [reduceCtorEq, false_iff]; omega
  match ax, hv, h with
  | 0, hv, h =>
    simp only [validEdge, Bool.and_eq_true, decide_eq_true_eq] at hv
    simp only [interiorEdge, Bool.and_eq_false_iff, decide_eq_false_iff_not] at h
    simp only [edgeCubesC, List.mem_cons, List.not_mem_nil, or_false, eq_comm (a := none), hn]
    omega
  | 1, hv, h =>
    simp only [validEdge, Bool.and_eq_true, decide_eq_true_eq] at hv
    simp only [interiorEdge, Bool.and_eq_false_iff, decide_eq_false_iff_not] at h
    simp only [edgeCubesC, List.mem_cons, List.not_mem_nil, or_false, eq_comm (a := none), hn]
    omega
  | 2, hv, h =>
    simp only [validEdge, Bool.and_eq_true, decide_eq_true_eq] at hv
    simp only [interiorEdge, Bool.and_eq_false_iff, decide_eq_false_iff_not] at h
    simp only [edgeCubesC, List.mem_cons, List.not_mem_nil, or_false, eq_comm (a := none), hn]
    omega
  | n + 3, hv, _ => simp [validEdge] at hv

/-! ### flat indices: decode ∘ encode = id, encode ∘ decode = id -/

theorem cubeCoord_cubeIdx (nx ny x y z : Nat) (hx : x + 1 < nx) (hy : y + 1 < ny) :
    cubeCoord nx ny (cubeIdx nx ny x y z) = (x, y, z) := by
  unfold cubeCoord cubeIdx
  have ha : x < nx - 1 := by omega
  have hb : y < ny - 1 := by omega
  have h1 : (x + (y + z * (ny - 1)) * (nx - 1)) % (nx - 1) = x := by
    rw [Nat.add_mul_mod_self_right]; exact Nat.mod_eq_of_lt ha
  have h2 : (x + (y + z * (ny - 1)) * (nx - 1)) / (nx - 1) = y + z * (ny - 1) := by
    rw [Nat.add_mul_div_right _ _ (by omega : 0 < nx - 1), Nat.div_eq_of_lt ha, Nat.zero_add]
  have h3 : (y + z * (ny - 1)) % (ny - 1) = y := by
    rw [Nat.add_mul_mod_self_right]; exact Nat.mod_eq_of_lt hb
  have h4 : (y + z * (ny - 1)) / (ny - 1) = z := by
    rw [Nat.add_mul_div_right _ _ (by omega : 0 < ny - 1), Nat.div_eq_of_lt hb, Nat.zero_add]
  rw [h1, h2, h3, h4]

theorem cubeIdx_cubeCoord (nx ny c : Nat) :
    cubeIdx nx ny (cubeCoord nx ny c).1 (cubeCoord nx ny c).2.1 (cubeCoord nx ny c).2.2 = c := by
  unfold cubeCoord cubeIdx
  simp only
  have h1 := Nat.mod_add_div (c / (nx - 1)) (ny - 1)
  have h2 := Nat.mod_add_div c (nx - 1)
  calc c % (nx - 1) + (c / (nx - 1) % (ny - 1) + c / (nx - 1) / (ny - 1) * (ny - 1)) * (nx - 1)
      = c % (nx - 1) + (c / (nx - 1) % (ny - 1) + (ny - 1) * (c / (nx - 1) / (ny - 1))) * (nx - 1) := by
        rw [Nat.mul_comm (c / (nx - 1) / (ny - 1))]
    _ = c % (nx - 1) + (c / (nx - 1)) * (nx - 1) := by rw [h1]
    _ = c % (nx - 1) + (nx - 1) * (c / (nx - 1)) := by rw [Nat.mul_comm]
    _ = c := h2

theorem layer_split (L z r : Nat) (h : r < L) : (z * L + r) / L = z ∧ (z * L + r) % L = r := by
  have hL : 0 < L := by omega
  constructor
  · rw [Nat.add_comm, Nat.add_mul_div_right _ _ hL, Nat.div_eq_of_lt h, Nat.zero_add]
  · rw [Nat.add_comm, Nat.add_mul_mod_self_right]; exact Nat.mod_eq_of_lt h

theorem mul_add_lt (a y x n : Nat) (hx : x < a) (hy : y < n) : a * y + x < a * n := by
  calc a * y + x < a * y + a := by omega
    _ = a * (y + 1) := by rw [Nat.mul_add, Nat.mul_one]
    _ ≤ a * n := Nat.mul_le_mul_left a hy

theorem row_split (a y x : Nat) (hx : x < a) : (a * y + x) % a = x ∧ (a * y + x) / a = y := by
  have ha : 0 < a := by omega
  constructor
  · rw [Nat.add_comm, Nat.mul_comm, Nat.add_mul_mod_self_right]; exact Nat.mod_eq_of_lt hx
  · rw [Nat.add_comm, Nat.mul_comm, Nat.add_mul_div_right _ _ ha, Nat.div_eq_of_lt hx, Nat.zero_add]

theorem edgeDecode_edgeEncode (nx ny rows : Nat) (e : EdgeC) (h : validEdge nx ny rows e = true) :
    edgeDecode nx ny (edgeEncode nx ny e) = e := by
  rcases e with ⟨ax, x, y, z⟩
  match ax, h with
  | 0, h =>
    simp only [validEdge, Bool.and_eq_true, decide_eq_true_eq] at h
    have hr : (nx - 1) * y + x < xCount nx ny := mul_add_lt (nx - 1) y x ny (by omega) (by omega)
    have hL : (nx - 1) * y + x < layerEdges nx ny := by unfold layerEdges; omega
    have hs := layer_split (layerEdges nx ny) z ((nx - 1) * y + x) hL
    have hrow := row_split (nx - 1) y x (by omega)
    simp only [edgeEncode, xEdgeIdx, edgeDecode, Nat.add_assoc]
    rw [hs.1, hs.2, if_pos hr, hrow.1, hrow.2]
  | 1, h =>
    simp only [validEdge, Bool.and_eq_true, decide_eq_true_eq] at h
    have hr : nx * y + x < yCount nx ny := by
      unfold yCount; rw [Nat.mul_comm (ny - 1)]; exact mul_add_lt nx y x (ny - 1) (by omega) (by omega)
    have hL : xCount nx ny + (nx * y + x) < layerEdges nx ny := by unfold layerEdges; omega
    have hs := layer_split (layerEdges nx ny) z (xCount nx ny + (nx * y + x)) hL
    have hrow := row_split nx y x (by omega)
    simp only [edgeEncode, yEdgeIdx, edgeDecode, Nat.add_assoc]
    rw [hs.1, hs.2, if_neg (by omega), if_pos (by omega), Nat.add_sub_cancel_left, hrow.1, hrow.2]
  | 2, h =>
    simp only [validEdge, Bool.and_eq_true, decide_eq_true_eq] at h
    have hr : nx * y + x < zCount nx ny := mul_add_lt nx y x ny (by omega) (by omega)
    have hL : xCount nx ny + (yCount nx ny + (nx * y + x)) < layerEdges nx ny := by unfold layerEdges; omega
    have hs := layer_split (layerEdges nx ny) z (xCount nx ny + (yCount nx ny + (nx * y + x))) hL
    have hrow := row_split nx y x (by omega)
    simp only [edgeEncode, zEdgeIdx, edgeDecode, Nat.add_assoc]
    rw [hs.1, hs.2, if_neg (by omega), if_neg (by omega),
      show xCount nx ny + (yCount nx ny + (nx * y + x)) - (xCount nx ny + yCount nx ny) = nx * y + x by omega,
      hrow.1, hrow.2]
  | n + 3, h => simp [validEdge] at h

theorem edgeEncode_edgeDecode (nx ny e : Nat) : edgeEncode nx ny (edgeDecode nx ny e) = e := by
  unfold edgeDecode
  have hL := Nat.div_add_mod e (layerEdges nx ny)
  by_cases h1 : e % layerEdges nx ny < xCount nx ny
  · simp only [h1, if_true, edgeEncode, xEdgeIdx]
    have := Nat.div_add_mod (e % layerEdges nx ny) (nx - 1)
    rw [Nat.mul_comm] at hL
    omega
  · by_cases h2 : e % layerEdges nx ny < xCount nx ny + yCount nx ny
    · simp only [h1, h2, if_true, if_false, edgeEncode, yEdgeIdx]
      have := Nat.div_add_mod (e % layerEdges nx ny - xCount nx ny) nx
      rw [Nat.mul_comm] at hL
      omega
    · simp only [h1, h2, if_false, edgeEncode, zEdgeIdx]
      have := Nat.div_add_mod (e % layerEdges nx ny - (xCount nx ny + yCount nx ny)) nx
      rw [Nat.mul_comm] at hL
      omega

/-! ### the index-level statement -/

theorem mem_edgeCubes_iff (nx ny rows e c : Nat) :
    some c ∈ edgeCubes nx ny rows e ↔
      ∃ q, some q ∈ edgeCubesC nx ny rows (edgeDecode nx ny e) ∧ cubeIdx nx ny q.1 q.2.1 q.2.2 = c := by
  unfold edgeCubes
  simp only [List.mem_map]
  constructor
  · rintro ⟨o, ho, hc⟩
    cases o with
    | none => simp at hc
    | some q => exact ⟨q, ho, by simpa using hc⟩
  · rintro ⟨q, hq, hc⟩
    exact ⟨some q, hq, by simp [hc]⟩

theorem cubeAt_valid (nx ny rows : Nat) (x y z : Int) (q : Nat × Nat × Nat)
    (h : cubeAt nx ny rows x y z = some q) : validCube nx ny rows q.1 q.2.1 q.2.2 = true := by
  rw [cubeAt_some] at h
  simp only [validCube, Bool.and_eq_true, decide_eq_true_eq]; omega

theorem edgeCubesC_valid (nx ny rows : Nat) (e : EdgeC) (q : Nat × Nat × Nat)
    (h : some q ∈ edgeCubesC nx ny rows e) : validCube nx ny rows q.1 q.2.1 q.2.2 = true := by
  unfold edgeCubesC at h
  split at h <;>
    (simp only [List.mem_cons, List.not_mem_nil, or_false] at h
     rcases h with h | h | h | h <;> exact cubeAt_valid _ _ _ _ _ _ _ h.symm)

theorem cubeEdgesC_valid (nx ny rows x y z : Nat) (h : validCube nx ny rows x y z = true) (e : EdgeC)
    (he : e ∈ cubeEdgesC x y z) : validEdge nx ny rows e = true := by
  simp only [validCube, Bool.and_eq_true, decide_eq_true_eq] at h
  simp only [cubeEdgesC, List.mem_cons, List.not_mem_nil, or_false] at he
  rcases he with rfl|rfl|rfl|rfl|rfl|rfl|rfl|rfl|rfl|rfl|rfl|rfl <;>
    (simp only [validEdge, Bool.and_eq_true, decide_eq_true_eq]; omega)

theorem validCube_of_lt (nx ny rows c : Nat) (h : c < numCubes nx ny rows) :
    validCube nx ny rows (cubeCoord nx ny c).1 (cubeCoord nx ny c).2.1 (cubeCoord nx ny c).2.2 = true := by
  unfold numCubes at h
  have ha : 0 < nx - 1 := by
    rcases Nat.eq_zero_or_pos (nx - 1) with h0 | h0
    · rw [h0] at h; simp at h
    · exact h0
  have hb : 0 < ny - 1 := by
    rcases Nat.eq_zero_or_pos (ny - 1) with h0 | h0
    · rw [h0] at h; simp at h
    · exact h0
  have h1 : c % (nx - 1) < nx - 1 := Nat.mod_lt _ ha
  have h2 : c / (nx - 1) % (ny - 1) < ny - 1 := Nat.mod_lt _ hb
  have h3 : c / (nx - 1) / (ny - 1) < rows - 1 := by
    rw [Nat.div_lt_iff_lt_mul hb, Nat.div_lt_iff_lt_mul ha]
    calc c < (nx - 1) * (ny - 1) * (rows - 1) := h
      _ = (rows - 1) * (ny - 1) * (nx - 1) := by
        rw [Nat.mul_comm ((nx - 1) * (ny - 1)), Nat.mul_comm (nx - 1), Nat.mul_assoc]
  have hcc : cubeCoord nx ny c = (c % (nx - 1), c / (nx - 1) % (ny - 1), c / (nx - 1) / (ny - 1)) := rfl
  rw [hcc]
  generalize c % (nx - 1) = a at *
  generalize c / (nx - 1) % (ny - 1) = b at *
  generalize c / (nx - 1) / (ny - 1) = d at *
  simp only [validCube, Bool.and_eq_true, decide_eq_true_eq]
  omega

theorem validEdge_of_lt (nx ny rows e : Nat) (h : e < numEdges nx ny rows) :
    validEdge nx ny rows (edgeDecode nx ny e) = true := by
  unfold numEdges at h
  have hdm := Nat.div_add_mod e (layerEdges nx ny)
  have hLdef : layerEdges nx ny = xCount nx ny + yCount nx ny + zCount nx ny := rfl
  have hL : 0 < layerEdges nx ny := by
    rcases Nat.eq_zero_or_pos (layerEdges nx ny) with h0 | h0
    · have hx : xCount nx ny = 0 := by omega
      have hy : yCount nx ny = 0 := by omega
      have hz : zCount nx ny = 0 := by omega
      rw [hx, hy, hz] at h; simp at h
    · exact h0
  have hr : e % layerEdges nx ny < layerEdges nx ny := Nat.mod_lt _ hL
  -- z < rows, and z + 1 < rows for Z-edges
  have key : ∀ z r : Nat, layerEdges nx ny * z + r = e → r < layerEdges nx ny →
      z < rows ∧ (xCount nx ny + yCount nx ny ≤ r → z + 1 < rows) := by
    intro z r hzr hrl
    have e1 : (xCount nx ny + yCount nx ny) * rows + zCount nx ny * (rows - 1)
        ≤ layerEdges nx ny * rows := by
      have hz := Nat.mul_le_mul_left (zCount nx ny) (Nat.sub_le rows 1)
      rw [hLdef, Nat.add_mul (xCount nx ny + yCount nx ny)]
      omega
    constructor
    · by_contra hge
      have : layerEdges nx ny * rows ≤ layerEdges nx ny * z := Nat.mul_le_mul_left _ (by omega)
      omega
    · intro hxy
      by_contra hge
      have hz : rows - 1 ≤ z := by omega
      have h1 : layerEdges nx ny * (rows - 1) ≤ layerEdges nx ny * z := Nat.mul_le_mul_left _ hz
      have h2 : layerEdges nx ny * (rows - 1)
          = (xCount nx ny + yCount nx ny) * (rows - 1) + zCount nx ny * (rows - 1) := by
        rw [hLdef, Nat.add_mul]
      rcases Nat.eq_zero_or_pos rows with h0 | h0
      · subst h0; simp at h
      · have h3 : (xCount nx ny + yCount nx ny) * rows
            = (xCount nx ny + yCount nx ny) * (rows - 1) + (xCount nx ny + yCount nx ny) := by
          conv_lhs => rw [show rows = (rows - 1) + 1 by omega]
          rw [Nat.mul_add, Nat.mul_one]
        omega
  have hk := key (e / layerEdges nx ny) (e % layerEdges nx ny) hdm hr
  unfold edgeDecode
  by_cases h1 : e % layerEdges nx ny < xCount nx ny
  · simp only [h1, if_true, validEdge, Bool.and_eq_true, decide_eq_true_eq]
    have ha : 0 < nx - 1 := by
      rcases Nat.eq_zero_or_pos (nx - 1) with h0 | h0
      · unfold xCount at h1; rw [h0] at h1; simp at h1
      · exact h0
    have hm : e % layerEdges nx ny % (nx - 1) < nx - 1 := Nat.mod_lt _ ha
    have hd : e % layerEdges nx ny / (nx - 1) < ny := by
      rw [Nat.div_lt_iff_lt_mul ha, Nat.mul_comm]; exact h1
    have hk1 := hk.1
    generalize e % layerEdges nx ny % (nx - 1) = a at *
    generalize e % layerEdges nx ny / (nx - 1) = b at *
    generalize e / layerEdges nx ny = d at *
    omega
  · by_cases h2 : e % layerEdges nx ny < xCount nx ny + yCount nx ny
    · simp only [h1, h2, if_true, if_false, validEdge, Bool.and_eq_true, decide_eq_true_eq]
      have h2' : e % layerEdges nx ny - xCount nx ny < (ny - 1) * nx := by
        have : yCount nx ny = (ny - 1) * nx := rfl
        omega
      have ha : 0 < nx := by
        rcases Nat.eq_zero_or_pos nx with h0 | h0
        · rw [h0] at h2'; simp at h2'
        · exact h0
      have hm : (e % layerEdges nx ny - xCount nx ny) % nx < nx := Nat.mod_lt _ ha
      have hd : (e % layerEdges nx ny - xCount nx ny) / nx < ny - 1 := by
        rw [Nat.div_lt_iff_lt_mul ha]; exact h2'
      have hk1 := hk.1
      generalize (e % layerEdges nx ny - xCount nx ny) % nx = a at *
      generalize (e % layerEdges nx ny - xCount nx ny) / nx = b at *
      generalize e / layerEdges nx ny = d at *
      omega
    · simp only [h1, h2, if_false, validEdge, Bool.and_eq_true, decide_eq_true_eq]
      have h2' : e % layerEdges nx ny - (xCount nx ny + yCount nx ny) < ny * nx := by
        have : zCount nx ny = nx * ny := rfl
        rw [Nat.mul_comm]; omega
      have ha : 0 < nx := by
        rcases Nat.eq_zero_or_pos nx with h0 | h0
        · rw [h0] at h2'; simp at h2'
        · exact h0
      have hm : (e % layerEdges nx ny - (xCount nx ny + yCount nx ny)) % nx < nx := Nat.mod_lt _ ha
      have hd : (e % layerEdges nx ny - (xCount nx ny + yCount nx ny)) / nx < ny := by
        rw [Nat.div_lt_iff_lt_mul ha]; exact h2'
      have hk2 := hk.2 (by omega)
      generalize (e % layerEdges nx ny - (xCount nx ny + yCount nx ny)) % nx = a at *
      generalize (e % layerEdges nx ny - (xCount nx ny + yCount nx ny)) / nx = b at *
      generalize e / layerEdges nx ny = d at *
      omega

/-- **`c ∈ EdgeCubes(e) ⇔ e ∈ CubeEdges(c)`** on the flat indices the Go code uses, for every grid
size, every edge index `e < len(Edges)` and every cube index `c < len(Cubes)`. -/
theorem edgeCubes_iff_cubeEdges (nx ny rows e c : Nat)
    (he : e < numEdges nx ny rows) (hc : c < numCubes nx ny rows) :
    some c ∈ edgeCubes nx ny rows e ↔ e ∈ cubeEdges nx ny c := by
  have hve := validEdge_of_lt nx ny rows e he
  have hvc := validCube_of_lt nx ny rows c hc
  constructor
  · intro h
    obtain ⟨q, hq, hqc⟩ := (mem_edgeCubes_iff nx ny rows e c).1 h
    have hqv := edgeCubesC_valid nx ny rows _ q hq
    have hcoord : cubeCoord nx ny c = q := by
      rw [← hqc]
      simp only [validCube, Bool.and_eq_true, decide_eq_true_eq] at hqv
      rw [cubeCoord_cubeIdx nx ny q.1 q.2.1 q.2.2 (by omega) (by omega)]
    have hm := (edgeCubesC_mem_iff nx ny rows _ q hve hqv).1 hq
    unfold cubeEdges
    rw [hcoord]
    exact List.mem_map.2 ⟨_, hm, edgeEncode_edgeDecode nx ny e⟩
  · intro h
    unfold cubeEdges at h
    obtain ⟨e', he', hee⟩ := List.mem_map.1 h
    have hv' := cubeEdgesC_valid nx ny rows _ _ _ hvc e' he'
    have hdec : edgeDecode nx ny e = e' := by rw [← hee]; exact edgeDecode_edgeEncode nx ny rows e' hv'
    have hm := (edgeCubesC_mem_iff nx ny rows e' (cubeCoord nx ny c) hv' hvc).2 he'
    exact (mem_edgeCubes_iff nx ny rows e c).2 ⟨cubeCoord nx ny c, by rw [hdec]; exact hm, cubeIdx_cubeCoord nx ny c⟩

/-! ### one quad per active edge -/

theorem edgeEncode_lt (nx ny rows : Nat) (e : EdgeC) (h : validEdge nx ny rows e = true) :
    edgeEncode nx ny e < numEdges nx ny rows := by
  rcases e with ⟨ax, x, y, z⟩
  have hLdef : layerEdges nx ny = xCount nx ny + yCount nx ny + zCount nx ny := rfl
  unfold numEdges
  match ax, h with
  | 0, h =>
    simp only [validEdge, Bool.and_eq_true, decide_eq_true_eq] at h
    have hr : (nx - 1) * y + x < xCount nx ny := mul_add_lt (nx - 1) y x ny (by omega) (by omega)
    have h1 : z * layerEdges nx ny ≤ (rows - 1) * layerEdges nx ny := Nat.mul_le_mul_right _ (by omega)
    have h2 : (rows - 1) * layerEdges nx ny
        = (rows - 1) * (xCount nx ny + yCount nx ny) + (rows - 1) * zCount nx ny := by
      rw [hLdef, Nat.mul_add]
    have h3 : (xCount nx ny + yCount nx ny) * rows
        = (rows - 1) * (xCount nx ny + yCount nx ny) + (xCount nx ny + yCount nx ny) := by
      conv_lhs => rw [show rows = (rows - 1) + 1 by omega]
      rw [Nat.mul_add, Nat.mul_one, Nat.mul_comm]
    have h4 : zCount nx ny * (rows - 1) = (rows - 1) * zCount nx ny := Nat.mul_comm _ _
    simp only [edgeEncode, xEdgeIdx]
    omega
  | 1, h =>
    simp only [validEdge, Bool.and_eq_true, decide_eq_true_eq] at h
    have hr : nx * y + x < yCount nx ny := by
      unfold yCount; rw [Nat.mul_comm (ny - 1)]; exact mul_add_lt nx y x (ny - 1) (by omega) (by omega)
    have h1 : z * layerEdges nx ny ≤ (rows - 1) * layerEdges nx ny := Nat.mul_le_mul_right _ (by omega)
    have h2 : (rows - 1) * layerEdges nx ny
        = (rows - 1) * (xCount nx ny + yCount nx ny) + (rows - 1) * zCount nx ny := by
      rw [hLdef, Nat.mul_add]
    have h3 : (xCount nx ny + yCount nx ny) * rows
        = (rows - 1) * (xCount nx ny + yCount nx ny) + (xCount nx ny + yCount nx ny) := by
      conv_lhs => rw [show rows = (rows - 1) + 1 by omega]
      rw [Nat.mul_add, Nat.mul_one, Nat.mul_comm]
    have h4 : zCount nx ny * (rows - 1) = (rows - 1) * zCount nx ny := Nat.mul_comm _ _
    simp only [edgeEncode, yEdgeIdx]
    omega
  | 2, h =>
    simp only [validEdge, Bool.and_eq_true, decide_eq_true_eq] at h
    have hr : nx * y + x < zCount nx ny := mul_add_lt nx y x ny (by omega) (by omega)
    have h1 : (z + 1) * layerEdges nx ny ≤ (rows - 1) * layerEdges nx ny := Nat.mul_le_mul_right _ (by omega)
    have h1' : (z + 1) * layerEdges nx ny = z * layerEdges nx ny + layerEdges nx ny := by
      rw [Nat.add_mul, Nat.one_mul]
    have h2 : (rows - 1) * layerEdges nx ny
        = (rows - 1) * (xCount nx ny + yCount nx ny) + (rows - 1) * zCount nx ny := by
      rw [hLdef, Nat.mul_add]
    have h3 : (rows - 1) * (xCount nx ny + yCount nx ny) ≤ (xCount nx ny + yCount nx ny) * rows := by
      rw [Nat.mul_comm]; exact Nat.mul_le_mul_left _ (Nat.sub_le _ _)
    have h4 : zCount nx ny * (rows - 1) = (rows - 1) * zCount nx ny := Nat.mul_comm _ _
    simp only [edgeEncode, zEdgeIdx]
    omega
  | n + 3, h => simp [validEdge] at h

theorem allEdges_nodup (nx ny rows : Nat) : (allEdges nx ny rows).Nodup := by
  unfold allEdges
  exact List.Nodup.map (Function.LeftInverse.injective (edgeEncode_edgeDecode nx ny)) List.nodup_range

theorem mem_allEdges (nx ny rows : Nat) (e : EdgeC) :
    e ∈ allEdges nx ny rows ↔ validEdge nx ny rows e = true := by
  unfold allEdges
  simp only [List.mem_map, List.mem_range]
  constructor
  · rintro ⟨i, hi, rfl⟩; exact validEdge_of_lt nx ny rows i hi
  · intro h; exact ⟨edgeEncode nx ny e, edgeEncode_lt nx ny rows e h, edgeDecode_edgeEncode nx ny rows e h⟩

/-- The edges `appendMesh` emits a quad for, each exactly once: precisely the lattice edges whose
end labels differ. -/
theorem quads_count (nx ny rows : Nat) (lab : Lab) (e : EdgeC) :
    ((quads nx ny rows lab).map Prod.fst).count e =
      if validEdge nx ny rows e = true ∧ active lab e = true then 1 else 0 := by
  have hmap : (quads nx ny rows lab).map Prod.fst = (allEdges nx ny rows).filter (active lab) := by
    unfold quads; rw [List.map_map]; simp [Function.comp_def]
  rw [hmap]
  have hnd : ((allEdges nx ny rows).filter (active lab)).Nodup := (allEdges_nodup nx ny rows).filter _
  by_cases h : validEdge nx ny rows e = true ∧ active lab e = true
  · rw [if_pos h]
    exact List.count_eq_one_of_mem hnd (List.mem_filter.2 ⟨(mem_allEdges nx ny rows e).2 h.1, h.2⟩)
  · rw [if_neg h]
    apply List.count_eq_zero_of_not_mem
    intro hm
    have := List.mem_filter.1 hm
    exact h ⟨(mem_allEdges nx ny rows e).1 this.1, this.2⟩

/-- The labelling is `false` on the outer layer of the point lattice (otherwise `appendMesh`
panics: "solid is true outside of bounds"). -/
def EmptyBorder (nx ny rows : Nat) (lab : Lab) : Prop :=
  ∀ x y z, (x = 0 ∨ x + 1 = nx ∨ y = 0 ∨ y + 1 = ny ∨ z = 0 ∨ z + 1 = rows) → lab x y z = false

theorem active_interior (nx ny rows : Nat) (lab : Lab) (hb : EmptyBorder nx ny rows lab) (e : EdgeC)
    (hv : validEdge nx ny rows e = true) (ha : active lab e = true) : interiorEdge nx ny rows e = true := by
  rcases e with ⟨ax, x, y, z⟩
  match ax, hv, ha with
  | 0, hv, ha =>
    simp only [validEdge, Bool.and_eq_true, decide_eq_true_eq] at hv
    simp only [active, edgeCornersC, bne_iff_ne, ne_eq] at ha
    simp only [interiorEdge, Bool.and_eq_true, decide_eq_true_eq]
    by_contra hcon
    have h1 := hb x y z (by omega)
    have h2 := hb (x + 1) y z (by omega)
    exact ha (h1.trans h2.symm)
  | 1, hv, ha =>
    simp only [validEdge, Bool.and_eq_true, decide_eq_true_eq] at hv
    simp only [active, edgeCornersC, bne_iff_ne, ne_eq] at ha
    simp only [interiorEdge, Bool.and_eq_true, decide_eq_true_eq]
    by_contra hcon
    have h1 := hb x y z (by omega)
    have h2 := hb x (y + 1) z (by omega)
    exact ha (h1.trans h2.symm)
  | 2, hv, ha =>
    simp only [validEdge, Bool.and_eq_true, decide_eq_true_eq] at hv
    simp only [active, edgeCornersC, bne_iff_ne, ne_eq] at ha
    simp only [interiorEdge, Bool.and_eq_true, decide_eq_true_eq]
    by_contra hcon
    have h1 := hb x y z (by omega)
    have h2 := hb x y (z + 1) (by omega)
    exact ha (h1.trans h2.symm)
  | n + 3, hv, _ => simp [validEdge] at hv

theorem quadOf_interior (nx ny rows : Nat) (lab : Lab) (e : EdgeC) (h : interiorEdge nx ny rows e = true) :
    quadOf nx ny rows lab e = some (if lab e.x e.y e.z then (fourCells e).reverse else fourCells e) := by
  unfold quadOf
  rw [edgeCubesC_interior nx ny rows e h]
  have : ((fourCells e).map some).mapM id = some (fourCells e) := by
    rcases e with ⟨ax, x, y, z⟩
    match ax with
    | 0 => rfl
    | 1 => rfl
    | n + 2 => rfl
  rw [this]
  by_cases hl : lab e.x e.y e.z = true <;> simp [hl]

/-! ### orientation -/

theorem quad_orientation_cells (e : EdgeC) (hx : e.axis ≠ 0 → 1 ≤ e.x) (hy : e.axis ≠ 1 → 1 ≤ e.y)
    (hz : e.axis ≠ 2 → 1 ≤ e.z) (ha : e.axis < 3) (b : Bool) :
    quadNormalsAlong e.axis b (if b then (fourCells e).reverse else fourCells e) = true := by
  rcases e with ⟨ax, x, y, z⟩
  simp only at hx hy hz ha
  match ax, hx, hy, hz, ha with
  | 0, _, hy, hz, _ =>
    have e1 : ((y - 1 : Nat) : Int) = (y : Int) - 1 := by have := hy (by decide); omega
    have e2 : ((z - 1 : Nat) : Int) = (z : Int) - 1 := by have := hz (by decide); omega
    cases b <;>
      simp only [fourCells, List.reverse_cons, List.reverse_nil, List.nil_append, List.cons_append, if_true, if_false,
        Bool.false_eq_true, quadNormalsAlong, List.map_cons, List.map_nil, centre, triNormalAxis, icross, isub, comp,
        List.all_cons, List.all_nil, Bool.and_true, Bool.and_eq_true, decide_eq_true_eq, e1, e2] <;>
      (refine ⟨?_, ?_, ?_, ?_⟩ <;> ring_nf <;> norm_num)
  | 1, hx, _, hz, _ =>
    have e1 : ((x - 1 : Nat) : Int) = (x : Int) - 1 := by have := hx (by decide); omega
    have e2 : ((z - 1 : Nat) : Int) = (z : Int) - 1 := by have := hz (by decide); omega
    cases b <;>
      simp only [fourCells, List.reverse_cons, List.reverse_nil, List.nil_append, List.cons_append, if_true, if_false,
        Bool.false_eq_true, quadNormalsAlong, List.map_cons, List.map_nil, centre, triNormalAxis, icross, isub, comp,
        List.all_cons, List.all_nil, Bool.and_true, Bool.and_eq_true, decide_eq_true_eq, e1, e2] <;>
      (refine ⟨?_, ?_, ?_, ?_⟩ <;> ring_nf <;> norm_num)
  | 2, hx, hy, _, _ =>
    have e1 : ((x - 1 : Nat) : Int) = (x : Int) - 1 := by have := hx (by decide); omega
    have e2 : ((y - 1 : Nat) : Int) = (y : Int) - 1 := by have := hy (by decide); omega
    cases b <;>
      simp only [fourCells, List.reverse_cons, List.reverse_nil, List.nil_append, List.cons_append, if_true, if_false,
        Bool.false_eq_true, quadNormalsAlong, List.map_cons, List.map_nil, centre, triNormalAxis, icross, isub, comp,
        List.all_cons, List.all_nil, Bool.and_true, Bool.and_eq_true, decide_eq_true_eq, e1, e2] <;>
      (refine ⟨?_, ?_, ?_, ?_⟩ <;> ring_nf <;> norm_num)
  | n + 3, _, _, _, ha => omega

theorem quadOrientedOk_interior (nx ny rows : Nat) (lab : Lab) (e : EdgeC)
    (h : interiorEdge nx ny rows e = true) : quadOrientedOk nx ny rows lab e = true := by
  unfold quadOrientedOk
  rw [quadOf_interior nx ny rows lab e h]
  rcases e with ⟨ax, x, y, z⟩
  match ax, h with
  | 0, h =>
    simp only [interiorEdge, Bool.and_eq_true, decide_eq_true_eq] at h
    exact quad_orientation_cells ⟨0, x, y, z⟩ (by simp) (by intro; simp only; omega) (by intro; simp only; omega) (by simp) _
  | 1, h =>
    simp only [interiorEdge, Bool.and_eq_true, decide_eq_true_eq] at h
    exact quad_orientation_cells ⟨1, x, y, z⟩ (by intro; simp only; omega) (by simp) (by intro; simp only; omega) (by simp) _
  | 2, h =>
    simp only [interiorEdge, Bool.and_eq_true, decide_eq_true_eq] at h
    exact quad_orientation_cells ⟨2, x, y, z⟩ (by intro; simp only; omega) (by intro; simp only; omega) (by simp) (by simp) _
  | n + 3, h => simp [interiorEdge] at h

/-! ### clipping and the winding of a quad round its edge, over a linear ordered field -/

section field
variable {K : Type} [Field K] [LinearOrder K] [IsStrictOrderedRing K]

theorem clip1_in (p lo hi m : K) (_hm : 0 ≤ m) (h2 : 2 * m ≤ hi - lo) :
    lo + m ≤ clip1 p lo hi m ∧ clip1 p lo hi m ≤ hi - m := by
  unfold clip1 smin smax
  by_cases h1 : p < lo + m
  · simp only [h1, if_true]
    by_cases h3 : hi + -m < lo + m
    · simp only [h3, if_true]; constructor <;> linarith
    · simp only [h3, if_false]; constructor <;> linarith
  · simp only [h1, if_false]
    by_cases h3 : hi + -m < p
    · simp only [h3, if_true]; constructor <;> linarith
    · simp only [h3, if_false]; constructor <;> linarith

/-- `u × v` in the plane orthogonal to the edge. -/
def cross2 (u v : K × K) : K := u.1 * v.2 - u.2 * v.1


theorem cross2_antisymm (u v : K × K) : cross2 v u = -cross2 u v := by unfold cross2; ring

/-- How the harness's exact crossing counter scores triangle `a b c` (projected along the lattice
edge, the edge at the origin): `2` for a hit strictly inside, `1` for a hit on the boundary, `0`
for a miss — the three orientation determinants `a×b, b×c, c×a` must not have both signs. -/
def hitHalf (a b c : K × K) : Nat :=
  let o1 := cross2 a b; let o2 := cross2 b c; let o3 := cross2 c a
  if (0 < o1 ∨ 0 < o2 ∨ 0 < o3) ∧ (o1 < 0 ∨ o2 < 0 ∨ o3 < 0) then 0
  else if o1 = 0 ∨ o2 = 0 ∨ o3 = 0 then 1 else 2

/-- Sign of the normal component along the edge (twice the signed projected area). -/
def areaSign (a b c : K × K) : K := cross2 a b + cross2 b c + cross2 c a

/-- Four points in the four open quadrants round the edge, in the cyclic order of `EdgeCubes`
(`(+,−), (−,−), (−,+), (+,+)` in the plane `(axis+1, axis+2)`). -/
def InQuadrants (p0 p1 p2 p3 : K × K) : Prop :=
  (0 < p0.1 ∧ p0.2 < 0) ∧ (p1.1 < 0 ∧ p1.2 < 0) ∧ (p2.1 < 0 ∧ 0 < p2.2) ∧ (0 < p3.1 ∧ 0 < p3.2)

theorem quadrant_crosses (p0 p1 p2 p3 : K × K) (h : InQuadrants p0 p1 p2 p3) :
    cross2 p0 p1 < 0 ∧ cross2 p1 p2 < 0 ∧ cross2 p2 p3 < 0 ∧ cross2 p3 p0 < 0 := by
  obtain ⟨⟨a1, a2⟩, ⟨b1, b2⟩, ⟨c1, c2⟩, ⟨d1, d2⟩⟩ := h
  unfold cross2
  refine ⟨?_, ?_, ?_, ?_⟩
  · nlinarith [mul_pos a1 (neg_pos.2 b2), mul_pos (neg_pos.2 a2) (neg_pos.2 b1)]
  · nlinarith [mul_pos (neg_pos.2 b1) c2, mul_pos (neg_pos.2 b2) (neg_pos.2 c1)]
  · nlinarith [mul_pos (neg_pos.2 c1) d2, mul_pos c2 d1]
  · nlinarith [mul_pos d1 (neg_pos.2 a2), mul_pos d2 a1]

/-- A fan triangulation `(a,b,c), (a,c,d)` of a quad whose four consecutive determinants are
negative is hit by the edge exactly once (score 2 in half-units: one triangle strictly, or both on
their common diagonal), and every triangle that is hit has its normal along `−axis`. -/
theorem fan_hit_once (a b c d : K × K) (hab : cross2 a b < 0) (hbc : cross2 b c < 0)
    (hcd : cross2 c d < 0) (hda : cross2 d a < 0) :
    hitHalf a b c + hitHalf a c d = 2 ∧
    (hitHalf a b c ≠ 0 → areaSign a b c < 0) ∧ (hitHalf a c d ≠ 0 → areaSign a c d < 0) := by
  have hca : cross2 c a = -cross2 a c := cross2_antisymm a c
  rcases lt_trichotomy (cross2 a c) 0 with h | h | h
  · -- the edge passes strictly inside (a, c, d)
    have h1 : hitHalf a b c = 0 := by
      unfold hitHalf; simp only; rw [if_pos]; exact ⟨Or.inr (Or.inr (by rw [hca]; linarith)), Or.inl hab⟩
    have h2 : hitHalf a c d = 2 := by
      unfold hitHalf; simp only
      rw [if_neg, if_neg]
      · intro hh; rcases hh with hh | hh | hh <;> linarith
      · intro hh; rcases hh.1 with hh | hh | hh <;> linarith
    refine ⟨by rw [h1, h2], fun hh => absurd h1 hh, fun _ => ?_⟩
    unfold areaSign; linarith
  · have h1 : hitHalf a b c = 1 := by
      unfold hitHalf; simp only
      rw [if_neg, if_pos]
      · exact Or.inr (Or.inr (by rw [hca, h]; simp))
      · intro hh; rcases hh.1 with hh | hh | hh
        · linarith
        · linarith
        · rw [hca, h] at hh; simp at hh
    have h2 : hitHalf a c d = 1 := by
      unfold hitHalf; simp only
      rw [if_neg, if_pos]
      · exact Or.inl h
      · intro hh; rcases hh.1 with hh | hh | hh <;> linarith
    refine ⟨by rw [h1, h2], fun _ => ?_, fun _ => ?_⟩
    · unfold areaSign; rw [hca, h]; linarith
    · unfold areaSign; rw [h]; linarith
  · have h1 : hitHalf a b c = 2 := by
      unfold hitHalf; simp only
      rw [if_neg, if_neg]
      · intro hh; rcases hh with hh | hh | hh
        · linarith
        · linarith
        · rw [hca] at hh; linarith
      · intro hh; rcases hh.1 with hh | hh | hh
        · linarith
        · linarith
        · rw [hca] at hh; linarith
    have h2 : hitHalf a c d = 0 := by
      unfold hitHalf; simp only; rw [if_pos]; exact ⟨Or.inl h, Or.inr (Or.inl hcd)⟩
    refine ⟨by rw [h1, h2], fun _ => ?_, fun hh => absurd h2 hh⟩
    unfold areaSign; rw [hca]; linarith

theorem hitHalf_flip (a b c : K × K) : hitHalf c b a = hitHalf a b c := by
  unfold hitHalf
  simp only [cross2_antisymm b c, cross2_antisymm a b, cross2_antisymm c a, neg_pos, neg_neg_iff_pos, neg_lt_zero,
    neg_eq_zero, Left.neg_neg_iff]
  congr 1
  · apply propext; constructor <;> (rintro ⟨h1, h2⟩; constructor <;> tauto)
  · congr 1; apply propext; tauto

theorem areaSign_flip (a b c : K × K) : areaSign c b a = -areaSign a b c := by
  unfold areaSign cross2; ring

end field

end M3d.DC
