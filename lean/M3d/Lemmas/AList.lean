import M3d.Model.FastMap
/-! Lemmas about Go maps modelled as association lists. Core-only. -/
namespace M3d.FastMap
variable {A B : Type} [DecidableEq A]

@[simp] theorem get_nil (a : A) : get ([] : List (A × B)) a = none := rfl

theorem get_cons (k : A) (v : B) (t : List (A × B)) (a : A) :
    get ((k, v) :: t) a = if k = a then some v else get t a := rfl

theorem mem_keysOf_of_get {m : List (A × B)} {a : A} {b : B} (h : get m a = some b) :
    a ∈ keysOf m := by
  induction m with
  | nil => simp at h
  | cons p t ih =>
    obtain ⟨k, v⟩ := p
    rw [get_cons] at h
    by_cases hk : k = a
    · simp [keysOf, hk]
    · simp [hk] at h
      have := ih h
      simp [keysOf] at this ⊢
      exact Or.inr this

theorem get_eq_none_of_not_mem {m : List (A × B)} {a : A} (h : a ∉ keysOf m) :
    get m a = none := by
  cases hg : get m a with
  | none => rfl
  | some b => exact absurd (mem_keysOf_of_get hg) h

theorem get_isSome_of_mem {m : List (A × B)} {a : A} (h : a ∈ keysOf m) :
    (get m a).isSome := by
  induction m with
  | nil => simp [keysOf] at h
  | cons p t ih =>
    obtain ⟨k, v⟩ := p
    rw [get_cons]
    by_cases hk : k = a
    · simp [hk]
    · simp [hk]
      simp [keysOf] at h
      rcases h with h | h
      · exact absurd h.symm hk
      · apply ih; simpa [keysOf] using h

theorem get_del_self (m : List (A × B)) (a : A) : get (del m a) a = none := by
  apply get_eq_none_of_not_mem
  simp [keysOf, del]

theorem get_del_ne (m : List (A × B)) {a a' : A} (h : a' ≠ a) :
    get (del m a) a' = get m a' := by
  induction m with
  | nil => rfl
  | cons p t ih =>
    obtain ⟨k, v⟩ := p
    by_cases hk : k = a
    · subst hk
      have : del ((k, v) :: t) k = del t k := by simp [del]
      rw [this, ih, get_cons]
      simp [Ne.symm h]
    · have : del ((k, v) :: t) a = (k, v) :: del t a := by simp [del, hk]
      rw [this, get_cons, get_cons, ih]

theorem get_put_self (m : List (A × B)) (a : A) (b : B) : get (put m a b) a = some b := by
  simp [put, get_cons]

theorem get_put_ne (m : List (A × B)) {a a' : A} (b : B) (h : a' ≠ a) :
    get (put m a b) a' = get m a' := by
  simp [put, get_cons, Ne.symm h, get_del_ne m h]

theorem get_put (m : List (A × B)) (a a' : A) (b : B) :
    get (put m a b) a' = if a' = a then some b else get m a' := by
  by_cases h : a' = a
  · subst h; simp [get_put_self]
  · simp [h, get_put_ne m b h]

theorem keysOf_del (m : List (A × B)) (a : A) :
    keysOf (del m a) = (keysOf m).filter (· ≠ a) := by
  induction m with
  | nil => rfl
  | cons p t ih =>
    obtain ⟨k, v⟩ := p
    by_cases hk : k = a
    · simp [del, keysOf, hk] at ih ⊢; exact ih
    · simp [del, keysOf, hk] at ih ⊢; exact ih

theorem nodup_del {m : List (A × B)} (a : A) (h : (keysOf m).Nodup) :
    (keysOf (del m a)).Nodup := by
  rw [keysOf_del]; exact h.filter _

theorem nodup_put {m : List (A × B)} (a : A) (b : B) (h : (keysOf m).Nodup) :
    (keysOf (put m a b)).Nodup := by
  have h1 := nodup_del a h
  have : a ∉ keysOf (del m a) := by simp [keysOf_del]
  simp [put, keysOf] at *
  exact ⟨by simpa [keysOf] using this, by simpa [keysOf] using h1⟩

theorem length_del_of_not_mem {m : List (A × B)} {a : A} (h : a ∉ keysOf m) :
    (del m a).length = m.length := by
  induction m with
  | nil => rfl
  | cons p t ih =>
    obtain ⟨k, v⟩ := p
    simp [keysOf] at h
    have hk : k ≠ a := fun e => h.1 e.symm
    have : del ((k, v) :: t) a = (k, v) :: del t a := by simp [del, hk]
    rw [this]; simp
    apply ih; simpa [keysOf] using h.2

theorem length_del_of_mem {m : List (A × B)} {a : A} (hn : (keysOf m).Nodup) (h : a ∈ keysOf m) :
    (del m a).length + 1 = m.length := by
  induction m with
  | nil => simp [keysOf] at h
  | cons p t ih =>
    obtain ⟨k, v⟩ := p
    have hn' : k ∉ keysOf t ∧ (keysOf t).Nodup := by simpa [keysOf] using hn
    by_cases hk : k = a
    · subst hk
      have : del ((k, v) :: t) k = del t k := by simp [del]
      rw [this, length_del_of_not_mem hn'.1]; simp
    · have : del ((k, v) :: t) a = (k, v) :: del t a := by simp [del, hk]
      rw [this]; simp
      apply ih hn'.2
      simp [keysOf] at h
      rcases h with h | h
      · exact absurd h.symm hk
      · simpa [keysOf] using h

/-- Size of a Go map after an assignment. -/
theorem length_put {m : List (A × B)} (a : A) (b : B) (hn : (keysOf m).Nodup) :
    (put m a b).length = if (get m a).isSome then m.length else m.length + 1 := by
  by_cases h : a ∈ keysOf m
  · have := length_del_of_mem hn h
    simp [put, get_isSome_of_mem h]; omega
  · simp [put, get_eq_none_of_not_mem h, length_del_of_not_mem h]

/-- Size of a Go map after a `delete`. -/
theorem length_del {m : List (A × B)} (a : A) (hn : (keysOf m).Nodup) :
    (del m a).length = if (get m a).isSome then m.length - 1 else m.length := by
  by_cases h : a ∈ keysOf m
  · have := length_del_of_mem hn h
    simp [get_isSome_of_mem h]; omega
  · simp [get_eq_none_of_not_mem h, length_del_of_not_mem h]

end M3d.FastMap
