import M3d.Lemmas.TriMore
import Mathlib.Tactic.FieldSimp
import Mathlib.Tactic.Ring
import Mathlib.Tactic.Linarith
/-!
Helper lemmas for C14, part 11: **the point-in-ear test has no lower tolerance.**

`blocks` (the model of the test in `isVertexEar`) computes the barycentric coordinates
`p − p2 = X·(p1 − p2) + Y·(p3 − p2)` with the inverse matrix; here they are identified with ratios
of orientation determinants,

    X = orient p2 p3 p / O,   Y = orient p1 p2 p / O,   1 − X − Y = orient p3 p1 p / O,   O = orient p1 p2 p3,

so that "blocks" is the scale-free statement "p lies strictly on the inner side of the two polygon
sides `p1p2`, `p2p3` of the ear and on or inside its diagonal `p3p1`" — for EVERY position of `p`
with that property, however close to one of the two sides.
-/
set_option linter.unusedSectionVars false

namespace M3d.Tri

section Field
variable {K : Type} [Field K] [LinearOrder K] [IsStrictOrderedRing K]

/-- `p` lies strictly inside the triangle `a b c` (either orientation): the three edge determinants
are all positive or all negative. -/
def StrictlyInside (a b c p : P2 K) : Prop :=
  (0 < orient a b p ∧ 0 < orient b c p ∧ 0 < orient c a p) ∨
  (orient a b p < 0 ∧ orient b c p < 0 ∧ orient c a p < 0)

/-- `p` lies on the open diagonal `p3 p1` of the ear `p1 p2 p3`: on its line, strictly on the inner
side of the two polygon sides. -/
def OnOpenDiagonal (p1 p2 p3 p : P2 K) : Prop :=
  orient p3 p1 p = 0 ∧
  ((0 < orient p1 p2 p ∧ 0 < orient p2 p3 p) ∨ (orient p1 p2 p < 0 ∧ orient p2 p3 p < 0))

theorem orient_split (a b c p : P2 K) :
    orient a b p + orient b c p + orient c a p = orient a b c := by
  simp only [orient]; ring

/-- The matrix computation of `blocks` in terms of orientation determinants. -/
theorem blocks_eq_orient (sd : Bool) (p1 p2 p3 p : P2 K) (hO : orient p1 p2 p3 ≠ 0) :
    blocks sd p1 p2 p3 p =
      if sd then decide (0 < orient p2 p3 p / orient p1 p2 p3) && decide (0 < orient p1 p2 p / orient p1 p2 p3) &&
        decide (0 < orient p3 p1 p / orient p1 p2 p3)
      else decide (0 < orient p2 p3 p / orient p1 p2 p3) && decide (0 < orient p1 p2 p / orient p1 p2 p3) &&
        decide (0 ≤ orient p3 p1 p / orient p1 p2 p3) := by
  have hdet : (p1.x - p2.x) * (p3.y - p2.y) - (p3.x - p2.x) * (p1.y - p2.y) = -orient p1 p2 p3 := by
    simp only [orient]; ring
  have hd : (p1.x - p2.x) * (p3.y - p2.y) - (p3.x - p2.x) * (p1.y - p2.y) ≠ 0 := by
    rw [hdet]; exact neg_ne_zero.2 hO
  have hX : (p3.y - p2.y) * (1 / ((p1.x - p2.x) * (p3.y - p2.y) - (p3.x - p2.x) * (p1.y - p2.y))) * (p.x - p2.x) +
      (0 - (p3.x - p2.x)) * (1 / ((p1.x - p2.x) * (p3.y - p2.y) - (p3.x - p2.x) * (p1.y - p2.y))) * (p.y - p2.y)
      = orient p2 p3 p / orient p1 p2 p3 := by
    rw [hdet]; simp only [orient]; field_simp; ring
  have hY : (0 - (p1.y - p2.y)) * (1 / ((p1.x - p2.x) * (p3.y - p2.y) - (p3.x - p2.x) * (p1.y - p2.y))) * (p.x - p2.x) +
      (p1.x - p2.x) * (1 / ((p1.x - p2.x) * (p3.y - p2.y) - (p3.x - p2.x) * (p1.y - p2.y))) * (p.y - p2.y)
      = orient p1 p2 p / orient p1 p2 p3 := by
    rw [hdet]; simp only [orient]; field_simp; ring
  have hS : orient p2 p3 p / orient p1 p2 p3 + orient p1 p2 p / orient p1 p2 p3
      = 1 - orient p3 p1 p / orient p1 p2 p3 := by
    have := orient_split p1 p2 p3 p
    field_simp
    linarith
  unfold blocks
  simp only [hX, hY, hS]
  cases sd
  · simp only [Bool.false_eq_true, if_false]
    congr 1
    exact decide_eq_decide.2 ⟨fun h => by linarith, fun h => by linarith⟩
  · simp only [if_true]
    congr 1
    exact decide_eq_decide.2 ⟨fun h => by linarith, fun h => by linarith⟩

/-- A vertex strictly inside the ear triangle blocks the ear, for both versions of the diagonal
test — no lower bound on its distance from the sides. -/
theorem blocks_of_strictlyInside (sd : Bool) (p1 p2 p3 p : P2 K) (h : StrictlyInside p1 p2 p3 p) :
    blocks sd p1 p2 p3 p = true := by
  have hs := orient_split p1 p2 p3 p
  rcases h with ⟨h1, h2, h3⟩ | ⟨h1, h2, h3⟩
  · have hO : 0 < orient p1 p2 p3 := by linarith
    rw [blocks_eq_orient sd p1 p2 p3 p hO.ne']
    have a := div_pos h2 hO
    have b := div_pos h1 hO
    have c := div_pos h3 hO
    cases sd <;> simp [a, b, c, c.le]
  · have hO : orient p1 p2 p3 < 0 := by linarith
    rw [blocks_eq_orient sd p1 p2 p3 p hO.ne]
    have a := div_pos_of_neg_of_neg h2 hO
    have b := div_pos_of_neg_of_neg h1 hO
    have c := div_pos_of_neg_of_neg h3 hO
    cases sd <;> simp [a, b, c, c.le]

/-- A vertex on the open diagonal blocks the ear in the repaired test. -/
theorem blocks_of_onOpenDiagonal (p1 p2 p3 p : P2 K) (h : OnOpenDiagonal p1 p2 p3 p) :
    blocks false p1 p2 p3 p = true := by
  have hs := orient_split p1 p2 p3 p
  obtain ⟨h0, h⟩ := h
  rcases h with ⟨h1, h2⟩ | ⟨h1, h2⟩
  · have hO : 0 < orient p1 p2 p3 := by linarith
    rw [blocks_eq_orient false p1 p2 p3 p hO.ne']
    have a := div_pos h2 hO
    have b := div_pos h1 hO
    simp [a, b, h0]
  · have hO : orient p1 p2 p3 < 0 := by linarith
    rw [blocks_eq_orient false p1 p2 p3 p hO.ne]
    have a := div_pos_of_neg_of_neg h2 hO
    have b := div_pos_of_neg_of_neg h1 hO
    simp [a, b, h0]

/-- Conversely `blocks` only fires for vertices strictly inside or on the open diagonal. -/
theorem strictlyInside_or_diag_of_blocks (p1 p2 p3 p : P2 K) (hO : orient p1 p2 p3 ≠ 0)
    (h : blocks false p1 p2 p3 p = true) :
    StrictlyInside p1 p2 p3 p ∨ OnOpenDiagonal p1 p2 p3 p := by
  rw [blocks_eq_orient false p1 p2 p3 p hO] at h
  simp only [Bool.false_eq_true, if_false, Bool.and_eq_true, decide_eq_true_eq] at h
  obtain ⟨⟨ha, hb⟩, hc⟩ := h
  rcases lt_or_gt_of_ne hO with hneg | hpos
  · have a := (div_pos_iff.1 ha).resolve_left (fun h => absurd h.2 (not_lt.2 hneg.le))
    have b := (div_pos_iff.1 hb).resolve_left (fun h => absurd h.2 (not_lt.2 hneg.le))
    rcases eq_or_lt_of_le hc with hc0 | hc1
    · right
      have : orient p3 p1 p = 0 := by
        rcases div_eq_zero_iff.1 hc0.symm with h | h
        · exact h
        · exact absurd h hO
      exact ⟨this, Or.inr ⟨b.1, a.1⟩⟩
    · left
      have c := (div_pos_iff.1 hc1).resolve_left (fun h => absurd h.2 (not_lt.2 hneg.le))
      exact Or.inr ⟨b.1, a.1, c.1⟩
  · have a := (div_pos_iff.1 ha).resolve_right (fun h => absurd h.2 (not_lt.2 hpos.le))
    have b := (div_pos_iff.1 hb).resolve_right (fun h => absurd h.2 (not_lt.2 hpos.le))
    rcases eq_or_lt_of_le hc with hc0 | hc1
    · right
      have : orient p3 p1 p = 0 := by
        rcases div_eq_zero_iff.1 hc0.symm with h | h
        · exact h
        · exact absurd h hO
      exact ⟨this, Or.inl ⟨b.1, a.1⟩⟩
    · left
      have c := (div_pos_iff.1 hc1).resolve_right (fun h => absurd h.2 (not_lt.2 hpos.le))
      exact Or.inl ⟨b.1, a.1, c.1⟩

/-- If some other vertex of the polygon blocks the ear at `v`, `isVertexEar` rejects `v`. -/
theorem isVertexEar_false_of_blocks (sd : Bool) (l : List (P2 K)) (v i : Nat) (hi : i < l.length)
    (h1 : i ≠ (v + l.length - 1) % l.length) (h2 : i ≠ v) (h3 : i ≠ (v + 1) % l.length)
    (hb : blocks sd (prevAt l v) (curAt l v) (nextAt l v) (curAt l i) = true) :
    isVertexEar sd l v = false := by
  unfold isVertexEar
  simp only
  split
  · rfl
  · rw [List.all_eq_false]
    refine ⟨i, List.mem_range.2 hi, ?_⟩
    simp [h1, h2, h3, hb]

/-- If `isVertexEar` accepts `v`, no other vertex blocks the ear. -/
theorem not_blocks_of_isVertexEar (sd : Bool) (l : List (P2 K)) (v i : Nat) (hi : i < l.length)
    (h1 : i ≠ (v + l.length - 1) % l.length) (h2 : i ≠ v) (h3 : i ≠ (v + 1) % l.length)
    (h : isVertexEar sd l v = true) :
    blocks sd (prevAt l v) (curAt l v) (nextAt l v) (curAt l i) = false := by
  by_contra hb
  have hb' : blocks sd (prevAt l v) (curAt l v) (nextAt l v) (curAt l i) = true := by
    cases hq : blocks sd (prevAt l v) (curAt l v) (nextAt l v) (curAt l i)
    · exact absurd hq hb
    · rfl
  rw [isVertexEar_false_of_blocks sd l v i hi h1 h2 h3 hb'] at h
  cases h

end Field

end M3d.Tri
