import M3d.Model.SmartSqueeze
import M3d.Lemmas.Transform
/-! Helper lemmas for the `SmartSqueeze.Transform` part of C05. -/
namespace M3d.Tf

set_option linter.unusedSectionVars false

section
variable {K : Type} [Field K] [LinearOrder K] [IsStrictOrderedRing K]

/-- every value `next` can take: the range ends/starts and `max` -/
def breakpoints (ranges : List (K × K)) (max : K) : List K :=
  max :: ranges.flatMap fun r => [r.1, r.2]

theorem mem_breakpoints_of_mem {ranges : List (K × K)} {max : K} {r : K × K} (h : r ∈ ranges) :
    r.1 ∈ breakpoints ranges max ∧ r.2 ∈ breakpoints ranges max := by
  simp only [breakpoints, List.mem_cons, List.mem_flatMap, List.mem_singleton, List.mem_nil_iff, or_false]
  exact ⟨Or.inr ⟨r, h, Or.inl rfl⟩, Or.inr ⟨r, h, Or.inr rfl⟩⟩

/-- `scanRanges` keeps "`next` is `+Inf` or a breakpoint beyond `v`". -/
theorem scanRanges_inv (S : K → Prop) (v : K) (l : List (K × K)) (hl : ∀ r ∈ l, S r.1 ∧ S r.2)
    (next : Option K) (hn : ∀ x, next = some x → v < x ∧ S x) :
    ∀ x, (scanRanges v l next).2 = some x → v < x ∧ S x := by
  induction l generalizing next with
  | nil => simpa [scanRanges] using hn
  | cons r rest ih =>
      obtain ⟨a, b⟩ := r
      have hab := hl (a, b) List.mem_cons_self
      have hrest : ∀ r ∈ rest, S r.1 ∧ S r.2 := fun r hr => hl r (List.mem_cons_of_mem _ hr)
      simp only [scanRanges]
      split_ifs with h1 h2
      · intro x hx
        simp only [Option.some.injEq] at hx
        subst hx
        exact ⟨h1.2, hab.2⟩
      · exact ih hrest (some a) (fun x hx => by
          simp only [Option.some.injEq] at hx; subst hx; exact ⟨h2.1, hab.1⟩)
      · exact ih hrest next hn

theorem capNext_spec (S : K → Prop) (v max : K) (hv : v < max) (hmax : S max) (next : Option K)
    (hn : ∀ x, next = some x → v < x ∧ S x) : v < capNext next max ∧ S (capNext next max) := by
  cases next with
  | none => exact ⟨hv, hmax⟩
  | some x =>
      obtain ⟨h1, h2⟩ := hn x rfl
      simp only [capNext, mn]
      split_ifs
      · exact ⟨h1, h2⟩
      · exact ⟨hv, hmax⟩

/-- the next loop value is a breakpoint strictly beyond the current one -/
theorem loop_step (ranges : List (K × K)) (max v : K) (hv : v < max) :
    v < capNext (scanRanges v ranges none).2 max ∧
      capNext (scanRanges v ranges none).2 max ∈ breakpoints ranges max := by
  apply capNext_spec (fun x => x ∈ breakpoints ranges max) v max hv (by simp [breakpoints])
  exact scanRanges_inv _ v ranges (fun r hr => mem_breakpoints_of_mem hr) none (fun x hx => by simp at hx)

theorem countP_lt_of_mem (l : List K) (v w : K) (hvw : v < w) (hw : w ∈ l) :
    l.countP (fun x => decide (w < x)) < l.countP (fun x => decide (v < x)) := by
  induction l with
  | nil => simp at hw
  | cons a t ih =>
      have mono : t.countP (fun x => decide (w < x)) ≤ t.countP (fun x => decide (v < x)) :=
        List.countP_mono_left (fun x _ hx => by
          simp only [decide_eq_true_eq] at hx ⊢; exact lt_trans hvw hx)
      rcases List.mem_cons.mp hw with rfl | hmem
      · simp only [List.countP_cons, lt_irrefl, decide_false, decide_eq_true_eq, hvw, if_true]
        simp; omega
      · have := ih hmem
        simp only [List.countP_cons]
        by_cases h1 : w < a
        · have h2 : v < a := lt_trans hvw h1
          simp [h1, h2]; omega
        · by_cases h2 : v < a <;> simp [h1, h2] <;> omega

/-- **Termination**: once the fuel covers the breakpoints still ahead, more fuel changes nothing. -/
theorem squeezeLoop_fuel (ranges : List (K × K)) (max : K) (n : Nat) :
    ∀ (v : K) (acc : List (K × K)), (breakpoints ranges max).countP (fun x => decide (v < x)) ≤ n →
      ∀ m, n ≤ m → squeezeLoop ranges max m v acc = squeezeLoop ranges max n v acc := by
  induction n with
  | zero =>
      intro v acc hc m _
      have hnot : ¬ v < max := by
        intro hv
        have : 0 < (breakpoints ranges max).countP (fun x => decide (v < x)) :=
          List.countP_pos_iff.mpr ⟨max, by simp [breakpoints], by simpa using hv⟩
        omega
      cases m with
      | zero => rfl
      | succ m => simp only [squeezeLoop, if_neg hnot]
  | succ n ih =>
      intro v acc hc m hm
      obtain ⟨m', rfl⟩ : ∃ m', m = m' + 1 := ⟨m - 1, by omega⟩
      simp only [squeezeLoop]
      by_cases hv : v < max
      · simp only [if_pos hv]
        obtain ⟨h1, h2⟩ := loop_step ranges max v hv
        have := countP_lt_of_mem _ v _ h1 h2
        exact ih _ _ (by omega) m' (by omega)
      · simp only [if_neg hv]

theorem squeezeLoop_valid (ranges : List (K × K)) (max : K) (n : Nat) :
    ∀ (v : K) (acc : List (K × K)), (∀ r ∈ acc, r.1 < r.2) →
      ∀ r ∈ squeezeLoop ranges max n v acc, r.1 < r.2 := by
  induction n with
  | zero => intro v acc h; simpa [squeezeLoop] using h
  | succ n ih =>
      intro v acc h
      simp only [squeezeLoop]
      by_cases hv : v < max
      · simp only [if_pos hv]
        apply ih
        obtain ⟨h1, _⟩ := loop_step ranges max v hv
        split_ifs
        · intro r hr
          rcases List.mem_append.mp hr with hr | hr
          · exact h r hr
          · simp only [List.mem_singleton] at hr; subst hr; exact h1
        · exact h
      · simpa [if_neg hv] using h

theorem smartXf_valid (axis : Nat) (ratio : K) (hr : 0 < ratio) (l : List (K × K)) (h : ∀ r ∈ l, r.1 < r.2) :
    (smartXf axis ratio l).Valid := by
  induction l with
  | nil => trivial
  | cons r rest ih =>
      obtain ⟨a, b⟩ := r
      exact ⟨⟨(h (a, b) List.mem_cons_self).le, hr⟩, ih (fun r hr' => h r (List.mem_cons_of_mem _ hr'))⟩

/-- A join of squeezes along one axis acts on that coordinate by a monotone function and leaves the others alone. -/
theorem smartXf_monotone (axis : Nat) (ratio : K) (hr : 0 < ratio) (l : List (K × K)) (h : ∀ r ∈ l, r.1 < r.2) :
    ∃ f : K → K, (∀ v w, v ≤ w → f v ≤ f w) ∧ ∀ c : V3 K, (smartXf axis ratio l).apply c = c.set axis (f (c.get axis)) := by
  induction l with
  | nil => exact ⟨id, fun _ _ h => h, fun c => by simp [smartXf, Xf.apply]⟩
  | cons r rest ih =>
      obtain ⟨a, b⟩ := r
      obtain ⟨f, hf, hfa⟩ := ih (fun r hr' => h r (List.mem_cons_of_mem _ hr'))
      have hab := (h (a, b) List.mem_cons_self).le
      refine ⟨fun v => f (sq1 a b ratio v), fun v w hvw => hf _ _ (sq1_mono a b ratio hab hr.le hvw), fun c => ?_⟩
      simp only [smartXf, Xf.apply, Xf.squeezeApply_eq, hfa, V3.get_set, V3.set_set]

end
end M3d.Tf
