import M3d.GenPrelude
/-!
# Reasoning about `loopFrom` (the image of Go loops with a run-time trip count in `M3d/Gen/Kernels.lean`)

General lemmas that turn the structural recursion the translator emits into the list functions the
hand-written models use: a loop that never jumps is a left fold (with positions), a loop whose only jump is
`return c` on the first element that fails a test is `List.all`, a search loop is `List.find?`-like.
Core Lean only.
-/
namespace M3d.GenPrelude

variable {ρ σ ε : Type}

@[simp] theorem loopFrom_nil (f : σ → Nat → ε → Loop ρ σ) (i : Nat) (s : σ) :
    loopFrom f [] i s = Sum.inr s := rfl

theorem loopFrom_cons (f : σ → Nat → ε → Loop ρ σ) (x : ε) (xs : List ε) (i : Nat) (s : σ) :
    loopFrom f (x :: xs) i s =
      match f s i x with
      | Loop.ret r => Sum.inl r
      | Loop.brk s' => Sum.inr s'
      | Loop.next s' => loopFrom f xs (i + 1) s' := rfl

/-- Left fold that also sees the position of each element (positions start at `i`). -/
def foldlIdx (g : σ → Nat → ε → σ) : List ε → Nat → σ → σ
  | [], _, s => s
  | x :: xs, i, s => foldlIdx g xs (i + 1) (g s i x)

/-- A body that never returns or breaks: the loop is a left fold. -/
theorem loopFrom_eq_foldlIdx (f : σ → Nat → ε → Loop ρ σ) (g : σ → Nat → ε → σ)
    (h : ∀ s i x, f s i x = Loop.next (g s i x)) (xs : List ε) (i : Nat) (s : σ) :
    loopFrom f xs i s = Sum.inr (foldlIdx g xs i s) := by
  induction xs generalizing i s with
  | nil => rfl
  | cons x xs ih => simp only [loopFrom_cons, h, foldlIdx]; exact ih _ _

/-- …and when the body ignores the position, an ordinary `List.foldl`. -/
theorem foldlIdx_eq_foldl (g : σ → ε → σ) (xs : List ε) (i : Nat) (s : σ) :
    foldlIdx (fun s _ x => g s x) xs i s = xs.foldl g s := by
  induction xs generalizing i s with
  | nil => rfl
  | cons x xs ih => simp only [foldlIdx, List.foldl_cons]; exact ih _ _

theorem loopFrom_eq_foldl (f : σ → Nat → ε → Loop ρ σ) (g : σ → ε → σ)
    (h : ∀ s i x, f s i x = Loop.next (g s x)) (xs : List ε) (i : Nat) (s : σ) :
    loopFrom f xs i s = Sum.inr (xs.foldl g s) := by
  rw [loopFrom_eq_foldlIdx f (fun s _ x => g s x) h, foldlIdx_eq_foldl]

/-- `for _, x := range xs { if !p x { return c } }`: the loop returns `c` iff some element fails `p`. -/
theorem loopFrom_all (f : σ → Nat → ε → Loop ρ σ) (p : ε → Bool) (c : ρ)
    (h : ∀ s i x, f s i x = if p x then Loop.next s else Loop.ret c) (xs : List ε) (i : Nat) (s : σ) :
    loopFrom f xs i s = if xs.all p then Sum.inr s else Sum.inl c := by
  induction xs generalizing i with
  | nil => rfl
  | cons x xs ih =>
    rw [loopFrom_cons, h, List.all_cons]
    by_cases hp : p x = true
    · simp only [hp, if_true, Bool.true_and]; exact ih _
    · have hp' : p x = false := by simpa using hp
      simp [hp']

/-- `for _, x := range xs { if p x { return c } }`: the loop returns `c` iff some element passes `p`. -/
theorem loopFrom_any (f : σ → Nat → ε → Loop ρ σ) (p : ε → Bool) (c : ρ)
    (h : ∀ s i x, f s i x = if p x then Loop.ret c else Loop.next s) (xs : List ε) (i : Nat) (s : σ) :
    loopFrom f xs i s = if xs.any p then Sum.inl c else Sum.inr s := by
  induction xs generalizing i with
  | nil => rfl
  | cons x xs ih =>
    rw [loopFrom_cons, h, List.any_cons]
    by_cases hp : p x = true
    · simp [hp]
    · have hp' : p x = false := by simpa using hp
      simp only [hp', Bool.false_or]; exact ih _

/-- An invariant kept by every iteration holds when the loop ends; a returned value satisfies what the
returning iteration guarantees. -/
theorem loopFrom_invariant (f : σ → Nat → ε → Loop ρ σ) (I : σ → Prop) (R : ρ → Prop)
    (hstep : ∀ s i x, I s → match f s i x with
      | Loop.ret r => R r
      | Loop.brk s' => I s'
      | Loop.next s' => I s') (xs : List ε) (i : Nat) (s : σ) (hs : I s) :
    match loopFrom f xs i s with
    | Sum.inl r => R r
    | Sum.inr s' => I s' := by
  induction xs generalizing i s with
  | nil => exact hs
  | cons x xs ih =>
    have := hstep s i x hs
    rw [loopFrom_cons]
    cases hf : f s i x with
    | ret r => simpa [hf] using this
    | brk s' => simpa [hf] using this
    | next s' => rw [hf] at this; exact ih _ _ this

/-- Counting loop `for i := lo; i < hi; i++` over `List.range n`: element and position coincide. -/
theorem loopFrom_range_congr (f g : σ → Nat → Nat → Loop ρ σ) (n : Nat)
    (h : ∀ s k, f s k k = g s k k) (s : σ) :
    loopFrom f (List.range n) 0 s = loopFrom g (List.range n) 0 s := by
  have key : ∀ (m i : Nat) (s : σ), loopFrom f (List.range' i m) i s = loopFrom g (List.range' i m) i s := by
    intro m
    induction m with
    | zero => intros; rfl
    | succ m ih =>
      intro i s
      simp only [List.range'_succ, loopFrom_cons, h]
      cases g s i i with
      | ret r => rfl
      | brk s' => rfl
      | next s' => exact ih _ _
  simpa [List.range_eq_range'] using key n 0 s

end M3d.GenPrelude
