import M3d.Lemmas.ConcPatterns
/-!
# C13 helper lemmas: per-goroutine buffers merged by a reduce function under the launcher's mutex

`collectProgN` (`Model/Conc.lean`): `essentials.ReduceConcurrentMap` as `DualContouring.populateEdges`
uses it.  The invariant: buffer cells are touched only by the worker whose backing array they are
(the arrays of different workers are different: `hinj`), the accumulator only under the mutex.
-/
set_option linter.unusedSimpArgs false
set_option linter.unusedVariables false
set_option linter.unusedSectionVars false
namespace M3d.Conc

/-- Threads in the order in which their reduce function appended to the shared result. -/
def collectOrder (c : Config) : List Tid := ((c.hist.filter (fun a => a.loc == CACC)).map (·.tid)).reverse

structure CollInv (merge : Val → Val → Val) (base v : Tid → Val) (N : Nat) (c : Config) : Prop where
  pcle : ∀ t, (c.thr t).pc ≤ 6
  idle : ∀ t, N ≤ t → (c.thr t).pc = 0
  reg : ∀ t, 1 ≤ (c.thr t).pc → (c.thr t).reg = base t
  buf : ∀ t, t < N → 2 ≤ (c.thr t).pc → c.mem (CBUF + base t) = v t
  mtx_iff : ∀ t, c.mtx M = some t ↔ (3 ≤ (c.thr t).pc ∧ (c.thr t).pc ≤ 5)
  out4 : ∀ t, (c.thr t).pc = 4 → (c.thr t).out = v t
  acc : c.mem CACC = ((collectOrder c).map v).foldl merge 0
  mem_order : ∀ t, t ∈ collectOrder c ↔ 5 ≤ (c.thr t).pc
  nodup : (collectOrder c).Nodup
  own : ∀ a ∈ c.hist, a.loc = CACC ∨ (a.tid < N ∧ a.loc = CBUF + base a.tid)
  ordered : ∀ a ∈ c.hist, a.loc = CACC →
    (c.mtx M = none → a.eid ∈ c.mclk M) ∧ (∀ t, c.mtx M = some t → a.eid ∈ (c.thr t).seen)
  norace : c.races = []

theorem collInv_init (merge : Val → Val → Val) (base v : Tid → Val) (N : Nat) :
    CollInv merge base v N Config.init := by
  constructor <;> simp [Config.init, TState.init, collectOrder]

theorem coll_at (merge : Val → Val → Val) (b x : Val) :
    (collectThread merge b x)[0]? = some (.setReg b) ∧ (collectThread merge b x)[1]? = some (.writeAt CBUF x) ∧
    (collectThread merge b x)[2]? = some (.lock M) ∧ (collectThread merge b x)[3]? = some (.readAt CBUF) ∧
    (collectThread merge b x)[4]? = some (.rmw CACC merge) ∧ (collectThread merge b x)[5]? = some (.unlock M) ∧
    (collectThread merge b x)[6]? = none :=
  ⟨rfl, rfl, rfl, rfl, rfl, rfl, rfl⟩

section
variable (merge : Val → Val → Val) (base v : Tid → Val) (N : Nat)
  (hinj : ∀ t t', t < N → t' < N → base t = base t' → t = t')
include hinj

macro "coll_close" : tactic => `(tactic|
  (constructor <;> (try simp only [upd, unordered, collectOrder, CACC, CBUF, M, List.filter_cons, List.map_cons,
    List.reverse_cons, List.map_append, List.foldl_append, List.foldl_cons, List.foldl_nil, List.mem_append,
    List.mem_singleton, List.mem_cons, List.append_eq_nil_iff, List.map_eq_nil_iff, List.filter_eq_nil_iff,
    Bool.false_eq_true, if_false, if_true, List.nodup_append, List.nodup_cons, List.nodup_nil, List.not_mem_nil,
    beq_iff_eq]) <;> grind))

theorem collInv_pc0 (c : Config) (t : Tid) (I : CollInv merge base v N c) (ht : t < N)
    (h : (c.thr t).pc = 0) : CollInv merge base v N (exec (.setReg (base t)) c t) := by
  obtain ⟨i1, i2, i3, i4, i5, i6, i7, i8, i9, i10, i11, i12⟩ := I
  simp only [collectOrder, CACC, CBUF, M] at *
  simp only [exec, advance, access]
  coll_close

theorem collInv_pc1 (c : Config) (t : Tid) (I : CollInv merge base v N c) (ht : t < N)
    (h : (c.thr t).pc = 1) : CollInv merge base v N (exec (.writeAt CBUF (v t)) c t) := by
  obtain ⟨i1, i2, i3, i4, i5, i6, i7, i8, i9, i10, i11, i12⟩ := I
  have hr := i3 t (by omega)
  simp only [collectOrder, CACC, CBUF, M] at *
  simp only [exec, advance, access, hr]
  coll_close

theorem collInv_pc2 (c : Config) (t : Tid) (I : CollInv merge base v N c) (ht : t < N)
    (h : (c.thr t).pc = 2) : CollInv merge base v N (exec (.lock M) c t) := by
  obtain ⟨i1, i2, i3, i4, i5, i6, i7, i8, i9, i10, i11, i12⟩ := I
  simp only [collectOrder, CACC, CBUF, M] at *
  simp only [exec, advance, access]
  cases hm : c.mtx 0 with
  | some u => simp only []; coll_close
  | none => simp only []; coll_close

theorem collInv_pc3 (c : Config) (t : Tid) (I : CollInv merge base v N c) (ht : t < N)
    (h : (c.thr t).pc = 3) : CollInv merge base v N (exec (.readAt CBUF) c t) := by
  obtain ⟨i1, i2, i3, i4, i5, i6, i7, i8, i9, i10, i11, i12⟩ := I
  have hr := i3 t (by omega)
  have hb := i4 t ht (by omega)
  simp only [collectOrder, CACC, CBUF, M] at *
  simp only [exec, advance, access, hr]
  coll_close

theorem collInv_pc4 (c : Config) (t : Tid) (I : CollInv merge base v N c) (ht : t < N)
    (h : (c.thr t).pc = 4) : CollInv merge base v N (exec (.rmw CACC merge) c t) := by
  obtain ⟨i1, i2, i3, i4, i5, i6, i7, i8, i9, i10, i11, i12⟩ := I
  have ho := i6 t h
  simp only [collectOrder, CACC, CBUF, M] at *
  simp only [exec, advance, access, ho]
  coll_close

theorem collInv_pc5 (c : Config) (t : Tid) (I : CollInv merge base v N c) (ht : t < N)
    (h : (c.thr t).pc = 5) : CollInv merge base v N (exec (.unlock M) c t) := by
  obtain ⟨i1, i2, i3, i4, i5, i6, i7, i8, i9, i10, i11, i12⟩ := I
  simp only [collectOrder, CACC, CBUF, M] at *
  simp only [exec, advance, access]
  coll_close

theorem collInv_step (c : Config) (t : Tid) (I : CollInv merge base v N c) :
    CollInv merge base v N (step (collectProgN merge base v N) c t) := by
  by_cases ht : t < N
  · have hp := I.pcle t
    obtain ⟨a0, a1, a2, a3, a4, a5, a6⟩ := coll_at merge (base t) (v t)
    obtain h|h|h|h|h|h|h : (c.thr t).pc = 0 ∨ (c.thr t).pc = 1 ∨ (c.thr t).pc = 2 ∨ (c.thr t).pc = 3 ∨
        (c.thr t).pc = 4 ∨ (c.thr t).pc = 5 ∨ (c.thr t).pc = 6 := by omega
    · simp only [step, collectProgN, ht, if_true, h, a0]; exact collInv_pc0 merge base v N hinj c t I ht h
    · simp only [step, collectProgN, ht, if_true, h, a1]; exact collInv_pc1 merge base v N hinj c t I ht h
    · simp only [step, collectProgN, ht, if_true, h, a2]; exact collInv_pc2 merge base v N hinj c t I ht h
    · simp only [step, collectProgN, ht, if_true, h, a3]; exact collInv_pc3 merge base v N hinj c t I ht h
    · simp only [step, collectProgN, ht, if_true, h, a4]; exact collInv_pc4 merge base v N hinj c t I ht h
    · simp only [step, collectProgN, ht, if_true, h, a5]; exact collInv_pc5 merge base v N hinj c t I ht h
    · simp only [step, collectProgN, ht, if_true, h, a6]; exact I
  · simp only [step, collectProgN, ht, if_false, List.getElem?_nil]; exact I

theorem collInv_run (c : Config) (sched : Schedule) (I : CollInv merge base v N c) :
    CollInv merge base v N (run (collectProgN merge base v N) c sched) := by
  induction sched generalizing c with
  | nil => exact I
  | cons t s ih => exact ih _ (collInv_step merge base v N hinj c t I)

end

theorem coll_done_iff (merge : Val → Val → Val) (base v : Tid → Val) (N : Nat) (c : Config) (t : Tid)
    (ht : t < N) : done (collectProgN merge base v N) c t = true ↔ 6 ≤ (c.thr t).pc := by
  simp [done, collectProgN, ht, collectThread]

/-- When all `N` workers are done the reduce order is a permutation of `0 … N-1`. -/
theorem CollInv.order_perm {merge : Val → Val → Val} {base v : Tid → Val} {N : Nat} {c : Config}
    (I : CollInv merge base v N c) (hdone : ∀ t, t < N → 6 ≤ (c.thr t).pc) :
    (collectOrder c).Perm (List.range N) := by
  rw [List.perm_ext_iff_of_nodup I.nodup List.nodup_range]
  intro t
  rw [I.mem_order, List.mem_range]
  constructor
  · intro h
    by_contra hn
    have := I.idle t (by omega)
    omega
  · intro h
    have := hdone t h
    omega

end M3d.Conc
