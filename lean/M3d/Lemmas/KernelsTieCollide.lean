import M3d.Gen.Kernels
import M3d.Model.Collide
import Mathlib.Tactic.Ring
import Mathlib.Tactic.SplitIfs
import Mathlib.Algebra.Order.Field.Basic
/-!
# Tie between the REGENERATED kernels and the collider models of C07 (`M3d/Model/Collide.lean`)

`segmentEntersSphere` (the edge case of `Triangle.SphereCollision`) and the 2-D segment collider
(`Segment.rayCollision` with its near-parallel test and in-place matrix inverse, `Segment.Normal`,
`Segment.CircleCollision`, `Segment.SegmentCollision`) as `model3d/primitives.go` and
`model2d/primitives.go` define them NOW are the model functions `segEntersSphere`, `seg2Ray`, `seg2Normal`,
`seg2Circle` that the C07 hit and ball-touch theorems are about; `eps` is the literal `1e-8`.
-/
namespace M3d.KernelsTie.Collide
open M3d.Col M3d.Gen.Kernels
set_option linter.unusedSectionVars false
set_option linter.unusedVariables false
set_option linter.unusedSimpArgs false

variable {K : Type} [Field K] [LinearOrder K] [IsStrictOrderedRing K]

@[reducible] def g3 (a : V3 K) : model3d.Coord3D K := ⟨a.x, a.y, a.z⟩
@[reducible] def g2 (a : V2 K) : model2d.Coord K := ⟨a.x, a.y⟩
@[reducible] def sqrtOf (sq : K → K) : GenPrelude.HasSqrt K := ⟨sq⟩

theorem add3 (a b : V3 K) : model3d.Coord3D_Add (g3 a) (g3 b) = g3 (a.add b) := rfl
theorem scale3 (a : V3 K) (s : K) : model3d.Coord3D_Scale (g3 a) s = g3 (a.scale s) := rfl
theorem dot3 (a b : V3 K) : model3d.Coord3D_Dot (g3 a) (g3 b) = a.dot b := rfl
theorem cross3 (a b : V3 K) : model3d.Coord3D_Cross (g3 a) (g3 b) = g3 (a.cross b) := rfl
theorem sub3 (a b : V3 K) : model3d.Coord3D_Sub (g3 a) (g3 b) = g3 (a.sub b) := by
  cases a; cases b
  simp [model3d.Coord3D_Sub, model3d.Coord3D_Add, model3d.Coord3D_Scale, V3.sub]
  try (refine ⟨?_, ?_, ?_⟩ <;> ring)
theorem add2 (a b : V2 K) : model2d.Coord_Add (g2 a) (g2 b) = g2 (a.add b) := rfl
theorem scale2 (a : V2 K) (s : K) : model2d.Coord_Scale (g2 a) s = g2 (a.scale s) := rfl
theorem dot2 (a b : V2 K) : model2d.Coord_Dot (g2 a) (g2 b) = a.dot b := rfl
theorem sub2 (a b : V2 K) : model2d.Coord_Sub (g2 a) (g2 b) = g2 (a.sub b) := by
  cases a; cases b
  simp [model2d.Coord_Sub, model2d.Coord_Add, model2d.Coord_Scale, V2.sub]
  try (refine ⟨?_, ?_⟩ <;> ring)

theorem absS_eq (x : K) : GenPrelude.absS x = Col.absS x := by
  unfold GenPrelude.absS Col.absS
  rcases lt_trichotomy x 0 with h | h | h
  · simp [h, lt_asymm h]
  · simp [h]
  · simp [h, lt_asymm h]

theorem ite_bool_or (b x : Bool) : (if b = true then true else x) = (b || x) := by cases b <;> rfl

section sq
variable (sq : K → K)

theorem norm3 (a : V3 K) : (letI := sqrtOf sq; model3d.Coord3D_Norm (g3 a)) = a.norm sq := rfl
theorem dist3 (a b : V3 K) : (letI := sqrtOf sq; model3d.Coord3D_Dist (g3 a) (g3 b)) = a.dist sq b := rfl
theorem normalize3 (a : V3 K) :
    (letI := sqrtOf sq; model3d.Coord3D_Normalize (g3 a)) = g3 (a.normalize sq) := rfl
theorem norm2 (a : V2 K) : (letI := sqrtOf sq; model2d.Coord_Norm (g2 a)) = a.norm sq := rfl
theorem dist2 (a b : V2 K) : (letI := sqrtOf sq; model2d.Coord_Dist (g2 a) (g2 b)) = a.dist sq b := rfl
theorem normalize2 (a : V2 K) :
    (letI := sqrtOf sq; model2d.Coord_Normalize (g2 a)) = g2 (a.normalize sq) := rfl

/-- `segmentEntersSphere` -/
theorem segmentEntersSphere_eq (p1 p2 c : V3 K) (r : K) :
    (letI := sqrtOf sq; model3d.segmentEntersSphere (g3 p1) (g3 p2) (g3 c) r) = segEntersSphere sq p1 p2 c r := by
  unfold model3d.segmentEntersSphere segEntersSphere
  simp only [ge_iff_le]
  simp only [sub3, dot3, scale3, add3, dist3]

/-- 2-D `Segment.Normal` -/
theorem segment2_normal_eq (s0 s1 : V2 K) :
    (letI := sqrtOf sq; model2d.Segment_Normal ⟨g2 s0, g2 s1⟩) = g2 (seg2Normal sq s0 s1) := by
  unfold model2d.Segment_Normal seg2Normal
  simp only [sub2]
  rfl

/-- 2-D `Segment.CircleCollision` -/
theorem segment2_circle_eq (s0 s1 c : V2 K) (r : K) :
    (letI := sqrtOf sq; model2d.Segment_CircleCollision ⟨g2 s0, g2 s1⟩ (g2 c) r) = seg2Circle sq s0 s1 c r := by
  unfold model2d.Segment_CircleCollision seg2Circle
  simp only [ge_iff_le]
  simp only [sub2, dot2, scale2, add2, dist2, ite_bool_or]
  rfl

/-- 2-D `Segment.rayCollision`: `none` of the model is the `(false, 0)` of the near-parallel branch. -/
theorem segment2_ray_eq (s0 s1 o d : V2 K) :
    (letI := sqrtOf sq; model2d.Segment_rayCollision ⟨g2 s0, g2 s1⟩ ⟨g2 o, g2 d⟩) =
      (match seg2Ray sq (1.0e-8 : K) s0 s1 o d with
       | none => (false, 0)
       | some p => p) := by
  unfold model2d.Segment_rayCollision seg2Ray
  simp only [decide_eq_true_eq, ge_iff_le]
  simp only [sub2, model2d.Segment_Length, norm2, model2d.Matrix2_Det, absS_eq]
  split_ifs with h
  · rfl
  · simp [model2d.Matrix2_InvertInPlace, model2d.Matrix2_InvertInPlaceDet, model2d.Matrix2_Scale,
      model2d.Matrix2_Det, model2d.Matrix2_MulColumn]

end sq

end M3d.KernelsTie.Collide
