import M3d.Model.MeshDiag
/-!
# C11 — the graph searches (`SingularVertices`' stack search, the breadth-first extraction
behind `Clusters` and `removeAllConnected`) compute reachability
-/
namespace M3d.MeshDiag

variable {α : Type}

/-! ## reachability -/

theorem Reach.trans {adj : α → α → Bool} {U : List α} {a b c : α}
    (h1 : Reach adj U a b) (h2 : Reach adj U b c) : Reach adj U a c := by
  induction h2 with
  | refl => exact h1
  | step _ hc hadj ih => exact .step ih hc hadj

theorem Reach.mono {adj : α → α → Bool} {U V : List α} (hUV : ∀ x ∈ U, x ∈ V) {a b : α}
    (h : Reach adj U a b) : Reach adj V a b := by
  induction h with
  | refl => exact .refl _
  | step _ hc hadj ih => exact .step ih (hUV _ hc) hadj

theorem Reach.single {adj : α → α → Bool} {U : List α} {a b : α} (hb : b ∈ U) (h : adj a b = true) :
    Reach adj U a b := .step (.refl a) hb h

theorem Reach.eq_or_mem {adj : α → α → Bool} {U : List α} {a b : α} (h : Reach adj U a b) :
    b = a ∨ b ∈ U := by
  cases h with
  | refl => exact Or.inl rfl
  | step _ hc _ => exact Or.inr hc

/-- For a symmetric adjacency a path can be walked backwards (its start must be in the universe). -/
theorem Reach.symm {adj : α → α → Bool} {U : List α} (hs : ∀ x y, adj x y = adj y x) {a b : α}
    (ha : a ∈ U) (h : Reach adj U a b) : Reach adj U b a := by
  induction h with
  | refl => exact .refl _
  | step hab hc hadj ih =>
    rename_i b c
    have hb : b ∈ U := by
      rcases hab.eq_or_mem with h | h
      · exact h ▸ ha
      · exact h
    exact Reach.trans (Reach.single hb (by rw [hs]; exact hadj)) ih

/-! ## the swap-remove sweep -/

theorem sweepAux_spec (p : α → Bool) :
    ∀ (n : Nat) (l : List α), l.length ≤ n →
      (∀ a, a ∈ (sweepAux p n l).1 ↔ a ∈ l ∧ p a = false) ∧
      (∀ a, a ∈ (sweepAux p n l).2 ↔ a ∈ l ∧ p a = true) ∧
      (sweepAux p n l).1.length + (sweepAux p n l).2.length = l.length := by
  intro n
  induction n with
  | zero =>
    intro l hl
    have : l = [] := List.eq_nil_of_length_eq_zero (Nat.le_zero.mp hl)
    subst this
    simp [sweepAux]
  | succ n ih =>
    intro l hl
    cases l with
    | nil => simp [sweepAux]
    | cons x rest =>
      by_cases hp : p x = true
      · cases rest with
        | nil =>
          simp only [sweepAux, hp, if_true]
          refine ⟨fun a => ?_, fun a => ?_, by simp⟩
          · simp; intro h; subst h; simp [hp]
          · simp; intro h; subst h; exact hp
        | cons a b =>
          have hlen : ((a :: b).getLast (List.cons_ne_nil a b) :: (a :: b).dropLast).length ≤ n := by
            simp [List.length_dropLast] at hl ⊢; omega
          obtain ⟨h1, h2, h3⟩ := ih _ hlen
          have hmem : ∀ y, y ∈ ((a :: b).getLast (List.cons_ne_nil a b) :: (a :: b).dropLast) ↔ y ∈ a :: b := by
            intro y
            conv => rhs; rw [← List.dropLast_concat_getLast (List.cons_ne_nil a b)]
            simp only [List.mem_cons, List.mem_append, List.mem_nil_iff, or_false]
            constructor
            · rintro (h | h)
              · exact Or.inr h
              · exact Or.inl h
            · rintro (h | h)
              · exact Or.inr h
              · exact Or.inl h
          simp only [sweepAux, hp, if_true]
          refine ⟨fun y => ?_, fun y => ?_, ?_⟩
          · rw [h1 y, hmem y]
            constructor
            · rintro ⟨h, hq⟩; exact ⟨List.mem_cons_of_mem _ h, hq⟩
            · rintro ⟨h, hq⟩
              rcases List.mem_cons.mp h with h | h
              · subst h; rw [hp] at hq; cases hq
              · exact ⟨h, hq⟩
          · simp only [List.mem_cons, h2 y, hmem y]
            constructor
            · rintro (h | ⟨h, hq⟩)
              · subst h; exact ⟨Or.inl rfl, hp⟩
              · exact ⟨Or.inr h, hq⟩
            · rintro ⟨h | h, hq⟩
              · exact Or.inl h
              · exact Or.inr ⟨h, hq⟩
          · simp only [List.length_cons] at h3 ⊢
            simp [List.length_dropLast] at h3
            omega
      · have hp' : p x = false := by simpa using hp
        have hlen : rest.length ≤ n := by simp at hl; omega
        obtain ⟨h1, h2, h3⟩ := ih _ hlen
        simp only [sweepAux, hp', Bool.false_eq_true, if_false]
        refine ⟨fun y => ?_, fun y => ?_, ?_⟩
        · simp only [List.mem_cons, h1 y]
          constructor
          · rintro (h | ⟨h, hq⟩)
            · subst h; exact ⟨Or.inl rfl, hp'⟩
            · exact ⟨Or.inr h, hq⟩
          · rintro ⟨h | h, hq⟩
            · exact Or.inl h
            · exact Or.inr ⟨h, hq⟩
        · rw [h2 y]
          constructor
          · rintro ⟨h, hq⟩; exact ⟨List.mem_cons_of_mem _ h, hq⟩
          · rintro ⟨h, hq⟩
            rcases List.mem_cons.mp h with h | h
            · subst h; rw [hp'] at hq; cases hq
            · exact ⟨h, hq⟩
        · simp only [List.length_cons]; omega

theorem mem_sweep_fst (p : α → Bool) (l : List α) (a : α) :
    a ∈ (sweep p l).1 ↔ a ∈ l ∧ p a = false := (sweepAux_spec p l.length l (Nat.le_refl _)).1 a

theorem mem_sweep_snd (p : α → Bool) (l : List α) (a : α) :
    a ∈ (sweep p l).2 ↔ a ∈ l ∧ p a = true := (sweepAux_spec p l.length l (Nat.le_refl _)).2.1 a

theorem length_sweep (p : α → Bool) (l : List α) :
    (sweep p l).1.length + (sweep p l).2.length = l.length :=
  (sweepAux_spec p l.length l (Nat.le_refl _)).2.2

/-! ## one expansion step preserves "not reachable from the work list" -/

/-- Generic step lemma shared by the stack search and the breadth-first search: expanding `x`
splits the unvisited `unv` into `found` (adjacent to `x`) and `kept`; an element of `kept` is
reachable from the old work list through `unv` iff it is reachable from the new one through `kept`. -/
theorem reach_step {adj : α → α → Bool} {x : α} {work unv found kept : List α}
    (hdisj : ∀ a ∈ x :: work, a ∉ unv)
    (hfound : ∀ a, a ∈ found ↔ a ∈ unv ∧ adj x a = true)
    (hkept : ∀ a, a ∈ kept ↔ a ∈ unv ∧ adj x a = false) (y : α) (hy : y ∈ kept) :
    (∃ a ∈ x :: work, Reach adj unv a y) ↔ (∃ a, (a ∈ found ∨ a ∈ work) ∧ Reach adj kept a y) := by
  have hku : ∀ a ∈ kept, a ∈ unv := fun a h => ((hkept a).mp h).1
  constructor
  · rintro ⟨a, ha, hr⟩
    -- lift the path: induction on the path, for every end point in `kept`
    have key : ∀ c, Reach adj unv a c → c ∈ kept → ∃ a', (a' ∈ found ∨ a' ∈ work) ∧ Reach adj kept a' c := by
      intro c hc
      induction hc with
      | refl => intro hk; exact absurd (hku _ hk) (hdisj a ha)
      | step hab hc hadj ih =>
        rename_i b c
        intro hk
        by_cases hbk : b ∈ kept
        · obtain ⟨a', ha', hr'⟩ := ih hbk
          exact ⟨a', ha', .step hr' hk hadj⟩
        · rcases hab.eq_or_mem with hb | hb
          · -- b is the start
            subst hb
            rcases List.mem_cons.mp ha with h | h
            · subst h
              have := ((hkept c).mp hk).2
              rw [hadj] at this; cases this
            · exact ⟨b, Or.inr h, Reach.single hk hadj⟩
          · have hbf : b ∈ found := by
              rw [hfound]
              refine ⟨hb, ?_⟩
              cases hxb : adj x b with
              | true => rfl
              | false => exact absurd ((hkept b).mpr ⟨hb, hxb⟩) hbk
            exact ⟨b, Or.inl hbf, Reach.single hk hadj⟩
    exact key y hr hy
  · rintro ⟨a, ha, hr⟩
    have hr' : Reach adj unv a y := hr.mono hku
    rcases ha with ha | ha
    · have := (hfound a).mp ha
      exact ⟨x, List.mem_cons_self, Reach.trans (Reach.single this.1 this.2) hr'⟩
    · exact ⟨a, List.mem_cons_of_mem _ ha, hr'⟩

/-! ## `SingularVertices`: the stack search -/

theorem fanSearch_spec :
    ∀ (n : Nat) (stack unv : List Face), stack.length + unv.length ≤ n →
      (∀ a ∈ stack, a ∉ unv) →
      ∀ y, y ∈ fanSearch n stack unv ↔ y ∈ unv ∧ ¬ ∃ a ∈ stack, Reach fanAdj unv a y := by
  intro n
  induction n with
  | zero =>
    intro stack unv hlen _ y
    have h1 : stack = [] := List.eq_nil_of_length_eq_zero (by omega)
    subst h1
    simp [fanSearch]
  | succ n ih =>
    intro stack unv hlen hdisj y
    cases stack with
    | nil => simp [fanSearch]
    | cons x stack =>
      rw [fanSearch]
      by_cases hu : unv.isEmpty = true
      · have : unv = [] := List.isEmpty_iff.mp hu
        subst this; simp
      · simp only [hu, Bool.false_eq_true, if_false]
        have hfound := mem_sweep_snd (fanAdj x) unv
        have hkept := mem_sweep_fst (fanAdj x) unv
        have hl := length_sweep (fanAdj x) unv
        have hdisj' : ∀ a ∈ (sweep (fanAdj x) unv).2.reverse ++ stack, a ∉ (sweep (fanAdj x) unv).1 := by
          intro a ha hk
          have hk' := (hkept a).mp hk
          rcases List.mem_append.mp ha with h | h
          · have := (hfound a).mp (List.mem_reverse.mp h)
            rw [this.2] at hk'; cases hk'.2
          · exact hdisj a (List.mem_cons_of_mem _ h) hk'.1
        rw [ih _ _ (by simp at hlen ⊢; omega) hdisj' y]
        constructor
        · rintro ⟨hyk, hno⟩
          refine ⟨((hkept y).mp hyk).1, fun hex => hno ?_⟩
          obtain ⟨a, ha, hr⟩ := (reach_step hdisj hfound hkept y hyk).mp hex
          refine ⟨a, ?_, hr⟩
          rcases ha with h | h
          · exact List.mem_append_left _ (List.mem_reverse.mpr h)
          · exact List.mem_append_right _ h
        · rintro ⟨hyu, hno⟩
          have hyk : y ∈ (sweep (fanAdj x) unv).1 := by
            rw [hkept]
            refine ⟨hyu, ?_⟩
            cases hxy : fanAdj x y with
            | false => rfl
            | true => exact absurd ⟨x, List.mem_cons_self, Reach.single hyu hxy⟩ hno
          refine ⟨hyk, fun hex => hno ?_⟩
          obtain ⟨a, ha, hr⟩ := hex
          apply (reach_step hdisj hfound hkept y hyk).mpr
          refine ⟨a, ?_, hr⟩
          rcases List.mem_append.mp ha with h | h
          · exact Or.inl (List.mem_reverse.mp h)
          · exact Or.inr h

/-! ## breadth-first extraction -/

theorem bfs_perm (adj : α → α → Bool) :
    ∀ (n : Nat) (q u : List α), ((bfs adj n q u).1 ++ (bfs adj n q u).2).Perm (q ++ u) := by
  intro n
  induction n with
  | zero => intro q u; simp [bfs]
  | succ n ih =>
    intro q u
    cases q with
    | nil => simp [bfs]
    | cons x q =>
      simp only [bfs, List.cons_append]
      refine List.Perm.cons x ((ih _ _).trans ?_)
      rw [List.append_assoc]
      exact List.Perm.append_left q (List.filter_append_perm (adj x) u)

theorem bfs_snd_subset (adj : α → α → Bool) :
    ∀ (n : Nat) (q u : List α), ∀ a ∈ (bfs adj n q u).2, a ∈ u := by
  intro n
  induction n with
  | zero => intro q u a h; simpa [bfs] using h
  | succ n ih =>
    intro q u a h
    cases q with
    | nil => simpa [bfs] using h
    | cons x q =>
      simp only [bfs] at h
      exact (List.mem_filter.mp (ih _ _ a h)).1

/-- With enough fuel the search stops only when the queue is empty: what is left unvisited is
exactly what cannot be reached from the queue. -/
theorem bfs_snd_spec (adj : α → α → Bool) :
    ∀ (n : Nat) (q u : List α), q.length + u.length ≤ n → (∀ a ∈ q, a ∉ u) →
      ∀ y, y ∈ (bfs adj n q u).2 ↔ y ∈ u ∧ ¬ ∃ a ∈ q, Reach adj u a y := by
  intro n
  induction n with
  | zero =>
    intro q u hlen _ y
    have h1 : q = [] := List.eq_nil_of_length_eq_zero (by omega)
    subst h1
    simp [bfs]
  | succ n ih =>
    intro q u hlen hdisj y
    cases q with
    | nil => simp [bfs]
    | cons x q =>
      simp only [bfs]
      have hfound : ∀ a, a ∈ u.filter (adj x) ↔ a ∈ u ∧ adj x a = true := fun a => List.mem_filter
      have hkept : ∀ a, a ∈ (u.filter fun y => !adj x y) ↔ a ∈ u ∧ adj x a = false := by
        intro a; simp [List.mem_filter]
      have hl : (u.filter (adj x)).length + (u.filter fun y => !adj x y).length = u.length :=
        (List.filter_append_perm (adj x) u).length_eq ▸ (List.length_append).symm
      have hdisj' : ∀ a ∈ q ++ u.filter (adj x), a ∉ (u.filter fun y => !adj x y) := by
        intro a ha hk
        have hk' := (hkept a).mp hk
        rcases List.mem_append.mp ha with h | h
        · exact hdisj a (List.mem_cons_of_mem _ h) hk'.1
        · have := (hfound a).mp h
          rw [this.2] at hk'; cases hk'.2
      rw [ih _ _ (by simp at hlen ⊢; omega) hdisj' y]
      constructor
      · rintro ⟨hyk, hno⟩
        refine ⟨((hkept y).mp hyk).1, fun hex => hno ?_⟩
        obtain ⟨a, ha, hr⟩ := (reach_step hdisj hfound hkept y hyk).mp hex
        refine ⟨a, ?_, hr⟩
        rcases ha with h | h
        · exact List.mem_append_right _ h
        · exact List.mem_append_left _ h
      · rintro ⟨hyu, hno⟩
        have hyk : y ∈ (u.filter fun y => !adj x y) := by
          rw [hkept]
          refine ⟨hyu, ?_⟩
          cases hxy : adj x y with
          | false => rfl
          | true => exact absurd ⟨x, List.mem_cons_self, Reach.single hyu hxy⟩ hno
        refine ⟨hyk, fun hex => hno ?_⟩
        obtain ⟨a, ha, hr⟩ := hex
        apply (reach_step hdisj hfound hkept y hyk).mpr
        refine ⟨a, ?_, hr⟩
        rcases List.mem_append.mp ha with h | h
        · exact Or.inr h
        · exact Or.inl h

/-- Everything visited is reachable from the queue (for any fuel). -/
theorem bfs_fst_reach (adj : α → α → Bool) :
    ∀ (n : Nat) (q u : List α), ∀ y ∈ (bfs adj n q u).1, ∃ a ∈ q, Reach adj u a y := by
  intro n
  induction n with
  | zero => intro q u y h; exact ⟨y, by simpa [bfs] using h, .refl y⟩
  | succ n ih =>
    intro q u y h
    cases q with
    | nil => simp [bfs] at h
    | cons x q =>
      simp only [bfs] at h
      rcases List.mem_cons.mp h with h | h
      · subst h; exact ⟨y, List.mem_cons_self, Reach.refl y⟩
      · obtain ⟨a, ha, hr⟩ := ih _ _ y h
        have hr' : Reach adj u a y := hr.mono fun z hz => (List.mem_filter.mp hz).1
        rcases List.mem_append.mp ha with h' | h'
        · exact ⟨a, List.mem_cons_of_mem _ h', hr'⟩
        · have := List.mem_filter.mp h'
          exact ⟨x, List.mem_cons_self, Reach.trans (Reach.single this.1 this.2) hr'⟩

end M3d.MeshDiag
