import M3d.Model.BoundedTriLine
import M3d.Lemmas.Bounded
/-! Helper lemmas for `toolbox3d.TriangularLine` (C03). -/
namespace M3d.Bd
set_option linter.unusedSectionVars false
variable {K : Type} [Field K] [LinearOrder K] [IsStrictOrderedRing K]

theorem segC_between (a b t : K) (h0 : 0 ≤ t) (h1 : t ≤ 1) :
    min a b ≤ segC a b t ∧ segC a b t ≤ max a b := by
  unfold segC
  rcases le_total a b with h | h
  · rw [min_eq_left h, max_eq_right h]
    constructor <;> nlinarith [mul_nonneg (sub_nonneg.mpr h) h0, mul_nonneg (sub_nonneg.mpr h) (sub_nonneg.mpr h1)]
  · rw [min_eq_right h, max_eq_left h]
    constructor <;> nlinarith [mul_nonneg (sub_nonneg.mpr h) h0, mul_nonneg (sub_nonneg.mpr h) (sub_nonneg.mpr h1)]

theorem l1Cand_range (p0 p1 c : Pt K) (i : Fin 3) (t : K) (h : t ∈ (l1Cand p0 p1 c i).toList) :
    0 ≤ t ∧ t ≤ 1 := by
  unfold l1Cand at h
  split_ifs at h with h1 h2
  · simp at h
  · simp at h; subst h; exact ⟨h2.1.le, h2.2.le⟩
  · simp at h

theorem l1Cands_range (p0 p1 c : Pt K) (t : K) (h : t ∈ l1Cands p0 p1 c) : 0 ≤ t ∧ t ≤ 1 := by
  unfold l1Cands at h
  simp only [List.mem_cons, List.mem_append] at h
  rcases h with (rfl | rfl | h) | h | h
  · exact ⟨le_refl _, zero_le_one⟩
  · exact ⟨zero_le_one, le_refl _⟩
  · exact l1Cand_range _ _ _ _ _ h
  · exact l1Cand_range _ _ _ _ _ h
  · exact l1Cand_range _ _ _ _ _ h

/-- a point within L1 distance `< th` of a point of the segment lies in the box padded by `th`. -/
theorem l1_seg_in_box (th : K) (p1 p2 c : Pt K) (t : K) (h0 : 0 ≤ t) (h1 : t ≤ 1)
    (hl : l1 (segAt p1 p2 t) c < th) : InBox true (triBox th p1 p2) c := by
  unfold l1 segAt at hl
  simp only [get0, get1, get2, sabs_eq] at hl
  have a0 := abs_nonneg (segC (p1 0) (p2 0) t - c 0)
  have a1 := abs_nonneg (segC (p1 1) (p2 1) t - c 1)
  have a2 := abs_nonneg (segC (p1 2) (p2 2) t - c 2)
  intro i _
  simp only [triBox, psub_get, padd_get, pmin_get, pmax_get]
  rcases fin3 i with rfl | rfl | rfl
  · have b := segC_between (p1 0) (p2 0) t h0 h1
    have := abs_le.mp (le_refl |segC (p1 0) (p2 0) t - c 0|)
    simp only [get0]
    constructor <;> linarith [b.1, b.2, this.1, this.2]
  · have b := segC_between (p1 1) (p2 1) t h0 h1
    have := abs_le.mp (le_refl |segC (p1 1) (p2 1) t - c 1|)
    simp only [get1]
    constructor <;> linarith [b.1, b.2, this.1, this.2]
  · have b := segC_between (p1 2) (p2 2) t h0 h1
    have := abs_le.mp (le_refl |segC (p1 2) (p2 2) t - c 2|)
    simp only [get2]
    constructor <;> linarith [b.1, b.2, this.1, this.2]

theorem triDef_in_box (th : K) (p1 p2 c : Pt K) (h : triDef th p1 p2 c = true) :
    InBox true (triBox th p1 p2) c := by
  simp only [triDef, Bool.and_eq_true, List.any_eq_true, decide_eq_true_eq] at h
  obtain ⟨_, t, ht, hl⟩ := h
  obtain ⟨t0, t1⟩ := l1Cands_range _ _ _ _ ht
  exact l1_seg_in_box th p1 p2 c t t0 t1 hl

end M3d.Bd
