import M3d.Lemmas.Joined
import M3d.Lemmas.KD
/-!
# `meshDistFunc.Dist` = linear scan for the nearest face

`MDF.dist` is an instance of `Prune.Forest.search`: `MDF.inner` lays the two children of every
node out in the (query dependent) order in which `Dist` visits them, each guarded by its own
squared point-to-box distance.
-/
namespace M3d.Spatial
open M3d.Prune M3d.Box
set_option linter.unusedSectionVars false

variable {K : Type} [Field K] [LinearOrder K] [IsStrictOrderedRing K]
variable {ι β : Type}

/-- The visiting plan of `Dist` for a fixed query, as a pruned forest. -/
def MDF.inner (bd : β → K) : MDF ι β → Forest ι K
  | .leaf _ i => .leaf i .nil
  | .node _ l r =>
      if bd r.box < bd l.box then .node (bd r.box) (MDF.inner bd r) (.node (bd l.box) (MDF.inner bd l) .nil)
      else .node (bd l.box) (MDF.inner bd l) (.node (bd r.box) (MDF.inner bd r) .nil)

/-- Soundness of the stored bounds for a fixed query: the squared bound distance of every
child is at most the squared distance of every face below that child. -/
def MDF.Sound (bd : β → K) (d : ι → K) : MDF ι β → Prop
  | .leaf _ _ => True
  | .node _ l r =>
      (∀ i ∈ l.leaves, bd l.box ≤ d i * d i) ∧ (∀ i ∈ r.leaves, bd r.box ≤ d i * d i) ∧
        MDF.Sound bd d l ∧ MDF.Sound bd d r

theorem MDF.dist_eq_search (bd : β → K) (d : ι → K) :
    ∀ (t : MDF ι β) (cur : Option (K × ι)),
      t.dist bd d cur =
        (MDF.inner bd t).search (fun b s => !exceeds b s)
          (fun s i => if ltCur (d i) s then some (d i, i) else s) cur := by
  intro t
  induction t with
  | leaf b i => intro cur; rfl
  | node b l r ihl ihr =>
      intro cur
      simp only [MDF.dist, MDF.inner]
      by_cases h : bd r.box < bd l.box
      · simp only [h, if_true, Forest.search, ← ihl, ← ihr]
        cases exceeds (bd r.box) cur <;> simp only [Bool.not_true, Bool.not_false, if_true,
            Bool.false_eq_true, if_false]
        · cases exceeds (bd l.box) (r.dist bd d cur) <;> simp
        · cases exceeds (bd l.box) cur <;> simp
      · simp only [h, if_false, Forest.search, ← ihl, ← ihr]
        cases exceeds (bd l.box) cur <;> simp only [Bool.not_true, Bool.not_false, if_true,
            Bool.false_eq_true, if_false]
        · cases exceeds (bd r.box) (l.dist bd d cur) <;> simp
        · cases exceeds (bd r.box) cur <;> simp

theorem MDF.items_inner_perm (bd : β → K) : ∀ t : MDF ι β, (MDF.inner bd t).items.Perm t.leaves
  | .leaf _ i => List.Perm.refl _
  | .node _ l r => by
      have hl := MDF.items_inner_perm bd l
      have hr := MDF.items_inner_perm bd r
      simp only [MDF.inner, MDF.leaves]
      split
      · simp only [Forest.items, List.append_nil]
        exact List.perm_append_comm.trans (hl.append hr)
      · simp only [Forest.items, List.append_nil]
        exact hl.append hr

theorem MDF.sound_inner (bd : β → K) (d : ι → K) :
    ∀ t : MDF ι β, MDF.Sound bd d t → (∀ i ∈ t.leaves, 0 ≤ d i) →
      Forest.Sound (fun (b : K) i => b ≤ d i * d i ∧ 0 ≤ d i) (MDF.inner bd t)
  | .leaf _ i, _, _ => trivial
  | .node _ l r, h, hn => by
      obtain ⟨hl, hr, sl, sr⟩ := h
      have hnl : ∀ i ∈ l.leaves, 0 ≤ d i := fun i hi => hn i (by simp [MDF.leaves, hi])
      have hnr : ∀ i ∈ r.leaves, 0 ≤ d i := fun i hi => hn i (by simp [MDF.leaves, hi])
      have il := MDF.sound_inner bd d l sl hnl
      have ir := MDF.sound_inner bd d r sr hnr
      have cl : ∀ i ∈ (MDF.inner bd l).items, bd l.box ≤ d i * d i ∧ 0 ≤ d i := fun i hi =>
        have := ((MDF.items_inner_perm bd l).mem_iff).1 hi
        ⟨hl i this, hnl i this⟩
      have cr : ∀ i ∈ (MDF.inner bd r).items, bd r.box ≤ d i * d i ∧ 0 ≤ d i := fun i hi =>
        have := ((MDF.items_inner_perm bd r).mem_iff).1 hi
        ⟨hr i this, hnr i this⟩
      simp only [MDF.inner]
      split
      · exact ⟨cr, ir, cl, il, trivial⟩
      · exact ⟨cl, il, cr, ir, trivial⟩

theorem mdf_skip (d : ι → K) (b : K) (s : Option (K × ι)) (i : ι)
    (hc : b ≤ d i * d i ∧ 0 ≤ d i) (ha : (!exceeds b s) = false) :
    (if ltCur (d i) s then some (d i, i) else s) = s := by
  cases s with
  | none => simp [exceeds] at ha
  | some cf =>
      obtain ⟨c, f⟩ := cf
      simp only [exceeds, Bool.not_eq_false', decide_eq_true_eq] at ha
      have : ¬ d i < c := by
        intro hlt
        have h0 := hc.2
        nlinarith [hc.1]
      simp [ltCur, this]

/-- **`meshDistFunc.Dist` = linear scan over the faces in visiting order.** -/
theorem MDF.dist_eq_scan (bd : β → K) (d : ι → K) (t : MDF ι β) (cur : Option (K × ι))
    (hs : MDF.Sound bd d t) (hn : ∀ i ∈ t.leaves, 0 ≤ d i) :
    t.dist bd d cur = scanDist d (MDF.inner bd t).items cur := by
  rw [MDF.dist_eq_search]
  exact Forest.search_eq_foldl (covers := fun (b : K) i => b ≤ d i * d i ∧ 0 ≤ d i)
    (fun b s i hc ha => mdf_skip d b s i hc ha) _ cur (MDF.sound_inner bd d t hs hn)

theorem scanDist_eq_scanNN (d : ι → K) (i0 : ι) (l : List ι) (cur : Option (K × ι)) :
    scanDist d l cur = scanNN (fun _ i => d i) i0 l cur := by
  have : ∀ (x : K) (s : Option (K × ι)), ltCur x s = ltBound x s := by
    intro x s; cases s <;> rfl
  simp only [scanDist, scanNN, this]

/-- **Result of `Dist` from `+∞`: a face of the hierarchy at minimal distance.** -/
theorem MDF.dist_spec (bd : β → K) (d : ι → K) (t : MDF ι β)
    (hs : MDF.Sound bd d t) (hn : ∀ i ∈ t.leaves, 0 ≤ d i) :
    ∃ v i, t.dist bd d none = some (v, i) ∧ i ∈ t.leaves ∧ v = d i ∧ ∀ j ∈ t.leaves, v ≤ d j := by
  have hne : ∃ i0, i0 ∈ t.leaves := by
    cases t with
    | leaf b i => exact ⟨i, by simp [MDF.leaves]⟩
    | node b l r =>
        have : ∀ s : MDF ι β, ∃ i, i ∈ s.leaves := by
          intro s
          induction s with
          | leaf b i => exact ⟨i, by simp [MDF.leaves]⟩
          | node b l r ihl _ => obtain ⟨i, hi⟩ := ihl; exact ⟨i, by simp [MDF.leaves, hi]⟩
        obtain ⟨i, hi⟩ := this l
        exact ⟨i, by simp [MDF.leaves, hi]⟩
  obtain ⟨i0, hi0⟩ := hne
  have hperm := MDF.items_inner_perm bd t
  rw [MDF.dist_eq_scan bd d t none hs hn, scanDist_eq_scanNN d i0]
  obtain ⟨h1, h2, _⟩ := scanNN_spec (fun _ i => d i) i0 (MDF.inner bd t).items none
  obtain ⟨v, q, e, _⟩ := h2 i0 ((hperm.mem_iff).2 hi0)
  rcases h1 with h1 | ⟨c, hc, h1⟩
  · rw [h1] at e; cases e
  · refine ⟨d c, c, h1, (hperm.mem_iff).1 hc, rfl, ?_⟩
    intro j hj
    obtain ⟨v', q', e', hle⟩ := h2 j ((hperm.mem_iff).2 hj)
    rw [h1] at e'; cases e'; exact hle

/-! ### construction: `newMeshDistFunc` stores sound bounds -/

variable {sub : β → β → Prop} {union : β → β → β} {boxOf : ι → β}

theorem MDF.leaves_toMDF (s : Shape ι) : (s.toMDF boxOf union).leaves = s.leaves := by
  induction s with
  | leaf i => rfl
  | node l r ihl ihr => simp [Shape.toMDF, MDF.leaves, Shape.leaves, ihl, ihr]

theorem MDF.box_ge (A : BoundAlg β sub union) :
    ∀ s : Shape ι, ∀ i ∈ s.leaves, sub (boxOf i) (s.toMDF boxOf union).box := by
  intro s
  induction s with
  | leaf i => intro j hj; simp [Shape.leaves] at hj; subst hj; exact A.refl _
  | node l r ihl ihr =>
      intro j hj
      simp only [Shape.leaves, List.mem_append] at hj
      simp only [Shape.toMDF, MDF.box]
      rcases hj with hj | hj
      · exact A.trans (ihl j hj) (A.left _ _)
      · exact A.trans (ihr j hj) (A.right _ _)

/-- If `bd` of a box never exceeds `d i²` for a face whose own box lies inside it, the hierarchy
built by `newMeshDistFunc` is sound. -/
theorem MDF.sound_toMDF (A : BoundAlg β sub union) (bd : β → K) (d : ι → K)
    (hleaf : ∀ i b, sub (boxOf i) b → bd b ≤ d i * d i) :
    ∀ s : Shape ι, MDF.Sound bd d (s.toMDF boxOf union) := by
  intro s
  induction s with
  | leaf i => trivial
  | node l r ihl ihr =>
      refine ⟨?_, ?_, ihl, ihr⟩
      · intro i hi; rw [MDF.leaves_toMDF] at hi; exact hleaf i _ (MDF.box_ge A l i hi)
      · intro i hi; rw [MDF.leaves_toMDF] at hi; exact hleaf i _ (MDF.box_ge A r i hi)

end M3d.Spatial
