import M3d.Lemmas.ConcQuery
import M3d.Model.ConcIter
/-!
# C13 helper lemmas: a thread of plain steps running alone is its pure interpretation;
the enumeration of a mesh with a list of its own
-/
set_option linter.unusedSimpArgs false
set_option linter.unusedVariables false
namespace M3d.Conc

theorem interp_append (a b : List Step) (s : (Loc → Val) × Val) :
    interp (a ++ b) s = interp b (interp a s) := by
  simp [interp, List.foldl_append]

theorem interp_cons (a : Step) (b : List Step) (s : (Loc → Val) × Val) :
    interp (a :: b) s = interp b (interp1 a s) := rfl

theorem stepRO_isPlain (own : Tid → Loc → Bool) (shared : Loc → Bool) (t : Tid) (s : Step)
    (h : stepRO own shared t s = true) : isPlain s = true := by
  cases s <;> simp_all [stepRO, isPlain]

/-- **A thread of plain steps that runs alone computes its pure interpretation**: after `k`
scheduling decisions for `t` (nobody else running) it has executed the first `min k length`
steps, and memory and `out` are those of `interp`. -/
theorem solo_run (p : Program) (t : Tid) (hp : ∀ s ∈ p t, isPlain s = true) (c0 : Config)
    (h0 : (c0.thr t).pc = 0) (k : Nat) :
    ((run p c0 (List.replicate k t)).thr t).pc = min k (p t).length ∧
    ((run p c0 (List.replicate k t)).mem, ((run p c0 (List.replicate k t)).thr t).out) =
      interp ((p t).take k) (c0.mem, (c0.thr t).out) := by
  induction k with
  | zero => simp [h0, interp]
  | succ k ih =>
    rw [List.replicate_succ', run_append]
    generalize run p c0 (List.replicate k t) = c at ih
    obtain ⟨ih1, ih2⟩ := ih
    simp only [run_cons, run_nil]
    by_cases hk : k < (p t).length
    · have hpc : (c.thr t).pc = k := by rw [ih1]; omega
      have hget : (p t)[(c.thr t).pc]? = some (p t)[k] := by
        rw [hpc]; exact List.getElem?_eq_getElem hk
      have htake : (p t).take (k + 1) = (p t).take k ++ [(p t)[k]] := by
        rw [List.take_add_one, List.getElem?_eq_getElem hk]; rfl
      have hpl := hp _ (List.getElem_mem hk)
      rw [htake, interp_append, ← ih2]
      unfold step
      rw [hget]
      generalize (p t)[k] = s at hpl
      have hmin : min (k + 1) (p t).length = k + 1 := by omega
      rw [hmin]
      cases s <;> simp only [isPlain, Bool.false_eq_true] at hpl <;>
        simp [exec, advance, access, upd, interp, interp1, hpc]
    · have hpc : (c.thr t).pc = (p t).length := by rw [ih1]; omega
      have hst : step p c t = c := by
        unfold step
        rw [List.getElem?_eq_none (by omega)]
      have e1 : (p t).take (k + 1) = p t := List.take_of_length_le (by omega)
      have e2 : (p t).take k = p t := List.take_of_length_le (by omega)
      rw [hst, e1]
      rw [e2] at ih2
      exact ⟨by rw [ih1]; omega, ih2⟩

/-! ## The enumeration with a list of its own -/

/-- Every step of the library-shaped reader respects the ownership discipline. -/
theorem iterVisits_RO (nth : Val → Nat → Val) (snoc : Val → Val → Val) (t : Tid) (js : List Nat) :
    ∀ s ∈ iterVisits nth snoc (ILIST t) (ILOG t) js, stepRO iterOwn iterShared t s = true := by
  induction js with
  | nil => simp [iterVisits]
  | cons j js ih =>
    intro s hs
    simp only [iterVisits, List.mem_cons] at hs
    rcases hs with rfl | rfl | rfl | hs
    · simp [stepRO, iterOwn]
    · simp [stepRO, iterOwn]
    · simp [stepRO]
    · exact ih s hs

theorem iterLocal_RO (srt : Tid → Val → Val) (nth : Val → Nat → Val) (snoc : Val → Val → Val) (n : Nat) (t : Tid) :
    ∀ s ∈ iterLocalProg srt nth snoc n t, stepRO iterOwn iterShared t s = true := by
  intro s hs
  simp only [iterLocalProg, iterThread, List.mem_cons] at hs
  rcases hs with rfl | rfl | hs
  · simp [stepRO, iterShared]
  · simp [stepRO, iterOwn]
  · exact iterVisits_RO nth snoc t _ s hs

theorem iter_loc_arith (t t' l : Nat) (h1 : l = 1 + 2 * t ∨ l = 2 + 2 * t) (h2 : l = 1 + 2 * t' ∨ l = 2 + 2 * t') :
    t = t' := by omega

theorem iter_loc_arith0 (t : Nat) : ¬ (0 = 1 + 2 * t) ∧ ¬ (0 = 2 + 2 * t) := by omega

theorem iterOwn_disj : ∀ t t' l, iterOwn t l = true → iterOwn t' l = true → t = t' := by
  intro t t' l h1 h2
  simp only [iterOwn, Bool.or_eq_true, beq_iff_eq, ILIST, ILOG] at h1 h2
  exact iter_loc_arith t t' l h1 h2

theorem iterShared_unowned : ∀ t l, iterShared l = true → iterOwn t l = false := by
  intro t l h
  simp only [iterShared, beq_iff_eq, FACES, STRUCT] at h
  subst h
  simp only [iterOwn, ILIST, ILOG, Bool.or_eq_false_iff, beq_eq_false_iff_ne, ne_eq]
  exact iter_loc_arith0 t

/-- The visits, interpreted: the record grows by the faces at the visited positions of the
list, the list itself stays. -/
theorem interp_iterVisits (nth : Val → Nat → Val) (snoc : Val → Val → Val) (list log : Loc) (hne : list ≠ log)
    (js : List Nat) (m : Loc → Val) (o : Val) :
    (interp (iterVisits nth snoc list log js) (m, o)).1 log =
        js.foldl (fun lg j => snoc lg (nth (m list) j)) (m log) ∧
      (interp (iterVisits nth snoc list log js) (m, o)).1 list = m list := by
  induction js generalizing m o with
  | nil => simp [iterVisits, interp]
  | cons j js ih =>
    simp only [iterVisits, interp_cons, interp1, List.foldl_cons]
    have h := ih (upd m log (snoc (m log) (nth (m list) j))) (m list)
    have e1 : upd m log (snoc (m log) (nth (m list) j)) list = m list := upd_other _ _ hne
    rw [e1] at h
    simpa using h

/-- The whole reader, interpreted from a memory in which the face set is `s` and the reader's
record is empty. -/
theorem interp_iterThread (srt : Val → Val) (nth : Val → Nat → Val) (snoc : Val → Val → Val) (n : Nat)
    (list log : Loc) (hne : list ≠ log) (hl : log ≠ FACES) (m : Loc → Val) (o : Val) :
    (interp (iterThread srt nth snoc n list log) (m, o)).1 log =
      (List.range n).foldl (fun lg j => snoc lg (nth (srt (m FACES)) j)) (m log) := by
  simp only [iterThread, interp_cons, interp1]
  have h := (interp_iterVisits nth snoc list log hne (List.range n) (upd m list (srt (m FACES))) (m FACES)).1
  rw [h]
  simp [upd_other _ _ (Ne.symm hne)]

/-! ## Progress reports: only the caller of `Render` touches the counter -/

theorem progressConsumer_get (n j : Nat) :
    (progressConsumer n)[2 * j]? = (if j < n then some (.recv PCH) else none) ∧
    (progressConsumer n)[2 * j + 1]? = (if j < n then some (.rmw CNT (fun c _ => c + 1)) else none) := by
  induction n generalizing j with
  | zero => simp [progressConsumer]
  | succ k ih =>
    cases j with
    | zero => simp [progressConsumer]
    | succ j =>
      have e1 : 2 * (j + 1) = 2 * j + 1 + 1 := by omega
      have e2 : 2 * (j + 1) + 1 = 2 * j + 1 + 1 + 1 := by omega
      obtain ⟨h1, h2⟩ := ih j
      constructor
      · rw [e1]; simp only [progressConsumer, List.getElem?_cons_succ]; rw [h1]; simp
      · rw [e2]; simp only [progressConsumer, List.getElem?_cons_succ]; rw [h2]; simp

theorem progressConsumer_length (n : Nat) : (progressConsumer n).length = 2 * n := by
  induction n with
  | zero => rfl
  | succ k ih => simp [progressConsumer, ih]; omega

structure ProgInv (n : Nat) (c : Config) : Prop where
  hist : ∀ a ∈ c.hist, a.tid = n
  norace : c.races = []
  cnt : c.mem CNT = (c.thr n).pc / 2
  pcle : (c.thr n).pc ≤ 2 * n

theorem progInv_init (n : Nat) : ProgInv n Config.init := by
  constructor <;> simp [Config.init, TState.init]

theorem progInv_step (n : Nat) (c : Config) (t : Tid) (I : ProgInv n c) :
    ProgInv n (step (progressProg n) c t) := by
  obtain ⟨i1, i2, i3, i4⟩ := I
  unfold step
  by_cases ht : t < n
  · have hne : n ≠ t := Nat.ne_of_gt ht
    have hp : progressProg n t = [.tau, .send PCH 1] := by simp [progressProg, ht]
    rw [hp]
    rcases hpc : (c.thr t).pc with _ | _ | k
    · exact ⟨by simpa [exec, advance] using i1, by simpa [exec, advance] using i2,
        by simpa [exec, advance, upd, hne] using i3, by simpa [exec, advance, upd, hne] using i4⟩
    · exact ⟨by simpa [exec, advance] using i1, by simpa [exec, advance] using i2,
        by simpa [exec, advance, upd, hne] using i3, by simpa [exec, advance, upd, hne] using i4⟩
    · simp only [List.getElem?_cons_succ, List.getElem?_nil]
      exact ⟨i1, i2, i3, i4⟩
  · by_cases htn : t = n
    · subst htn
      have hp : progressProg t t = progressConsumer t := by simp [progressProg]
      rw [hp]
      obtain ⟨j, hj | hj⟩ : ∃ j, (c.thr t).pc = 2 * j ∨ (c.thr t).pc = 2 * j + 1 :=
        ⟨(c.thr t).pc / 2, by omega⟩
      · rw [hj, (progressConsumer_get t j).1]
        by_cases hjn : j < t
        · simp only [hjn, if_true, exec]
          cases hch : c.chan PCH with
          | nil => exact ⟨i1, i2, i3, i4⟩
          | cons m rest =>
            obtain ⟨v, sn⟩ := m
            refine ⟨by simpa [advance] using i1, by simpa [advance] using i2, ?_, ?_⟩
            · simp only [advance, upd_same, hj]
              rw [i3, hj]; show (2 * j / 2 : Nat) = (2 * j + 1) / 2; omega
            · simp only [advance, upd_same, hj]; omega
        · simp only [hjn, if_false]; exact ⟨i1, i2, i3, i4⟩
      · rw [hj, (progressConsumer_get t j).2]
        by_cases hjn : j < t
        · simp only [hjn, if_true, exec]
          have hu : unordered c t CNT true = [] := by
            simp only [unordered, List.filter_eq_nil_iff]
            intro a ha
            simp [i1 a ha]
          refine ⟨?_, by simp [advance, access, hu, i2], ?_, ?_⟩
          · intro a ha
            simp only [advance, access, List.mem_cons] at ha
            rcases ha with rfl | ha
            · rfl
            · exact i1 a ha
          · simp only [advance, access, upd_same, hj]
            rw [i3, hj]; show ((2 * j + 1) / 2 + 1 : Nat) = (2 * j + 1 + 1) / 2; omega
          · simp only [advance, access, upd_same, hj]; omega
        · simp only [hjn, if_false]; exact ⟨i1, i2, i3, i4⟩
    · have hp : progressProg n t = [] := by simp [progressProg, ht, htn]
      rw [hp]
      simp only [List.getElem?_nil]
      exact ⟨i1, i2, i3, i4⟩

theorem progInv_run (n : Nat) (c : Config) (sched : Schedule) (I : ProgInv n c) :
    ProgInv n (run (progressProg n) c sched) := by
  induction sched generalizing c with
  | nil => exact I
  | cons t s ih => exact ih _ (progInv_step n c t I)

end M3d.Conc
