import M3d.Gen.Kernels
import M3d.Model.BlurIter
import M3d.Model.ArapLin
import Mathlib.Tactic.Ring
import Mathlib.Tactic.NormNum
import Mathlib.Algebra.Order.Field.Basic
/-!
# Tie between the REGENERATED vector kernels and the placement rules of C10

`M3d/Gen/Kernels.lean` is regenerated on every run from the current `model3d/coords.go` and
`model2d/coords.go`.  The theorems below say that the hand-written vector operations of
`M3d/Model/MeshOps.lean` (`V3.add`, `V3.scale`, `V2.add`, `V2.scale`) are the functions
`Coord3D.Add`, `Coord3D.Scale`, `Coord.Add`, `Coord.Scale` of the source as it is now, and that the
placement rules of the model are exactly the expressions the operations of C10 evaluate with them:

* `divideSegment` (SubdivideEdges): `c1.Scale(1 - t).Add(c2.Scale(t))`
* `loopSubdivision`: `seg[0].Add(seg[1]).Scale(3.0/8).Add(o1.Add(o2).Scale(1.0/8))`,
  `corner.Scale(1 - k*beta).Add(point.Scale(beta))`
* `BlurFiltered`: `neighborAvg.Scale(1/k).Scale(rate).Add(c.Scale(1 - rate))`,
  `neighborAvg.Add(c).Scale(1/(k+1))`, the neighbour sum `neighborAvg = neighborAvg.Add(coords[c1])`
* 2-D `Subdivide`: `s[0].Scale(0.75).Add(s[1].Scale(0.25))`; 2-D `Blur`:
  `c.Scale(1 - rate).Add(sum.Scale(rate / count))`

* `ARAP` (round 4): `Matrix3.MulColumn`, `Coord3D.Sub`, `Coord3D.Dot` and the per-neighbour expressions of
  `arapOperator.Targets`, `Apply` and `ARAP.energy`

An edit of one of these Go vector functions changes the generated text; then either the equation
is still provable or this file stops compiling and the check reports the broken obligation.
-/
namespace M3d.KernelsTie.MeshOps
open M3d.MeshOps M3d.Gen.Kernels M3d.GenPrelude M3d.ArapLin
set_option linter.unusedSectionVars false
set_option linter.unusedVariables false
set_option linter.unusedSimpArgs false
set_option linter.unreachableTactic false
set_option linter.unusedTactic false

variable {K : Type} [Field K] [LinearOrder K] [IsStrictOrderedRing K]

/-- hand vector → generated `Coord3D` -/
@[reducible] def g3 (a : V3 K) : model3d.Coord3D K := ⟨a.x, a.y, a.z⟩
/-- hand vector → generated `model2d.Coord` -/
@[reducible] def g2 (a : V2 K) : model2d.Coord K := ⟨a.x, a.y⟩

-- the four proofs absorb harmless rewrites of the Go functions (commuted operands, a struct
-- literal instead of field updates)
theorem coord3_add (a b : V3 K) : model3d.Coord3D_Add (g3 a) (g3 b) = g3 (a.add b) := by
  cases a; cases b
  simp only [model3d.Coord3D_Add, model3d.XYZ, g3, V3.add, model3d.Coord3D.mk.injEq]
  all_goals (first | ring1 | (refine ⟨?_, ?_, ?_⟩ <;> first | trivial | ring1))
theorem coord3_scale (a : V3 K) (s : K) : model3d.Coord3D_Scale (g3 a) s = g3 (a.scale s) := by
  cases a
  simp only [model3d.Coord3D_Scale, model3d.XYZ, g3, V3.scale, model3d.Coord3D.mk.injEq]
  all_goals (first | ring1 | (refine ⟨?_, ?_, ?_⟩ <;> first | trivial | ring1))
theorem coord2_add (a b : V2 K) : model2d.Coord_Add (g2 a) (g2 b) = g2 (a.add b) := by
  cases a; cases b
  simp only [model2d.Coord_Add, model2d.XY, g2, V2.add, model2d.Coord.mk.injEq]
  all_goals (first | ring1 | (refine ⟨?_, ?_⟩ <;> first | trivial | ring1))
theorem coord2_scale (a : V2 K) (s : K) : model2d.Coord_Scale (g2 a) s = g2 (a.scale s) := by
  cases a
  simp only [model2d.Coord_Scale, model2d.XY, g2, V2.scale, model2d.Coord.mk.injEq]
  all_goals (first | ring1 | (refine ⟨?_, ?_⟩ <;> first | trivial | ring1))

/-- `divideSegment`: `c1.Scale(1 - t).Add(c2.Scale(t))`. -/
theorem divideSegment_point (c1 c2 : V3 K) (t : K) :
    model3d.Coord3D_Add (model3d.Coord3D_Scale (g3 c1) (1 - t)) (model3d.Coord3D_Scale (g3 c2) t) =
      g3 (lerp3 c1 c2 t) := by
  simp only [coord3_add, coord3_scale, lerp3]

/-- `loopSubdivision`, edge point: `seg[0].Add(seg[1]).Scale(3.0 / 8).Add(o1.Add(o2).Scale(1.0 / 8))`. -/
theorem loop_edge_point (a b o1 o2 : V3 K) :
    model3d.Coord3D_Add (model3d.Coord3D_Scale (model3d.Coord3D_Add (g3 a) (g3 b)) (3 / 8))
        (model3d.Coord3D_Scale (model3d.Coord3D_Add (g3 o1) (g3 o2)) (1 / 8)) = g3 (loopEdge a b o1 o2) := by
  simp only [coord3_add, coord3_scale, loopEdge]
  norm_num

/-- The neighbour sums of `BlurFiltered` / `loopSubdivision`: `sum = sum.Add(p)` from the zero value. -/
theorem neighbour_sum (ns : List (V3 K)) (acc : V3 K) :
    ns.foldl (fun s p => model3d.Coord3D_Add s (g3 p)) (g3 acc) = g3 (ns.foldl V3.add acc) := by
  induction ns generalizing acc with
  | nil => rfl
  | cons p ps ih => simp only [List.foldl_cons, coord3_add, ih]

/-- `loopSubdivision`, old vertex: `corner.Scale(1 - float64(k)*beta).Add(point.Scale(beta))`. -/
theorem loop_corner_point (c : V3 K) (ns : List (V3 K)) :
    model3d.Coord3D_Add (model3d.Coord3D_Scale (g3 c) (1 - (ns.length : K) * loopBeta ns.length))
        (model3d.Coord3D_Scale (ns.foldl (fun s p => model3d.Coord3D_Add s (g3 p)) (g3 V3.zero)) (loopBeta ns.length)) =
      g3 (loopCorner c ns) := by
  rw [neighbour_sum]
  simp only [coord3_add, coord3_scale, loopCorner]

/-- `BlurFiltered`, `rate != -1`:
`neighborAvg.Scale(1 / float64(len(ns))).Scale(rate).Add(c.Scale(1 - rate))`. -/
theorem blur_point (rate : K) (c : V3 K) (ns : List (V3 K)) (h : ns ≠ []) :
    model3d.Coord3D_Add
        (model3d.Coord3D_Scale (model3d.Coord3D_Scale
          (ns.foldl (fun s p => model3d.Coord3D_Add s (g3 p)) (g3 V3.zero)) (1 / (ns.length : K))) rate)
        (model3d.Coord3D_Scale (g3 c) (1 - rate)) = g3 (blurPoint rate c ns) := by
  rw [neighbour_sum]
  have : ns.isEmpty = false := by cases ns <;> simp_all
  simp only [blurPoint, this, coord3_scale, coord3_add]
  norm_num

/-- `BlurFiltered`, `rate == -1`: `neighborAvg.Add(c).Scale(1 / float64(len(ns)+1))`. -/
theorem blur_point_mean (c : V3 K) (ns : List (V3 K)) (h : ns ≠ []) :
    model3d.Coord3D_Scale (model3d.Coord3D_Add (ns.foldl (fun s p => model3d.Coord3D_Add s (g3 p)) (g3 V3.zero)) (g3 c))
        (1 / ((ns.length : K) + 1)) = g3 (blurPointMean c ns) := by
  rw [neighbour_sum]
  have : ns.isEmpty = false := by cases ns <;> simp_all
  simp only [blurPointMean, this, coord3_scale, coord3_add]
  norm_num

/-- 2-D `Subdivide` (Chaikin): `s[0].Scale(0.75).Add(s[1].Scale(0.25))`. -/
theorem chaikin_point (p q : V2 K) :
    model2d.Coord_Add (model2d.Coord_Scale (g2 p) (3 / 4)) (model2d.Coord_Scale (g2 q) (1 / 4)) =
      g2 (chaikinPoint p q) := by
  simp only [coord2_add, coord2_scale, chaikinPoint]
  norm_num

/-- 2-D `Blur`: `c.Scale(1 - rate).Add(sum.Scale(rate / count))`. -/
theorem blur2_point (rate : K) (c : V2 K) (ns : List (V2 K)) :
    model2d.Coord_Add (model2d.Coord_Scale (g2 c) (1 - rate))
        (model2d.Coord_Scale (g2 (ns.foldl V2.add V2.zero)) (rate / (ns.length : K))) = g2 (blurPoint2 rate c ns) := by
  simp only [coord2_add, coord2_scale, blurPoint2]

/-! ### The linear step of `ARAP` (`M3d/Model/ArapLin.lean`) -/

/-- hand matrix → generated `Matrix3` -/
@[reducible] def gm (m : Mat3 K) : model3d.Matrix3 K := ⟨m.m0, m.m1, m.m2, m.m3, m.m4, m.m5, m.m6, m.m7, m.m8⟩

theorem mat3_mulColumn (m : Mat3 K) (c : V3 K) : model3d.Matrix3_MulColumn (gm m) (g3 c) = g3 (m.mulCol c) := by
  cases m; cases c
  simp only [model3d.Matrix3_MulColumn, model3d.XYZ, gm, g3, Mat3.mulCol, model3d.Coord3D.mk.injEq]
  all_goals (first | ring1 | (refine ⟨?_, ?_, ?_⟩ <;> first | trivial | ring1))

theorem coord3_sub (a b : V3 K) : model3d.Coord3D_Sub (g3 a) (g3 b) = g3 (ArapLin.sub a b) := by
  cases a; cases b
  simp only [model3d.Coord3D_Sub, model3d.Coord3D_Add, model3d.Coord3D_Scale, model3d.XYZ, g3, ArapLin.sub, V3.add, V3.scale,
    model3d.Coord3D.mk.injEq]
  all_goals (first | ring1 | (refine ⟨?_, ?_, ?_⟩ <;> first | trivial | ring1))

theorem coord3_dot (a b : V3 K) : model3d.Coord3D_Dot (g3 a) (g3 b) = ArapLin.dot a b := by
  cases a; cases b
  simp only [model3d.Coord3D_Dot, g3, ArapLin.dot]
  all_goals (first | rfl | ring1)

/-- `Targets`: `result.Add(rotation.MulColumn(p.Sub(a.arap.coords[n]).Scale(w)))` with `w = weights[j] / 2`
(`rotation` = the entry-wise sum the loop builds). -/
theorem arap_target_term (acc p q : V3 K) (r1 r2 : Mat3 K) (w : K) :
    model3d.Coord3D_Add (g3 acc)
        (model3d.Matrix3_MulColumn (gm (r1.add r2)) (model3d.Coord3D_Scale (model3d.Coord3D_Sub (g3 p) (g3 q)) (w / 2))) =
      g3 (acc.add ((r1.add r2).mulCol ((ArapLin.sub p q).scale (w / 2)))) := by
  simp only [coord3_sub, coord3_scale, mat3_mulColumn, coord3_add]

/-- `Apply`: `result.Add(p.Scale(w)).Sub(v[nSqueezed].Scale(w))`. -/
theorem arap_apply_term (acc p q : V3 K) (w : K) :
    model3d.Coord3D_Sub (model3d.Coord3D_Add (g3 acc) (model3d.Coord3D_Scale (g3 p) w)) (model3d.Coord3D_Scale (g3 q) w) =
      g3 (ArapLin.sub (acc.add (p.scale w)) (q.scale w)) := by
  simp only [coord3_sub, coord3_scale, coord3_add]

/-- `energy`: `w * diff.Dot(diff)` with
`diff = currentOutput[i].Sub(currentOutput[n]).Sub(rotation.MulColumn(a.coords[i].Sub(a.coords[n])))`. -/
theorem arap_energy_term (oi on pi pn : V3 K) (r : Mat3 K) (w : K) :
    w * model3d.Coord3D_Dot
        (model3d.Coord3D_Sub (model3d.Coord3D_Sub (g3 oi) (g3 on)) (model3d.Matrix3_MulColumn (gm r) (model3d.Coord3D_Sub (g3 pi) (g3 pn))))
        (model3d.Coord3D_Sub (model3d.Coord3D_Sub (g3 oi) (g3 on)) (model3d.Matrix3_MulColumn (gm r) (model3d.Coord3D_Sub (g3 pi) (g3 pn)))) =
      w * ArapLin.dot (ArapLin.sub (ArapLin.sub oi on) (r.mulCol (ArapLin.sub pi pn)))
        (ArapLin.sub (ArapLin.sub oi on) (r.mulCol (ArapLin.sub pi pn))) := by
  simp only [coord3_sub, mat3_mulColumn, coord3_dot]

end M3d.KernelsTie.MeshOps
