import M3d.Lemmas.CodecBytes
import M3d.Model.CodecStl
/-! Binary STL round trip and the facts behind its progress / allocation statements. -/
namespace M3d.Codec

theorem flatMap_le32_length (l : List UInt32) : (l.flatMap le32).length = 4 * l.length := by
  induction l with
  | nil => rfl
  | cons x xs ih => simp [List.flatMap_cons, le32_length, ih]; omega

theorem stlEncodeRec_length (r : Rec) (h : r.length = 12) : (stlEncodeRec r).length = 50 := by
  unfold stlEncodeRec
  rw [List.length_append, flatMap_le32_length, h]; rfl

theorem take48_encodeRec (r : Rec) (h : r.length = 12) (rest : Bytes) :
    (stlEncodeRec r ++ rest).take 48 = r.flatMap le32 := by
  have hl : (r.flatMap le32).length = 48 := by rw [flatMap_le32_length, h]
  unfold stlEncodeRec
  rw [List.append_assoc, List.take_left' hl]

/-- the record loop reads back exactly the records written, for any declared count ≥ their number -/
theorem stlReadBinRecs_encode (ts : List Rec) (hts : ∀ t ∈ ts, t.length = 12) (n : Nat) (hn : ts.length ≤ n) :
    stlReadBinRecs n (ts.flatMap stlEncodeRec) = .ok ts := by
  induction ts generalizing n with
  | nil =>
    cases n with
    | zero => rfl
    | succ n => simp [stlReadBinRecs]
  | cons t ts ih =>
    cases n with
    | zero => simp at hn
    | succ n =>
      have ht : t.length = 12 := hts t (List.mem_cons_self)
      have hlen := stlEncodeRec_length t ht
      rw [List.flatMap_cons]
      unfold stlReadBinRecs
      have hne : (stlEncodeRec t ++ ts.flatMap stlEncodeRec).isEmpty = false := by
        cases h : stlEncodeRec t with
        | nil => simp [h] at hlen
        | cons a b => rfl
      have hge : ¬ (stlEncodeRec t ++ ts.flatMap stlEncodeRec).length < 50 := by
        simp [hlen]
      simp only [hne, hge, Bool.false_eq_true, if_false]
      rw [List.drop_left' hlen, take48_encodeRec t ht, words32_flatMap_le32,
        ih (fun x hx => hts x (List.mem_cons_of_mem _ hx)) n (by simpa using hn)]

theorem zeros_length (n : Nat) : (zeros n).length = n := by simp [zeros]

theorem stlEncode_not_ascii (ts : List Rec) : stlIsAscii ((stlEncode ts).take 512) = false := by
  unfold stlIsAscii stlEncode
  have : ((zeros 80 ++ le32 (UInt32.ofNat ts.length) ++ ts.flatMap stlEncodeRec).take 512).take 5 = zeros 5 := by
    rw [List.take_take]
    simp [zeros]
  rw [this]
  simp [zeros, solidBytes]

theorem stlBinHeader_encode (ts : List Rec) (h : ts.length < 2 ^ 32) :
    stlBinHeader (stlEncode ts) = .ok (ts.length, ts.flatMap stlEncodeRec) := by
  unfold stlBinHeader stlEncode
  have h80 : (zeros 80).length = 80 := zeros_length 80
  have h4 := le32_length (UInt32.ofNat ts.length)
  have hlen : ¬ (zeros 80 ++ le32 (UInt32.ofNat ts.length) ++ ts.flatMap stlEncodeRec).length < 84 := by
    simp [h80, h4]; omega
  simp only [hlen, if_false]
  have h84 : (zeros 80 ++ le32 (UInt32.ofNat ts.length)).length = 84 := by simp [h80, h4]
  rw [List.drop_left' h84]
  rw [List.append_assoc, List.drop_left' h80, List.take_left' h4, unle32_le32]
  congr 2
  simp [UInt32.toNat_ofNat', Nat.mod_eq_of_lt h]

/-- **binary STL round trip** at the record level, through the real reader's ASCII sniffing. -/
theorem stlDecode_encode (pf32 : Bytes → Option UInt32) (ts : List Rec)
    (hts : ∀ t ∈ ts, t.length = 12) (h : ts.length < 2 ^ 32) :
    stlDecode pf32 (stlEncode ts) = .ok ts := by
  unfold stlDecode
  have hne : (stlEncode ts).isEmpty = false := by
    unfold stlEncode zeros; rfl
  simp only [hne, Bool.false_eq_true, if_false, stlEncode_not_ascii, stlBinHeader_encode ts h]
  exact stlReadBinRecs_encode ts hts ts.length (Nat.le_refl _)

/-- progress/size: every record returned was backed by 50 bytes of input -/
theorem stlReadBinRecs_size (n : Nat) (bs : Bytes) (rs : List Rec)
    (h : stlReadBinRecs n bs = .ok rs) : 50 * rs.length ≤ bs.length ∧ rs.length ≤ n := by
  induction n generalizing bs rs with
  | zero => simp [stlReadBinRecs] at h; subst h; simp
  | succ n ih =>
    unfold stlReadBinRecs at h
    by_cases he : bs.isEmpty
    · simp [he] at h; subst h; simp
    · simp only [he, Bool.false_eq_true, if_false] at h
      by_cases hl : bs.length < 50
      · simp [hl] at h
      · simp only [hl, if_false] at h
        cases hr : stlReadBinRecs n (bs.drop 50) with
        | error e => simp [hr] at h
        | ok rest =>
          simp [hr] at h
          subst h
          have := ih (bs.drop 50) rest hr
          simp at this ⊢
          omega

end M3d.Codec
