import M3d.Lemmas.ParamNum
/-!
# `MapFn` on mirrored / clockwise UV maps

`Triangle.Barycentric` (as `model2d.NewTriangle` sets it up) written with signed areas, its
invariance under every invertible affine map of the UV plane (mirrors included: determinant `-1`),
what a relabelling of the corners does to the weights, and the invariance of the whole containment
branch of `MapFn` (bounding-box pre-test included) under the axis mirrors and the transposition.
-/
namespace M3d.Param

variable {K : Type} [Field K] [LinearOrder K] [IsStrictOrderedRing K]

/-- An affine map of the UV plane: `p ↦ (a·x + b·y + ox, c·x + d·y + oy)`. -/
structure Aff2 (α : Type) where
  a : α
  b : α
  c : α
  d : α
  ox : α
  oy : α

def Aff2.apply {α : Type} [Add α] [Mul α] (f : Aff2 α) (p : V2 α) : V2 α :=
  ⟨f.a * p.x + f.b * p.y + f.ox, f.c * p.x + f.d * p.y + f.oy⟩

def Aff2.det {α : Type} [Sub α] [Mul α] (f : Aff2 α) : α := f.a * f.d - f.b * f.c

/-- The UV triangle with `f` applied to every corner (corner order kept). -/
def Tri2.mapAff {α : Type} [Add α] [Mul α] (f : Aff2 α) (t : Tri2 α) : Tri2 α :=
  ⟨f.apply t.a, f.apply t.b, f.apply t.c⟩

/-- `v ↦ c − v` (a texture convention with V pointing down is `c = 1`). -/
def Aff2.mirrorV (c : K) : Aff2 K := ⟨1, 0, 0, -1, 0, c⟩
/-- `u ↦ c − u`. -/
def Aff2.mirrorU (c : K) : Aff2 K := ⟨-1, 0, 0, 1, c, 0⟩
/-- `u ↔ v`. -/
def Aff2.transpose : Aff2 K := ⟨0, 1, 1, 0, 0, 0⟩

/-- The 3-D triangle with corners 1 and 2 exchanged. -/
def Tri3.flip {α : Type} (t : Tri3 α) : Tri3 α := ⟨t.a, t.c, t.b⟩

omit [LinearOrder K] [IsStrictOrderedRing K] in
theorem orient_aff (f : Aff2 K) (a b c : V2 K) :
    orient (f.apply a) (f.apply b) (f.apply c) = f.det * orient a b c := by
  simp only [orient, Aff2.apply, Aff2.det]; ring

omit [LinearOrder K] [IsStrictOrderedRing K] in
/-- `Barycentric` with signed areas: the weights of corners 1 and 2 are the areas of `(a, p, c)` and
`(a, b, p)` over the area of `(a, b, c)`. -/
theorem bary2_eq_orient (t : Tri2 K) (p : V2 K) :
    bary2 t p =
      (1 - (orient t.a p t.c / orient t.a t.b t.c + orient t.a t.b p / orient t.a t.b t.c),
       orient t.a p t.c / orient t.a t.b t.c, orient t.a t.b p / orient t.a t.b t.c) := by
  simp only [bary2, orient, V2.sub, Prod.mk.injEq]
  refine ⟨?_, ?_, ?_⟩ <;> ring

omit [LinearOrder K] [IsStrictOrderedRing K] in
/-- The computed barycentric coordinates do not change when the UV triangle and the query go through
the same invertible affine map — whatever the sign of its determinant. -/
theorem bary2_mapAff (f : Aff2 K) (hf : f.det ≠ 0) (t : Tri2 K) (p : V2 K) :
    bary2 (Tri2.mapAff f t) (f.apply p) = bary2 t p := by
  rw [bary2_eq_orient, bary2_eq_orient]
  simp only [Tri2.mapAff, orient_aff, mul_div_mul_left _ _ hf]

omit [LinearOrder K] [IsStrictOrderedRing K] in
/-- Exchanging corners 1 and 2 of the UV triangle exchanges the weights 1 and 2. -/
theorem bary2_flip (t : Tri2 K) (p : V2 K) :
    bary2 t.flip p = ((bary2 t p).1, (bary2 t p).2.2, (bary2 t p).2.1) := by
  rw [bary2_eq_orient, bary2_eq_orient]
  have h1 : orient t.a t.c t.b = -orient t.a t.b t.c := by simp only [orient]; ring
  have h2 : orient t.a p t.b = -orient t.a t.b p := by simp only [orient]; ring
  have h3 : orient t.a t.c p = -orient t.a p t.c := by simp only [orient]; ring
  simp only [Tri2.flip, h1, h2, h3, neg_div_neg_eq, Prod.mk.injEq, and_true]
  ring

theorem atBary3_flip (t : Tri3 K) (α β γ : K) : atBary3 t.flip (α, γ, β) = atBary3 t (α, β, γ) := by
  rw [atBary3_eq, atBary3_eq]
  simp only [Tri3.flip, V3.mk.injEq]
  refine ⟨?_, ?_, ?_⟩ <;> ring

/-! ## The bounding-box pre-test under the axis symmetries -/

theorem min3_sub_left (c x y z : K) : min3 (c - x) (c - y) (c - z) = c - max3 x y z := by
  unfold min3 max3; simp only; split_ifs <;> linarith

theorem max3_sub_left (c x y z : K) : max3 (c - x) (c - y) (c - z) = c - min3 x y z := by
  unfold min3 max3; simp only; split_ifs <;> linarith

theorem inBounds2_mirrorV (c : K) (t : Tri2 K) (p : V2 K) :
    inBounds2 (Tri2.mapAff (Aff2.mirrorV c) t) ((Aff2.mirrorV c).apply p) = inBounds2 t p := by
  have e : ∀ v : V2 K, (Aff2.mirrorV c).apply v = ⟨v.x, c - v.y⟩ := by
    intro v; simp only [Aff2.apply, Aff2.mirrorV, V2.mk.injEq]; constructor <;> ring
  simp only [Tri2.mapAff, e, inBounds2, min3_sub_left, max3_sub_left, sub_lt_sub_iff_left]
  rw [Bool.eq_iff_iff]
  simp only [Bool.and_eq_true, Bool.not_eq_true', decide_eq_false_iff_not]
  tauto

theorem inBounds2_mirrorU (c : K) (t : Tri2 K) (p : V2 K) :
    inBounds2 (Tri2.mapAff (Aff2.mirrorU c) t) ((Aff2.mirrorU c).apply p) = inBounds2 t p := by
  have e : ∀ v : V2 K, (Aff2.mirrorU c).apply v = ⟨c - v.x, v.y⟩ := by
    intro v; simp only [Aff2.apply, Aff2.mirrorU, V2.mk.injEq]; constructor <;> ring
  simp only [Tri2.mapAff, e, inBounds2, min3_sub_left, max3_sub_left, sub_lt_sub_iff_left]
  rw [Bool.eq_iff_iff]
  simp only [Bool.and_eq_true, Bool.not_eq_true', decide_eq_false_iff_not]
  tauto

omit [IsStrictOrderedRing K] in
theorem inBounds2_transpose (t : Tri2 K) (p : V2 K) :
    inBounds2 (Tri2.mapAff Aff2.transpose t) ((Aff2.transpose (K := K)).apply p) = inBounds2 t p := by
  have e : ∀ v : V2 K, (Aff2.transpose (K := K)).apply v = ⟨v.y, v.x⟩ := by
    intro v; simp only [Aff2.apply, Aff2.transpose, V2.mk.injEq]; constructor <;> ring
  simp only [Tri2.mapAff, e, inBounds2]
  rw [Bool.eq_iff_iff]
  simp only [Bool.and_eq_true, Bool.not_eq_true', decide_eq_false_iff_not]
  tauto

omit [IsStrictOrderedRing K] in
/-- The containment scan gives the same index and the same weights on the transformed map at the
transformed query, for every invertible affine map that preserves the bounding-box pre-test. -/
theorem findContains_mapAff (f : Aff2 K) (hf : f.det ≠ 0)
    (hb : ∀ (t : Tri2 K) (p : V2 K), inBounds2 (Tri2.mapAff f t) (f.apply p) = inBounds2 t p)
    (ts : List (Tri2 K)) (p : V2 K) :
    findContains (ts.map (Tri2.mapAff f)) (f.apply p) = findContains ts p := by
  unfold findContains
  have key : ∀ (l : List (Tri2 K)) (k : Nat),
      findContains.go (f.apply p) k (l.map (Tri2.mapAff f)) = findContains.go p k l := by
    intro l
    induction l with
    | nil => intro k; simp [findContains.go]
    | cons t r ih =>
      intro k
      simp only [List.map_cons, findContains.go, bary2_mapAff f hf, hb, ih]
  exact key ts 0

omit [IsStrictOrderedRing K] in
theorem mapFn_mapAff (f : Aff2 K) (hf : f.det ≠ 0)
    (hb : ∀ (t : Tri2 K) (p : V2 K), inBounds2 (Tri2.mapAff f t) (f.apply p) = inBounds2 t p)
    (uv : List (Tri2 K)) (t3 : List (Tri3 K)) (p : V2 K) :
    mapFn (uv.map (Tri2.mapAff f)) t3 (f.apply p) = mapFn uv t3 p := by
  simp only [mapFn, findContains_mapAff f hf hb]

omit [LinearOrder K] [IsStrictOrderedRing K] in
theorem det_mirrorV (c : K) : (Aff2.mirrorV c).det = -1 := by simp [Aff2.det, Aff2.mirrorV]
omit [LinearOrder K] [IsStrictOrderedRing K] in
theorem det_mirrorU (c : K) : (Aff2.mirrorU c).det = -1 := by simp [Aff2.det, Aff2.mirrorU]
omit [LinearOrder K] [IsStrictOrderedRing K] in
theorem det_transpose : (Aff2.transpose (K := K)).det = -1 := by simp [Aff2.det, Aff2.transpose]

end M3d.Param
