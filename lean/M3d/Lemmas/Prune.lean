import M3d.Model.Prune
import Mathlib.Order.Lattice
import Mathlib.Order.MinMax
import Mathlib.Tactic.Order
import Mathlib.Data.List.Perm.Basic
/-!
# Pruned search = linear scan, for every sound bound

All statements are for arbitrary item, bound and state types; nothing numeric is assumed.
`hskip` is the only thing a user has to supply: an item covered by a bound that does not adm
the state cannot change that state.
-/
namespace M3d.Prune
set_option linter.unusedSectionVars false

variable {ι β σ γ : Type}

theorem foldl_fixed (step : σ → ι → σ) (s : σ) :
    ∀ l : List ι, (∀ i ∈ l, step s i = s) → l.foldl step s = s
  | [], _ => rfl
  | i :: l, h => by
      simp only [List.foldl_cons]
      rw [h i (by simp)]
      exact foldl_fixed step s l (fun j hj => h j (by simp [hj]))

namespace Forest

@[simp] theorem items_append (f g : Forest ι β) : items (append f g) = items f ++ items g := by
  induction f with
  | nil => rfl
  | leaf i r ih => simp [append, items, ih]
  | node b c r _ ih => simp [append, items, ih]

theorem sound_append {covers : β → ι → Prop} (f g : Forest ι β) :
    Sound covers (append f g) ↔ Sound covers f ∧ Sound covers g := by
  induction f with
  | nil => simp [append, Sound]
  | leaf i r ih => simp [append, Sound, ih]
  | node b c r _ ih => simp [append, Sound, ih, and_assoc]

/-- **Pruned fold = linear fold** for every sound bound. -/
theorem search_eq_foldl {covers : β → ι → Prop} {adm : β → σ → Bool} {step : σ → ι → σ}
    (hskip : ∀ b s i, covers b i → adm b s = false → step s i = s) :
    ∀ (f : Forest ι β) (s : σ), Sound covers f → search adm step f s = (items f).foldl step s := by
  intro f
  induction f with
  | nil => intro s _; rfl
  | leaf i r ih => intro s h; simp only [search, items, List.foldl_cons]; exact ih _ h
  | node b c r ihc ihr =>
      intro s h
      obtain ⟨hc, hsc, hsr⟩ := h
      simp only [search, items, List.foldl_append]
      cases hb : adm b s with
      | true => simp only [if_true]; rw [ihc s hsc, ihr _ hsr]
      | false =>
          simp only [Bool.false_eq_true, if_false]
          rw [ihr _ hsr, foldl_fixed step s (items c) (fun i hi => hskip b s i (hc i hi) hb)]

/-- The trace threads the same state as `search`. -/
theorem visited_snd (adm : β → σ → Bool) (step : σ → ι → σ) :
    ∀ (f : Forest ι β) (s : σ), (visited adm step f s).2 = search adm step f s := by
  intro f
  induction f with
  | nil => intro s; rfl
  | leaf i r ih => intro s; simp only [visited, search]; exact ih _
  | node b c r ihc ihr =>
      intro s
      simp only [visited, search]
      cases hb : adm b s with
      | true => simp only [if_true]; rw [← ihc s]; exact ihr _
      | false => simp only [Bool.false_eq_true, if_false]; exact ihr _

/-- Whatever is visited is an item of the forest, in order (a sublist). -/
theorem visited_sublist (adm : β → σ → Bool) (step : σ → ι → σ) :
    ∀ (f : Forest ι β) (s : σ), (visited adm step f s).1.Sublist (items f) := by
  intro f
  induction f with
  | nil => intro s; exact List.Sublist.refl _
  | leaf i r ih => intro s; simp only [visited, items]; exact (ih _).cons_cons i
  | node b c r ihc ihr =>
      intro s
      simp only [visited, items]
      cases hb : adm b s with
      | true => simp only [if_true]; exact (ihc s).append (ihr _)
      | false =>
          simp only [Bool.false_eq_true, if_false]
          exact (ihr s).trans (List.sublist_append_right _ _)

/-- **Early-exit existential query = `List.any`**. -/
theorem any_eq_any {covers : β → ι → Prop} {adm : β → Bool} {p : ι → Bool}
    (hskip : ∀ b i, covers b i → adm b = false → p i = false) :
    ∀ f : Forest ι β, Sound covers f → any adm p f = (items f).any p := by
  intro f
  induction f with
  | nil => intro _; rfl
  | leaf i r ih => intro h; simp only [any, items, List.any_cons]; rw [ih h]
  | node b c r ihc ihr =>
      intro h
      obtain ⟨hc, hsc, hsr⟩ := h
      simp only [any, items, List.any_append]
      rw [ihc hsc, ihr hsr]
      cases hb : adm b with
      | true => simp
      | false =>
          have : (items c).any p = false := by
            rw [List.any_eq_false]; intro i hi; simp [hskip b i (hc i hi) hb]
          simp [this]

/-- **Collecting query = `flatMap`** (same order, same multiplicities). -/
theorem collect_eq_flatMap {covers : β → ι → Prop} {adm : β → Bool} {g : ι → List γ}
    (hskip : ∀ b i, covers b i → adm b = false → g i = []) :
    ∀ f : Forest ι β, Sound covers f → collect adm g f = (items f).flatMap g := by
  intro f
  induction f with
  | nil => intro _; rfl
  | leaf i r ih => intro h; simp only [collect, items, List.flatMap_cons]; rw [ih h]
  | node b c r ihc ihr =>
      intro h
      obtain ⟨hc, hsc, hsr⟩ := h
      simp only [collect, items, List.flatMap_append]
      rw [ihc hsc, ihr hsr]
      cases hb : adm b with
      | true => simp
      | false =>
          have : (items c).flatMap g = [] := by
            rw [List.flatMap_eq_nil_iff]; intro i hi; exact hskip b i (hc i hi) hb
          simp [this]

/-- **Counting query = sum over the items**. -/
theorem count_eq_sum {covers : β → ι → Prop} {adm : β → Bool} {g : ι → Nat}
    (hskip : ∀ b i, covers b i → adm b = false → g i = 0) :
    ∀ f : Forest ι β, Sound covers f → count adm g f = ((items f).map g).sum := by
  intro f
  induction f with
  | nil => intro _; rfl
  | leaf i r ih => intro h; simp only [count, items, List.map_cons, List.sum_cons]; rw [ih h]
  | node b c r ihc ihr =>
      intro h
      obtain ⟨hc, hsc, hsr⟩ := h
      simp only [count, items, List.map_append, List.sum_append]
      rw [ihc hsc, ihr hsr]
      cases hb : adm b with
      | true => simp
      | false =>
          have : ∀ l : List ι, (∀ i ∈ l, g i = 0) → (l.map g).sum = 0 := by
            intro l; induction l with
            | nil => intro _; rfl
            | cons a l ih =>
                intro h
                simp only [List.map_cons, List.sum_cons, h a (by simp), Nat.zero_add]
                exact ih (fun i hi => h i (by simp [hi]))
          simp [this (items c) (fun i hi => hskip b i (hc i hi) hb)]

/-! ### `best`: nested "closest of my children" = one left-to-right scan -/

theorem merge_none_right (better : γ → γ → Bool) (s : Option γ) : merge better s none = s := by
  cases s <;> rfl

theorem merge_none_left (better : γ → γ → Bool) (x : Option γ) : merge better none x = x := by
  cases x <;> rfl

/-- Scanning from `merge s a` is the same as merging `s` with the scan from `a`
(for an associative `merge`, e.g. "leftmost minimum"). -/
theorem foldl_merge_assoc {better : γ → γ → Bool}
    (hassoc : ∀ a b c : Option γ, merge better (merge better a b) c = merge better a (merge better b c))
    (g : ι → Option γ) (s : Option γ) :
    ∀ (l : List ι) (a : Option γ),
      l.foldl (fun t i => merge better t (g i)) (merge better s a)
        = merge better s (l.foldl (fun t i => merge better t (g i)) a)
  | [], _ => rfl
  | i :: l, a => by
      simp only [List.foldl_cons]
      rw [hassoc]
      exact foldl_merge_assoc hassoc g s l _

/-- **Closest-of-children recursion = one linear scan keeping the leftmost best.** -/
theorem best_eq_foldl {covers : β → ι → Prop} {adm : β → Bool} {g : ι → Option γ}
    {better : γ → γ → Bool}
    (hassoc : ∀ a b c : Option γ, merge better (merge better a b) c = merge better a (merge better b c))
    (hskip : ∀ b i, covers b i → adm b = false → g i = none) :
    ∀ (f : Forest ι β) (s : Option γ), Sound covers f →
      best adm g better f s = (items f).foldl (fun t i => merge better t (g i)) s := by
  intro f
  induction f with
  | nil => intro s _; rfl
  | leaf i r ih => intro s h; simp only [best, items, List.foldl_cons]; exact ih _ h
  | node b c r ihc ihr =>
      intro s h
      obtain ⟨hc, hsc, hsr⟩ := h
      simp only [best, items, List.foldl_append]
      rw [ihr _ hsr]
      congr 1
      cases hb : adm b with
      | true =>
          simp only [if_true]
          rw [ihc none hsc]
          have := foldl_merge_assoc hassoc g s (items c) none
          rw [merge_none_right] at this
          exact this.symm
      | false =>
          simp only [Bool.false_eq_true, if_false, merge_none_right]
          symm
          apply foldl_fixed
          intro i hi
          rw [hskip b i (hc i hi) hb, merge_none_right]

end Forest

namespace BTree

theorem items_toForest (t : BTree ι β) : Forest.items (toForest t) = items t := by
  induction t with
  | leaf i => rfl
  | node b l r ihl ihr => simp [toForest, Forest.items, items, ihl, ihr]

theorem sound_toForest {covers : β → ι → Prop} (t : BTree ι β) :
    Forest.Sound covers (toForest t) ↔ Sound covers t := by
  induction t with
  | leaf i => simp [toForest, Forest.Sound, Sound]
  | node b l r ihl ihr =>
      simp [toForest, Forest.Sound, Sound, Forest.sound_append, ihl, ihr, items_toForest]

/-- **Binary-tree branch and bound = linear fold** for every sound bound. -/
theorem search_eq_foldl {covers : β → ι → Prop} {adm : β → σ → Bool} {step : σ → ι → σ}
    (hskip : ∀ b s i, covers b i → adm b s = false → step s i = s) :
    ∀ (t : BTree ι β) (s : σ), Sound covers t → search adm step t s = (items t).foldl step s := by
  intro t
  induction t with
  | leaf i => intro s _; rfl
  | node b l r ihl ihr =>
      intro s h
      obtain ⟨hc, hsl, hsr⟩ := h
      simp only [search, items, List.foldl_append]
      cases hb : adm b s with
      | true => simp only [if_true]; rw [ihl s hsl, ihr _ hsr]
      | false =>
          simp only [Bool.false_eq_true, if_false]
          rw [← List.foldl_append]
          exact (foldl_fixed step s _ (fun i hi => hskip b s i (hc i hi) hb)).symm

/-- **Binary-tree early-exit query = `List.any`.** -/
theorem any_eq_any {covers : β → ι → Prop} {adm : β → Bool} {p : ι → Bool}
    (hskip : ∀ b i, covers b i → adm b = false → p i = false) :
    ∀ t : BTree ι β, Sound covers t → any adm p t = (items t).any p := by
  intro t
  induction t with
  | leaf i => intro _; simp [any, items]
  | node b l r ihl ihr =>
      intro h
      obtain ⟨hc, hsl, hsr⟩ := h
      simp only [any, items, List.any_append]
      rw [ihl hsl, ihr hsr]
      cases hb : adm b with
      | true => simp
      | false =>
          have : ∀ i ∈ items l ++ items r, p i = false := fun i hi => hskip b i (hc i hi) hb
          have h1 : (items l).any p = false := by
            rw [List.any_eq_false]; intro i hi; simp [this i (by simp [hi])]
          have h2 : (items r).any p = false := by
            rw [List.any_eq_false]; intro i hi; simp [this i (by simp [hi])]
          simp [h1, h2]

end BTree

/-! ### Running minimum over a linear order -/
section Min
variable {α : Type} [LinearOrder α]

theorem minStep_some (c v : α) : minStep (some c) v = some (min c v) := by
  unfold minStep
  by_cases h : v < c
  · simp [h, min_eq_right (le_of_lt h)]
  · simp [h, min_eq_left (not_lt.1 h)]

theorem scanMin_some (c : α) : ∀ vs : List α, scanMin (some c) vs = some (vs.foldl min c)
  | [] => rfl
  | v :: vs => by
      simp only [scanMin, List.foldl_cons, minStep_some]
      exact scanMin_some (min c v) vs

theorem scanMin_none_cons (v : α) (vs : List α) : scanMin none (v :: vs) = some (vs.foldl min v) := by
  simp only [scanMin, List.foldl_cons, minStep]
  exact scanMin_some v vs

theorem foldl_min_le_init (c : α) : ∀ vs : List α, vs.foldl min c ≤ c
  | [] => le_refl _
  | v :: vs => le_trans (foldl_min_le_init (min c v) vs) (min_le_left _ _)

theorem foldl_min_le_mem (c : α) : ∀ vs : List α, ∀ v ∈ vs, vs.foldl min c ≤ v
  | [], _, h => by simp at h
  | w :: vs, v, h => by
      simp only [List.foldl_cons]
      rcases List.mem_cons.1 h with rfl | h
      · exact le_trans (foldl_min_le_init _ vs) (min_le_right _ _)
      · exact foldl_min_le_mem _ vs v h

theorem foldl_min_mem (c : α) : ∀ vs : List α, vs.foldl min c = c ∨ vs.foldl min c ∈ vs
  | [] => Or.inl rfl
  | v :: vs => by
      simp only [List.foldl_cons]
      rcases foldl_min_mem (min c v) vs with h | h
      · rw [h]
        rcases min_choice c v with h' | h'
        · exact Or.inl h'
        · exact Or.inr (by simp [h'])
      · exact Or.inr (List.mem_cons_of_mem _ h)

/-- The minimum of a list does not depend on the order in which it is scanned. -/
theorem foldl_min_perm {l₁ l₂ : List α} (h : l₁.Perm l₂) (c : α) :
    l₁.foldl min c = l₂.foldl min c := by
  induction h generalizing c with
  | nil => rfl
  | cons x _ ih => simp only [List.foldl_cons]; exact ih _
  | swap x y l => simp only [List.foldl_cons]; rw [min_assoc, min_comm y x, ← min_assoc]
  | trans _ _ ih1 ih2 => exact (ih1 c).trans (ih2 c)

theorem merge_some_some {γ : Type} (better : γ → γ → Bool) (c h : γ) :
    Forest.merge better (some c) (some h) = if better h c then some h else some c := rfl

/-- "Leftmost minimum by key" is an associative way of merging optional answers. -/
theorem merge_key_assoc {γ : Type} (key : γ → α) (a b c : Option γ) :
    Forest.merge (fun h c => decide (key h < key c)) (Forest.merge (fun h c => decide (key h < key c)) a b) c
      = Forest.merge (fun h c => decide (key h < key c)) a (Forest.merge (fun h c => decide (key h < key c)) b c) := by
  cases c with
  | none => simp only [Forest.merge_none_right]
  | some z =>
    cases b with
    | none => simp only [Forest.merge_none_right, Forest.merge_none_left]
    | some y =>
      cases a with
      | none => simp only [Forest.merge_none_left]
      | some x =>
        simp only [merge_some_some]
        by_cases h1 : key y < key x <;> by_cases h2 : key z < key y <;> by_cases h3 : key z < key x <;>
          simp only [h1, h2, h3, decide_true, decide_false, if_true, if_false, merge_some_some,
            Bool.false_eq_true] <;> first | rfl | (exfalso; order)

end Min

end M3d.Prune
