import Mathlib.Tactic.Linarith
import Mathlib.Order.Basic
import Mathlib.Order.MinMax
import M3d.Model.Search
/-!
Helper lemmas for C17: the sample-and-zoom searches and golden-section search return the best
sample they evaluated.  Only a linear order on the objective's values is needed.
-/
namespace M3d.Search

variable {K P B : Type} [LinearOrder K]

/-- Invariant of the arg-max loop started from a state `(s0, f s0)`. -/
theorem foldl_argmax_some (f : P → K) (pts : List P) (s0 : P) :
    ∃ s, pts.foldl (argmaxStep f) (some (s0, f s0)) = some (s, f s) ∧ f s0 ≤ f s ∧
      (∀ p ∈ pts, f p ≤ f s) ∧ (s = s0 ∨ s ∈ pts) := by
  induction pts generalizing s0 with
  | nil => exact ⟨s0, rfl, le_refl _, by simp, Or.inl rfl⟩
  | cons c cs ih =>
    simp only [List.foldl_cons, argmaxStep]
    by_cases h : f s0 < f c
    · rw [if_pos h]
      obtain ⟨s, e, h1, h2, h3⟩ := ih c
      refine ⟨s, e, h.le.trans h1, ?_, ?_⟩
      · intro p hp
        rcases List.mem_cons.mp hp with rfl | hp
        · exact h1
        · exact h2 p hp
      · rcases h3 with rfl | h3
        · exact Or.inr (List.mem_cons_self)
        · exact Or.inr (List.mem_cons_of_mem _ h3)
    · rw [if_neg h]
      obtain ⟨s, e, h1, h2, h3⟩ := ih s0
      refine ⟨s, e, h1, ?_, ?_⟩
      · intro p hp
        rcases List.mem_cons.mp hp with rfl | hp
        · exact (not_lt.mp h).trans h1
        · exact h2 p hp
      · rcases h3 with rfl | h3
        · exact Or.inl rfl
        · exact Or.inr (List.mem_cons_of_mem _ h3)

/-- One sampling level returns an evaluated sample whose value is the maximum of the level. -/
theorem level_spec (f : P → K) (pts : List P) :
    (pts = [] ∧ level f pts = none) ∨
      ∃ s, level f pts = some (s, f s) ∧ s ∈ pts ∧ ∀ p ∈ pts, f p ≤ f s := by
  cases pts with
  | nil => exact Or.inl ⟨rfl, rfl⟩
  | cons c cs =>
    right
    obtain ⟨s, e, h1, h2, h3⟩ := foldl_argmax_some f cs c
    refine ⟨s, ?_, ?_, ?_⟩
    · simpa [level, argmaxStep] using e
    · rcases h3 with rfl | h3
      · exact List.mem_cons_self
      · exact List.mem_cons_of_mem _ h3
    · intro p hp
      rcases List.mem_cons.mp hp with rfl | hp
      · exact h1
      · exact h2 p hp

/-- The repaired recursive search returns an evaluated sample at least as good as every sample
evaluated at any level. -/
theorem search_spec (gen : B → List P) (shrink : B → P → B) (f : P → K) (r : Nat) (b : B) :
    (trace gen shrink f r b = [] ∧ search gen shrink f r b = none) ∨
      ∃ s, search gen shrink f r b = some (s, f s) ∧ s ∈ trace gen shrink f r b ∧
        ∀ p ∈ trace gen shrink f r b, f p ≤ f s := by
  induction r generalizing b with
  | zero => simpa [search, trace] using level_spec f (gen b)
  | succ r ih =>
    rcases level_spec f (gen b) with ⟨h0, h1⟩ | ⟨s, e, hs, hmax⟩
    · left; rw [h0] at h1; simp [search, trace, h0, h1]
    · right
      simp only [search, trace, e]
      rcases ih (shrink b s) with ⟨t0, t1⟩ | ⟨s', e', hs', hmax'⟩
      · refine ⟨s, by rw [t1], by simp [hs], ?_⟩
        intro p hp
        rw [t0, List.append_nil] at hp
        exact hmax p hp
      · rw [e']
        by_cases hlt : f s' < f s
        · refine ⟨s, by simp [hlt], List.mem_append_left _ hs, ?_⟩
          intro p hp
          rcases List.mem_append.mp hp with hp | hp
          · exact hmax p hp
          · exact (hmax' p hp).trans hlt.le
        · refine ⟨s', by simp [hlt], List.mem_append_right _ hs', ?_⟩
          intro p hp
          rcases List.mem_append.mp hp with hp | hp
          · exact (hmax p hp).trans (not_lt.mp hlt)
          · exact hmax' p hp

/-! ### golden-section search -/

/-- Loop invariant: both interior values are cached function values of evaluated points, and the
smaller of them is a lower bound for every value seen so far. -/
def GInv (f : K → K) (s : GState K) (E : List K) : Prop :=
  s.val1 = f s.mid1 ∧ s.val2 = f s.mid2 ∧ s.mid1 ∈ E ∧ s.mid2 ∈ E ∧
    ∀ p ∈ E, min s.val1 s.val2 ≤ f p

variable [Add K] [Sub K] [Div K]

theorem gssLoop_inv (f : K → K) (phi : K) (base : List K) (n : Nat) (s : GState K) (acc : List K)
    (h : GInv f s (base ++ acc.reverse)) :
    GInv f (gssLoop f phi n s acc).1 (base ++ (gssLoop f phi n s acc).2) := by
  induction n generalizing s acc with
  | zero => simpa [gssLoop] using h
  | succ n ih =>
    simp only [gssLoop]
    split
    · exact h
    · obtain ⟨h1, h2, m1, m2, hmin⟩ := h
      split
      · rename_i hlt
        apply ih
        refine ⟨rfl, h1, ?_, ?_, ?_⟩
        · simp
        · simp only [List.reverse_cons, ← List.append_assoc]
          exact List.mem_append_left _ m1
        · intro p hp
          simp only [List.reverse_cons, ← List.append_assoc] at hp
          rcases List.mem_append.mp hp with hp | hp
          · have := hmin p hp
            rw [min_eq_left hlt.le] at this
            exact (min_le_right _ _).trans this
          · simp only [List.mem_singleton] at hp
            subst hp
            exact min_le_left _ _
      · rename_i hge
        have hge : s.val2 ≤ s.val1 := not_lt.mp hge
        apply ih
        refine ⟨h2, rfl, ?_, ?_, ?_⟩
        · simp only [List.reverse_cons, ← List.append_assoc]
          exact List.mem_append_left _ m2
        · simp
        · intro p hp
          simp only [List.reverse_cons, ← List.append_assoc] at hp
          rcases List.mem_append.mp hp with hp | hp
          · have := hmin p hp
            rw [min_eq_right hge] at this
            exact (min_le_left _ _).trans this
          · simp only [List.mem_singleton] at hp
            subst hp
            exact min_le_right _ _

theorem gss_spec (f : K → K) (phi mn mx : K) (iters : Nat) :
    (gss f phi mn mx iters).1 ∈ (gss f phi mn mx iters).2 ∧
      ∀ p ∈ (gss f phi mn mx iters).2, f (gss f phi mn mx iters).1 ≤ f p := by
  simp only [gss]
  generalize (if iters = 0 then 64 else iters) = n
  obtain ⟨s0, hs0, hv1, hv2⟩ : ∃ s0, gssInit f phi mn mx = s0 ∧ s0.val1 = f s0.mid1 ∧ s0.val2 = f s0.mid2 :=
    ⟨_, rfl, rfl, rfl⟩
  rw [hs0]
  have h0 : GInv f s0 ([s0.mid1, s0.mid2] ++ ([] : List K).reverse) := by
    refine ⟨hv1, hv2, by simp, by simp, ?_⟩
    intro p hp
    simp only [List.reverse_nil, List.append_nil, List.mem_cons, List.not_mem_nil, or_false] at hp
    rcases hp with rfl | rfl
    · rw [← hv1]; exact min_le_left _ _
    · rw [← hv2]; exact min_le_right _ _
  obtain ⟨h1, h2, m1, m2, hmin⟩ := gssLoop_inv f phi [s0.mid1, s0.mid2] n s0 [] h0
  simp only [List.cons_append, List.nil_append] at m1 m2 hmin
  split
  · rename_i hlt
    refine ⟨m1, fun p hp => ?_⟩
    have := hmin p hp
    rw [min_eq_left hlt.le, h1] at this
    exact this
  · rename_i hge
    refine ⟨m2, fun p hp => ?_⟩
    have := hmin p hp
    rw [min_eq_right (not_lt.mp hge), h2] at this
    exact this

end M3d.Search

/-! ### RecursiveLineSearch -/
namespace M3d.Search

variable {K : Type} [LinearOrder K]

/-- The closure's running best, started from an already recorded evaluation `v0`. -/
theorem trackFold_some (g : K → List K × K) (vs : List K) (v0 : K) :
    ∃ v, (v = v0 ∨ v ∈ vs) ∧
      vs.foldl (trackStep g) ((g v0).1, some (g v0).2)
        = ((g v).1, some (g v).2) ∧ (g v0).2 ≤ (g v).2 ∧ ∀ w ∈ vs, (g w).2 ≤ (g v).2 := by
  induction vs generalizing v0 with
  | nil => exact ⟨v0, Or.inl rfl, rfl, le_refl _, by simp⟩
  | cons c cs ih =>
    simp only [List.foldl_cons, trackStep]
    by_cases h : (g v0).2 < (g c).2
    · simp only [if_pos h]
      obtain ⟨v, hv, e, h1, h2⟩ := ih c
      refine ⟨v, ?_, e, h.le.trans h1, ?_⟩
      · rcases hv with rfl | hv
        · exact Or.inr List.mem_cons_self
        · exact Or.inr (List.mem_cons_of_mem _ hv)
      · intro w hw
        rcases List.mem_cons.mp hw with rfl | hw
        · exact h1
        · exact h2 w hw
    · simp only [if_neg h]
      obtain ⟨v, hv, e, h1, h2⟩ := ih v0
      refine ⟨v, ?_, e, h1, ?_⟩
      · rcases hv with rfl | hv
        · exact Or.inl rfl
        · exact Or.inr (List.mem_cons_of_mem _ hv)
      · intro w hw
        rcases List.mem_cons.mp hw with rfl | hw
        · exact (not_lt.mp h).trans h1
        · exact h2 w hw

theorem trackBest_spec (g : K → List K × K) (init : List K) (vs : List K) (hne : vs ≠ []) :
    ∃ v ∈ vs, trackBest g init vs = ((g v).1, some (g v).2) ∧ ∀ w ∈ vs, (g w).2 ≤ (g v).2 := by
  cases vs with
  | nil => exact absurd rfl hne
  | cons c cs =>
    obtain ⟨v, hv, e, h1, h2⟩ := trackFold_some g cs c
    refine ⟨v, ?_, ?_, ?_⟩
    · rcases hv with rfl | hv
      · exact List.mem_cons_self
      · exact List.mem_cons_of_mem _ hv
    · simpa [trackBest, trackStep] using e
    · intro w hw
      rcases List.mem_cons.mp hw with rfl | hw
      · exact h1
      · exact h2 w hw

variable [Add K] [Sub K] [Mul K] [Div K] [NatCast K]

theorem lineTrace_ne_nil (stops recs : Nat) (hs : 0 < stops) (f : K → K) (a b : K) :
    lineTrace stops recs f a b ≠ [] := by
  have hg : gen1 stops (a, b) ≠ [] := by
    obtain ⟨n, rfl⟩ : ∃ n, stops = n + 1 := ⟨stops - 1, by omega⟩
    simp [gen1, List.range_succ]
  cases recs with
  | zero => simpa [lineTrace, trace] using hg
  | succ r =>
    simp only [lineTrace, trace]
    intro h
    exact hg (List.append_eq_nil_iff.mp h).1

/-- The recursive line search returns an evaluated point whose value is at least the value of
every point of the N-dimensional objective it evaluated (at any depth). -/
theorem rls_spec (stops recs : Nat) (hs : 0 < stops) (f : List K → K) (mn mx : List K) (k : Nat)
    (pre : List K) (d : Nat) :
    ∃ y, (rlsMax stops recs f mn mx k pre d).2 = some y ∧
      y = f (rlsMax stops recs f mn mx k pre d).1 ∧
      (rlsMax stops recs f mn mx k pre d).1 ∈ rlsLeaves stops recs f mn mx k pre d ∧
      ∀ p ∈ rlsLeaves stops recs f mn mx k pre d, f p ≤ y := by
  induction k generalizing pre d with
  | zero => exact ⟨f pre, rfl, rfl, by simp [rlsMax, rlsLeaves], by simp [rlsLeaves]⟩
  | succ k ih =>
    simp only [rlsMax, rlsLeaves]
    set g : K → List K × K := fun v =>
      ((rlsMax stops recs f mn mx k (setDim pre d v) (d + 1)).1,
        (rlsMax stops recs f mn mx k (setDim pre d v) (d + 1)).2.getD ((0 : Nat) : K)) with hg
    set vs := lineTrace stops recs (fun v => (g v).2) (mn.getD d ((0 : Nat) : K)) (mx.getD d ((0 : Nat) : K))
    have hne : vs ≠ [] := lineTrace_ne_nil stops recs hs _ _ _
    obtain ⟨v, hv, e, hmax⟩ := trackBest_spec g
      ((List.zipWith (· + ·) mn mx).map (· * (((1 : Nat) : K) / ((2 : Nat) : K)))) vs hne
    rw [e]
    have hgv : ∀ w, (g w).2 = f (g w).1 ∧ (g w).1 ∈ rlsLeaves stops recs f mn mx k (setDim pre d w) (d + 1) ∧
        ∀ p ∈ rlsLeaves stops recs f mn mx k (setDim pre d w) (d + 1), f p ≤ (g w).2 := by
      intro w
      obtain ⟨y, e1, e2, e3, e4⟩ := ih (setDim pre d w) (d + 1)
      simp only [hg, e1, Option.getD_some]
      exact ⟨e2, e3, e4⟩
    refine ⟨(g v).2, rfl, (hgv v).1, ?_, ?_⟩
    · exact List.mem_flatMap.mpr ⟨v, hv, (hgv v).2.1⟩
    · intro p hp
      obtain ⟨w, hw, hpw⟩ := List.mem_flatMap.mp hp
      exact ((hgv w).2.2 p hpw).trans (hmax w hw)

end M3d.Search
