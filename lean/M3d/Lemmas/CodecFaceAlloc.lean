import M3d.Model.CodecFaceAlloc
import M3d.Lemmas.CodecSafe
/-! Ledger of the triangulator behind `ReadOFF` (C16): linear after repair 5aacb9a, quadratic before. -/
namespace M3d.Codec

theorem triLive_le (n : Nat) : triLive n ≤ 112 * n := by
  unfold triLive; omega

theorem faceCorners_lt (ln : Bytes) : faceCorners ln ≤ ln.length := by
  have := fields_length ln
  unfold faceCorners; omega

/-- the unrepaired ledger is quadratic: at least `16·(n² − 16)` -/
theorem triLiveUnrepaired_ge (n : Nat) : 16 * (n * n) ≤ triLiveUnrepaired n + 16 * 16 := by
  induction n with
  | zero => simp [triLiveUnrepaired]
  | succ n ih =>
    unfold triLiveUnrepaired
    split
    · have : n ≤ 2 := by omega
      have h2 : (n + 1) * (n + 1) ≤ 9 := by
        have : n + 1 ≤ 3 := by omega
        calc (n + 1) * (n + 1) ≤ 3 * 3 := Nat.mul_le_mul this this
          _ = 9 := rfl
      omega
    · have : (n + 1) * (n + 1) = n * n + 2 * n + 1 := by
        rw [Nat.add_mul, Nat.mul_add, Nat.mul_add]; omega
      omega

end M3d.Codec
