import M3d.Model.C01Search
import M3d.Model.McFan
import M3d.Lemmas.Bisect
import M3d.Lemmas.McLift
import M3d.Lemmas.MsLift
/-!
# The searched marching meshes are the lattice meshes under an INJECTIVE vertex map (property C01)

1. `searchCoord_rep`: the searched coordinate *represents* its doubled lattice coordinate — equal to the lattice
   value for an even one, STRICTLY between the two neighbouring lattice values for an odd one (whatever the solid
   answers, any number of iterations).
2. `rep_inj`: one value represents at most one doubled coordinate (lattice values are never strictly between two
   consecutive lattice values; open intervals of different edges are disjoint) ⇒ `searchPos_injective`.
3. Directed-edge counts, links and "is one simple cycle" are transported along any injective vertex map
   (`pecnt_map`, `plink_map`, `PFanCycle.map`), and vanish off its range.
-/
namespace M3d.C01Search
open M3d.Marching M3d.Bisect
set_option linter.unusedSectionVars false

/-! ### generic soup vocabulary over an arbitrary point type -/
section generic
variable {A B : Type} [DecidableEq A] [DecidableEq B]

def psides (t : A × A × A) : List (A × A) := [(t.1, t.2.1), (t.2.1, t.2.2), (t.2.2, t.1)]

/-- number of (triangle, side) pairs whose side runs `d.1 → d.2` -/
def pecnt (m : List (A × A × A)) (d : A × A) : Nat := (m.flatMap psides).countP fun e => decide (e = d)

def prot (V : A) (t : A × A × A) : Option (A × A) :=
  if t.1 = V then some (t.2.1, t.2.2)
  else if t.2.1 = V then some (t.2.2, t.1)
  else if t.2.2 = V then some (t.1, t.2.1)
  else none

/-- the link of `V`: one directed edge per incident triangle -/
def plink (V : A) (m : List (A × A × A)) : List (A × A) := m.filterMap (prot V)

def pcycleEdges : List A → List (A × A)
  | [] => []
  | a :: t => List.zip (a :: t) (t ++ [a])

/-- `es` is (a rearrangement of) the edges of ONE simple closed cycle -/
def PFanCycle (es : List (A × A)) : Prop := ∃ l : List A, l.Nodup ∧ es.Perm (pcycleEdges l)

/-- number of segments starting (`sel = false`) / ending (`sel = true`) at `v` -/
def pcnt (sel : Bool) (m : List (A × A)) (v : A) : Nat :=
  m.countP fun s => decide ((if sel then s.2 else s.1) = v)

theorem flatMap_psides_map (f : A → B) (m : List (A × A × A)) :
    (m.map (map3 f)).flatMap psides = (m.flatMap psides).map (map2 f) := by
  induction m with
  | nil => rfl
  | cons t m ih =>
    simp only [List.map_cons, List.flatMap_cons, List.map_append, ih]
    rfl

theorem pecnt_map (f : A → B) (hf : Function.Injective f) (m : List (A × A × A)) (U V : A) :
    pecnt (m.map (map3 f)) (f U, f V) = pecnt m (U, V) := by
  unfold pecnt
  rw [flatMap_psides_map, List.countP_map]
  apply List.countP_congr
  intro e _
  simp only [Function.comp, map2, decide_eq_true_eq, Prod.mk.injEq]
  constructor
  · rintro ⟨h1, h2⟩; exact Prod.ext (hf h1) (hf h2)
  · rintro h; rw [h]; exact ⟨rfl, rfl⟩

theorem pecnt_map_off (f : A → B) (m : List (A × A × A)) (p q : B)
    (h : ¬ ∃ U V, p = f U ∧ q = f V) : pecnt (m.map (map3 f)) (p, q) = 0 := by
  unfold pecnt
  rw [flatMap_psides_map, List.countP_map, List.countP_eq_zero]
  intro e _
  simp only [Function.comp, map2, decide_eq_true_eq, Prod.mk.injEq]
  rintro ⟨h1, h2⟩
  exact h ⟨e.1, e.2, h1.symm, h2.symm⟩

/-- edge balance is transported along an injective vertex map, at EVERY pair of points of the target -/
theorem balanced_map (f : A → B) (hf : Function.Injective f) (m : List (A × A × A))
    (hm : ∀ U V, pecnt m (U, V) = pecnt m (V, U) ∧ pecnt m (U, V) ≤ 1) (p q : B) :
    pecnt (m.map (map3 f)) (p, q) = pecnt (m.map (map3 f)) (q, p) ∧ pecnt (m.map (map3 f)) (p, q) ≤ 1 := by
  by_cases h : ∃ U V, p = f U ∧ q = f V
  · obtain ⟨U, V, rfl, rfl⟩ := h
    rw [pecnt_map f hf, pecnt_map f hf]
    exact hm U V
  · have h' : ¬ ∃ U V, q = f U ∧ p = f V := fun ⟨U, V, h1, h2⟩ => h ⟨V, U, h2, h1⟩
    rw [pecnt_map_off f m p q h, pecnt_map_off f m q p h']
    exact ⟨rfl, Nat.zero_le _⟩

theorem prot_map (f : A → B) (hf : Function.Injective f) (V : A) (t : A × A × A) :
    prot (f V) (map3 f t) = (prot V t).map (map2 f) := by
  unfold prot map3
  simp only [hf.eq_iff]
  split_ifs <;> rfl

theorem plink_map (f : A → B) (hf : Function.Injective f) (V : A) (m : List (A × A × A)) :
    plink (f V) (m.map (map3 f)) = (plink V m).map (map2 f) := by
  unfold plink
  induction m with
  | nil => rfl
  | cons t m ih =>
    simp only [List.map_cons, List.filterMap_cons, prot_map f hf, ih]
    cases prot V t <;> simp

theorem plink_map_off (f : A → B) (p : B) (m : List (A × A × A)) (h : ¬ ∃ V, p = f V) :
    plink p (m.map (map3 f)) = [] := by
  unfold plink
  rw [List.filterMap_eq_nil_iff]
  intro t ht
  obtain ⟨t0, _, rfl⟩ := List.mem_map.1 ht
  unfold prot map3
  have h1 : ¬ f t0.1 = p := fun e => h ⟨_, e.symm⟩
  have h2 : ¬ f t0.2.1 = p := fun e => h ⟨_, e.symm⟩
  have h3 : ¬ f t0.2.2 = p := fun e => h ⟨_, e.symm⟩
  simp [h1, h2, h3]

theorem pcycleEdges_map (f : A → B) (l : List A) :
    pcycleEdges (l.map f) = (pcycleEdges l).map (map2 f) := by
  cases l with
  | nil => rfl
  | cons a t =>
    simp only [List.map_cons, pcycleEdges]
    rw [show f a :: t.map f = (a :: t).map f from rfl,
      show t.map f ++ [f a] = (t ++ [a]).map f by simp, List.zip_map]
    apply List.map_congr_left
    intro x _
    rfl

theorem PFanCycle.map (f : A → B) (hf : Function.Injective f) {es : List (A × A)} (h : PFanCycle es) :
    PFanCycle (es.map (map2 f)) := by
  obtain ⟨l, hl, hp⟩ := h
  exact ⟨l.map f, hl.map hf, by rw [pcycleEdges_map]; exact hp.map _⟩

/-- "every non-empty link is one simple cycle" is transported along an injective vertex map -/
theorem fans_map (f : A → B) (hf : Function.Injective f) (m : List (A × A × A))
    (hm : ∀ V, plink V m ≠ [] → PFanCycle (plink V m)) (p : B) (hne : plink p (m.map (map3 f)) ≠ []) :
    PFanCycle (plink p (m.map (map3 f))) := by
  by_cases h : ∃ V, p = f V
  · obtain ⟨V, rfl⟩ := h
    rw [plink_map f hf] at hne ⊢
    exact (hm V (fun e => hne (by rw [e]; rfl))).map f hf
  · exact absurd (plink_map_off f p m h) hne

theorem pcnt_map (f : A → B) (hf : Function.Injective f) (sel : Bool) (m : List (A × A)) (v : A) :
    pcnt sel (m.map (map2 f)) (f v) = pcnt sel m v := by
  unfold pcnt
  rw [List.countP_map]
  apply List.countP_congr
  intro s _
  cases sel <;> simp [Function.comp, map2, hf.eq_iff]

theorem pcnt_map_off (f : A → B) (sel : Bool) (m : List (A × A)) (p : B) (h : ¬ ∃ v, p = f v) :
    pcnt sel (m.map (map2 f)) p = 0 := by
  unfold pcnt
  rw [List.countP_map, List.countP_eq_zero]
  intro s _
  cases sel
  · simp only [Function.comp, map2, decide_eq_true_eq, Bool.false_eq_true, if_false]
    exact fun e => h ⟨_, e.symm⟩
  · simp only [Function.comp, map2, decide_eq_true_eq, if_true]
    exact fun e => h ⟨_, e.symm⟩

theorem closed_map (f : A → B) (hf : Function.Injective f) (m : List (A × A))
    (hm : ∀ v, pcnt false m v = pcnt true m v ∧ pcnt false m v ≤ 1) (p : B) :
    pcnt false (m.map (map2 f)) p = pcnt true (m.map (map2 f)) p ∧ pcnt false (m.map (map2 f)) p ≤ 1 := by
  by_cases h : ∃ v, p = f v
  · obtain ⟨v, rfl⟩ := h
    rw [pcnt_map f hf, pcnt_map f hf]
    exact hm v
  · rw [pcnt_map_off f false m p h, pcnt_map_off f true m p h]
    exact ⟨rfl, Nat.zero_le _⟩

end generic

/-! ### the lattice vocabulary (`ecnt`, `glink`, `GFanCycle`, `cnt`) is the generic one at `GV` / `GV2` -/

theorem ecnt_eq_pecnt (m : List (GV × GV × GV)) (d : GV × GV) : ecnt m d = pecnt m d := by
  unfold ecnt pecnt
  apply List.countP_congr
  intro e _
  simp

theorem glink_eq_plink (V : GV) (m : List (GV × GV × GV)) : glink V m = plink V m := rfl

theorem gcycleEdges_eq (l : List GV) : gcycleEdges l = pcycleEdges l := by
  cases l <;> rfl

theorem gfanCycle_iff (es : List (GV × GV)) : GFanCycle es ↔ PFanCycle es := by
  unfold GFanCycle PFanCycle
  simp only [gcycleEdges_eq]

theorem cnt_eq_pcnt (sel : Bool) (m : List (GV2 × GV2)) (v : GV2) : cnt sel m v = pcnt sel m v := by
  unfold cnt pcnt
  apply List.countP_congr
  intro s _
  simp

/-! ### the searched position represents its lattice position -/
section field
variable {K : Type} [Field K] [LinearOrder K] [IsStrictOrderedRing K]

theorem bisect_result_between (P : K → Bool) (s : K × K) (n : Nat) (h : s.1 ≠ s.2) :
    min s.1 s.2 < mid (bisect P s n) ∧ mid (bisect P s n) < max s.1 s.2 := by
  have hn := bisect_nested P n s
  have hm := mid_strict_between (bisect P s n) (bisect_ends_ne P n s h)
  constructor
  · exact lt_of_le_of_lt (le_min hn.1.1 hn.2.1) hm.1
  · exact lt_of_lt_of_le hm.2 (max_le hn.1.2 hn.2.2)

/-- `mcSearchPoint`'s vertex lies strictly inside `(lo, hi)` -/
theorem mcSearchPoint_strict (P : K → Bool) (lo hi : K) (iters : Nat) (h : lo < hi) :
    lo < (mcSearchPoint P lo hi iters).1 ∧ (mcSearchPoint P lo hi iters).1 < hi := by
  have hdef : (mcSearchPoint P lo hi iters).1 = mid (bisect P (mcEnds P lo hi) iters) := rfl
  rw [hdef]
  unfold mcEnds
  by_cases hh : P hi = true
  · simp only [hh, if_true]
    have hb := bisect_result_between P (lo, hi) iters (ne_of_lt h)
    simp only [min_eq_left (le_of_lt h), max_eq_right (le_of_lt h)] at hb
    exact hb
  · simp only [hh]
    simp only [Bool.false_eq_true, if_false]
    have hb := bisect_result_between P (hi, lo) iters (ne_of_gt h)
    simp only [min_eq_right (le_of_lt h), max_eq_left (le_of_lt h)] at hb
    exact hb

/-- `msSearch`'s vertex lies strictly inside `(lo, hi)` -/
theorem msSearchPoint_strict (P : K → Bool) (lo hi : K) (np : Bool) (iters : Nat) (h : lo < hi) :
    lo < msSearchPoint P lo hi np iters ∧ msSearchPoint P lo hi np iters < hi := by
  unfold msSearchPoint msEnds
  cases np
  · simp only [Bool.false_eq_true, if_false]
    have hb := bisect_result_between P (lo, hi) iters (ne_of_lt h)
    simp only [min_eq_left (le_of_lt h), max_eq_right (le_of_lt h)] at hb
    exact hb
  · simp only [if_true]
    have hb := bisect_result_between P (hi, lo) iters (ne_of_gt h)
    simp only [min_eq_right (le_of_lt h), max_eq_left (le_of_lt h)] at hb
    exact hb

/-- `x` represents the doubled lattice coordinate `n` -/
def Rep (o δ : K) (n : Nat) (x : K) : Prop :=
  (n % 2 = 0 ∧ x = latCoord o δ (n / 2)) ∨
  (n % 2 = 1 ∧ latCoord o δ (n / 2) < x ∧ x < latCoord o δ (n / 2 + 1))

theorem latCoord_lt (o δ : K) (hδ : 0 < δ) {a b : Nat} (h : a < b) : latCoord o δ a < latCoord o δ b := by
  unfold latCoord
  have : (a : K) < (b : K) := by exact_mod_cast h
  nlinarith

theorem latCoord_le (o δ : K) (hδ : 0 < δ) {a b : Nat} (h : a ≤ b) : latCoord o δ a ≤ latCoord o δ b := by
  rcases Nat.lt_or_ge a b with h' | h'
  · exact le_of_lt (latCoord_lt o δ hδ h')
  · rw [Nat.le_antisymm h h']

theorem latCoord_inj (o δ : K) (hδ : 0 < δ) {a b : Nat} (h : latCoord o δ a = latCoord o δ b) : a = b := by
  rcases Nat.lt_trichotomy a b with h' | h' | h'
  · exact absurd h (ne_of_lt (latCoord_lt o δ hδ h'))
  · exact h'
  · exact absurd h (ne_of_gt (latCoord_lt o δ hδ h'))

/-- a value strictly between lattice planes `k` and `k+1` is no lattice value, and `k` is determined -/
theorem between_not_lat (o δ : K) (hδ : 0 < δ) {k j : Nat} {x : K}
    (h1 : latCoord o δ k < x) (h2 : x < latCoord o δ (k + 1)) : x ≠ latCoord o δ j := by
  intro e
  rw [e] at h1 h2
  rcases Nat.lt_or_ge k j with h | h
  · exact absurd (latCoord_le o δ hδ (Nat.succ_le_of_lt h)) (not_le.2 h2)
  · exact absurd (latCoord_le o δ hδ h) (not_le.2 h1)

theorem between_unique (o δ : K) (hδ : 0 < δ) {k j : Nat} {x : K}
    (h1 : latCoord o δ k < x) (h2 : x < latCoord o δ (k + 1))
    (h3 : latCoord o δ j < x) (h4 : x < latCoord o δ (j + 1)) : k = j := by
  rcases Nat.lt_trichotomy k j with h | h | h
  · exact absurd (lt_of_lt_of_le h2 (latCoord_le o δ hδ (Nat.succ_le_of_lt h))) (lt_asymm h3)
  · exact h
  · exact absurd (lt_of_lt_of_le h4 (latCoord_le o δ hδ (Nat.succ_le_of_lt h))) (lt_asymm h1)

/-- one value represents at most one doubled coordinate -/
theorem rep_inj (o δ : K) (hδ : 0 < δ) {n n' : Nat} {x : K} (h : Rep o δ n x) (h' : Rep o δ n' x) : n = n' := by
  rcases h with ⟨he, hx⟩ | ⟨ho, h1, h2⟩ <;> rcases h' with ⟨he', hx'⟩ | ⟨ho', h1', h2'⟩
  · have := latCoord_inj o δ hδ (hx.symm.trans hx')
    omega
  · exact absurd hx (between_not_lat o δ hδ h1' h2')
  · exact absurd hx' (between_not_lat o δ hδ h1 h2)
  · have := between_unique o δ hδ h1 h2 h1' h2'
    omega

theorem searchCoord_rep (o δ : K) (hδ : 0 < δ) (P : K → Bool) (iters n : Nat) :
    Rep o δ n (searchCoord o δ P iters n) := by
  unfold searchCoord Rep
  by_cases he : n % 2 = 0
  · left; simp [he]
  · right
    have ho : n % 2 = 1 := by omega
    simp only [he, if_false]
    exact ⟨ho, mcSearchPoint_strict P _ _ iters (latCoord_lt o δ hδ (Nat.lt_succ_self _))⟩

theorem searchCoord2_rep (o δ : K) (hδ : 0 < δ) (P : K → Bool) (np : Bool) (iters n : Nat) :
    Rep o δ n (searchCoord2 o δ P np iters n) := by
  unfold searchCoord2 Rep
  by_cases he : n % 2 = 0
  · left; simp [he]
  · right
    have ho : n % 2 = 1 := by omega
    simp only [he, if_false]
    exact ⟨ho, msSearchPoint_strict P _ _ np iters (latCoord_lt o δ hδ (Nat.lt_succ_self _))⟩

/-- **distinct lattice positions are searched to distinct points**, whatever the solid answers -/
theorem searchPos_injective (o : K × K × K) (δ : K) (hδ : 0 < δ) (solid : K × K × K → Bool) (iters : Nat) :
    Function.Injective (searchPos o δ solid iters) := by
  intro U V h
  unfold searchPos at h
  simp only [Prod.mk.injEq] at h
  obtain ⟨h1, h2, h3⟩ := h
  have r1 := rep_inj o.1 δ hδ (searchCoord_rep o.1 δ hδ _ iters U.1) (h1 ▸ searchCoord_rep o.1 δ hδ _ iters V.1)
  have r2 := rep_inj o.2.1 δ hδ (searchCoord_rep o.2.1 δ hδ _ iters U.2.1)
    (h2 ▸ searchCoord_rep o.2.1 δ hδ _ iters V.2.1)
  have r3 := rep_inj o.2.2 δ hδ (searchCoord_rep o.2.2 δ hδ _ iters U.2.2)
    (h3 ▸ searchCoord_rep o.2.2 δ hδ _ iters V.2.2)
  exact Prod.ext r1 (Prod.ext r2 r3)

theorem searchPos2_injective (o : K × K) (δ : K) (hδ : 0 < δ) (solid : K × K → Bool) (np : GV2 → Bool)
    (iters : Nat) : Function.Injective (searchPos2 o δ solid np iters) := by
  intro U V h
  unfold searchPos2 at h
  simp only [Prod.mk.injEq] at h
  obtain ⟨h1, h2⟩ := h
  have r1 := rep_inj o.1 δ hδ (searchCoord2_rep o.1 δ hδ _ _ iters U.1) (h1 ▸ searchCoord2_rep o.1 δ hδ _ _ iters V.1)
  have r2 := rep_inj o.2 δ hδ (searchCoord2_rep o.2 δ hδ _ _ iters U.2) (h2 ▸ searchCoord2_rep o.2 δ hδ _ _ iters V.2)
  exact Prod.ext r1 r2

/-- with a solid that is inside only AT `a`, the inside end of the bracket never moves -/
theorem bisect_stuck (a : K) (n : Nat) : ∀ f : K, f ≠ a →
    (bisect (fun t => decide (t = a)) (f, a) n).2 = a := by
  induction n with
  | zero => intro f _; rfl
  | succ n ih =>
    intro f hf
    have hm : mid (f, a) ≠ a := by
      unfold mid
      intro e
      apply hf
      have : f + a = 2 * a := by
        have h2 : (2 : K) ≠ 0 := two_ne_zero
        field_simp at e
        linarith
      linarith
    simp only [bisect, step, decide_eq_true_eq, hm, if_false]
    exact ih _ hm

theorem interiorCoord_collapse (o δ : K) (hδ : 0 < δ) (iters : Nat) :
    interiorCoord o δ (fun t => decide (t = o)) iters 1 = o := by
  have h0 : latCoord o δ 0 = o := by unfold latCoord; simp
  have h1 : latCoord o δ 1 ≠ o := by unfold latCoord; simp; exact ne_of_gt hδ
  unfold interiorCoord
  simp only [show (1 : Nat) % 2 ≠ 0 by decide, if_false, show (1 : Nat) / 2 = 0 by decide, Nat.zero_add, h0]
  unfold mcSearchPoint
  simp only [decide_eq_true_eq, h1, if_false]
  exact bisect_stuck o iters _ h1

theorem interiorPos_collapse (o : K × K × K) (δ : K) (hδ : 0 < δ) (iters : Nat) :
    interiorPos o δ (fun p => decide (p = o)) iters (1, 0, 0) =
      interiorPos o δ (fun p => decide (p = o)) iters (0, 1, 0) := by
  have h0 : ∀ a : K, latCoord a δ 0 = a := fun a => by unfold latCoord; simp
  have e1 := interiorCoord_collapse o.1 δ hδ iters
  have e2 := interiorCoord_collapse o.2.1 δ hδ iters
  unfold interiorPos
  simp only [show (1 : Nat) / 2 = 0 by decide, show (0 : Nat) / 2 = 0 by decide, h0]
  have c1 : (fun t => decide ((t, o.2.1, o.2.2) = o)) = fun t => decide (t = o.1) := by
    funext t; congr 1; apply propext; constructor
    · intro h; exact (Prod.ext_iff.1 h).1
    · intro h; rw [h]
  have c2 : (fun t => decide ((o.1, t, o.2.2) = o)) = fun t => decide (t = o.2.1) := by
    funext t; congr 1; apply propext; constructor
    · intro h; exact (Prod.ext_iff.1 (Prod.ext_iff.1 h).2).1
    · intro h; rw [h]
  rw [c1, c2, e1, e2]
  simp [interiorCoord, h0]

end field

end M3d.C01Search
