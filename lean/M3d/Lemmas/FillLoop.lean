import M3d.Lemmas.MeshOps
/-!
`fillLoop` (re-triangulation of the hole left by a removed vertex, any chord oracle): the
boundary of the returned triangles is exactly the reversed loop — the induction over the index
arithmetic of `newSubloop`.  Core-only.
-/
namespace M3d.MeshOps
open M3d.Surface

theorem split_ij (l : List Nat) (i j : Nat) (h1 : i + 2 ≤ j) (h2 : j < l.length) :
    ∃ (A B D : List Nat) (x y : Nat), l = A ++ x :: B ++ y :: D ∧ A.length = i ∧ B.length = j - i - 1 := by
  refine ⟨l.take i, (l.drop (i + 1)).take (j - i - 1), l.drop (j + 1), l[i]'(by omega), l[j], ?_, ?_, ?_⟩
  · have e1 : l = l.take i ++ l.drop i := (List.take_append_drop i l).symm
    have e2 : l.drop i = l[i]'(by omega) :: l.drop (i + 1) := List.drop_eq_getElem_cons (by omega)
    have e3 : l.drop (i + 1) = (l.drop (i + 1)).take (j - i - 1) ++ (l.drop (i + 1)).drop (j - i - 1) :=
      (List.take_append_drop _ _).symm
    have e4 : (l.drop (i + 1)).drop (j - i - 1) = l.drop j := by
      rw [List.drop_drop]; congr 1; omega
    have e5 : l.drop j = l[j] :: l.drop (j + 1) := List.drop_eq_getElem_cons h2
    rw [e4, e5] at e3
    rw [e3] at e2
    rw [e2] at e1
    simpa using e1
  · simp; omega
  · simp; omega

/-- The two sub-loops `newSubloop(i, j)` and `newSubloop(j, i)` of `l = A ++ x :: B ++ y :: D`
(`x = l[i]`, `y = l[j]`) are `x B y` and `y D A x`. -/
theorem loops_of_split (A B D : List Nat) (x y : Nat) (i j : Nat) (hA : A.length = i) (hB : B.length = j - i - 1)
    (h1 : i + 2 ≤ j) :
    ((A ++ x :: B ++ y :: D).drop i).take (j - i + 1) = x :: (B ++ [y]) ∧
    (A ++ x :: B ++ y :: D).drop j ++ (A ++ x :: B ++ y :: D).take (i + 1) = y :: (D ++ (A ++ [x])) := by
  subst hA
  constructor
  · have : (A ++ x :: B ++ y :: D) = A ++ (x :: B ++ y :: D) := by simp
    rw [this, List.drop_left]
    have : j - A.length + 1 = (x :: B).length + 1 := by simp; omega
    rw [this]
    simp [List.take_append, List.take_of_length_le]
  · have e : (A ++ x :: B ++ y :: D) = (A ++ x :: B) ++ (y :: D) := by simp
    have hj : j = (A ++ x :: B).length := by simp; omega
    have e2 : (A ++ x :: B ++ y :: D) = A ++ [x] ++ (B ++ y :: D) := by simp
    have hi : A.length + 1 = (A ++ [x]).length := by simp
    rw [hj]
    conv => lhs; arg 1; rw [e, List.drop_left]
    conv => lhs; arg 2; rw [e2, hi, List.take_left]
    simp

/-- A multiset of directed edges that contains every edge as often as its reverse. -/
def SymEdges (I : List Edge) : Prop := I.Perm (I.map swap)

theorem symEdges_pair (x y : Nat) : SymEdges [(x, y), (y, x)] := List.Perm.swap _ _ _

theorem SymEdges.append {I J : List Edge} (hI : SymEdges I) (hJ : SymEdges J) : SymEdges (I ++ J) := by
  unfold SymEdges
  rw [List.map_append]
  exact List.Perm.append hI hJ

/-- **`fill_loop_boundary`**: for every chord oracle, every fuel and every loop, if `fillLoop`
succeeds the directed edges of its triangles are the loop edges REVERSED (once each) plus
internal chord edges, each as often as its reverse — so gluing the filling into the hole (whose
rim is the loop) cancels every edge. -/
theorem fillLoop_boundary (chord : List Nat → Option (Nat × Nat)) :
    ∀ (fuel : Nat) (l : List Nat) (ts : List Tri), fillLoop chord fuel l = some ts →
      ∃ I, (dirEdges ts).Perm ((cycleEdges l).map swap ++ I) ∧ SymEdges I := by
  intro fuel
  induction fuel with
  | zero => intro l ts h; simp [fillLoop] at h
  | succ fuel ih =>
    intro l ts h
    unfold fillLoop at h
    split at h
    · -- a loop of three: the single triangle (a, c, b)
      rename_i a b c
      cases h
      refine ⟨[], ?_, List.Perm.refl _⟩
      simp only [dirEdges, List.flatMap_cons, List.flatMap_nil, List.append_nil, triEdges, cycleEdges,
        List.zip_cons_cons, List.cons_append, List.nil_append, List.zip_nil_right, List.map_cons, List.map_nil, swap]
      exact List.reverse_perm [(b, a), (c, b), (a, c)]
    · split at h
      · cases h
      · split at h
        · cases h
        · rename_i i j hch
          split at h
          · rename_i hij
            obtain ⟨h1, h2, h3⟩ := hij
            obtain ⟨A, B, D, x, y, hl, hA, hB⟩ := split_ij l i j h1 h2
            obtain ⟨e1, e2⟩ := loops_of_split A B D x y i j hA hB h1
            rw [hl] at h
            rw [e1, e2] at h
            cases hf1 : fillLoop chord fuel (x :: (B ++ [y])) with
            | none => simp [hf1] at h
            | some t1 =>
              cases hf2 : fillLoop chord fuel (y :: (D ++ (A ++ [x]))) with
              | none => simp [hf1, hf2] at h
              | some t2 =>
                simp only [hf1, hf2, Option.some.injEq] at h
                subst h
                obtain ⟨I1, p1, s1⟩ := ih _ _ hf1
                obtain ⟨I2, p2, s2⟩ := ih _ _ hf2
                refine ⟨[(x, y), (y, x)] ++ (I1 ++ I2), ?_, (symEdges_pair x y).append (s1.append s2)⟩
                -- loop edges
                have hsplit := split_loop_edges x y B (D ++ A)
                have hrot := cycleEdges_rotate A (B ++ y :: D) x
                have el : l = A ++ x :: (B ++ y :: D) := by rw [hl]; simp
                have e3 : x :: (B ++ y :: D) ++ A = x :: B ++ y :: (D ++ A) := by simp
                have e4 : y :: (D ++ (A ++ [x])) = y :: (D ++ A) ++ [x] := by simp
                have e5 : x :: (B ++ [y]) = x :: B ++ [y] := rfl
                rw [e3] at hrot
                rw [← el] at hrot
                rw [e4] at p2
                rw [e5] at p1
                have hc : (cycleEdges (x :: B ++ [y]) ++ cycleEdges (y :: (D ++ A) ++ [x])).Perm
                    (cycleEdges l ++ [(y, x), (x, y)]) := hsplit.trans (List.Perm.append_right _ hrot.symm)
                have hcs := hc.map swap
                simp only [List.map_append, List.map_cons, List.map_nil] at hcs
                have hyx : swap (y, x) = (x, y) := rfl
                have hxy : swap (x, y) = (y, x) := rfl
                rw [hyx, hxy] at hcs
                -- assemble
                have d : dirEdges (t1 ++ t2) = dirEdges t1 ++ dirEdges t2 := by simp [dirEdges]
                rw [d]
                refine (p1.append p2).trans ?_
                -- (C1 ++ I1) ++ (C2 ++ I2) ~ (C1 ++ C2) ++ (I1 ++ I2)
                have r1 : ((cycleEdges (x :: B ++ [y])).map swap ++ I1 ++
                    ((cycleEdges (y :: (D ++ A) ++ [x])).map swap ++ I2)).Perm
                    (((cycleEdges (x :: B ++ [y])).map swap ++ (cycleEdges (y :: (D ++ A) ++ [x])).map swap) ++ (I1 ++ I2)) := by
                  rw [List.append_assoc, List.append_assoc]
                  apply List.Perm.append_left
                  rw [← List.append_assoc, ← List.append_assoc]
                  exact List.Perm.append_right _ List.perm_append_comm
                refine r1.trans ?_
                refine (List.Perm.append_right _ hcs).trans ?_
                rw [List.append_assoc]
          · cases h

end M3d.MeshOps
