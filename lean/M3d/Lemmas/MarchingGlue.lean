import M3d.Model.MarchingGlue
import M3d.Lemmas.Transform
import M3d.Lemmas.Transform2
import M3d.Lemmas.MarchingFilter
import Mathlib.Tactic.Linarith
import Mathlib.Tactic.Ring
import Mathlib.Algebra.Order.Field.Basic
/-!
Lemmas for `M3d/Model/MarchingGlue.lean` (C02): the vertex map of `MarchingCubesConj` /
`MarchingSquaresConj` inverts the joined transform (the members' inverses last to first), and the region
filter of `MarchingSquaresC2F` / `MarchingCubesC2F` is a sound block oracle whenever the coarse mesh has a
vertex within the total margin of every fine lattice edge whose ends are labelled differently.
-/
namespace M3d.MarchingGlue
open M3d.Tf M3d.Marching M3d.Partition M3d.MarchingFilter

set_option linter.unusedSectionVars false
variable {K : Type} [Field K] [LinearOrder K] [IsStrictOrderedRing K]

/-! ### Conj -/

theorem ofList_valid (ts : List (Xf K)) (hv : ∀ t ∈ ts, t.Valid) : (Xf.ofList ts).Valid := by
  induction ts with
  | nil => trivial
  | cons t ts ih =>
      exact ⟨hv t (List.mem_cons_self), ih (fun u hu => hv u (List.mem_cons_of_mem _ hu))⟩

theorem ofList2_valid (ts : List (Xf2 K)) (hv : ∀ t ∈ ts, t.Valid) : (Xf2.ofList ts).Valid := by
  induction ts with
  | nil => trivial
  | cons t ts ih =>
      exact ⟨hv t (List.mem_cons_self), ih (fun u hu => hv u (List.mem_cons_of_mem _ hu))⟩

theorem ofList_apply (ts : List (Xf K)) (p : V3 K) :
    (Xf.ofList ts).apply p = ts.foldl (fun c t => t.apply c) p := by
  induction ts generalizing p with
  | nil => rfl
  | cons t ts ih => simp only [Xf.ofList, Xf.apply, ih, List.foldl_cons]

theorem ofList2_apply (ts : List (Xf2 K)) (p : V2 K) :
    (Xf2.ofList ts).apply p = ts.foldl (fun c t => t.apply c) p := by
  induction ts generalizing p with
  | nil => rfl
  | cons t ts ih => simp only [Xf2.ofList, Xf2.apply, ih, List.foldl_cons]

/-- `joined.Inverse().Apply`: the members' inverses, LAST member first -/
theorem conjBack3_eq (ts : List (Xf K)) (v : V3 K) :
    conjBack3 ts v = ts.foldr (fun t c => t.inverse.apply c) v := by
  unfold conjBack3
  induction ts generalizing v with
  | nil => rfl
  | cons t ts ih =>
      simp only [Xf.ofList, Xf.inverse, Xf.apply_snoc, List.foldr_cons, ih]

theorem conjBack2_eq (ts : List (Xf2 K)) (v : V2 K) :
    conjBack2 ts v = ts.foldr (fun t c => t.inverse.apply c) v := by
  unfold conjBack2
  induction ts generalizing v with
  | nil => rfl
  | cons t ts ih =>
      simp only [Xf2.ofList, Xf2.inverse, Xf2.apply_snoc, List.foldr_cons, ih]


/-- the label of a point of the transformed space is the solid's answer at its pre-image (a solid inside
its own bounds) -/
theorem conjSolid3_contains (ts : List (Xf K)) (hv : ∀ t ∈ ts, t.Valid) (s : Solid K)
    (hs : ∀ x, s.contains x = true → Box s.lo s.hi x) (p : V3 K) :
    (conjSolid3 ts s).contains p = s.contains (conjBack3 ts p) := by
  have hval := ofList_valid ts hv
  unfold conjSolid3 conjBack3
  simp only [transformSolid]
  cases hc : s.contains ((Xf.ofList ts).inverse.apply p) with
  | false => simp
  | true =>
      have h1 := Xf.applyBounds_encloses (Xf.ofList ts) (Xf.valid_boundsOK _ hval) s.lo s.hi _ (hs _ hc)
      rw [Xf.apply_inverse _ hval] at h1
      have := (inBounds_iff _ _ _).mpr h1
      simp [this]

theorem conjSolid2_contains (ts : List (Xf2 K)) (hv : ∀ t ∈ ts, t.Valid) (s : Solid2 K)
    (hs : ∀ x, s.contains x = true → Box2 s.lo s.hi x) (p : V2 K) :
    (conjSolid2 ts s).contains p = s.contains (conjBack2 ts p) := by
  have hval := ofList2_valid ts hv
  unfold conjSolid2 conjBack2
  simp only [transformSolid2]
  cases hc : s.contains ((Xf2.ofList ts).inverse.apply p) with
  | false => simp
  | true =>
      have h1 := Xf2.applyBounds_encloses (Xf2.ofList ts) s.lo s.hi _ (hs _ hc)
      rw [Xf2.apply_inverse _ hval] at h1
      have := (inBounds2_iff _ _ _).mpr h1
      simp [this]

/-! ### coarse-to-fine: a block whose neighbouring lattice points all agree is constant -/

theorem block2_const_of_edges (lab : Nat → Nat → Bool) (b : Block2)
    (hx : ∀ i j, b.x0 ≤ i → i + 1 ≤ b.x1 → b.y0 ≤ j → j ≤ b.y1 → lab i j = lab (i + 1) j)
    (hy : ∀ i j, b.x0 ≤ i → i ≤ b.x1 → b.y0 ≤ j → j + 1 ≤ b.y1 → lab i j = lab i (j + 1)) :
    ∀ x y, b.x0 ≤ x → x ≤ b.x1 → b.y0 ≤ y → y ≤ b.y1 → lab x y = lab b.x0 b.y0 := by
  have row : ∀ n, b.x0 + n ≤ b.x1 → b.y0 ≤ b.y1 → lab (b.x0 + n) b.y0 = lab b.x0 b.y0 := by
    intro n
    induction n with
    | zero => intro _ _; rfl
    | succ n ih =>
        intro h1 h2
        rw [← ih (by omega) h2]
        exact (hx (b.x0 + n) b.y0 (by omega) (by omega) (Nat.le_refl _) h2).symm
  have col : ∀ x, b.x0 ≤ x → x ≤ b.x1 → ∀ n, b.y0 + n ≤ b.y1 → lab x (b.y0 + n) = lab x b.y0 := by
    intro x hx0 hx1 n
    induction n with
    | zero => intro _; rfl
    | succ n ih =>
        intro h1
        rw [← ih (by omega)]
        exact (hy x (b.y0 + n) hx0 hx1 (by omega) (by omega)).symm
  intro x y hx0 hx1 hy0 hy1
  have e1 := col x hx0 hx1 (y - b.y0) (by omega)
  have e2 := row (x - b.x0) (by omega) (by omega)
  rw [show b.y0 + (y - b.y0) = y by omega] at e1
  rw [show b.x0 + (x - b.x0) = x by omega] at e2
  rw [e1, e2]

theorem block3_const_of_edges (lab : Nat → Nat → Nat → Bool) (b : Block)
    (hx : ∀ i j k, b.x0 ≤ i → i + 1 ≤ b.x1 → b.y0 ≤ j → j ≤ b.y1 → b.z0 ≤ k → k ≤ b.z1 →
      lab i j k = lab (i + 1) j k)
    (hy : ∀ i j k, b.x0 ≤ i → i ≤ b.x1 → b.y0 ≤ j → j + 1 ≤ b.y1 → b.z0 ≤ k → k ≤ b.z1 →
      lab i j k = lab i (j + 1) k)
    (hz : ∀ i j k, b.x0 ≤ i → i ≤ b.x1 → b.y0 ≤ j → j ≤ b.y1 → b.z0 ≤ k → k + 1 ≤ b.z1 →
      lab i j k = lab i j (k + 1)) :
    ∀ x y z, b.x0 ≤ x → x ≤ b.x1 → b.y0 ≤ y → y ≤ b.y1 → b.z0 ≤ z → z ≤ b.z1 →
      lab x y z = lab b.x0 b.y0 b.z0 := by
  have row : ∀ n, b.x0 + n ≤ b.x1 → b.y0 ≤ b.y1 → b.z0 ≤ b.z1 →
      lab (b.x0 + n) b.y0 b.z0 = lab b.x0 b.y0 b.z0 := by
    intro n
    induction n with
    | zero => intro _ _ _; rfl
    | succ n ih =>
        intro h1 h2 h3
        rw [← ih (by omega) h2 h3]
        exact (hx (b.x0 + n) b.y0 b.z0 (by omega) (by omega) (Nat.le_refl _) h2 (Nat.le_refl _) h3).symm
  have col : ∀ x, b.x0 ≤ x → x ≤ b.x1 → ∀ n, b.y0 + n ≤ b.y1 → b.z0 ≤ b.z1 →
      lab x (b.y0 + n) b.z0 = lab x b.y0 b.z0 := by
    intro x hx0 hx1 n
    induction n with
    | zero => intro _ _; rfl
    | succ n ih =>
        intro h1 h3
        rw [← ih (by omega) h3]
        exact (hy x (b.y0 + n) b.z0 hx0 hx1 (by omega) (by omega) (Nat.le_refl _) h3).symm
  have pil : ∀ x y, b.x0 ≤ x → x ≤ b.x1 → b.y0 ≤ y → y ≤ b.y1 → ∀ n, b.z0 + n ≤ b.z1 →
      lab x y (b.z0 + n) = lab x y b.z0 := by
    intro x y hx0 hx1 hy0 hy1 n
    induction n with
    | zero => intro _; rfl
    | succ n ih =>
        intro h1
        rw [← ih (by omega)]
        exact (hz x y (b.z0 + n) hx0 hx1 hy0 hy1 (by omega) (by omega)).symm
  intro x y z hx0 hx1 hy0 hy1 hz0 hz1
  have e0 := pil x y hx0 hx1 hy0 hy1 (z - b.z0) (by omega)
  have e1 := col x hx0 hx1 (y - b.y0) (by omega) (by omega)
  have e2 := row (x - b.x0) (by omega) (by omega) (by omega)
  rw [show b.z0 + (z - b.z0) = z by omega] at e0
  rw [show b.y0 + (y - b.y0) = y by omega] at e1
  rw [show b.x0 + (x - b.x0) = x by omega] at e2
  rw [e0, e1, e2]

/-! ### the expanded rectangle catches a vertex near one of its points -/

theorem within_iff (a b D : K) : within a b D = true ↔ |a - b| ≤ D := by
  unfold within
  simp only [Bool.and_eq_true, decide_eq_true_eq, abs_le]
  constructor
  · rintro ⟨h1, h2⟩; constructor <;> linarith
  · rintro ⟨h1, h2⟩; constructor <;> linarith

theorem expand2_has (r : Rect2 K) (x y wx wy D e : K) (hr : r.Has x y) (hD : D ≤ e)
    (h1 : |wx - x| ≤ D) (h2 : |wy - y| ≤ D) : (rectExpand2 r e).Has wx wy := by
  obtain ⟨a1, a2, a3, a4⟩ := hr
  have b1 := abs_le.1 h1
  have b2 := abs_le.1 h2
  unfold rectExpand2 Rect2.Has
  refine ⟨?_, ?_, ?_, ?_⟩ <;> simp only <;> linarith [b1.1, b1.2, b2.1, b2.2]

theorem expand3_has (r : Rect3 K) (x y z wx wy wz D e : K) (hr : r.Has x y z) (hD : D ≤ e)
    (h1 : |wx - x| ≤ D) (h2 : |wy - y| ≤ D) (h3 : |wz - z| ≤ D) : (rectExpand3 r e).Has wx wy wz := by
  obtain ⟨a1, a2, a3, a4, a5, a6⟩ := hr
  have b1 := abs_le.1 h1
  have b2 := abs_le.1 h2
  have b3 := abs_le.1 h3
  unfold rectExpand3 Rect3.Has
  refine ⟨?_, ?_, ?_, ?_, ?_, ?_⟩ <;> simp only <;> linarith [b1.1, b1.2, b2.1, b2.2, b3.1, b3.2]

/-- **The filter of `MarchingSquaresC2F` is a sound block oracle.**  `W` = the vertices of the coarse
mesh, `F` = the user-visible filter `r ↦ collider.RectCollision(r.Expand(e))`, of which only this is
used: a rectangle whose expansion contains a vertex of the coarse mesh is reported (`hF`).  If every
fine lattice point from which a lattice edge with differently labelled ends starts has a coarse vertex
within `D ≤ e` (max-norm), a rejected block has one label on all its lattice points. -/
theorem c2f_point_sound2 (C : K → K → Bool) (X Y : Nat → K) (hX : ∀ i j, i ≤ j → X i ≤ X j)
    (hY : ∀ i j, i ≤ j → Y i ≤ Y j) (eps : K) (he : 0 ≤ eps) (W : List (K × K)) (e D : K) (hD : D ≤ e)
    (F : Rect2 K → Bool)
    (hF : ∀ r w, w ∈ W → (rectExpand2 r e).Has w.1 w.2 → F r = true)
    (nx ny : Nat)
    (hnear : ∀ i j, i ≤ nx → j ≤ ny →
      ((i + 1 ≤ nx ∧ C (X i) (Y j) ≠ C (X (i + 1)) (Y j)) ∨ (j + 1 ≤ ny ∧ C (X i) (Y j) ≠ C (X i) (Y (j + 1)))) →
      nearVertex2 W D (X i) (Y j) = true) :
    PointSound2 nx ny (fun i j => C (X i) (Y j)) (fun b => F (blockBounds2 X Y eps b)) := by
  intro b hw hb
  simp only at hb
  obtain ⟨w1, w2, w3, w4⟩ := hw
  have key : ∀ i j, b.x0 ≤ i → i ≤ b.x1 → b.y0 ≤ j → j ≤ b.y1 →
      nearVertex2 W D (X i) (Y j) = true → False := by
    intro i j h1 h2 h3 h4 hn
    unfold nearVertex2 at hn
    obtain ⟨w, hwW, hw⟩ := List.any_eq_true.1 hn
    simp only [Bool.and_eq_true, within_iff] at hw
    have := hF _ w hwW (expand2_has _ (X i) (Y j) w.1 w.2 D e
      (blockBounds2_has X Y hX hY eps he b i j h1 h2 h3 h4) hD hw.1 hw.2)
    rw [this] at hb
    exact Bool.noConfusion hb
  apply block2_const_of_edges (fun i j => C (X i) (Y j)) b
  · intro i j h1 h2 h3 h4
    by_contra hne
    exact key i j h1 (by omega) h3 h4 (hnear i j (by omega) (by omega) (Or.inl ⟨by omega, hne⟩))
  · intro i j h1 h2 h3 h4
    by_contra hne
    exact key i j h1 h2 h3 (by omega) (hnear i j (by omega) (by omega) (Or.inr ⟨by omega, hne⟩))

/-- 3-D twin: the filter of `MarchingCubesC2F`. -/
theorem c2f_point_sound3 (C : K → K → K → Bool) (X Y Z : Nat → K) (hX : ∀ i j, i ≤ j → X i ≤ X j)
    (hY : ∀ i j, i ≤ j → Y i ≤ Y j) (hZ : ∀ i j, i ≤ j → Z i ≤ Z j) (eps : K) (he : 0 ≤ eps)
    (W : List (K × K × K)) (e D : K) (hD : D ≤ e) (F : Rect3 K → Bool)
    (hF : ∀ r w, w ∈ W → (rectExpand3 r e).Has w.1 w.2.1 w.2.2 → F r = true)
    (nx ny nz : Nat)
    (hnear : ∀ i j k, i ≤ nx → j ≤ ny → k ≤ nz →
      ((i + 1 ≤ nx ∧ C (X i) (Y j) (Z k) ≠ C (X (i + 1)) (Y j) (Z k)) ∨
       (j + 1 ≤ ny ∧ C (X i) (Y j) (Z k) ≠ C (X i) (Y (j + 1)) (Z k)) ∨
       (k + 1 ≤ nz ∧ C (X i) (Y j) (Z k) ≠ C (X i) (Y j) (Z (k + 1)))) →
      nearVertex3 W D (X i) (Y j) (Z k) = true) :
    PointSound3 nx ny nz (fun i j k => C (X i) (Y j) (Z k)) (fun b => F (blockBounds3 X Y Z eps b)) := by
  intro b hw hb
  simp only at hb
  obtain ⟨w1, w2, w3, w4, w5, w6⟩ := hw
  have key : ∀ i j k, b.x0 ≤ i → i ≤ b.x1 → b.y0 ≤ j → j ≤ b.y1 → b.z0 ≤ k → k ≤ b.z1 →
      nearVertex3 W D (X i) (Y j) (Z k) = true → False := by
    intro i j k h1 h2 h3 h4 h5 h6 hn
    unfold nearVertex3 at hn
    obtain ⟨w, hwW, hw⟩ := List.any_eq_true.1 hn
    simp only [Bool.and_eq_true, within_iff] at hw
    have := hF _ w hwW (expand3_has _ (X i) (Y j) (Z k) w.1 w.2.1 w.2.2 D e
      (blockBounds3_has X Y Z hX hY hZ eps he b i j k h1 h2 h3 h4 h5 h6) hD hw.1.1 hw.1.2 hw.2)
    rw [this] at hb
    exact Bool.noConfusion hb
  apply block3_const_of_edges (fun i j k => C (X i) (Y j) (Z k)) b
  · intro i j k h1 h2 h3 h4 h5 h6
    by_contra hne
    exact key i j k h1 (by omega) h3 h4 h5 h6
      (hnear i j k (by omega) (by omega) (by omega) (Or.inl ⟨by omega, hne⟩))
  · intro i j k h1 h2 h3 h4 h5 h6
    by_contra hne
    exact key i j k h1 h2 h3 (by omega) h5 h6
      (hnear i j k (by omega) (by omega) (by omega) (Or.inr (Or.inl ⟨by omega, hne⟩)))
  · intro i j k h1 h2 h3 h4 h5 h6
    by_contra hne
    exact key i j k h1 h2 h3 h4 h5 (by omega)
      (hnear i j k (by omega) (by omega) (by omega) (Or.inr (Or.inr ⟨by omega, hne⟩)))

end M3d.MarchingGlue
