import M3d.Model.ArapRot
import Mathlib.Tactic.Ring
import Mathlib.Tactic.LinearCombination
import Mathlib.Tactic.Linarith
import Mathlib.Tactic.Positivity
/-!
Lemmas about `M3d/Model/ArapRot.lean` (the repair step of `ARAP.rotations`): 3×3 matrix algebra on
`Mat3` (associativity, determinant of a product / transpose), orthogonal matrices, and
`rotOf u v = v (u · diag(1, 1, σ))^T` with `σ = -1` iff `det(v u^T) < 0`.
-/
set_option linter.unusedVariables false
set_option linter.unusedSimpArgs false
set_option linter.unusedSectionVars false
namespace M3d.ArapRot
open M3d.MeshOps M3d.ArapLin

variable {K : Type} [Field K]

theorem mul_assoc' (a b c : Mat3 K) : mul (mul a b) c = mul a (mul b c) := by
  simp only [mul, Mat3.mk.injEq]; refine ⟨?_, ?_, ?_, ?_, ?_, ?_, ?_, ?_, ?_⟩ <;> ring

theorem det_mul (a b : Mat3 K) : det (mul a b) = det a * det b := by
  simp only [det, mul]; ring

theorem det_transpose (a : Mat3 K) : det (transpose a) = det a := by
  simp only [det, transpose]; ring

theorem det_one : det (one : Mat3 K) = 1 := by simp [det, one]

theorem det_diag (a b c : K) : det (diag a b c) = a * b * c := by simp only [det, diag]; ring

theorem transpose_mul (a b : Mat3 K) : transpose (mul a b) = mul (transpose b) (transpose a) := by
  simp only [mul, transpose, Mat3.mk.injEq]; refine ⟨?_, ?_, ?_, ?_, ?_, ?_, ?_, ?_, ?_⟩ <;> ring

theorem transpose_transpose (a : Mat3 K) : transpose (transpose a) = a := rfl

theorem transpose_diag (a b c : K) : transpose (diag a b c) = diag a b c := rfl

theorem transpose_one : transpose (one : Mat3 K) = one := rfl

theorem mul_one' (a : Mat3 K) : mul a one = a := by
  cases a; simp [mul, one]

theorem one_mul' (a : Mat3 K) : mul one a = a := by
  cases a; simp [mul, one]

theorem diag_one : diag (1 : K) 1 1 = one := rfl

theorem negCol2_eq (u : Mat3 K) : negCol 2 u = mul u (diag 1 1 (-1)) := by
  cases u; simp [negCol, mul, diag]

theorem mulCol_col (m n : Mat3 K) (k : Nat) : Mat3.mulCol m (col n k) = col (mul m n) k := by
  unfold col; split <;> simp [Mat3.mulCol, mul]

theorem col_mul_diag0 (v : Mat3 K) (a b c : K) : col (mul v (diag a b c)) 0 = (col v 0).scale a := by
  simp [col, mul, diag, V3.scale]

theorem col_mul_diag1 (v : Mat3 K) (a b c : K) : col (mul v (diag a b c)) 1 = (col v 1).scale b := by
  simp [col, mul, diag, V3.scale]

theorem col_mul_diag2 (v : Mat3 K) (a b c : K) : col (mul v (diag a b c)) 2 = (col v 2).scale c := by
  simp [col, mul, diag, V3.scale]

theorem scale_one (a : V3 K) : a.scale 1 = a := by cases a; simp [V3.scale]

/-- `m` is orthogonal: `m^T m = I = m m^T`. -/
def Orth (m : Mat3 K) : Prop := mul (transpose m) m = one ∧ mul m (transpose m) = one

theorem orth_one : Orth (one : Mat3 K) := ⟨by rw [transpose_one, mul_one'], by rw [transpose_one, mul_one']⟩

theorem orth_transpose {m : Mat3 K} (h : Orth m) : Orth (transpose m) :=
  ⟨by rw [transpose_transpose]; exact h.2, by rw [transpose_transpose]; exact h.1⟩

theorem orth_mul {a b : Mat3 K} (ha : Orth a) (hb : Orth b) : Orth (mul a b) := by
  constructor
  · rw [transpose_mul, mul_assoc', ← mul_assoc' (transpose a) a b, ha.1, one_mul', hb.1]
  · rw [transpose_mul, mul_assoc', ← mul_assoc' b (transpose b) (transpose a), hb.2, one_mul', ha.2]

theorem orth_det_sq {m : Mat3 K} (h : Orth m) : det m * det m = 1 := by
  have := congrArg det h.1
  rwa [det_mul, det_transpose, det_one] at this

theorem orth_diag_pm (σ : K) (hσ : σ * σ = 1) : Orth (diag 1 1 σ) := by
  constructor <;> simp [mul, transpose, diag, one, hσ]

variable [LinearOrder K] [IsStrictOrderedRing K]

/-- The sign `ARAP.rotations` puts on the last left singular vector. -/
def sgn (u v : Mat3 K) : K := if det (mul v (transpose u)) < 0 then -1 else 1

theorem sgn_sq (u v : Mat3 K) : sgn u v * sgn u v = 1 := by
  unfold sgn; split <;> simp

theorem rotOf_eq (u v : Mat3 K) : rotOf u v = mul v (transpose (mul u (diag 1 1 (sgn u v)))) := by
  unfold rotOf sgn
  by_cases h : det (mul v (transpose u)) < 0
  · simp only [h, if_true]; rw [negCol2_eq]
  · simp only [h, if_false]; rw [diag_one, mul_one']

theorem rotOf_orth {u v : Mat3 K} (hu : Orth u) (hv : Orth v) : Orth (rotOf u v) := by
  rw [rotOf_eq]
  exact orth_mul hv (orth_transpose (orth_mul hu (orth_diag_pm _ (sgn_sq u v))))

theorem sq_one_cases {d : K} (h : d * d = 1) : d = 1 ∨ d = -1 := by
  have : (d - 1) * (d + 1) = 0 := by ring_nf; linear_combination h
  rcases mul_eq_zero.mp this with h1 | h1
  · left; linear_combination h1
  · right; linear_combination h1

theorem sgn_eq_det {u v : Mat3 K} (hu : Orth u) (hv : Orth v) : sgn u v = det v * det u := by
  have hd : (det v * det u) * (det v * det u) = 1 := by
    have h1 := orth_det_sq hu; have h2 := orth_det_sq hv
    calc (det v * det u) * (det v * det u) = (det v * det v) * (det u * det u) := by ring
      _ = 1 := by rw [h1, h2]; ring
  unfold sgn; rw [det_mul, det_transpose]
  rcases sq_one_cases hd with h | h <;> rw [h] <;> simp

theorem rotOf_det {u v : Mat3 K} (hu : Orth u) (hv : Orth v) : det (rotOf u v) = 1 := by
  have hs := sgn_eq_det hu hv
  have hd : (det v * det u) * (det v * det u) = 1 := by rw [← hs]; exact sgn_sq u v
  rw [rotOf_eq, det_mul, det_transpose, det_mul, det_diag, hs]
  linear_combination hd

theorem rotOf_mul_u {u v : Mat3 K} (hu : Orth u) : mul (rotOf u v) u = mul v (diag 1 1 (sgn u v)) := by
  rw [rotOf_eq, transpose_mul, mul_assoc', mul_assoc', hu.1, mul_one', transpose_diag]

/-! ### The best-fit rotation of a rigid image -/

theorem mulCol_sub (A : Mat3 K) (a b : V3 K) :
    Mat3.mulCol A ⟨a.x - b.x, a.y - b.y, a.z - b.z⟩ =
      ⟨(Mat3.mulCol A a).x - (Mat3.mulCol A b).x, (Mat3.mulCol A a).y - (Mat3.mulCol A b).y,
       (Mat3.mulCol A a).z - (Mat3.mulCol A b).z⟩ := by
  simp only [Mat3.mulCol, V3.mk.injEq]; refine ⟨?_, ?_, ?_⟩ <;> ring

/-- `A a = s b`, `A b = s a`, `s > 0`, `A` positive semidefinite ⇒ `a = b` (the vector `a - b` is
an eigenvector for `-s`). -/
theorem psd_swap_eq {A : Mat3 K} (hpsd : ∀ x : V3 K, 0 ≤ dot x (Mat3.mulCol A x)) {s : K} (hs : 0 < s)
    {a b : V3 K} (hab : Mat3.mulCol A a = b.scale s) (hba : Mat3.mulCol A b = a.scale s) : a = b := by
  have h := hpsd ⟨a.x - b.x, a.y - b.y, a.z - b.z⟩
  rw [mulCol_sub, hab, hba] at h
  simp only [dot, V3.scale] at h
  have e : (a.x - b.x) * (b.x * s - a.x * s) + (a.y - b.y) * (b.y * s - a.y * s) + (a.z - b.z) * (b.z * s - a.z * s)
      = -(s * ((a.x - b.x) ^ 2 + (a.y - b.y) ^ 2 + (a.z - b.z) ^ 2)) := by ring
  rw [e] at h
  have hq : (a.x - b.x) ^ 2 + (a.y - b.y) ^ 2 + (a.z - b.z) ^ 2 ≤ 0 := by
    by_contra hc
    rw [not_le] at hc
    have := mul_pos hs hc
    linarith
  have hx : a.x - b.x = 0 := by
    have : (a.x - b.x) ^ 2 ≤ 0 := by nlinarith [sq_nonneg (a.y - b.y), sq_nonneg (a.z - b.z)]
    exact pow_eq_zero_iff (two_ne_zero) |>.mp (le_antisymm this (sq_nonneg _))
  have hy : a.y - b.y = 0 := by
    have : (a.y - b.y) ^ 2 ≤ 0 := by nlinarith [sq_nonneg (a.x - b.x), sq_nonneg (a.z - b.z)]
    exact pow_eq_zero_iff (two_ne_zero) |>.mp (le_antisymm this (sq_nonneg _))
  have hz : a.z - b.z = 0 := by
    have : (a.z - b.z) ^ 2 ≤ 0 := by nlinarith [sq_nonneg (a.x - b.x), sq_nonneg (a.y - b.y)]
    exact pow_eq_zero_iff (two_ne_zero) |>.mp (le_antisymm this (sq_nonneg _))
  cases a; cases b
  simp only [V3.mk.injEq]
  exact ⟨by linarith, by linarith, by linarith⟩

/-- Two orthogonal matrices with the same first two columns differ by the sign of the third:
`u = w · diag(1, 1, det u · det w)`. -/
theorem orth_same_two_cols {u w : Mat3 K} (hu : Orth u) (hw : Orth w)
    (h0 : col w 0 = col u 0) (h1 : col w 1 = col u 1) : u = mul w (diag 1 1 (det u * det w)) := by
  have hM : ∃ c : K, mul (transpose w) u = diag 1 1 c := by
    have a1 := hu.1
    have a2 := hw.1
    obtain ⟨u0, u1, u2, u3, u4, u5, u6, u7, u8⟩ := u
    obtain ⟨w0, w1, w2, w3, w4, w5, w6, w7, w8⟩ := w
    simp only [col, V3.mk.injEq] at h0 h1
    obtain ⟨e0, e3, e6⟩ := h0
    obtain ⟨e1, e4, e7⟩ := h1
    subst e0 e3 e6 e1 e4 e7
    refine ⟨w2 * u2 + w5 * u5 + w8 * u8, ?_⟩
    simp only [mul, transpose, one, diag, Mat3.mk.injEq] at a1 a2 ⊢
    obtain ⟨p0, p1, p2, p3, p4, p5, p6, p7, p8⟩ := a1
    obtain ⟨q0, q1, q2, q3, q4, q5, q6, q7, q8⟩ := a2
    and_intros <;> trivial
  obtain ⟨c, hc⟩ := hM
  have hdet : c = det u * det w := by
    have h := congrArg det hc
    rw [det_mul, det_transpose, det_diag] at h
    have hw2 := orth_det_sq hw
    calc c = 1 * 1 * c := by ring
      _ = det w * det u := h.symm
      _ = det u * det w := by ring
  calc u = mul (mul w (transpose w)) u := by rw [hw.2, one_mul']
    _ = mul w (mul (transpose w) u) := mul_assoc' _ _ _
    _ = mul w (diag 1 1 (det u * det w)) := by rw [hc, hdet]

/-- **The best fit of a rigid image.**  `cov = u · diag(s₀,s₁,s₂) · v^T` with orthogonal `u`, `v` and
`s₀, s₁ > 0` (rank ≥ 2), and `cov = A R^T` for a symmetric positive semidefinite `A` and a rotation
`R` — then the matrix `ARAP.rotations` builds from `u`, `v` is `R`. -/
theorem rotOf_rigid {u v A R : Mat3 K} {s0 s1 s2 : K} (hu : Orth u) (hv : Orth v) (hR : Orth R) (hdR : det R = 1)
    (h0 : 0 < s0) (h1 : 0 < s1)
    (hsvd : mul (mul u (diag s0 s1 s2)) (transpose v) = mul A (transpose R))
    (hsym : transpose A = A) (hpsd : ∀ x : V3 K, 0 ≤ dot x (Mat3.mulCol A x)) :
    rotOf u v = R := by
  have hw : Orth (mul (transpose R) v) := orth_mul (orth_transpose hR) hv
  have hwT : transpose (mul (transpose R) v) = mul (transpose v) R := by rw [transpose_mul, transpose_transpose]
  -- A = u S w^T
  have hA : A = mul (mul u (diag s0 s1 s2)) (transpose (mul (transpose R) v)) := by
    calc A = mul A (mul (transpose R) R) := by rw [hR.1, mul_one']
      _ = mul (mul A (transpose R)) R := (mul_assoc' _ _ _).symm
      _ = mul (mul (mul u (diag s0 s1 s2)) (transpose v)) R := by rw [hsvd]
      _ = mul (mul u (diag s0 s1 s2)) (mul (transpose v) R) := mul_assoc' _ _ _
      _ = _ := by rw [hwT]
  have hAw : mul A (mul (transpose R) v) = mul u (diag s0 s1 s2) := by
    conv_lhs => rw [hA]
    rw [mul_assoc', hw.1, mul_one']
  have hAu : mul A u = mul (mul (transpose R) v) (diag s0 s1 s2) := by
    have hAT : A = mul (mul (transpose R) v) (mul (diag s0 s1 s2) (transpose u)) := by
      calc A = transpose A := hsym.symm
        _ = transpose (mul (mul u (diag s0 s1 s2)) (transpose (mul (transpose R) v))) := by rw [← hA]
        _ = _ := by rw [transpose_mul, transpose_transpose, transpose_mul, transpose_diag]
    conv_lhs => rw [hAT]
    rw [mul_assoc' (mul (transpose R) v), mul_assoc' (diag s0 s1 s2), hu.1, mul_one']
  have c0 : col (mul (transpose R) v) 0 = col u 0 := by
    refine (psd_swap_eq hpsd h0 ?_ ?_).symm
    · rw [mulCol_col, hAu, col_mul_diag0]
    · rw [mulCol_col, hAw, col_mul_diag0]
  have c1 : col (mul (transpose R) v) 1 = col u 1 := by
    refine (psd_swap_eq hpsd h1 ?_ ?_).symm
    · rw [mulCol_col, hAu, col_mul_diag1]
    · rw [mulCol_col, hAw, col_mul_diag1]
  have hu' := orth_same_two_cols hu hw c0 c1
  have hdw : det (mul (transpose R) v) = det v := by rw [det_mul, det_transpose, hdR, one_mul]
  have hσ : det u * det (mul (transpose R) v) = sgn u v := by rw [hdw, sgn_eq_det hu hv]; ring
  rw [hσ] at hu'
  have hRw : mul R (mul (transpose R) v) = v := by rw [← mul_assoc', hR.2, one_mul']
  have hRu : mul R u = mul v (diag 1 1 (sgn u v)) := by
    conv_lhs => rw [hu']
    rw [← mul_assoc', hRw]
  have hrot := rotOf_mul_u (v := v) hu
  calc rotOf u v = mul (rotOf u v) (mul u (transpose u)) := by rw [hu.2, mul_one']
    _ = mul (mul (rotOf u v) u) (transpose u) := (mul_assoc' _ _ _).symm
    _ = mul (mul R u) (transpose u) := by rw [hrot, hRu]
    _ = mul R (mul u (transpose u)) := mul_assoc' _ _ _
    _ = R := by rw [hu.2, mul_one']

/-! ### The covariance of a rigid image is `A R^T` with `A = Σ w d d^T` -/

/-- `Σ_j w_j d_j d_j^T` over the one-ring (`d_j = p_{n_j} − p_i`). -/
def gram (p : Nat → V3 K) (i : Nat) (row : List (Nat × K)) : Mat3 K :=
  row.foldl (fun acc nw => addScaled acc (piece (sub (p nw.1) (p i)) (sub (p nw.1) (p i))) nw.2) zero

theorem covRow_rigid_aux (R : Mat3 K) (t : V3 K) (p : Nat → V3 K) (i : Nat) (row : List (Nat × K)) (acc acc' : Mat3 K)
    (h : acc = mul acc' (transpose R)) :
    row.foldl (fun acc nw => addScaled acc (piece (sub (p nw.1) (p i)) (sub (rigid R t (p nw.1)) (rigid R t (p i)))) nw.2) acc
      = mul (row.foldl (fun acc nw => addScaled acc (piece (sub (p nw.1) (p i)) (sub (p nw.1) (p i))) nw.2) acc') (transpose R) := by
  induction row generalizing acc acc' with
  | nil => simpa using h
  | cons nw row ih =>
    simp only [List.foldl_cons]
    apply ih
    subst h
    simp only [addScaled, piece, sub, rigid, Mat3.mulCol, V3.add, V3.scale, mul, transpose, Mat3.mk.injEq]
    refine ⟨?_, ?_, ?_, ?_, ?_, ?_, ?_, ?_, ?_⟩ <;> ring

/-- The covariance `ARAP.rotations` forms at a rigid image `y = R p + t` is `gram · R^T`. -/
theorem covRow_rigid (R : Mat3 K) (t : V3 K) (p : Nat → V3 K) (i : Nat) (row : List (Nat × K)) :
    covRow p (fun k => rigid R t (p k)) i row = mul (gram p i row) (transpose R) := by
  unfold covRow gram
  apply covRow_rigid_aux
  simp [zero, mul, transpose]

theorem transpose_addScaled_piece (acc : Mat3 K) (d : V3 K) (w : K) :
    transpose (addScaled acc (piece d d) w) = addScaled (transpose acc) (piece d d) w := by
  simp only [addScaled, piece, transpose, Mat3.mk.injEq]
  and_intros <;> first | trivial | ring

theorem gram_symm_aux (p : Nat → V3 K) (i : Nat) (row : List (Nat × K)) (acc : Mat3 K) :
    transpose (row.foldl (fun acc nw => addScaled acc (piece (sub (p nw.1) (p i)) (sub (p nw.1) (p i))) nw.2) acc)
      = row.foldl (fun acc nw => addScaled acc (piece (sub (p nw.1) (p i)) (sub (p nw.1) (p i))) nw.2) (transpose acc) := by
  induction row generalizing acc with
  | nil => rfl
  | cons nw row ih =>
    simp only [List.foldl_cons]
    rw [ih, transpose_addScaled_piece]

theorem gram_symm (p : Nat → V3 K) (i : Nat) (row : List (Nat × K)) : transpose (gram p i row) = gram p i row :=
  gram_symm_aux p i row zero

theorem gram_psd_aux (p : Nat → V3 K) (i : Nat) (row : List (Nat × K)) (hw : ∀ nw ∈ row, 0 ≤ nw.2) (acc : Mat3 K)
    (x : V3 K) (h : 0 ≤ dot x (Mat3.mulCol acc x)) :
    0 ≤ dot x (Mat3.mulCol (row.foldl (fun acc nw => addScaled acc (piece (sub (p nw.1) (p i)) (sub (p nw.1) (p i))) nw.2) acc) x) := by
  induction row generalizing acc with
  | nil => simpa using h
  | cons nw row ih =>
    simp only [List.foldl_cons]
    apply ih (fun q hq => hw q (List.mem_cons_of_mem _ hq))
    have hnw := hw nw (List.mem_cons_self ..)
    generalize sub (p nw.1) (p i) = d
    have e : dot x (Mat3.mulCol (addScaled acc (piece d d) nw.2) x)
        = dot x (Mat3.mulCol acc x) + nw.2 * (d.x * x.x + d.y * x.y + d.z * x.z) ^ 2 := by
      simp only [dot, Mat3.mulCol, addScaled, piece]; ring
    rw [e]
    have := mul_nonneg hnw (sq_nonneg (d.x * x.x + d.y * x.y + d.z * x.z))
    linarith

/-- Non-negative weights: the Gram matrix of the one-ring is positive semidefinite. -/
theorem gram_psd (p : Nat → V3 K) (i : Nat) (row : List (Nat × K)) (hw : ∀ nw ∈ row, 0 ≤ nw.2) (x : V3 K) :
    0 ≤ dot x (Mat3.mulCol (gram p i row) x) := by
  apply gram_psd_aux p i row hw
  simp [zero, dot, Mat3.mulCol]

end M3d.ArapRot
