import M3d.Lemmas.RectMesh
import Mathlib.Algebra.Order.Field.Basic
import Mathlib.Tactic.Ring
import Mathlib.Tactic.Linarith
import Mathlib.Tactic.IntervalCases
/-!
# The quads `ExactMesh` lists for a box face outwards (property C01)

For a box of positive extent, each of the two triangles `Mesh.AddQuad` makes of the quad of face `(axis, side)` has a
normal (cross product of its edge vectors, in vertex order) along `axis` only, pointing to `+axis` on the max side and
to `-axis` on the min side — away from the box.  Over every linear ordered field.
-/
namespace M3d.RectMesh
open M3d.RectSet
set_option linter.unusedSectionVars false

variable {K : Type} [Field K] [LinearOrder K] [IsStrictOrderedRing K]

def vsub (a b : V3 K) : V3 K := ⟨a.x - b.x, a.y - b.y, a.z - b.z⟩
def vcross (u v : V3 K) : V3 K := ⟨u.y * v.z - u.z * v.y, u.z * v.x - u.x * v.z, u.x * v.y - u.y * v.x⟩
/-- (unnormalised) normal of a triangle, right-hand rule on its vertex order -/
def triNormal (t : V3 K × V3 K × V3 K) : V3 K := vcross (vsub t.2.1 t.1) (vsub t.2.2 t.1)

/-- the normal is along `a` only and has the sign of the side -/
def OutwardOn (a : Nat) (s : Bool) (t : V3 K × V3 K × V3 K) : Prop :=
  (∀ b, b < 3 → b ≠ a → (triNormal t).get b = 0) ∧
  (if s then 0 < (triNormal t).get a else (triNormal t).get a < 0)

theorem boxQuads_outward (r : Rect K) (h : Pos r) :
    ∀ p ∈ (boxQuads r).zip faces, ∀ t ∈ quadTris p.1, OutwardOn p.2.1 p.2.2 t := by
  obtain ⟨⟨a, b, c⟩, ⟨d, e, f⟩⟩ := r
  have hx : 0 < d - a := sub_pos.2 (h 0 (by omega))
  have hy : 0 < e - b := sub_pos.2 (h 1 (by omega))
  have hz : 0 < f - c := sub_pos.2 (h 2 (by omega))
  have hxy := mul_pos hx hy
  have hxz := mul_pos hx hz
  have hyz := mul_pos hy hz
  intro p hp t ht
  simp only [boxQuads, faces, corner, List.zip_cons_cons, List.zip_nil_right, List.mem_cons, List.not_mem_nil,
    or_false, Bool.false_eq_true, if_false, if_true] at hp
  rcases hp with rfl | rfl | rfl | rfl | rfl | rfl <;>
  · simp only [quadTris, List.mem_cons, List.not_mem_nil, or_false] at ht
    rcases ht with rfl | rfl <;>
    · refine ⟨fun b' hb' hne => ?_, ?_⟩
      · interval_cases b' <;> simp_all [triNormal, vcross, vsub, V3.get]
      · simp only [triNormal, vcross, vsub, V3.get, Bool.false_eq_true, if_false, if_true]
        nlinarith

end M3d.RectMesh
