import M3d.Lemmas.KernelsTieCollide
import M3d.Model.CollideQuery
/-!
# Tie between the REGENERATED kernels and the box-query models of C07 (`M3d/Model/CollideQuery.lean`)

`model2d.Rect.Contains`, `model2d.Segment.Min/Max`, `model2d.Segment.SegmentCollision` and
`model2d.Segment.RectCollision` as `model2d/shapes.go` / `model2d/primitives.go` define them NOW are the model
functions `rect2Contains`, `V2.min/max`, `seg2Segment`, `seg2Rect` of `M3d.C07.rect_touches_iff_segment2d` and
`mesh_rect_touches_iff`; `eps` is the literal `1e-8`.
-/
namespace M3d.KernelsTie.Collide
open M3d.Col M3d.Gen.Kernels
set_option linter.unusedSectionVars false
set_option linter.unusedVariables false
set_option linter.unusedSimpArgs false

variable {K : Type} [Field K] [LinearOrder K] [IsStrictOrderedRing K]

theorem feq_mn (c l : K) : GenPrelude.feq (GenPrelude.mn c l) l = !decide (c < l) := by
  unfold GenPrelude.feq GenPrelude.mn
  by_cases h : l < c
  · simp [h, not_lt.2 h.le]
  · simp [h]

theorem feq_mx (c u : K) : GenPrelude.feq (GenPrelude.mx c u) u = !decide (u < c) := by
  unfold GenPrelude.feq GenPrelude.mx
  by_cases h : c < u
  · simp [h, not_lt.2 h.le]
  · simp [h]

theorem mn_eq (a b : K) : GenPrelude.mn a b = minS a b := rfl
theorem mx_eq (a b : K) : GenPrelude.mx a b = maxS a b := rfl
theorem min2 (a b : V2 K) : model2d.Coord_Min (g2 a) (g2 b) = g2 (a.min b) := rfl
theorem max2 (a b : V2 K) : model2d.Coord_Max (g2 a) (g2 b) = g2 (a.max b) := rfl

/-- `model2d.Rect.Contains` -/
theorem rect2_contains_eq (lo hi c : V2 K) :
    model2d.Rect_Contains ⟨g2 lo, g2 hi⟩ (g2 c) = rect2Contains lo hi c := by
  unfold model2d.Rect_Contains rect2Contains model2d.Coord_Min model2d.Coord_Max
  simp only [feq_mn, feq_mx, Bool.and_assoc]

/-- `model3d.Triangle.Min` / `Max` (the leaf bounds of the 3-D hierarchies) -/
theorem triangle_min_eq (a b c : V3 K) : model3d.Triangle_Min ⟨g3 a, g3 b, g3 c⟩ = g3 (triMin (a, b, c)) := rfl
theorem triangle_max_eq (a b c : V3 K) : model3d.Triangle_Max ⟨g3 a, g3 b, g3 c⟩ = g3 (triMax (a, b, c)) := rfl

/-- `model2d.Segment.Min` / `Max` (the leaf bounds of the 2-D hierarchies) -/
theorem segment2_min_eq (s0 s1 : V2 K) : model2d.Segment_Min ⟨g2 s0, g2 s1⟩ = g2 (s0.min s1) := rfl
theorem segment2_max_eq (s0 s1 : V2 K) : model2d.Segment_Max ⟨g2 s0, g2 s1⟩ = g2 (s0.max s1) := rfl

section sq
variable (sq : K → K)

/-- `model3d.Triangle.Normal` (the co-planarity test of `TriangleCollisions`, the normals of the ray collisions) -/
theorem triangle_normal_eq (a b c : V3 K) :
    (letI := sqrtOf sq; model3d.Triangle_Normal ⟨g3 a, g3 b, g3 c⟩) = g3 (triNormal sq a b c) := by
  unfold model3d.Triangle_Normal model3d.Triangle_crossProduct triNormal
  simp only [sub3, cross3, normalize3]

/-- 2-D `Segment.SegmentCollision` -/
theorem segment2_segment_eq (s0 s1 q0 q1 : V2 K) :
    (letI := sqrtOf sq; model2d.Segment_SegmentCollision ⟨g2 s0, g2 s1⟩ ⟨g2 q0, g2 q1⟩) =
      seg2Segment sq (1.0e-8 : K) s0 s1 q0 q1 := by
  unfold model2d.Segment_SegmentCollision seg2Segment
  simp only [sub2]
  have h := segment2_ray_eq sq s0 s1 q0 (q1.sub q0)
  rw [h]
  cases seg2Ray sq (1.0e-8 : K) s0 s1 q0 (q1.sub q0) with
  | none => simp
  | some p =>
    obtain ⟨hit, t⟩ := p
    cases hit <;> simp [ge_iff_le]

/-- 2-D `Segment.RectCollision` -/
theorem segment2_rect_eq (s0 s1 lo hi : V2 K) :
    (letI := sqrtOf sq; model2d.Segment_RectCollision ⟨g2 s0, g2 s1⟩ ⟨g2 lo, g2 hi⟩) =
      seg2Rect sq (1.0e-8 : K) s0 s1 lo hi := by
  have e : ∀ q0 q1 : V2 K, (letI := sqrtOf sq; model2d.Segment_SegmentCollision ⟨g2 s0, g2 s1⟩ ⟨g2 q0, g2 q1⟩) =
      seg2Segment sq (1.0e-8 : K) s0 s1 q0 q1 := segment2_segment_eq sq s0 s1
  have e1 := e lo ⟨hi.x, lo.y⟩
  have e2 := e lo ⟨lo.x, hi.y⟩
  have e3 := e hi ⟨hi.x, lo.y⟩
  have e4 := e hi ⟨lo.x, hi.y⟩
  have c0 := rect2_contains_eq lo hi s0
  have c1 := rect2_contains_eq lo hi s1
  unfold model2d.Segment_RectCollision seg2Rect
  dsimp only [model2d.Segment_Min, model2d.Segment_Max, model2d.Coord_Min, model2d.Coord_Max, V2.min, V2.max,
    model2d.XY, g2, mn_eq, mx_eq] at e1 e2 e3 e4 c0 c1 ⊢
  rw [e1, e2, e3, e4, c0, c1]
  by_cases h1 : hi.x < minS s0.x s1.x ∨ hi.y < minS s0.y s1.y
  · rw [if_pos h1, if_pos (by simpa [gt_iff_lt] using h1)]
  rw [if_neg h1, if_neg (by simpa [gt_iff_lt] using h1)]
  by_cases h2 : maxS s0.x s1.x < lo.x ∨ maxS s0.y s1.y < lo.y
  · rw [if_pos h2, if_pos (by simpa using h2)]
  rw [if_neg h2, if_neg (by simpa using h2)]
  cases rect2Contains lo hi s0 <;> cases rect2Contains lo hi s1 <;>
    cases seg2Segment sq (1.0e-8 : K) s0 s1 lo ⟨hi.x, lo.y⟩ <;>
    cases seg2Segment sq (1.0e-8 : K) s0 s1 lo ⟨lo.x, hi.y⟩ <;>
    cases seg2Segment sq (1.0e-8 : K) s0 s1 hi ⟨hi.x, lo.y⟩ <;>
    cases seg2Segment sq (1.0e-8 : K) s0 s1 hi ⟨lo.x, hi.y⟩ <;> rfl

end sq

end M3d.KernelsTie.Collide
