import M3d.Lemmas.CollideWrap
/-!
# C07 — the closest-point lemma for triangles and `Triangle.SphereCollision`'s vertex / edge / face cases
(sqrt-free: squared distances, `q` plays the role of `r²`)
-/
set_option linter.unusedSectionVars false
set_option linter.unusedVariables false
namespace M3d.Col

variable {K : Type} [Field K] [LinearOrder K] [IsStrictOrderedRing K]

/-! ## segments in 3-D -/

theorem seg3_param_distSq (p1 p2 c : V3 K) (lam : K) :
    ((p1.add ((p2.sub p1).scale lam)).distSq c) =
      lam * lam * (p2.sub p1).dot (p2.sub p1) - 2 * lam * (c.sub p1).dot (p2.sub p1) + p1.distSq c := by
  simp only [V3.add, V3.scale, V3.sub, V3.distSq, V3.dot]; ring

/-- `segBallSpec` decides "some point of the segment is at squared distance `< q`". -/
theorem segBallSpec_iff (p1 p2 ctr : V3 K) (q : K) (hne : (p2.sub p1).dot (p2.sub p1) ≠ 0) :
    segBallSpec p1 p2 ctr q = true ↔
      ∃ lam, 0 ≤ lam ∧ lam ≤ 1 ∧ (p1.add ((p2.sub p1).scale lam)).distSq ctr < q := by
  have hvv : 0 < (p2.sub p1).dot (p2.sub p1) := lt_of_le_of_ne (V3.dot_self_nonneg _) (Ne.symm hne)
  have hww : (ctr.sub p1).dot (ctr.sub p1) = p1.distSq ctr := by
    simp only [V3.sub, V3.distSq, V3.dot]; ring
  have hend1 : (p1.add ((p2.sub p1).scale 1)).distSq ctr = p2.distSq ctr := by
    simp only [V3.add, V3.scale, V3.sub, V3.distSq]; ring
  have hend0 : (p1.add ((p2.sub p1).scale 0)).distSq ctr = p1.distSq ctr := by
    simp only [V3.add, V3.scale, V3.sub, V3.distSq]; ring
  simp only [segBallSpec, Bool.or_eq_true, Bool.and_eq_true, decide_eq_true_eq]
  set vv := (p2.sub p1).dot (p2.sub p1) with hvvdef
  set wv := (ctr.sub p1).dot (p2.sub p1) with hwvdef
  constructor
  · rintro ((h | h) | ⟨⟨h0, h1⟩, h2⟩)
    · exact ⟨0, le_rfl, zero_le_one, by rw [hend0]; exact h⟩
    · exact ⟨1, zero_le_one, le_rfl, by rw [hend1]; exact h⟩
    · refine ⟨wv / vv, div_nonneg h0 (le_of_lt hvv), (div_le_one hvv).2 h1, ?_⟩
      rw [seg3_param_distSq, ← hww]
      have e : wv / vv * (wv / vv) * vv - 2 * (wv / vv) * wv + (ctr.sub p1).dot (ctr.sub p1) =
          ((ctr.sub p1).dot (ctr.sub p1) * vv - wv * wv) / vv := by
        field_simp; ring
      rw [e, div_lt_iff₀ hvv]; exact h2
  · rintro ⟨lam, hl0, hl1, hq⟩
    rw [seg3_param_distSq] at hq
    rcases seg_closest _ _ _ _ lam hvv hl0 hl1 hq with h | h | ⟨h0, h1, h2⟩
    · exact Or.inl (Or.inl h)
    · refine Or.inl (Or.inr ?_)
      rw [← hend1, seg3_param_distSq]; linarith
    · refine Or.inr ⟨⟨?_, ?_⟩, ?_⟩
      · by_contra hc
        have : wv / vv < 0 := div_neg_of_neg_of_pos (not_le.1 hc) hvv
        linarith
      · exact (div_le_one hvv).1 h1
      · have e : wv / vv * (wv / vv) * vv - 2 * (wv / vv) * wv + p1.distSq ctr =
            ((ctr.sub p1).dot (ctr.sub p1) * vv - wv * wv) / vv := by
          rw [hww]; field_simp; ring
        rw [e, div_lt_iff₀ hvv] at h2; exact h2

/-! ## the planar closest-point argument, in Gram coordinates -/

/-- squared distance from `w` to `u·e1 + v·e2` in terms of the Gram entries
`A = e1·e1, B = e1·e2, C = e2·e2, D = w·e1, E = w·e2, F = w·w` -/
def fQ (A B C D E F u v : K) : K := A * u * u + 2 * B * u * v + C * v * v - 2 * D * u - 2 * E * v + F

/-- Moving from a point of the triangle towards a point outside of it, one leaves through the boundary:
there is a parameter at which all three barycentric functions are still `≥ 0` and one of them is `0`. -/
theorem exit_param (g1 g2 g3 g1' g2' g3' : K) (h1 : 0 ≤ g1) (h2 : 0 ≤ g2) (h3 : 0 ≤ g3)
    (hviol : g1' < 0 ∨ g2' < 0 ∨ g3' < 0) :
    ∃ s, 0 ≤ s ∧ s ≤ 1 ∧ 0 ≤ g1 + s * (g1' - g1) ∧ 0 ≤ g2 + s * (g2' - g2) ∧ 0 ≤ g3 + s * (g3' - g3) ∧
      (g1 + s * (g1' - g1) = 0 ∨ g2 + s * (g2' - g2) = 0 ∨ g3 + s * (g3' - g3) = 0) := by
  -- exit parameter of one barycentric function (1 when it never becomes negative)
  let σ : K → K → K := fun g g' => if g' < 0 then g / (g - g') else 1
  have hσ : ∀ g g' : K, 0 ≤ g → 0 ≤ σ g g' ∧ σ g g' ≤ 1 ∧ (g' < 0 → σ g g' < 1 ∧ g + σ g g' * (g' - g) = 0) ∧
      ∀ s, 0 ≤ s → s ≤ 1 → s ≤ σ g g' → 0 ≤ g + s * (g' - g) := by
    intro g g' hg
    by_cases hneg : g' < 0
    · have hpos : 0 < g - g' := by linarith
      have hval : σ g g' = g / (g - g') := by simp only [σ, hneg, if_true]
      rw [hval]
      refine ⟨div_nonneg hg (le_of_lt hpos), (div_le_one hpos).2 (by linarith), fun _ => ⟨?_, ?_⟩, ?_⟩
      · rw [div_lt_one hpos]; linarith
      · field_simp; ring
      · intro s hs0 hs1 hsle
        have : s * (g - g') ≤ g := by
          have := mul_le_mul_of_nonneg_right hsle (le_of_lt hpos)
          rwa [div_mul_cancel₀ g (ne_of_gt hpos)] at this
        linarith
    · have hval : σ g g' = 1 := by simp only [σ, hneg, if_false]
      rw [hval]
      refine ⟨zero_le_one, le_rfl, fun h => absurd h hneg, ?_⟩
      intro s hs0 hs1 _
      have hg' : 0 ≤ g' := not_lt.1 hneg
      have : g + s * (g' - g) = (1 - s) * g + s * g' := by ring
      rw [this]
      exact add_nonneg (mul_nonneg (sub_nonneg.2 hs1) hg) (mul_nonneg hs0 hg')
  obtain ⟨a1, b1, c1, d1⟩ := hσ g1 g1' h1
  obtain ⟨a2, b2, c2, d2⟩ := hσ g2 g2' h2
  obtain ⟨a3, b3, c3, d3⟩ := hσ g3 g3' h3
  set s := min (σ g1 g1') (min (σ g2 g2') (σ g3 g3')) with hs
  have hs1 : s ≤ σ g1 g1' := min_le_left _ _
  have hs2 : s ≤ σ g2 g2' := le_trans (min_le_right _ _) (min_le_left _ _)
  have hs3 : s ≤ σ g3 g3' := le_trans (min_le_right _ _) (min_le_right _ _)
  have hs0 : 0 ≤ s := le_min a1 (le_min a2 a3)
  have hsle1 : s ≤ 1 := le_trans hs1 b1
  have hslt : s < 1 := by
    rcases hviol with h | h | h
    · exact lt_of_le_of_lt hs1 (c1 h).1
    · exact lt_of_le_of_lt hs2 (c2 h).1
    · exact lt_of_le_of_lt hs3 (c3 h).1
  refine ⟨s, hs0, hsle1, d1 s hs0 hsle1 hs1, d2 s hs0 hsle1 hs2, d3 s hs0 hsle1 hs3, ?_⟩
  -- the minimum is attained by a function that does become negative
  have hattain : s = σ g1 g1' ∨ s = σ g2 g2' ∨ s = σ g3 g3' := by
    rcases min_choice (σ g1 g1') (min (σ g2 g2') (σ g3 g3')) with h | h
    · exact Or.inl h
    · rcases min_choice (σ g2 g2') (σ g3 g3') with h' | h'
      · exact Or.inr (Or.inl (h.trans h'))
      · exact Or.inr (Or.inr (h.trans h'))
  rcases hattain with h | h | h
  · by_cases hn : g1' < 0
    · left; rw [h]; exact (c1 hn).2
    · exfalso
      have : σ g1 g1' = 1 := by simp only [σ, hn, if_false]
      rw [this] at h; linarith
  · by_cases hn : g2' < 0
    · right; left; rw [h]; exact (c2 hn).2
    · exfalso
      have : σ g2 g2' = 1 := by simp only [σ, hn, if_false]
      rw [this] at h; linarith
  · by_cases hn : g3' < 0
    · right; right; rw [h]; exact (c3 hn).2
    · exfalso
      have : σ g3 g3' = 1 := by simp only [σ, hn, if_false]
      rw [this] at h; linarith

/-- **Closest point of a triangle, Gram form.**  If some point of the triangle (`u, v ≥ 0`, `u + v ≤ 1`) has
`f < q`, then either the foot of the perpendicular `(us, vs)` lies in the triangle and has `f < q`, or some
point of the boundary (`u = 0`, `v = 0` or `u + v = 1`) has `f < q`. -/
theorem tri_closest_gram (A B C D E F q u v : K) (hA : 0 < A) (hG : 0 < A * C - B * B)
    (hu : 0 ≤ u) (hv : 0 ≤ v) (huv : u + v ≤ 1) (hf : fQ A B C D E F u v < q) :
    (0 ≤ (D * C - E * B) / (A * C - B * B) ∧ 0 ≤ (A * E - B * D) / (A * C - B * B) ∧
      (D * C - E * B) / (A * C - B * B) + (A * E - B * D) / (A * C - B * B) ≤ 1 ∧
      fQ A B C D E F ((D * C - E * B) / (A * C - B * B)) ((A * E - B * D) / (A * C - B * B)) < q) ∨
    ∃ u' v', 0 ≤ u' ∧ 0 ≤ v' ∧ u' + v' ≤ 1 ∧ (u' = 0 ∨ v' = 0 ∨ u' + v' = 1) ∧ fQ A B C D E F u' v' < q := by
  set us := (D * C - E * B) / (A * C - B * B) with hus
  set vs := (A * E - B * D) / (A * C - B * B) with hvs
  have hGne : A * C - B * B ≠ 0 := ne_of_gt hG
  have gu : (A * C - B * B) * us = D * C - E * B := by rw [hus]; exact mul_div_cancel₀ _ hGne
  have gv : (A * C - B * B) * vs = A * E - B * D := by rw [hvs]; exact mul_div_cancel₀ _ hGne
  -- normal equations
  have n1 : A * us + B * vs = D := by
    apply mul_left_cancel₀ hGne; linear_combination A * gu + B * gv
  have n2 : B * us + C * vs = E := by
    apply mul_left_cancel₀ hGne; linear_combination B * gu + C * gv
  clear_value us vs
  -- f along the path towards the foot
  have hpath : ∀ s, fQ A B C D E F (u + s * (us - u)) (v + s * (vs - v)) =
      fQ A B C D E F us vs + (1 - s) * (1 - s) * (A * (u - us) * (u - us) + 2 * B * (u - us) * (v - vs) + C * (v - vs) * (v - vs)) := by
    intro s
    simp only [fQ]
    linear_combination (2 * (1 - s) * (u - us)) * n1 + (2 * (1 - s) * (v - vs)) * n2
  have hQ : 0 ≤ A * (u - us) * (u - us) + 2 * B * (u - us) * (v - vs) + C * (v - vs) * (v - vs) := by
    have e : A * (A * (u - us) * (u - us) + 2 * B * (u - us) * (v - vs) + C * (v - vs) * (v - vs)) =
        (A * (u - us) + B * (v - vs)) * (A * (u - us) + B * (v - vs)) + (A * C - B * B) * ((v - vs) * (v - vs)) := by ring
    have : 0 ≤ A * (A * (u - us) * (u - us) + 2 * B * (u - us) * (v - vs) + C * (v - vs) * (v - vs)) := by
      rw [e]; exact add_nonneg (mul_self_nonneg _) (mul_nonneg (le_of_lt hG) (mul_self_nonneg _))
    exact nonneg_of_mul_nonneg_right this hA
  have hle : ∀ s, 0 ≤ s → s ≤ 1 → fQ A B C D E F (u + s * (us - u)) (v + s * (vs - v)) ≤ fQ A B C D E F u v := by
    intro s hs0 hs1
    have h0 := hpath 0
    simp only [zero_mul, add_zero, sub_zero, one_mul] at h0
    rw [hpath s, h0]
    have : (1 - s) * (1 - s) ≤ 1 := by nlinarith
    nlinarith [mul_le_mul_of_nonneg_right this hQ]
  by_cases hin : 0 ≤ us ∧ 0 ≤ vs ∧ us + vs ≤ 1
  · left
    refine ⟨hin.1, hin.2.1, hin.2.2, ?_⟩
    have := hle 1 zero_le_one le_rfl
    simp only [one_mul, add_sub_cancel] at this
    linarith
  · right
    have hviol : us < 0 ∨ vs < 0 ∨ 1 - us - vs < 0 := by
      by_contra hcon
      simp only [not_or, not_lt] at hcon
      exact hin ⟨hcon.1, hcon.2.1, by linarith [hcon.2.2]⟩
    obtain ⟨s, hs0, hs1, k1, k2, k3, hz⟩ :=
      exit_param u v (1 - u - v) us vs (1 - us - vs) hu hv (by linarith) hviol
    refine ⟨u + s * (us - u), v + s * (vs - v), k1, k2, by linarith, ?_, lt_of_le_of_lt (hle s hs0 hs1) hf⟩
    rcases hz with h | h | h
    · exact Or.inl h
    · exact Or.inr (Or.inl h)
    · exact Or.inr (Or.inr (by linarith))

/-! ## `triBallSpec` -/

/-- a point of the triangle in barycentric form -/
def triPoint (a b c : V3 K) (u v : K) : V3 K := (a.add ((b.sub a).scale u)).add ((c.sub a).scale v)

theorem triPoint_distSq (a b c ctr : V3 K) (u v : K) :
    (triPoint a b c u v).distSq ctr =
      fQ ((b.sub a).dot (b.sub a)) ((b.sub a).dot (c.sub a)) ((c.sub a).dot (c.sub a))
        ((ctr.sub a).dot (b.sub a)) ((ctr.sub a).dot (c.sub a)) ((ctr.sub a).dot (ctr.sub a)) u v := by
  simp only [triPoint, V3.add, V3.scale, V3.sub, V3.distSq, V3.dot, fQ]; ring

/-- **`Triangle.SphereCollision`'s case analysis is the distance to the triangle**: the sqrt-free predicate
"an edge is within `q` (end points or foot of the perpendicular on it), or the foot of the perpendicular on
the plane has barycentric coordinates in range and the plane is within `q`" holds iff some point
`a + u(b-a) + v(c-a)`, `u, v ≥ 0`, `u + v ≤ 1`, has squared distance `< q` from the centre. -/
theorem triBallSpec_iff (a b c ctr : V3 K) (q : K)
    (hnd : ((b.sub a).cross (c.sub a)).dot ((b.sub a).cross (c.sub a)) ≠ 0) :
    triBallSpec a b c ctr q = true ↔
      ∃ u v, 0 ≤ u ∧ 0 ≤ v ∧ u + v ≤ 1 ∧ (triPoint a b c u v).distSq ctr < q := by
  -- Gram entries
  set A := (b.sub a).dot (b.sub a) with hAd
  set B := (b.sub a).dot (c.sub a) with hBd
  set C := (c.sub a).dot (c.sub a) with hCd
  set D := (ctr.sub a).dot (b.sub a) with hDd
  set E := (ctr.sub a).dot (c.sub a) with hEd
  set F := (ctr.sub a).dot (ctr.sub a) with hFd
  have hnn : ((b.sub a).cross (c.sub a)).dot ((b.sub a).cross (c.sub a)) = A * C - B * B := by
    simp only [hAd, hBd, hCd, V3.cross, V3.dot, V3.sub]; ring
  have hG : 0 < A * C - B * B := by
    rw [← hnn]; exact lt_of_le_of_ne (V3.dot_self_nonneg _) (Ne.symm hnd)
  have hA0 : 0 ≤ A := V3.dot_self_nonneg _
  have hC0 : 0 ≤ C := V3.dot_self_nonneg _
  have hA : 0 < A := by
    rcases lt_or_eq_of_le hA0 with h | h
    · exact h
    · rw [← h] at hG; nlinarith [mul_self_nonneg B]
  have hC : 0 < C := by
    rcases lt_or_eq_of_le hC0 with h | h
    · exact h
    · rw [← h] at hG; nlinarith [mul_self_nonneg B]
  have hbc : (c.sub b).dot (c.sub b) ≠ 0 := by
    have e : (c.sub b).dot (c.sub b) = A - 2 * B + C := by
      simp only [hAd, hBd, hCd, V3.dot, V3.sub]; ring
    rw [e]
    intro h0
    -- A - 2B + C = 0 with AC > B² is impossible
    nlinarith [mul_self_nonneg (A - C), mul_self_nonneg (A - B), mul_self_nonneg (C - B)]
  have hab : (b.sub a).dot (b.sub a) ≠ 0 := ne_of_gt hA
  have hca : (a.sub c).dot (a.sub c) ≠ 0 := by
    have e : (a.sub c).dot (a.sub c) = C := by simp only [hCd, V3.dot, V3.sub]; ring
    rw [e]; exact ne_of_gt hC
  -- edge points as triangle points
  have eab : ∀ lam, a.add ((b.sub a).scale lam) = triPoint a b c lam 0 := by
    intro lam; simp only [triPoint, V3.add, V3.scale, V3.sub]; congr 1 <;> ring
  have ebc : ∀ lam, b.add ((c.sub b).scale lam) = triPoint a b c (1 - lam) lam := by
    intro lam; simp only [triPoint, V3.add, V3.scale, V3.sub]; congr 1 <;> ring
  have eca : ∀ lam, c.add ((a.sub c).scale lam) = triPoint a b c 0 (1 - lam) := by
    intro lam; simp only [triPoint, V3.add, V3.scale, V3.sub]; congr 1 <;> ring
  -- the face test in Gram form
  have hu' : ((ctr.sub a).cross (c.sub a)).dot ((b.sub a).cross (c.sub a)) = D * C - E * B := by
    simp only [hBd, hCd, hDd, hEd, V3.cross, V3.dot, V3.sub]; ring
  have hv' : ((b.sub a).cross (ctr.sub a)).dot ((b.sub a).cross (c.sub a)) = A * E - B * D := by
    simp only [hAd, hBd, hDd, hEd, V3.cross, V3.dot, V3.sub]; ring
  have hwn : (ctr.sub a).dot ((b.sub a).cross (c.sub a)) * (ctr.sub a).dot ((b.sub a).cross (c.sub a)) =
      (A * C - B * B) * fQ A B C D E F ((D * C - E * B) / (A * C - B * B)) ((A * E - B * D) / (A * C - B * B)) := by
    have hGne : A * C - B * B ≠ 0 := ne_of_gt hG
    have gu : (A * C - B * B) * ((D * C - E * B) / (A * C - B * B)) = D * C - E * B := mul_div_cancel₀ _ hGne
    have gv : (A * C - B * B) * ((A * E - B * D) / (A * C - B * B)) = A * E - B * D := mul_div_cancel₀ _ hGne
    generalize (D * C - E * B) / (A * C - B * B) = us at gu ⊢
    generalize (A * E - B * D) / (A * C - B * B) = vs at gv ⊢
    have n1 : A * us + B * vs = D := by
      apply mul_left_cancel₀ hGne; linear_combination A * gu + B * gv
    have n2 : B * us + C * vs = E := by
      apply mul_left_cancel₀ hGne; linear_combination B * gu + C * gv
    have e : (A * C - B * B) * fQ A B C D E F us vs =
        A * C * F + 2 * B * D * E - A * E * E - C * D * D - B * B * F := by
      simp only [fQ]
      linear_combination ((A * C - B * B) * us) * n1 + ((A * C - B * B) * vs) * n2 - D * gu - E * gv
    rw [e]
    simp only [hAd, hBd, hCd, hDd, hEd, hFd, V3.cross, V3.dot, V3.sub]; ring
  unfold triBallSpec
  simp only [Bool.or_eq_true, Bool.and_eq_true, decide_eq_true_eq]
  rw [segBallSpec_iff a b ctr q hab, segBallSpec_iff b c ctr q hbc, segBallSpec_iff c a ctr q hca, hu', hv', hnn, hwn]
  constructor
  · rintro (((⟨lam, h0, h1, hq⟩ | ⟨lam, h0, h1, hq⟩) | ⟨lam, h0, h1, hq⟩) | ⟨⟨⟨h0, h1⟩, h2⟩, h3⟩)
    · exact ⟨lam, 0, h0, le_rfl, by linarith, by rw [← eab]; exact hq⟩
    · exact ⟨1 - lam, lam, by linarith, h0, by linarith, by rw [← ebc]; exact hq⟩
    · exact ⟨0, 1 - lam, le_rfl, by linarith, by linarith, by rw [← eca]; exact hq⟩
    · refine ⟨(D * C - E * B) / (A * C - B * B), (A * E - B * D) / (A * C - B * B),
        div_nonneg h0 (le_of_lt hG), div_nonneg h1 (le_of_lt hG), ?_, ?_⟩
      · rw [← add_div, div_le_one hG]; exact h2
      · rw [triPoint_distSq]
        rw [mul_comm q] at h3
        exact lt_of_mul_lt_mul_left h3 (le_of_lt hG)
  · rintro ⟨u, v, hu, hv, huv, hq⟩
    rw [triPoint_distSq] at hq
    rcases tri_closest_gram A B C D E F q u v hA hG hu hv huv hq with ⟨h0, h1, h2, h3⟩ | ⟨u', v', k0, k1, k2, hb, hq'⟩
    · right
      refine ⟨⟨⟨?_, ?_⟩, ?_⟩, ?_⟩
      · by_contra hc
        have := div_neg_of_neg_of_pos (not_le.1 hc) hG
        linarith
      · by_contra hc
        have := div_neg_of_neg_of_pos (not_le.1 hc) hG
        linarith
      · rw [← add_div, div_le_one hG] at h2; exact h2
      · rw [mul_comm q]; exact mul_lt_mul_of_pos_left h3 hG
    · left
      rw [← triPoint_distSq a b c ctr] at hq'
      rcases hb with hb | hb | hb
      · -- u' = 0: edge c–a with parameter 1 - v'
        right
        refine ⟨1 - v', by linarith, by linarith, ?_⟩
        rw [eca]; rw [hb] at hq'
        simpa using hq'
      · -- v' = 0: edge a–b
        left; left
        refine ⟨u', k0, by linarith, ?_⟩
        rw [eab]; rw [hb] at hq'; exact hq'
      · -- u' + v' = 1: edge b–c with parameter v'
        left; right
        refine ⟨v', k1, by linarith, ?_⟩
        rw [ebc]
        have : 1 - v' = u' := by linarith
        rw [this]; exact hq'

end M3d.Col
