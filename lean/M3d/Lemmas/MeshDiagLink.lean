import M3d.Lemmas.MeshDiagFan
/-!
# C11 — a vertex whose link is one cycle (`Surface.FanCycle`) is not singular
-/
namespace M3d.MeshDiag
open M3d.Surface

/-- What `rot v t = some e` says about the corners of a non-degenerate face. -/
theorem rot_some {v : Nat} {t : Tri} {e : Edge} (ht : TriNondeg t) (h : rot v t = some e) :
    hasVert v t = true ∧ hasVert e.1 t = true ∧ hasVert e.2 t = true ∧ e.1 ≠ v ∧ e.2 ≠ v := by
  obtain ⟨a, b, c⟩ := t
  obtain ⟨h1, h2, h3⟩ := ht
  simp only at h1 h2 h3
  simp only [rot] at h
  split at h
  · rename_i hv; cases h; subst hv
    simp [hasVert, triVerts]; omega
  · split at h
    · rename_i hv; cases h; subst hv
      simp [hasVert, triVerts]; omega
    · split at h
      · rename_i hv; cases h; subst hv
        simp [hasVert, triVerts]; omega
      · cases h

theorem rot_isSome_of_hasVert {v : Nat} {t : Tri} (h : hasVert v t = true) : (rot v t).isSome = true := by
  obtain ⟨a, b, c⟩ := t
  simp only [hasVert, triVerts, List.contains_cons, List.contains_nil, Bool.or_false, Bool.or_eq_true,
    beq_iff_eq] at h
  simp only [rot]
  rcases h with h | h | h
  · simp [h]
  · split
    · rfl
    · simp [h]
  · split
    · rfl
    · split
      · rfl
      · simp [h]

theorem mem_link_iff (ts : List Tri) (v : Nat) (e : Edge) :
    e ∈ link v ts ↔ ∃ f ∈ enum ts, rot v f.2 = some e := by
  simp only [link, List.mem_filterMap]
  constructor
  · rintro ⟨t, ht, he⟩
    rw [← enum_map_snd ts] at ht
    obtain ⟨f, hf, rfl⟩ := List.mem_map.mp ht
    exact ⟨f, hf, he⟩
  · rintro ⟨f, hf, he⟩
    exact ⟨f.2, mem_enum_snd hf, he⟩

/-- Two faces at `v` whose link edges meet (or coincide) share an edge at `v`. -/
theorem fanAdj_of_link {v : Nat} {f g : Face} {e e' : Edge} (hf : TriNondeg f.2) (hg : TriNondeg g.2)
    (he : rot v f.2 = some e) (he' : rot v g.2 = some e') (h : e.2 = e'.1 ∨ e = e') : fanAdj f g = true := by
  obtain ⟨hvf, _, hf2, _, hn2⟩ := rot_some hf he
  obtain ⟨hvg, hg1, hg2, _, _⟩ := rot_some hg he'
  rw [fanAdj_eq_adjAt hf hvf hvg]
  simp only [adjAt, List.any_eq_true, Bool.and_eq_true, bne_iff_ne, ne_eq]
  refine ⟨e.2, by simpa [hasVert] using hf2, hn2, ?_⟩
  rcases h with h | h
  · rw [h]; exact hg1
  · rw [h]; exact hg2

/-- Edges of a closed walk, chained head to tail. -/
def edgeAdj (e e' : Edge) : Bool := e.2 == e'.1

theorem zip_chain_reach : ∀ (t : List Nat) (a y : Nat) (U : List Edge),
    (∀ e ∈ List.zip (a :: t) (t ++ [y]), e ∈ U) →
    ∀ e ∈ List.zip (a :: t) (t ++ [y]), Reach edgeAdj U (a, (t ++ [y]).head (by simp)) e := by
  intro t
  induction t with
  | nil =>
    intro a y U _ e he
    simp at he
    subst he
    exact .refl _
  | cons b t ih =>
    intro a y U hU e he
    simp only [List.cons_append, List.zip_cons_cons, List.mem_cons] at he
    rcases he with he | he
    · subst he; exact .refl _
    · have hU' : ∀ e ∈ List.zip (b :: t) (t ++ [y]), e ∈ U := fun e h =>
        hU e (by simp only [List.cons_append, List.zip_cons_cons, List.mem_cons]; exact Or.inr h)
      have h1 := ih b y U hU' e he
      have hfirst : (b, (t ++ [y]).head (by simp)) ∈ U := by
        apply hU'
        cases t with
        | nil => simp
        | cons c t' => simp
      refine Reach.trans (Reach.single hfirst ?_) h1
      simp [edgeAdj]

/-- If the link of `v` is a single cycle, the fan graph at `v` is connected. -/
theorem fanGraphConnected_of_fanCycle (ts : List Tri) (hd : NoDegenerate ts) (v : Nat)
    (hc : FanCycle (link v ts)) : FanGraphConnected ts v := by
  obtain ⟨l, _, hperm⟩ := hc
  have hnondeg : ∀ f ∈ facesAt v (enum ts), TriNondeg f.2 :=
    fun f hf => hd _ (mem_enum_snd (List.mem_filter.mp hf).1)
  have hsym : ∀ x ∈ facesAt v (enum ts), ∀ y ∈ facesAt v (enum ts), fanAdj x y = fanAdj y x :=
    fun x hx y hy => fanAdj_symm (hnondeg x hx) (hnondeg y hy)
  -- faces at v <-> link edges
  have m1 : ∀ e ∈ cycleEdges l, ∃ f ∈ facesAt v (enum ts), rot v f.2 = some e := by
    intro e he
    obtain ⟨f, hf, hr⟩ := (mem_link_iff ts v e).mp (hperm.mem_iff.mpr he)
    exact ⟨f, List.mem_filter.mpr ⟨hf, (rot_some (hd _ (mem_enum_snd hf)) hr).1⟩, hr⟩
  have m2 : ∀ f ∈ facesAt v (enum ts), ∃ e ∈ cycleEdges l, rot v f.2 = some e := by
    intro f hf
    obtain ⟨hfe, hfv⟩ := List.mem_filter.mp hf
    have := rot_isSome_of_hasVert hfv
    obtain ⟨e, he⟩ := Option.isSome_iff_exists.mp this
    exact ⟨e, hperm.mem_iff.mp ((mem_link_iff ts v e).mpr ⟨f, hfe, he⟩), he⟩
  cases l with
  | nil =>
    intro s hs
    obtain ⟨e, he, _⟩ := m2 s hs
    simp [cycleEdges] at he
  | cons a t =>
    -- the first edge of the cycle and a face carrying it
    have hE : ∀ e ∈ List.zip (a :: t) (t ++ [a]), e ∈ cycleEdges (a :: t) := fun e h => h
    have hchain := zip_chain_reach t a a (cycleEdges (a :: t)) hE
    have h0mem : (a, (t ++ [a]).head (by simp)) ∈ cycleEdges (a :: t) := by
      simp only [cycleEdges]
      cases t with
      | nil => simp
      | cons c t' => simp
    obtain ⟨f0, hf0, hr0⟩ := m1 _ h0mem
    -- lift edge paths to face paths
    have lift : ∀ e, Reach edgeAdj (cycleEdges (a :: t)) (a, (t ++ [a]).head (by simp)) e →
        ∀ f ∈ facesAt v (enum ts), rot v f.2 = some e → Reach fanAdj (facesAt v (enum ts)) f0 f := by
      intro e hr
      induction hr with
      | refl =>
        intro f hf hrf
        exact Reach.single hf (fanAdj_of_link (hnondeg f0 hf0) (hnondeg f hf) hr0 hrf (Or.inr rfl))
      | step hab hcm hadj ih =>
        rename_i b c
        intro f hf hrf
        have hbm : b ∈ cycleEdges (a :: t) := by
          rcases hab.eq_or_mem with h | h
          · exact h ▸ h0mem
          · exact h
        obtain ⟨fb, hfb, hrb⟩ := m1 b hbm
        have h1 := ih fb hfb hrb
        refine .step h1 hf (fanAdj_of_link (hnondeg fb hfb) (hnondeg f hf) hrb hrf (Or.inl ?_))
        simpa [edgeAdj] using hadj
    have hall : ∀ f ∈ facesAt v (enum ts), Reach fanAdj (facesAt v (enum ts)) f0 f := by
      intro f hf
      obtain ⟨e, he, hrf⟩ := m2 f hf
      exact lift e (hchain e he) f hf hrf
    intro s hs u hu
    have hback : Reach fanAdj (facesAt v (enum ts)) s f0 := by
      have := hall s hs
      clear hu
      induction this with
      | refl => exact .refl _
      | step hab hcm hadj ih =>
        rename_i b c
        have hb : b ∈ facesAt v (enum ts) := by
          rcases hab.eq_or_mem with h | h
          · exact h ▸ hf0
          · exact h
        exact Reach.trans (Reach.single hb (by rw [hsym c hcm b hb]; exact hadj)) (ih hb)
    exact Reach.trans hback (hall u hu)

end M3d.MeshDiag
