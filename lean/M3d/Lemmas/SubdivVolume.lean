import M3d.Lemmas.MeshOpsAlg
import Mathlib.Algebra.BigOperators.Group.List.Basic
/-!
`SubdivideEdges` keeps the enclosed signed volume: the `n²` sub-triangles of every face, as the
model `subdivideTri` (= the Go loops over `divideSegment`) emits them, add up to the face.
-/
set_option linter.unusedSectionVars false
namespace M3d.MeshOps
variable {K : Type} [Field K] [CharZero K]

/-- the i-th entry of `divideSegment` for `i < L`. -/
theorem divideSegment_getD (c1 c2 d : V3 K) (L i : Nat) (hi : i < L) :
    (divideSegment c1 c2 L).getD i d =
      if L = 1 then c1 else if i = 0 then c1 else if i + 1 = L then c2
        else lerp3 c1 c2 ((i : K) / ((L - 1 : Nat) : K)) := by
  unfold divideSegment
  by_cases h1 : L = 1
  · subst h1
    have : i = 0 := by omega
    subst this
    simp
  · simp only [h1, ↓reduceIte]
    rw [List.getD_eq_getElem?_getD, List.getElem?_map, List.getElem?_range hi]
    simp

theorem lerp3_zero (c1 c2 : V3 K) : lerp3 c1 c2 0 = c1 := by
  cases c1; cases c2; simp [lerp3, V3.add, V3.scale]

theorem lerp3_one (c1 c2 : V3 K) : lerp3 c1 c2 1 = c2 := by
  cases c1; cases c2; simp [lerp3, V3.add, V3.scale]

/-- for `L ≥ 2` every entry is the interpolation at `i/(L-1)` (end points included). -/
theorem divideSegment_getD_lerp (c1 c2 d : V3 K) (m i : Nat) (hi : i ≤ m + 1) :
    (divideSegment c1 c2 (m + 2)).getD i d = lerp3 c1 c2 ((i : K) / ((m + 1 : Nat) : K)) := by
  rw [divideSegment_getD c1 c2 d (m + 2) i (by omega)]
  have h1 : ¬ (m + 2 = 1) := by omega
  simp only [h1, ↓reduceIte]
  have e : m + 2 - 1 = m + 1 := by omega
  rw [e]
  by_cases h0 : i = 0
  · subst h0; simp [lerp3_zero]
  · simp only [h0, ↓reduceIte]
    by_cases h2 : i + 1 = m + 2
    · have : i = m + 1 := by omega
      subst this
      have hne : ((m + 1 : Nat) : K) ≠ 0 := Nat.cast_ne_zero.2 (by omega)
      rw [if_pos h2, div_self hne, lerp3_one]
    · rw [if_neg h2]

/-! ### the lattice points of one face -/

theorem bary_zero (n : K) (a b c : V3 K) : bary n a b c 0 0 = a := by
  cases a; simp [bary]

section Face
variable (m : Nat) (a b c d : V3 K)

/-- `P i j`: row `i`, position `j` of the lattice of the face `a b c` cut `n = m+1` times. -/
def latt (i j : Nat) : V3 K := bary ((m + 1 : Nat) : K) a b c (i : K) (j : K)

theorem side_getD (p q : V3 K) (i : Nat) (hi : i ≤ m + 1) :
    (divideSegment p q (m + 1 + 1)).getD i d = lerp3 p q ((i : K) / ((m + 1 : Nat) : K)) :=
  divideSegment_getD_lerp p q d m i hi

theorem row_getD (i j : Nat) (hi : i ≤ m + 1) (hj : j ≤ i) :
    (divideSegment ((divideSegment a b (m + 1 + 1)).getD i d) ((divideSegment a c (m + 1 + 1)).getD i d) (i + 1)).getD j d
      = latt m a b c i j := by
  have hn : ((m + 1 : Nat) : K) ≠ 0 := Nat.cast_ne_zero.2 (by omega)
  rw [side_getD m d a b i hi, side_getD m d a c i hi]
  cases i with
  | zero =>
    have : j = 0 := by omega
    subst this
    rw [divideSegment_getD _ _ d 1 0 (by omega)]
    simp only [↓reduceIte, latt, Nat.cast_zero, zero_div, lerp3_zero, bary_zero]
  | succ i' =>
    rw [divideSegment_getD_lerp _ _ d i' j (by omega)]
    have hi0 : ((i' + 1 : Nat) : K) ≠ 0 := Nat.cast_ne_zero.2 (by omega)
    exact row_point_eq_bary _ _ _ hn hi0 a b c

end Face

/-! ### sums -/

def det3 (t : V3 K × V3 K × V3 K) : K := V3.det t.1 t.2.1 t.2.2

theorem foldl_add_eq (g : V3 K × V3 K × V3 K → K) (l : List (V3 K × V3 K × V3 K)) (x : K) :
    l.foldl (fun acc t => acc + g t) x = x + (l.map g).sum := by
  induction l generalizing x with
  | nil => simp
  | cons t l ih => simp [List.foldl_cons, ih, add_assoc]

theorem volume6_eq_sum (ts : List (V3 K × V3 K × V3 K)) : volume6 ts = (ts.map det3).sum := by
  have := foldl_add_eq det3 ts 0
  simpa [volume6, det3] using this

theorem sum_map_flatMap {α β : Type} (f : α → List β) (g : β → K) (l : List α) :
    ((l.flatMap f).map g).sum = (l.map fun x => ((f x).map g).sum).sum := by
  induction l with
  | nil => simp
  | cons x l ih => simp [List.flatMap_cons, ih]

theorem sum_row (D : K) (k : Nat) :
    ((List.range (k + 1)).map fun j => if j > 0 then D + D else D).sum = (2 * (k : K) + 1) * D := by
  induction k with
  | zero => simp
  | succ k ih =>
    rw [List.range_succ, List.map_append, List.sum_append, ih]
    simp
    ring

theorem sum_rows (D : K) (n : Nat) :
    ((List.range n).map fun (i : Nat) => (2 * (i : K) + 1) * D).sum = (n : K) * (n : K) * D := by
  induction n with
  | zero => simp
  | succ n ih =>
    rw [List.range_succ, List.map_append, List.sum_append, ih]
    simp
    ring

/-- **Every face of `SubdivideEdges(n)` keeps its signed volume**: the `n²` sub-triangles the
code emits for the face `a b c` have signed volumes adding up to that of `a b c`. -/
theorem subdivideTri_volume (m : Nat) (d a b c : V3 K) :
    volume6 (subdivideTri (m + 1) d (a, b, c)) = V3.det a b c := by
  have hn : ((m + 1 : Nat) : K) ≠ 0 := Nat.cast_ne_zero.2 (by omega)
  set D : K := V3.det a b c / (((m + 1 : Nat) : K) * ((m + 1 : Nat) : K)) with hD
  rw [volume6_eq_sum]
  unfold subdivideTri
  simp only
  rw [sum_map_flatMap]
  have hrow : ∀ i ∈ List.range (m + 1),
      (((List.range (i + 1)).flatMap fun j =>
          ((divideSegment ((divideSegment a b (m + 1 + 1)).getD i d) ((divideSegment a c (m + 1 + 1)).getD i d) (i + 1)).getD j d,
            (divideSegment ((divideSegment a b (m + 1 + 1)).getD (i + 1) d) ((divideSegment a c (m + 1 + 1)).getD (i + 1) d) (i + 2)).getD j d,
            (divideSegment ((divideSegment a b (m + 1 + 1)).getD (i + 1) d) ((divideSegment a c (m + 1 + 1)).getD (i + 1) d) (i + 2)).getD (j + 1) d) ::
          (if j > 0 then
            [((divideSegment ((divideSegment a b (m + 1 + 1)).getD i d) ((divideSegment a c (m + 1 + 1)).getD i d) (i + 1)).getD j d,
              (divideSegment ((divideSegment a b (m + 1 + 1)).getD i d) ((divideSegment a c (m + 1 + 1)).getD i d) (i + 1)).getD (j - 1) d,
              (divideSegment ((divideSegment a b (m + 1 + 1)).getD (i + 1) d) ((divideSegment a c (m + 1 + 1)).getD (i + 1) d) (i + 2)).getD j d)]
          else [])).map det3).sum = (2 * (i : K) + 1) * D := by
    intro i hi
    have hi' : i < m + 1 := List.mem_range.1 hi
    rw [sum_map_flatMap, ← sum_row D i]
    congr 1
    apply List.map_congr_left
    intro j hj
    have hj' : j < i + 1 := List.mem_range.1 hj
    rw [row_getD m a b c d i j (by omega) (by omega), row_getD m a b c d (i + 1) j (by omega) (by omega),
      row_getD m a b c d (i + 1) (j + 1) (by omega) (by omega)]
    have hup : det3 (latt m a b c i j, latt m a b c (i + 1) j, latt m a b c (i + 1) (j + 1)) = D := by
      simp only [det3, latt]
      push_cast
      have := det_up ((m : K) + 1) (i : K) (j : K) (by exact_mod_cast hn) a b c
      simpa [hD] using this
    by_cases h0 : j > 0
    · rw [row_getD m a b c d i (j - 1) (by omega) (by omega)]
      have hdown : det3 (latt m a b c i j, latt m a b c i (j - 1), latt m a b c (i + 1) j) = D := by
        simp only [det3, latt]
        have hc : ((j - 1 : Nat) : K) = (j : K) - 1 := by
          rw [Nat.cast_sub (by omega)]; simp
        rw [hc]
        push_cast
        have := det_down ((m : K) + 1) (i : K) (j : K) (by exact_mod_cast hn) a b c
        simpa [hD] using this
      simp only [h0, ↓reduceIte, List.map_cons, List.map_nil, List.sum_cons, List.sum_nil, add_zero, hup, hdown]
    · simp only [h0, ↓reduceIte, List.map_cons, List.map_nil, List.sum_cons, List.sum_nil, add_zero, hup]
  rw [List.map_congr_left hrow, sum_rows]
  rw [hD]
  field_simp

/-- **`SubdivideEdges(n)` keeps the enclosed signed volume** of every triangle soup, `n ≥ 1`. -/
theorem subdivideEdges_volume (m : Nat) (d : V3 K) (ts : List (V3 K × V3 K × V3 K)) :
    volume6 (subdivideEdges (m + 1) d ts) = volume6 ts := by
  rw [volume6_eq_sum, volume6_eq_sum]
  unfold subdivideEdges
  rw [sum_map_flatMap]
  congr 1
  apply List.map_congr_left
  intro t _
  obtain ⟨a, b, c⟩ := t
  rw [← volume6_eq_sum, subdivideTri_volume]
  rfl

end M3d.MeshOps
