import M3d.Lemmas.CodecPly
import M3d.Lemmas.CodecText
import M3d.Model.CodecSpec
import Mathlib.Tactic.NormNum
/-!
# OFF text written to the specification is read back (`off_spec`)
-/
namespace M3d.Codec

theorem parseInt_fmtNat (n : Nat) (h : n < 2 ^ 63) : parseIntN 64 (fmtNat n) = some (n : Int) := by
  have := parseIntN_fmtInt 64 (n : Int) (by omega) (by
    have : (2 : Nat) ^ (64 - 1) = 2 ^ 63 := rfl
    rw [this]; exact_mod_cast h)
  have e : fmtInt (n : Int) = fmtNat n := by
    unfold fmtInt
    have : ¬ ((n : Int) < 0) := by omega
    rw [if_neg this, Int.natAbs_natCast]
  rw [e] at this
  exact this

theorem isToken_fmtNat (n : Nat) : IsToken (fmtNat n) :=
  ⟨(fmtNat_bytes n).1, fun b hb => ((fmtNat_bytes n).2 b hb).2⟩

/-- a float64 word whose text is a token that parses back to it -/
structure Word64OK (fmt64 : Nat → Bytes) (pf64 : Bytes → Option UInt64) (x : UInt64) : Prop where
  tok : IsToken (fmt64 x.toNat)
  parse : pf64 (fmt64 x.toNat) = some x

def V3OK (fmt64 : Nat → Bytes) (pf64 : Bytes → Option UInt64) (v : V3) : Prop :=
  Word64OK fmt64 pf64 v.1 ∧ Word64OK fmt64 pf64 v.2.1 ∧ Word64OK fmt64 pf64 v.2.2

def offVertLine (fmt64 : Nat → Bytes) (v : V3) : Bytes :=
  line [fmt64 v.1.toNat, fmt64 v.2.1.toNat, fmt64 v.2.2.toNat]

def offFaceLine (f : List Nat) : Bytes := line (fmtNat f.length :: f.map fmtNat)

theorem offReadVerts_spec (fmt64 : Nat → Bytes) (pf64 : Bytes → Option UInt64) (verts : List V3)
    (hv : ∀ v ∈ verts, V3OK fmt64 pf64 v) (rest : Bytes) :
    offReadVerts pf64 verts.length (verts.flatMap (offVertLine fmt64) ++ rest) = some (verts, rest) := by
  induction verts with
  | nil => simp [offReadVerts]
  | cons v vs ih =>
    obtain ⟨h1, h2, h3⟩ := hv v List.mem_cons_self
    have htok : ∀ t ∈ [fmt64 v.1.toNat, fmt64 v.2.1.toNat, fmt64 v.2.2.toNat], IsToken t := by
      simp only [List.mem_cons, List.not_mem_nil, or_false, forall_eq_or_imp, forall_eq]
      exact ⟨h1.tok, h2.tok, h3.tok⟩
    have e : offVertLine fmt64 v = line [fmt64 v.1.toNat, fmt64 v.2.1.toNat, fmt64 v.2.2.toNat] := rfl
    rw [List.flatMap_cons, List.append_assoc, List.length_cons, offReadVerts, e]
    rw [readLine_line _ htok]
    simp only [fields_line _ htok]
    simp only [List.mapM_cons, List.mapM_nil, h1.parse, h2.parse, h3.parse]
    simp only [Option.pure_def, Option.bind_eq_bind, Option.bind_some]
    rw [ih (fun v' hv' => hv v' (List.mem_cons_of_mem _ hv'))]

theorem mapM_index (vs : List V3) (f : List Nat) (hf : ∀ i ∈ f, i < vs.length) (hl : vs.length < 2 ^ 63) :
    (f.map fmtNat).mapM (fun t => (parseIntN 64 t).bind fun i =>
      if 0 ≤ i ∧ i < (vs.length : Int) then vs[i.toNat]? else none) =
    some (f.map fun i => vs.getD i (0, 0, 0)) := by
  induction f with
  | nil => simp
  | cons i f ih =>
    have hi := hf i List.mem_cons_self
    rw [List.map_cons, List.mapM_cons, parseInt_fmtNat i (by omega)]
    simp only [Option.bind_eq_bind, Option.bind_some]
    have hc : (0 : Int) ≤ (i : Int) ∧ (i : Int) < (vs.length : Int) := ⟨by omega, by exact_mod_cast hi⟩
    rw [if_pos hc, Int.toNat_natCast, List.getElem?_eq_getElem hi]
    simp only [Option.bind_some]
    rw [ih (fun j hj => hf j (List.mem_cons_of_mem _ hj))]
    simp [List.getD, List.getElem?_eq_getElem hi]

theorem offReadFaces_spec (vs : List V3) (faces : List (List Nat)) (hl : vs.length < 2 ^ 63)
    (hf : ∀ f ∈ faces, f.length < 2 ^ 63 ∧ ∀ i ∈ f, i < vs.length) (rest : Bytes) :
    offReadFaces vs faces.length (faces.flatMap offFaceLine ++ rest) =
      some (faces.map fun f => f.map fun i => vs.getD i (0, 0, 0)) := by
  induction faces with
  | nil => simp [offReadFaces]
  | cons f fs ih =>
    obtain ⟨hlen, hidx⟩ := hf f List.mem_cons_self
    have htok : ∀ t ∈ fmtNat f.length :: f.map fmtNat, IsToken t := by
      intro t ht
      rcases List.mem_cons.mp ht with rfl | ht
      · exact isToken_fmtNat _
      · obtain ⟨i, _, rfl⟩ := List.mem_map.mp ht
        exact isToken_fmtNat _
    have e : offFaceLine f = line (fmtNat f.length :: f.map fmtNat) := rfl
    rw [List.flatMap_cons, List.append_assoc, List.length_cons, offReadFaces, e]
    rw [readLine_line _ htok]
    simp only [fields_line _ htok]
    rw [parseInt_fmtNat _ hlen]
    simp only [List.length_map, ne_eq, not_true_eq_false, if_false]
    rw [mapM_index vs f hidx hl, ih (fun f' hf' => hf f' (List.mem_cons_of_mem _ hf'))]
    simp

/-- **OFF text written to the specification is read back** (`off_spec`): header `OFF`, the counts line,
one line per vertex, one line `k i1 … ik` per face.  `NewOFFReader` + `ReadFace` × NumFaces return the
faces in order, each corner being the vertex with the written index (coordinates = the parser's reading
of their text, which is the coordinate itself under Go's float text law). -/
theorem offDecode_spec (fmt64 : Nat → Bytes) (pf64 : Bytes → Option UInt64) (verts : List V3)
    (faces : List (List Nat)) (hv : ∀ v ∈ verts, V3OK fmt64 pf64 v)
    (hnv : verts.length < 2 ^ 63) (hnf : faces.length < 2 ^ 63)
    (hf : ∀ f ∈ faces, f.length < 2 ^ 63 ∧ ∀ i ∈ f, i < verts.length) :
    offDecode pf64 (offSpec fmt64 verts faces) =
      some (faces.map fun f => f.map fun i => verts.getD i (0, 0, 0)) := by
  have hOFF : line [ascii "OFF"] = [79, 70, 70, 10] := by decide
  have htokOFF : ∀ t ∈ [ascii "OFF"], IsToken t := by
    simp only [List.mem_cons, List.not_mem_nil, or_false, forall_eq]
    unfold IsToken; decide
  have htok2 : ∀ t ∈ [fmtNat verts.length, fmtNat faces.length, fmtNat 0], IsToken t := by
    simp only [List.mem_cons, List.not_mem_nil, or_false, forall_eq_or_imp, forall_eq]
    exact ⟨isToken_fmtNat _, isToken_fmtNat _, isToken_fmtNat _⟩
  have hhdr : offHeader (offSpec fmt64 verts faces) =
      some (verts.length, faces.length,
        verts.flatMap (offVertLine fmt64) ++ (faces.flatMap offFaceLine ++ [])) := by
    unfold offHeader offSpec
    rw [List.append_assoc, List.append_assoc, readLine_line _ htokOFF]
    simp only [hOFF]
    have hp : (ascii "OFF").isPrefixOf [79, 70, 70, 10] = true := by decide
    simp only [hp, Bool.not_true, Bool.false_eq_true, if_false, List.length_cons, List.length_nil]
    norm_num
    rw [readLine_line _ htok2]
    simp only [fields_line _ htok2, parseInt_fmtNat _ hnv, parseInt_fmtNat _ hnf]
    simp
    rfl
  unfold offDecode
  rw [hhdr]
  simp only
  split_ifs with h0
  · have : faces = [] := List.eq_nil_of_length_eq_zero h0
    subst this; rfl
  · rw [offReadVerts_spec fmt64 pf64 verts hv]
    simp only
    exact offReadFaces_spec verts faces hnv hf []
end M3d.Codec
