import M3d.Model.ArapOp
import Mathlib.Data.List.Perm.Subperm
import Mathlib.Data.List.Nodup
/-!
Lemmas about the constraint bookkeeping of `ARAP` (`M3d/Model/ArapOp.lean`): the index maps built
by `newARAPOperator` mark exactly the constrained vertices, `Update` returns the operator a fresh
`newARAPOperator` would build (so the cache of `SeqDeformer` is transparent), and `Unsqueeze` puts
every constrained vertex on its target.
-/
namespace M3d.ArapOp
variable {P : Type}

def keys (cons : List (Nat × P)) : List Nat := cons.map (·.1)

theorem hasKey_iff (cons : List (Nat × P)) (i : Nat) : hasKey cons i = true ↔ i ∈ keys cons := by
  simp only [hasKey, keys, List.any_eq_true, List.mem_map, beq_iff_eq]

theorem lookup_of_mem {cons : List (Nat × P)} (hnd : (keys cons).Nodup) {k : Nat} {p : P}
    (h : (k, p) ∈ cons) : lookup cons k = some p := by
  induction cons with
  | nil => cases h
  | cons hd tl ih =>
    simp only [keys, List.map_cons, List.nodup_cons] at hnd
    by_cases hk : hd.1 = k
    · have : hd = (k, p) := by
        rcases List.mem_cons.1 h with h | h
        · exact h.symm
        · exact absurd (List.mem_map.2 ⟨(k, p), h, rfl⟩) (hk ▸ hnd.1)
      subst this
      simp [lookup]
    · have hmem : (k, p) ∈ tl := by
        rcases List.mem_cons.1 h with h | h
        · exact absurd (by rw [← h]) hk
        · exact h
      have := ih hnd.2 hmem
      simp only [lookup, List.find?_cons] at this ⊢
      have hb : (hd.1 == k) = false := by simpa using hk
      rw [hb]
      exact this

/-! ### `newARAPOperator` -/

theorem build_snd_isNone (cst : Nat → Bool) (is s : List Nat) (f : List (Option Nat)) :
    (build cst is s f).2.map Option.isNone = f.map Option.isNone ++ is.map cst := by
  induction is generalizing s f with
  | nil => simp [build]
  | cons i is ih =>
    unfold build
    by_cases h : cst i = true
    · simp only [h, if_true]
      rw [ih]; simp [h]
    · have h' : cst i = false := by simpa using h
      simp only [h', Bool.false_eq_true, if_false]
      rw [ih]; simp [h']

theorem newOp_f2s_isNone (n : Nat) (cons : List (Nat × P)) :
    (newOp n cons).f2s.map Option.isNone = (List.range n).map (hasKey cons) := by
  simp [newOp, build_snd_isNone]

theorem newOp_f2s_length (n : Nat) (cons : List (Nat × P)) : (newOp n cons).f2s.length = n := by
  have := congrArg List.length (newOp_f2s_isNone n cons)
  simpa using this

/-- `fullToSqueezed[i] = -1` exactly at the constrained vertices. -/
theorem newOp_f2s_none (n : Nat) (cons : List (Nat × P)) {i : Nat} (hi : i < n) :
    (newOp n cons).f2s.getD i none = none ↔ hasKey cons i = true := by
  have h := congrArg (fun l => l[i]?) (newOp_f2s_isNone n cons)
  simp only [List.getElem?_map, List.getElem?_range hi, Option.map_some] at h
  have hl : i < (newOp n cons).f2s.length := by rw [newOp_f2s_length]; exact hi
  rw [List.getD_eq_getElem?_getD, List.getElem?_eq_getElem hl] at *
  simp only [Option.map_some, Option.some.injEq, Option.getD_some] at h ⊢
  rw [← h]
  cases (newOp n cons).f2s[i] <;> simp

/-- The index maps depend on the constraint KEYS only. -/
theorem newOp_congr (n : Nat) {c1 c2 : List (Nat × P)} (h : ∀ i, hasKey c1 i = hasKey c2 i) :
    (newOp n c1).s2f = (newOp n c2).s2f ∧ (newOp n c1).f2s = (newOp n c2).f2s := by
  have : hasKey c1 = hasKey c2 := funext h
  simp [newOp, this]

/-! ### `Update` -/

/-- Same number of (distinct) keys and every new key is an old key ⇒ the key sets coincide. -/
theorem keys_eq_of_subset {c1 c2 : List (Nat × P)} (h1 : (keys c1).Nodup)
    (hlen : c1.length = c2.length) (hsub : ∀ i, hasKey c1 i = true → hasKey c2 i = true) :
    ∀ i, hasKey c1 i = hasKey c2 i := by
  have hs : keys c1 ⊆ keys c2 := fun i hi => (hasKey_iff c2 i).1 (hsub i ((hasKey_iff c1 i).2 hi))
  have hp : (keys c1).Perm (keys c2) :=
    (List.subperm_of_subset h1 hs).perm_of_length_le (by simp [keys, hlen])
  intro i
  have : i ∈ keys c1 ↔ i ∈ keys c2 := hp.mem_iff
  rw [Bool.eq_iff_iff, hasKey_iff, hasKey_iff]
  exact this

/-- `op` is what `newARAPOperator` builds for its own constraints. -/
def Fresh (op : Op P) : Prop := op = newOp op.n op.cons

theorem newOp_fresh (n : Nat) (cons : List (Nat × P)) : Fresh (newOp n cons) := rfl

/-- **`Update` returns the operator a fresh `newARAPOperator` would build** (Go maps have
distinct keys): the reuse of the index maps and of the factorisation is transparent. -/
theorem update_eq_newOp {op : Op P} (hf : Fresh op)
    {cons : List (Nat × P)} (hc : (keys cons).Nodup) : update op cons = newOp op.n cons := by
  unfold update
  by_cases h1 : cons.length ≠ op.cons.length
  · simp [h1]
  · simp only [h1, if_false]
    by_cases h2 : (cons.any fun kv => !hasKey op.cons kv.1) = true
    · simp [h2]
    · simp only [h2]
      have hsub : ∀ i, hasKey cons i = true → hasKey op.cons i = true := by
        intro i hi
        rw [hasKey_iff] at hi
        obtain ⟨kv, hkv, rfl⟩ := List.mem_map.1 hi
        by_contra hne
        exact h2 (List.any_eq_true.2 ⟨kv, hkv, by simpa using hne⟩)
      have hk := keys_eq_of_subset hc (not_not.1 h1) hsub
      obtain ⟨hs, hf2⟩ := newOp_congr (P := P) op.n hk
      have e : op = newOp op.n op.cons := hf
      have e1 : op.s2f = (newOp op.n op.cons).s2f := by rw [← e]
      have e2 : op.f2s = (newOp op.n op.cons).f2s := by rw [← e]
      cases op with
      | mk n c s f =>
        simp only at hs hf2 e1 e2 ⊢
        rw [e1, e2, ← hs, ← hf2]
        rfl

/-! ### `Unsqueeze` -/

theorem unsqueeze_getElem? (op : Op P) (z : P) (sq : List P) {i : Nat} (hi : i < op.f2s.length) :
    (unsqueeze op z sq)[i]? = some (unsqueezeAt op z sq i) := by
  simp [unsqueeze, List.getElem?_map, List.getElem?_range hi]

/-- **`Unsqueeze` of a fresh operator puts every constrained vertex exactly on its target**,
whatever the squeezed vector is. -/
theorem unsqueeze_newOp_constraint (n : Nat) {cons : List (Nat × P)} (hc : (keys cons).Nodup)
    (z : P) (sq : List P) {k : Nat} {p : P} (h : (k, p) ∈ cons) (hk : k < n) :
    (unsqueeze (newOp n cons) z sq)[k]? = some p := by
  have hl : k < (newOp n cons).f2s.length := by rw [newOp_f2s_length]; exact hk
  rw [unsqueeze_getElem? _ _ _ hl]
  have hkey : hasKey cons k = true := (hasKey_iff cons k).2 (List.mem_map.2 ⟨(k, p), h, rfl⟩)
  unfold unsqueezeAt
  rw [(newOp_f2s_none n cons hk).2 hkey]
  have : (newOp n cons).cons = cons := rfl
  simp [this, lookup_of_mem hc h]

/-- A free vertex takes its value from the squeezed vector (the solver), not from the constraints. -/
theorem unsqueeze_newOp_free (n : Nat) (cons : List (Nat × P)) (z : P) (sq : List P) {k : Nat}
    (hk : k < n) (hfree : hasKey cons k = false) :
    ∃ s, (newOp n cons).f2s.getD k none = some s ∧ (unsqueeze (newOp n cons) z sq)[k]? = some (sq.getD s z) := by
  have hl : k < (newOp n cons).f2s.length := by rw [newOp_f2s_length]; exact hk
  have hne : (newOp n cons).f2s.getD k none ≠ none := by
    intro h
    have := (newOp_f2s_none n cons hk).1 h
    rw [hfree] at this; cases this
  obtain ⟨s, hs⟩ := Option.ne_none_iff_exists'.1 hne
  refine ⟨s, hs, ?_⟩
  rw [unsqueeze_getElem? _ _ _ hl]
  unfold unsqueezeAt
  rw [hs]

/-! ### `SeqDeformer` -/

/-- The state of a sequential deformer between two calls. -/
def SeqInv (n : Nat) (st : Option (Op P) × List P) : Prop :=
  ∀ op, st.1 = some op → Fresh op ∧ op.n = n

/-- One call with the cache behaves like one call that always builds a new operator. -/
theorem seqCall_update (n : Nat) (z : P) (solve : Op P → List P → List P)
    {st : Option (Op P) × List P} (hst : SeqInv n st) {cons : List (Nat × P)} (hc : (keys cons).Nodup) :
    seqCall update n z solve st cons =
        (some (newOp n cons), unsqueeze (newOp n cons) z (solve (newOp n cons) st.2)) ∧
      SeqInv n (seqCall update n z solve st cons) := by
  have hop : seqOp update n st.1 cons = newOp n cons := by
    cases h : st.1 with
    | none => rfl
    | some op =>
      obtain ⟨hf, hn⟩ := hst op h
      simp only [seqOp]
      rw [update_eq_newOp hf hc, hn]
  have e : seqCall update n z solve st cons =
      (some (newOp n cons), unsqueeze (newOp n cons) z (solve (newOp n cons) st.2)) := by
    simp only [seqCall, hop]
  refine ⟨e, ?_⟩
  rw [e]
  intro op h
  cases h
  exact ⟨newOp_fresh n cons, rfl⟩

theorem seqFrames_meet (n : Nat) (z : P) (solve : Op P → List P → List P)
    (frames : List (List (Nat × P))) (hnd : ∀ f ∈ frames, (keys f).Nodup)
    (st : Option (Op P) × List P) (hst : SeqInv n st) :
    ∀ fr ∈ seqFrames update n z solve st frames, ∀ kp ∈ fr.1, kp.1 < n → fr.2[kp.1]? = some kp.2 := by
  induction frames generalizing st with
  | nil => intro fr h; cases h
  | cons c rest ih =>
    intro fr h
    have hc := hnd c (List.mem_cons_self ..)
    obtain ⟨e, hinv⟩ := seqCall_update n z solve hst hc
    simp only [seqFrames, List.mem_cons] at h
    rcases h with h | h
    · subst h
      intro kp hkp hlt
      simp only
      rw [e]
      exact unsqueeze_newOp_constraint n hc z _ (k := kp.1) (p := kp.2) hkp hlt
    · exact ih (fun f hf => hnd f (List.mem_cons_of_mem _ hf)) _ hinv fr h

/-- **The cache of `SeqDeformer` is transparent**: the frames computed with `Update` are the
frames computed by building a new operator for every call. -/
theorem seqFrames_update_eq (n : Nat) (z : P) (solve : Op P → List P → List P)
    (frames : List (List (Nat × P))) (hnd : ∀ f ∈ frames, (keys f).Nodup)
    (st : Option (Op P) × List P) (hst : SeqInv n st) :
    seqFrames update n z solve st frames = seqFrames (fun _ c => newOp n c) n z solve st frames := by
  induction frames generalizing st with
  | nil => rfl
  | cons c rest ih =>
    have hc := hnd c (List.mem_cons_self ..)
    obtain ⟨e, hinv⟩ := seqCall_update n z solve hst hc
    have e' : seqCall (fun _ c => newOp n c) n z solve st c = seqCall update n z solve st c := by
      rw [e]
      have : seqOp (fun _ c => newOp n c) n st.1 c = newOp n c := by
        cases st.1 <;> rfl
      simp only [seqCall, this]
    simp only [seqFrames, e']
    rw [ih (fun f hf => hnd f (List.mem_cons_of_mem _ hf)) _ hinv]

theorem seqInv_init (n : Nat) (cur : List P) : SeqInv n ((none : Option (Op P)), cur) := by
  intro op h; cases h

end M3d.ArapOp
