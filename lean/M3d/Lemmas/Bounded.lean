import M3d.Model.Bounded
import Mathlib.Tactic.Ring
import Mathlib.Tactic.Linarith
import Mathlib.Tactic.FieldSimp
import Mathlib.Tactic.LinearCombination
import Mathlib.Algebra.Order.Field.Basic
/-!
# Lemmas behind C03: boxes, folds of `Min`/`Max`, one lemma per combinator.

Everything is for an arbitrary linear ordered field `K` (so for ℚ — the instance the driver
executes — and for ℝ).
-/
set_option linter.unusedSectionVars false
set_option linter.unusedVariables false
namespace M3d.Bd

variable {K : Type} [Field K] [LinearOrder K] [IsStrictOrderedRing K]

/-! ## Axes, points -/

theorem fin3 (i : Fin 3) : i = 0 ∨ i = 1 ∨ i = 2 := by
  rcases i with ⟨v, hv⟩
  have : v = 0 ∨ v = 1 ∨ v = 2 := by omega
  rcases this with rfl | rfl | rfl <;> simp

@[simp] theorem get0 (x y z : K) : (mk3 x y z) 0 = x := rfl
@[simp] theorem get1 (x y z : K) : (mk3 x y z) 1 = y := rfl
@[simp] theorem get2 (x y z : K) : (mk3 x y z) 2 = z := rfl

theorem smin_eq (a b : K) : smin a b = min a b := (min_def a b).symm
theorem smax_eq (a b : K) : smax a b = max a b := (max_def a b).symm
theorem sabs_eq (a : K) : sabs a = |a| := by
  unfold sabs
  split_ifs with h
  · exact (abs_of_nonneg h).symm
  · exact (abs_of_neg (not_le.mp h)).symm

theorem pmin_get (a b : Pt K) (i : Fin 3) : (pmin a b) i = min (a i) (b i) := by
  rcases fin3 i with rfl | rfl | rfl <;> simp [pmin, smin_eq]
theorem pmax_get (a b : Pt K) (i : Fin 3) : (pmax a b) i = max (a i) (b i) := by
  rcases fin3 i with rfl | rfl | rfl <;> simp [pmax, smax_eq]
theorem padd_get (a b : Pt K) (i : Fin 3) : (padd a b) i = a i + b i := by
  rcases fin3 i with rfl | rfl | rfl <;> simp [padd]
theorem psub_get (a b : Pt K) (i : Fin 3) : (psub a b) i = a i - b i := by
  rcases fin3 i with rfl | rfl | rfl <;> simp [psub]
theorem pmul_get (a b : Pt K) (i : Fin 3) : (pmul a b) i = a i * b i := by
  rcases fin3 i with rfl | rfl | rfl <;> simp [pmul]
theorem pscale_get (a : Pt K) (s : K) (i : Fin 3) : (pscale a s) i = a i * s := by
  rcases fin3 i with rfl | rfl | rfl <;> simp [pscale]
theorem paddS_get (a : Pt K) (s : K) (i : Fin 3) : (paddS a s) i = a i + s := by
  rcases fin3 i with rfl | rfl | rfl <;> simp [paddS]
theorem precip_get (a : Pt K) (i : Fin 3) : (precip a) i = 1 / a i := by
  rcases fin3 i with rfl | rfl | rfl <;> simp [precip]

theorem Pt.ext' {a b : Pt K} (h : ∀ i, a i = b i) : a = b := by
  cases a; cases b
  have h0 := h 0; have h1 := h 1; have h2 := h 2
  simp [Pt.get] at h0 h1 h2
  simp [h0, h1, h2]

theorem mk3_eta (p : Pt K) : mk3 (p 0) (p 1) (p 2) = p := by
  apply Pt.ext'; intro i; rcases fin3 i with rfl | rfl | rfl <;> simp

/-! ## Boxes -/

/-- axis `i` is one the solid uses: `X`, `Y` always, `Z` only in 3D -/
def Active (d3 : Bool) (i : Fin 3) : Prop := i.val < 2 ∨ d3 = true

theorem active_and {x y : Bool} {i : Fin 3} (h : Active (x && y) i) : Active x i ∧ Active y i := by
  rcases h with h | h
  · exact ⟨Or.inl h, Or.inl h⟩
  · simp at h; exact ⟨Or.inr h.1, Or.inr h.2⟩

theorem active0 (d3 : Bool) : Active d3 0 := Or.inl (by decide)
theorem active1 (d3 : Bool) : Active d3 1 := Or.inl (by decide)
theorem active_true (i : Fin 3) : Active true i := Or.inr rfl

/-- `p` is inside the closed box on every axis the solid uses -/
def InBox (d3 : Bool) (b : Box K) (p : Pt K) : Prop := ∀ i, Active d3 i → b.lo i ≤ p i ∧ p i ≤ b.hi i

theorem axisOk_iff (b : Box K) (p : Pt K) (i : Fin 3) : axisOk b p i = true ↔ b.lo i ≤ p i ∧ p i ≤ b.hi i := by
  simp [axisOk]

theorem inB_iff (d3 : Bool) (b : Box K) (p : Pt K) : inB d3 b p = true ↔ InBox d3 b p := by
  unfold inB InBox
  simp only [Bool.and_eq_true, Bool.or_eq_true, Bool.not_eq_true', axisOk_iff]
  constructor
  · rintro ⟨⟨h0, h1⟩, h2⟩ i hi
    rcases fin3 i with rfl | rfl | rfl
    · exact h0
    · exact h1
    · rcases h2 with h2 | h2
      · rcases hi with hi | hi
        · exact absurd hi (by decide)
        · rw [h2] at hi; exact absurd hi (by decide)
      · exact h2
  · intro h
    refine ⟨⟨h 0 (active0 _), h 1 (active1 _)⟩, ?_⟩
    cases d3
    · exact Or.inl rfl
    · exact Or.inr (h 2 (active_true _))

/-- the solid answers `false` outside its reported box -/
def Bounded (s : Solid K) : Prop := ∀ p, s.f p = true → InBox s.d3 s.box p
/-- `Min() ≤ Max()` on every axis the solid uses (`BoundsValid`'s order test) -/
def Ordered (s : Solid K) : Prop := ∀ i, Active s.d3 i → s.box.lo i ≤ s.box.hi i

theorem boxValid_iff (d3 : Bool) (b : Box K) : boxValid d3 b = true ↔ ∀ i, Active d3 i → b.lo i ≤ b.hi i := by
  unfold boxValid
  simp only [Bool.and_eq_true, Bool.or_eq_true, Bool.not_eq_true', decide_eq_true_eq]
  constructor
  · rintro ⟨⟨h0, h1⟩, h2⟩ i hi
    rcases fin3 i with rfl | rfl | rfl
    · exact h0
    · exact h1
    · rcases h2 with h2 | h2
      · rcases hi with hi | hi
        · exact absurd hi (by decide)
        · rw [h2] at hi; exact absurd hi (by decide)
      · exact h2
  · intro h
    refine ⟨⟨h 0 (active0 _), h 1 (active1 _)⟩, ?_⟩
    cases d3
    · exact Or.inl rfl
    · exact Or.inr (h 2 (active_true _))

/-! ## Wrappers: `CheckedFuncSolid`, `ForceSolidBounds`, `CacheSolidBounds` -/

theorem checked_bounded (d3 : Bool) (box : Box K) (g : Pt K → Bool) : Bounded (checkedS d3 box g) := by
  intro p hp
  simp only [checkedS, Bool.and_eq_true] at hp
  exact (inB_iff _ _ _).mp hp.1

theorem checked_f (d3 : Bool) (box : Box K) (g : Pt K → Bool) (p : Pt K) :
    (checkedS d3 box g).f p = true ↔ InBox d3 box p ∧ g p = true := by
  simp [checkedS, inB_iff]

theorem force_bounded (s : Solid K) (box : Box K) : Bounded (forceS s box) := checked_bounded _ _ _
theorem cache_bounded (s : Solid K) : Bounded (cacheS s) := checked_bounded _ _ _

theorem cache_no_cut (s : Solid K) (hs : Bounded s) (p : Pt K) (hp : s.f p = true) : (cacheS s).f p = true := by
  unfold cacheS forceS
  rw [checked_f]
  exact ⟨hs p hp, hp⟩

theorem cache_f_iff (s : Solid K) (hs : Bounded s) (p : Pt K) : (cacheS s).f p = s.f p := by
  cases h : s.f p
  · cases h' : (cacheS s).f p
    · rfl
    · unfold cacheS forceS at h'
      rw [checked_f] at h'
      rw [h'.2] at h; exact absurd h (by decide)
  · exact cache_no_cut s hs p h

/-! ## Folds of `Min` / `Max` -/

theorem foldl_union_lo (rest : List (Solid K)) (acc : Box K) (i : Fin 3) :
    (rest.foldl (fun b s => boxUnion b s.box) acc).lo i ≤ acc.lo i ∧
    ∀ s ∈ rest, (rest.foldl (fun b s => boxUnion b s.box) acc).lo i ≤ s.box.lo i := by
  induction rest generalizing acc with
  | nil => simp
  | cons s ss ih =>
    simp only [List.foldl_cons, List.mem_cons, forall_eq_or_imp]
    have h := ih (boxUnion acc s.box)
    have hu : (boxUnion acc s.box).lo i = min (acc.lo i) (s.box.lo i) := by simp [boxUnion, pmin_get]
    refine ⟨le_trans h.1 (hu ▸ min_le_left _ _), le_trans h.1 (hu ▸ min_le_right _ _), h.2⟩

theorem foldl_union_hi (rest : List (Solid K)) (acc : Box K) (i : Fin 3) :
    acc.hi i ≤ (rest.foldl (fun b s => boxUnion b s.box) acc).hi i ∧
    ∀ s ∈ rest, s.box.hi i ≤ (rest.foldl (fun b s => boxUnion b s.box) acc).hi i := by
  induction rest generalizing acc with
  | nil => simp
  | cons s ss ih =>
    simp only [List.foldl_cons, List.mem_cons, forall_eq_or_imp]
    have h := ih (boxUnion acc s.box)
    have hu : (boxUnion acc s.box).hi i = max (acc.hi i) (s.box.hi i) := by simp [boxUnion, pmax_get]
    refine ⟨le_trans (hu ▸ le_max_left _ _) h.1, le_trans (hu ▸ le_max_right _ _) h.1, h.2⟩

theorem foldl_pmax_le (rest : List (Solid K)) (acc : Pt K) (i : Fin 3) (v : K)
    (hacc : acc i ≤ v) (hr : ∀ s ∈ rest, s.box.lo i ≤ v) :
    (rest.foldl (fun b s => pmax b s.box.lo) acc) i ≤ v := by
  induction rest generalizing acc with
  | nil => simpa using hacc
  | cons s ss ih =>
    simp only [List.foldl_cons]
    apply ih
    · rw [pmax_get]; exact max_le hacc (hr s (List.mem_cons_self))
    · intro t ht; exact hr t (List.mem_cons_of_mem _ ht)

theorem le_foldl_pmin (rest : List (Solid K)) (acc : Pt K) (i : Fin 3) (v : K)
    (hacc : v ≤ acc i) (hr : ∀ s ∈ rest, v ≤ s.box.hi i) :
    v ≤ (rest.foldl (fun b s => pmin b s.box.hi) acc) i := by
  induction rest generalizing acc with
  | nil => simpa using hacc
  | cons s ss ih =>
    simp only [List.foldl_cons]
    apply ih
    · rw [pmin_get]; exact le_min hacc (hr s (List.mem_cons_self))
    · intro t ht; exact hr t (List.mem_cons_of_mem _ ht)

theorem active_all {a : Bool} {rest : List (Solid K)} {i : Fin 3}
    (h : Active (a && rest.all (·.d3)) i) : Active a i ∧ ∀ s ∈ rest, Active s.d3 i := by
  have h' := active_and h
  refine ⟨h'.1, fun s hs => ?_⟩
  rcases h'.2 with h2 | h2
  · exact Or.inl h2
  · exact Or.inr (List.all_eq_true.mp h2 s hs)

/-! ## `JoinedSolid`, `IntersectedSolid`, `SubtractedSolid` -/

theorem joined_bounded (a : Solid K) (rest : List (Solid K)) (ha : Bounded a) (hr : ∀ s ∈ rest, Bounded s) :
    Bounded (joinedS a rest) := by
  intro p hp i hi
  simp only [joinedS] at hp hi ⊢
  have hact := active_all hi
  have hlo := foldl_union_lo rest a.box i
  have hhi := foldl_union_hi rest a.box i
  rcases Bool.or_eq_true _ _ |>.mp hp with h | h
  · have := ha p h i hact.1
    exact ⟨le_trans hlo.1 this.1, le_trans this.2 hhi.1⟩
  · obtain ⟨s, hs, hsp⟩ := List.any_eq_true.mp h
    have := hr s hs p hsp i (hact.2 s hs)
    exact ⟨le_trans (hlo.2 s hs) this.1, le_trans this.2 (hhi.2 s hs)⟩

theorem joined_ordered (a : Solid K) (rest : List (Solid K)) (ha : Ordered a) : Ordered (joinedS a rest) := by
  intro i hi
  simp only [joinedS] at hi ⊢
  have hact := active_all hi
  exact le_trans (foldl_union_lo rest a.box i).1 (le_trans (ha i hact.1) (foldl_union_hi rest a.box i).1)

/-- whatever the operands (also when the intersection of their boxes is empty), `IntersectedSolid`
reports `Min ≤ Max`: `Max()` ends with `.Max(i.Min())` -/
theorem inter_ordered (a : Solid K) (rest : List (Solid K)) : Ordered (interS a rest) := by
  intro i _
  simp only [interS, interHi, pmax_get]
  exact le_max_right _ _

theorem inter_bounded (a : Solid K) (rest : List (Solid K)) (ha : Bounded a) (hr : ∀ s ∈ rest, Bounded s) :
    Bounded (interS a rest) := by
  intro p hp i hi
  simp only [interS] at hp hi ⊢
  have hact := active_all hi
  obtain ⟨hpa, hpr⟩ := Bool.and_eq_true _ _ |>.mp hp
  have hall := List.all_eq_true.mp hpr
  have h1 : interLo a rest i ≤ p i := by
    unfold interLo
    apply foldl_pmax_le
    · exact (ha p hpa i hact.1).1
    · intro s hs; exact (hr s hs p (hall s hs) i (hact.2 s hs)).1
  refine ⟨h1, ?_⟩
  unfold interHi
  rw [pmax_get]
  apply le_max_of_le_left
  apply le_foldl_pmin
  · exact (ha p hpa i hact.1).2
  · intro s hs; exact (hr s hs p (hall s hs) i (hact.2 s hs)).2

theorem sub_bounded (pos neg : Solid K) (hp : Bounded pos) : Bounded (subS pos neg) := by
  intro p h
  simp only [subS, Bool.and_eq_true] at h ⊢
  exact hp p h.1

theorem sub_ordered (pos neg : Solid K) (hp : Ordered pos) : Ordered (subS pos neg) := hp

/-! ## Transforms -/

/-- the transform acts in the dimension of the solid (Go's types guarantee it) -/
def Xf1.Fits (d3 : Bool) : Xf1 K → Prop
  | .matrix3 _ _ => d3 = true
  | .matrix2 _ _ _ _ _ _ _ _ => d3 = false
  | _ => True

/-- the stored inverse really inverts (`Scale ≠ 0`, every `VecScale` factor `≠ 0`, `mi · m = 1`) -/
def Xf1.Invertible : Xf1 K → Prop
  | .translate _ => True
  | .scale s => s ≠ 0
  | .vecScale v => v 0 ≠ 0 ∧ v 1 ≠ 0 ∧ v 2 ≠ 0
  | .matrix3 m mi => ∀ p, mi.mulCol (m.mulCol p) = p
  | .matrix2 a b c d ia ib ic id => ∀ p, mulCol2 ia ib ic id (mulCol2 a b c d p) = p

theorem Xf1.inverse_apply (t : Xf1 K) (h : t.Invertible) (p : Pt K) : t.inverse.apply (t.apply p) = p := by
  cases t with
  | translate o =>
    apply Pt.ext'; intro i
    simp only [Xf1.inverse, Xf1.apply, padd_get, pscale_get]; ring
  | scale s =>
    have hs : s ≠ 0 := h
    apply Pt.ext'; intro i
    simp only [Xf1.inverse, Xf1.apply, pscale_get]; field_simp
  | vecScale v =>
    obtain ⟨h0, h1, h2⟩ := h
    apply Pt.ext'; intro i
    simp only [Xf1.inverse, Xf1.apply, pmul_get, precip_get]
    rcases fin3 i with rfl | rfl | rfl <;> field_simp
  | matrix3 m mi => exact h p
  | matrix2 a b c d ia ib ic id => exact h p

theorem applyL_inverseL (ts : List (Xf1 K)) (h : ∀ t ∈ ts, t.Invertible) (p : Pt K) :
    applyL (inverseL ts) (applyL ts p) = p := by
  induction ts generalizing p with
  | nil => rfl
  | cons t ts ih =>
    simp only [applyL, inverseL, List.map_cons, List.reverse_cons, List.foldl_append, List.foldl_cons,
      List.foldl_nil] at ih ⊢
    rw [ih (fun t' ht' => h t' (List.mem_cons_of_mem _ ht'))]
    exact Xf1.inverse_apply t (h t List.mem_cons_self) p

theorem scale_between {lo hi p s : K} (h0 : lo ≤ p) (h1 : p ≤ hi) :
    min (lo * s) (hi * s) ≤ p * s ∧ p * s ≤ max (hi * s) (lo * s) := by
  rcases le_total 0 s with hs | hs
  · exact ⟨le_trans (min_le_left _ _) (mul_le_mul_of_nonneg_right h0 hs),
      le_trans (mul_le_mul_of_nonneg_right h1 hs) (le_max_left _ _)⟩
  · exact ⟨le_trans (min_le_right _ _) (mul_le_mul_of_nonpos_right h1 hs),
      le_trans (mul_le_mul_of_nonpos_right h0 hs) (le_max_right _ _)⟩

theorem foldl_pmin_le (rest : List (Pt K)) (acc : Pt K) (i : Fin 3) :
    (rest.foldl pmin acc) i ≤ acc i ∧ ∀ c ∈ rest, (rest.foldl pmin acc) i ≤ c i := by
  induction rest generalizing acc with
  | nil => simp
  | cons s ss ih =>
    simp only [List.foldl_cons, List.mem_cons, forall_eq_or_imp]
    have h := ih (pmin acc s)
    rw [pmin_get] at h
    exact ⟨le_trans h.1 (min_le_left _ _), le_trans h.1 (min_le_right _ _), h.2⟩

theorem le_foldl_pmax (rest : List (Pt K)) (acc : Pt K) (i : Fin 3) :
    acc i ≤ (rest.foldl pmax acc) i ∧ ∀ c ∈ rest, c i ≤ (rest.foldl pmax acc) i := by
  induction rest generalizing acc with
  | nil => simp
  | cons s ss ih =>
    simp only [List.foldl_cons, List.mem_cons, forall_eq_or_imp]
    have h := ih (pmax acc s)
    rw [pmax_get] at h
    exact ⟨le_trans (le_max_left _ _) h.1, le_trans (le_max_right _ _) h.1, h.2⟩

theorem hull_mem (first : Pt K) (rest : List (Pt K)) (c : Pt K) (hc : c ∈ first :: rest) (i : Fin 3) :
    (hullOf first rest).lo i ≤ c i ∧ c i ≤ (hullOf first rest).hi i := by
  simp only [hullOf]
  rcases List.mem_cons.mp hc with rfl | h
  · exact ⟨(foldl_pmin_le rest c i).1, (le_foldl_pmax rest c i).1⟩
  · exact ⟨(foldl_pmin_le rest first i).2 c h, (le_foldl_pmax rest first i).2 c h⟩

theorem hull_ordered (first : Pt K) (rest : List (Pt K)) (i : Fin 3) :
    (hullOf first rest).lo i ≤ (hullOf first rest).hi i :=
  le_trans (hull_mem first rest first List.mem_cons_self i).1 (hull_mem first rest first List.mem_cons_self i).2

/-- a linear form on a box lies between its values at two opposite corners chosen by the signs -/
theorem lin_corner (a x0 x1 x : K) (h0 : x0 ≤ x) (h1 : x ≤ x1) :
    (a * x0 ≤ a * x ∧ a * x ≤ a * x1) ∨ (a * x1 ≤ a * x ∧ a * x ≤ a * x0) := by
  rcases le_total 0 a with ha | ha
  · exact Or.inl ⟨mul_le_mul_of_nonneg_left h0 ha, mul_le_mul_of_nonneg_left h1 ha⟩
  · exact Or.inr ⟨mul_le_mul_of_nonpos_left h1 ha, mul_le_mul_of_nonpos_left h0 ha⟩

/-! ### `ApplyBounds` encloses the image of the box -/

theorem lin3_bounds (a b c x0 x1 y0 y1 z0 z1 x y z lo hi : K)
    (hx0 : x0 ≤ x) (hx1 : x ≤ x1) (hy0 : y0 ≤ y) (hy1 : y ≤ y1) (hz0 : z0 ≤ z) (hz1 : z ≤ z1)
    (hlo : ∀ u ∈ [x0, x1], ∀ v ∈ [y0, y1], ∀ w ∈ [z0, z1], lo ≤ a * u + b * v + c * w)
    (hhi : ∀ u ∈ [x0, x1], ∀ v ∈ [y0, y1], ∀ w ∈ [z0, z1], a * u + b * v + c * w ≤ hi) :
    lo ≤ a * x + b * y + c * z ∧ a * x + b * y + c * z ≤ hi := by
  have m0 : ∀ u : K, u ∈ [x0, x1] ↔ u = x0 ∨ u = x1 := by intro u; simp
  have m1 : ∀ u : K, u ∈ [y0, y1] ↔ u = y0 ∨ u = y1 := by intro u; simp
  have m2 : ∀ u : K, u ∈ [z0, z1] ↔ u = z0 ∨ u = z1 := by intro u; simp
  rcases lin_corner a x0 x1 x hx0 hx1 with ⟨ax0, ax1⟩ | ⟨ax0, ax1⟩ <;>
  rcases lin_corner b y0 y1 y hy0 hy1 with ⟨by0, by1⟩ | ⟨by0, by1⟩ <;>
  rcases lin_corner c z0 z1 z hz0 hz1 with ⟨cz0, cz1⟩ | ⟨cz0, cz1⟩
  · exact ⟨by linarith [hlo x0 (by simp) y0 (by simp) z0 (by simp)], by linarith [hhi x1 (by simp) y1 (by simp) z1 (by simp)]⟩
  · exact ⟨by linarith [hlo x0 (by simp) y0 (by simp) z1 (by simp)], by linarith [hhi x1 (by simp) y1 (by simp) z0 (by simp)]⟩
  · exact ⟨by linarith [hlo x0 (by simp) y1 (by simp) z0 (by simp)], by linarith [hhi x1 (by simp) y0 (by simp) z1 (by simp)]⟩
  · exact ⟨by linarith [hlo x0 (by simp) y1 (by simp) z1 (by simp)], by linarith [hhi x1 (by simp) y0 (by simp) z0 (by simp)]⟩
  · exact ⟨by linarith [hlo x1 (by simp) y0 (by simp) z0 (by simp)], by linarith [hhi x0 (by simp) y1 (by simp) z1 (by simp)]⟩
  · exact ⟨by linarith [hlo x1 (by simp) y0 (by simp) z1 (by simp)], by linarith [hhi x0 (by simp) y1 (by simp) z0 (by simp)]⟩
  · exact ⟨by linarith [hlo x1 (by simp) y1 (by simp) z0 (by simp)], by linarith [hhi x0 (by simp) y0 (by simp) z1 (by simp)]⟩
  · exact ⟨by linarith [hlo x1 (by simp) y1 (by simp) z1 (by simp)], by linarith [hhi x0 (by simp) y0 (by simp) z0 (by simp)]⟩

theorem corners3_mem (lo hi : Pt K) (u v w : K) (hu : u ∈ [lo 0, hi 0]) (hv : v ∈ [lo 1, hi 1]) (hw : w ∈ [lo 2, hi 2]) :
    mk3 u v w ∈ corners3 lo hi := by
  simp only [List.mem_cons, List.not_mem_nil, or_false] at hu hv hw
  rcases hu with rfl | rfl <;> rcases hv with rfl | rfl <;> rcases hw with rfl | rfl <;> simp [corners3]

theorem corners2_mem (lo hi : Pt K) (u v : K) (hu : u ∈ [lo 0, hi 0]) (hv : v ∈ [lo 1, hi 1]) :
    mk3 u v (lo 2) ∈ corners2 lo hi := by
  simp only [List.mem_cons, List.not_mem_nil, or_false] at hu hv
  rcases hu with rfl | rfl <;> rcases hv with rfl | rfl <;> simp [corners2]

theorem matrix3_encloses (m mi : Mat K) (b : Box K) (p : Pt K) (h : InBox true b p) :
    InBox true ((Xf1.matrix3 m mi).applyBounds b) ((Xf1.matrix3 m mi).apply p) := by
  have h0 := h 0 (active_true _); have h1 := h 1 (active_true _); have h2 := h 2 (active_true _)
  have key : ∀ u ∈ [b.lo 0, b.hi 0], ∀ v ∈ [b.lo 1, b.hi 1], ∀ w ∈ [b.lo 2, b.hi 2], ∀ i,
      ((Xf1.matrix3 m mi).applyBounds b).lo i ≤ (m.mulCol (mk3 u v w)) i ∧
      (m.mulCol (mk3 u v w)) i ≤ ((Xf1.matrix3 m mi).applyBounds b).hi i := by
    intro u hu v hv w hw i
    have hm : m.mulCol (mk3 u v w) ∈ (corners3 b.lo b.hi).map m.mulCol :=
      List.mem_map_of_mem (corners3_mem b.lo b.hi u v w hu hv hw)
    simp only [Xf1.applyBounds]
    generalize (corners3 b.lo b.hi).map m.mulCol = l at hm
    cases l with
    | nil => exact absurd hm (List.not_mem_nil)
    | cons c cs => exact hull_mem c cs _ hm i
  intro i _
  simp only [Xf1.apply]
  rcases fin3 i with rfl | rfl | rfl
  · have := lin3_bounds m.a0 m.a1 m.a2 _ _ _ _ _ _ (p 0) (p 1) (p 2) _ _ h0.1 h0.2 h1.1 h1.2 h2.1 h2.2
      (fun u hu v hv w hw => by have := (key u hu v hv w hw 0).1; simpa [Mat.mulCol] using this)
      (fun u hu v hv w hw => by have := (key u hu v hv w hw 0).2; simpa [Mat.mulCol] using this)
    simpa [Mat.mulCol] using this
  · have := lin3_bounds m.a3 m.a4 m.a5 _ _ _ _ _ _ (p 0) (p 1) (p 2) _ _ h0.1 h0.2 h1.1 h1.2 h2.1 h2.2
      (fun u hu v hv w hw => by have := (key u hu v hv w hw 1).1; simpa [Mat.mulCol] using this)
      (fun u hu v hv w hw => by have := (key u hu v hv w hw 1).2; simpa [Mat.mulCol] using this)
    simpa [Mat.mulCol] using this
  · have := lin3_bounds m.a6 m.a7 m.a8 _ _ _ _ _ _ (p 0) (p 1) (p 2) _ _ h0.1 h0.2 h1.1 h1.2 h2.1 h2.2
      (fun u hu v hv w hw => by have := (key u hu v hv w hw 2).1; simpa [Mat.mulCol] using this)
      (fun u hu v hv w hw => by have := (key u hu v hv w hw 2).2; simpa [Mat.mulCol] using this)
    simpa [Mat.mulCol] using this

theorem matrix2_encloses (a b' c d ia ib ic id : K) (b : Box K) (p : Pt K) (h : InBox false b p) :
    InBox false ((Xf1.matrix2 a b' c d ia ib ic id).applyBounds b) ((Xf1.matrix2 a b' c d ia ib ic id).apply p) := by
  have h0 := h 0 (active0 _); have h1 := h 1 (active1 _)
  have key : ∀ u ∈ [b.lo 0, b.hi 0], ∀ v ∈ [b.lo 1, b.hi 1], ∀ i,
      ((Xf1.matrix2 a b' c d ia ib ic id).applyBounds b).lo i ≤ (mulCol2 a b' c d (mk3 u v (b.lo 2))) i ∧
      (mulCol2 a b' c d (mk3 u v (b.lo 2))) i ≤ ((Xf1.matrix2 a b' c d ia ib ic id).applyBounds b).hi i := by
    intro u hu v hv i
    have hm : mulCol2 a b' c d (mk3 u v (b.lo 2)) ∈ (corners2 b.lo b.hi).map (mulCol2 a b' c d) :=
      List.mem_map_of_mem (corners2_mem b.lo b.hi u v hu hv)
    simp only [Xf1.applyBounds]
    generalize (corners2 b.lo b.hi).map (mulCol2 a b' c d) = l at hm
    cases l with
    | nil => exact absurd hm (List.not_mem_nil)
    | cons c cs => exact hull_mem c cs _ hm i
  intro i hi
  simp only [Xf1.apply]
  rcases fin3 i with rfl | rfl | rfl
  · have := lin3_bounds a b' 0 _ _ _ _ 0 0 (p 0) (p 1) 0 _ _ h0.1 h0.2 h1.1 h1.2 le_rfl le_rfl
      (fun u hu v hv w _ => by have := (key u hu v hv 0).1; simpa [mulCol2] using this)
      (fun u hu v hv w _ => by have := (key u hu v hv 0).2; simpa [mulCol2] using this)
    simpa [mulCol2] using this
  · have := lin3_bounds c d 0 _ _ _ _ 0 0 (p 0) (p 1) 0 _ _ h0.1 h0.2 h1.1 h1.2 le_rfl le_rfl
      (fun u hu v hv w _ => by have := (key u hu v hv 1).1; simpa [mulCol2] using this)
      (fun u hu v hv w _ => by have := (key u hu v hv 1).2; simpa [mulCol2] using this)
    simpa [mulCol2] using this
  · rcases hi with hi | hi
    · exact absurd hi (by decide)
    · exact absurd hi (by decide)

/-- `ApplyBounds` soundness per transform kind (negative `Scale`/`VecScale` factors included:
the code swaps with `min.Min(max), max.Max(min)`). -/
theorem Xf1.applyBounds_encloses (d3 : Bool) (t : Xf1 K) (ht : t.Fits d3) (b : Box K) (p : Pt K)
    (h : InBox d3 b p) : InBox d3 (t.applyBounds b) (t.apply p) := by
  cases t with
  | translate o =>
    intro i hi
    simp only [Xf1.applyBounds, Xf1.apply, padd_get]
    exact ⟨by linarith [(h i hi).1], by linarith [(h i hi).2]⟩
  | scale s =>
    intro i hi
    simp only [Xf1.applyBounds, Xf1.apply, pmin_get, pmax_get, pscale_get]
    exact scale_between (h i hi).1 (h i hi).2
  | vecScale v =>
    intro i hi
    simp only [Xf1.applyBounds, Xf1.apply, pmin_get, pmax_get, pmul_get]
    exact scale_between (h i hi).1 (h i hi).2
  | matrix3 m mi =>
    have : d3 = true := ht
    subst this
    exact matrix3_encloses m mi b p h
  | matrix2 a b' c d ia ib ic id =>
    have : d3 = false := ht
    subst this
    exact matrix2_encloses a b' c d ia ib ic id b p h

theorem applyBoundsL_encloses (d3 : Bool) (ts : List (Xf1 K)) (ht : ∀ t ∈ ts, t.Fits d3) (b : Box K) (p : Pt K)
    (h : InBox d3 b p) : InBox d3 (applyBoundsL ts b) (applyL ts p) := by
  induction ts generalizing b p with
  | nil => exact h
  | cons t ts ih =>
    simp only [applyBoundsL, applyL, List.foldl_cons] at ih ⊢
    exact ih (fun t' ht' => ht t' (List.mem_cons_of_mem _ ht')) _ _
      (Xf1.applyBounds_encloses d3 t (ht t List.mem_cons_self) b p h)

/-- `ApplyBounds` keeps (or, for scalings and matrices, establishes) `min ≤ max`. -/
theorem Xf1.applyBounds_ordered (d3 : Bool) (t : Xf1 K) (b : Box K) (h : ∀ i, Active d3 i → b.lo i ≤ b.hi i) :
    ∀ i, Active d3 i → (t.applyBounds b).lo i ≤ (t.applyBounds b).hi i := by
  intro i hi
  cases t with
  | translate o => simp only [Xf1.applyBounds, padd_get]; linarith [h i hi]
  | scale s => simp only [Xf1.applyBounds, pmin_get, pmax_get]; exact le_trans (min_le_right _ _) (le_max_left _ _)
  | vecScale v => simp only [Xf1.applyBounds, pmin_get, pmax_get]; exact le_trans (min_le_right _ _) (le_max_left _ _)
  | matrix3 m mi =>
    simp only [Xf1.applyBounds]
    generalize (corners3 b.lo b.hi).map m.mulCol = l
    cases l with
    | nil => exact h i hi
    | cons c cs => exact hull_ordered c cs i
  | matrix2 a b' c d ia ib ic id =>
    simp only [Xf1.applyBounds]
    generalize (corners2 b.lo b.hi).map (mulCol2 a b' c d) = l
    cases l with
    | nil => exact h i hi
    | cons c cs => exact hull_ordered c cs i

theorem applyBoundsL_ordered (d3 : Bool) (ts : List (Xf1 K)) (b : Box K) (h : ∀ i, Active d3 i → b.lo i ≤ b.hi i) :
    ∀ i, Active d3 i → (applyBoundsL ts b).lo i ≤ (applyBoundsL ts b).hi i := by
  induction ts generalizing b with
  | nil => exact h
  | cons t ts ih =>
    simp only [applyBoundsL, List.foldl_cons] at ih ⊢
    exact ih _ (Xf1.applyBounds_ordered d3 t b h)

theorem xform_bounded (ts : List (Xf1 K)) (s : Solid K) : Bounded (xformS ts s) := checked_bounded _ _ _

theorem xform_ordered (ts : List (Xf1 K)) (s : Solid K) (hs : Ordered s) : Ordered (xformS ts s) := by
  intro i hi
  exact applyBoundsL_ordered s.d3 ts s.box hs i hi

/-- `TransformSolid` does not cut: the image of every point of a bounded operand is contained. -/
theorem xform_no_cut (ts : List (Xf1 K)) (s : Solid K) (hs : Bounded s) (hf : ∀ t ∈ ts, t.Fits s.d3)
    (hi : ∀ t ∈ ts, t.Invertible) (q : Pt K) (hq : s.f q = true) : (xformS ts s).f (applyL ts q) = true := by
  unfold xformS
  rw [checked_f]
  refine ⟨applyBoundsL_encloses s.d3 ts hf s.box q (hs q hq), ?_⟩
  rw [applyL_inverseL ts hi q]; exact hq

/-! ## Stacking -/

theorem stackAux_bounded (z : K) (rest : List (Solid K)) : ∀ t ∈ stackAux z rest, Bounded t := by
  induction rest generalizing z with
  | nil => intro t ht; simp [stackAux] at ht
  | cons s ss ih =>
    intro t ht
    simp only [stackAux, List.mem_cons] at ht
    rcases ht with rfl | ht
    · exact xform_bounded _ _
    · exact ih _ t ht

theorem stack_bounded (a : Solid K) (rest : List (Solid K)) (ha : Bounded a) : Bounded (stackS a rest) :=
  joined_bounded a _ ha (stackAux_bounded _ rest)

theorem stack_ordered (a : Solid K) (rest : List (Solid K)) (ha : Ordered a) : Ordered (stackS a rest) :=
  joined_ordered a _ ha

theorem stacked_bounded (a : Solid K) (rest : List (Solid K)) : Bounded (stackedS a rest) := by
  intro p hp
  simp only [stackedS, Bool.and_eq_true] at hp ⊢
  exact (inB_iff _ _ _).mp hp.1

theorem le_stackedMax (m : Pt K) (rest : List (Solid K)) (i : Fin 3) : m i ≤ (stackedMax m rest) i := by
  induction rest generalizing m with
  | nil => simp [stackedMax]
  | cons s ss ih =>
    simp only [stackedMax]
    refine le_trans ?_ (ih _)
    rw [pmax_get]; exact le_max_left _ _

theorem stacked_ordered (a : Solid K) (rest : List (Solid K)) (ha : Ordered a) (ha3 : a.d3 = true) :
    Ordered (stackedS a rest) := by
  intro i _
  simp only [stackedS]
  have h1 := (foldl_union_lo rest a.box i).1
  have h2 := ha i (ha3 ▸ active_true i)
  have h3 := le_stackedMax a.box.hi rest i
  simp only [joinedS]
  linarith

/-! ## `ProfileSolid`, `CrossSectionSolid`/`SliceSolid`, `RevolveSolid` -/

theorem profile_bounded (s : Solid K) (a b : K) : Bounded (profileS s a b) := checked_bounded _ _ _
theorem cross_bounded (s : Solid K) (axis : Fin 3) (v : K) : Bounded (crossS s axis v) := checked_bounded _ _ _
theorem revolve_bounded (sq : K → K) (eps : K) (s : Solid K) (axis : Pt K) : Bounded (revolveS sq eps s axis) :=
  checked_bounded _ _ _

theorem profile_ordered (s : Solid K) (a b : K) (hs : Ordered s) (hab : a ≤ b) : Ordered (profileS s a b) := by
  intro i _
  simp only [profileS, checkedS]
  rcases fin3 i with rfl | rfl | rfl
  · simpa using hs 0 (active0 _)
  · simpa using hs 1 (active1 _)
  · simpa using hab

/-- `ProfileSolid` does not cut. -/
theorem profile_no_cut (s : Solid K) (a b : K) (hs : Bounded s) (p : Pt K)
    (hp : s.f (mk3 (p 0) (p 1) 0) = true) (hz : a ≤ p 2 ∧ p 2 ≤ b) : (profileS s a b).f p = true := by
  unfold profileS
  rw [checked_f]
  refine ⟨?_, hp⟩
  have h := hs _ hp
  intro i _
  rcases fin3 i with rfl | rfl | rfl
  · simpa using h 0 (active0 _)
  · simpa using h 1 (active1 _)
  · simpa using hz

theorem to2D_get (axis : Fin 3) (c : Pt K) :
    (to2D axis c) 0 = c (if axis.val = 0 then 1 else 0) ∧ (to2D axis c) 1 = c (if axis.val = 2 then 1 else 2) := by
  rcases fin3 axis with rfl | rfl | rfl <;> simp [to2D]

theorem cross_ordered (s : Solid K) (axis : Fin 3) (v : K) (hs : Ordered s) (h3 : s.d3 = true) :
    Ordered (crossS s axis v) := by
  intro i hi
  simp only [crossS, checkedS] at hi ⊢
  have hall : ∀ j, s.box.lo j ≤ s.box.hi j := fun j => hs j (h3 ▸ active_true j)
  rcases fin3 i with rfl | rfl | rfl
  · rw [(to2D_get axis _).1, (to2D_get axis _).1]; exact hall _
  · rw [(to2D_get axis _).2, (to2D_get axis _).2]; exact hall _
  · rcases hi with hi | hi <;> exact absurd hi (by decide)

/-- `CrossSectionSolid` / `SliceSolid` do not cut. -/
theorem cross_no_cut (s : Solid K) (axis : Fin 3) (v : K) (hs : Bounded s) (h3 : s.d3 = true) (p : Pt K)
    (hp : s.f (to3D axis v p) = true) : (crossS s axis v).f p = true := by
  unfold crossS
  rw [checked_f]
  refine ⟨?_, hp⟩
  have h := hs _ hp
  have hall : ∀ j, s.box.lo j ≤ (to3D axis v p) j ∧ (to3D axis v p) j ≤ s.box.hi j :=
    fun j => h j (h3 ▸ active_true j)
  intro i hi
  rcases fin3 i with rfl | rfl | rfl
  · rw [(to2D_get axis _).1, (to2D_get axis _).1]
    rcases fin3 axis with rfl | rfl | rfl
    · simpa [to3D] using hall 1
    · simpa [to3D] using hall 0
    · simpa [to3D] using hall 0
  · rw [(to2D_get axis _).2, (to2D_get axis _).2]
    rcases fin3 axis with rfl | rfl | rfl
    · simpa [to3D] using hall 2
    · simpa [to3D] using hall 2
    · simpa [to3D] using hall 1
  · rcases hi with hi | hi <;> exact absurd hi (by decide)

/-- `RevolveSolid` does not cut, given that the bounding cylinder's box encloses every point the
profile can produce (`cylinder_bounded` provides this). -/
theorem revolve_no_cut (sq : K → K) (eps : K) (s : Solid K) (axis : Pt K) (c : Pt K)
    (hbox : InBox true (revolveS sq eps s axis).box c)
    (hc : s.f (mk3 (pnorm sq (projectOut sq c (pnormalize sq axis))) (pdot (pnormalize sq axis) c) 0) = true) :
    (revolveS sq eps s axis).f c = true := by
  unfold revolveS at hbox ⊢
  simp only [checkedS] at hbox
  rw [checked_f]
  exact ⟨hbox, hc⟩

/-! ## `ClampAxis` -/

theorem clamp_bounded (s : Solid K) (axis : Fin 3) (mn mx : Option K) : Bounded (clampS s axis mn mx) := by
  unfold clampS
  simp only
  split_ifs <;> exact checked_bounded _ _ _

theorem pset_get (a : Pt K) (ax : Fin 3) (v : K) (i : Fin 3) : (pset a ax v) i = if i = ax then v else a i := by
  rcases fin3 i with rfl | rfl | rfl <;> rcases fin3 ax with rfl | rfl | rfl <;> simp [pset]

theorem clamp_ordered (s : Solid K) (axis : Fin 3) (mn mx : Option K) (hs : Ordered s) :
    Ordered (clampS s axis mn mx) := by
  unfold clampS
  simp only
  split_ifs with h
  · intro i _; simp [checkedS]
  · intro i hi
    simp only [checkedS] at hi ⊢
    rw [pset_get, pset_get]
    split_ifs with hia
    · exact not_lt.mp h
    · exact hs i hi

/-! ## `SDFToSolid`, `SmoothJoin` -/

/-- what a signed distance function of a set inside `box` satisfies: the value at `p` is at most the
distance from `p` to each face plane, measured inwards (so it is `≤ -gap` outside the box). -/
def SDFBoxed (s : SDFL K) : Prop :=
  ∀ p i, Active s.d3 i → s.d p ≤ p i - s.box.lo i ∧ s.d p ≤ s.box.hi i - p i

theorem sdf_bounded (s : SDFL K) (outset : K) : Bounded (sdfS s outset) := checked_bounded _ _ _

theorem boxGrow_get (b : Box K) (r : K) (i : Fin 3) : (boxGrow b r).lo i = b.lo i - r ∧ (boxGrow b r).hi i = b.hi i + r := by
  refine ⟨?_, ?_⟩
  · simp only [boxGrow, paddS_get]; ring
  · simp only [boxGrow, paddS_get]

/-- `SDFToSolid` does not cut: wherever `sdf > -outset`, the point is in the box grown by `outset`. -/
theorem sdf_no_cut (s : SDFL K) (outset : K) (hs : SDFBoxed s) (p : Pt K) (hp : -outset < s.d p) :
    (sdfS s outset).f p = true := by
  unfold sdfS
  rw [checked_f]
  refine ⟨?_, by simpa using hp⟩
  intro i hi
  rw [(boxGrow_get _ _ i).1, (boxGrow_get _ _ i).2]
  have := hs p i hi
  constructor <;> linarith [this.1, this.2]

theorem unionBoxes_lo (rest : List (Box K)) (acc : Box K) (i : Fin 3) :
    (unionBoxes acc rest).lo i ≤ acc.lo i ∧ ∀ b ∈ rest, (unionBoxes acc rest).lo i ≤ b.lo i := by
  induction rest generalizing acc with
  | nil => simp [unionBoxes]
  | cons s ss ih =>
    simp only [unionBoxes, List.foldl_cons, List.mem_cons, forall_eq_or_imp] at ih ⊢
    have h := ih (boxUnion acc s)
    have hu : (boxUnion acc s).lo i = min (acc.lo i) (s.lo i) := by simp [boxUnion, pmin_get]
    exact ⟨le_trans h.1 (hu ▸ min_le_left _ _), le_trans h.1 (hu ▸ min_le_right _ _), h.2⟩

theorem unionBoxes_hi (rest : List (Box K)) (acc : Box K) (i : Fin 3) :
    acc.hi i ≤ (unionBoxes acc rest).hi i ∧ ∀ b ∈ rest, b.hi i ≤ (unionBoxes acc rest).hi i := by
  induction rest generalizing acc with
  | nil => simp [unionBoxes]
  | cons s ss ih =>
    simp only [unionBoxes, List.foldl_cons, List.mem_cons, forall_eq_or_imp] at ih ⊢
    have h := ih (boxUnion acc s)
    have hu : (boxUnion acc s).hi i = max (acc.hi i) (s.hi i) := by simp [boxUnion, pmax_get]
    exact ⟨le_trans (hu ▸ le_max_left _ _) h.1, le_trans (hu ▸ le_max_right _ _) h.1, h.2⟩

theorem smooth_bounded (r : K) (first : SDFL K) (rest : List (SDFL K)) : Bounded (smoothS r first rest) :=
  checked_bounded _ _ _

/-- the bounds of `SmoothJoin` are the union grown by `r`: ordered whenever the first operand is and `0 ≤ r` -/
theorem smooth_ordered (r : K) (first : SDFL K) (rest : List (SDFL K)) (hr : 0 ≤ r)
    (hf : ∀ i, Active first.d3 i → first.box.lo i ≤ first.box.hi i) : Ordered (smoothS r first rest) := by
  intro i hi
  simp only [smoothS, checkedS] at hi ⊢
  rw [(boxGrow_get _ _ i).1, (boxGrow_get _ _ i).2]
  have h1 := (unionBoxes_lo (rest.map (·.box)) first.box i).1
  have h2 := (unionBoxes_hi (rest.map (·.box)) first.box i).1
  linarith [hf i hi]

/-- every remembered distance is one of the values seen -/
theorem smoothStep_mem (i : Nat) (cd : Option K × Option K) (d x : K)
    (hx : (smoothStep i cd d).1 = some x ∨ (smoothStep i cd d).2 = some x) :
    x = d ∨ cd.1 = some x ∨ cd.2 = some x := by
  unfold smoothStep at hx
  split_ifs at hx with h0 h1
  · rcases hx with hx | hx
    · left; simpa using hx.symm
    · right; right; exact hx
  · cases h : cd.1 with
    | none =>
      simp only [h] at hx
      rcases hx with hx | hx
      · left; simpa using hx.symm
      · simp at hx
    | some d0 =>
      simp only [h] at hx
      split_ifs at hx
      · rcases hx with hx | hx
        · left; simpa using hx.symm
        · right; left; exact hx
      · rcases hx with hx | hx
        · right; left; exact hx
        · left; simpa using hx.symm
  · cases h : cd.1 with
    | none =>
      simp only [h] at hx
      rcases hx with hx | hx
      · left; simpa using hx.symm
      · simp at hx
    | some d0 =>
      simp only [h] at hx
      split_ifs at hx
      · rcases hx with hx | hx
        · left; simpa using hx.symm
        · right; left; exact hx
      · cases h2 : cd.2 with
        | none =>
          simp only [h2] at hx
          rcases hx with hx | hx
          · right; left; exact hx
          · left; simpa using hx.symm
        | some d1 =>
          simp only [h2] at hx
          split_ifs at hx
          · rcases hx with hx | hx
            · right; left; exact hx
            · left; simpa using hx.symm
          · rcases hx with hx | hx
            · right; left; rw [← h]; exact hx
            · right; right; rw [← h2]; exact hx

theorem smoothLoop_mem (ds : List K) (i : Nat) (cd cd' : Option K × Option K)
    (h : smoothLoop i cd ds = some cd') (x : K) (hx : cd'.1 = some x ∨ cd'.2 = some x) :
    x ∈ ds ∨ cd.1 = some x ∨ cd.2 = some x := by
  induction ds generalizing i cd with
  | nil =>
    simp only [smoothLoop, Option.some.injEq] at h
    subst h; exact Or.inr hx
  | cons d ds ih =>
    simp only [smoothLoop] at h
    split_ifs at h
    rcases ih _ _ h with h1 | h1
    · exact Or.inl (List.mem_cons_of_mem _ h1)
    · rcases smoothStep_mem i cd d x h1 with rfl | h2
      · exact Or.inl List.mem_cons_self
      · exact Or.inr h2

theorem smoothLoop_none (ds : List K) (i : Nat) (cd : Option K × Option K)
    (h : smoothLoop i cd ds = none) : ∃ d ∈ ds, 0 < d := by
  induction ds generalizing i cd with
  | nil => simp [smoothLoop] at h
  | cons d ds ih =>
    simp only [smoothLoop] at h
    split_ifs at h with hd
    · exact ⟨d, List.mem_cons_self, hd⟩
    · obtain ⟨d', hd', hp⟩ := ih _ _ h
      exact ⟨d', List.mem_cons_of_mem _ hd', hp⟩

theorem smoothTerm_pos (r : K) (o : Option K) (h : 0 < smoothTerm r o) : ∃ x, o = some x ∧ -r < x := by
  cases o with
  | none => simp [smoothTerm] at h
  | some x =>
    refine ⟨x, rfl, ?_⟩
    simp only [smoothTerm, smax_eq] at h
    by_contra hc
    have : x + r ≤ 0 := by linarith [not_lt.mp hc]
    rw [max_eq_left this] at h
    exact lt_irrefl _ h

/-- the closure of `SmoothJoin` only accepts points within `r` of an operand: some SDF value exceeds `-r`. -/
theorem smoothPred_true (r : K) (hr : 0 ≤ r) (ds : List K) (h : smoothPred r ds = true) : ∃ d ∈ ds, -r < d := by
  unfold smoothPred at h
  cases hl : smoothLoop 0 (none, none) ds with
  | none =>
    obtain ⟨d, hd, hp⟩ := smoothLoop_none ds 0 _ hl
    exact ⟨d, hd, by linarith⟩
  | some cd =>
    simp only [hl, decide_eq_true_eq] at h
    have hn1 : 0 ≤ smoothTerm r cd.1 := by
      cases cd.1 <;> simp [smoothTerm, smax_eq]
    have hn2 : 0 ≤ smoothTerm r cd.2 := by
      cases cd.2 <;> simp [smoothTerm, smax_eq]
    have hpos : 0 < smoothTerm r cd.1 ∨ 0 < smoothTerm r cd.2 := by
      by_contra hc
      simp only [not_or, not_lt] at hc
      have e1 : smoothTerm r cd.1 = 0 := le_antisymm hc.1 hn1
      have e2 : smoothTerm r cd.2 = 0 := le_antisymm hc.2 hn2
      rw [e1, e2] at h
      nlinarith [mul_self_nonneg r]
    rcases hpos with hp | hp
    · obtain ⟨x, hx, hxr⟩ := smoothTerm_pos r _ hp
      rcases smoothLoop_mem ds 0 _ cd hl x (Or.inl hx) with hm | hm | hm
      · exact ⟨x, hm, hxr⟩
      · simp at hm
      · simp at hm
    · obtain ⟨x, hx, hxr⟩ := smoothTerm_pos r _ hp
      rcases smoothLoop_mem ds 0 _ cd hl x (Or.inr hx) with hm | hm | hm
      · exact ⟨x, hm, hxr⟩
      · simp at hm
      · simp at hm

/-- `SmoothJoin` does not cut: every point its closure accepts lies in the union box grown by `r`
(operands of the same dimension, SDFs boxed, `0 ≤ r`). -/
theorem smooth_no_cut (r : K) (hr : 0 ≤ r) (first : SDFL K) (rest : List (SDFL K))
    (hb : ∀ s ∈ first :: rest, SDFBoxed s) (hd : ∀ s ∈ rest, s.d3 = first.d3) (p : Pt K)
    (hp : smoothPred r ((first :: rest).map (fun s => s.d p)) = true) : (smoothS r first rest).f p = true := by
  unfold smoothS
  rw [checked_f]
  refine ⟨?_, hp⟩
  obtain ⟨d, hdm, hdr⟩ := smoothPred_true r hr _ hp
  obtain ⟨s, hs, rfl⟩ := List.mem_map.mp hdm
  intro i hi
  rw [(boxGrow_get _ _ i).1, (boxGrow_get _ _ i).2]
  have hact : Active s.d3 i := by
    rcases List.mem_cons.mp hs with rfl | h
    · exact hi
    · rw [hd s h]; exact hi
  have hsb := hb s hs p i hact
  have hlo : (unionBoxes first.box (rest.map (·.box))).lo i ≤ s.box.lo i := by
    rcases List.mem_cons.mp hs with rfl | h
    · exact (unionBoxes_lo _ _ i).1
    · exact (unionBoxes_lo _ _ i).2 _ (List.mem_map_of_mem h)
  have hhi : s.box.hi i ≤ (unionBoxes first.box (rest.map (·.box))).hi i := by
    rcases List.mem_cons.mp hs with rfl | h
    · exact (unionBoxes_hi _ _ i).1
    · exact (unionBoxes_hi _ _ i).2 _ (List.mem_map_of_mem h)
  constructor <;> linarith [hsb.1, hsb.2]


/-! ## `ColliderSolid` (inset / hollow) -/

/-- what the solids need from a collider whose surface is closed and lies in `box`:
points inside are in the box; a ball of radius `r` touching the surface is centred within `r` of
the box; a point inside whose `r`-ball misses the surface is at least `r` inside the box. -/
structure ColOK (c : ColL K) : Prop where
  inside_box : ∀ p, c.inside p = true → InBox c.d3 c.box p
  sphere_box : ∀ p r, 0 ≤ r → c.sphere p r = true → InBox c.d3 (boxGrow c.box r) p
  inset_box : ∀ p r, 0 < r → c.inside p = true → c.sphere p r = false → InBox c.d3 (boxGrow c.box (-r)) p

theorem inset_bounded (c : ColL K) (inset : K) : Bounded (insetS c inset) := by
  intro p hp
  simp only [insetS, Bool.and_eq_true] at hp ⊢
  exact (inB_iff _ _ _).mp hp.1

/-- `NewColliderSolidInset` always reports `min ≤ max` (`max := min.Max(c.Max().Sub(insetVec))`) -/
theorem inset_ordered (c : ColL K) (inset : K) : Ordered (insetS c inset) := by
  intro i _
  simp only [insetS, pmax_get]
  exact le_max_left _ _

theorem hollow_bounded (c : ColL K) (r : K) : Bounded (hollowS c r) := by
  intro p hp
  simp only [hollowS, Bool.and_eq_true] at hp ⊢
  exact (inB_iff _ _ _).mp hp.1

theorem hollow_ordered (c : ColL K) (r : K) (hr : 0 ≤ r) (hc : ∀ i, Active c.d3 i → c.box.lo i ≤ c.box.hi i) :
    Ordered (hollowS c r) := by
  intro i hi
  simp only [hollowS, psub_get, padd_get] at hi ⊢
  have : (mk3 r r r : Pt K) i = r := by rcases fin3 i with rfl | rfl | rfl <;> simp
  rw [this]; linarith [hc i hi]

/-- the inset / outset box does not cut `ColliderContains(c, p, inset)` -/
theorem inset_no_cut (c : ColL K) (hc : ColOK c) (inset : K) (p : Pt K)
    (hp : colliderContains c p inset = true) : (insetS c inset).f p = true := by
  simp only [insetS, Bool.and_eq_true]
  refine ⟨(inB_iff _ _ _).mpr ?_, hp⟩
  intro i hi
  have hv : (mk3 inset inset inset : Pt K) i = inset := by rcases fin3 i with rfl | rfl | rfl <;> simp
  simp only [pmax_get, padd_get, psub_get, hv]
  unfold colliderContains at hp
  cases hin : c.inside p with
  | false =>
    simp only [hin, Bool.not_false, if_true] at hp
    split_ifs at hp with hm
    · have := hc.sphere_box p (-inset) (by linarith) hp i hi
      rw [(boxGrow_get _ _ i).1, (boxGrow_get _ _ i).2] at this
      exact ⟨by linarith [this.1], le_max_of_le_right (by linarith [this.2])⟩
  | true =>
    simp only [hin, Bool.not_true, Bool.false_eq_true, if_false, Bool.or_eq_true, decide_eq_true_eq,
      Bool.not_eq_true'] at hp
    rcases le_or_gt inset 0 with hm | hm
    · have := hc.inside_box p hin i hi
      exact ⟨by linarith [this.1], le_max_of_le_right (by linarith [this.2])⟩
    · rcases hp with hp | hp
      · exact absurd hp (not_le.mpr hm)
      · have := hc.inset_box p inset hm hin hp i hi
        rw [(boxGrow_get _ _ i).1, (boxGrow_get _ _ i).2] at this
        exact ⟨by linarith [this.1], le_max_of_le_right (by linarith [this.2])⟩

/-- the hollow box (`± r`) does not cut `SphereCollision(p, r)` -/
theorem hollow_no_cut (c : ColL K) (hc : ColOK c) (r : K) (hr : 0 < r) (p : Pt K)
    (hp : c.sphere p r = true) : (hollowS c r).f p = true := by
  simp only [hollowS, Bool.and_eq_true]
  refine ⟨(inB_iff _ _ _).mpr ?_, by simp [hr, hp]⟩
  intro i hi
  have hv : (mk3 r r r : Pt K) i = r := by rcases fin3 i with rfl | rfl | rfl <;> simp
  simp only [padd_get, psub_get, hv]
  have := hc.sphere_box p r hr.le hp i hi
  rw [(boxGrow_get _ _ i).1, (boxGrow_get _ _ i).2] at this
  exact this

/-! ## `MetaballSolid` -/

/-- the contract of `Metaball` (bounds of `{field ≤ 0}`, `MetaballDistBound` a lower bound of the field
at a given Euclidean distance, non-decreasing) seen from the box: at a point whose distance to the
box exceeds `d` along some axis, the field is at least `MetaballDistBound(d)`. -/
def MBBounded (m : MBL K) : Prop :=
  ∀ p i d, Active m.d3 i → (p i < m.box.lo i - d ∨ m.box.hi i + d < p i) → m.distBound d ≤ m.field p

theorem metaball_bounded (fall : K → K) (rt outset : K) (first : MBL K) (rest : List (MBL K)) :
    Bounded (metaballS fall rt outset first rest) := checked_bounded _ _ _

theorem foldl_add_le (ms : List (MBL K)) (f g : MBL K → K) (h : ∀ m ∈ ms, f m ≤ g m) (a b : K) (hab : a ≤ b) :
    ms.foldl (fun s m => s + f m) a ≤ ms.foldl (fun s m => s + g m) b := by
  induction ms generalizing a b with
  | nil => simpa using hab
  | cons m ms ih =>
    simp only [List.foldl_cons]
    apply ih (fun m' hm' => h m' (List.mem_cons_of_mem _ hm'))
    linarith [h m List.mem_cons_self]

theorem mbBisect_le (v : K → K) (thr : K) (k : Nat) (lo hi : K) (h : v hi ≤ thr) :
    v (mbBisect v thr k lo hi) ≤ thr := by
  induction k generalizing lo hi with
  | zero => simpa [mbBisect] using h
  | succ k ih =>
    simp only [mbBisect]
    split_ifs with hm
    · exact ih _ _ h
    · exact ih _ _ (not_lt.mp hm)

/-- the outset search of `MetaballSolid` only ever returns an outset whose upper-bound field sum does
not exceed the threshold (the bisection keeps `valueForOutset(maxOutset) ≤ threshold`) -/
theorem mbOutset_ok (v : K → K) (thr diag tiny o : K) (h : mbOutset v thr diag tiny = some o) : v o ≤ thr := by
  unfold mbOutset at h
  simp only at h
  split_ifs at h with hc
  simp only [Option.some.injEq] at h
  subst h
  exact mbBisect_le v thr 32 _ _ (not_lt.mp hc)

/-- `MetaballSolid` does not cut: with a non-increasing falloff, operands honouring the `Metaball`
contract and an outset whose `valueForOutset` is at most the threshold, every point whose field sum
exceeds the threshold lies in the union box grown by the outset. -/
theorem metaball_no_cut (fall : K → K) (hfall : ∀ a b, a ≤ b → fall b ≤ fall a) (rt outset : K)
    (first : MBL K) (rest : List (MBL K)) (hm : ∀ m ∈ first :: rest, MBBounded m)
    (hd : ∀ m ∈ rest, m.d3 = first.d3)
    (hv : valueForOutset fall (first :: rest) outset ≤ fall rt) (p : Pt K)
    (hp : fall rt < (first :: rest).foldl (fun sum m => sum + fall (m.field p)) 0) :
    (metaballS fall rt outset first rest).f p = true := by
  unfold metaballS
  rw [checked_f]
  refine ⟨?_, by simpa using hp⟩
  by_contra hout
  unfold InBox at hout
  simp only [not_forall] at hout
  obtain ⟨i, hi, hbad⟩ := hout
  rw [(boxGrow_get _ _ i).1, (boxGrow_get _ _ i).2] at hbad
  have hside : p i < (unionBoxes first.box (rest.map (·.box))).lo i - outset ∨
      (unionBoxes first.box (rest.map (·.box))).hi i + outset < p i := by
    by_contra hc
    simp only [not_or, not_lt] at hc
    exact hbad hc
  have hle : (first :: rest).foldl (fun sum m => sum + fall (m.field p)) 0 ≤
      (first :: rest).foldl (fun sum m => sum + fall (m.distBound outset)) 0 := by
    apply foldl_add_le _ _ _ _ _ _ le_rfl
    intro m hmm
    apply hfall
    have hact : Active m.d3 i := by
      rcases List.mem_cons.mp hmm with rfl | h
      · exact hi
      · rw [hd m h]; exact hi
    have hlo : (unionBoxes first.box (rest.map (·.box))).lo i ≤ m.box.lo i := by
      rcases List.mem_cons.mp hmm with rfl | h
      · exact (unionBoxes_lo _ _ i).1
      · exact (unionBoxes_lo _ _ i).2 _ (List.mem_map_of_mem h)
    have hhi : m.box.hi i ≤ (unionBoxes first.box (rest.map (·.box))).hi i := by
      rcases List.mem_cons.mp hmm with rfl | h
      · exact (unionBoxes_hi _ _ i).1
      · exact (unionBoxes_hi _ _ i).2 _ (List.mem_map_of_mem h)
    apply hm m hmm p i outset hact
    rcases hside with h | h
    · left; linarith
    · right; linarith
  unfold valueForOutset at hv
  linarith

/-! ## Polytope, rect set, height map -/

theorem polytope_bounded (d3 : Bool) (box : Box K) (cs : List (Pt K × K)) : Bounded (polytopeS d3 box cs) := by
  intro p hp
  simp only [polytopeS, Bool.and_eq_true] at hp ⊢
  exact (inB_iff _ _ _).mp hp.1

theorem rectTree_bounded (t : RectTree K) (p : Pt K) (h : t.contains p = true) : InBox true t.box p := by
  cases t with
  | empty => simp [RectTree.contains] at h
  | single lo hi => simpa [RectTree.contains, RectTree.box, inB_iff] using h
  | node b axis cutoff below above =>
    simp only [RectTree.contains, Bool.and_eq_true] at h
    exact (inB_iff _ _ _).mp h.1

theorem rectSet_bounded (t : RectTree K) : Bounded (rectSetS t) := fun p h => rectTree_bounded t p h

theorem heightMap_bounded (lo2 hi2 : Pt K) (a b : K) (g : Pt K → Bool) : Bounded (heightMapS lo2 hi2 a b g) :=
  checked_bounded _ _ _

/-! ## Primitive leaves -/

theorem rect_bounded' (d3 : Bool) (lo hi : Pt K) : Bounded (rectS d3 lo hi) := by
  intro p hp
  simp only [rectS] at hp ⊢
  exact (inB_iff _ _ _).mp hp

theorem sq_le_imp {a r : K} (h : a * a ≤ r * r) (hr : 0 ≤ r) : -r ≤ a ∧ a ≤ r := by
  constructor
  · by_contra hc
    have : a < -r := not_le.mp hc
    nlinarith
  · by_contra hc
    have : r < a := not_le.mp hc
    nlinarith

theorem sq_axis_le_distSq (d3 : Bool) (p c : Pt K) (i : Fin 3) (hi : Active d3 i) :
    (p i - c i) * (p i - c i) ≤ distSq d3 p c := by
  unfold distSq
  simp only
  cases d3
  · simp only [Bool.false_eq_true, if_false]
    rcases fin3 i with rfl | rfl | rfl
    · nlinarith [mul_self_nonneg (p 1 - c 1)]
    · nlinarith [mul_self_nonneg (p 0 - c 0)]
    · rcases hi with hi | hi <;> exact absurd hi (by decide)
  · simp only [if_true]
    rcases fin3 i with rfl | rfl | rfl
    · nlinarith [mul_self_nonneg (p 1 - c 1), mul_self_nonneg (p 2 - c 2)]
    · nlinarith [mul_self_nonneg (p 0 - c 0), mul_self_nonneg (p 2 - c 2)]
    · nlinarith [mul_self_nonneg (p 0 - c 0), mul_self_nonneg (p 1 - c 1)]

theorem distSq_nonneg (d3 : Bool) (p c : Pt K) : 0 ≤ distSq d3 p c := by
  unfold distSq
  simp only
  cases d3
  · simp only [Bool.false_eq_true, if_false]
    nlinarith [mul_self_nonneg (p 0 - c 0), mul_self_nonneg (p 1 - c 1)]
  · simp only [if_true]
    nlinarith [mul_self_nonneg (p 0 - c 0), mul_self_nonneg (p 1 - c 1), mul_self_nonneg (p 2 - c 2)]

theorem sphere_bounded' (d3 : Bool) (c : Pt K) (r : K) : Bounded (sphereS d3 c r) := by
  intro p hp i hi
  simp only [sphereS, Bool.and_eq_true, decide_eq_true_eq] at hp hi ⊢
  have h1 := sq_axis_le_distSq d3 p c i hi
  have h2 := sq_le_imp (le_trans h1 hp.2) hp.1
  rw [paddS_get, paddS_get]
  constructor <;> linarith [h2.1, h2.2]

/-- a square-root function on the non-negative elements -/
def SqrtOK (sq : K → K) : Prop := ∀ x, 0 ≤ x → 0 ≤ sq x ∧ sq x * sq x = x

theorem sqrt_le_iff (sq : K → K) (hsq : SqrtOK sq) (s r : K) (hs : 0 ≤ s) : sq s ≤ r ↔ 0 ≤ r ∧ s ≤ r * r := by
  obtain ⟨h0, h1⟩ := hsq s hs
  constructor
  · intro h
    exact ⟨le_trans h0 h, by nlinarith⟩
  · rintro ⟨hr, h⟩
    rw [← h1] at h
    exact (sq_le_imp h hr).2

/-- `Sphere.Contains` as written (`Dist(center) <= radius`, with the square root) equals the
square-root-free form the exact mode executes. -/
theorem sphere_contains_sqrt (sq : K → K) (hsq : SqrtOK sq) (d3 : Bool) (c : Pt K) (r : K) (p : Pt K) :
    sphereContainsSqrt sq d3 c r p = (sphereS d3 c r).f p := by
  have := sqrt_le_iff sq hsq (distSq d3 p c) r (distSq_nonneg d3 p c)
  simp only [sphereContainsSqrt, sphereS]
  rw [Bool.eq_iff_iff]
  simp only [decide_eq_true_eq, Bool.and_eq_true]
  exact this

/-- Capsule: a point within `r` of a point `q` of the segment `P1 P2` lies in
`[P1.Min(P2) - r, P1.Max(P2) + r]`. -/
theorem capsule_bounded' (d3 : Bool) (p1 p2 : Pt K) (r t : K) (ht0 : 0 ≤ t) (ht1 : t ≤ 1) (hr : 0 ≤ r) (p : Pt K)
    (hp : distSq d3 p (padd p1 (pscale (psub p2 p1) t)) ≤ r * r) : InBox d3 (capsuleBox p1 p2 r) p := by
  intro i hi
  have h1 := sq_axis_le_distSq d3 p (padd p1 (pscale (psub p2 p1) t)) i hi
  have h2 := sq_le_imp (le_trans h1 hp) hr
  simp only [padd_get, pscale_get, psub_get] at h2
  simp only [capsuleBox, paddS_get, pmin_get, pmax_get]
  have hq1 : min (p1 i) (p2 i) ≤ p1 i + (p2 i - p1 i) * t := by
    rcases le_total (p1 i) (p2 i) with h | h
    · rw [min_eq_left h]; nlinarith
    · rw [min_eq_right h]; nlinarith
  have hq2 : p1 i + (p2 i - p1 i) * t ≤ max (p1 i) (p2 i) := by
    rcases le_total (p1 i) (p2 i) with h | h
    · rw [max_eq_right h]; nlinarith
    · rw [max_eq_left h]; nlinarith
  constructor <;> linarith [h2.1, h2.2]

/-- Cauchy–Schwarz in three variables -/
theorem cs3 (a0 a1 a2 b0 b1 b2 : K) :
    (a0 * b0 + a1 * b1 + a2 * b2) * (a0 * b0 + a1 * b1 + a2 * b2) ≤
      (a0 * a0 + a1 * a1 + a2 * a2) * (b0 * b0 + b1 * b1 + b2 * b2) := by
  nlinarith [mul_self_nonneg (a0 * b1 - a1 * b0), mul_self_nonneg (a0 * b2 - a2 * b0), mul_self_nonneg (a1 * b2 - a2 * b1)]

/-- **Axis extent of a tilted disc.**  A vector `w` orthogonal to the unit normal `n` with
`|w|² ≤ ρ²` satisfies `wᵢ² ≤ ρ²·(1 − nᵢ²)` on every axis: the extent of the unit disc with unit
normal `n` along axis `i` is `√(1 − nᵢ²)`. -/
theorem disc_axis_extent (n w : Pt K) (rho2 : K) (hn : pdot n n = 1) (hw : pdot w n = 0)
    (hww : pdot w w ≤ rho2) (i : Fin 3) : w i * w i ≤ rho2 * (1 - n i * n i) := by
  simp only [pdot] at hn hw hww
  have h1 : 0 ≤ 1 - n i * n i := by
    rcases fin3 i with rfl | rfl | rfl <;> nlinarith [mul_self_nonneg (n 0), mul_self_nonneg (n 1), mul_self_nonneg (n 2)]
  -- w i = w · (e_i - n_i n), |e_i - n_i n|² = 1 - n_i²
  have key : w i * w i ≤ (w 0 * w 0 + w 1 * w 1 + w 2 * w 2) * (1 - n i * n i) := by
    rcases fin3 i with rfl | rfl | rfl
    · have := cs3 (w 0) (w 1) (w 2) (1 - n 0 * n 0) (-(n 0 * n 1)) (-(n 0 * n 2))
      have e1 : w 0 * (1 - n 0 * n 0) + w 1 * -(n 0 * n 1) + w 2 * -(n 0 * n 2) = w 0 := by linear_combination (-(n 0)) * hw
      have e2 : (1 - n 0 * n 0) * (1 - n 0 * n 0) + -(n 0 * n 1) * -(n 0 * n 1) + -(n 0 * n 2) * -(n 0 * n 2) = 1 - n 0 * n 0 := by
        linear_combination (n 0 * n 0) * hn
      rw [e1, e2] at this; exact this
    · have := cs3 (w 0) (w 1) (w 2) (-(n 1 * n 0)) (1 - n 1 * n 1) (-(n 1 * n 2))
      have e1 : w 0 * -(n 1 * n 0) + w 1 * (1 - n 1 * n 1) + w 2 * -(n 1 * n 2) = w 1 := by linear_combination (-(n 1)) * hw
      have e2 : -(n 1 * n 0) * -(n 1 * n 0) + (1 - n 1 * n 1) * (1 - n 1 * n 1) + -(n 1 * n 2) * -(n 1 * n 2) = 1 - n 1 * n 1 := by
        linear_combination (n 1 * n 1) * hn
      rw [e1, e2] at this; exact this
    · have := cs3 (w 0) (w 1) (w 2) (-(n 2 * n 0)) (-(n 2 * n 1)) (1 - n 2 * n 2)
      have e1 : w 0 * -(n 2 * n 0) + w 1 * -(n 2 * n 1) + w 2 * (1 - n 2 * n 2) = w 2 := by linear_combination (-(n 2)) * hw
      have e2 : -(n 2 * n 0) * -(n 2 * n 0) + -(n 2 * n 1) * -(n 2 * n 1) + (1 - n 2 * n 2) * (1 - n 2 * n 2) = 1 - n 2 * n 2 := by
        linear_combination (n 2 * n 2) * hn
      rw [e1, e2] at this; exact this
  exact le_trans key (mul_le_mul_of_nonneg_right hww h1)

/-- the algebra behind `circleAxisBound`: with `s = √(1 − nᵢ²)` the code returns `s²/(s+ε) + ε`,
which is at least `s` (by `ε²/(s+ε)`). -/
theorem cab_scalar (s e : K) (hs : 0 ≤ s) (he : 0 < e) : s ≤ s * s / (s + e) + e := by
  have hpos : 0 < s + e := by linarith
  rw [div_add' _ _ _ (ne_of_gt hpos), le_div_iff₀ hpos]
  nlinarith [mul_self_nonneg e]

/-- a disc offset is within `ρ·b` when `b ≥ 0` and `b² ≥ 1 − nᵢ²` -/
theorem disc_axis_abs (n w : Pt K) (rho b : K) (hn : pdot n n = 1) (hw : pdot w n = 0) (hrho : 0 ≤ rho)
    (hww : pdot w w ≤ rho * rho) (i : Fin 3) (hb0 : 0 ≤ b) (hb : 1 - n i * n i ≤ b * b) :
    -(rho * b) ≤ w i ∧ w i ≤ rho * b := by
  have h := disc_axis_extent n w (rho * rho) hn hw hww i
  apply sq_le_imp _ (mul_nonneg hrho hb0)
  have : rho * rho * (1 - n i * n i) ≤ rho * rho * (b * b) := mul_le_mul_of_nonneg_left hb (mul_self_nonneg rho)
  nlinarith


/-! ## `circleAxisBound` is at least the true extent; cylinder, cone, torus -/

theorem pnormalize_get (sq : K → K) (a : Pt K) (j : Fin 3) :
    (pnormalize sq a) j = a j * (1 / sq (pdot a a)) := by
  simp only [pnormalize, pnorm, pscale_get, pdot]

theorem pnormalize_unit (sq : K → K) (hsq : SqrtOK sq) (a : Pt K) (ha : 0 < pdot a a) :
    pdot (pnormalize sq a) (pnormalize sq a) = 1 := by
  obtain ⟨h0, h1⟩ := hsq (pdot a a) ha.le
  have hL : sq (pdot a a) ≠ 0 := by
    intro h; rw [h] at h1; simp at h1; linarith
  have e : pdot (pnormalize sq a) (pnormalize sq a) = pdot a a * ((1 / sq (pdot a a)) * (1 / sq (pdot a a))) := by
    simp only [pdot, pnormalize_get]; ring
  rw [e]
  field_simp
  rw [pow_two]; exact h1.symm

theorem pdot_unitAx (n : Pt K) (i : Fin 3) (sign : K) : pdot n (unitAx i sign) = n i * sign := by
  rcases fin3 i with rfl | rfl | rfl <;> simp [pdot, unitAx]

theorem unitAx_get (i j : Fin 3) (sign : K) : (unitAx i sign) j = if j = i then sign else 0 := by
  rcases fin3 i with rfl | rfl | rfl <;> rcases fin3 j with rfl | rfl | rfl <;> simp [unitAx]

/-- `e·sign` with the normal projected out, componentwise -/
theorem projectOut_unit_get (sq : K → K) (N : Pt K) (i j : Fin 3) (sign : K) :
    (projectOut sq (unitAx i sign) N) j =
      (if j = i then sign else 0) - (pnormalize sq N) j * ((pnormalize sq N) i * sign) := by
  simp only [projectOut, psub_get, pscale_get, pdot_unitAx, unitAx_get]

theorem proj_norm_sq (sq : K → K) (N : Pt K) (i : Fin 3) (sign : K) (hs : sign * sign = 1)
    (hn : pdot (pnormalize sq N) (pnormalize sq N) = 1) :
    pdot (projectOut sq (unitAx i sign) N) (projectOut sq (unitAx i sign) N) =
      1 - (pnormalize sq N) i * (pnormalize sq N) i := by
  generalize hnn : pnormalize sq N = n at hn ⊢
  simp only [pdot] at hn ⊢
  have hg : ∀ j, (projectOut sq (unitAx i sign) N) j = (if j = i then sign else 0) - n j * (n i * sign) := by
    intro j; rw [projectOut_unit_get, hnn]
  rw [hg 0, hg 1, hg 2]
  rcases fin3 i with rfl | rfl | rfl
  · simp
    linear_combination (1 - 2 * (n 0 * n 0) + (n 0 * n 0) * (n 0 * n 0 + n 1 * n 1 + n 2 * n 2)) * hs + (n 0 * n 0) * hn
  · simp
    linear_combination (1 - 2 * (n 1 * n 1) + (n 1 * n 1) * (n 0 * n 0 + n 1 * n 1 + n 2 * n 2)) * hs + (n 1 * n 1) * hn
  · simp
    linear_combination (1 - 2 * (n 2 * n 2) + (n 2 * n 2) * (n 0 * n 0 + n 1 * n 1 + n 2 * n 2)) * hs + (n 2 * n 2) * hn


theorem unit_comp_le_one (n : Pt K) (hn : pdot n n = 1) (i : Fin 3) : 0 ≤ 1 - n i * n i := by
  simp only [pdot] at hn
  rcases fin3 i with rfl | rfl | rfl <;> nlinarith [mul_self_nonneg (n 0), mul_self_nonneg (n 1), mul_self_nonneg (n 2)]

/-- closed form of `circleAxisBound(axis, normal, ±1)` for a non-zero normal: with `n = normal/|normal|`,
`P = 1 − nᵢ²` and `s = √P` it is `± (P/(s + ε) + ε)`. -/
theorem cab_eq (sq : K → K) (hsq : SqrtOK sq) (eps : K) (heps : 0 < eps) (N : Pt K) (hN : 0 < pdot N N)
    (i : Fin 3) (sign : K) (hs : sign = 1 ∨ sign = -1) :
    circleAxisBound sq eps i N sign =
      sign * ((1 - (pnormalize sq N) i * (pnormalize sq N) i) /
        (sq (1 - (pnormalize sq N) i * (pnormalize sq N) i) + eps) + eps) := by
  have hn := pnormalize_unit sq hsq N hN
  have hss : sign * sign = 1 := by rcases hs with rfl | rfl <;> ring
  have hP := unit_comp_le_one _ hn i
  have hnorm := proj_norm_sq sq N i sign hss hn
  have hsP := hsq _ hP
  have hden : 0 < sq (1 - (pnormalize sq N) i * (pnormalize sq N) i) + eps := by linarith [hsP.1]
  have hpi : (projectOut sq (unitAx i sign) N) i = sign * (1 - (pnormalize sq N) i * (pnormalize sq N) i) := by
    rw [projectOut_unit_get]; simp; ring
  unfold circleAxisBound
  simp only [pscale_get]
  have e1 : pnorm sq (projectOut sq (unitAx i sign) N) =
      sq (pdot (projectOut sq (unitAx i sign) N) (projectOut sq (unitAx i sign) N)) := rfl
  rw [e1, hnorm, hpi, sabs_eq]
  congr 2
  rw [abs_mul, abs_mul, abs_of_nonneg hP, abs_of_pos (one_div_pos.mpr hden)]
  have : |sign| = 1 := by rcases hs with rfl | rfl <;> simp
  rw [this]; field_simp

/-- **`circleAxisBound` is at least the true extent** `√(1 − nᵢ²)` of the unit disc with normal `n`
(in squared form), it is non-negative, and the `sign = -1` value is its negative. -/
theorem cab_props (sq : K → K) (hsq : SqrtOK sq) (eps : K) (heps : 0 < eps) (N : Pt K) (hN : 0 < pdot N N)
    (i : Fin 3) :
    0 ≤ circleAxisBound sq eps i N 1 ∧
    1 - (pnormalize sq N) i * (pnormalize sq N) i ≤ circleAxisBound sq eps i N 1 * circleAxisBound sq eps i N 1 ∧
    circleAxisBound sq eps i N (-1) = -(circleAxisBound sq eps i N 1) := by
  have hn := pnormalize_unit sq hsq N hN
  have hP := unit_comp_le_one _ hn i
  obtain ⟨hs0, hs1⟩ := hsq _ hP
  rw [cab_eq sq hsq eps heps N hN i 1 (Or.inl rfl), cab_eq sq hsq eps heps N hN i (-1) (Or.inr rfl)]
  generalize 1 - (pnormalize sq N) i * (pnormalize sq N) i = P at *
  have hge := cab_scalar (sq P) eps hs0 heps
  rw [hs1] at hge
  refine ⟨by linarith, ?_, by ring⟩
  have h2 : sq P * sq P ≤ (P / (sq P + eps) + eps) * (P / (sq P + eps) + eps) :=
    mul_self_le_mul_self hs0 hge
  rw [hs1] at h2
  linarith

theorem cabVec_get (sq : K → K) (eps : K) (N : Pt K) (sign : K) (i : Fin 3) :
    (cabVec sq eps N sign) i = circleAxisBound sq eps i N sign := by
  rcases fin3 i with rfl | rfl | rfl <;> simp [cabVec]

/-- Cylinder: a point `P1 + t·(P2−P1) + w` with `0 ≤ t ≤ 1`, `w ⟂ axis`, `|w| ≤ Radius` (exactly the
points `Cylinder.Contains` accepts) lies in `[Cylinder.Min(), Cylinder.Max()]`. -/
theorem cylinder_bounded' (sq : K → K) (hsq : SqrtOK sq) (eps : K) (heps : 0 < eps) (p1 p2 : Pt K) (r : K)
    (hax : 0 < pdot (psub p2 p1) (psub p2 p1)) (hr : 0 ≤ r) (t : K) (ht0 : 0 ≤ t) (ht1 : t ≤ 1) (w : Pt K)
    (hw : pdot w (pnormalize sq (psub p2 p1)) = 0) (hww : pdot w w ≤ r * r) (p : Pt K)
    (hp : ∀ i, p i = p1 i + (p2 i - p1 i) * t + w i) : InBox true (cylinderBox sq eps p1 p2 r) p := by
  intro i _
  have hn := pnormalize_unit sq hsq _ hax
  obtain ⟨hb0, hb1, hbneg⟩ := cab_props sq hsq eps heps (psub p2 p1) hax i
  have hwi := disc_axis_abs _ w r _ hn hw hr hww i hb0 hb1
  simp only [cylinderBox, padd_get, pscale_get, pmin_get, pmax_get, cabVec_get, hbneg]
  rw [hp i]
  have hq1 : min (p1 i) (p2 i) ≤ p1 i + (p2 i - p1 i) * t := by
    rcases le_total (p1 i) (p2 i) with h | h
    · rw [min_eq_left h]; nlinarith
    · rw [min_eq_right h]; nlinarith
  have hq2 : p1 i + (p2 i - p1 i) * t ≤ max (p1 i) (p2 i) := by
    rcases le_total (p1 i) (p2 i) with h | h
    · rw [max_eq_right h]; nlinarith
    · rw [max_eq_left h]; nlinarith
  constructor <;> nlinarith [hwi.1, hwi.2]

/-- Cone: a point `Base + t·(Tip−Base) + w` with `0 ≤ t ≤ 1`, `w ⟂ axis`, `|w| ≤ Radius·(1−t)` lies in
`[Cone.Min(), Cone.Max()]`. -/
theorem cone_bounded' (sq : K → K) (hsq : SqrtOK sq) (eps : K) (heps : 0 < eps) (tip base : Pt K) (r : K)
    (hax : 0 < pdot (psub tip base) (psub tip base)) (hr : 0 ≤ r) (t : K) (ht0 : 0 ≤ t) (ht1 : t ≤ 1) (w : Pt K)
    (hw : pdot w (pnormalize sq (psub tip base)) = 0) (hww : pdot w w ≤ (r * (1 - t)) * (r * (1 - t))) (p : Pt K)
    (hp : ∀ i, p i = base i + (tip i - base i) * t + w i) : InBox true (coneBox sq eps tip base r) p := by
  intro i _
  have hn := pnormalize_unit sq hsq _ hax
  obtain ⟨hb0, hb1, hbneg⟩ := cab_props sq hsq eps heps (psub tip base) hax i
  have hrt : 0 ≤ r * (1 - t) := mul_nonneg hr (by linarith)
  have hwi := disc_axis_abs _ w (r * (1 - t)) _ hn hw hrt hww i hb0 hb1
  simp only [coneBox, padd_get, pscale_get, pmin_get, pmax_get, cabVec_get, hbneg]
  rw [hp i]
  generalize circleAxisBound sq eps i (psub tip base) 1 = b at *
  constructor
  · rcases le_total (-b * r + base i) (tip i) with h | h
    · rw [min_eq_left h]; nlinarith [hwi.1]
    · rw [min_eq_right h]; nlinarith [hwi.1]
  · rcases le_total (b * r + base i) (tip i) with h | h
    · rw [max_eq_right h]; nlinarith [hwi.2]
    · rw [max_eq_left h]; nlinarith [hwi.2]

/-- Torus: a point `Center + u + v` with `u ⟂ Axis`, `|u| ≤ OuterRadius` (the ring point) and
`|v| ≤ InnerRadius` lies in `[Torus.Min(), Torus.Max()]`. -/
theorem torus_bounded' (sq : K → K) (hsq : SqrtOK sq) (eps : K) (heps : 0 < eps) (center axis : Pt K)
    (outer inner : K) (hax : 0 < pdot axis axis) (ho : 0 ≤ outer) (hi0 : 0 ≤ inner) (u v : Pt K)
    (hu : pdot u (pnormalize sq axis) = 0) (huu : pdot u u ≤ outer * outer) (hvv : pdot v v ≤ inner * inner)
    (p : Pt K) (hp : ∀ i, p i = center i + u i + v i) : InBox true (torusBox sq eps center axis outer inner) p := by
  intro i _
  have hn := pnormalize_unit sq hsq _ hax
  obtain ⟨hb0, hb1, hbneg⟩ := cab_props sq hsq eps heps axis hax i
  have hui := disc_axis_abs _ u outer _ hn hu ho huu i hb0 hb1
  have hvi : -inner ≤ v i ∧ v i ≤ inner := by
    apply sq_le_imp _ hi0
    simp only [pdot] at hvv
    rcases fin3 i with rfl | rfl | rfl <;>
      nlinarith [mul_self_nonneg (v 0), mul_self_nonneg (v 1), mul_self_nonneg (v 2)]
  have hex : (mk3 inner inner inner : Pt K) i = inner := by rcases fin3 i with rfl | rfl | rfl <;> simp
  simp only [torusBox, padd_get, psub_get, pscale_get, cabVec_get, hbneg, hex]
  rw [hp i]
  constructor <;> nlinarith [hui.1, hui.2, hvi.1, hvi.2]


/-! ## `toolbox3d.Ramp` (bounds of the repaired code) -/

/-- a convex combination `(1-t)²·a + t(1-t)·b + t·m` stays between the min and the max of `a, b, m` -/
theorem ramp_convex (t a b m L U : K) (ht0 : 0 < t) (ht1 : t < 1) (hLa : L ≤ a) (hLb : L ≤ b) (hLm : L ≤ m)
    (haU : a ≤ U) (hbU : b ≤ U) (hmU : m ≤ U) :
    L ≤ (1 - t) * (1 - t) * a + t * (1 - t) * b + t * m ∧ (1 - t) * (1 - t) * a + t * (1 - t) * b + t * m ≤ U := by
  have h1 : 0 ≤ (1 - t) * (1 - t) := mul_self_nonneg _
  have h2 : 0 ≤ t * (1 - t) := mul_nonneg ht0.le (by linarith)
  constructor
  · nlinarith [mul_nonneg h1 (sub_nonneg.mpr hLa), mul_nonneg h2 (sub_nonneg.mpr hLb), mul_nonneg ht0.le (sub_nonneg.mpr hLm)]
  · nlinarith [mul_nonneg h1 (sub_nonneg.mpr haU), mul_nonneg h2 (sub_nonneg.mpr hbU), mul_nonneg ht0.le (sub_nonneg.mpr hmU)]

/-- **Ramp.**  Every point `Ramp.Contains` accepts (off the degenerate plane through `P1`, where the
code divides by zero) is a convex combination of `P1`, `P2` and a point of the wrapped solid, hence
lies in the hull box the repaired `Min()/Max()` report. -/
theorem ramp_bounded' (s : Solid K) (hs : Bounded s) (h3 : s.d3 = true) (p1 p2 c : Pt K)
    (hne : pdot (psub p2 p1) (psub c p1) ≠ 0) (hc : rampContains s p1 p2 c = true) :
    InBox true (rampS s p1 p2).box c := by
  intro i _
  have hact : Active s.d3 i := h3 ▸ active_true i
  simp only [rampS, pmin_get, pmax_get]
  unfold rampContains at hc
  simp only at hc
  split_ifs at hc with h1 h2
  · -- scale ≥ 1: the point itself is in the solid
    have := hs c hc i hact
    exact ⟨le_trans (le_trans (min_le_left _ _) (min_le_left _ _)) this.1,
      le_trans this.2 (le_trans (le_max_left _ _) (le_max_left _ _))⟩
  · set sc := pdot (psub p2 p1) (psub c p1) with hsc
    set nn := (psub p2 p1) 0 * (psub p2 p1) 0 + (psub p2 p1) 1 * (psub p2 p1) 1 + (psub p2 p1) 2 * (psub p2 p1) 2 with hnn
    have hsc0 : 0 < sc := lt_of_le_of_ne (not_lt.mp h1) (Ne.symm hne)
    have hnn0 : 0 < nn := by
      have h0 : 0 ≤ nn := by
        rw [hnn]; nlinarith [mul_self_nonneg ((psub p2 p1) 0), mul_self_nonneg ((psub p2 p1) 1), mul_self_nonneg ((psub p2 p1) 2)]
      rcases h0.lt_or_eq with h | h
      · exact h
      · exfalso
        have e0 : (psub p2 p1) 0 = 0 := by
          rw [hnn] at h; nlinarith [mul_self_nonneg ((psub p2 p1) 0), mul_self_nonneg ((psub p2 p1) 1), mul_self_nonneg ((psub p2 p1) 2)]
        have e1 : (psub p2 p1) 1 = 0 := by
          rw [hnn] at h; nlinarith [mul_self_nonneg ((psub p2 p1) 0), mul_self_nonneg ((psub p2 p1) 1), mul_self_nonneg ((psub p2 p1) 2)]
        have e2 : (psub p2 p1) 2 = 0 := by
          rw [hnn] at h; nlinarith [mul_self_nonneg ((psub p2 p1) 0), mul_self_nonneg ((psub p2 p1) 1), mul_self_nonneg ((psub p2 p1) 2)]
        apply hne
        rw [hsc]; simp only [pdot, e0, e1, e2]; ring
    set t := sc / nn with ht
    have ht0 : 0 < t := div_pos hsc0 hnn0
    have ht1 : t < 1 := not_le.mp h2
    have hm := hs _ hc i hact
    simp only [padd_get, pscale_get, psub_get] at hm
    have key : c i = (1 - t) * (1 - t) * p1 i + t * (1 - t) * p2 i +
        t * ((c i - p1 i - (p2 i - p1 i) * t) * (1 / t) + (p2 i - p1 i) * t + p1 i) := by
      field_simp; ring
    have := ramp_convex t (p1 i) (p2 i) _ (min (min (s.box.lo i) (p1 i)) (p2 i)) (max (max (s.box.hi i) (p1 i)) (p2 i))
      ht0 ht1 (le_trans (min_le_left _ _) (min_le_right _ _)) (min_le_right _ _)
      (le_trans (le_trans (min_le_left _ _) (min_le_left _ _)) hm.1)
      (le_trans (le_max_right _ _) (le_max_left _ _)) (le_max_right _ _)
      (le_trans hm.2 (le_trans (le_max_left _ _) (le_max_left _ _)))
    rw [← key] at this
    exact this

end M3d.Bd
