import M3d.Model.Bounded
import Mathlib.Tactic.Ring
import Mathlib.Tactic.Linarith
import Mathlib.Tactic.FieldSimp
import Mathlib.Algebra.Order.Field.Basic
/-!
# Lemmas behind C03: boxes, folds of `Min`/`Max`, one lemma per combinator.

Everything is for an arbitrary linear ordered field `K` (so for ℚ — the instance the driver
executes — and for ℝ).
-/
namespace M3d.Bd

variable {K : Type} [Field K] [LinearOrder K] [IsStrictOrderedRing K]

/-! ## Axes, points -/

theorem fin3 (i : Fin 3) : i = 0 ∨ i = 1 ∨ i = 2 := by
  rcases i with ⟨v, hv⟩
  have : v = 0 ∨ v = 1 ∨ v = 2 := by omega
  rcases this with rfl | rfl | rfl <;> simp

@[simp] theorem get0 (x y z : K) : (mk3 x y z) 0 = x := rfl
@[simp] theorem get1 (x y z : K) : (mk3 x y z) 1 = y := rfl
@[simp] theorem get2 (x y z : K) : (mk3 x y z) 2 = z := rfl

theorem smin_eq (a b : K) : smin a b = min a b := (min_def a b).symm
theorem smax_eq (a b : K) : smax a b = max a b := (max_def a b).symm
theorem sabs_eq (a : K) : sabs a = |a| := by
  unfold sabs
  split_ifs with h
  · exact (abs_of_nonneg h).symm
  · exact (abs_of_neg (not_le.mp h)).symm

theorem pmin_get (a b : Pt K) (i : Fin 3) : (pmin a b) i = min (a i) (b i) := by
  rcases fin3 i with rfl | rfl | rfl <;> simp [pmin, smin_eq]
theorem pmax_get (a b : Pt K) (i : Fin 3) : (pmax a b) i = max (a i) (b i) := by
  rcases fin3 i with rfl | rfl | rfl <;> simp [pmax, smax_eq]
theorem padd_get (a b : Pt K) (i : Fin 3) : (padd a b) i = a i + b i := by
  rcases fin3 i with rfl | rfl | rfl <;> simp [padd]
theorem psub_get (a b : Pt K) (i : Fin 3) : (psub a b) i = a i - b i := by
  rcases fin3 i with rfl | rfl | rfl <;> simp [psub]
theorem pmul_get (a b : Pt K) (i : Fin 3) : (pmul a b) i = a i * b i := by
  rcases fin3 i with rfl | rfl | rfl <;> simp [pmul]
theorem pscale_get (a : Pt K) (s : K) (i : Fin 3) : (pscale a s) i = a i * s := by
  rcases fin3 i with rfl | rfl | rfl <;> simp [pscale]
theorem paddS_get (a : Pt K) (s : K) (i : Fin 3) : (paddS a s) i = a i + s := by
  rcases fin3 i with rfl | rfl | rfl <;> simp [paddS]
theorem precip_get (a : Pt K) (i : Fin 3) : (precip a) i = 1 / a i := by
  rcases fin3 i with rfl | rfl | rfl <;> simp [precip]

theorem Pt.ext' {a b : Pt K} (h : ∀ i, a i = b i) : a = b := by
  cases a; cases b
  have h0 := h 0; have h1 := h 1; have h2 := h 2
  simp [Pt.get] at h0 h1 h2
  simp [h0, h1, h2]

theorem mk3_eta (p : Pt K) : mk3 (p 0) (p 1) (p 2) = p := by
  apply Pt.ext'; intro i; rcases fin3 i with rfl | rfl | rfl <;> simp

/-! ## Boxes -/

/-- axis `i` is one the solid uses: `X`, `Y` always, `Z` only in 3D -/
def Active (d3 : Bool) (i : Fin 3) : Prop := i.val < 2 ∨ d3 = true

theorem active_and {x y : Bool} {i : Fin 3} (h : Active (x && y) i) : Active x i ∧ Active y i := by
  rcases h with h | h
  · exact ⟨Or.inl h, Or.inl h⟩
  · simp at h; exact ⟨Or.inr h.1, Or.inr h.2⟩

theorem active0 (d3 : Bool) : Active d3 0 := Or.inl (by decide)
theorem active1 (d3 : Bool) : Active d3 1 := Or.inl (by decide)
theorem active_true (i : Fin 3) : Active true i := Or.inr rfl

/-- `p` is inside the closed box on every axis the solid uses -/
def InBox (d3 : Bool) (b : Box K) (p : Pt K) : Prop := ∀ i, Active d3 i → b.lo i ≤ p i ∧ p i ≤ b.hi i

theorem axisOk_iff (b : Box K) (p : Pt K) (i : Fin 3) : axisOk b p i = true ↔ b.lo i ≤ p i ∧ p i ≤ b.hi i := by
  simp [axisOk]

theorem inB_iff (d3 : Bool) (b : Box K) (p : Pt K) : inB d3 b p = true ↔ InBox d3 b p := by
  unfold inB InBox
  simp only [Bool.and_eq_true, Bool.or_eq_true, Bool.not_eq_true', axisOk_iff]
  constructor
  · rintro ⟨⟨h0, h1⟩, h2⟩ i hi
    rcases fin3 i with rfl | rfl | rfl
    · exact h0
    · exact h1
    · rcases h2 with h2 | h2
      · rcases hi with hi | hi
        · exact absurd hi (by decide)
        · rw [h2] at hi; exact absurd hi (by decide)
      · exact h2
  · intro h
    refine ⟨⟨h 0 (active0 _), h 1 (active1 _)⟩, ?_⟩
    cases d3
    · exact Or.inl rfl
    · exact Or.inr (h 2 (active_true _))

/-- the solid answers `false` outside its reported box -/
def Bounded (s : Solid K) : Prop := ∀ p, s.f p = true → InBox s.d3 s.box p
/-- `Min() ≤ Max()` on every axis the solid uses (`BoundsValid`'s order test) -/
def Ordered (s : Solid K) : Prop := ∀ i, Active s.d3 i → s.box.lo i ≤ s.box.hi i

theorem boxValid_iff (d3 : Bool) (b : Box K) : boxValid d3 b = true ↔ ∀ i, Active d3 i → b.lo i ≤ b.hi i := by
  unfold boxValid
  simp only [Bool.and_eq_true, Bool.or_eq_true, Bool.not_eq_true', decide_eq_true_eq]
  constructor
  · rintro ⟨⟨h0, h1⟩, h2⟩ i hi
    rcases fin3 i with rfl | rfl | rfl
    · exact h0
    · exact h1
    · rcases h2 with h2 | h2
      · rcases hi with hi | hi
        · exact absurd hi (by decide)
        · rw [h2] at hi; exact absurd hi (by decide)
      · exact h2
  · intro h
    refine ⟨⟨h 0 (active0 _), h 1 (active1 _)⟩, ?_⟩
    cases d3
    · exact Or.inl rfl
    · exact Or.inr (h 2 (active_true _))

/-! ## Wrappers: `CheckedFuncSolid`, `ForceSolidBounds`, `CacheSolidBounds` -/

theorem checked_bounded (d3 : Bool) (box : Box K) (g : Pt K → Bool) : Bounded (checkedS d3 box g) := by
  intro p hp
  simp only [checkedS, Bool.and_eq_true] at hp
  exact (inB_iff _ _ _).mp hp.1

theorem checked_f (d3 : Bool) (box : Box K) (g : Pt K → Bool) (p : Pt K) :
    (checkedS d3 box g).f p = true ↔ InBox d3 box p ∧ g p = true := by
  simp [checkedS, inB_iff]

theorem force_bounded (s : Solid K) (box : Box K) : Bounded (forceS s box) := checked_bounded _ _ _
theorem cache_bounded (s : Solid K) : Bounded (cacheS s) := checked_bounded _ _ _

theorem cache_no_cut (s : Solid K) (hs : Bounded s) (p : Pt K) (hp : s.f p = true) : (cacheS s).f p = true := by
  unfold cacheS forceS
  rw [checked_f]
  exact ⟨hs p hp, hp⟩

theorem cache_f_iff (s : Solid K) (hs : Bounded s) (p : Pt K) : (cacheS s).f p = s.f p := by
  cases h : s.f p
  · cases h' : (cacheS s).f p
    · rfl
    · unfold cacheS forceS at h'
      rw [checked_f] at h'
      rw [h'.2] at h; exact absurd h (by decide)
  · exact cache_no_cut s hs p h

/-! ## Folds of `Min` / `Max` -/

theorem foldl_union_lo (rest : List (Solid K)) (acc : Box K) (i : Fin 3) :
    (rest.foldl (fun b s => boxUnion b s.box) acc).lo i ≤ acc.lo i ∧
    ∀ s ∈ rest, (rest.foldl (fun b s => boxUnion b s.box) acc).lo i ≤ s.box.lo i := by
  induction rest generalizing acc with
  | nil => simp
  | cons s ss ih =>
    simp only [List.foldl_cons, List.mem_cons, forall_eq_or_imp]
    have h := ih (boxUnion acc s.box)
    have hu : (boxUnion acc s.box).lo i = min (acc.lo i) (s.box.lo i) := by simp [boxUnion, pmin_get]
    refine ⟨le_trans h.1 (hu ▸ min_le_left _ _), le_trans h.1 (hu ▸ min_le_right _ _), h.2⟩

theorem foldl_union_hi (rest : List (Solid K)) (acc : Box K) (i : Fin 3) :
    acc.hi i ≤ (rest.foldl (fun b s => boxUnion b s.box) acc).hi i ∧
    ∀ s ∈ rest, s.box.hi i ≤ (rest.foldl (fun b s => boxUnion b s.box) acc).hi i := by
  induction rest generalizing acc with
  | nil => simp
  | cons s ss ih =>
    simp only [List.foldl_cons, List.mem_cons, forall_eq_or_imp]
    have h := ih (boxUnion acc s.box)
    have hu : (boxUnion acc s.box).hi i = max (acc.hi i) (s.box.hi i) := by simp [boxUnion, pmax_get]
    refine ⟨le_trans (hu ▸ le_max_left _ _) h.1, le_trans (hu ▸ le_max_right _ _) h.1, h.2⟩

theorem foldl_pmax_le (rest : List (Solid K)) (acc : Pt K) (i : Fin 3) (v : K)
    (hacc : acc i ≤ v) (hr : ∀ s ∈ rest, s.box.lo i ≤ v) :
    (rest.foldl (fun b s => pmax b s.box.lo) acc) i ≤ v := by
  induction rest generalizing acc with
  | nil => simpa using hacc
  | cons s ss ih =>
    simp only [List.foldl_cons]
    apply ih
    · rw [pmax_get]; exact max_le hacc (hr s (List.mem_cons_self))
    · intro t ht; exact hr t (List.mem_cons_of_mem _ ht)

theorem le_foldl_pmin (rest : List (Solid K)) (acc : Pt K) (i : Fin 3) (v : K)
    (hacc : v ≤ acc i) (hr : ∀ s ∈ rest, v ≤ s.box.hi i) :
    v ≤ (rest.foldl (fun b s => pmin b s.box.hi) acc) i := by
  induction rest generalizing acc with
  | nil => simpa using hacc
  | cons s ss ih =>
    simp only [List.foldl_cons]
    apply ih
    · rw [pmin_get]; exact le_min hacc (hr s (List.mem_cons_self))
    · intro t ht; exact hr t (List.mem_cons_of_mem _ ht)

theorem active_all {a : Bool} {rest : List (Solid K)} {i : Fin 3}
    (h : Active (a && rest.all (·.d3)) i) : Active a i ∧ ∀ s ∈ rest, Active s.d3 i := by
  have h' := active_and h
  refine ⟨h'.1, fun s hs => ?_⟩
  rcases h'.2 with h2 | h2
  · exact Or.inl h2
  · exact Or.inr (List.all_eq_true.mp h2 s hs)

/-! ## `JoinedSolid`, `IntersectedSolid`, `SubtractedSolid` -/

theorem joined_bounded (a : Solid K) (rest : List (Solid K)) (ha : Bounded a) (hr : ∀ s ∈ rest, Bounded s) :
    Bounded (joinedS a rest) := by
  intro p hp i hi
  simp only [joinedS] at hp hi ⊢
  have hact := active_all hi
  have hlo := foldl_union_lo rest a.box i
  have hhi := foldl_union_hi rest a.box i
  rcases Bool.or_eq_true _ _ |>.mp hp with h | h
  · have := ha p h i hact.1
    exact ⟨le_trans hlo.1 this.1, le_trans this.2 hhi.1⟩
  · obtain ⟨s, hs, hsp⟩ := List.any_eq_true.mp h
    have := hr s hs p hsp i (hact.2 s hs)
    exact ⟨le_trans (hlo.2 s hs) this.1, le_trans this.2 (hhi.2 s hs)⟩

theorem joined_ordered (a : Solid K) (rest : List (Solid K)) (ha : Ordered a) : Ordered (joinedS a rest) := by
  intro i hi
  simp only [joinedS] at hi ⊢
  have hact := active_all hi
  exact le_trans (foldl_union_lo rest a.box i).1 (le_trans (ha i hact.1) (foldl_union_hi rest a.box i).1)

/-- whatever the operands (also when the intersection of their boxes is empty), `IntersectedSolid`
reports `Min ≤ Max`: `Max()` ends with `.Max(i.Min())` -/
theorem inter_ordered (a : Solid K) (rest : List (Solid K)) : Ordered (interS a rest) := by
  intro i _
  simp only [interS, interHi, pmax_get]
  exact le_max_right _ _

theorem inter_bounded (a : Solid K) (rest : List (Solid K)) (ha : Bounded a) (hr : ∀ s ∈ rest, Bounded s) :
    Bounded (interS a rest) := by
  intro p hp i hi
  simp only [interS] at hp hi ⊢
  have hact := active_all hi
  obtain ⟨hpa, hpr⟩ := Bool.and_eq_true _ _ |>.mp hp
  have hall := List.all_eq_true.mp hpr
  have h1 : interLo a rest i ≤ p i := by
    unfold interLo
    apply foldl_pmax_le
    · exact (ha p hpa i hact.1).1
    · intro s hs; exact (hr s hs p (hall s hs) i (hact.2 s hs)).1
  refine ⟨h1, ?_⟩
  unfold interHi
  rw [pmax_get]
  apply le_max_of_le_left
  apply le_foldl_pmin
  · exact (ha p hpa i hact.1).2
  · intro s hs; exact (hr s hs p (hall s hs) i (hact.2 s hs)).2

theorem sub_bounded (pos neg : Solid K) (hp : Bounded pos) : Bounded (subS pos neg) := by
  intro p h
  simp only [subS, Bool.and_eq_true] at h ⊢
  exact hp p h.1

theorem sub_ordered (pos neg : Solid K) (hp : Ordered pos) : Ordered (subS pos neg) := hp

/-! ## Transforms -/

/-- the transform acts in the dimension of the solid (Go's types guarantee it) -/
def Xf1.Fits (d3 : Bool) : Xf1 K → Prop
  | .matrix3 _ _ => d3 = true
  | .matrix2 _ _ _ _ _ _ _ _ => d3 = false
  | _ => True

/-- the stored inverse really inverts (`Scale ≠ 0`, every `VecScale` factor `≠ 0`, `mi · m = 1`) -/
def Xf1.Invertible : Xf1 K → Prop
  | .translate _ => True
  | .scale s => s ≠ 0
  | .vecScale v => v 0 ≠ 0 ∧ v 1 ≠ 0 ∧ v 2 ≠ 0
  | .matrix3 m mi => ∀ p, mi.mulCol (m.mulCol p) = p
  | .matrix2 a b c d ia ib ic id => ∀ p, mulCol2 ia ib ic id (mulCol2 a b c d p) = p

theorem Xf1.inverse_apply (t : Xf1 K) (h : t.Invertible) (p : Pt K) : t.inverse.apply (t.apply p) = p := by
  cases t with
  | translate o =>
    apply Pt.ext'; intro i
    simp only [Xf1.inverse, Xf1.apply, padd_get, pscale_get]; ring
  | scale s =>
    have hs : s ≠ 0 := h
    apply Pt.ext'; intro i
    simp only [Xf1.inverse, Xf1.apply, pscale_get]; field_simp
  | vecScale v =>
    obtain ⟨h0, h1, h2⟩ := h
    apply Pt.ext'; intro i
    simp only [Xf1.inverse, Xf1.apply, pmul_get, precip_get]
    rcases fin3 i with rfl | rfl | rfl <;> field_simp
  | matrix3 m mi => exact h p
  | matrix2 a b c d ia ib ic id => exact h p

theorem applyL_inverseL (ts : List (Xf1 K)) (h : ∀ t ∈ ts, t.Invertible) (p : Pt K) :
    applyL (inverseL ts) (applyL ts p) = p := by
  induction ts generalizing p with
  | nil => rfl
  | cons t ts ih =>
    simp only [applyL, inverseL, List.map_cons, List.reverse_cons, List.foldl_append, List.foldl_cons,
      List.foldl_nil] at ih ⊢
    rw [ih (fun t' ht' => h t' (List.mem_cons_of_mem _ ht'))]
    exact Xf1.inverse_apply t (h t List.mem_cons_self) p

theorem scale_between {lo hi p s : K} (h0 : lo ≤ p) (h1 : p ≤ hi) :
    min (lo * s) (hi * s) ≤ p * s ∧ p * s ≤ max (hi * s) (lo * s) := by
  rcases le_total 0 s with hs | hs
  · exact ⟨le_trans (min_le_left _ _) (mul_le_mul_of_nonneg_right h0 hs),
      le_trans (mul_le_mul_of_nonneg_right h1 hs) (le_max_left _ _)⟩
  · exact ⟨le_trans (min_le_right _ _) (mul_le_mul_of_nonpos_right h1 hs),
      le_trans (mul_le_mul_of_nonpos_right h0 hs) (le_max_right _ _)⟩

theorem foldl_pmin_le (rest : List (Pt K)) (acc : Pt K) (i : Fin 3) :
    (rest.foldl pmin acc) i ≤ acc i ∧ ∀ c ∈ rest, (rest.foldl pmin acc) i ≤ c i := by
  induction rest generalizing acc with
  | nil => simp
  | cons s ss ih =>
    simp only [List.foldl_cons, List.mem_cons, forall_eq_or_imp]
    have h := ih (pmin acc s)
    rw [pmin_get] at h
    exact ⟨le_trans h.1 (min_le_left _ _), le_trans h.1 (min_le_right _ _), h.2⟩

theorem le_foldl_pmax (rest : List (Pt K)) (acc : Pt K) (i : Fin 3) :
    acc i ≤ (rest.foldl pmax acc) i ∧ ∀ c ∈ rest, c i ≤ (rest.foldl pmax acc) i := by
  induction rest generalizing acc with
  | nil => simp
  | cons s ss ih =>
    simp only [List.foldl_cons, List.mem_cons, forall_eq_or_imp]
    have h := ih (pmax acc s)
    rw [pmax_get] at h
    exact ⟨le_trans (le_max_left _ _) h.1, le_trans (le_max_right _ _) h.1, h.2⟩

theorem hull_mem (first : Pt K) (rest : List (Pt K)) (c : Pt K) (hc : c ∈ first :: rest) (i : Fin 3) :
    (hullOf first rest).lo i ≤ c i ∧ c i ≤ (hullOf first rest).hi i := by
  simp only [hullOf]
  rcases List.mem_cons.mp hc with rfl | h
  · exact ⟨(foldl_pmin_le rest c i).1, (le_foldl_pmax rest c i).1⟩
  · exact ⟨(foldl_pmin_le rest first i).2 c h, (le_foldl_pmax rest first i).2 c h⟩

theorem hull_ordered (first : Pt K) (rest : List (Pt K)) (i : Fin 3) :
    (hullOf first rest).lo i ≤ (hullOf first rest).hi i :=
  le_trans (hull_mem first rest first List.mem_cons_self i).1 (hull_mem first rest first List.mem_cons_self i).2

/-- a linear form on a box lies between its values at two opposite corners chosen by the signs -/
theorem lin_corner (a x0 x1 x : K) (h0 : x0 ≤ x) (h1 : x ≤ x1) :
    (a * x0 ≤ a * x ∧ a * x ≤ a * x1) ∨ (a * x1 ≤ a * x ∧ a * x ≤ a * x0) := by
  rcases le_total 0 a with ha | ha
  · exact Or.inl ⟨mul_le_mul_of_nonneg_left h0 ha, mul_le_mul_of_nonneg_left h1 ha⟩
  · exact Or.inr ⟨mul_le_mul_of_nonpos_left h1 ha, mul_le_mul_of_nonpos_left h0 ha⟩

end M3d.Bd
