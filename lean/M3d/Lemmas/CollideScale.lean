import M3d.Model.CollideScale
import M3d.Lemmas.CollideGeom
import M3d.Lemmas.Collide
import Mathlib.Tactic.Ring
import Mathlib.Tactic.FieldSimp
import Mathlib.Tactic.Linarith
/-!
# C07 — re-entrant callbacks and rays with a scaled direction (lemmas)
-/
set_option linter.unusedSectionVars false
set_option linter.unusedVariables false
set_option linter.unusedSimpArgs false
namespace M3d.Col

/-! ## callbacks -/
section Reent
variable {R H σ T : Type}

theorem foldl_recordActive (c : Collider R H) (q : Collider R H → H → List T) :
    ∀ (hs : List H) (s : List H × List T),
      hs.foldl (fun s h => recordActive c q h s) s = (s.1 ++ hs, s.2 ++ hs.flatMap (q c))
  | [], s => by simp
  | h :: hs, s => by
      rw [List.foldl_cons, foldl_recordActive c q hs]
      simp [recordActive, List.append_assoc]

/-- the user's own state is folded over the collisions of the passive enumeration, whatever else the callback
records -/
theorem foldl_pair_fst {σ₁ σ₂ : Type} (f : H → σ₁ → σ₁) (g : H → σ₁ × σ₂ → σ₂) :
    ∀ (hs : List H) (s : σ₁ × σ₂),
      (hs.foldl (fun s h => (f h s.1, g h s)) s).1 = hs.foldl (fun s h => f h s) s.1
  | [], s => rfl
  | h :: hs, s => by rw [List.foldl_cons, foldl_pair_fst f g hs]; rfl

theorem foldl_prod {σ₁ σ₂ : Type} (f : H → σ₁ → σ₁) (g : H → σ₂ → σ₂) :
    ∀ (hs : List H) (s : σ₁ × σ₂),
      hs.foldl (fun s h => (f h s.1, g h s.2)) s = (hs.foldl (fun s h => f h s) s.1, hs.foldl (fun s h => g h s) s.2)
  | [], s => rfl
  | h :: hs, s => by rw [List.foldl_cons, foldl_prod f g hs]; rfl

end Reent

variable {K : Type} [Field K] [LinearOrder K] [IsStrictOrderedRing K]

/-! ## square roots and norms of scaled vectors -/

theorem sqrt_scale {sqrtF : K → K} (hs : SqrtOK sqrtF) {x k : K} (hx : 0 ≤ x) (hk : 0 ≤ k) :
    sqrtF (x * (k * k)) = sqrtF x * k := by
  obtain ⟨h1, h2⟩ := hs x hx
  have h : x * (k * k) = (sqrtF x * k) * (sqrtF x * k) := by
    calc x * (k * k) = (sqrtF x * sqrtF x) * (k * k) := by rw [h2]
      _ = _ := by ring
  rw [h]
  exact sqrt_sq_eq hs (mul_nonneg h1 hk)

theorem V2.norm_scale {sqrtF : K → K} (hs : SqrtOK sqrtF) (d : V2 K) {k : K} (hk : 0 ≤ k) :
    (d.scale k).norm sqrtF = d.norm sqrtF * k := by
  have h : (d.scale k).x * (d.scale k).x + (d.scale k).y * (d.scale k).y =
      (d.x * d.x + d.y * d.y) * (k * k) := by simp only [V2.scale]; ring
  unfold V2.norm
  rw [h]
  exact sqrt_scale hs (add_nonneg (mul_self_nonneg _) (mul_self_nonneg _)) hk

theorem V3.norm_scale {sqrtF : K → K} (hs : SqrtOK sqrtF) (d : V3 K) {k : K} (hk : 0 ≤ k) :
    (d.scale k).norm sqrtF = d.norm sqrtF * k := by
  have h : (d.scale k).x * (d.scale k).x + (d.scale k).y * (d.scale k).y + (d.scale k).z * (d.scale k).z =
      (d.x * d.x + d.y * d.y + d.z * d.z) * (k * k) := by simp only [V3.scale]; ring
  unfold V3.norm
  rw [h]
  exact sqrt_scale hs (sumsq3_nonneg _ _ _) hk

theorem scaleParam_nonneg {k : K} (hk : 0 < k) (t : K) : 0 ≤ scaleParam k t ↔ 0 ≤ t := by
  unfold scaleParam
  constructor
  · intro h
    by_contra hn
    have := div_neg_of_neg_of_pos (not_le.1 hn) hk
    linarith
  · intro h; exact div_nonneg h hk.le

theorem scaleParam_lt {k : K} (hk : 0 < k) (a b : K) : scaleParam k a < scaleParam k b ↔ a < b := by
  unfold scaleParam
  exact div_lt_div_iff_of_pos_right hk

theorem scaleParam_le {k : K} (hk : 0 < k) (a b : K) : scaleParam k a ≤ scaleParam k b ↔ a ≤ b := by
  unfold scaleParam
  exact div_le_div_iff_of_pos_right hk

theorem scaleParam_inj {k : K} (hk : 0 < k) (a b : K) : scaleParam k a = scaleParam k b ↔ a = b := by
  unfold scaleParam
  constructor
  · intro h
    have := congrArg (· * k) h
    simpa [div_mul_cancel₀, hk.ne'] using this
  · intro h; rw [h]

/-! ## 2-D `Segment.rayCollision` -/

theorem seg2Ray_scale {sqrtF : K → K} (hs : SqrtOK sqrtF) (eps : K) (s0 s1 o d : V2 K) {k : K} (hk : 0 < k) :
    seg2Ray sqrtF eps s0 s1 o (d.scale k) =
      (seg2Ray sqrtF eps s0 s1 o d).map (fun p => (p.1, scaleParam k p.2)) := by
  unfold seg2Ray
  simp only [V2.norm_scale hs d hk.le]
  have hdet : (s1.sub s0).x * (d.scale k).y - (d.scale k).x * (s1.sub s0).y =
      ((s1.sub s0).x * d.y - d.x * (s1.sub s0).y) * k := by simp only [V2.scale]; ring
  rw [hdet]
  set D := (s1.sub s0).x * d.y - d.x * (s1.sub s0).y with hD
  have hcond : absS (D * k) < eps * (s1.sub s0).norm sqrtF * (d.norm sqrtF * k) ↔
      absS D < eps * (s1.sub s0).norm sqrtF * d.norm sqrtF := by
    rw [absS_eq, absS_eq, abs_mul, abs_of_pos hk, ← mul_assoc]
    exact mul_lt_mul_iff_of_pos_right hk
  by_cases hc : absS D < eps * (s1.sub s0).norm sqrtF * d.norm sqrtF
  · rw [if_pos (hcond.2 hc), if_pos hc]; rfl
  · rw [if_neg (fun h => hc (hcond.1 h)), if_neg hc]
    simp only [Option.map_some, Option.some.injEq, Prod.mk.injEq, V2.scale, scaleParam]
    by_cases hD0 : D = 0
    · simp [hD0]
    · have hk0 : k ≠ 0 := hk.ne'
      refine ⟨?_, ?_⟩
      · congr 2
        · congr 1
          field_simp
        · field_simp
      · field_simp

/-! ## list helpers -/

theorem isZero_scale {k : K} (hk : 0 < k) (x : K) : isZero (x * k) = isZero x := by
  rw [Bool.eq_iff_iff, isZero_iff, isZero_iff]
  constructor
  · intro h
    rcases mul_eq_zero.1 h with h | h
    · exact h
    · exact absurd h hk.ne'
  · intro h; rw [h, zero_mul]

theorem minFirst_map {H : Type} (tOf : H → K) (sc : H → H)
    (hlt : ∀ a b, tOf (sc a) < tOf (sc b) ↔ tOf a < tOf b) :
    ∀ (hs : List H) (best : Option H),
      minFirst tOf (hs.map sc) (best.map sc) = (minFirst tOf hs best).map sc
  | [], best => rfl
  | h :: hs, none => by
      simp only [List.map_cons, Option.map_none, minFirst]
      exact minFirst_map tOf sc hlt hs (some h)
  | h :: hs, some b => by
      simp only [List.map_cons, Option.map_some, minFirst]
      by_cases hc : tOf h < tOf b
      · rw [if_pos hc, if_pos ((hlt h b).2 hc)]
        exact minFirst_map tOf sc hlt hs (some h)
      · rw [if_neg hc, if_neg (fun h' => hc ((hlt h b).1 h'))]
        exact minFirst_map tOf sc hlt hs (some b)

theorem headFirst_map {H : Type} (sc : H → H) (hs : List H) : headFirst (hs.map sc) = (headFirst hs).map sc := by
  cases hs <;> rfl

theorem hit_scaleT_lt {k : K} (hk : 0 < k) (a b : Hit K) : (Hit.scaleT k a).t < (Hit.scaleT k b).t ↔ a.t < b.t :=
  scaleParam_lt hk a.t b.t

theorem hit2_scaleT_lt {k : K} (hk : 0 < k) (a b : Hit2 K) :
    (Hit2.scaleT k a).t < (Hit2.scaleT k b).t ↔ a.t < b.t :=
  scaleParam_lt hk a.t b.t

/-- a collider given by its list of callbacks (`ofHits`) is scale covariant when the list and the first collision are -/
theorem ofHits_scaleCov {V H : Type} (scaleDir : V → K → V) (sc : K → H → H) (hits : V × V → List H)
    (first : V × V → Option H)
    (hh : ∀ o d k, 0 < k → hits (o, scaleDir d k) = (hits (o, d)).map (sc k))
    (hf : ∀ o d k, 0 < k → first (o, scaleDir d k) = (first (o, d)).map (sc k)) :
    ScaleCov scaleDir sc (ofHits hits first) := by
  intro o d k hk
  refine ⟨fun cb => ?_, hf o d k hk⟩
  simp only [ofHits, scaledRun, hh o d k hk, List.length_map]
  cases cb <;> simp

/-! ## 2-D `Segment.RayCollisions` -/

theorem seg2Hits_scale {sqrtF : K → K} (hs : SqrtOK sqrtF) (eps : K) (s0 s1 o d : V2 K) {k : K} (hk : 0 < k) :
    seg2Hits sqrtF eps s0 s1 o (d.scale k) = (seg2Hits sqrtF eps s0 s1 o d).map (Hit2.scaleT k) := by
  unfold seg2Hits
  rw [seg2Ray_scale hs eps s0 s1 o d hk]
  cases h : seg2Ray sqrtF eps s0 s1 o d with
  | none => rfl
  | some p =>
    obtain ⟨b, t⟩ := p
    cases b
    · rfl
    · simp only [Option.map_some]
      by_cases ht : 0 ≤ t
      · rw [if_pos ht, if_pos ((scaleParam_nonneg hk t).2 ht)]; rfl
      · rw [if_neg ht, if_neg (fun h' => ht ((scaleParam_nonneg hk t).1 h'))]; rfl

theorem seg2Collider_scaleCov {sqrtF : K → K} (hs : SqrtOK sqrtF) (eps : K) (s0 s1 : V2 K) :
    ScaleCov V2.scale Hit2.scaleT (seg2Collider sqrtF eps s0 s1) := by
  unfold seg2Collider
  apply ofHits_scaleCov
  · intro o d k hk; exact seg2Hits_scale hs eps s0 s1 o d hk
  · intro o d k hk
    show headFirst (seg2Hits sqrtF eps s0 s1 o (d.scale k)) = _
    rw [seg2Hits_scale hs eps s0 s1 o d hk, headFirst_map]

/-! ## `profileCollider` -/

theorem profInside2d_scale {k : K} (hk : 0 < k) (colls : List (Hit2 K)) (t : K) :
    profInside2d (colls.map (Hit2.scaleT k)) (scaleParam k t) = profInside2d colls t := by
  unfold profInside2d
  have h1 : (colls.map (Hit2.scaleT k)).any (fun rc => eqB rc.t (scaleParam k t)) =
      colls.any (fun rc => eqB rc.t t) := by
    rw [List.any_map]
    congr 1
    funext rc
    rw [Function.comp, Bool.eq_iff_iff, eqB_iff, eqB_iff]
    exact scaleParam_inj hk rc.t t
  have h2 : ((colls.map (Hit2.scaleT k)).filter fun rc => decide (scaleParam k t < rc.t)).length =
      (colls.filter fun rc => decide (t < rc.t)).length := by
    rw [List.filter_map, List.length_map]
    congr 2
    funext rc
    show decide (scaleParam k t < scaleParam k rc.t) = _
    exact decide_eq_decide.2 (scaleParam_lt hk t rc.t)
  rw [h1, h2]

theorem profGeneral_scale (sc : Hit K → Hit K) (f0 f1 : Bool) (sides : List (Hit K)) (h0 h1 : Hit K) (cb : Bool) :
    profGeneral f0 f1 (sides.map sc) (sc h0) (sc h1) cb = scaledRun sc (profGeneral f0 f1 sides h0 h1 cb) := by
  unfold profGeneral scaledRun
  cases f0 <;> cases f1 <;> cases cb <;> simp

/-- the lift of a 2-D collision to a side collision of the extrusion -/
def profLift (rc : Hit2 K) : Hit K := ⟨rc.t, ⟨rc.n.x, rc.n.y, 0⟩⟩

/-- the non-flat case of `profileCollider.RayCollisions` as a function of the 2-D collisions, the closure `inside2d`
and the two face parameters -/
def profGen (colls : List (Hit2 K)) (inside2d : K → Bool) (t0 t1 : K) (cb : Bool) : Nat × List (Hit K) :=
  let swap := decide (t1 < t0)
  let minT := if swap then t1 else t0
  let maxT := if swap then t0 else t1
  let minN : V3 K := if swap then ⟨0, 0, 1⟩ else ⟨0, 0, -1⟩
  let maxN : V3 K := if swap then ⟨0, 0, -1⟩ else ⟨0, 0, 1⟩
  profGeneral (decide (0 ≤ minT) && inside2d minT) (decide (0 ≤ maxT) && inside2d maxT)
    ((colls.filter fun rc => decide (minT ≤ rc.t) && decide (rc.t ≤ maxT)).map profLift)
    ⟨minT, minN⟩ ⟨maxT, maxN⟩ cb

theorem profSides_scale {k : K} (hk : 0 < k) (colls : List (Hit2 K)) (a b : K) :
    ((colls.map (Hit2.scaleT k)).filter fun rc => decide (scaleParam k a ≤ rc.t) && decide (rc.t ≤ scaleParam k b)).map
        profLift =
      ((colls.filter fun rc => decide (a ≤ rc.t) && decide (rc.t ≤ b)).map profLift).map (Hit.scaleT k) := by
  rw [List.filter_map, List.map_map, List.map_map]
  have hf : ((fun rc : Hit2 K => decide (scaleParam k a ≤ rc.t) && decide (rc.t ≤ scaleParam k b)) ∘ Hit2.scaleT k) =
      fun rc => decide (a ≤ rc.t) && decide (rc.t ≤ b) := by
    funext rc
    show (decide (scaleParam k a ≤ scaleParam k rc.t) && decide (scaleParam k rc.t ≤ scaleParam k b)) = _
    rw [decide_eq_decide.2 (scaleParam_le hk a rc.t), decide_eq_decide.2 (scaleParam_le hk rc.t b)]
  rw [hf]
  rfl

theorem profGen_scale {k : K} (hk : 0 < k) (colls : List (Hit2 K)) (ins ins' : K → Bool)
    (hins : ∀ t, ins' (scaleParam k t) = ins t) (t0 t1 : K) (cb : Bool) :
    profGen (colls.map (Hit2.scaleT k)) ins' (scaleParam k t0) (scaleParam k t1) cb =
      scaledRun (Hit.scaleT k) (profGen colls ins t0 t1 cb) := by
  unfold profGen
  simp only [decide_eq_decide.2 (scaleParam_lt hk t1 t0)]
  by_cases hsw : t1 < t0
  · simp only [hsw, decide_true, if_true, hins, decide_eq_decide.2 (scaleParam_nonneg hk _), profSides_scale hk]
    exact profGeneral_scale (Hit.scaleT k) _ _ _ ⟨t1, _⟩ ⟨t0, _⟩ cb
  · simp only [hsw, decide_false, Bool.false_eq_true, if_false, hins, decide_eq_decide.2 (scaleParam_nonneg hk _),
      profSides_scale hk]
    exact profGeneral_scale (Hit.scaleT k) _ _ _ ⟨t0, _⟩ ⟨t1, _⟩ cb

theorem profileRay_eq (ray2 : V2 K → V2 K → List (Hit2 K)) (solid2 : V2 K → Bool) (minZ maxZ : K) (o d : V3 K)
    (cb : Bool) :
    profileRay ray2 solid2 minZ maxZ o d cb =
      (let vertical := isZero d.x && isZero d.y
       if vertical && !solid2 o.xy then (0, [])
       else
         let colls := if vertical then [] else ray2 o.xy d.xy
         if isZero d.z then
           if o.z < minZ ∨ maxZ < o.z then (0, []) else profFlat (colls.map profLift) cb
         else
           profGen colls (fun t => if vertical then true else profInside2d colls t)
             ((minZ - o.z) / d.z) ((maxZ - o.z) / d.z) cb) := rfl

theorem profileRay_scale (ray2 : V2 K → V2 K → List (Hit2 K))
    (hcov : ∀ o d k, 0 < k → ray2 o (d.scale k) = (ray2 o d).map (Hit2.scaleT k))
    (solid2 : V2 K → Bool) (minZ maxZ : K) (o d : V3 K) {k : K} (hk : 0 < k) (cb : Bool) :
    profileRay ray2 solid2 minZ maxZ o (d.scale k) cb =
      scaledRun (Hit.scaleT k) (profileRay ray2 solid2 minZ maxZ o d cb) := by
  have hxy : (d.scale k).xy = d.xy.scale k := rfl
  have hx : isZero (d.scale k).x = isZero d.x := isZero_scale hk d.x
  have hy : isZero (d.scale k).y = isZero d.y := isZero_scale hk d.y
  have hz : isZero (d.scale k).z = isZero d.z := isZero_scale hk d.z
  have hlift : ∀ colls : List (Hit2 K),
      (colls.map (Hit2.scaleT k)).map profLift = (colls.map profLift).map (Hit.scaleT k) := by
    intro colls; rw [List.map_map, List.map_map]; rfl
  have hdiv : ∀ a : K, a / (d.scale k).z = scaleParam k (a / d.z) := by
    intro a; show a / (d.z * k) = a / d.z / k; rw [div_mul_eq_div_div]
  rw [profileRay_eq, profileRay_eq]
  simp only [hx, hy, hz, hxy, hcov _ _ _ hk, hdiv]
  by_cases hv : (isZero d.x && isZero d.y) = true
  · -- vertical ray
    simp only [hv, Bool.true_and, if_true]
    by_cases hs2 : solid2 o.xy = true
    · simp only [hs2, Bool.not_true, Bool.false_eq_true, if_false]
      by_cases hz0 : isZero d.z = true
      · simp only [hz0, if_true]
        split_ifs
        · rfl
        · cases cb <;> rfl
      · simp only [hz0, Bool.false_eq_true, if_false]
        exact profGen_scale hk [] _ _ (fun _ => rfl) _ _ cb
    · simp only [hs2, Bool.not_false, if_true]; rfl
  · simp only [hv, Bool.false_and, Bool.false_eq_true, if_false]
    by_cases hz0 : isZero d.z = true
    · simp only [hz0, if_true]
      split_ifs
      · rfl
      · rw [hlift]
        cases cb <;> simp [profFlat, scaledRun]
    · simp only [hz0, Bool.false_eq_true, if_false]
      exact profGen_scale hk _ _ _ (fun t => profInside2d_scale hk _ t) _ _ cb

theorem profileCollider_scaleCov (ray2 : V2 K → V2 K → List (Hit2 K))
    (hcov : ∀ o d k, 0 < k → ray2 o (d.scale k) = (ray2 o d).map (Hit2.scaleT k))
    (solid2 : V2 K → Bool) (minZ maxZ : K) :
    ScaleCov V3.scale Hit.scaleT (profileCollider ray2 solid2 minZ maxZ) := by
  intro o d k hk
  refine ⟨fun cb => profileRay_scale ray2 hcov solid2 minZ maxZ o d hk cb, ?_⟩
  show minFirst Hit.t (profileRay ray2 solid2 minZ maxZ o (d.scale k) true).2 none = _
  rw [profileRay_scale ray2 hcov solid2 minZ maxZ o d hk true]
  exact minFirst_map Hit.t (Hit.scaleT k) (hit_scaleT_lt hk) _ none

/-! ## `JoinedCollider`, `transformedCollider` -/

theorem joinedRay_fold_scale {V H : Type} (sc : H → H) (parts : List (Collider (V × V) H)) (r r' : V × V) (cb : Bool)
    (hp : ∀ c ∈ parts, c.ray r' cb = scaledRun sc (c.ray r cb)) :
    ∀ (acc : Nat × List H),
      parts.foldl (fun acc c => (acc.1 + (c.ray r' cb).1, acc.2 ++ (c.ray r' cb).2)) (scaledRun sc acc) =
        scaledRun sc (parts.foldl (fun acc c => (acc.1 + (c.ray r cb).1, acc.2 ++ (c.ray r cb).2)) acc) := by
  induction parts with
  | nil => intro acc; rfl
  | cons c cs ih =>
    intro acc
    rw [List.foldl_cons, List.foldl_cons]
    have hc := hp c (List.mem_cons_self)
    have : (((scaledRun sc acc).1 + (c.ray r' cb).1, (scaledRun sc acc).2 ++ (c.ray r' cb).2) : Nat × List H) =
        scaledRun sc (acc.1 + (c.ray r cb).1, acc.2 ++ (c.ray r cb).2) := by
      rw [hc]; simp [scaledRun]
    rw [this]
    exact ih (fun c' hc' => hp c' (List.mem_cons_of_mem _ hc')) _

theorem joinedStep_map {H : Type} (tOf : H → K) (sc : H → H)
    (hlt : ∀ a b, tOf (sc a) < tOf (sc b) ↔ tOf a < tOf b) (best cand : Option H) :
    joinedStep tOf (best.map sc) (cand.map sc) = (joinedStep tOf best cand).map sc := by
  cases cand with
  | none => rfl
  | some h =>
    cases best with
    | none => rfl
    | some b =>
      simp only [Option.map_some, joinedStep]
      by_cases hc : tOf h < tOf b
      · rw [if_pos hc, if_pos ((hlt h b).2 hc)]; rfl
      · rw [if_neg hc, if_neg (fun h' => hc ((hlt h b).1 h'))]; rfl

theorem joinedFirst_fold_scale {V H : Type} (tOf : H → K) (sc : H → H)
    (hlt : ∀ a b, tOf (sc a) < tOf (sc b) ↔ tOf a < tOf b)
    (parts : List (Collider (V × V) H)) (r r' : V × V)
    (hp : ∀ c ∈ parts, c.first r' = (c.first r).map sc) :
    ∀ best : Option H,
      parts.foldl (fun best c => joinedStep tOf best (c.first r')) (best.map sc) =
        (parts.foldl (fun best c => joinedStep tOf best (c.first r)) best).map sc := by
  induction parts with
  | nil => intro best; rfl
  | cons c cs ih =>
    intro best
    rw [List.foldl_cons, List.foldl_cons, hp c (List.mem_cons_self), joinedStep_map tOf sc hlt]
    exact ih (fun c' hc' => hp c' (List.mem_cons_of_mem _ hc')) _

/-- `JoinedCollider` / `joinedMultiCollider` over scale-covariant children, with a bounds test that does not depend
on the length of the direction, is scale covariant. -/
theorem joined_scaleCov {V H : Type} (scaleDir : V → K → V) (sc : K → H → H) (tOf : H → K)
    (hlt : ∀ k, 0 < k → ∀ a b, tOf (sc k a) < tOf (sc k b) ↔ tOf a < tOf b)
    (admits : V × V → Bool) (hadm : ∀ o d k, 0 < k → admits (o, scaleDir d k) = admits (o, d))
    (parts : List (Collider (V × V) H)) (hp : ∀ c ∈ parts, ScaleCov scaleDir sc c) :
    ScaleCov scaleDir sc (joined tOf admits parts) := by
  intro o d k hk
  constructor
  · intro cb
    show joinedRay admits parts (o, scaleDir d k) cb = scaledRun (sc k) (joinedRay admits parts (o, d) cb)
    unfold joinedRay
    rw [hadm o d k hk]
    by_cases ha : admits (o, d) = true
    · simp only [ha, Bool.not_true, Bool.false_eq_true, if_false]
      exact joinedRay_fold_scale (sc k) parts (o, d) (o, scaleDir d k) cb
        (fun c hc => ((hp c hc) o d k hk).1 cb) (0, [])
    · simp only [ha, Bool.not_false, if_true]; rfl
  · show joinedFirst tOf admits parts (o, scaleDir d k) = (joinedFirst tOf admits parts (o, d)).map (sc k)
    unfold joinedFirst
    rw [hadm o d k hk]
    by_cases ha : admits (o, d) = true
    · simp only [ha, Bool.not_true, Bool.false_eq_true, if_false]
      exact joinedFirst_fold_scale tOf (sc k) (hlt k hk) parts (o, d) (o, scaleDir d k)
        (fun c hc => ((hp c hc) o d k hk).2) none
    · simp only [ha, Bool.not_false, if_true]; rfl

/-- `transformedCollider`: the inner ray of `(o, k·d)` is the inner ray of `(o, d)` with its direction multiplied by
`k` (the transform is affine), and the mapped collision keeps the parameter. -/
theorem transformed_scaleCov {V H V' H' : Type} (scaleDir : V → K → V) (scaleDir' : V' → K → V') (sc : K → H → H)
    (sc' : K → H' → H') (inner : Collider (V × V) H) (innerRay : V' × V' → V × V) (outer : H → H')
    (hray : ∀ o d k, 0 < k → innerRay (o, scaleDir' d k) = ((innerRay (o, d)).1, scaleDir (innerRay (o, d)).2 k))
    (hout : ∀ k h, outer (sc k h) = sc' k (outer h)) (hin : ScaleCov scaleDir sc inner) :
    ScaleCov scaleDir' sc' (transformed inner innerRay outer) := by
  intro o d k hk
  obtain ⟨h1, h2⟩ := hin (innerRay (o, d)).1 (innerRay (o, d)).2 k hk
  constructor
  · intro cb
    show ((inner.ray (innerRay (o, scaleDir' d k)) cb).1, (inner.ray (innerRay (o, scaleDir' d k)) cb).2.map outer) = _
    rw [hray o d k hk, h1 cb]
    simp [scaledRun, transformed, List.map_map, Function.comp_def, hout]
  · show (inner.first (innerRay (o, scaleDir' d k))).map outer = _
    rw [hray o d k hk, h2]
    simp [transformed, Option.map_map, Function.comp_def, hout]

/-! ## `Sphere`, `Triangle`, `castPlane`, `castCircle` -/

theorem V3.along_scale {k : K} (hk : 0 < k) (o d : V3 K) (t : K) :
    o.along (d.scale k) (scaleParam k t) = o.along d t := by
  have hk0 : k ≠ 0 := hk.ne'
  simp only [V3.along, V3.add, V3.scale, scaleParam, V3.mk.injEq]
  refine ⟨?_, ?_, ?_⟩ <;> field_simp

theorem V3.normalize_scale {sqrtF : K → K} (hs : SqrtOK sqrtF) (d : V3 K) {k : K} (hk : 0 < k) :
    (d.scale k).normalize sqrtF = d.normalize sqrtF := by
  unfold V3.normalize
  rw [V3.norm_scale hs d hk.le]
  have hk0 : k ≠ 0 := hk.ne'
  by_cases hn : d.norm sqrtF = 0
  · simp [hn, V3.scale]
  · simp only [V3.scale, V3.mk.injEq]
    refine ⟨?_, ?_, ?_⟩ <;> field_simp

theorem sphereRoots_scale {sqrtF : K → K} (hs : SqrtOK sqrtF) (center : V3 K) (radius : K) (o d : V3 K) {k : K}
    (hk : 0 < k) :
    sphereRoots sqrtF center radius o (d.scale k) =
      (sphereRoots sqrtF center radius o d).map (fun p => (scaleParam k p.1, scaleParam k p.2)) := by
  have hk0 : k ≠ 0 := hk.ne'
  have hkk : 0 < k * k := mul_pos hk hk
  have ha : (d.scale k).dot (d.scale k) = d.dot d * (k * k) := by simp only [V3.scale, V3.dot]; ring
  have hb : (two : K) * (d.scale k).dot (o.sub center) = two * d.dot (o.sub center) * k := by
    simp only [V3.scale, V3.dot]; ring
  unfold sphereRoots
  simp only [ha, hb]
  set A := d.dot d
  set B := (two : K) * d.dot (o.sub center)
  set C := (o.sub center).dot (o.sub center) - radius * radius
  have hdisc : B * k * (B * k) - four * (A * (k * k)) * C = (B * B - four * A * C) * (k * k) := by ring
  rw [hdisc]
  by_cases hd : B * B - four * A * C ≤ 0
  · have : (B * B - four * A * C) * (k * k) ≤ 0 := mul_nonpos_of_nonpos_of_nonneg hd hkk.le
    rw [if_pos this, if_pos hd]; rfl
  · have hpos : 0 < B * B - four * A * C := not_le.1 hd
    have : ¬ (B * B - four * A * C) * (k * k) ≤ 0 := not_le.2 (mul_pos hpos hkk)
    rw [if_neg this, if_neg hd, sqrt_scale hs hpos.le hk.le]
    set S := sqrtF (B * B - four * A * C)
    have e1 : (-(B * k) + S * k) / (two * (A * (k * k))) = scaleParam k ((-B + S) / (two * A)) := by
      unfold scaleParam two
      by_cases hA : A = 0
      · simp [hA]
      · field_simp
    have e2 : (-(B * k) - S * k) / (two * (A * (k * k))) = scaleParam k ((-B - S) / (two * A)) := by
      unfold scaleParam two
      by_cases hA : A = 0
      · simp [hA]
      · field_simp
    rw [e1, e2]
    by_cases hlt : (-B - S) / (two * A) < (-B + S) / (two * A)
    · rw [if_pos hlt, if_pos ((scaleParam_lt hk _ _).2 hlt)]; rfl
    · rw [if_neg hlt, if_neg (fun h => hlt ((scaleParam_lt hk _ _).1 h))]; rfl

theorem sphereHits_scale {sqrtF : K → K} (hs : SqrtOK sqrtF) (center : V3 K) (radius : K) (o d : V3 K) {k : K}
    (hk : 0 < k) :
    sphereHits sqrtF center radius o (d.scale k) = (sphereHits sqrtF center radius o d).map (Hit.scaleT k) := by
  unfold sphereHits
  rw [sphereRoots_scale hs center radius o d hk]
  cases sphereRoots sqrtF center radius o d with
  | none => rfl
  | some p =>
    obtain ⟨t1, t2⟩ := p
    simp only [Option.map_some]
    have hf : ∀ t : K, (!decide (scaleParam k t < 0)) = !decide (t < 0) := by
      intro t
      have : scaleParam k t < 0 ↔ t < 0 := by
        rw [← not_le, ← not_le, scaleParam_nonneg hk]
      rw [decide_eq_decide.2 this]
    have hm : ∀ ts : List K,
        ((ts.map (scaleParam k)).filter fun t => !decide (t < 0)).map
            (fun t => (⟨t, ((o.along (d.scale k) t).sub center).normalize sqrtF⟩ : Hit K)) =
          ((ts.filter fun t => !decide (t < 0)).map
            (fun t => (⟨t, ((o.along d t).sub center).normalize sqrtF⟩ : Hit K))).map (Hit.scaleT k) := by
      intro ts
      rw [List.filter_map, List.map_map, List.map_map]
      have : ((fun t : K => !decide (t < 0)) ∘ scaleParam k) = fun t => !decide (t < 0) := by
        funext t; exact hf t
      rw [this]
      apply List.map_congr_left
      intro t _
      simp only [Function.comp, Hit.scaleT, V3.along_scale hk]
    exact hm [t1, t2]

theorem sphereCollider_scaleCov {sqrtF : K → K} (hs : SqrtOK sqrtF) (center : V3 K) (radius : K) :
    ScaleCov V3.scale Hit.scaleT (sphereCollider sqrtF center radius) := by
  unfold sphereCollider
  apply ofHits_scaleCov
  · intro o d k hk; exact sphereHits_scale hs center radius o d hk
  · intro o d k hk
    show headFirst (sphereHits sqrtF center radius o (d.scale k)) = _
    rw [sphereHits_scale hs center radius o d hk, headFirst_map]

theorem triRay_scale {sqrtF : K → K} (hs : SqrtOK sqrtF) (eps : K) (a b c o d : V3 K) {k : K} (hk : 0 < k) :
    triRay sqrtF eps a b c o (d.scale k) =
      (triRay sqrtF eps a b c o d).map (fun s => ⟨s.u, s.v, scaleParam k s.t⟩) := by
  have hk0 : k ≠ 0 := hk.ne'
  have hdet : ((d.scale k).cross (c.sub a)).dot (b.sub a) = (d.cross (c.sub a)).dot (b.sub a) * k := by
    simp only [V3.scale, V3.cross, V3.dot]; ring
  unfold triRay
  simp only [V3.normalize_scale hs d hk, hdet, isZero_scale hk]
  set D := (d.cross (c.sub a)).dot (b.sub a) with hD
  by_cases hnp : (triNormal sqrtF a b c).dot (d.normalize sqrtF) < eps ∧
      -eps < (triNormal sqrtF a b c).dot (d.normalize sqrtF)
  · rw [if_pos hnp, if_pos hnp]; rfl
  · rw [if_neg hnp, if_neg hnp]
    by_cases hz : isZero D = true
    · rw [if_pos hz, if_pos hz]; rfl
    · rw [if_neg hz, if_neg hz]
      have hD0 : D ≠ 0 := fun h => hz ((isZero_iff D).2 h)
      have hb1 : 1 / (D * k) * (o.sub a).dot ((d.scale k).cross (c.sub a)) =
          1 / D * (o.sub a).dot (d.cross (c.sub a)) := by
        simp only [V3.scale, V3.cross, V3.dot]; field_simp
      have hb2 : 1 / (D * k) * (d.scale k).dot ((o.sub a).cross (b.sub a)) =
          1 / D * d.dot ((o.sub a).cross (b.sub a)) := by
        simp only [V3.scale, V3.cross, V3.dot]; field_simp
      have ht : 1 / (D * k) * (c.sub a).dot ((o.sub a).cross (b.sub a)) =
          scaleParam k (1 / D * (c.sub a).dot ((o.sub a).cross (b.sub a))) := by
        unfold scaleParam; field_simp
      rw [hb1, hb2, ht]
      split_ifs <;> rfl

theorem triHits_scale {sqrtF : K → K} (hs : SqrtOK sqrtF) (eps : K) (a b c o d : V3 K) {k : K} (hk : 0 < k) :
    triHits sqrtF eps a b c o (d.scale k) = (triHits sqrtF eps a b c o d).map (Hit.scaleT k) := by
  unfold triHits
  rw [triRay_scale hs eps a b c o d hk]
  cases triRay sqrtF eps a b c o d with
  | none => rfl
  | some s =>
    simp only [Option.map_some]
    have : scaleParam k s.t < 0 ↔ s.t < 0 := by rw [← not_le, ← not_le, scaleParam_nonneg hk]
    by_cases h : s.t < 0
    · rw [if_pos h, if_pos (this.2 h)]; rfl
    · rw [if_neg h, if_neg (fun h' => h (this.1 h'))]; rfl

theorem triFirst_scale {sqrtF : K → K} (hs : SqrtOK sqrtF) (eps : K) (a b c o d : V3 K) {k : K} (hk : 0 < k) :
    triFirst sqrtF eps a b c o (d.scale k) = (triFirst sqrtF eps a b c o d).map (Hit.scaleT k) := by
  unfold triFirst
  rw [triRay_scale hs eps a b c o d hk]
  cases triRay sqrtF eps a b c o d with
  | none => rfl
  | some s =>
    simp only [Option.map_some]
    by_cases h : 0 ≤ s.t
    · rw [if_pos h, if_pos ((scaleParam_nonneg hk _).2 h)]; rfl
    · rw [if_neg h, if_neg (fun h' => h ((scaleParam_nonneg hk _).1 h'))]; rfl

theorem triCollider_scaleCov {sqrtF : K → K} (hs : SqrtOK sqrtF) (eps : K) (a b c : V3 K) :
    ScaleCov V3.scale Hit.scaleT (triCollider sqrtF eps a b c) := by
  unfold triCollider
  apply ofHits_scaleCov
  · intro o d k hk; exact triHits_scale hs eps a b c o d hk
  · intro o d k hk; exact triFirst_scale hs eps a b c o d hk

theorem castPlane_scale {sqrtF : K → K} (hs : SqrtOK sqrtF) (eps : K) (normal : V3 K) (bias : K) (o d : V3 K)
    {k : K} (hk : 0 < k) :
    castPlane sqrtF eps normal bias o (d.scale k) = (castPlane sqrtF eps normal bias o d).map (scaleParam k) := by
  have hk0 : k ≠ 0 := hk.ne'
  have hdot : (d.scale k).dot normal = d.dot normal * k := by simp only [V3.scale, V3.dot]; ring
  unfold castPlane
  simp only [hdot, V3.norm_scale hs d hk.le]
  set D := d.dot normal
  have hcond : absS (D * k) < eps * (d.norm sqrtF * k) * normal.norm sqrtF ↔
      absS D < eps * d.norm sqrtF * normal.norm sqrtF := by
    rw [absS_eq, absS_eq, abs_mul, abs_of_pos hk]
    have : eps * (d.norm sqrtF * k) * normal.norm sqrtF = eps * d.norm sqrtF * normal.norm sqrtF * k := by ring
    rw [this]
    exact mul_lt_mul_iff_of_pos_right hk
  by_cases hc : absS D < eps * d.norm sqrtF * normal.norm sqrtF
  · rw [if_pos (hcond.2 hc), if_pos hc]; rfl
  · rw [if_neg (fun h => hc (hcond.1 h)), if_neg hc]
    have hs' : (bias - o.dot normal) / (D * k) = scaleParam k ((bias - o.dot normal) / D) := by
      unfold scaleParam; rw [div_mul_eq_div_div]
    rw [hs']
    have : scaleParam k ((bias - o.dot normal) / D) < 0 ↔ (bias - o.dot normal) / D < 0 := by
      rw [← not_le, ← not_le, scaleParam_nonneg hk]
    by_cases h : (bias - o.dot normal) / D < 0
    · rw [if_pos h, if_pos (this.2 h)]; rfl
    · rw [if_neg h, if_neg (fun h' => h (this.1 h'))]; rfl

theorem castCircle_scale {sqrtF : K → K} (hs : SqrtOK sqrtF) (eps : K) (normal center : V3 K) (radius : K)
    (o d : V3 K) {k : K} (hk : 0 < k) :
    castCircle sqrtF eps normal center radius o (d.scale k) =
      (castCircle sqrtF eps normal center radius o d).map (Hit.scaleT k) := by
  unfold castCircle
  rw [castPlane_scale hs eps normal _ o d hk]
  cases castPlane sqrtF eps normal (normal.dot center) o d with
  | none => rfl
  | some t =>
    simp only [Option.map_some, V3.along_scale hk]
    split_ifs <;> rfl

/-! ## `Cylinder` -/

/-- the body of `cylSideHits` for a given unit axis `v`, relative origin `o` and axis length -/
def cylCore (sqrtF : K → K) (v o : V3 K) (maxScale radius : K) (d : V3 K) : List (Hit K) :=
  let v1 := (v.scale (o.dot v)).sub o
  let v2 := (v.scale (d.dot v)).sub d
  let a := v2.dot v2
  let b := two * v1.dot v2
  let cVal := v1.dot v1 - radius * radius
  let disc := b * b - four * a * cVal
  if 0 < disc then
    let s := sqrtF disc
    ([(-1 : K), 1].filterMap fun sign =>
      let t := (-b + sign * s) / (two * a)
      if t < 0 then none
      else
        let p := o.add (d.scale t)
        let frac := v.dot p
        if 0 ≤ frac ∧ frac < maxScale then some ⟨t, (p.sub (v.scale frac)).normalize sqrtF⟩ else none)
  else []

theorem cylSideHits_eq_core (sqrtF : K → K) (p1 p2 : V3 K) (radius : K) (o0 d : V3 K) :
    cylSideHits sqrtF p1 p2 radius o0 d =
      cylCore sqrtF ((p2.sub p1).normalize sqrtF) (o0.sub p1) ((p2.sub p1).norm sqrtF) radius d := rfl

theorem cylCore_scale {sqrtF : K → K} (hs : SqrtOK sqrtF) (v o : V3 K) (maxScale radius : K) (d : V3 K) {k : K}
    (hk : 0 < k) :
    cylCore sqrtF v o maxScale radius (d.scale k) = (cylCore sqrtF v o maxScale radius d).map (Hit.scaleT k) := by
  have hk0 : k ≠ 0 := hk.ne'
  have hkk : 0 < k * k := mul_pos hk hk
  have hv2 : (v.scale ((d.scale k).dot v)).sub (d.scale k) = ((v.scale (d.dot v)).sub d).scale k := by
    simp only [V3.scale, V3.sub, V3.dot, V3.mk.injEq]
    refine ⟨?_, ?_, ?_⟩ <;> ring
  unfold cylCore
  simp only [hv2]
  generalize (v.scale (d.dot v)).sub d = v2
  generalize (v.scale (o.dot v)).sub o = v1
  have ha : (v2.scale k).dot (v2.scale k) = v2.dot v2 * (k * k) := by simp only [V3.scale, V3.dot]; ring
  have hb : (two : K) * v1.dot (v2.scale k) = two * v1.dot v2 * k := by simp only [V3.scale, V3.dot]; ring
  simp only [ha, hb]
  generalize v2.dot v2 = A
  generalize (two : K) * v1.dot v2 = B
  generalize v1.dot v1 - radius * radius = C
  have hdisc : B * k * (B * k) - four * (A * (k * k)) * C = (B * B - four * A * C) * (k * k) := by ring
  rw [hdisc]
  by_cases hd : 0 < B * B - four * A * C
  · rw [if_pos (mul_pos hd hkk), if_pos hd, sqrt_scale hs hd.le hk.le, List.map_filterMap]
    generalize sqrtF (B * B - four * A * C) = S
    congr 1
    funext sign
    have e1 : (-(B * k) + sign * (S * k)) / (two * (A * (k * k))) = scaleParam k ((-B + sign * S) / (two * A)) := by
      unfold scaleParam two
      by_cases hA : A = 0
      · simp [hA]
      · field_simp
    rw [e1]
    generalize (-B + sign * S) / (two * A) = t
    have hlt : scaleParam k t < 0 ↔ t < 0 := by rw [← not_le, ← not_le, scaleParam_nonneg hk]
    have hp : o.add ((d.scale k).scale (scaleParam k t)) = o.add (d.scale t) := V3.along_scale hk o d t
    by_cases ht : t < 0
    · rw [if_pos ht, if_pos (hlt.2 ht)]; rfl
    · rw [if_neg ht, if_neg (fun h => ht (hlt.1 h)), hp]
      split_ifs <;> rfl
  · have : ¬ 0 < (B * B - four * A * C) * (k * k) := by
      intro h
      by_contra hn
      have := mul_nonpos_of_nonpos_of_nonneg (not_lt.1 hd) hkk.le
      linarith
    rw [if_neg this, if_neg hd]; rfl

theorem cylSideHits_scale {sqrtF : K → K} (hs : SqrtOK sqrtF) (p1 p2 : V3 K) (radius : K) (o0 d : V3 K) {k : K}
    (hk : 0 < k) :
    cylSideHits sqrtF p1 p2 radius o0 (d.scale k) = (cylSideHits sqrtF p1 p2 radius o0 d).map (Hit.scaleT k) := by
  rw [cylSideHits_eq_core, cylSideHits_eq_core]; exact cylCore_scale hs _ _ _ _ d hk

theorem cylHits_scale {sqrtF : K → K} (hs : SqrtOK sqrtF) (eps : K) (p1 p2 : V3 K) (radius : K) (o d : V3 K) {k : K}
    (hk : 0 < k) :
    cylHits sqrtF eps p1 p2 radius o (d.scale k) = (cylHits sqrtF eps p1 p2 radius o d).map (Hit.scaleT k) := by
  unfold cylHits
  simp only [cylSideHits_scale hs p1 p2 radius o d hk, castCircle_scale hs eps _ _ radius o d hk, List.map_append]
  congr 1
  · congr 1
    cases castCircle sqrtF eps (((p2.sub p1).normalize sqrtF).scale (-1)) p1 radius o d <;> rfl
  · cases castCircle sqrtF eps ((p2.sub p1).normalize sqrtF) p2 radius o d <;> rfl

theorem cylCollider_scaleCov {sqrtF : K → K} (hs : SqrtOK sqrtF) (eps : K) (p1 p2 : V3 K) (radius : K) :
    ScaleCov V3.scale Hit.scaleT (cylCollider sqrtF eps p1 p2 radius) := by
  unfold cylCollider
  apply ofHits_scaleCov
  · intro o d k hk; exact cylHits_scale hs eps p1 p2 radius o d hk
  · intro o d k hk
    show minFirst Hit.t (cylHits sqrtF eps p1 p2 radius o (d.scale k)) none = _
    rw [cylHits_scale hs eps p1 p2 radius o d hk]
    exact minFirst_map Hit.t (Hit.scaleT k) (hit_scaleT_lt hk) _ none


/-! ## `rayCollisionWithBounds`, `Rect` -/

/-- an axis of the slab test for the direction `k·d` -/
def scaleAx (k : K) (a : Ax K) : Ax K := ⟨a.o, a.d * k, a.lo, a.hi⟩

theorem axes3_scale (o d lo hi : V3 K) (k : K) : axes3 o (d.scale k) lo hi = (axes3 o d lo hi).map (scaleAx k) := rfl

/-- the loop of `rayCollisionWithBounds` for `k·d`: either both loops leave through the same "miss" exit
`(0, -1)`, or the bounds are those of `d` divided by `k` -/
theorem slabLoop_scale {k : K} (hk : 0 < k) : ∀ (axes : List (Ax K)) (mn mx : Option K),
    (slabLoop (axes.map (scaleAx k)) (mn.map (scaleParam k)) (mx.map (scaleParam k)) =
        ((slabLoop axes mn mx).1.map (scaleParam k), (slabLoop axes mn mx).2.map (scaleParam k))) ∨
    (slabLoop (axes.map (scaleAx k)) (mn.map (scaleParam k)) (mx.map (scaleParam k)) = (some 0, some (-1)) ∧
      slabLoop axes mn mx = (some 0, some (-1)))
  | [], mn, mx => Or.inl rfl
  | a :: as, mn, mx => by
    have hk0 : k ≠ 0 := hk.ne'
    simp only [List.map_cons, slabLoop, scaleAx, isZero_scale hk]
    by_cases hz : isZero a.d = true
    · simp only [hz, if_true]
      by_cases hout : a.o < a.lo ∨ a.hi < a.o
      · rw [if_pos hout, if_pos hout]; exact Or.inr ⟨rfl, rfl⟩
      · rw [if_neg hout, if_neg hout]; exact slabLoop_scale hk as mn mx
    · simp only [hz, Bool.false_eq_true, if_false]
      have e1 : (a.lo - a.o) / (a.d * k) = scaleParam k ((a.lo - a.o) / a.d) := by
        unfold scaleParam; rw [div_mul_eq_div_div]
      have e2 : (a.hi - a.o) / (a.d * k) = scaleParam k ((a.hi - a.o) / a.d) := by
        unfold scaleParam; rw [div_mul_eq_div_div]
      rw [e1, e2]
      generalize (a.lo - a.o) / a.d = t1
      generalize (a.hi - a.o) / a.d = t2
      simp only [scaleParam_lt hk]
      have hs1 : (if t2 < t1 then scaleParam k t2 else scaleParam k t1) = scaleParam k (if t2 < t1 then t2 else t1) := by
        split_ifs <;> rfl
      have hs2 : (if t2 < t1 then scaleParam k t1 else scaleParam k t2) = scaleParam k (if t2 < t1 then t1 else t2) := by
        split_ifs <;> rfl
      rw [hs1, hs2]
      generalize (if t2 < t1 then t2 else t1) = s1
      generalize (if t2 < t1 then t1 else t2) = s2
      have hneg : scaleParam k s2 < 0 ↔ s2 < 0 := by rw [← not_le, ← not_le, scaleParam_nonneg hk]
      by_cases hs : s2 < 0
      · rw [if_pos hs, if_pos (hneg.2 hs)]; exact Or.inr ⟨rfl, rfl⟩
      · rw [if_neg hs, if_neg (fun h => hs (hneg.1 h))]
        cases mn with
        | none =>
          cases mx with
          | none => exact slabLoop_scale hk as (some s1) (some s2)
          | some m2 =>
            simp only [Option.map_some, scaleParam_lt hk]
            split_ifs
            · exact slabLoop_scale hk as (some s1) (some s2)
            · exact slabLoop_scale hk as (some s1) (some m2)
        | some m1 =>
          cases mx with
          | none =>
            simp only [Option.map_some, Option.map_none, scaleParam_lt hk]
            split_ifs
            · exact slabLoop_scale hk as (some s1) (some s2)
            · exact slabLoop_scale hk as (some m1) (some s2)
          | some m2 =>
            simp only [Option.map_some, Option.map_none, scaleParam_lt hk]
            split_ifs
            · exact slabLoop_scale hk as (some s1) (some s2)
            · exact slabLoop_scale hk as (some s1) (some m2)
            · exact slabLoop_scale hk as (some m1) (some s2)
            · exact slabLoop_scale hk as (some m1) (some m2)

theorem rectTs_scale {k : K} (hk : 0 < k) (lo hi o d : V3 K) :
    rectTs lo hi o (d.scale k) = (rectTs lo hi o d).map (scaleParam k) := by
  unfold rectTs
  rw [axes3_scale]
  have hneg : ∀ t : K, scaleParam k t < 0 ↔ t < 0 := fun t => by rw [← not_le, ← not_le, scaleParam_nonneg hk]
  rcases slabLoop_scale hk (axes3 o d lo hi) none none with h | ⟨h1, h2⟩
  · simp only [Option.map_none] at h
    rw [h]
    rcases hsl : slabLoop (axes3 o d lo hi) none none with ⟨mn, mx⟩
    cases mn with
    | none => rfl
    | some mn =>
      cases mx with
      | none => rfl
      | some mx =>
        simp only [Option.map_some, scaleParam_lt hk, hneg]
        by_cases hc : mx < mn ∨ mx < 0
        · simp only [hc, if_true, List.map_nil]
        · simp only [hc, if_false]
          simp only [List.filter_cons, List.filter_nil, hneg]
          split_ifs <;> rfl
  · simp only [Option.map_none] at h1
    rw [h1, h2]
    simp

theorem rectHits_scale {k : K} (hk : 0 < k) (lo hi o d : V3 K) :
    rectHits lo hi o (d.scale k) = (rectHits lo hi o d).map (Hit.scaleT k) := by
  unfold rectHits
  rw [rectTs_scale hk, List.map_map, List.map_map]
  apply List.map_congr_left
  intro t _
  simp only [Function.comp, Hit.scaleT, V3.along_scale hk]

theorem rectFirst_scale {k : K} (hk : 0 < k) (lo hi o d : V3 K) :
    rectFirst lo hi o (d.scale k) = (rectFirst lo hi o d).map (Hit.scaleT k) := by
  unfold rectFirst
  rw [axes3_scale]
  have hneg : ∀ t : K, scaleParam k t < 0 ↔ t < 0 := fun t => by rw [← not_le, ← not_le, scaleParam_nonneg hk]
  rcases slabLoop_scale hk (axes3 o d lo hi) none none with h | ⟨h1, h2⟩
  · simp only [Option.map_none] at h
    rw [h]
    rcases hsl : slabLoop (axes3 o d lo hi) none none with ⟨mn, mx⟩
    cases mn with
    | none => rfl
    | some mn =>
      cases mx with
      | none => rfl
      | some mx =>
        simp only [Option.map_some, scaleParam_lt hk, hneg]
        by_cases hc : mx < mn ∨ mx < 0
        · simp only [hc, if_true, Option.map_none]
        · simp only [hc, if_false, Option.map_some]
          by_cases hm : mn < 0
          · simp only [hm, if_true, Hit.scaleT, V3.along_scale hk]
          · simp only [hm, if_false, Hit.scaleT, V3.along_scale hk]
  · simp only [Option.map_none] at h1
    rw [h1, h2]
    simp

theorem rectCollider_scaleCov (lo hi : V3 K) : ScaleCov V3.scale Hit.scaleT (rectCollider lo hi) := by
  unfold rectCollider
  apply ofHits_scaleCov
  · intro o d k hk; exact rectHits_scale hk lo hi o d
  · intro o d k hk; exact rectFirst_scale hk lo hi o d


/-! ## `Capsule` -/

theorem insertByT_map {H : Type} (tOf : H → K) (sc : H → H)
    (hlt : ∀ a b, tOf (sc a) < tOf (sc b) ↔ tOf a < tOf b) (h : H) :
    ∀ l : List H, insertByT tOf (sc h) (l.map sc) = (insertByT tOf h l).map sc
  | [] => rfl
  | x :: xs => by
    simp only [List.map_cons, insertByT]
    by_cases hc : tOf h < tOf x
    · rw [if_pos hc, if_pos ((hlt h x).2 hc)]; rfl
    · rw [if_neg hc, if_neg (fun h' => hc ((hlt h x).1 h')), insertByT_map tOf sc hlt h xs]; rfl

theorem sortByT_map {H : Type} (tOf : H → K) (sc : H → H)
    (hlt : ∀ a b, tOf (sc a) < tOf (sc b) ↔ tOf a < tOf b) :
    ∀ l : List H, sortByT tOf (l.map sc) = (sortByT tOf l).map sc
  | [] => rfl
  | x :: xs => by
    have ih := sortByT_map tOf sc hlt xs
    unfold sortByT at ih ⊢
    simp only [List.map_cons, List.foldr_cons]
    rw [ih, insertByT_map tOf sc hlt]

theorem capsuleSelect_map {H : Type} (tOf : H → K) (sc : H → H)
    (hlt : ∀ a b, tOf (sc a) < tOf (sc b) ↔ tOf a < tOf b) (colls : List H) (inside cb : Bool) :
    capsuleSelect tOf (colls.map sc) inside cb = scaledRun sc (capsuleSelect tOf colls inside cb) := by
  match colls with
  | [] => rfl
  | [h] => cases cb <;> rfl
  | h0 :: h1 :: rest =>
    have hs := sortByT_map tOf sc hlt (h0 :: h1 :: rest)
    simp only [List.map_cons] at hs
    simp only [List.map_cons, capsuleSelect, hs, scaledRun]
    have ho : ∀ x : Option H, (x.map sc).toList = x.toList.map sc := by intro x; cases x <;> rfl
    cases inside <;> cases cb <;> simp [List.head?_map, List.getLast?_map, ho]

theorem capsuleKeep_scale {k : K} (hk : 0 < k) (p1 p2 o d : V3 K) (fe : Bool) (p : V3 K) (h : Hit K) :
    capsuleKeep p1 p2 o (d.scale k) fe p (Hit.scaleT k h) = capsuleKeep p1 p2 o d fe p h := by
  unfold capsuleKeep
  simp only [Hit.scaleT, V3.along_scale hk]

theorem capsuleCands_scale {sqrtF : K → K} (hs : SqrtOK sqrtF) (p1 p2 : V3 K) (radius : K) (o d : V3 K) {k : K}
    (hk : 0 < k) (hcyl : cylSideHits sqrtF p1 p2 radius o (d.scale k) =
      (cylSideHits sqrtF p1 p2 radius o d).map (Hit.scaleT k)) :
    capsuleCands sqrtF p1 p2 radius o (d.scale k) = (capsuleCands sqrtF p1 p2 radius o d).map (Hit.scaleT k) := by
  unfold capsuleCands
  rw [sphereHits_scale hs p1 radius o d hk, sphereHits_scale hs p2 radius o d hk, hcyl]
  simp only [List.map_append, List.filter_map]
  congr 2
  · congr 2; funext h; exact capsuleKeep_scale hk p1 p2 o d true p1 h
  · congr 2; funext h; exact capsuleKeep_scale hk p1 p2 o d false p2 h


theorem capsuleCollider_scaleCov {sqrtF : K → K} (hs : SqrtOK sqrtF) (p1 p2 : V3 K) (radius : K) :
    ScaleCov V3.scale Hit.scaleT (capsuleCollider sqrtF p1 p2 radius) := by
  intro o d k hk
  have hc := capsuleCands_scale hs p1 p2 radius o d hk (cylSideHits_scale hs p1 p2 radius o d hk)
  constructor
  · intro cb
    show capsuleSelect Hit.t (capsuleCands sqrtF p1 p2 radius o (d.scale k)) (capsuleContains sqrtF p1 p2 radius o) cb = _
    rw [hc]
    exact capsuleSelect_map Hit.t (Hit.scaleT k) (hit_scaleT_lt hk) _ _ cb
  · show minFirst Hit.t (capsuleSelect Hit.t (capsuleCands sqrtF p1 p2 radius o (d.scale k))
        (capsuleContains sqrtF p1 p2 radius o) true).2 none = _
    rw [hc, capsuleSelect_map Hit.t (Hit.scaleT k) (hit_scaleT_lt hk)]
    exact minFirst_map Hit.t (Hit.scaleT k) (hit_scaleT_lt hk) _ none

end M3d.Col
