import M3d.Lemmas.ConcPatterns
import Mathlib.Data.List.Flatten
/-!
# C13 helper lemmas: the strided hand-out of `ConcurrentMap` is a partition, and merging the
workers' partial results is the sequential fold

`essentials.ReduceConcurrentMap(maxGos, n, …)` gives goroutine `s < maxGos` the indices
`s, s + maxGos, … < n`.  Their concatenation is a permutation of `0 … n-1`; hence, for a
commutative-associative `merge` with unit `0`, merging the workers' partial folds equals the
fold over `0 … n-1` in order — what one goroutine computes.
-/
namespace M3d.Conc

theorem strided_nodup (maxGos n s : Nat) : (strided maxGos n s).Nodup :=
  List.nodup_range.filter _

/-- The hand-outs of goroutines `0 … maxGos-1`, one after the other, are a permutation of `0 … n-1`. -/
theorem strided_flatten_perm {maxGos : Nat} (hm : 0 < maxGos) (n : Nat) :
    ((List.range maxGos).map (strided maxGos n)).flatten.Perm (List.range n) := by
  rw [List.perm_ext_iff_of_nodup _ List.nodup_range]
  · intro i
    simp only [List.mem_flatten, List.mem_map, List.mem_range]
    constructor
    · rintro ⟨l, ⟨s, _, rfl⟩, hi⟩
      exact (mem_strided.1 hi).1
    · intro hi
      obtain ⟨s, hs, hmem⟩ := strided_cover hm hi
      exact ⟨_, ⟨s, hs, rfl⟩, hmem⟩
  · rw [List.nodup_flatten]
    refine ⟨?_, ?_⟩
    · intro l hl
      obtain ⟨s, _, rfl⟩ := List.mem_map.1 hl
      exact strided_nodup _ _ _
    · rw [List.pairwise_map]
      refine List.Pairwise.imp_of_mem ?_ (List.nodup_range (n := maxGos))
      intro s s' hs hs' hne i hi hi'
      exact strided_disjoint (List.mem_range.1 hs) (List.mem_range.1 hs') hne hi hi'

section
variable (merge : Val → Val → Val)
  (hc : ∀ a b, merge a b = merge b a) (ha : ∀ a b c, merge (merge a b) c = merge a (merge b c))
  (h0 : ∀ a, merge 0 a = a)
include hc ha h0

/-- Folding a list of findings into `z` = merging `z` with the fold from the empty result. -/
theorem foldl_merge_from (g : Nat → Val) (l : List Nat) (z : Val) :
    l.foldl (fun a i => merge a (g i)) z = merge z (l.foldl (fun a i => merge a (g i)) 0) := by
  induction l generalizing z with
  | nil => simp only [List.foldl_nil]; rw [hc, h0]
  | cons i l ih =>
    simp only [List.foldl_cons]
    rw [ih (merge z (g i)), ih (merge 0 (g i)), h0, ha]

/-- Merging the partial folds of a list of index lists = one fold over their concatenation. -/
theorem foldl_partials (g : Nat → Val) (ls : List (List Nat)) (z : Val) :
    (ls.map fun l => l.foldl (fun a i => merge a (g i)) 0).foldl merge z =
      ls.flatten.foldl (fun a i => merge a (g i)) z := by
  induction ls generalizing z with
  | nil => rfl
  | cons l ls ih =>
    simp only [List.map_cons, List.foldl_cons, List.flatten_cons, List.foldl_append]
    rw [ih, ← foldl_merge_from merge hc ha h0 g l z]

/-- **Merging what the `maxGos` workers of `ReduceConcurrentMap` folded over their strided
hand-outs is the fold over `0 … n-1` in order**, for every `maxGos ≥ 1` and `n`. -/
theorem strided_partials_eq_sequential (g : Nat → Val) {maxGos : Nat} (hm : 0 < maxGos) (n : Nat) :
    ((List.range maxGos).map fun s => (strided maxGos n s).foldl (fun a i => merge a (g i)) 0).foldl merge 0 =
      (List.range n).foldl (fun a i => merge a (g i)) 0 := by
  have h := foldl_partials merge hc ha h0 g ((List.range maxGos).map (strided maxGos n)) 0
  rw [List.map_map] at h
  rw [show (fun s => (strided maxGos n s).foldl (fun a i => merge a (g i)) 0) =
      ((fun l : List Nat => l.foldl (fun a i => merge a (g i)) 0) ∘ strided maxGos n) from rfl, h]
  have : RightCommutative (fun (a : Val) (i : Nat) => merge a (g i)) :=
    ⟨fun a i j => by
      show merge (merge a (g i)) (g j) = merge (merge a (g j)) (g i)
      rw [ha, hc (g i) (g j), ← ha]⟩
  exact (strided_flatten_perm hm n).foldl_eq 0

end

end M3d.Conc
