import M3d.Model.TransformNest
import M3d.Lemmas.Transform2
/-!
# C05 — nested 2-D wrappers equal one wrapper of the joined transform (helper lemmas; 2-D twin of `TransformNest.lean`)
-/
namespace M3d.Tf

set_option linter.unusedSectionVars false
set_option linter.unusedVariables false

variable {K : Type} [Field K] [LinearOrder K] [IsStrictOrderedRing K]

/-! ## `JoinedTransform` as a list -/

theorem Xf2.ofList_append_apply (ts : List (Xf2 K)) (t : Xf2 K) (p : V2 K) :
    (Xf2.ofList (ts ++ [t])).apply p = t.apply ((Xf2.ofList ts).apply p) := by
  induction ts generalizing p with
  | nil => rfl
  | cons a ts ih => simp only [List.cons_append, Xf2.ofList, Xf2.apply, ih]

theorem Xf2.ofList_append_bounds (ts : List (Xf2 K)) (t : Xf2 K) (lo hi : V2 K) :
    (Xf2.ofList (ts ++ [t])).applyBounds lo hi =
      t.applyBounds ((Xf2.ofList ts).applyBounds lo hi).1 ((Xf2.ofList ts).applyBounds lo hi).2 := by
  induction ts generalizing lo hi with
  | nil => rfl
  | cons a ts ih => simp only [List.cons_append, Xf2.ofList, Xf2.applyBounds, ih]

theorem Xf2.ofList_append_dist (ts : List (Xf2 K)) (t : Xf2 K) (d : K) :
    (Xf2.ofList (ts ++ [t])).applyDistance d = t.applyDistance ((Xf2.ofList ts).applyDistance d) := by
  induction ts generalizing d with
  | nil => simp only [List.nil_append, Xf2.ofList, Xf2.applyDistance]
  | cons a ts ih => simp only [List.cons_append, Xf2.ofList, Xf2.applyDistance, ih]

theorem Xf2.ofList_append_inverse (ts : List (Xf2 K)) (t : Xf2 K) :
    (Xf2.ofList (ts ++ [t])).inverse = .jcons t.inverse (Xf2.ofList ts).inverse := by
  induction ts with
  | nil => rfl
  | cons a ts ih => simp only [List.cons_append, Xf2.ofList, Xf2.inverse, ih, Xf2.snoc]

theorem Xf2.valid_ofList (ts : List (Xf2 K)) (h : ∀ t ∈ ts, t.Valid) : (Xf2.ofList ts).Valid := by
  induction ts with
  | nil => trivial
  | cons a ts ih => exact ⟨h a (List.mem_cons_self ..), ih fun t ht => h t (List.mem_cons_of_mem _ ht)⟩

theorem Xf2.distValid_ofList (ts : List (Xf2 K)) (h : ∀ t ∈ ts, t.DistValid) : (Xf2.ofList ts).DistValid := by
  induction ts with
  | nil => trivial
  | cons a ts ih => exact ⟨h a (List.mem_cons_self ..), ih fun t ht => h t (List.mem_cons_of_mem _ ht)⟩

/-- the linear part of a join with one more member -/
theorem Xf2.ofList_append_lin (ts : List (Xf2 K)) (t : Xf2 K) (d : V2 K) :
    (Xf2.ofList (ts ++ [t])).lin d = t.lin ((Xf2.ofList ts).lin d) := by
  simp only [Xf2.lin, Xf2.ofList_append_apply]
  rw [Xf2.apply_sub_apply t]
  rfl

theorem Xf2.ofList_append_factor (ts : List (Xf2 K)) (t : Xf2 K) :
    (Xf2.ofList (ts ++ [t])).factor = (Xf2.ofList ts).factor * t.factor := by
  induction ts with
  | nil => simp [Xf2.ofList, Xf2.factor]
  | cons a ts ih => simp only [List.cons_append, Xf2.ofList, Xf2.factor, ih]; ring

/-! ## structure extensionality (the wrapped objects are records of functions) -/

theorem Solid2.ext' {a b : Solid2 K} (h1 : a.lo = b.lo) (h2 : a.hi = b.hi)
    (h3 : ∀ c, a.contains c = b.contains c) : a = b := by
  cases a; cases b
  simp only [Solid2.mk.injEq]
  exact ⟨h1, h2, funext h3⟩

theorem Collider2.ext' {a b : Collider2 K} (h1 : a.lo = b.lo) (h2 : a.hi = b.hi)
    (h3 : ∀ r, a.hits r = b.hits r) (h4 : ∀ r, a.count r = b.count r) (h5 : ∀ r, a.first r = b.first r)
    (h6 : ∀ p d, a.circle p d = b.circle p d) : a = b := by
  cases a; cases b
  simp only [Collider2.mk.injEq]
  exact ⟨h1, h2, funext h3, funext h4, funext h5, funext fun p => funext (h6 p)⟩

/-! ## SDF and metaball: no side conditions -/

theorem transformSDF2_snoc (ts : List (Xf2 K)) (t : Xf2 K) (s : SDF2 K) :
    transformSDF2 t (transformSDF2 (Xf2.ofList ts) s) = transformSDF2 (Xf2.ofList (ts ++ [t])) s := by
  simp only [transformSDF2, Xf2.ofList_append_bounds, Xf2.ofList_append_dist, Xf2.ofList_append_inverse, Xf2.apply]

theorem nestSDF2_eq (ts : List (Xf2 K)) (s : SDF2 K) : nestSDF2 ts s = transformSDF2 (Xf2.ofList ts) s := by
  induction ts using List.reverseRecOn with
  | nil => rfl
  | append_singleton ts t ih =>
      rw [← transformSDF2_snoc, ← ih]
      simp only [nestSDF2, List.foldl_append, List.foldl_cons, List.foldl_nil]

theorem transformMetaball2_snoc (ts : List (Xf2 K)) (t : Xf2 K) (m : Metaball2 K) :
    transformMetaball2 t (transformMetaball2 (Xf2.ofList ts) m) = transformMetaball2 (Xf2.ofList (ts ++ [t])) m := by
  simp only [transformMetaball2, Xf2.ofList_append_bounds, Xf2.ofList_append_inverse, Xf2.apply, Xf2.applyDistance]

theorem nestMetaball2_eq (ts : List (Xf2 K)) (m : Metaball2 K) :
    nestMetaball2 ts m = transformMetaball2 (Xf2.ofList ts) m := by
  induction ts using List.reverseRecOn with
  | nil => rfl
  | append_singleton ts t ih =>
      rw [← transformMetaball2_snoc, ← ih]
      simp only [nestMetaball2, List.foldl_append, List.foldl_cons, List.foldl_nil]

/-! ## solids: the inner wrapper's own bounds test is implied by the outer one's -/

/-- a point whose pre-image is inside the solid is inside the transformed bounds -/
theorem inBounds2_of_contains_inverse (J : Xf2 K) (hJ : J.Valid) (s : Solid2 K)
    (hs : ∀ x, s.contains x = true → Box2 s.lo s.hi x) (x : V2 K) (hc : s.contains (J.inverse.apply x) = true) :
    inBounds2 x (J.applyBounds s.lo s.hi).1 (J.applyBounds s.lo s.hi).2 = true := by
  have := Xf2.applyBounds_encloses J s.lo s.hi _ (hs _ hc)
  rw [Xf2.apply_inverse J hJ] at this
  exact (inBounds2_iff _ _ _).mpr this

theorem transformSolid2_snoc (ts : List (Xf2 K)) (hv : (Xf2.ofList ts).Valid) (t : Xf2 K) (s : Solid2 K)
    (hs : ∀ x, s.contains x = true → Box2 s.lo s.hi x) :
    transformSolid2 t (transformSolid2 (Xf2.ofList ts) s) = transformSolid2 (Xf2.ofList (ts ++ [t])) s := by
  apply Solid2.ext'
  · simp only [transformSolid2, Xf2.ofList_append_bounds]
  · simp only [transformSolid2, Xf2.ofList_append_bounds]
  · intro c
    simp only [transformSolid2, Xf2.ofList_append_bounds, Xf2.ofList_append_inverse, Xf2.apply]
    cases hc : s.contains ((Xf2.ofList ts).inverse.apply (t.inverse.apply c)) with
    | false => simp
    | true =>
        have := inBounds2_of_contains_inverse (Xf2.ofList ts) hv s hs (t.inverse.apply c) hc
        simp [this]

theorem transformSolid2_jnil (s : Solid2 K) (hs : ∀ x, s.contains x = true → Box2 s.lo s.hi x) :
    transformSolid2 (Xf2.jnil : Xf2 K) s = s := by
  apply Solid2.ext'
  · rfl
  · rfl
  · intro c
    show (inBounds2 c s.lo s.hi && s.contains c) = s.contains c
    cases hc : s.contains c with
    | false => simp
    | true => simp [(inBounds2_iff _ _ _).mpr (hs c hc)]

theorem nestSolid2_eq (ts : List (Xf2 K)) (hv : ∀ t ∈ ts, t.Valid) (s : Solid2 K)
    (hs : ∀ x, s.contains x = true → Box2 s.lo s.hi x) : nestSolid2 ts s = transformSolid2 (Xf2.ofList ts) s := by
  induction ts using List.reverseRecOn with
  | nil => exact (transformSolid2_jnil s hs).symm
  | append_singleton ts t ih =>
      have hv' : ∀ u ∈ ts, u.Valid := fun u hu => hv u (List.mem_append_left _ hu)
      rw [← transformSolid2_snoc ts (Xf2.valid_ofList ts hv') t s hs, ← ih hv']
      simp only [nestSolid2, List.foldl_append, List.foldl_cons, List.foldl_nil]

/-! ## colliders -/

theorem V2.sub_zero' (d : V2 K) : d.sub (V2.zero : V2 K) = d := by
  ext <;> simp [V2.sub, V2.zero]

/-- the ray handed down through two wrappers is the ray handed down through the wrapper of the join -/
theorem innerRay2_snoc (ts : List (Xf2 K)) (t : Xf2 K) (r : Ray2 K) :
    innerRay2 (Xf2.ofList ts).inverse (innerRay2 t.inverse r) = innerRay2 (Xf2.ofList (ts ++ [t])).inverse r := by
  simp only [innerRay2, Xf2.ofList_append_inverse, Xf2.apply]
  congr 1
  exact (Xf2.apply_sub_apply _ _ _).symm

theorem V2.scale_scale (v : V2 K) (a b : K) : (v.scale a).scale b = v.scale (a * b) := by
  ext <;> simp only [V2.scale] <;> ring

theorem V2.normSq_scale (v : V2 K) (a : K) : (v.scale a).normSq = a * a * v.normSq := by
  simp only [V2.normSq, V2.scale]; ring

theorem V2.eq_zero_of_normSq (v : V2 K) (h : v.normSq = 0) : v = V2.zero := by
  have hx := mul_self_nonneg v.x
  have hy := mul_self_nonneg v.y
  simp only [V2.normSq] at h
  have ex : v.x * v.x = 0 := by linarith
  have ey : v.y * v.y = 0 := by linarith
  ext
  · exact mul_self_eq_zero.mp ex
  · exact mul_self_eq_zero.mp ey

theorem Xf2.lin_zero (t : Xf2 K) : t.lin (V2.zero : V2 K) = V2.zero := by
  ext <;> simp [Xf2.lin, V2.sub, V2.zero]

theorem Xf2.normSq_lin (t : Xf2 K) (h : t.DistValid) (n : V2 K) :
    (t.lin n).normSq = t.factor * t.factor * n.normSq := by
  have := Xf2.dot_lin t h n n
  simpa only [V2.normSq, V2.dot] using this

/-- **Renormalising twice is renormalising once**: for similarities `J` then `t` and a normal whose squared
length is a perfect square `m²` (a unit normal: `m = 1`), with `sqrtF` the exact root on perfect squares. -/
theorem normalize_lin_normalize2 (sqrtF : K → K) (hsq : ∀ q, 0 ≤ q → sqrtF (q * q) = q)
    (J t : Xf2 K) (hJ : J.DistValid) (ht : t.DistValid) (n : V2 K) (m : K) (hm : 0 ≤ m) (hn : n.normSq = m * m) :
    (t.lin ((J.lin n).normalize sqrtF)).normalize sqrtF = (t.lin (J.lin n)).normalize sqrtF := by
  have fJ := Xf2.factor_pos J hJ
  have ft := Xf2.factor_pos t ht
  rcases hm.lt_or_eq with hpos | hzero
  · -- m > 0
    have e1 : (J.lin n).normSq = (J.factor * m) * (J.factor * m) := by rw [Xf2.normSq_lin J hJ, hn]; ring
    have hq1 : 0 ≤ J.factor * m := (mul_pos fJ hpos).le
    have hne1 : J.factor * m ≠ 0 := ne_of_gt (mul_pos fJ hpos)
    have e2 : (t.lin (J.lin n)).normSq = (t.factor * (J.factor * m)) * (t.factor * (J.factor * m)) := by
      rw [Xf2.normSq_lin t ht, e1]; ring
    have hq2 : 0 ≤ t.factor * (J.factor * m) := (mul_pos ft (mul_pos fJ hpos)).le
    have e3 : ((t.lin (J.lin n)).scale (1 / (J.factor * m))).normSq = t.factor * t.factor := by
      rw [V2.normSq_scale, e2]; field_simp
    simp only [V2.normalize]
    rw [e1, hsq _ hq1, Xf2.lin_scale t, e3, hsq _ ft.le, e2, hsq _ hq2, V2.scale_scale]
    congr 1
    have hft := ne_of_gt ft
    field_simp
  · -- m = 0: the normal is the zero vector
    have hn0 : n = V2.zero := V2.eq_zero_of_normSq n (by rw [hn, ← hzero]; ring)
    subst hn0
    have z : ∀ a : K, (V2.zero : V2 K).scale a = V2.zero := fun a => by ext <;> simp [V2.scale, V2.zero]
    simp only [V2.normalize, Xf2.lin_zero, z]

theorem outerCollision2_snoc (sqrtF : K → K) (hsq : ∀ q, 0 ≤ q → sqrtF (q * q) = q)
    (ts : List (Xf2 K)) (hJ : (Xf2.ofList ts).DistValid) (t : Xf2 K) (ht : t.DistValid) (h : Hit2 K)
    (m : K) (hm : 0 ≤ m) (hn : h.normal.normSq = m * m) :
    outerCollision2 sqrtF t (outerCollision2 sqrtF (Xf2.ofList ts) h) = outerCollision2 sqrtF (Xf2.ofList (ts ++ [t])) h := by
  have e := normalize_lin_normalize2 sqrtF hsq (Xf2.ofList ts) t hJ ht h.normal m hm hn
  have l := Xf2.ofList_append_lin ts t h.normal
  simp only [Xf2.lin] at e l
  simp only [outerCollision2, e, l]

/-- the normals a collider reports have perfect-square squared length (unit normals: 1) -/
def Collider2.NiceNormals (c : Collider2 K) : Prop :=
  (∀ r, ∀ h ∈ c.hits r, ∃ m : K, 0 ≤ m ∧ h.normal.normSq = m * m) ∧
    ∀ r, ∃ m : K, 0 ≤ m ∧ (c.first r).1.normal.normSq = m * m

theorem transformCollider2_snoc (sqrtF : K → K) (hsq : ∀ q, 0 ≤ q → sqrtF (q * q) = q)
    (ts : List (Xf2 K)) (hJ : (Xf2.ofList ts).DistValid) (t : Xf2 K) (ht : t.DistValid) (c : Collider2 K)
    (hc : c.NiceNormals) :
    transformCollider2 sqrtF t (transformCollider2 sqrtF (Xf2.ofList ts) c) =
      transformCollider2 sqrtF (Xf2.ofList (ts ++ [t])) c := by
  apply Collider2.ext'
  · simp only [transformCollider2, Xf2.ofList_append_bounds]
  · simp only [transformCollider2, Xf2.ofList_append_bounds]
  · intro r
    simp only [transformCollider2, innerRay2_snoc ts, List.map_map]
    apply List.map_congr_left
    intro h hh
    obtain ⟨m, hm, hn⟩ := hc.1 _ h hh
    exact outerCollision2_snoc sqrtF hsq ts hJ t ht h m hm hn
  · intro r
    simp only [transformCollider2, innerRay2_snoc ts]
  · intro r
    obtain ⟨m, hm, hn⟩ := hc.2 (innerRay2 (Xf2.ofList (ts ++ [t])).inverse r)
    simp only [transformCollider2, tcFirst2, innerRay2_snoc ts]
    cases hf : (c.first (innerRay2 (Xf2.ofList (ts ++ [t])).inverse r)).2 with
    | false => simp
    | true => simp [outerCollision2_snoc sqrtF hsq ts hJ t ht _ m hm hn]
  · intro p d
    simp only [transformCollider2, tcCircle2, Xf2.ofList_append_inverse, Xf2.apply, Xf2.applyDistance]

theorem transformCollider2_singleton (sqrtF : K → K) (t : Xf2 K) (c : Collider2 K) :
    transformCollider2 sqrtF (Xf2.ofList [t]) c = transformCollider2 sqrtF t c := rfl

theorem nestCollider2_eq (sqrtF : K → K) (hsq : ∀ q, 0 ≤ q → sqrtF (q * q) = q)
    (t0 : Xf2 K) (ts : List (Xf2 K)) (hd : ∀ t ∈ t0 :: ts, t.DistValid) (c : Collider2 K) (hc : c.NiceNormals) :
    nestCollider2 sqrtF (t0 :: ts) c = transformCollider2 sqrtF (Xf2.ofList (t0 :: ts)) c := by
  induction ts using List.reverseRecOn with
  | nil => rfl
  | append_singleton ts t ih =>
      have hd' : ∀ u ∈ t0 :: ts, u.DistValid := fun u hu => by
        apply hd u
        rcases List.mem_cons.mp hu with rfl | hu
        · exact List.mem_cons_self ..
        · exact List.mem_cons_of_mem _ (List.mem_append_left _ hu)
      have ht : t.DistValid := hd t (List.mem_cons_of_mem _ (List.mem_append_right _ (List.mem_singleton_self t)))
      have e : t0 :: (ts ++ [t]) = (t0 :: ts) ++ [t] := rfl
      rw [e, ← transformCollider2_snoc sqrtF hsq (t0 :: ts) (Xf2.distValid_ofList _ hd') t ht c hc, ← ih hd']
      simp only [nestCollider2, List.foldl_append, List.foldl_cons, List.foldl_nil]

end M3d.Tf
