import M3d.Model.Param
import Mathlib.Algebra.Order.Field.Basic
import Mathlib.Data.List.Perm.Basic
import Mathlib.Tactic.Linarith
/-!
# `buildParamQuadTree` gives every chart exactly one leaf

For charts of positive 3-D area the greedy four-way assignment of `buildParamQuadTree` puts the first four
charts into four different piles (a pile is chosen by the smallest total, and an empty pile has total 0 while a
non-empty one has a positive total), so with five or more charts every pile is strictly smaller than the input:
the recursion terminates (fuel `length + 1` suffices) and the leaves of the tree are a permutation of the charts.
-/
namespace M3d.Param

set_option linter.unusedSectionVars false

variable {K : Type} [Field K] [LinearOrder K] [IsStrictOrderedRing K]

/-- the chart ids at the leaves, in the order `cells` visits them -/
def QT.ids : QT → List Nat
  | .empty => []
  | .leaf id => [id]
  | .n2 a b => a.ids ++ b.ids
  | .n4 a b c d => a.ids ++ b.ids ++ c.ids ++ d.ids

/-- the cells `Joined` hands out are labelled by the leaves of the tree -/
theorem cells_ids (t : QT) : ∀ r : Rect K, (cells r t).map Prod.fst = t.ids := by
  induction t with
  | empty => intro r; rfl
  | leaf id => intro r; rfl
  | n2 a b iha ihb =>
    intro r
    simp only [cells, QT.ids]
    split <;> simp only [List.map_append, iha, ihb]
  | n4 a b c d iha ihb ihc ihd =>
    intro r
    simp only [cells, QT.ids, List.map_append, iha, ihb, ihc, ihd]

theorem joined_ids (border : K) (r : Rect K) (t : QT) : (joined border r t).map Prod.fst = t.ids := by
  unfold joined
  rw [List.map_map]
  exact cells_ids t r

/-- `argmin4` returns an index in `0..3` of a smallest total. -/
theorem argmin4_spec (t0 t1 t2 t3 : K) :
    (argmin4 t0 t1 t2 t3 = 0 ∧ t0 ≤ t1 ∧ t0 ≤ t2 ∧ t0 ≤ t3) ∨ (argmin4 t0 t1 t2 t3 = 1 ∧ t1 ≤ t0 ∧ t1 ≤ t2 ∧ t1 ≤ t3) ∨
    (argmin4 t0 t1 t2 t3 = 2 ∧ t2 ≤ t0 ∧ t2 ≤ t1 ∧ t2 ≤ t3) ∨ (argmin4 t0 t1 t2 t3 = 3 ∧ t3 ≤ t0 ∧ t3 ≤ t1 ∧ t3 ≤ t2) := by
  by_cases h1 : t1 < t0
  · by_cases h2 : t2 < t1
    · by_cases h3 : t3 < t2
      · right; right; right; exact ⟨by simp [argmin4, h1, h2, h3], by linarith, by linarith, by linarith⟩
      · right; right; left; exact ⟨by simp [argmin4, h1, h2, h3], by linarith, by linarith, by linarith⟩
    · by_cases h3 : t3 < t1
      · right; right; right; exact ⟨by simp [argmin4, h1, h2, h3], by linarith, by linarith, by linarith⟩
      · right; left; exact ⟨by simp [argmin4, h1, h2, h3], by linarith, by linarith, by linarith⟩
  · by_cases h2 : t2 < t0
    · by_cases h3 : t3 < t2
      · right; right; right; exact ⟨by simp [argmin4, h1, h2, h3], by linarith, by linarith, by linarith⟩
      · right; right; left; exact ⟨by simp [argmin4, h1, h2, h3], by linarith, by linarith, by linarith⟩
    · by_cases h3 : t3 < t0
      · right; right; right; exact ⟨by simp [argmin4, h1, h2, h3], by linarith, by linarith, by linarith⟩
      · left; exact ⟨by simp [argmin4, h1, h2, h3], by linarith, by linarith, by linarith⟩

/-- one step of the greedy assignment -/
def pileStep (st : Piles K) (p : Nat × K) : Piles K :=
  match argmin4 st.t0 st.t1 st.t2 st.t3 with
  | 0 => { st with p0 := st.p0 ++ [p], t0 := st.t0 + p.2 }
  | 1 => { st with p1 := st.p1 ++ [p], t1 := st.t1 + p.2 }
  | 2 => { st with p2 := st.p2 ++ [p], t2 := st.t2 + p.2 }
  | _ => { st with p3 := st.p3 ++ [p], t3 := st.t3 + p.2 }

theorem assign4_eq (ps : List (Nat × K)) : assign4 ps = ps.foldl pileStep ⟨[], [], [], [], 0, 0, 0, 0⟩ := rfl

/-- a pile's total is 0 when it is empty and positive otherwise -/
def PileOK (l : List (Nat × K)) (t : K) : Prop := (l = [] → t = 0) ∧ (l ≠ [] → 0 < t)

/-- number of non-empty piles -/
def nonEmpty (l : List (Nat × K)) : Nat := if l = [] then 0 else 1

structure PInv (st : Piles K) (done : List (Nat × K)) : Prop where
  ok0 : PileOK st.p0 st.t0
  ok1 : PileOK st.p1 st.t1
  ok2 : PileOK st.p2 st.t2
  ok3 : PileOK st.p3 st.t3
  perm : (st.p0 ++ st.p1 ++ st.p2 ++ st.p3).Perm done
  pos : ∀ q ∈ st.p0 ++ st.p1 ++ st.p2 ++ st.p3, 0 < q.2
  spread : min done.length 4 ≤ nonEmpty st.p0 + nonEmpty st.p1 + nonEmpty st.p2 + nonEmpty st.p3

theorem PileOK.nonneg {l : List (Nat × K)} {t : K} (h : PileOK l t) : 0 ≤ t := by
  by_cases hl : l = []
  · rw [h.1 hl]
  · exact le_of_lt (h.2 hl)

theorem PileOK.snoc {l : List (Nat × K)} {t : K} (h : PileOK l t) (p : Nat × K) (hp : 0 < p.2) :
    PileOK (l ++ [p]) (t + p.2) :=
  ⟨fun he => absurd he (by simp), fun _ => by linarith [h.nonneg]⟩

theorem nonEmpty_snoc (l : List (Nat × K)) (p : Nat × K) : nonEmpty (l ++ [p]) = 1 := by
  unfold nonEmpty; simp

theorem nonEmpty_le (l : List (Nat × K)) : nonEmpty l ≤ 1 := by
  unfold nonEmpty; split <;> omega

/-- if the chosen pile has the smallest total and some pile is empty, the chosen pile is empty -/
theorem chosen_empty {l l' : List (Nat × K)} {t t' : K} (h : PileOK l t) (h' : PileOK l' t') (hle : t ≤ t')
    (he : l' = []) : l = [] := by
  by_contra hne
  have := h.2 hne
  rw [h'.1 he] at hle
  linarith

theorem pileStep_inv (st : Piles K) (done : List (Nat × K)) (p : Nat × K) (hp : 0 < p.2) (h : PInv st done) :
    PInv (pileStep st p) (done ++ [p]) := by
  have hlen : (done ++ [p]).length = done.length + 1 := by simp
  have hsp := h.spread
  have b0 := nonEmpty_le st.p0
  have b1 := nonEmpty_le st.p1
  have b2 := nonEmpty_le st.p2
  have b3 := nonEmpty_le st.p3
  -- when the chosen pile is non-empty, all piles are non-empty
  have full : ∀ (l : List (Nat × K)) (t : K), PileOK l t → t ≤ st.t0 → t ≤ st.t1 → t ≤ st.t2 → t ≤ st.t3 → l ≠ [] →
      nonEmpty st.p0 + nonEmpty st.p1 + nonEmpty st.p2 + nonEmpty st.p3 = 4 := by
    intro l t hl l0 l1 l2 l3 hne
    have e0 : st.p0 ≠ [] := fun e => hne (chosen_empty hl h.ok0 l0 e)
    have e1 : st.p1 ≠ [] := fun e => hne (chosen_empty hl h.ok1 l1 e)
    have e2 : st.p2 ≠ [] := fun e => hne (chosen_empty hl h.ok2 l2 e)
    have e3 : st.p3 ≠ [] := fun e => hne (chosen_empty hl h.ok3 l3 e)
    simp [nonEmpty, e0, e1, e2, e3]
  unfold pileStep
  rcases argmin4_spec st.t0 st.t1 st.t2 st.t3 with ⟨e, l1, l2, l3⟩ | ⟨e, l0, l2, l3⟩ | ⟨e, l0, l1, l3⟩ | ⟨e, l0, l1, l2⟩ <;>
    rw [e] <;> simp only
  · refine ⟨h.ok0.snoc p hp, h.ok1, h.ok2, h.ok3, ?_, ?_, ?_⟩
    · have : (st.p0 ++ [p] ++ st.p1 ++ st.p2 ++ st.p3).Perm ((st.p0 ++ st.p1 ++ st.p2 ++ st.p3) ++ [p]) := by
        simp only [List.append_assoc]
        exact List.Perm.append_left _ (by
          rw [← List.append_assoc, ← List.append_assoc]
          exact (List.perm_append_comm (l₁ := [p]) (l₂ := st.p1 ++ st.p2 ++ st.p3)).trans (by simp [List.append_assoc]))
      exact this.trans (h.perm.append_right _)
    · intro q hq
      simp only [List.mem_append, List.mem_singleton] at hq
      rcases hq with (((hq | rfl) | hq) | hq) | hq
      · exact h.pos q (by simp [hq])
      · exact hp
      · exact h.pos q (by simp [hq])
      · exact h.pos q (by simp [hq])
      · exact h.pos q (by simp [hq])
    · dsimp only
      rw [hlen, nonEmpty_snoc]
      by_cases hne : st.p0 = []
      · have : nonEmpty st.p0 = 0 := by simp [nonEmpty, hne]
        omega
      · have := full st.p0 st.t0 h.ok0 (le_refl _) l1 l2 l3 hne
        omega
  · refine ⟨h.ok0, h.ok1.snoc p hp, h.ok2, h.ok3, ?_, ?_, ?_⟩
    · have : (st.p0 ++ (st.p1 ++ [p]) ++ st.p2 ++ st.p3).Perm ((st.p0 ++ st.p1 ++ st.p2 ++ st.p3) ++ [p]) := by
        simp only [List.append_assoc]
        exact List.Perm.append_left _ (List.Perm.append_left _ (by
          rw [← List.append_assoc]
          exact (List.perm_append_comm (l₁ := [p]) (l₂ := st.p2 ++ st.p3)).trans (by simp [List.append_assoc])))
      exact this.trans (h.perm.append_right _)
    · intro q hq
      simp only [List.mem_append, List.mem_singleton] at hq
      rcases hq with ((hq | (hq | rfl)) | hq) | hq
      · exact h.pos q (by simp [hq])
      · exact h.pos q (by simp [hq])
      · exact hp
      · exact h.pos q (by simp [hq])
      · exact h.pos q (by simp [hq])
    · dsimp only
      rw [hlen, nonEmpty_snoc]
      by_cases hne : st.p1 = []
      · have : nonEmpty st.p1 = 0 := by simp [nonEmpty, hne]
        omega
      · have := full st.p1 st.t1 h.ok1 l0 (le_refl _) l2 l3 hne
        omega
  · refine ⟨h.ok0, h.ok1, h.ok2.snoc p hp, h.ok3, ?_, ?_, ?_⟩
    · have : (st.p0 ++ st.p1 ++ (st.p2 ++ [p]) ++ st.p3).Perm ((st.p0 ++ st.p1 ++ st.p2 ++ st.p3) ++ [p]) := by
        simp only [List.append_assoc]
        exact List.Perm.append_left _ (List.Perm.append_left _ (List.Perm.append_left _
          (List.perm_append_comm (l₁ := [p]) (l₂ := st.p3))))
      exact this.trans (h.perm.append_right _)
    · intro q hq
      simp only [List.mem_append, List.mem_singleton] at hq
      rcases hq with ((hq | hq) | (hq | rfl)) | hq
      · exact h.pos q (by simp [hq])
      · exact h.pos q (by simp [hq])
      · exact h.pos q (by simp [hq])
      · exact hp
      · exact h.pos q (by simp [hq])
    · dsimp only
      rw [hlen, nonEmpty_snoc]
      by_cases hne : st.p2 = []
      · have : nonEmpty st.p2 = 0 := by simp [nonEmpty, hne]
        omega
      · have := full st.p2 st.t2 h.ok2 l0 l1 (le_refl _) l3 hne
        omega
  · have e3 : ∀ n : Nat, n = 3 → (match n with
        | 0 => ({ st with p0 := st.p0 ++ [p], t0 := st.t0 + p.2 } : Piles K)
        | 1 => { st with p1 := st.p1 ++ [p], t1 := st.t1 + p.2 }
        | 2 => { st with p2 := st.p2 ++ [p], t2 := st.t2 + p.2 }
        | _ => { st with p3 := st.p3 ++ [p], t3 := st.t3 + p.2 }) = { st with p3 := st.p3 ++ [p], t3 := st.t3 + p.2 } := by
      intro n hn; subst hn; rfl
    refine ⟨h.ok0, h.ok1, h.ok2, h.ok3.snoc p hp, ?_, ?_, ?_⟩
    · simp only [← List.append_assoc]
      exact h.perm.append_right _
    · intro q hq
      simp only [List.mem_append, List.mem_singleton] at hq
      rcases hq with ((hq | hq) | hq) | (hq | rfl)
      · exact h.pos q (by simp [hq])
      · exact h.pos q (by simp [hq])
      · exact h.pos q (by simp [hq])
      · exact h.pos q (by simp [hq])
      · exact hp
    · dsimp only
      rw [hlen, nonEmpty_snoc]
      by_cases hne : st.p3 = []
      · have : nonEmpty st.p3 = 0 := by simp [nonEmpty, hne]
        omega
      · have := full st.p3 st.t3 h.ok3 l0 l1 l2 (le_refl _) hne
        omega

theorem foldl_pileStep_inv : ∀ (ps : List (Nat × K)) (st : Piles K) (done : List (Nat × K)),
    (∀ p ∈ ps, 0 < p.2) → PInv st done → PInv (ps.foldl pileStep st) (done ++ ps)
  | [], st, done, _, h => by simpa using h
  | p :: r, st, done, hp, h => by
    have h1 := pileStep_inv st done p (hp p List.mem_cons_self) h
    have h2 := foldl_pileStep_inv r (pileStep st p) (done ++ [p]) (fun q hq => hp q (List.mem_cons_of_mem _ hq)) h1
    simpa [List.append_assoc] using h2

theorem assign4_inv (ps : List (Nat × K)) (hp : ∀ p ∈ ps, 0 < p.2) : PInv (assign4 ps) ps := by
  have h0 : PInv (⟨[], [], [], [], 0, 0, 0, 0⟩ : Piles K) [] :=
    ⟨⟨fun _ => rfl, fun h => absurd rfl h⟩, ⟨fun _ => rfl, fun h => absurd rfl h⟩, ⟨fun _ => rfl, fun h => absurd rfl h⟩,
     ⟨fun _ => rfl, fun h => absurd rfl h⟩, by simp, by simp, by simp⟩
  have := foldl_pileStep_inv ps _ [] hp h0
  simpa [assign4_eq] using this

theorem nonEmpty_le_length (l : List (Nat × K)) : nonEmpty l ≤ l.length := by
  unfold nonEmpty
  split
  · omega
  · rename_i h
    exact List.length_pos_iff.2 h

/-- **Every pile is strictly smaller than the input** when there are at least four charts of positive area
(with five or more: the recursion of `buildParamQuadTree` is on strictly smaller lists). -/
theorem assign4_shrinks (ps : List (Nat × K)) (hp : ∀ p ∈ ps, 0 < p.2) (h4 : 4 ≤ ps.length) :
    (assign4 ps).p0.length + 3 ≤ ps.length ∧ (assign4 ps).p1.length + 3 ≤ ps.length ∧
    (assign4 ps).p2.length + 3 ≤ ps.length ∧ (assign4 ps).p3.length + 3 ≤ ps.length := by
  have h := assign4_inv ps hp
  have hl := h.perm.length_eq
  simp only [List.length_append] at hl
  have hs := h.spread
  have a0 := nonEmpty_le_length (assign4 ps).p0
  have a1 := nonEmpty_le_length (assign4 ps).p1
  have a2 := nonEmpty_le_length (assign4 ps).p2
  have a3 := nonEmpty_le_length (assign4 ps).p3
  have b0 := nonEmpty_le (assign4 ps).p0
  have b1 := nonEmpty_le (assign4 ps).p1
  have b2 := nonEmpty_le (assign4 ps).p2
  have b3 := nonEmpty_le (assign4 ps).p3
  have hm : min ps.length 4 = 4 := by omega
  rw [hm] at hs
  refine ⟨?_, ?_, ?_, ?_⟩ <;> omega

theorem leafOrEmpty_ids (l : List (Nat × K)) (i : Nat) :
    (leafOrEmpty l i).ids = ((l[i]?).map Prod.fst).toList := by
  unfold leafOrEmpty
  simp only
  split <;> rename_i h <;> simp [QT.ids, h]

/-- **The leaves of `buildParamQuadTree` are a permutation of the charts** (every chart gets exactly one leaf,
hence exactly one cell of `Joined`), for charts of positive area and fuel `> length`. -/
theorem buildQT_ids_perm : ∀ (f : Nat) (ps : List (Nat × K)), (∀ p ∈ ps, 0 < p.2) → ps.length < f →
    (buildQT f ps).ids.Perm (ps.map Prod.fst)
  | 0, ps, _, hf => absurd hf (by omega)
  | f + 1, ps, hp, hf => by
    match ps, hp, hf with
    | [], _, _ => simp [buildQT, QT.ids]
    | [p], _, _ => simp [buildQT, QT.ids]
    | [p, q], _, _ => simp [buildQT, QT.ids]
    | [p, q, r], _, _ => simp [buildQT, QT.ids, leafOrEmpty_ids]
    | [p, q, r, s], _, _ => simp [buildQT, QT.ids, leafOrEmpty_ids]
    | p :: q :: r :: s :: u :: rest, hp, hf =>
      have hlen : ¬ (p :: q :: r :: s :: u :: rest).length ≤ 4 := by simp
      simp only [buildQT, hlen, if_false, QT.ids]
      have hinv := assign4_inv (p :: q :: r :: s :: u :: rest) hp
      obtain ⟨s0, s1, s2, s3⟩ := assign4_shrinks (p :: q :: r :: s :: u :: rest) hp (by simp)
      have posOf : ∀ (l : List (Nat × K)), (∀ x ∈ l, x ∈ (assign4 (p :: q :: r :: s :: u :: rest)).p0 ++
          (assign4 (p :: q :: r :: s :: u :: rest)).p1 ++ (assign4 (p :: q :: r :: s :: u :: rest)).p2 ++
          (assign4 (p :: q :: r :: s :: u :: rest)).p3) → ∀ x ∈ l, 0 < x.2 := fun l hl x hx => hinv.pos x (hl x hx)
      have r0 := buildQT_ids_perm f _ (posOf _ (fun x hx => by simp [hx])) (by omega : (assign4 (p :: q :: r :: s :: u :: rest)).p0.length < f)
      have r1 := buildQT_ids_perm f _ (posOf _ (fun x hx => by simp [hx])) (by omega : (assign4 (p :: q :: r :: s :: u :: rest)).p1.length < f)
      have r2 := buildQT_ids_perm f _ (posOf _ (fun x hx => by simp [hx])) (by omega : (assign4 (p :: q :: r :: s :: u :: rest)).p2.length < f)
      have r3 := buildQT_ids_perm f _ (posOf _ (fun x hx => by simp [hx])) (by omega : (assign4 (p :: q :: r :: s :: u :: rest)).p3.length < f)
      have := ((r0.append r1).append r2).append r3
      refine this.trans ?_
      rw [← List.map_append, ← List.map_append, ← List.map_append]
      exact hinv.perm.map _

omit [Field K] [IsStrictOrderedRing K] in
theorem sortDesc_ins_perm (p : Nat × K) : ∀ l : List (Nat × K), (sortDesc.ins p l).Perm (p :: l)
  | [] => by simp [sortDesc.ins]
  | q :: r => by
    simp only [sortDesc.ins]
    split
    · exact List.Perm.refl _
    · exact ((sortDesc_ins_perm p r).cons q).trans (List.Perm.swap p q r)

omit [Field K] [IsStrictOrderedRing K] in
/-- the sort by decreasing area only reorders the charts -/
theorem sortDesc_perm (ps : List (Nat × K)) : (sortDesc ps).Perm ps := by
  unfold sortDesc
  have key : ∀ (l acc : List (Nat × K)), (l.foldl (fun acc p => sortDesc.ins p acc) acc).Perm (l ++ acc) := by
    intro l
    induction l with
    | nil => intro acc; exact List.Perm.refl _
    | cons p r ih =>
      intro acc
      rw [List.foldl_cons]
      refine (ih _).trans ?_
      refine (List.Perm.append_left r (sortDesc_ins_perm p acc)).trans ?_
      simp only [List.cons_append]
      exact List.perm_middle
  simpa using key ps []

end M3d.Param
