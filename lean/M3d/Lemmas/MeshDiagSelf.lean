import M3d.Model.MeshDiagSelf
import M3d.Lemmas.CollideBVH
import M3d.Lemmas.CollideTriTri
/-!
# C11 — `Mesh.SelfIntersections`: the hierarchy never hides a pair of faces

Built on C07's lemmas about `Triangle.TriangleCollisions` (`triTri_cases`, `triTriCore_some`, `triTri_some_common`)
and the n-ary hierarchy (`wtList_eq`, `wtGate3_of_leaf`), used read-only.
-/
namespace M3d.MeshDiagSelf
open M3d.Col

variable {K : Type} [Field K] [LinearOrder K] [IsStrictOrderedRing K]

/-- a reported pair has two different common points: the two triangles cut through each other along a segment -/
theorem triTri_some_crossing {sqrtF : K → K} (hs : SqrtOK sqrtF) (eps : K) (heps : 0 < eps) (T q : Tri3 K)
    (s : V3 K × V3 K) (h : triTri sqrtF eps T q = some s) :
    triInCommon T q ≤ 1 ∧ ∃ p1 p2, p1 ≠ p2 ∧ (InTri T p1 ∧ InTri q p1) ∧ (InTri T p2 ∧ InTri q p2) ∧
      (s = (p1, p2) ∨ s = (p2, p1)) := by
  have hnp := triTri_some_common hs eps heps T q s h
  obtain ⟨g0, _, g2, _, p1, p2, hc, hsn⟩ := (triTri_cases sqrtF eps T q).1 s h
  have hseg := triTriCore_some T.1 T.2.1 T.2.2 q.1 q.2.1 q.2.2 hnp p1 p2 hc
  have h1 := (hseg p1).2 ⟨0, le_rfl, zero_le_one, by simp [V3.add, V3.scale]⟩
  have h2 := (hseg p2).2 ⟨1, zero_le_one, le_rfl, by simp [V3.add, V3.scale, V3.sub]⟩
  have hne := triTriCore_ne T.1 T.2.1 T.2.2 q.1 q.2.1 q.2.2 hnp g2 p1 p2 hc
  refine ⟨g0, p1, p2, hne, h1, h2, ?_⟩
  rw [hsn]; unfold newSegment; split
  · exact Or.inl rfl
  · exact Or.inr rfl

/-- `joinedMultiCollider.TriangleCollisions` over a hierarchy of any shape = the concatenation of what all stored
triangles report (C07's `bvh_triangle_collisions`, re-proved here from the shared lemmas so that this property does
not import another property's theorem file) -/
theorem bvhTriTri_eq {sqrtF : K → K} (hs : SqrtOK sqrtF) (eps : K) (heps : 0 < eps)
    (t : WTree (Tri3 K)) (q : Tri3 K) :
    bvhTriTri sqrtF eps t q = t.leaves.flatMap (fun T => (triTri sqrtF eps T q).toList) := by
  unfold bvhTriTri
  apply wtList_eq
  intro n _ T hT hne
  apply wtGate3_of_leaf triBox _ n T hT
  intro b hle
  cases hq : triTri sqrtF eps T q with
  | none => rw [hq] at hne; exact absurd rfl hne
  | some s =>
    obtain ⟨_, p1, _, _, hcom, _, _⟩ := triTri_some_crossing hs eps heps T q s hq
    exact boxOverlap3_of_point (triMin q) (triMax q) b.1 b.2 p1 (inTri_in_bounds q p1 hcom.2)
      (inBox_of_box3Le b (triBox T) hle _ (inTri_in_bounds T p1 hcom.1))

theorem length_flatMap_toList {A B : Type} (f : A → Option B) (l : List A) :
    (l.flatMap fun a => (f a).toList).length = (l.filter fun a => (f a).isSome).length := by
  induction l with
  | nil => rfl
  | cons a l ih =>
    rw [List.flatMap_cons, List.length_append, ih]
    cases h : f a <;> simp [h]
    omega

theorem sum_map_perm {A : Type} (f : A → Nat) {l l' : List A} (h : l.Perm l') : (l.map f).sum = (l'.map f).sum := by
  induction h with
  | nil => rfl
  | cons a _ ih => simp [ih]
  | swap a b l => simp; omega
  | trans _ _ ih1 ih2 => exact ih1.trans ih2

/-- `SelfIntersections` = its exhaustive definition, for every hierarchy over the faces and every order of
iteration -/
theorem selfIntersections_eq {sqrtF : K → K} (hs : SqrtOK sqrtF) (eps : K) (heps : 0 < eps)
    (tree : WTree (Tri3 K)) (order faces : List (Tri3 K)) (ht : tree.leaves.Perm faces) (ho : order.Perm faces) :
    selfIntersections sqrtF eps tree order = selfIntersectionsDef sqrtF eps faces := by
  unfold selfIntersections selfIntersectionsDef
  rw [sum_map_perm _ ho]
  congr 1
  apply List.map_congr_left
  intro q _
  rw [bvhTriTri_eq hs eps heps, length_flatMap_toList]
  exact (ht.filter _).length_eq

theorem sum_map_eq_zero_iff {A : Type} (f : A → Nat) (l : List A) : (l.map f).sum = 0 ↔ ∀ a ∈ l, f a = 0 := by
  induction l with
  | nil => simp
  | cons a l ih => simp [ih]

theorem selfIntersectionsDef_eq_zero_iff (sqrtF : K → K) (eps : K) (faces : List (Tri3 K)) :
    selfIntersectionsDef sqrtF eps faces = 0 ↔ ∀ T ∈ faces, ∀ q ∈ faces, triTri sqrtF eps T q = none := by
  unfold selfIntersectionsDef
  rw [sum_map_eq_zero_iff]
  simp only [List.length_eq_zero_iff, List.filter_eq_nil_iff, Bool.not_eq_true, Option.isSome_eq_false_iff,
    Option.isNone_iff_eq_none]
  exact ⟨fun h T hT q hq => h q hq T hT, fun h q hq T hT => h T hT q hq⟩

end M3d.MeshDiagSelf
