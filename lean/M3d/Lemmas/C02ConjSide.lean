import M3d.Lemmas.C01Conj
/-!
# On which side of a returned face a sample point lies (property C02, the Conj members)

`MarchingSquaresConj` / `MarchingCubesConj` mesh `TransformSolid(joined, s)` on a lattice and map the mesh back
through `g = joined.Inverse()`; the lattice sample point `c` of the transformed space stands for the point `g c` of
the original space (`conj_label_is_solid`: its label is `s.Contains(g c)`).  The property wants `g c` on the inner
side of the returned surface iff it is contained.  `sideOf2 s q` / `sideOf3 t q` is the un-normalised
`Normal() · (q − first vertex)` of a segment / triangle (`model2d.Segment.Normal` = `(−Δy, Δx)`,
`model3d.Triangle.Normal` = `(t₁−t₀) × (t₂−t₀)`): positive = `q` is on the side the normal points to.

The models of the members (`conjMesh2`, `conjMesh`), the affine maps (`Aff2`, `Aff3`) and the face-level lemmas
(`ndot2_map`, `ndot2_flip`, …) are C01's (`M3d/Model/C01Search.lean`, `M3d/Lemmas/C01Conj.lean`), used read-only.
-/
namespace M3d.C02Conj
open M3d.C01Search
set_option linter.unusedSectionVars false
variable {K : Type} [Field K] [LinearOrder K] [IsStrictOrderedRing K]

/-- `Segment.Normal() · (q − s[0])`, un-normalised -/
def sideOf2 (s : (K × K) × (K × K)) (q : K × K) : K := ndot2 s (sub2 q s.1)

/-- `Triangle.Normal() · (q − t[0])`, un-normalised -/
def sideOf3 (t : (K × K × K) × (K × K × K) × (K × K × K)) (q : K × K × K) : K := ndot t (sub3 q t.1)

theorem sideOf2_map (g : Aff2 K) (s : (K × K) × (K × K)) (q : K × K) :
    sideOf2 (map2 g.apply s) (g.apply q) = g.det * sideOf2 s q := by
  simp only [sideOf2, ndot2, map2, det2, sub2, Aff2.apply, Aff2.lin, Aff2.det]; ring

theorem sideOf2_flip (s : (K × K) × (K × K)) (q : K × K) : sideOf2 (flip2 s) q = - sideOf2 s q := by
  simp only [sideOf2, ndot2, flip2, det2, sub2]; ring

theorem sideOf3_map (g : Aff3 K) (t : (K × K × K) × (K × K × K) × (K × K × K)) (q : K × K × K) :
    sideOf3 (map3 g.apply t) (g.apply q) = g.det * sideOf3 t q := by
  simp only [sideOf3, ndot, map3, det3, sub3, Aff3.apply, Aff3.lin, Aff3.det]; ring

theorem sideOf3_flip (t : (K × K × K) × (K × K × K) × (K × K × K)) (q : K × K × K) :
    sideOf3 (flip3 t) q = - sideOf3 t q := by
  simp only [sideOf3, ndot, flip3, det3, sub3]; ring

/-- the side of the returned segment (reversed iff `det < 0`) on which `g q` lies is the side of the lattice-space
segment on which `q` lies, up to the positive factor `|det|` -/
theorem sideOf2_conjSeg (g : Aff2 K) (s : (K × K) × (K × K)) (q : K × K) :
    sideOf2 (conjSeg g s) (g.apply q) = |g.det| * sideOf2 s q := by
  unfold conjSeg
  by_cases h : g.det < 0
  · simp only [h, if_true, sideOf2_flip, sideOf2_map, abs_of_neg h]; ring
  · simp only [h, if_false, sideOf2_map, abs_of_nonneg (not_lt.1 h)]

theorem sideOf3_conjTri (g : Aff3 K) (t : (K × K × K) × (K × K × K) × (K × K × K)) (q : K × K × K) :
    sideOf3 (conjTri g t) (g.apply q) = |g.det| * sideOf3 t q := by
  unfold conjTri
  by_cases h : g.det < 0
  · simp only [h, if_true, sideOf3_flip, sideOf3_map, abs_of_neg h]; ring
  · simp only [h, if_false, sideOf3_map, abs_of_nonneg (not_lt.1 h)]

theorem pos_iff_of_abs_mul {d x : K} (hd : d ≠ 0) : (0 < |d| * x ↔ 0 < x) ∧ (|d| * x < 0 ↔ x < 0) := by
  have hp : 0 < |d| := abs_pos.2 hd
  constructor
  · constructor
    · intro h
      by_contra hx
      have := mul_nonpos_of_nonneg_of_nonpos hp.le (not_lt.1 hx)
      linarith
    · exact fun h => mul_pos hp h
  · constructor
    · intro h
      by_contra hx
      have := mul_nonneg hp.le (not_lt.1 hx)
      linarith
    · exact fun h => mul_neg_of_pos_of_neg hp h

end M3d.C02Conj
