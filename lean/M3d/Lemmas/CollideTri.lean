import M3d.Lemmas.CollideGeom
/-!
# C07 — Möller–Trumbore (`Triangle.rayCollision`), 2-D `Segment.rayCollision`, `castPlane`, `castCircle`
over a linear ordered field
-/
set_option linter.unusedSectionVars false
namespace M3d.Col

variable {K : Type} [Field K] [LinearOrder K] [IsStrictOrderedRing K]

/-- `o + t·d = a + u·(b-a) + v·(c-a)`, componentwise. -/
def TriEq (a b c o d : V3 K) (t u v : K) : Prop :=
  o.x + d.x * t = a.x + (b.x - a.x) * u + (c.x - a.x) * v ∧
  o.y + d.y * t = a.y + (b.y - a.y) * u + (c.y - a.y) * v ∧
  o.z + d.z * t = a.z + (b.z - a.z) * u + (c.z - a.z) * v

/-- the determinant `det` of `Triangle.rayCollision`: `(d × (c-a)) · (b-a)` -/
def triDet (a b c d : V3 K) : K := (d.cross (c.sub a)).dot (b.sub a)

/-- `det = -d·((b-a)×(c-a))`: it vanishes exactly when the ray is parallel to the triangle's plane. -/
theorem triDet_eq (a b c d : V3 K) : triDet a b c d = -(d.dot ((b.sub a).cross (c.sub a))) := by
  simp only [triDet, V3.cross, V3.dot, V3.sub]; ring

/-- Cramer: a solution of the ray/triangle system is the one the algorithm computes. -/
theorem tri_cramer (a b c o d : V3 K) (t u v : K) (h : TriEq a b c o d t u v) (hdet : triDet a b c d ≠ 0) :
    u = 1 / triDet a b c d * (o.sub a).dot (d.cross (c.sub a)) ∧
    v = 1 / triDet a b c d * d.dot ((o.sub a).cross (b.sub a)) ∧
    t = 1 / triDet a b c d * (c.sub a).dot ((o.sub a).cross (b.sub a)) := by
  obtain ⟨hx, hy, hz⟩ := h
  have ox : o.x = a.x + (b.x - a.x) * u + (c.x - a.x) * v - d.x * t := by linarith
  have oy : o.y = a.y + (b.y - a.y) * u + (c.y - a.y) * v - d.y * t := by linarith
  have oz : o.z = a.z + (b.z - a.z) * u + (c.z - a.z) * v - d.z * t := by linarith
  simp only [triDet, V3.cross, V3.dot, V3.sub] at hdet ⊢
  refine ⟨?_, ?_, ?_⟩
  · rw [eq_comm, one_div, inv_mul_eq_iff_eq_mul₀ hdet, ox, oy, oz]; ring
  · rw [eq_comm, one_div, inv_mul_eq_iff_eq_mul₀ hdet, ox, oy, oz]; ring
  · rw [eq_comm, one_div, inv_mul_eq_iff_eq_mul₀ hdet, ox, oy, oz]; ring

/-- … and what the algorithm computes is a solution. -/
theorem tri_cramer_sol (a b c o d : V3 K) (hdet : triDet a b c d ≠ 0) :
    TriEq a b c o d
      (1 / triDet a b c d * (c.sub a).dot ((o.sub a).cross (b.sub a)))
      (1 / triDet a b c d * (o.sub a).dot (d.cross (c.sub a)))
      (1 / triDet a b c d * d.dot ((o.sub a).cross (b.sub a))) := by
  have hk : 1 / triDet a b c d * triDet a b c d = 1 := one_div_mul_cancel hdet
  generalize 1 / triDet a b c d = k at hk ⊢
  simp only [triDet, V3.cross, V3.dot, V3.sub, TriEq] at hk ⊢
  refine ⟨?_, ?_, ?_⟩
  · linear_combination (-(o.x - a.x)) * hk
  · linear_combination (-(o.y - a.y)) * hk
  · linear_combination (-(o.z - a.z)) * hk

/-- the near-parallel rejection at the top of `Triangle.rayCollision` -/
def triNearPar (sqrtF : K → K) (eps : K) (a b c d : V3 K) : Prop :=
  (triNormal sqrtF a b c).dot (d.normalize sqrtF) < eps ∧ -eps < (triNormal sqrtF a b c).dot (d.normalize sqrtF)

/-- **`Triangle.rayCollision` is Möller–Trumbore**: it returns `(u, v, t)` iff the ray is not rejected as
(near-)parallel, `det ≠ 0`, and `(t, u, v)` is the solution of `o + t·d = a + u·(b-a) + v·(c-a)` with
`0 ≤ u`, `0 ≤ v`, `u + v ≤ 1` (no condition on `t` here: this internal function also reports negative
scales). -/
theorem triRay_iff (sqrtF : K → K) (eps : K) (a b c o d : V3 K) (s : TriSol K) :
    triRay sqrtF eps a b c o d = some s ↔
      ¬ triNearPar sqrtF eps a b c d ∧ triDet a b c d ≠ 0 ∧ TriEq a b c o d s.t s.u s.v ∧
        0 ≤ s.u ∧ 0 ≤ s.v ∧ s.u + s.v ≤ 1 := by
  unfold triRay
  simp only []
  by_cases hpar : triNearPar sqrtF eps a b c d
  · have : (triNormal sqrtF a b c).dot (d.normalize sqrtF) < eps ∧
        -eps < (triNormal sqrtF a b c).dot (d.normalize sqrtF) := hpar
    simp only [this, and_self, if_true, hpar, not_true_eq_false, false_and]
    simp
  · have hpar' : ¬ ((triNormal sqrtF a b c).dot (d.normalize sqrtF) < eps ∧
        -eps < (triNormal sqrtF a b c).dot (d.normalize sqrtF)) := hpar
    rw [if_neg hpar']
    by_cases hdet : triDet a b c d = 0
    · have hz : isZero ((d.cross (c.sub a)).dot (b.sub a)) = true := (isZero_iff _).2 hdet
      rw [if_pos hz]
      simp [hdet]
    · have hz : ¬ isZero ((d.cross (c.sub a)).dot (b.sub a)) = true := fun h => hdet ((isZero_iff _).1 h)
      rw [if_neg hz]
      have hsol := tri_cramer_sol a b c o d hdet
      set U := 1 / triDet a b c d * (o.sub a).dot (d.cross (c.sub a)) with hU
      set V := 1 / triDet a b c d * d.dot ((o.sub a).cross (b.sub a)) with hV
      set T := 1 / triDet a b c d * (c.sub a).dot ((o.sub a).cross (b.sub a)) with hT
      have hU' : 1 / (d.cross (c.sub a)).dot (b.sub a) * (o.sub a).dot (d.cross (c.sub a)) = U := rfl
      have hV' : 1 / (d.cross (c.sub a)).dot (b.sub a) * d.dot ((o.sub a).cross (b.sub a)) = V := rfl
      have hT' : 1 / (d.cross (c.sub a)).dot (b.sub a) * (c.sub a).dot ((o.sub a).cross (b.sub a)) = T := rfl
      rw [hU', hV', hT']
      constructor
      · intro h
        by_cases h1 : U < 0 ∨ 1 < U
        · rw [if_pos h1] at h; cases h
        · rw [if_neg h1] at h
          by_cases h2 : V < 0 ∨ 1 < U + V
          · rw [if_pos h2] at h; cases h
          · rw [if_neg h2] at h
            simp only [Option.some.injEq] at h
            subst h
            have h1' := not_or.1 h1
            have h2' := not_or.1 h2
            exact ⟨hpar, hdet, hsol, not_lt.1 h1'.1, not_lt.1 h2'.1, not_lt.1 h2'.2⟩
      · rintro ⟨_, _, heq, hu, hv, huv⟩
        obtain ⟨e1, e2, e3⟩ := tri_cramer a b c o d s.t s.u s.v heq hdet
        have eu : s.u = U := e1
        have ev : s.v = V := e2
        have et : s.t = T := e3
        have h1 : ¬ (U < 0 ∨ 1 < U) := by
          rw [← eu]; intro h; rcases h with h | h <;> linarith
        have h2 : ¬ (V < 0 ∨ 1 < U + V) := by
          rw [← eu, ← ev]; intro h; rcases h with h | h <;> linarith
        rw [if_neg h1, if_neg h2, ← eu, ← ev, ← et]

/-- uniqueness of the barycentric solution when `det ≠ 0` -/
theorem tri_solution_unique (a b c o d : V3 K) (hdet : triDet a b c d ≠ 0) (t u v t' u' v' : K)
    (h : TriEq a b c o d t u v) (h' : TriEq a b c o d t' u' v') : t = t' ∧ u = u' ∧ v = v' := by
  obtain ⟨e1, e2, e3⟩ := tri_cramer a b c o d t u v h hdet
  obtain ⟨e1', e2', e3'⟩ := tri_cramer a b c o d t' u' v' h' hdet
  exact ⟨e3.trans e3'.symm, e1.trans e1'.symm, e2.trans e2'.symm⟩

/-- The parameters `Triangle.RayCollisions` reports. -/
theorem triHits_ts_iff (sqrtF : K → K) (eps : K) (a b c o d : V3 K) (t : K) :
    (triHits sqrtF eps a b c o d).map Hit.t = [t] ↔
      ¬ triNearPar sqrtF eps a b c d ∧ triDet a b c d ≠ 0 ∧
        ∃ u v, TriEq a b c o d t u v ∧ 0 ≤ u ∧ 0 ≤ v ∧ u + v ≤ 1 ∧ 0 ≤ t := by
  unfold triHits
  cases hr : triRay sqrtF eps a b c o d with
  | none =>
    simp only [List.map_nil, List.nil_eq, reduceCtorEq, false_iff, not_and, not_exists]
    intro hp hd u v he hu hv huv _
    have := (triRay_iff sqrtF eps a b c o d ⟨u, v, t⟩).2 ⟨hp, hd, he, hu, hv, huv⟩
    rw [hr] at this; cases this
  | some s =>
    obtain ⟨hp, hd, he, hu, hv, huv⟩ := (triRay_iff sqrtF eps a b c o d s).1 hr
    simp only []
    by_cases hneg : s.t < 0
    · simp only [hneg, if_true, List.map_nil, List.nil_eq, reduceCtorEq, false_iff, not_and, not_exists]
      intro _ _ u v he' _ _ _ ht
      have := (tri_solution_unique a b c o d hd _ _ _ _ _ _ he he').1
      linarith
    · simp only [hneg, if_false, List.map_cons, List.map_nil, List.cons.injEq, and_true]
      constructor
      · intro h; subst h
        exact ⟨hp, hd, s.u, s.v, he, hu, hv, huv, not_lt.1 hneg⟩
      · rintro ⟨_, _, u, v, he', _⟩
        exact (tri_solution_unique a b c o d hd _ _ _ _ _ _ he he').1

/-- `Triangle.RayCollisions` reports at most one collision. -/
theorem triHits_length_le (sqrtF : K → K) (eps : K) (a b c o d : V3 K) :
    (triHits sqrtF eps a b c o d).length ≤ 1 := by
  unfold triHits
  cases triRay sqrtF eps a b c o d with
  | none => simp
  | some s => simp only []; split <;> simp

/-! ## 2-D segments -/

/-- `s0 + a·(s1-s0) = o + t·d`, componentwise -/
def SegEq (s0 s1 o d : V2 K) (t a : K) : Prop :=
  s0.x + (s1.x - s0.x) * a = o.x + d.x * t ∧ s0.y + (s1.y - s0.y) * a = o.y + d.y * t

def segDet (s0 s1 d : V2 K) : K := (s1.x - s0.x) * d.y - d.x * (s1.y - s0.y)

def segNearPar (sqrtF : K → K) (eps : K) (s0 s1 d : V2 K) : Prop :=
  |segDet s0 s1 d| < eps * (s1.sub s0).norm sqrtF * d.norm sqrtF

/-- **2-D `Segment.rayCollision`** solves `s0 + a·(s1-s0) = o + t·d` by the inverse of `[v d]`: when the ray
is not rejected as near-parallel and `det ≠ 0` it returns `(0 ≤ a ≤ 1, t)` for the unique solution. -/
theorem seg2Ray_iff (sqrtF : K → K) (eps : K) (s0 s1 o d : V2 K) (hit : Bool) (t : K)
    (hdet : segDet s0 s1 d ≠ 0) :
    seg2Ray sqrtF eps s0 s1 o d = some (hit, t) ↔
      ¬ segNearPar sqrtF eps s0 s1 d ∧ ∃ a, SegEq s0 s1 o d t a ∧ (hit = true ↔ 0 ≤ a ∧ a ≤ 1) := by
  unfold seg2Ray
  simp only [absS_eq]
  have hd' : (s1.sub s0).x * d.y - d.x * (s1.sub s0).y = segDet s0 s1 d := rfl
  rw [hd']
  by_cases hpar : segNearPar sqrtF eps s0 s1 d
  · have : |segDet s0 s1 d| < eps * (s1.sub s0).norm sqrtF * d.norm sqrtF := hpar
    rw [if_pos this]
    simp [hpar]
  · have : ¬ |segDet s0 s1 d| < eps * (s1.sub s0).norm sqrtF * d.norm sqrtF := hpar
    rw [if_neg this]
    simp only [Option.some.injEq, Prod.mk.injEq, hpar, not_false_eq_true, true_and]
    -- the solution computed by the code
    have hk : 1 / segDet s0 s1 d * segDet s0 s1 d = 1 := one_div_mul_cancel hdet
    generalize 1 / segDet s0 s1 d = k at hk ⊢
    set A := d.y * k * (o.sub s0).x + -d.x * k * (o.sub s0).y with hA
    set T := -(-(s1.sub s0).y * k * (o.sub s0).x + (s1.sub s0).x * k * (o.sub s0).y) with hT
    have hsol : SegEq s0 s1 o d T A := by
      simp only [SegEq, hA, hT, V2.sub, segDet] at hk ⊢
      constructor
      · linear_combination (o.x - s0.x) * hk
      · linear_combination (o.y - s0.y) * hk
    have huniq : ∀ t' a', SegEq s0 s1 o d t' a' → t' = T ∧ a' = A := by
      intro t' a' h'
      obtain ⟨h1, h2⟩ := h'
      obtain ⟨g1, g2⟩ := hsol
      have e1 : (s1.x - s0.x) * (a' - A) = d.x * (t' - T) := by linear_combination h1 - g1
      have e2 : (s1.y - s0.y) * (a' - A) = d.y * (t' - T) := by linear_combination h2 - g2
      have k1 : segDet s0 s1 d * (a' - A) = 0 := by
        simp only [segDet]; linear_combination d.y * e1 - d.x * e2
      have k2 : segDet s0 s1 d * (t' - T) = 0 := by
        simp only [segDet]; linear_combination (s1.y - s0.y) * e1 - (s1.x - s0.x) * e2
      rcases mul_eq_zero.1 k1 with h | h
      · exact absurd h hdet
      rcases mul_eq_zero.1 k2 with h' | h'
      · exact absurd h' hdet
      exact ⟨by linarith, by linarith⟩
    constructor
    · rintro ⟨h1, h2⟩
      refine ⟨A, by rw [← h2]; exact hsol, ?_⟩
      rw [← h1]
      simp only [Bool.and_eq_true, decide_eq_true_eq]
    · rintro ⟨a, hs, hh⟩
      obtain ⟨e1, e2⟩ := huniq t a hs
      subst e1 e2
      refine ⟨?_, rfl⟩
      cases hit with
      | true =>
        have := hh.1 rfl
        simp [this.1, this.2]
      | false =>
        have : ¬ (0 ≤ A ∧ A ≤ 1) := fun h => by simpa using hh.2 h
        by_cases h0 : 0 ≤ A
        · have : ¬ A ≤ 1 := fun h => this ⟨h0, h⟩
          simp [h0, this]
        · simp [h0]

/-! ## planes and discs -/

/-- **`castPlane`**: a reported scale is non-negative and its ray point lies on the plane
`normal·x = bias`; conversely a ray that is not rejected as near-parallel and whose plane parameter is
non-negative is reported with exactly that parameter. -/
theorem castPlane_iff (sqrtF : K → K) (eps : K) (normal : V3 K) (bias : K) (o d : V3 K) (t : K)
    (hdn : d.dot normal ≠ 0) :
    castPlane sqrtF eps normal bias o d = some t ↔
      ¬ (|d.dot normal| < eps * d.norm sqrtF * normal.norm sqrtF) ∧ 0 ≤ t ∧ (o.along d t).dot normal = bias := by
  unfold castPlane
  simp only [absS_eq]
  by_cases hpar : |d.dot normal| < eps * d.norm sqrtF * normal.norm sqrtF
  · rw [if_pos hpar]; simp [hpar]
  · rw [if_neg hpar]
    simp only [hpar, not_false_eq_true, true_and]
    have hplane : ∀ t, (o.along d t).dot normal = bias ↔ t = (bias - o.dot normal) / d.dot normal := by
      intro t
      rw [eq_div_iff hdn]
      simp only [V3.along, V3.add, V3.scale, V3.dot]
      constructor <;> intro h <;> linear_combination h
    by_cases hneg : (bias - o.dot normal) / d.dot normal < 0
    · rw [if_pos hneg]
      simp only [reduceCtorEq, false_iff, not_and]
      intro ht hp
      rw [hplane] at hp
      linarith
    · rw [if_neg hneg]
      simp only [Option.some.injEq]
      constructor
      · intro h; subst h
        exact ⟨not_lt.1 hneg, (hplane _).2 rfl⟩
      · rintro ⟨_, hp⟩
        exact ((hplane _).1 hp).symm

/-- **`castCircle`**: additionally the hit point is within `radius` of the centre (squared, sqrt-free),
the plane being `normal·x = normal·center`; the reported normal is the given one. -/
theorem castCircle_iff {sqrtF : K → K} (hs : SqrtOK sqrtF) (eps : K) (normal center : V3 K) (radius : K)
    (hr : 0 ≤ radius) (o d : V3 K) (h : Hit K) (hdn : d.dot normal ≠ 0) :
    castCircle sqrtF eps normal center radius o d = some h ↔
      ¬ (|d.dot normal| < eps * d.norm sqrtF * normal.norm sqrtF) ∧ 0 ≤ h.t ∧
        ((o.along d h.t).sub center).dot normal = 0 ∧ (o.along d h.t).distSq center ≤ radius * radius ∧
        h.n = normal := by
  unfold castCircle
  have hplane : ∀ t, ((o.along d t).sub center).dot normal = 0 ↔ (o.along d t).dot normal = normal.dot center := by
    intro t
    simp only [V3.along, V3.add, V3.scale, V3.dot, V3.sub]
    constructor <;> intro h <;> linear_combination h
  cases hc : castPlane sqrtF eps normal (normal.dot center) o d with
  | none =>
    simp only [reduceCtorEq, false_iff, not_and]
    intro hp ht hpl
    have := (castPlane_iff sqrtF eps normal (normal.dot center) o d h.t hdn).2 ⟨hp, ht, (hplane _).1 hpl⟩
    rw [hc] at this; cases this
  | some t =>
    obtain ⟨hp, ht, hpl⟩ := (castPlane_iff sqrtF eps normal (normal.dot center) o d t hdn).1 hc
    simp only [V3.dist]
    have hlt : radius < sqrtF ((o.along d t).distSq center) ↔ ¬ (o.along d t).distSq center ≤ radius * radius := by
      rw [← sqrt_le_iff hs (V3.distSq_nonneg _ _) hr, not_le]
    by_cases hfar : radius < sqrtF ((o.along d t).distSq center)
    · simp only [hfar, if_true, reduceCtorEq, false_iff, not_and]
      intro _ ht' hpl' hd'
      have : h.t = t := by
        have := (castPlane_iff sqrtF eps normal (normal.dot center) o d h.t hdn).2 ⟨hp, ht', (hplane _).1 hpl'⟩
        rw [hc] at this; exact (Option.some.inj this).symm
      rw [this] at hd'
      exact absurd hd' (hlt.1 hfar)
    · simp only [hfar, if_false]
      have hin : (o.along d t).distSq center ≤ radius * radius := by
        by_contra hcon; exact hfar (hlt.2 hcon)
      simp only [Option.some.injEq]
      constructor
      · intro e; subst e
        exact ⟨hp, ht, (hplane _).2 hpl, hin, rfl⟩
      · rintro ⟨_, ht', hpl', _, hn⟩
        have : t = h.t := by
          have := (castPlane_iff sqrtF eps normal (normal.dot center) o d h.t hdn).2 ⟨hp, ht', (hplane _).1 hpl'⟩
          rw [hc] at this; exact Option.some.inj this
        cases h
        simp only at this hn
        subst this hn
        rfl

end M3d.Col
