import M3d.Model.Sdf
import Mathlib.Tactic.Ring
import Mathlib.Tactic.FieldSimp
import Mathlib.Tactic.LinearCombination
import Mathlib.Tactic.Linarith
import Mathlib.Tactic.Positivity
import Mathlib.Tactic.SplitIfs
import Mathlib.Algebra.Order.Field.Basic
import Mathlib.Algebra.Order.Ring.Abs
/-!
Helper lemmas for C06 (`M3d/Props/C06.lean`): the models of `M3d/Model/Sdf.lean` instantiated at an
arbitrary linear ordered field `K`, with `math.Sqrt` an exact square root (`Env.Exact`).
-/
namespace M3d.Sdf
set_option linter.unusedSectionVars false
set_option linter.unusedVariables false

variable {K : Type} [Field K] [LinearOrder K] [IsStrictOrderedRing K]

/-- `E.sqrt` is an exact square root on the non-negative numbers and the two float literals have
their real values (`0 < 1e-5 < 1`, `0.5 * 2 = 1`). -/
structure Env.Exact (E : Env K) : Prop where
  sqrt_nonneg : ∀ s, 0 ≤ s → 0 ≤ E.sqrt s
  sqrt_sq : ∀ s, 0 ≤ s → E.sqrt s * E.sqrt s = s
  eps_pos : 0 < E.eps5
  eps_lt : E.eps5 < 1
  half_eq : E.half * 2 = 1

/-! ## scalars -/

theorem absS_eq (x : K) : absS x = |x| := by
  unfold absS
  split_ifs with h
  · exact (abs_of_pos h).symm
  · rw [abs_of_nonpos (not_lt.mp h)]; ring

theorem mn_eq (a b : K) : mn a b = min a b := by
  unfold mn
  split_ifs with h
  · exact (min_eq_right h.le).symm
  · exact (min_eq_left (not_lt.mp h)).symm

theorem mx_eq (a b : K) : mx a b = max a b := by
  unfold mx
  split_ifs with h
  · exact (max_eq_right h.le).symm
  · exact (max_eq_left (not_lt.mp h)).symm

theorem isZero_iff (x : K) : isZero x = true ↔ x = 0 := by
  unfold isZero
  simp only [Bool.not_eq_true', Bool.or_eq_false_iff, decide_eq_false_iff_not, not_lt]
  constructor
  · rintro ⟨h1, h2⟩; exact le_antisymm h1 h2
  · rintro rfl; exact ⟨le_refl _, le_refl _⟩

theorem isZero_false_iff (x : K) : isZero x = false ↔ x ≠ 0 := by
  rw [Ne, ← isZero_iff]; cases isZero x <;> simp

namespace Env.Exact
variable {E : Env K}

theorem sqrt_pos (hE : E.Exact) {s : K} (hs : 0 < s) : 0 < E.sqrt s := by
  have h1 := hE.sqrt_nonneg s hs.le
  have h2 := hE.sqrt_sq s hs.le
  rcases h1.lt_or_eq with h | h
  · exact h
  · rw [← h] at h2; nlinarith

theorem sqrt_zero (hE : E.Exact) : E.sqrt 0 = 0 := by
  have h2 := hE.sqrt_sq 0 le_rfl
  exact mul_self_eq_zero.mp h2

/-- uniqueness: a non-negative `x` with `x * x = s` is `sqrt s` -/
theorem sqrt_eq (hE : E.Exact) {s x : K} (hx : 0 ≤ x) (h : x * x = s) : E.sqrt s = x := by
  have hs : 0 ≤ s := by rw [← h]; exact mul_self_nonneg x
  have h1 := hE.sqrt_nonneg s hs
  have h2 := hE.sqrt_sq s hs
  have : (E.sqrt s - x) * (E.sqrt s + x) = 0 := by linear_combination h2 - h
  rcases mul_eq_zero.mp this with h3 | h3
  · linarith
  · have : x = 0 := by linarith
    have : E.sqrt s = 0 := by linarith
    linarith

theorem sqrt_one (hE : E.Exact) : E.sqrt 1 = 1 := hE.sqrt_eq zero_le_one (one_mul 1)

theorem sqrt_mul_self (hE : E.Exact) {x : K} (hx : 0 ≤ x) : E.sqrt (x * x) = x := hE.sqrt_eq hx rfl

theorem sqrt_lt_sqrt (hE : E.Exact) {a b : K} (ha : 0 ≤ a) (hb : 0 ≤ b) :
    E.sqrt a < E.sqrt b ↔ a < b := by
  have h1 := hE.sqrt_nonneg a ha
  have h2 := hE.sqrt_sq a ha
  have h3 := hE.sqrt_nonneg b hb
  have h4 := hE.sqrt_sq b hb
  constructor
  · intro h; nlinarith
  · intro h
    by_contra hc
    have hc := not_lt.mp hc
    nlinarith

theorem sqrt_le_sqrt (hE : E.Exact) {a b : K} (ha : 0 ≤ a) (hb : 0 ≤ b) :
    E.sqrt a ≤ E.sqrt b ↔ a ≤ b := by
  rw [← not_lt, ← not_lt, hE.sqrt_lt_sqrt hb ha]

end Env.Exact

/-! ## vectors -/

@[ext] theorem V3.ext' {a b : V3 K} (hx : a.x = b.x) (hy : a.y = b.y) (hz : a.z = b.z) : a = b := by
  cases a; cases b; simp_all

@[ext] theorem V2.ext' {a b : V2 K} (hx : a.x = b.x) (hy : a.y = b.y) : a = b := by
  cases a; cases b; simp_all

theorem V3.sqDist_nonneg (a b : V3 K) : 0 ≤ a.sqDist b := by
  unfold V3.sqDist; nlinarith [mul_self_nonneg (a.x - b.x), mul_self_nonneg (a.y - b.y), mul_self_nonneg (a.z - b.z)]
theorem V2.sqDist_nonneg (a b : V2 K) : 0 ≤ a.sqDist b := by
  unfold V2.sqDist; nlinarith [mul_self_nonneg (a.x - b.x), mul_self_nonneg (a.y - b.y)]
theorem V3.normSq_nonneg (a : V3 K) : 0 ≤ a.normSq := by
  unfold V3.normSq; nlinarith [mul_self_nonneg a.x, mul_self_nonneg a.y, mul_self_nonneg a.z]
theorem V2.normSq_nonneg (a : V2 K) : 0 ≤ a.normSq := by
  unfold V2.normSq; nlinarith [mul_self_nonneg a.x, mul_self_nonneg a.y]
theorem V3.sqDist_comm (a b : V3 K) : a.sqDist b = b.sqDist a := by unfold V3.sqDist; ring
theorem V2.sqDist_comm (a b : V2 K) : a.sqDist b = b.sqDist a := by unfold V2.sqDist; ring

theorem V3.norm_eq (E : Env K) (a : V3 K) : a.norm E = E.sqrt a.normSq := rfl
theorem V2.norm_eq (E : Env K) (a : V2 K) : a.norm E = E.sqrt a.normSq := rfl

theorem V3.normSq_eq_zero {a : V3 K} (h : a.normSq = 0) : a.x = 0 ∧ a.y = 0 ∧ a.z = 0 := by
  unfold V3.normSq at h
  refine ⟨?_, ?_, ?_⟩ <;> nlinarith [mul_self_nonneg a.x, mul_self_nonneg a.y, mul_self_nonneg a.z]

theorem V2.normSq_eq_zero {a : V2 K} (h : a.normSq = 0) : a.x = 0 ∧ a.y = 0 := by
  unfold V2.normSq at h
  refine ⟨?_, ?_⟩ <;> nlinarith [mul_self_nonneg a.x, mul_self_nonneg a.y]

/-- `|a|² > 0` for `a ≠ 0` and the facts about `1 / |a|` used everywhere -/
theorem inv_norm_facts {E : Env K} (hE : E.Exact) {s : K} (hs : 0 < s) :
    0 < E.sqrt s ∧ 0 < 1 / E.sqrt s ∧ (1 / E.sqrt s) * E.sqrt s = 1 ∧
      (1 / E.sqrt s) * (1 / E.sqrt s) * s = 1 := by
  have hp := hE.sqrt_pos hs
  have h2 := hE.sqrt_sq s hs.le
  refine ⟨hp, by positivity, by field_simp, ?_⟩
  have : E.sqrt s ≠ 0 := hp.ne'
  field_simp
  linarith

end M3d.Sdf
