import M3d.Model.C2F
import M3d.Lemmas.Partition
import Mathlib.Tactic.Linarith
import Mathlib.Tactic.Positivity
import Mathlib.Tactic.NormNum
import Mathlib.Algebra.Order.Field.Basic
/-!
Lemmas for `M3d.Model.C2F` (property C12, coarse-to-fine): blocks reached by `Pieces` are sub-blocks
of the root, the geometry behind `nearAxis`, the covering arithmetic of the margin.
-/
namespace M3d.C2F
open M3d.Marching M3d.Partition

/-! ### `Pieces` only ever looks at sub-blocks -/

theorem Block2.split_sub (b : Block2) (c : Nat × Nat) :
    (c ∈ b.split.1.cells → c ∈ b.cells) ∧ (c ∈ b.split.2.cells → c ∈ b.cells) := by
  have h := (Block2.mem_split b c).1
  simp only [Block2.mem_cells]
  exact ⟨fun h1 => h.2 (Or.inl h1), fun h2 => h.2 (Or.inr h2)⟩

theorem Block.split_sub (b : Block) (c : Nat × Nat × Nat) :
    (c ∈ b.split.1.cells → c ∈ b.cells) ∧ (c ∈ b.split.2.cells → c ∈ b.cells) := by
  have h := (Block.mem_split b c).1
  simp only [Block.mem_cells]
  exact ⟨fun h1 => h.2 (Or.inl h1), fun h2 => h.2 (Or.inr h2)⟩

/-- a block at which `Pieces` stopped because the filter said no: the filter said no, and its cells
are cells of the block `Pieces` was called on -/
theorem rejected2_spec (mv : Nat) (hpos : 0 < mv) (g : Block2 → Bool) :
    ∀ b : Block2, ∀ r ∈ rejected2 mv hpos g b, g r = false ∧ ∀ c ∈ r.cells, c ∈ b.cells := by
  intro b
  induction hv : b.area using Nat.strong_induction_on generalizing b with
  | _ n ih =>
    intro r hr
    rw [rejected2_unfold] at hr
    by_cases hg : g b = false
    · rw [if_pos hg] at hr
      simp only [List.mem_singleton] at hr
      subst hr
      exact ⟨hg, fun c hc => hc⟩
    · rw [if_neg hg] at hr
      by_cases hs : b.area / 2 < mv
      · rw [if_pos hs] at hr; cases hr
      · rw [if_neg hs] at hr
        have h2 : 2 ≤ b.area := by omega
        have hl := Block2.split_area_lt b h2
        rcases List.mem_append.1 hr with h | h
        · obtain ⟨e1, e2⟩ := ih _ (hv ▸ hl.1) b.split.1 rfl r h
          exact ⟨e1, fun c hc => (Block2.split_sub b c).1 (e2 c hc)⟩
        · obtain ⟨e1, e2⟩ := ih _ (hv ▸ hl.2) b.split.2 rfl r h
          exact ⟨e1, fun c hc => (Block2.split_sub b c).2 (e2 c hc)⟩

theorem pieces2_sub (mv : Nat) (hpos : 0 < mv) (g : Block2 → Bool) :
    ∀ b : Block2, ∀ q ∈ pieces2 mv hpos g b, ∀ c ∈ q.cells, c ∈ b.cells := by
  intro b
  induction hv : b.area using Nat.strong_induction_on generalizing b with
  | _ n ih =>
    intro q hq
    rw [pieces2_unfold] at hq
    by_cases hg : g b = false
    · rw [if_pos hg] at hq; cases hq
    · rw [if_neg hg] at hq
      by_cases hs : b.area / 2 < mv
      · rw [if_pos hs] at hq
        simp only [List.mem_singleton] at hq
        subst hq
        exact fun c hc => hc
      · rw [if_neg hs] at hq
        have h2 : 2 ≤ b.area := by omega
        have hl := Block2.split_area_lt b h2
        rcases List.mem_append.1 hq with h | h
        · exact fun c hc => (Block2.split_sub b c).1 (ih _ (hv ▸ hl.1) b.split.1 rfl q h c hc)
        · exact fun c hc => (Block2.split_sub b c).2 (ih _ (hv ▸ hl.2) b.split.2 rfl q h c hc)

theorem rejected_spec (mv : Nat) (hpos : 0 < mv) (g : Block → Bool) :
    ∀ b : Block, ∀ r ∈ rejected mv hpos g b, g r = false ∧ ∀ c ∈ r.cells, c ∈ b.cells := by
  intro b
  induction hv : b.volume using Nat.strong_induction_on generalizing b with
  | _ n ih =>
    intro r hr
    rw [rejected_unfold] at hr
    by_cases hg : g b = false
    · rw [if_pos hg] at hr
      simp only [List.mem_singleton] at hr
      subst hr
      exact ⟨hg, fun c hc => hc⟩
    · rw [if_neg hg] at hr
      by_cases hs : b.volume / 2 < mv
      · rw [if_pos hs] at hr; cases hr
      · rw [if_neg hs] at hr
        have h2 : 2 ≤ b.volume := by omega
        have hl := Block.split_volume_lt b h2
        rcases List.mem_append.1 hr with h | h
        · obtain ⟨e1, e2⟩ := ih _ (hv ▸ hl.1) b.split.1 rfl r h
          exact ⟨e1, fun c hc => (Block.split_sub b c).1 (e2 c hc)⟩
        · obtain ⟨e1, e2⟩ := ih _ (hv ▸ hl.2) b.split.2 rfl r h
          exact ⟨e1, fun c hc => (Block.split_sub b c).2 (e2 c hc)⟩

theorem pieces_sub (mv : Nat) (hpos : 0 < mv) (g : Block → Bool) :
    ∀ b : Block, ∀ q ∈ pieces mv hpos g b, ∀ c ∈ q.cells, c ∈ b.cells := by
  intro b
  induction hv : b.volume using Nat.strong_induction_on generalizing b with
  | _ n ih =>
    intro q hq
    rw [pieces_unfold] at hq
    by_cases hg : g b = false
    · rw [if_pos hg] at hq; cases hq
    · rw [if_neg hg] at hq
      by_cases hs : b.volume / 2 < mv
      · rw [if_pos hs] at hq
        simp only [List.mem_singleton] at hq
        subst hq
        exact fun c hc => hc
      · rw [if_neg hs] at hq
        have h2 : 2 ≤ b.volume := by omega
        have hl := Block.split_volume_lt b h2
        rcases List.mem_append.1 hq with h | h
        · exact fun c hc => (Block.split_sub b c).1 (ih _ (hv ▸ hl.1) b.split.1 rfl q h c hc)
        · exact fun c hc => (Block.split_sub b c).2 (ih _ (hv ▸ hl.2) b.split.2 rfl q h c hc)

/-! ### configurations are bounded -/

theorem cfg_fold_lt (p : Nat → Bool) :
    ∀ n, (List.range n).foldl (fun acc c => if p c then acc + 2 ^ c else acc) 0 < 2 ^ n
  | 0 => by simp
  | n + 1 => by
    rw [List.range_succ, List.foldl_append]
    have ih := cfg_fold_lt p n
    have e : 2 ^ (n + 1) = 2 ^ n * 2 := Nat.pow_succ 2 n
    simp only [List.foldl]
    generalize 2 ^ (n + 1) = u at *
    generalize 2 ^ n = t at *
    split <;> omega

theorem cellCfg2_lt (lab : Nat → Nat → Bool) (x y : Nat) : cellCfg2 lab x y < 16 :=
  cfg_fold_lt (fun c => lab (x + cornerOff c 0) (y + cornerOff c 1)) 4

theorem cellCfg_lt (lab : Nat → Nat → Nat → Bool) (x y z : Nat) : cellCfg lab x y z < 256 :=
  cfg_fold_lt (fun c => lab (x + cornerOff c 0) (y + cornerOff c 1) (z + cornerOff c 2)) 8

theorem cornerOff_le (c k : Nat) : cornerOff c k ≤ 1 := by
  unfold cornerOff bit
  omega

/-! ### the geometry of `nearAxis` -/

section geom
variable {K : Type} [Field K] [LinearOrder K] [IsStrictOrderedRing K]

/-- Along one axis: fine lattice `fmin + i·δ`, coarse lattice `fmin - (m-1)·δ + J·(m·δ)` (both
lattices start one spacing below `s.Min()`).  If `nearAxis m R i J` holds, the fine cell
`[a, a+δ]` and the coarse cell `[c, c+Δ]` are at most `r = R·δ` apart. -/
theorem nearAxis_geom (fmin δ : K) (hδ : 0 ≤ δ) (m R i J : Nat) (h : nearAxis m R i J = true) :
    let a := fmin + i * δ
    let c := fmin - ((m : K) - 1) * δ + J * ((m : K) * δ)
    a ≤ c + (m : K) * δ + R * δ ∧ c ≤ a + δ + R * δ := by
  simp only [nearAxis, Bool.and_eq_true, decide_eq_true_eq] at h
  obtain ⟨h1, h2⟩ := h
  have c1 : (i : K) ≤ (m : K) * J + 1 + R := by exact_mod_cast h1
  have c2 : (m : K) * J ≤ (i : K) + m + R := by exact_mod_cast h2
  have e1 := mul_le_mul_of_nonneg_right c1 hδ
  have e2 := mul_le_mul_of_nonneg_right c2 hδ
  constructor
  · linarith
  · linarith

/-- The covering arithmetic along one axis: a fine cell `[a, a+δ]` inside a block with bounds
`[lo, hi]`, a coarse cell `[c, c+Δ]` at most `r` away from it, a point `v` of that coarse cell, a
margin `M ≥ r + Δ`: `v` lies in the block's bounds grown by `M`. -/
theorem cover_axis (lo hi a c v δ Δ r M : K) (hlo : lo ≤ a) (hhi : a + δ ≤ hi)
    (hn1 : a ≤ c + Δ + r) (hn2 : c ≤ a + δ + r) (hv1 : c ≤ v) (hv2 : v ≤ c + Δ) (hM : r + Δ ≤ M) :
    lo - M ≤ v ∧ v ≤ hi + M := by
  constructor <;> linarith

/-- Index form along one axis: the block covers the cells `x0 ≤ i < x1` and has the bounds
`[fmin + x0·δ - ε, fmin + x1·δ + ε]` (`msBlock.Bounds(ε)`); the coarse cell `J` is within reach `R` of the
fine cell `i`; `v` is a point of the coarse cell `J`; the margin is at least `(R + m)·δ`. -/
theorem block_kept_axis (fmin δ ε M v : K) (hδ : 0 ≤ δ) (hε : 0 ≤ ε) (m R i J x0 x1 : Nat)
    (hx0 : x0 ≤ i) (hx1 : i < x1) (h : nearAxis m R i J = true)
    (hv1 : fmin - ((m : K) - 1) * δ + J * ((m : K) * δ) ≤ v)
    (hv2 : v ≤ fmin - ((m : K) - 1) * δ + J * ((m : K) * δ) + (m : K) * δ)
    (hM : ((R : K) + m) * δ ≤ M) :
    fmin + x0 * δ - ε - M ≤ v ∧ v ≤ fmin + x1 * δ + ε + M := by
  obtain ⟨n1, n2⟩ := nearAxis_geom fmin δ hδ m R i J h
  have c0 : (x0 : K) ≤ i := by exact_mod_cast hx0
  have c1 : (i : K) + 1 ≤ x1 := by exact_mod_cast hx1
  have e0 := mul_le_mul_of_nonneg_right c0 hδ
  have e1 := mul_le_mul_of_nonneg_right c1 hδ
  have := cover_axis (fmin + x0 * δ - ε) (fmin + x1 * δ + ε) (fmin + i * δ) _ v δ ((m : K) * δ) (R * δ) M
    (by linarith) (by linarith) n1 n2 hv1 hv2 (by linarith)
  constructor <;> linarith [this.1, this.2]

/-- The searched vertex never leaves its lattice edge: whatever the solid answers, the result of the
bisection lies between the two ends of the edge (so a coarse-mesh vertex stays in the closed box of
every coarse cell that edge belongs to). -/
theorem searchAxis_mem (inside : K → Bool) (lo hi : K) :
    ∀ (n : Nat) (f t : K), lo ≤ f → f ≤ hi → lo ≤ t → t ≤ hi →
      lo ≤ searchAxis inside n f t ∧ searchAxis inside n f t ≤ hi := by
  intro n
  induction n with
  | zero =>
    intro f t h1 h2 h3 h4
    simp only [searchAxis]
    constructor
    · rw [le_div_iff₀ (by norm_num : (0 : K) < 2)]; linarith
    · rw [div_le_iff₀ (by norm_num : (0 : K) < 2)]; linarith
  | succ n ih =>
    intro f t h1 h2 h3 h4
    have m1 : lo ≤ (f + t) / 2 := by rw [le_div_iff₀ (by norm_num : (0 : K) < 2)]; linarith
    have m2 : (f + t) / 2 ≤ hi := by rw [div_le_iff₀ (by norm_num : (0 : K) < 2)]; linarith
    simp only [searchAxis]
    split
    · exact ih f _ h1 h2 m1 m2
    · exact ih _ t m1 m2 h3 h4

end geom

end M3d.C2F
