import M3d.Gen.Kernels
import M3d.Model.Collide
import M3d.Model.CollideXf
import M3d.Model.CollideAxis
import M3d.Lemmas.KernelsTieCollide
import Mathlib.Tactic.Ring
import Mathlib.Tactic.SplitIfs
import Mathlib.Algebra.Order.Field.Basic
/-!
# Tie between the REGENERATED kernels and the collider models of C07 — slab test, ball queries, capsule containment

`model3d.rayCollisionWithBounds` / `model2d.rayCollisionWithBounds` (bvh.go: the loop over the axes unrolled by the
translator, `math.Inf(∓1)` as the two constants of the class `HasInf`), `model3d.Sphere.SphereCollision`,
`model2d.Circle.CircleCollision`, `model3d.Capsule.Contains` (through `NewSegment`, `Segment.Closest`, `Segment.Dist`), `model3d.Cylinder.Contains`
as the Go source defines them NOW are the model functions `slabLoop` (with `none` for `∓∞`; `rect_hits`,
`ray_scale_invariant_shapes`, `segment_bounds_test_sound`), `sphereBall`, `circleBall`
(`transformed_ball_touches_iff_sphere`, `ball_touches_iff_sphere`) and `capsuleContains` (the origin-inside test of
`Capsule.RayCollisions`, `capsule_phantom_contract`) and `cylContains` (`cylinder_contains_iff`) of
`M3d/Model/Collide*.lean`.

The slab tie holds for every linear ordered field with ANY `HasInf` instance under the hypothesis that makes the two
constants behave like infinities for the call (`AxFinite`: on every axis with a non-zero rate the two slab parameters lie
strictly between `negInf` and `posInf`); same pattern as C08's `KernelsTieSlab` for its own copy of the loop.
-/
namespace M3d.KernelsTie.Collide
open M3d.Col M3d.Gen.Kernels M3d.GenPrelude
set_option linter.unusedSectionVars false
set_option linter.unusedVariables false
set_option linter.unusedSimpArgs false

variable {K : Type} [Field K] [LinearOrder K] [IsStrictOrderedRing K]

/-! ## ball queries, capsule containment -/
section sq
variable (sq : K → K)

/-- `model3d.Sphere.SphereCollision` = `sphereBall` -/
theorem sphere_ball_eq (center : V3 K) (radius : K) (c : V3 K) (r : K) :
    (letI := sqrtOf sq; model3d.Sphere_SphereCollision ⟨g3 center, radius⟩ (g3 c) r) = sphereBall sq center radius c r := by
  unfold model3d.Sphere_SphereCollision model3d.Sphere_SDF sphereBall
  simp only [dist3, absS_eq]

/-- `model2d.Circle.CircleCollision` = `circleBall` -/
theorem circle_ball_eq (center : V2 K) (radius : K) (c : V2 K) (r : K) :
    (letI := sqrtOf sq; model2d.Circle_CircleCollision ⟨g2 center, radius⟩ (g2 c) r) = circleBall sq center radius c r := by
  unfold model2d.Circle_CircleCollision model2d.Circle_SDF circleBall
  simp only [dist2, absS_eq]

theorem feq_eq (a b : K) : feq a b = eqB a b := by
  unfold feq eqB
  cases h1 : decide (a < b) <;> cases h2 : decide (b < a) <;> rfl

/-- `model3d.NewSegment` = `newSegment` -/
theorem newSegment_eq (p1 p2 : V3 K) :
    model3d.NewSegment (g3 p1) (g3 p2) = ⟨g3 (newSegment p1 p2).1, g3 (newSegment p1 p2).2⟩ := by
  unfold model3d.NewSegment newSegment
  simp only [feq_eq]
  split_ifs <;> rfl

/-- 3-D `Segment.Closest` = `segClosest3` -/
theorem segment3_closest_eq (s0 s1 c : V3 K) :
    (letI := sqrtOf sq; model3d.Segment_Closest ⟨g3 s0, g3 s1⟩ (g3 c)) = g3 (segClosest3 sq s0 s1 c) := by
  unfold model3d.Segment_Closest segClosest3
  simp only [sub3, norm3, scale3, dot3, add3, gt_iff_lt, decide_eq_true_eq]
  split_ifs <;> rfl

/-- `model3d.Capsule.Contains` = `capsuleContains` -/
theorem capsule_contains_eq (p1 p2 : V3 K) (radius : K) (c : V3 K) :
    (letI := sqrtOf sq; model3d.Capsule_Contains ⟨g3 p1, g3 p2, radius⟩ (g3 c)) = capsuleContains sq p1 p2 radius c := by
  unfold model3d.Capsule_Contains model3d.Segment_Dist capsuleContains
  simp only [newSegment_eq, segment3_closest_eq, dist3]

/-- `model3d.Cylinder.Contains` = `cylContains` (`M3d.C07.cylinder_contains_iff`: the closed cylinder; the "inside" of
`cylinder_axis_rays` and `parity_inside_cylinder`) -/
theorem cylinder_contains_eq (p1 p2 : V3 K) (radius : K) (p : V3 K) :
    (letI := sqrtOf sq; model3d.Cylinder_Contains ⟨g3 p1, g3 p2, radius⟩ (g3 p)) = cylContains sq p1 p2 radius p := by
  unfold model3d.Cylinder_Contains cylContains
  simp only [sub3, normalize3, norm3, dot3, scale3, add3, dist3, gt_iff_lt, Bool.or_eq_true, decide_eq_true_eq]

end sq

/-! ## the slab test -/
section slab
variable [I : HasInf K]

/-- The pair of floats that the model's pair of options stands for: `none ↦ -∞` / `+∞`. -/
def dec (r : Option K × Option K) : K × K := (r.1.getD I.negInf, r.2.getD I.posInf)

/-- One axis behaves like a finite slab: with a non-zero rate both parameters are strictly between the two
"infinities". -/
def AxFinite (a : Ax K) : Prop :=
  a.d ≠ 0 → (I.negInf < (a.lo - a.o) / a.d ∧ (a.lo - a.o) / a.d < I.posInf) ∧
    (I.negInf < (a.hi - a.o) / a.d ∧ (a.hi - a.o) / a.d < I.posInf)

/-- One iteration of the Go loop in continuation-passing form: exactly the text the translator emits for an
unrolled iteration (`k` = the remaining iterations / the final `return`). -/
def axK (o d lo hi : K) (mn mx : K) (k : K → K → K × K) : K × K :=
  if (feq d (0 : K)) then
    if ((decide (o < lo)) || (decide (o > hi))) then
      ((0 : K), (-(1 : K)))
    else
      k mn mx
  else
    let t1 : K := ((lo - o) / d)
    let t2 : K := ((hi - o) / d)
    let (t1, t2) :=
      if (decide (t1 > t2)) then
        let (t1, t2) := (t2, t1)
        (t1, t2)
      else
        (t1, t2)
    if (decide (t2 < (0 : K))) then
      ((0 : K), (-(1 : K)))
    else
      k (if (decide (t1 > mn)) then t1 else mn) (if (decide (t2 < mx)) then t2 else mx)

theorem feq_zero_iff (d : K) : feq d (0 : K) = true ↔ d = 0 := by
  unfold feq
  simp only [Bool.not_eq_true', Bool.or_eq_false_iff, decide_eq_false_iff_not, not_lt]
  exact ⟨fun h => le_antisymm h.2 h.1, fun h => by subst h; exact ⟨le_refl _, le_refl _⟩⟩

theorem isZero_true_iff (d : K) : isZero d = true ↔ d = 0 := by
  unfold isZero
  simp only [Bool.and_eq_true, Bool.not_eq_true', decide_eq_false_iff_not, not_lt]
  exact ⟨fun h => le_antisymm h.2 h.1, fun h => by subst h; exact ⟨le_refl _, le_refl _⟩⟩

/-- **One unrolled iteration = one step of `slabLoop`**, provided the continuation is the rest of the loop. -/
theorem axK_slab (a : Ax K) (as : List (Ax K)) (mn mx : Option K) (k : K → K → K × K)
    (hk : ∀ mn' mx', k (mn'.getD I.negInf) (mx'.getD I.posInf) = dec (slabLoop as mn' mx'))
    (hfin : AxFinite a) :
    axK a.o a.d a.lo a.hi (mn.getD I.negInf) (mx.getD I.posInf) k = dec (slabLoop (a :: as) mn mx) := by
  unfold axK
  by_cases hd : a.d = 0
  · have hf : feq a.d (0 : K) = true := (feq_zero_iff _).2 hd
    have hz : isZero a.d = true := (isZero_true_iff _).2 hd
    rw [if_pos hf]
    simp only [slabLoop, hz, if_true]
    by_cases h1 : a.o < a.lo
    · simp [h1, dec]
    · by_cases h2 : a.hi < a.o
      · simp [h1, h2, dec]
      · simp only [h1, h2, decide_false, gt_iff_lt, Bool.or_self, Bool.false_eq_true, if_false, or_self]
        exact hk mn mx
  · have hf : feq a.d (0 : K) = false := by
      cases h : feq a.d (0 : K) with
      | false => rfl
      | true => exact absurd ((feq_zero_iff _).1 h) hd
    have hz : isZero a.d = false := by
      cases h : isZero a.d with
      | false => rfl
      | true => exact absurd ((isZero_true_iff _).1 h) hd
    obtain ⟨⟨hl1, hl2⟩, ⟨hh1, hh2⟩⟩ := hfin hd
    rw [if_neg (by rw [hf]; exact Bool.false_ne_true)]
    simp only [slabLoop, hz, Bool.false_eq_true, if_false, gt_iff_lt, decide_eq_true_eq]
    by_cases hsw : (a.hi - a.o) / a.d < (a.lo - a.o) / a.d
    · simp only [hsw, if_true]
      by_cases hneg : (a.lo - a.o) / a.d < 0
      · simp [hneg, dec]
      · simp only [hneg, if_false]
        rw [← hk]
        congr 1
        · cases mn with
          | none => simp [hh1]
          | some m => by_cases hm : m < (a.hi - a.o) / a.d <;> simp [hm]
        · cases mx with
          | none => simp [hl2]
          | some m => by_cases hm : (a.lo - a.o) / a.d < m <;> simp [hm]
    · simp only [hsw, if_false]
      by_cases hneg : (a.hi - a.o) / a.d < 0
      · simp [hneg, dec]
      · simp only [hneg, if_false]
        rw [← hk]
        congr 1
        · cases mn with
          | none => simp [hl1]
          | some m => by_cases hm : m < (a.lo - a.o) / a.d <;> simp [hm]
        · cases mx with
          | none => simp [hh2]
          | some m => by_cases hm : (a.hi - a.o) / a.d < m <;> simp [hm]

theorem dec_nil (mn mx : Option K) :
    (mn.getD I.negInf, mx.getD I.posInf) = dec (slabLoop ([] : List (Ax K)) mn mx) := rfl

/-- **`model3d.rayCollisionWithBounds` (regenerated from bvh.go) = `slabLoop` over the three axes** (the function of
`rect_hits`, `Rect.RayCollisions` and of the bounds test of `joinedMultiCollider.SegmentCollision`): the returned
`(minFrac, maxFrac)` is the model's pair with `none ↦ math.Inf(-1)` / `math.Inf(1)`; the miss value `(0, -1)`, the
`rate == 0` `continue`, the swap, the `t2 < 0` short circuit and both running updates included. -/
theorem slab3_eq (o d lo hi : V3 K)
    (h : AxFinite (⟨o.x, d.x, lo.x, hi.x⟩ : Ax K) ∧ AxFinite (⟨o.y, d.y, lo.y, hi.y⟩ : Ax K) ∧
      AxFinite (⟨o.z, d.z, lo.z, hi.z⟩ : Ax K)) :
    model3d.rayCollisionWithBounds ⟨g3 o, g3 d⟩ (g3 lo) (g3 hi) = dec (slabLoop (axes3 o d lo hi) none none) := by
  have hu : model3d.rayCollisionWithBounds ⟨g3 o, g3 d⟩ (g3 lo) (g3 hi) =
      axK o.x d.x lo.x hi.x I.negInf I.posInf fun mn mx =>
        axK o.y d.y lo.y hi.y mn mx fun mn mx =>
          axK o.z d.z lo.z hi.z mn mx fun mn mx => (mn, mx) := rfl
  rw [hu]
  unfold axes3
  exact axK_slab ⟨o.x, d.x, lo.x, hi.x⟩ _ none none _
    (fun mn mx => axK_slab ⟨o.y, d.y, lo.y, hi.y⟩ _ mn mx _
      (fun mn mx => axK_slab ⟨o.z, d.z, lo.z, hi.z⟩ _ mn mx _ (fun mn mx => dec_nil mn mx) h.2.2)
      h.2.1)
    h.1

/-- **`model2d.rayCollisionWithBounds` (regenerated) = `slabLoop` over the two axes** (the bounds test of the 2-D
`joinedMultiCollider.SegmentCollision`, `meshSegment2`). -/
theorem slab2_eq (o d lo hi : V2 K)
    (h : AxFinite (⟨o.x, d.x, lo.x, hi.x⟩ : Ax K) ∧ AxFinite (⟨o.y, d.y, lo.y, hi.y⟩ : Ax K)) :
    model2d.rayCollisionWithBounds ⟨g2 o, g2 d⟩ (g2 lo) (g2 hi) =
      dec (slabLoop [⟨o.x, d.x, lo.x, hi.x⟩, ⟨o.y, d.y, lo.y, hi.y⟩] none none) := by
  have hu : model2d.rayCollisionWithBounds ⟨g2 o, g2 d⟩ (g2 lo) (g2 hi) =
      axK o.x d.x lo.x hi.x I.negInf I.posInf fun mn mx =>
        axK o.y d.y lo.y hi.y mn mx fun mn mx => (mn, mx) := rfl
  rw [hu]
  exact axK_slab ⟨o.x, d.x, lo.x, hi.x⟩ _ none none _
    (fun mn mx => axK_slab ⟨o.y, d.y, lo.y, hi.y⟩ _ mn mx _ (fun mn mx => dec_nil mn mx) h.2)
    h.1

end slab

end M3d.KernelsTie.Collide
