import M3d.Lemmas.RectMesh
/-!
# `RectSet.ExactMesh` is a CLOSED surface: every directed edge occurs as often as its reverse (property C01)

For every state satisfying the representation invariant (C04) whose stored boxes have positive extent.  Argument:
the triangles of ALL listed quads are edge-balanced box by box (the surface of one box, checked once on the abstract
cube); the quads the `uniqueQuads` loop drops come in pairs — the max face of a cell and the min face of its
neighbour — and the second is the first with its vertex order reversed (`qrev`, same diagonal), so the dropped
triangles are edge-balanced among themselves; what is left is therefore edge-balanced.
(An edge along which two boxes touch diagonally is used by FOUR triangles, twice in each direction — the singular
edges `Mesh()` repairs afterwards; so this is closedness, not yet the manifold property.)
-/
namespace M3d.RectMesh
open M3d.RectSet
set_option linter.unusedSectionVars false
set_option linter.unusedVariables false

/-! ### generic quads -/
section generic
variable {A B : Type} [DecidableEq A] [DecidableEq B]

def gtris (q : A × A × A × A) : List (A × A × A) := [(q.1, q.2.1, q.2.2.2), (q.2.1, q.2.2.1, q.2.2.2)]
def gtsides (t : A × A × A) : List (A × A) := [(t.1, t.2.1), (t.2.1, t.2.2), (t.2.2, t.1)]
/-- the six directed sides of the two triangles of a quad -/
def gqsides (q : A × A × A × A) : List (A × A) := (gtris q).flatMap gtsides
def gswap (d : A × A) : A × A := (d.2, d.1)
/-- the quad with its vertex order reversed, keeping the diagonal `p2 – p4` -/
def qrev (q : A × A × A × A) : A × A × A × A := (q.2.2.1, q.2.1, q.1, q.2.2.2)
def qmap (f : A → B) (q : A × A × A × A) : B × B × B × B := (f q.1, f q.2.1, f q.2.2.1, f q.2.2.2)
def dmap (f : A → B) (d : A × A) : B × B := (f d.1, f d.2)

def cntD (d : A × A) (L : List (A × A)) : Nat := L.countP fun e => decide (e = d)

theorem qrev_qrev (q : A × A × A × A) : qrev (qrev q) = q := rfl

theorem gqsides_qmap (f : A → B) (q : A × A × A × A) : gqsides (qmap f q) = (gqsides q).map (dmap f) := rfl

theorem cntD_map_swap (d : A × A) (L : List (A × A)) : cntD d (L.map gswap) = cntD (gswap d) L := by
  unfold cntD
  rw [List.countP_map]
  apply List.countP_congr
  intro e _
  obtain ⟨a, b⟩ := e
  obtain ⟨u, v⟩ := d
  simp [gswap, and_comm]

/-- the sides of the reversed quad are the reversed sides -/
theorem cntD_qrev (d : A × A) (q : A × A × A × A) : cntD d (gqsides (qrev q)) = cntD (gswap d) (gqsides q) := by
  obtain ⟨q1, q2, q3, q4⟩ := q
  obtain ⟨u, v⟩ := d
  simp only [cntD, gqsides, gtris, gtsides, qrev, gswap, List.flatMap_cons, List.flatMap_nil, List.append_nil,
    List.cons_append, List.nil_append, List.countP_cons, List.countP_nil, Prod.mk.injEq, decide_eq_true_eq]
  simp only [and_comm (a := q2 = v), and_comm (a := q4 = v), and_comm (a := q3 = v), and_comm (a := q1 = v)]
  omega

theorem cntD_flatMap_congr {C : Type} (d d' : A × A) (f g : C → List (A × A)) (M : List C)
    (h : ∀ x ∈ M, cntD d (f x) = cntD d' (g x)) : cntD d (M.flatMap f) = cntD d' (M.flatMap g) := by
  induction M with
  | nil => rfl
  | cons x M ih =>
    simp only [List.flatMap_cons, cntD, List.countP_append] at *
    rw [h x List.mem_cons_self, ih (fun y hy => h y (List.mem_cons_of_mem _ hy))]

end generic

/-! ### the surface of one box, on the abstract cube -/

abbrev B3 := Bool × Bool × Bool

/-- `boxQuads` on the abstract cube (corner = which axes are at their max) -/
def absQuads : List (B3 × B3 × B3 × B3) :=
  [ ((false, false, false), (true, false, false), (true, false, true), (false, false, true)),
    ((true, true, true), (true, true, false), (false, true, false), (false, true, true)),
    ((false, false, false), (false, false, true), (false, true, true), (false, true, false)),
    ((true, true, true), (true, false, true), (true, false, false), (true, true, false)),
    ((false, false, false), (false, true, false), (true, true, false), (true, false, false)),
    ((true, true, true), (false, true, true), (false, false, true), (true, false, true)) ]

/-- the 36 directed triangle sides of a box are closed under reversal -/
theorem absSides_balanced : ((absQuads.flatMap gqsides).map gswap).Perm (absQuads.flatMap gqsides) := by
  decide

section box
variable {K : Type} [LinearOrder K] [OfNat K 0]

def crn (r : Rect K) (b : B3) : V3 K := corner r b.1 b.2.1 b.2.2

theorem boxQuads_eq_abs (r : Rect K) : boxQuads r = absQuads.map (qmap (crn r)) := rfl

theorem quadTris_eq (q : Quad K) : quadTris q = gtris q := rfl

theorem flatMap_gqsides_map {A B : Type} (f : A → B) (L : List (A × A × A × A)) :
    (L.map (qmap f)).flatMap gqsides = (L.flatMap gqsides).map (dmap f) := by
  induction L with
  | nil => rfl
  | cons q L ih => simp only [List.map_cons, List.flatMap_cons, List.map_append, ih, gqsides_qmap]

/-- one box: every directed side occurs as often as its reverse -/
theorem box_balanced (r : Rect K) (d : V3 K × V3 K) :
    cntD d ((boxQuads r).flatMap gqsides) = cntD (gswap d) ((boxQuads r).flatMap gqsides) := by
  rw [← cntD_map_swap, boxQuads_eq_abs, flatMap_gqsides_map]
  have h := absSides_balanced.map (dmap (crn r))
  have e : ((absQuads.flatMap gqsides).map gswap).map (dmap (crn r)) =
      ((absQuads.flatMap gqsides).map (dmap (crn r))).map gswap := by
    simp only [List.map_map]
    rfl
  rw [e] at h
  unfold cntD
  exact (h.countP_eq _).symm

/-! ### the quad of a face, and the partner across a shared face -/

/-- the quad `boxQuads` lists for face `(axis, side)` -/
def quadOf (r : Rect K) (a : Nat) (s : Bool) : Quad K :=
  let p := corner r
  match a, s with
  | 1, false => (p false false false, p true false false, p true false true, p false false true)
  | 1, true => (p true true true, p true true false, p false true false, p false true true)
  | 0, false => (p false false false, p false false true, p false true true, p false true false)
  | 0, true => (p true true true, p true false true, p true false false, p true true false)
  | _, false => (p false false false, p false true false, p true true false, p true false false)
  | _, true => (p true true true, p false true true, p false false true, p true false true)

theorem boxQuads_eq_faces (r : Rect K) : boxQuads r = faces.map fun f => quadOf r f.1 f.2 := rfl

theorem mem_faces {a : Nat} (ha : a < 3) (s : Bool) : (a, s) ∈ faces := by
  match a, ha, s with
  | 0, _, false | 0, _, true | 1, _, false | 1, _, true | 2, _, false | 2, _, true => simp [faces]

theorem key_quadOf (r : Rect K) (hr : Pos r) {f : Nat × Bool} (hf : f ∈ faces) :
    quadKey (quadOf r f.1 f.2) = faceKey r f.1 f.2 := by
  have h := keys_boxQuads r hr
  rw [boxQuads_eq_faces, List.map_map] at h
  exact List.map_inj_left.1 h f hf

theorem faceKey_inj (c : Rect K) (hc : Pos c) {a a' : Nat} (ha : a < 3) (ha' : a' < 3) {s s' : Bool}
    (h : faceKey c a s = faceKey c a' s') : a = a' ∧ s = s' := by
  obtain ⟨e1, _, e3⟩ := faceKey_eq hc ha ha' h
  refine ⟨e1, ?_⟩
  have hlt := hc a ha
  cases s <;> cases s'
  · rfl
  · simp only [if_true, Bool.false_eq_true, if_false] at e3; exact absurd e3 (ne_of_lt hlt)
  · simp only [if_true, Bool.false_eq_true, if_false] at e3; exact absurd e3.symm (ne_of_lt hlt)
  · rfl

/-- across a shared face the neighbour lists the same quad with its vertex order reversed -/
theorem quadOf_adjacent {c c' : Rect K} {a : Nat} (ha : a < 3)
    (hag : ∀ b, b < 3 → b ≠ a → c.lo.get b = c'.lo.get b ∧ c.hi.get b = c'.hi.get b)
    (h : c.hi.get a = c'.lo.get a) : quadOf c' a false = qrev (quadOf c a true) := by
  obtain ⟨⟨x0, y0, z0⟩, ⟨x1, y1, z1⟩⟩ := c
  obtain ⟨⟨x0', y0', z0'⟩, ⟨x1', y1', z1'⟩⟩ := c'
  match a, ha with
  | 0, _ =>
    have h1 := hag 1 (by omega) (by omega); have h2 := hag 2 (by omega) (by omega)
    simp only [V3.get] at h h1 h2
    obtain ⟨rfl, rfl⟩ := h1; obtain ⟨rfl, rfl⟩ := h2; subst h
    rfl
  | 1, _ =>
    have h1 := hag 0 (by omega) (by omega); have h2 := hag 2 (by omega) (by omega)
    simp only [V3.get] at h h1 h2
    obtain ⟨rfl, rfl⟩ := h1; obtain ⟨rfl, rfl⟩ := h2; subst h
    rfl
  | 2, _ =>
    have h1 := hag 0 (by omega) (by omega); have h2 := hag 1 (by omega) (by omega)
    simp only [V3.get] at h h1 h2
    obtain ⟨rfl, rfl⟩ := h1; obtain ⟨rfl, rfl⟩ := h2; subst h
    rfl

/-- a quad of a box of positive extent is not its own reversal -/
theorem quadOf_ne_qrev (c : Rect K) (hc : Pos c) {a : Nat} (ha : a < 3) (s : Bool) :
    quadOf c a s ≠ qrev (quadOf c a s) := by
  obtain ⟨⟨x0, y0, z0⟩, ⟨x1, y1, z1⟩⟩ := c
  have hx : x0 ≠ x1 := ne_of_lt (hc 0 (by omega))
  have hy : y0 ≠ y1 := ne_of_lt (hc 1 (by omega))
  have hz : z0 ≠ z1 := ne_of_lt (hc 2 (by omega))
  match a, ha, s with
  | 0, _, false | 0, _, true | 1, _, false | 1, _, true | 2, _, false | 2, _, true =>
    simp [quadOf, qrev, corner, hx, hy, hz, hx.symm, hy.symm, hz.symm]

end box

/-! ### the whole set -/
section whole
variable {K : Type} [LinearOrder K] [OfNat K 0]

/-- all listed quads -/
def allQuads (rects : List (Rect K)) : List (Quad K) := rects.flatMap boxQuads

/-- a quad of a stored box whose key a second stored box has: its reversal is that box's quad -/
theorem partner_mem {s : RS K} (hI : Inv s) (hP : ∀ r ∈ s.rects, Pos r) {c c' : Rect K} (hc : c ∈ s.rects)
    (hc' : c' ∈ s.rects) (hne : c ≠ c') {q : Quad K} (hq : q ∈ boxQuads c)
    (hk : quadKey q ∈ (boxQuads c').map quadKey) : qrev q ∈ boxQuads c' ∧ qrev q ≠ q := by
  rw [boxQuads_eq_faces] at hq
  obtain ⟨f, hf, rfl⟩ := List.mem_map.1 hq
  have hfl := faces_lt hf
  have hkq := key_quadOf c (hP c hc) hf
  have hk0 : quadKey (quadOf c f.1 f.2) ∈ (boxQuads c).map quadKey :=
    List.mem_map.2 ⟨_, by rw [boxQuads_eq_faces]; exact List.mem_map.2 ⟨f, hf, rfl⟩, rfl⟩
  obtain ⟨a, ha, hag, hcase⟩ := shared_face_adjacent hI hP hc hc' hne hk0 hk
  refine ⟨?_, fun e => quadOf_ne_qrev c (hP c hc) hfl f.2 e.symm⟩
  rcases hcase with ⟨h1, h2, _⟩ | ⟨h1, h2, _⟩
  · obtain ⟨e1, e2⟩ := faceKey_inj c (hP c hc) hfl ha (hkq.symm.trans h2)
    rw [e1, e2, ← quadOf_adjacent ha hag h1, boxQuads_eq_faces]
    exact List.mem_map.2 ⟨(a, false), mem_faces ha false, rfl⟩
  · obtain ⟨e1, e2⟩ := faceKey_inj c (hP c hc) hfl ha (hkq.symm.trans h2)
    have hag' : ∀ b, b < 3 → b ≠ a → c'.lo.get b = c.lo.get b ∧ c'.hi.get b = c.hi.get b :=
      fun b hb hba => ⟨(hag b hb hba).1.symm, (hag b hb hba).2.symm⟩
    have := quadOf_adjacent ha hag' h1.symm
    rw [e1, e2, this, qrev_qrev, boxQuads_eq_faces]
    exact List.mem_map.2 ⟨(a, true), mem_faces ha true, rfl⟩

theorem quadKey_qrev (q : Quad K) : quadKey (qrev q) = quadKey q := by
  obtain ⟨q1, q2, q3, q4⟩ := q
  have mn : ∀ a b : K, smin a b = min a b := by
    intro a b; unfold smin
    rcases lt_trichotomy a b with h | h | h
    · rw [if_neg (lt_asymm h), min_eq_left (le_of_lt h)]
    · subst h; simp
    · rw [if_pos h, min_eq_right (le_of_lt h)]
  have mx : ∀ a b : K, smax a b = max a b := by
    intro a b; unfold smax
    rcases lt_trichotomy a b with h | h | h
    · rw [if_pos h, max_eq_right (le_of_lt h)]
    · subst h; simp
    · rw [if_neg (lt_asymm h), max_eq_left (le_of_lt h)]
  simp only [quadKey, qrev, vmin, vmax, mn, mx, Prod.mk.injEq, V3.mk.injEq]
  refine ⟨⟨?_, ?_, ?_⟩, ⟨?_, ?_, ?_⟩⟩ <;> simp only [min_left_comm, max_left_comm, min_comm, max_comm]

theorem allQuads_nodup {s : RS K} (hI : Inv s) (hP : ∀ r ∈ s.rects, Pos r) : (allQuads s.rects).Nodup := by
  unfold allQuads
  rw [List.nodup_flatMap]
  refine ⟨fun c hc => List.Nodup.of_map quadKey (nodup_keys c (hP c hc)), ?_⟩
  refine (List.pairwise_iff_forall_sublist.2 ?_)
  intro c c' hsub
  have hcc : c ∈ s.rects := hsub.subset (by simp)
  have hcc' : c' ∈ s.rects := hsub.subset (by simp)
  have hne : c ≠ c' := by
    have := hI.nodup.sublist hsub
    simpa using this
  intro q hq hq'
  have hk : quadKey q ∈ (boxQuads c').map quadKey := List.mem_map.2 ⟨q, hq', rfl⟩
  obtain ⟨h1, h2⟩ := partner_mem hI hP hcc hcc' hne hq hk
  -- `q` and `qrev q` both in `boxQuads c'` with the same key, but different
  have hn := nodup_keys c' (hP c' hcc')
  have := List.inj_on_of_nodup_map hn h1 hq' (quadKey_qrev q)
  exact h2 this

/-- a quad belongs to the list of one stored box only -/
theorem box_unique {s : RS K} (hI : Inv s) (hP : ∀ r ∈ s.rects, Pos r) {c c' : Rect K} (hc : c ∈ s.rects)
    (hc' : c' ∈ s.rects) {q : Quad K} (hq : q ∈ boxQuads c) (hq' : q ∈ boxQuads c') : c = c' := by
  by_contra hne
  have hk : quadKey q ∈ (boxQuads c').map quadKey := List.mem_map.2 ⟨q, hq', rfl⟩
  obtain ⟨h1, h2⟩ := partner_mem hI hP hc hc' hne hq hk
  exact h2 (List.inj_on_of_nodup_map (nodup_keys c' (hP c' hc')) h1 hq' (quadKey_qrev q))

/-! the loop leaves distinct keys -/
theorem nodup_keys_tog {κ ν : Type} [DecidableEq κ] (m : List (κ × ν)) (e : κ × ν) (h : (keys m).Nodup) :
    (keys (tog m e)).Nodup := by
  unfold tog
  by_cases hk : e.1 ∈ keys m
  · rw [if_pos ((any_key m e.1).2 hk)]
    exact h.sublist (List.Sublist.map _ List.filter_sublist)
  · rw [if_neg (fun hh => hk ((any_key m e.1).1 hh))]
    simp only [keys, List.map_append, List.map_cons, List.map_nil]
    rw [List.nodup_append]
    refine ⟨h, by simp, ?_⟩
    intro a ha b hb
    rw [List.mem_singleton] at hb
    subst hb
    exact fun e' => hk (e' ▸ ha)

theorem nodup_keys_foldl_tog {κ ν : Type} [DecidableEq κ] (L : List (κ × ν)) : ∀ (m : List (κ × ν)),
    (keys m).Nodup → (keys (L.foldl tog m)).Nodup := by
  induction L with
  | nil => intro m h; exact h
  | cons e L ih => intro m h; exact ih _ (nodup_keys_tog m e h)

theorem exactQuads_nodup (rects : List (Rect K)) : (exactQuads rects).Nodup := by
  rw [exactQuads_eq]
  have hk := nodup_keys_foldl_tog ((rects.flatMap boxQuads).map fun q => (quadKey q, q)) [] (by simp [keys])
  have hn : (togAll ((rects.flatMap boxQuads).map fun q => (quadKey q, q))).Nodup := List.Nodup.of_map _ hk
  refine List.Nodup.map_on ?_ hn
  intro x hx y hy hxy
  obtain ⟨qx, _, rfl⟩ := List.mem_map.1 (mem_togAll _ x hx).1
  obtain ⟨qy, _, rfl⟩ := List.mem_map.1 (mem_togAll _ y hy).1
  simp only at hxy
  rw [hxy]

theorem mem_allQuads_of_exact {s : RS K} (hI : Inv s) (hP : ∀ r ∈ s.rects, Pos r) {q : Quad K}
    (h : q ∈ exactQuads s.rects) : q ∈ allQuads s.rects := by
  obtain ⟨c, hc, hq, _⟩ := (exactQuads_iff hI hP q).1 h
  exact List.mem_flatMap.2 ⟨c, hc, hq⟩

/-- the dropped quads: listed, but not kept -/
def dropped (rects : List (Rect K)) : List (Quad K) :=
  (allQuads rects).filter fun q => !decide (q ∈ exactQuads rects)

theorem dropped_closed {s : RS K} (hI : Inv s) (hP : ∀ r ∈ s.rects, Pos r) {q : Quad K}
    (h : q ∈ dropped s.rects) : qrev q ∈ dropped s.rects := by
  simp only [dropped, List.mem_filter, Bool.not_eq_true', decide_eq_false_iff_not] at h ⊢
  obtain ⟨hq, hne⟩ := h
  obtain ⟨c, hc, hqc⟩ := List.mem_flatMap.1 hq
  -- some other stored box has the key
  have hex : ∃ c' ∈ s.rects, c' ≠ c ∧ quadKey q ∈ (boxQuads c').map quadKey := by
    by_contra hno
    apply hne
    refine (exactQuads_iff hI hP q).2 ⟨c, hc, hqc, fun c' hc' hcc hk => hno ⟨c', hc', hcc, hk⟩⟩
  obtain ⟨c', hc', hcc, hk⟩ := hex
  obtain ⟨h1, _⟩ := partner_mem hI hP hc hc' (Ne.symm hcc) hqc hk
  refine ⟨List.mem_flatMap.2 ⟨c', hc', h1⟩, fun hin => ?_⟩
  obtain ⟨c'', hc'', hq'', hno⟩ := (exactQuads_iff hI hP (qrev q)).1 hin
  have e : c'' = c' := box_unique hI hP hc'' hc' hq'' h1
  subst e
  refine hno c hc (Ne.symm hcc) ?_
  rw [quadKey_qrev]
  exact List.mem_map.2 ⟨q, hqc, rfl⟩

/-- **`ExactMesh` is closed**: among the triangles of the kept quads every directed side occurs as often as its
reverse. -/
theorem exactQuads_balanced {s : RS K} (hI : Inv s) (hP : ∀ r ∈ s.rects, Pos r) (d : V3 K × V3 K) :
    cntD d ((exactQuads s.rects).flatMap gqsides) = cntD (gswap d) ((exactQuads s.rects).flatMap gqsides) := by
  -- the kept quads are the listed ones that are kept
  have hQn := allQuads_nodup hI hP
  have hkept : (exactQuads s.rects).Perm ((allQuads s.rects).filter fun q => decide (q ∈ exactQuads s.rects)) := by
    refine (List.perm_ext_iff_of_nodup (exactQuads_nodup _) (hQn.filter _)).2 fun q => ?_
    simp only [List.mem_filter, decide_eq_true_eq]
    exact ⟨fun h => ⟨mem_allQuads_of_exact hI hP h, h⟩, fun h => h.2⟩
  have hsplit := List.filter_append_perm (fun q => decide (q ∈ exactQuads s.rects)) (allQuads s.rects)
  have hcount : ∀ d', cntD d' ((allQuads s.rects).flatMap gqsides) =
      cntD d' ((exactQuads s.rects).flatMap gqsides) + cntD d' ((dropped s.rects).flatMap gqsides) := by
    intro d'
    unfold cntD
    rw [← (hsplit.flatMap_right gqsides).countP_eq, List.flatMap_append, List.countP_append,
      (hkept.flatMap_right gqsides).countP_eq]
    rfl
  -- all listed quads: balanced box by box
  have hall : cntD d ((allQuads s.rects).flatMap gqsides) = cntD (gswap d) ((allQuads s.rects).flatMap gqsides) := by
    unfold allQuads
    rw [List.flatMap_assoc]
    exact cntD_flatMap_congr d (gswap d) _ _ s.rects (fun c _ => box_balanced c d)
  -- the dropped quads: closed under reversal
  have hDn : (dropped s.rects).Nodup := hQn.filter _
  have hrev : ((dropped s.rects).map qrev).Perm (dropped s.rects) := by
    refine (List.perm_ext_iff_of_nodup (hDn.map (fun a b h => by
      have := congrArg qrev h; simpa [qrev_qrev] using this)) hDn).2 fun q => ?_
    constructor
    · intro h
      obtain ⟨q0, hq0, rfl⟩ := List.mem_map.1 h
      exact dropped_closed hI hP hq0
    · intro h
      exact List.mem_map.2 ⟨qrev q, dropped_closed hI hP h, qrev_qrev q⟩
  have hdrop : cntD d ((dropped s.rects).flatMap gqsides) = cntD (gswap d) ((dropped s.rects).flatMap gqsides) := by
    have h1 : cntD d ((dropped s.rects).flatMap gqsides) = cntD d (((dropped s.rects).map qrev).flatMap gqsides) := by
      unfold cntD
      exact ((hrev.flatMap_right gqsides).countP_eq _).symm
    rw [h1, List.flatMap_map]
    exact cntD_flatMap_congr d (gswap d) _ _ _ (fun q _ => cntD_qrev d q)
  have h1 := hcount d
  have h2 := hcount (gswap d)
  omega

/-- the same statement about the triangle list `exactMesh` -/
theorem exactMesh_balanced {s : RS K} (hI : Inv s) (hP : ∀ r ∈ s.rects, Pos r) (d : V3 K × V3 K) :
    cntD d ((exactMesh s.rects).flatMap gtsides) = cntD (gswap d) ((exactMesh s.rects).flatMap gtsides) := by
  have e : (exactMesh s.rects).flatMap gtsides = (exactQuads s.rects).flatMap gqsides := by
    unfold exactMesh
    rw [List.flatMap_assoc]
    rfl
  rw [e]
  exact exactQuads_balanced hI hP d

end whole

end M3d.RectMesh
