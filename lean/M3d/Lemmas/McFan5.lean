import M3d.Lemmas.McFan4
import M3d.Lemmas.McLift3
/-!
The fan lift for marching cubes, part 5: assembling the four cells round a lattice edge of an arbitrary lattice
labelling with empty outer layer, and the theorem — every non-empty link of the whole-lattice mesh is ONE cycle.
-/
namespace M3d.Marching
open M3d.Partition

/-- a cell of the lattice with `nx × ny × nz` cells -/
def inRange (nx ny nz : Nat) (c : Nat × Nat × Nat) : Prop := c.1 < nx ∧ c.2.1 < ny ∧ c.2.2 < nz

theorem inRange_mem (nx ny nz : Nat) (c : Nat × Nat × Nat) : c ∈ (rootBlock nx ny nz).cells ↔ inRange nx ny nz c := by
  rw [Block.mem_cells]
  unfold Block.Mem rootBlock inRange
  simp

/-- the label of a lattice point given as a triple -/
def labAt (lab : Nat → Nat → Nat → Bool) (p : Nat × Nat × Nat) : Bool := lab p.1 p.2.1 p.2.2

/-- **Room round a sign-changing lattice edge.**  If the two lattice points of cube edge `v` of cell `c0` are
labelled differently and the outer layer is empty, the neighbours of `c0` across the two faces through `v`
and the cell diagonally across both are cells of the lattice. -/
theorem ring_arith (nx ny nz : Nat) (lab : Nat → Nat → Nat → Bool)
    (hb : ∀ x y z, (x = 0 ∨ y = 0 ∨ z = 0 ∨ nx ≤ x ∨ ny ≤ y ∨ nz ≤ z) → lab x y z = false) :
    ∀ v ∈ cubeEdges, ∀ d : Bool, ∀ c0 : Nat × Nat × Nat, inRange nx ny nz c0 →
    labAt lab (cornerPt c0 v.1) ≠ labAt lab (cornerPt c0 v.2) →
    room c0 (seFaces v d).2 ∧ room c0 (seFaces v d).1 ∧
    inRange nx ny nz (stepCell c0 (seFaces v d).2) ∧
    inRange nx ny nz (stepCell (stepCell c0 (seFaces v d).2) (seFaces v d).1) ∧
    inRange nx ny nz (stepCell c0 (seFaces v d).1) := by
  intro v hv d c0 hr hl
  obtain ⟨x, y, z⟩ := c0
  have key : ∀ p q : Nat × Nat × Nat, labAt lab p ≠ labAt lab q →
      (1 ≤ p.1 ∧ 1 ≤ p.2.1 ∧ 1 ≤ p.2.2 ∧ p.1 < nx ∧ p.2.1 < ny ∧ p.2.2 < nz) ∨
      (1 ≤ q.1 ∧ 1 ≤ q.2.1 ∧ 1 ≤ q.2.2 ∧ q.1 < nx ∧ q.2.1 < ny ∧ q.2.2 < nz) := by
    intro p q hpq
    have one : ∀ r : Nat × Nat × Nat, labAt lab r = true →
        1 ≤ r.1 ∧ 1 ≤ r.2.1 ∧ 1 ≤ r.2.2 ∧ r.1 < nx ∧ r.2.1 < ny ∧ r.2.2 < nz := by
      intro r hr'
      by_contra hcon
      have : labAt lab r = false := hb _ _ _ (by omega)
      rw [this] at hr'; cases hr'
    cases hp : labAt lab p
    · cases hq : labAt lab q
      · rw [hp, hq] at hpq; exact absurd rfl hpq
      · exact Or.inr (one q hq)
    · exact Or.inl (one p hp)
  have hk := key _ _ hl
  unfold inRange at hr
  simp only at hr
  simp only [cubeEdges, List.mem_cons, List.not_mem_nil, or_false] at hv
  rcases hv with rfl | rfl | rfl | rfl | rfl | rfl | rfl | rfl | rfl | rfl | rfl | rfl <;>
    cases d <;>
    (simp [cornerPt, cornerOff, bit] at hk
     simp [seFaces, axisOf, bit, stepCell, room, cmp, inRange]
     omega)

/-! ### degrees in a link -/

theorem glink_snd_ecnt (m : List (GV × GV × GV)) (V u : GV) (h : u ∈ (glink V m).map Prod.snd) :
    0 < ecnt m (u, V) := by
  obtain ⟨d, hd, rfl⟩ := List.mem_map.1 h
  unfold glink at hd
  obtain ⟨t, ht, htd⟩ := List.mem_filterMap.1 hd
  unfold ecnt
  rw [List.countP_pos_iff]
  refine ⟨(d.2, V), List.mem_flatMap.2 ⟨t, ht, ?_⟩, by simp⟩
  unfold grot at htd
  unfold gsides
  split at htd
  · rename_i h1; cases htd; simp [h1]
  · split at htd
    · rename_i h2; cases htd; simp [h2]
    · split at htd
      · rename_i h3; cases htd; simp [h3]
      · cases htd

theorem ecnt_glink_fst (m : List (GV × GV × GV)) (V u : GV)
    (hdist : ∀ t ∈ m, t.1 ≠ t.2.1 ∧ t.2.1 ≠ t.2.2 ∧ t.1 ≠ t.2.2) (h : 0 < ecnt m (V, u)) :
    u ∈ (glink V m).map Prod.fst := by
  unfold ecnt at h
  rw [List.countP_pos_iff] at h
  obtain ⟨e, he, hev⟩ := h
  have hev' : e = (V, u) := by simpa using hev
  subst hev'
  obtain ⟨t, ht, hte⟩ := List.mem_flatMap.1 he
  obtain ⟨d1, d2, d3⟩ := hdist t ht
  unfold gsides at hte
  simp only [List.mem_cons, List.not_mem_nil, or_false, Prod.mk.injEq] at hte
  rw [List.mem_map]
  unfold glink
  rcases hte with ⟨h1, h2⟩ | ⟨h1, h2⟩ | ⟨h1, h2⟩
  · refine ⟨(t.2.1, t.2.2), List.mem_filterMap.2 ⟨t, ht, ?_⟩, h2.symm⟩
    unfold grot; rw [if_pos h1.symm]
  · refine ⟨(t.2.2, t.1), List.mem_filterMap.2 ⟨t, ht, ?_⟩, h2.symm⟩
    unfold grot
    rw [if_neg (fun h => d1 (h.trans h1)), if_pos h1.symm]
  · refine ⟨(t.1, t.2.1), List.mem_filterMap.2 ⟨t, ht, ?_⟩, h2.symm⟩
    unfold grot
    rw [if_neg (fun h => d3 (h.trans h1)), if_neg (fun h => d2 (h.trans h1)), if_pos h1.symm]

theorem mcMesh_tri_distinct (table : List (List (List Nat)))
    (hwf : ∀ cfg, cfg < 256 → rowWellFormed cfg (getRow table cfg) = true)
    (nx ny nz : Nat) (lab : Nat → Nat → Nat → Bool) :
    ∀ t ∈ mcMesh table nx ny nz lab, t.1 ≠ t.2.1 ∧ t.2.1 ≠ t.2.2 ∧ t.1 ≠ t.2.2 := by
  intro t ht
  have e : mcMesh table nx ny nz lab =
      (rootBlock nx ny nz).cells.flatMap fun c => cellTris table lab c.1 c.2.1 c.2.2 := by
    rw [mcMesh_eq_cells]; rfl
  rw [e] at ht
  obtain ⟨c, _, htc⟩ := List.mem_flatMap.1 ht
  rw [cellTris_eq_map] at htc
  obtain ⟨t0, ht0, rfl⟩ := List.mem_map.1 htc
  obtain ⟨m1, m2, m3, _, _, _, n1, n2, n3⟩ := rowTris_verts (hwf _ (cellCfg_lt lab _ _ _)) ht0
  refine ⟨fun h => n1 ?_, fun h => n2 ?_, fun h => n3 ?_⟩
  · exact loc3_inj _ m1 _ m2 (place_inj _ _ _ _ _ h)
  · exact loc3_inj _ m2 _ m3 (place_inj _ _ _ _ _ h)
  · exact loc3_inj _ m1 _ m3 (place_inj _ _ _ _ _ h)

theorem fanArcs_vertex {cfg : Nat} {row : List (List Nat)} (hwf : rowWellFormed cfg row = true) {v : Vtx}
    (hne : fanArcs row v ≠ []) : v ∈ cubeEdges ∧ signChange cfg v = true := by
  obtain ⟨d, hd⟩ := List.exists_mem_of_ne_nil _ hne
  unfold fanArcs at hd
  obtain ⟨t, ht, htd⟩ := List.mem_filterMap.1 hd
  obtain ⟨m1, m2, m3, s1, s2, s3, _⟩ := rowTris_verts hwf ht
  split at htd
  · rename_i h1; have := eq_of_beq h1; subst this; exact ⟨m1, s1⟩
  · split at htd
    · rename_i h2; have := eq_of_beq h2; subst this; exact ⟨m2, s2⟩
    · split at htd
      · rename_i h3; have := eq_of_beq h3; subst this; exact ⟨m3, s3⟩
      · cases htd

/-! ### one cell of the ring -/

theorem inside_cell (lab : Nat → Nat → Nat → Bool) (c : Nat × Nat × Nat) (k : Nat) (hk : k < 8) :
    inside (cellCfg lab c.1 c.2.1 c.2.2) k = labAt lab (cornerPt c k) :=
  inside_cellCfg lab c.1 c.2.1 c.2.2 k hk

/-- what the lift needs to know about a cell whose cube edge `v` has the two given lattice points -/
theorem cell_facts (table : List (List (List Nat)))
    (hall : ∀ cfg, cfg < 256 → rowWellFormed cfg (getRow table cfg) = true ∧ fanPathsOk cfg (getRow table cfg) = true)
    (lab : Nat → Nat → Nat → Bool) (c : Nat × Nat × Nat) (v : Vtx) (hv : v ∈ cubeEdges) (h8 : v.1 < 8 ∧ v.2 < 8)
    (V : GV) (hV : place c.1 c.2.1 c.2.2 (loc3 v) = V)
    (hsc : labAt lab (cornerPt c v.1) ≠ labAt lab (cornerPt c v.2)) :
    fanPathOk (cellCfg lab c.1 c.2.1 c.2.2) (getRow table (cellCfg lab c.1 c.2.1 c.2.2)) v = true ∧
    inBox c.1 c.2.1 c.2.2 V ∧ v = vtxAt (relPos c.1 c.2.1 c.2.2 V) ∧
    inside (cellCfg lab c.1 c.2.1 c.2.2) v.1 = labAt lab (cornerPt c v.1) := by
  have hbox : inBox c.1 c.2.1 c.2.2 V := hV ▸ inBox_place c v
  refine ⟨?_, hbox, ?_, inside_cell lab c v.1 h8.1⟩
  · have hf := (hall _ (cellCfg_lt lab c.1 c.2.1 c.2.2)).2
    unfold fanPathsOk at hf
    have := List.all_eq_true.1 hf v hv
    have hs : signChange (cellCfg lab c.1 c.2.1 c.2.2) v = true := by
      unfold signChange
      rw [inside_cell lab c v.1 h8.1, inside_cell lab c v.2 h8.2]
      simpa using hsc
    simpa [hs] using this
  · exact (loc3_eq_iff hv _).1 ((place_eq_iff _ _ _ V hbox v).1 hV)

/-! ### the theorem -/

/-- **Every non-empty link of the marching-cubes mesh is one cycle, on every lattice.**  For every lattice size,
every labelling with an empty outer layer and every position `V`: if some triangle of `mcMesh table nx ny nz lab`
has a vertex at `V`, the triangles round `V` form ONE cycle — no vertex pinches two sheets together. -/
theorem mc_fan_cycle {table : List (List (List Nat))} (hloc : mcLocalOk table = true)
    (hfan : mcFanLocalOk table = true) (nx ny nz : Nat) (lab : Nat → Nat → Nat → Bool)
    (hb : ∀ x y z, (x = 0 ∨ y = 0 ∨ z = 0 ∨ nx ≤ x ∨ ny ≤ y ∨ nz ≤ z) → lab x y z = false)
    (V : GV) (hne : glink V (mcMesh table nx ny nz lab) ≠ []) :
    GFanCycle (glink V (mcMesh table nx ny nz lab)) := by
  have hall : ∀ cfg, cfg < 256 →
      rowWellFormed cfg (getRow table cfg) = true ∧ fanPathsOk cfg (getRow table cfg) = true := by
    intro cfg hc
    have := List.all_eq_true.1 hfan cfg (List.mem_range.2 hc)
    simpa [Bool.and_eq_true] using this
  have hwf : ∀ c : Nat × Nat × Nat, rowWellFormed (cellCfg lab c.1 c.2.1 c.2.2)
      (getRow table (cellCfg lab c.1 c.2.1 c.2.2)) = true := fun c => (hall _ (cellCfg_lt lab _ _ _)).1
  have e : mcMesh table nx ny nz lab =
      (rootBlock nx ny nz).cells.flatMap fun c => cellTris table lab c.1 c.2.1 c.2.2 := by
    rw [mcMesh_eq_cells]; rfl
  -- a cell with a triangle at V, and the cube edge of that cell sitting at V
  obtain ⟨c0, hc0, hA0⟩ : ∃ c0 ∈ (rootBlock nx ny nz).cells, glink V (cellTris table lab c0.1 c0.2.1 c0.2.2) ≠ [] := by
    by_contra hcon
    apply hne
    rw [e, glink_flatMap]
    exact flatMap_nil_of _ _ (fun c hc => Classical.byContradiction fun h => hcon ⟨c, hc, h⟩)
  have hbox0 : inBox c0.1 c0.2.1 c0.2.2 V := by
    by_contra h
    exact hA0 (by rw [glink_cellTris table lab _ _ _ V (hwf c0), if_neg h])
  rw [glink_cellTris table lab _ _ _ V (hwf c0), if_pos hbox0] at hA0
  have hfa : fanArcs (getRow table (cellCfg lab c0.1 c0.2.1 c0.2.2)) (vtxAt (relPos c0.1 c0.2.1 c0.2.2 V)) ≠ [] :=
    fun h => hA0 (by rw [h]; rfl)
  obtain ⟨hv0, hs0⟩ := fanArcs_vertex (hwf c0) hfa
  generalize hv0def : vtxAt (relPos c0.1 c0.2.1 c0.2.2 V) = v0 at hv0 hs0
  have hV0 : place c0.1 c0.2.1 c0.2.2 (loc3 v0) = V :=
    (place_eq_iff _ _ _ V hbox0 v0).2 ((loc3_eq_iff hv0 _).2 hv0def.symm)
  have hr0 : inRange nx ny nz c0 := (inRange_mem nx ny nz c0).1 hc0
  -- the direction of the edge and the faces
  generalize hd : labAt lab (cornerPt c0 v0.1) = d
  obtain ⟨hsm, hem, hax, hons, hone, hse1, hons1, hse2, hse3, h81, h82⟩ := se_facts v0 hv0 d
  generalize hsdef : (seFaces v0 d).1 = s0 at hsm hax hons hse1 hons1 hse2 hse3
  generalize hedef : (seFaces v0 d).2 = e0 at hem hax hone hse1 hons1 hse2 hse3
  have hse0 : seFaces v0 d = (s0, e0) := by rw [← hsdef, ← hedef]
  have hlab : labAt lab (cornerPt c0 v0.1) ≠ labAt lab (cornerPt c0 v0.2) := by
    unfold signChange at hs0
    rw [inside_cell lab c0 v0.1 h81, inside_cell lab c0 v0.2 h82] at hs0
    simpa using hs0
  obtain ⟨hre, hrs, hr1, hr2, hr3⟩ := ring_arith nx ny nz lab hb v0 hv0 d c0 hr0 hlab
  rw [hedef] at hre hr1 hr2
  rw [hsdef] at hrs hr2 hr3
  -- the other three cells and their cube edges at V
  obtain ⟨hv1, hp1a, hp1b⟩ := step_corner v0 hv0 e0 hem hone c0 hre
  have hrs1 : room (stepCell c0 e0) s0 := room_step e0 s0 (fun h => hax h.symm) (by
    revert hsm; simp only [faces, List.mem_cons, List.not_mem_nil, or_false]
    rintro (rfl | rfl | rfl | rfl | rfl | rfl) <;> decide) c0 hrs
  obtain ⟨hv2, hp2a, hp2b⟩ := step_corner _ hv1 s0 hsm hons1 _ hrs1
  obtain ⟨hv3, hp3a, hp3b⟩ := step_corner v0 hv0 s0 hsm hons c0 hrs
  generalize hc1 : stepCell c0 e0 = c1 at *
  generalize hc2 : stepCell c1 s0 = c2 at *
  generalize hc3 : stepCell c0 s0 = c3 at *
  generalize hw1 : stepVtx v0 e0.1 = v1 at *
  generalize hw2 : stepVtx v1 s0.1 = v2 at *
  generalize hw3 : stepVtx v0 s0.1 = v3 at *
  rw [hp1a] at hp2a; rw [hp1b] at hp2b
  -- all four sit at V and see the same two lattice points
  have hVc := place_eq_corners c0 v0
  rw [hV0] at hVc
  have hV1 : place c1.1 c1.2.1 c1.2.2 (loc3 v1) = V := by rw [place_eq_corners, hp1a, hp1b, hVc]
  have hV2 : place c2.1 c2.2.1 c2.2.2 (loc3 v2) = V := by rw [place_eq_corners, hp2a, hp2b, hVc]
  have hV3 : place c3.1 c3.2.1 c3.2.2 (loc3 v3) = V := by rw [place_eq_corners, hp3a, hp3b, hVc]
  have h8 : ∀ v ∈ cubeEdges, v.1 < 8 ∧ v.2 < 8 := by decide
  have f0 := cell_facts table hall lab c0 v0 hv0 (h8 _ hv0) V hV0 hlab
  have f1 := cell_facts table hall lab c1 v1 hv1 (h8 _ hv1) V hV1 (by rw [hp1a, hp1b]; exact hlab)
  have f2 := cell_facts table hall lab c2 v2 hv2 (h8 _ hv2) V hV2 (by rw [hp2a, hp2b]; exact hlab)
  have f3 := cell_facts table hall lab c3 v3 hv3 (h8 _ hv3) V hV3 (by rw [hp3a, hp3b]; exact hlab)
  rw [hp1a] at f1; rw [hp2a] at f2; rw [hp3a] at f3
  rw [hd] at f0 f1 f2 f3
  -- the cells across the faces
  have hes : e0.1 ≠ s0.1 := fun h => hax h.symm
  have hs3 : s0.1 < 3 ∧ e0.1 < 3 := by
    constructor
    · revert hsm; simp only [faces, List.mem_cons, List.not_mem_nil, or_false]
      rintro (rfl | rfl | rfl | rfl | rfl | rfl) <;> decide
    · revert hem; simp only [faces, List.mem_cons, List.not_mem_nil, or_false]
      rintro (rfl | rfl | rfl | rfl | rfl | rfl) <;> decide
  have hc2' : stepCell c3 e0 = c2 := by rw [← hc2, ← hc1, ← hc3, stepCell_comm e0 s0 hes]
  have hro2 : room c2 (opp e0) := by rw [← hc2']; exact room_opp e0 hem c3
  have hc3' : stepCell c2 (opp e0) = c3 := by
    rw [← hc2']
    exact stepCell_opp e0 hem c3 (by rw [← hc3]; exact room_step s0 e0 hax hs3.2 c0 hre)
  have hro3 : room c3 (opp s0) := by rw [← hc3]; exact room_opp s0 hsm c0
  have hc0' : stepCell c3 (opp s0) = c0 := by rw [← hc3]; exact stepCell_opp s0 hsm c0 hrs
  -- the four cells, their cube edges and faces as functions of the position in the ring
  let cf : Fin 4 → Nat × Nat × Nat := fun i => match i with
    | 0 => c0 | 1 => c1 | 2 => c2 | 3 => c3
  let vf : Fin 4 → Vtx := fun i => match i with
    | 0 => v0 | 1 => v1 | 2 => v2 | 3 => v3
  let sf : Fin 4 → Face := fun i => match i with
    | 0 => s0 | 1 => opp e0 | 2 => opp s0 | 3 => e0
  let ef : Fin 4 → Face := fun i => match i with
    | 0 => e0 | 1 => s0 | 2 => opp e0 | 3 => opp s0
  have hoe := opp_mem e0 hem
  have hos := opp_mem s0 hsm
  -- the link is made of the links of the four cells
  have hL : (glink V (mcMesh table nx ny nz lab)).Perm
      (glink V (cellTris table lab (cf 0).1 (cf 0).2.1 (cf 0).2.2) ++
        glink V (cellTris table lab (cf 1).1 (cf 1).2.1 (cf 1).2.2) ++
        glink V (cellTris table lab (cf 2).1 (cf 2).2.1 (cf 2).2.2) ++
        glink V (cellTris table lab (cf 3).1 (cf 3).2.1 (cf 3).2.2)) := by
    have hnd : [c0, c1, c2, c3].Nodup := by
      have n10 : c1 ≠ c0 := hc1 ▸ stepCell_ne e0 hem c0 hre
      have n20 : c2 ≠ c0 := by rw [← hc2, ← hc1]; exact stepCell2_ne e0 s0 hem hsm hes c0 hre
      have n30 : c3 ≠ c0 := hc3 ▸ stepCell_ne s0 hsm c0 hrs
      have n21 : c2 ≠ c1 := hc2 ▸ stepCell_ne s0 hsm c1 hrs1
      have n31 : c3 ≠ c1 := by
        rw [← hc3', ← hc2]; exact stepCell2_ne s0 (opp e0) hsm hoe (fun h => hax h) c1 hrs1
      have n32 : c3 ≠ c2 := hc3' ▸ stepCell_ne (opp e0) hoe c2 hro2
      simp only [List.nodup_cons, List.mem_cons, List.not_mem_nil, or_false, not_or, List.nodup_nil, and_true,
        not_false_eq_true]
      exact ⟨⟨n10.symm, n20.symm, n30.symm⟩, ⟨n21.symm, n31.symm⟩, n32.symm⟩
    have hmem : ∀ c ∈ [c0, c1, c2, c3], c ∈ (rootBlock nx ny nz).cells := by
      intro c hc
      rw [inRange_mem]
      simp only [List.mem_cons, List.not_mem_nil, or_false] at hc
      rcases hc with rfl | rfl | rfl | rfl
      · exact hr0
      · exact hr1
      · exact hr2
      · exact hr3
    have hother : ∀ c ∈ (rootBlock nx ny nz).cells, c ∉ [c0, c1, c2, c3] →
        glink V (cellTris table lab c.1 c.2.1 c.2.2) = [] := by
      intro c _ hnot
      rw [glink_cellTris table lab _ _ _ V (hwf c), if_neg]
      intro hbx
      rw [← hV0] at hbx
      have := inBox_four v0 hv0 d c0 c hbx
      rw [hsdef, hedef, hc1, hc2, hc3] at this
      apply hnot
      simp only [List.mem_cons, List.not_mem_nil, or_false]
      exact this
    have := glink_mcMesh_perm table nx ny nz lab V [c0, c1, c2, c3] hnd hmem hother
    simpa [List.flatMap_cons, List.append_assoc] using this
  -- degrees: every link vertex with an incoming arc has an outgoing one
  have hdeg : ∀ u, u ∈ (glink V (mcMesh table nx ny nz lab)).map Prod.snd →
      u ∈ (glink V (mcMesh table nx ny nz lab)).map Prod.fst := by
    intro u hu
    apply ecnt_glink_fst _ V u (mcMesh_tri_distinct table (fun cfg hc => (hall cfg hc).1) nx ny nz lab)
    have h1 := glink_snd_ecnt _ V u hu
    have h2 := mc_edges_balanced hloc nx ny nz lab hb u V
    omega
  refine fan_cycle_of_four table lab V cf vf sf ef ?_ ?_ ?_ ?_ ?_ ?_ ?_ _ hL hdeg
  · intro i; exact hwf (cf i)
  · intro i
    rcases fin4_eq i with rfl | rfl | rfl | rfl
    · exact f0.1
    · exact f1.1
    · exact f2.1
    · exact f3.1
  · intro i
    rcases fin4_eq i with rfl | rfl | rfl | rfl
    · show seFaces v0 (inside (cellCfg lab c0.1 c0.2.1 c0.2.2) v0.1) = (s0, e0)
      rw [f0.2.2.2]; exact hse0
    · show seFaces v1 (inside (cellCfg lab c1.1 c1.2.1 c1.2.2) v1.1) = (opp e0, s0)
      rw [f1.2.2.2]; exact hse1
    · show seFaces v2 (inside (cellCfg lab c2.1 c2.2.1 c2.2.2) v2.1) = (opp s0, opp e0)
      rw [f2.2.2.2]; exact hse2
    · show seFaces v3 (inside (cellCfg lab c3.1 c3.2.1 c3.2.2) v3.1) = (e0, opp s0)
      rw [f3.2.2.2]; exact hse3
  · intro i
    rcases fin4_eq i with rfl | rfl | rfl | rfl
    · exact f0.2.1
    · exact f1.2.1
    · exact f2.2.1
    · exact f3.2.1
  · intro i
    rcases fin4_eq i with rfl | rfl | rfl | rfl
    · exact f0.2.2.1
    · exact f1.2.2.1
    · exact f2.2.2.1
    · exact f3.2.2.1
  · intro i a ha b hb hab
    rcases fin4_eq i with rfl | rfl | rfl | rfl
    · have hab' : place c0.1 c0.2.1 c0.2.2 (loc3 a) = place c1.1 c1.2.1 c1.2.2 (loc3 b) := hab
      rw [← hc1] at hab'
      exact adj_step e0 hem c0 hre a ha b hb hab'
    · have hab' : place c1.1 c1.2.1 c1.2.2 (loc3 a) = place c2.1 c2.2.1 c2.2.2 (loc3 b) := hab
      rw [← hc2] at hab'
      exact adj_step s0 hsm c1 hrs1 a ha b hb hab'
    · have hab' : place c2.1 c2.2.1 c2.2.2 (loc3 a) = place c3.1 c3.2.1 c3.2.2 (loc3 b) := hab
      rw [← hc3'] at hab'
      have := adj_step (opp e0) hoe c2 hro2 a ha b hb hab'
      rw [opp_opp e0 hem] at this
      exact this
    · have hab' : place c3.1 c3.2.1 c3.2.2 (loc3 a) = place c0.1 c0.2.1 c0.2.2 (loc3 b) := hab
      rw [← hc0'] at hab'
      have := adj_step (opp s0) hos c3 hro3 a ha b hb hab'
      rw [opp_opp s0 hsm] at this
      exact this
  · intro i a ha b hb hab
    rcases fin4_eq i with rfl | rfl | rfl | rfl
    · have hab' : place c0.1 c0.2.1 c0.2.2 (loc3 a) = place c2.1 c2.2.1 c2.2.2 (loc3 b) := hab
      rw [← hc2, ← hc1] at hab'
      have := diag_step e0 hem s0 hsm hes c0 hre (hc1 ▸ hrs1) a ha b hb hab'
      exact ⟨this.2, this.1⟩
    · have hab' : place c1.1 c1.2.1 c1.2.2 (loc3 a) = place c3.1 c3.2.1 c3.2.2 (loc3 b) := hab
      rw [← hc3', ← hc2] at hab'
      have := diag_step s0 hsm (opp e0) hoe (fun h => hax h) c1 hrs1 (hc2 ▸ hro2) a ha b hb hab'
      exact ⟨this.2, this.1⟩
    · have hab' : place c2.1 c2.2.1 c2.2.2 (loc3 a) = place c0.1 c0.2.1 c0.2.2 (loc3 b) := hab
      rw [← hc0', ← hc3'] at hab'
      have := diag_step (opp e0) hoe (opp s0) hos (fun h => hes h) c2 hro2 (hc3' ▸ hro3) a ha b hb hab'
      exact ⟨this.2, this.1⟩
    · have hab' : place c3.1 c3.2.1 c3.2.2 (loc3 a) = place c1.1 c1.2.1 c1.2.2 (loc3 b) := hab
      rw [← hc1, ← hc0'] at hab'
      have := diag_step (opp s0) hos e0 hem (fun h => hax h) c3 hro3 (hc0' ▸ hre) a ha b hb hab'
      exact ⟨this.2, this.1⟩

end M3d.Marching
