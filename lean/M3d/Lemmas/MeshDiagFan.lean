import M3d.Lemmas.MeshDiagSearch
import M3d.Lemmas.Surface
/-!
# C11 — `SingularVertices`, `Clusters`, `removeAllConnected` against reachability
-/
namespace M3d.MeshDiag
open M3d.Surface

/-! ## face identities are distinct -/

theorem enumFrom_fst_ge : ∀ (ts : List Tri) (n : Nat), ∀ f ∈ enumFrom n ts, n ≤ f.1 := by
  intro ts
  induction ts with
  | nil => intro n f h; simp [enumFrom] at h
  | cons t ts ih =>
    intro n f h
    simp only [enumFrom, List.mem_cons] at h
    rcases h with rfl | h
    · exact Nat.le_refl _
    · exact Nat.le_of_succ_le (ih (n + 1) f h)

theorem enumFrom_nodup : ∀ (ts : List Tri) (n : Nat), (enumFrom n ts).Nodup := by
  intro ts
  induction ts with
  | nil => intro n; simp [enumFrom]
  | cons t ts ih =>
    intro n
    simp only [enumFrom, List.nodup_cons]
    refine ⟨fun h => ?_, ih (n + 1)⟩
    have := enumFrom_fst_ge ts (n + 1) _ h
    simp only at this
    omega

theorem enum_nodup (ts : List Tri) : (enum ts).Nodup := enumFrom_nodup ts 0

theorem enumFrom_map_snd : ∀ (ts : List Tri) (n : Nat), (enumFrom n ts).map (·.2) = ts := by
  intro ts
  induction ts with
  | nil => intro n; rfl
  | cons t ts ih => intro n; simp [enumFrom, ih]

/-- Forgetting the identities gives back the mesh. -/
theorem enum_map_snd (ts : List Tri) : (enum ts).map (·.2) = ts := enumFrom_map_snd ts 0

theorem enum_length (ts : List Tri) : (enum ts).length = ts.length := by
  have := congrArg List.length (enum_map_snd ts)
  simpa using this

theorem mem_enum_snd {ts : List Tri} {f : Face} (h : f ∈ enum ts) : f.2 ∈ ts := by
  rw [← enum_map_snd ts]; exact List.mem_map_of_mem h

/-! ## `SharesEdge` is symmetric on non-degenerate faces -/

theorem ite_or3 {a d e f : Nat} (hde : d ≠ e) (hef : e ≠ f) (hdf : d ≠ f) :
    (if a = d ∨ a = e ∨ a = f then 1 else 0)
      = (if a = d then 1 else 0) + (if a = e then 1 else 0) + (if a = f then 1 else 0) := by
  by_cases h1 : a = d <;> by_cases h2 : a = e <;> by_cases h3 : a = f <;>
    simp_all [Ne.symm hde, Ne.symm hef, Ne.symm hdf] <;> omega

theorem inCommon_eq (s t : Tri) :
    inCommon s t = (if s.1 = t.1 ∨ s.1 = t.2.1 ∨ s.1 = t.2.2 then 1 else 0)
      + (if s.2.1 = t.1 ∨ s.2.1 = t.2.1 ∨ s.2.1 = t.2.2 then 1 else 0)
      + (if s.2.2 = t.1 ∨ s.2.2 = t.2.1 ∨ s.2.2 = t.2.2 then 1 else 0) := by
  obtain ⟨a, b, c⟩ := s
  obtain ⟨d, e, f⟩ := t
  simp only [inCommon, triVerts, List.countP_cons, List.countP_nil, List.contains_cons, List.contains_nil,
    Bool.or_false, Bool.or_eq_true, beq_iff_eq]
  omega

theorem inCommon_symm {s t : Tri} (hs : TriNondeg s) (ht : TriNondeg t) : inCommon s t = inCommon t s := by
  obtain ⟨a, b, c⟩ := s
  obtain ⟨d, e, f⟩ := t
  obtain ⟨h1, h2, h3⟩ := hs
  obtain ⟨h4, h5, h6⟩ := ht
  simp only at h1 h2 h3 h4 h5 h6
  rw [inCommon_eq, inCommon_eq]
  simp only
  rw [ite_or3 h4 h5 (Ne.symm h6), ite_or3 h4 h5 (Ne.symm h6), ite_or3 h4 h5 (Ne.symm h6),
    ite_or3 h1 h2 (Ne.symm h3), ite_or3 h1 h2 (Ne.symm h3), ite_or3 h1 h2 (Ne.symm h3)]
  simp only [@eq_comm _ d, @eq_comm _ e, @eq_comm _ f]
  omega

theorem fanAdj_symm {s t : Face} (hs : TriNondeg s.2) (ht : TriNondeg t.2) : fanAdj s t = fanAdj t s := by
  simp only [fanAdj, inCommon_symm hs ht]

/-- On non-degenerate faces at `v` the adjacency used by the fan search (two or more common
corners) is "share an edge at `v`": a common vertex other than `v` — the adjacency of
`ptrCoord.Clusters`. -/
theorem fanAdj_eq_adjAt {v : Nat} {s t : Face} (hs : TriNondeg s.2)
    (hvs : hasVert v s.2 = true) (hvt : hasVert v t.2 = true) : fanAdj s t = adjAt v s t := by
  obtain ⟨i, a, b, c⟩ := s
  obtain ⟨j, d, e, f⟩ := t
  obtain ⟨h1, h2, h3⟩ := hs
  simp only at h1 h2 h3
  simp only [hasVert, triVerts, List.contains_cons, List.contains_nil, Bool.or_false, Bool.or_eq_true,
    beq_iff_eq] at hvs hvt
  rw [Bool.eq_iff_iff]
  simp only [fanAdj, adjAt, inCommon_eq, hasVert, triVerts, List.any_cons, List.any_nil, Bool.or_false,
    List.contains_cons, List.contains_nil, Bool.or_eq_true, Bool.and_eq_true, bne_iff_ne, beq_iff_eq,
    decide_eq_true_eq, ne_eq]
  rcases hvs with rfl | rfl | rfl
  · simp only [hvt, if_true, not_true_eq_false, false_and, false_or]
    have hb : ¬ b = v := fun h => h1 h.symm
    simp only [hb, h3, not_false_eq_true, true_and]
    by_cases hb' : b = d ∨ b = e ∨ b = f <;> by_cases hc' : c = d ∨ c = e ∨ c = f <;> simp [hb', hc']
  · simp only [hvt, if_true, not_true_eq_false, false_and, false_or]
    have hc : ¬ c = v := fun h => h2 h.symm
    simp only [h1, hc, not_false_eq_true, true_and]
    by_cases hb' : a = d ∨ a = e ∨ a = f <;> by_cases hc' : c = d ∨ c = e ∨ c = f <;> simp [hb', hc']
  · simp only [hvt, if_true, not_true_eq_false, false_and, or_false]
    have hac : ¬ a = v := fun h => h3 h.symm
    simp only [hac, h2, not_false_eq_true, true_and]
    by_cases hb' : a = d ∨ a = e ∨ a = f <;> by_cases hc' : b = d ∨ b = e ∨ b = f <;> simp [hb', hc']

/-! ## `SingularVertices` -/

/-- What the stack search leaves unvisited: the faces at `v` (other than the first, `t`) that
cannot be reached from `t` through shared edges. -/
theorem mem_fanUnvisited (ts : List Tri) (v : Nat) (t : Face) (rest : List Face)
    (hF : facesAt v (enum ts) = t :: rest) (y : Face) :
    y ∈ fanUnvisited ts v ↔ y ∈ rest ∧ ¬ Reach fanAdj rest t y := by
  have hnd : (t :: rest).Nodup := hF ▸ (enum_nodup ts).filter _
  have htr : t ∉ rest := (List.nodup_cons.mp hnd).1
  unfold fanUnvisited
  rw [hF]
  simp only
  rw [fanSearch_spec (rest.length + 1) [t] rest (by simp; omega) (by simpa using htr) y]
  simp

/-- Restricting the universe to the faces other than the start loses no path from the start. -/
theorem reach_drop_start {adj : Face → Face → Bool} {t : Face} {rest : List Face} {y : Face}
    (h : Reach adj (t :: rest) t y) : Reach adj rest t y := by
  induction h with
  | refl => exact .refl _
  | step _ hc hadj ih =>
    rcases List.mem_cons.mp hc with h | h
    · subst h; exact .refl _
    · exact .step ih h hadj

theorem singular_iff (ts : List Tri) (hd : NoDegenerate ts) (v : Nat) :
    v ∈ singularVertices ts ↔ v ∈ verts ts ∧ ¬ FanGraphConnected ts v := by
  unfold singularVertices
  rw [List.mem_filter]
  refine and_congr_right fun _ => ?_
  cases hF : facesAt v (enum ts) with
  | nil =>
    have : fanUnvisited ts v = [] := by unfold fanUnvisited; rw [hF]
    simp [this, FanGraphConnected, hF]
  | cons t rest =>
    have hmem := mem_fanUnvisited ts v t rest hF
    have hnd : ∀ f ∈ t :: rest, TriNondeg f.2 := by
      intro f hf
      have : f ∈ enum ts := (List.mem_filter.mp (hF ▸ hf)).1
      exact hd _ (mem_enum_snd this)
    have hsym : ∀ x y, x ∈ t :: rest → y ∈ t :: rest → fanAdj x y = fanAdj y x :=
      fun x y hx hy => fanAdj_symm (hnd x hx) (hnd y hy)
    constructor
    · intro hne
      have : fanUnvisited ts v ≠ [] := by
        intro h; rw [h] at hne; simp at hne
      obtain ⟨y, hy⟩ := List.exists_mem_of_ne_nil _ this
      obtain ⟨hyr, hno⟩ := (hmem y).mp hy
      intro hconn
      exact hno (reach_drop_start (hconn t (by rw [hF]; exact List.mem_cons_self) y
        (by rw [hF]; exact List.mem_cons_of_mem _ hyr) |> fun h => hF ▸ h))
    · intro hnot
      cases hu : fanUnvisited ts v with
      | cons a b => simp
      | nil =>
        exfalso
        apply hnot
        have hall : ∀ y ∈ t :: rest, Reach fanAdj (t :: rest) t y := by
          intro y hy
          rcases List.mem_cons.mp hy with h | h
          · subst h; exact .refl _
          · have : ¬ (y ∈ rest ∧ ¬ Reach fanAdj rest t y) := by
              rw [← hmem y, hu]; simp
            have hr : Reach fanAdj rest t y := by
              cases Classical.em (Reach fanAdj rest t y) with
              | inl h' => exact h'
              | inr h' => exact absurd ⟨h, h'⟩ this
            exact hr.mono fun z hz => List.mem_cons_of_mem _ hz
        intro s hs u hu'
        rw [hF] at hs hu' ⊢
        -- symmetric on the universe: walk back from `s` to `t`, then on to `u`
        have hback : Reach fanAdj (t :: rest) s t := by
          have := hall s hs
          clear hu' hnot hmem
          induction this with
          | refl => exact .refl _
          | step hab hc hadj ih =>
            rename_i b c
            have hb : b ∈ t :: rest := by
              rcases hab.eq_or_mem with h | h
              · exact h ▸ List.mem_cons_self
              · exact h
            have ih' := ih hb
            exact Reach.trans (Reach.single hb (by rw [hsym c b hc hb]; exact hadj)) ih'
        exact Reach.trans hback (hall u hu')

end M3d.MeshDiag

namespace M3d.MeshDiag
open M3d.Surface

/-! ## breadth-first families (`ptrCoord.Clusters`) -/

theorem bfs_snd_sublist {α : Type} (adj : α → α → Bool) :
    ∀ (n : Nat) (q u : List α), List.Sublist (bfs adj n q u).2 u := by
  intro n
  induction n with
  | zero => intro q u; simp [bfs]
  | succ n ih =>
    intro q u
    cases q with
    | nil => simp [bfs]
    | cons x q =>
      simp only [bfs]
      exact (ih _ _).trans List.filter_sublist

theorem bfs_head_mem {α : Type} (adj : α → α → Bool) (n : Nat) (x : α) (q u : List α) :
    x ∈ (bfs adj (n + 1) (x :: q) u).1 := by
  simp [bfs]

/-- The families are a partition into pieces that are connected and mutually non-adjacent. -/
theorem families_spec {α : Type} (adj : α → α → Bool) :
    ∀ (n : Nat) (l : List α), l.length ≤ n → l.Nodup →
      (families adj n l).flatten.Perm l ∧
      (∀ F ∈ families adj n l, ∃ x ∈ F, ∀ y ∈ F, Reach adj l x y) ∧
      (families adj n l).Pairwise (fun F G => ∀ a ∈ F, ∀ b ∈ G, adj a b = false) := by
  intro n
  induction n with
  | zero =>
    intro l hl _
    have : l = [] := List.eq_nil_of_length_eq_zero (Nat.le_zero.mp hl)
    subst this
    simp [families]
  | succ n ih =>
    intro l hl hnd
    cases l with
    | nil => simp [families]
    | cons x rest =>
      simp only [families]
      have hperm := bfs_perm adj (rest.length + 1) [x] rest
      have hx1 := bfs_head_mem adj rest.length x [] rest
      have hsub := bfs_snd_sublist adj (rest.length + 1) [x] rest
      have hxr : x ∉ rest := (List.nodup_cons.mp hnd).1
      have hlen2 : (bfs adj (rest.length + 1) [x] rest).2.length ≤ n := by
        have h1 := hperm.length_eq
        have h2 : 0 < (bfs adj (rest.length + 1) [x] rest).1.length := List.length_pos_of_mem hx1
        simp at h1 hl; omega
      have hnd2 : (bfs adj (rest.length + 1) [x] rest).2.Nodup := (List.nodup_cons.mp hnd).2.sublist hsub
      obtain ⟨ih1, ih2, ih3⟩ := ih _ hlen2 hnd2
      have hspec := bfs_snd_spec adj (rest.length + 1) [x] rest (by simp; omega) (by simpa using hxr)
      refine ⟨?_, ?_, ?_⟩
      · rw [List.flatten_cons]
        exact (List.Perm.append_left _ ih1).trans (by simpa using hperm)
      · intro F hF
        rcases List.mem_cons.mp hF with h | h
        · subst h
          refine ⟨x, hx1, fun y hy => ?_⟩
          obtain ⟨a, ha, hr⟩ := bfs_fst_reach adj _ _ _ y hy
          have : a = x := by simpa using ha
          subst this
          exact hr.mono fun z hz => List.mem_cons_of_mem _ hz
        · obtain ⟨x', hx', hall⟩ := ih2 F h
          exact ⟨x', hx', fun y hy => (hall y hy).mono fun z hz => List.mem_cons_of_mem _ (hsub.subset hz)⟩
      · rw [List.pairwise_cons]
        refine ⟨fun G hG a ha b hb => ?_, ih3⟩
        have hb2 : b ∈ (bfs adj (rest.length + 1) [x] rest).2 :=
          ih1.subset (List.mem_flatten.mpr ⟨G, hG, hb⟩)
        obtain ⟨hbr, hno⟩ := (hspec b).mp hb2
        obtain ⟨a', ha', hr⟩ := bfs_fst_reach adj _ _ _ a ha
        have : a' = x := by simpa using ha'
        subst this
        cases hab : adj a b with
        | false => rfl
        | true => exact absurd ⟨a', List.mem_cons_self, .step hr hbr hab⟩ hno

/-! ## `removeAllConnected` -/

theorem sharesVert_symm (s t : Face) : sharesVert s t = sharesVert t s := by
  simp only [sharesVert, hasVert]
  rw [Bool.eq_iff_iff]
  simp only [List.any_eq_true, List.contains_iff_mem]
  constructor <;> rintro ⟨c, h1, h2⟩ <;> exact ⟨c, h2, h1⟩

/-- `removeAllConnected` splits the remaining faces into the faces connected (through shared
vertices) to a face at `c`, and the rest, with no vertex shared across the split. -/
theorem removeAllConnected_spec (rem : List Face) (c : Nat) :
    ((removeAllConnected rem c).1 ++ (removeAllConnected rem c).2).Perm rem ∧
    (∀ y ∈ (removeAllConnected rem c).1, ∃ a ∈ facesAt c rem, Reach sharesVert rem a y) ∧
    (∀ a ∈ (removeAllConnected rem c).1, ∀ b ∈ (removeAllConnected rem c).2, sharesVert a b = false) ∧
    (∀ b ∈ (removeAllConnected rem c).2, hasVert c b.2 = false) := by
  unfold removeAllConnected
  have hperm0 : (facesAt c rem ++ rem.filter fun f => !hasVert c f.2).Perm rem :=
    List.filter_append_perm (fun (f : Face) => hasVert c f.2) rem
  have hlen : (facesAt c rem).length + (rem.filter fun f => !hasVert c f.2).length ≤ rem.length + 1 := by
    have := hperm0.length_eq; simp at this; omega
  have hdisj : ∀ a ∈ facesAt c rem, a ∉ (rem.filter fun f => !hasVert c f.2) := by
    intro a ha hb
    have h1 := (List.mem_filter.mp ha).2
    have h2 := (List.mem_filter.mp hb).2
    simp only [h1] at h2; cases h2
  have hspec := bfs_snd_spec sharesVert _ _ _ hlen hdisj
  have hsubU : ∀ z ∈ (rem.filter fun f => !hasVert c f.2), z ∈ rem := fun z hz => (List.mem_filter.mp hz).1
  refine ⟨(bfs_perm _ _ _ _).trans hperm0, fun y hy => ?_, fun a ha b hb => ?_, fun b hb => ?_⟩
  · obtain ⟨a, ha, hr⟩ := bfs_fst_reach sharesVert _ _ _ y hy
    exact ⟨a, ha, hr.mono hsubU⟩
  · obtain ⟨hbu, hno⟩ := (hspec b).mp hb
    obtain ⟨a', ha', hr⟩ := bfs_fst_reach sharesVert _ _ _ a ha
    cases hab : sharesVert a b with
    | false => rfl
    | true => exact absurd ⟨a', ha', .step hr hbu hab⟩ hno
  · have := (List.mem_filter.mp ((hspec b).mp hb).1).2
    simpa using this

end M3d.MeshDiag

namespace M3d.MeshDiag
open M3d.Surface

/-! ## `SingularVertices` and `Clusters` agree -/

theorem Reach.congr {α : Type} {adj1 adj2 : α → α → Bool} {U : List α} {a b : α} (ha : a ∈ U)
    (h : ∀ x ∈ U, ∀ y ∈ U, adj1 x y = adj2 x y) (hr : Reach adj1 U a b) : Reach adj2 U a b := by
  induction hr with
  | refl => exact .refl _
  | step hab hc hadj ih =>
    rename_i b c
    have hb : b ∈ U := by
      rcases hab.eq_or_mem with h' | h'
      · exact h' ▸ ha
      · exact h'
    exact .step ih hc (by rw [← h b hb c hc]; exact hadj)

theorem adjAt_symm (p : Nat) (s t : Face) : adjAt p s t = adjAt p t s := by
  simp only [adjAt, hasVert]
  rw [Bool.eq_iff_iff]
  simp only [List.any_eq_true, Bool.and_eq_true, bne_iff_ne, ne_eq, List.contains_iff_mem]
  constructor <;> rintro ⟨c, h1, h2, h3⟩ <;> exact ⟨c, h3, h2, h1⟩

theorem families_nonempty {α : Type} (adj : α → α → Bool) :
    ∀ (n : Nat) (l : List α), ∀ F ∈ families adj n l, F ≠ [] := by
  intro n
  induction n with
  | zero => intro l F h; simp [families] at h
  | succ n ih =>
    intro l F h
    cases l with
    | nil => simp [families] at h
    | cons x rest =>
      simp only [families, List.mem_cons] at h
      rcases h with h | h
      · subst h
        exact List.ne_nil_of_mem (bfs_head_mem adj rest.length x [] rest)
      · exact ih _ F h

/-- The fan graph at `v` is connected iff `Clusters` finds at most one family there. -/
theorem fanGraphConnected_iff_clusters (ts : List Tri) (hd : NoDegenerate ts) (v : Nat) :
    FanGraphConnected ts v ↔ (clusters ts v).length ≤ 1 := by
  have hFnd : (facesAt v (enum ts)).Nodup := (enum_nodup ts).filter _
  have hnondeg : ∀ f ∈ facesAt v (enum ts), TriNondeg f.2 :=
    fun f hf => hd _ (mem_enum_snd (List.mem_filter.mp hf).1)
  have hat : ∀ f ∈ facesAt v (enum ts), hasVert v f.2 = true := fun f hf => (List.mem_filter.mp hf).2
  have hadj : ∀ x ∈ facesAt v (enum ts), ∀ y ∈ facesAt v (enum ts), fanAdj x y = adjAt v x y :=
    fun x hx y hy => fanAdj_eq_adjAt (hnondeg x hx) (hat x hx) (hat y hy)
  obtain ⟨hperm, hconn, hsep⟩ := families_spec (adjAt v) (facesAt v (enum ts)).length
    (facesAt v (enum ts)) (Nat.le_refl _) hFnd
  have hcl : clusters ts v = families (adjAt v) (facesAt v (enum ts)).length (facesAt v (enum ts)) := rfl
  rw [hcl]
  constructor
  · intro hfc
    cases hfam : families (adjAt v) (facesAt v (enum ts)).length (facesAt v (enum ts)) with
    | nil => simp
    | cons A rest =>
      cases rest with
      | nil => simp
      | cons B rest' =>
        exfalso
        rw [hfam] at hperm hconn hsep
        obtain ⟨x, hxA, _⟩ := hconn A List.mem_cons_self
        have hBne : B ≠ [] := families_nonempty (adjAt v) _ _ B (by rw [hfam]; simp)
        obtain ⟨b, hbB⟩ := List.exists_mem_of_ne_nil B hBne
        have hmemF : ∀ y, y ∈ facesAt v (enum ts) ↔ y ∈ (A :: B :: rest').flatten := fun y => hperm.mem_iff.symm
        have hxF : x ∈ facesAt v (enum ts) := (hmemF x).mpr (by simp [hxA])
        have hbF : b ∈ facesAt v (enum ts) := (hmemF b).mpr (by simp [hbB])
        -- everything reachable from x stays in A
        have hstay : ∀ y, Reach (adjAt v) (facesAt v (enum ts)) x y → y ∈ A := by
          intro y hr
          induction hr with
          | refl => exact hxA
          | step hab hc hadj' ih =>
            rename_i b' c
            have hcf := (hmemF c).mp hc
            rw [List.flatten_cons, List.mem_append] at hcf
            rcases hcf with h | h
            · exact h
            · obtain ⟨G, hG, hcG⟩ := List.mem_flatten.mp h
              have := (List.pairwise_cons.mp hsep).1 G hG b' ih c hcG
              rw [this] at hadj'; cases hadj'
        have hbA : b ∈ A := hstay b (Reach.congr hxF hadj (hfc x hxF b hbF))
        -- but b is in B as well: the flattened families are duplicate-free
        have hnd : (A :: B :: rest').flatten.Nodup := hperm.nodup_iff.mpr hFnd
        rw [List.flatten_cons, List.nodup_append] at hnd
        exact hnd.2.2 b hbA b (by simp [hbB]) rfl
  · intro hlen
    cases hfam : families (adjAt v) (facesAt v (enum ts)).length (facesAt v (enum ts)) with
    | nil =>
      rw [hfam] at hperm
      have : facesAt v (enum ts) = [] := by simpa using hperm.symm.eq_nil
      intro s hs; rw [this] at hs; cases hs
    | cons A rest =>
      rw [hfam] at hlen hperm hconn
      have : rest = [] := by
        cases rest with
        | nil => rfl
        | cons _ _ => simp at hlen
      subst this
      obtain ⟨x, hxA, hall⟩ := hconn A List.mem_cons_self
      have hmemF : ∀ y, y ∈ facesAt v (enum ts) ↔ y ∈ A := fun y => by
        rw [← hperm.mem_iff]; simp
      have hxF := (hmemF x).mpr hxA
      have hadj' : ∀ x ∈ facesAt v (enum ts), ∀ y ∈ facesAt v (enum ts), adjAt v x y = fanAdj x y :=
        fun x hx y hy => (hadj x hx y hy).symm
      intro s hs t ht
      have h1 := hall s ((hmemF s).mp hs)
      have h2 := hall t ((hmemF t).mp ht)
      exact Reach.congr hs hadj' (Reach.trans (Reach.symm (adjAt_symm v) hxF h1) h2)

end M3d.MeshDiag
