import M3d.Lemmas.CodecPly
import M3d.Lemmas.CodecStl
import M3d.Model.CodecSpec
/-!
# ASCII STL text written to the specification is read back (`stl_ascii_spec`)

Step lemmas for `stlAsciiLoop` on token lines (`facet normal …`, `outer loop`, `vertex …`, `endloop`,
`endfacet`, `endsolid`), one whole facet, all facets, and the file: sniffing (`stlIsAscii` on the first
512 bytes: the text is 7-bit and starts with `solid`), header line, loop.
-/
namespace M3d.Codec

/-- one iteration of the ASCII STL loop on a (non-empty) line made of tokens -/
theorem stlAsciiLoop_line (pf32 : Bytes → Option UInt32) (t0 : Bytes) (tl : List Bytes)
    (htok : ∀ t ∈ t0 :: tl, IsToken t)
    (rest : Bytes) (normal verts : List UInt32) (acc : List Rec) :
    stlAsciiLoop pf32 (line (t0 :: tl) ++ rest) normal verts acc =
        if t0 = tokEndsolid then .ok acc.reverse
        else if t0 = tokEndfacet then
          if verts.length = 9 then stlAsciiLoop pf32 rest [0, 0, 0] [] ((normal ++ verts) :: acc)
          else .error .bad
        else if t0 = tokFacet then
          if (t0 :: tl).length ≠ 5 then .error .bad
          else match stlParseVec pf32 (t0 :: tl) with
            | none => .error .bad
            | some n => stlAsciiLoop pf32 rest n verts acc
        else if t0 = tokVertex then
          if (t0 :: tl).length ≠ 4 then .error .bad
          else if verts.length = 9 then .error .bad
          else match stlParseVec pf32 (t0 :: tl) with
            | none => .error .bad
            | some v => stlAsciiLoop pf32 rest normal (verts ++ v) acc
        else stlAsciiLoop pf32 rest normal verts acc := by
  rw [stlAsciiLoop]
  simp only [readLine_line (t0 :: tl) htok rest, fields_line (t0 :: tl) htok]
  rfl

theorem isToken_kw :
    IsToken (ascii "solid") ∧ IsToken (ascii "m3d") ∧ IsToken tokFacet ∧ IsToken (ascii "normal") ∧
    IsToken (ascii "outer") ∧ IsToken (ascii "loop") ∧ IsToken tokVertex ∧ IsToken (ascii "endloop") ∧
    IsToken tokEndfacet ∧ IsToken tokEndsolid := by
  unfold IsToken
  decide

/-- the facet line -/
theorem stlLoop_facet (pf32 : Bytes → Option UInt32) (a b c : Bytes) (a' b' c' : UInt32)
    (ha : IsToken a) (hb : IsToken b) (hc : IsToken c)
    (pa : pf32 a = some a') (pb : pf32 b = some b') (pc : pf32 c = some c')
    (rest : Bytes) (normal verts : List UInt32) (acc : List Rec) :
    stlAsciiLoop pf32 (line [tokFacet, ascii "normal", a, b, c] ++ rest) normal verts acc =
      stlAsciiLoop pf32 rest [a', b', c'] verts acc := by
  obtain ⟨_, _, k3, k4, _⟩ := isToken_kw
  rw [stlAsciiLoop_line _ _ _ (by simp only [List.mem_cons, List.not_mem_nil, or_false, forall_eq_or_imp, forall_eq]; exact ⟨k3, k4, ha, hb, hc⟩)]
  have e1 : tokFacet ≠ tokEndsolid := by decide
  have e2 : tokFacet ≠ tokEndfacet := by decide
  rw [if_neg e1, if_neg e2, if_pos rfl]
  simp [stlParseVec, pa, pb, pc]

theorem stlLoop_vertex (pf32 : Bytes → Option UInt32) (a b c : Bytes) (a' b' c' : UInt32)
    (ha : IsToken a) (hb : IsToken b) (hc : IsToken c)
    (pa : pf32 a = some a') (pb : pf32 b = some b') (pc : pf32 c = some c')
    (rest : Bytes) (normal verts : List UInt32) (hv : verts.length ≠ 9) (acc : List Rec) :
    stlAsciiLoop pf32 (line [tokVertex, a, b, c] ++ rest) normal verts acc =
      stlAsciiLoop pf32 rest normal (verts ++ [a', b', c']) acc := by
  obtain ⟨_, _, _, _, _, _, k7, _⟩ := isToken_kw
  rw [stlAsciiLoop_line _ _ _ (by simp only [List.mem_cons, List.not_mem_nil, or_false, forall_eq_or_imp, forall_eq]; exact ⟨k7, ha, hb, hc⟩)]
  have e1 : tokVertex ≠ tokEndsolid := by decide
  have e2 : tokVertex ≠ tokEndfacet := by decide
  have e3 : tokVertex ≠ tokFacet := by decide
  rw [if_neg e1, if_neg e2, if_neg e3, if_pos rfl]
  simp [stlParseVec, pa, pb, pc, hv]

theorem stlLoop_skip (pf32 : Bytes → Option UInt32) (t0 : Bytes) (tl : List Bytes)
    (htok : ∀ t ∈ t0 :: tl, IsToken t)
    (e1 : t0 ≠ tokEndsolid) (e2 : t0 ≠ tokEndfacet) (e3 : t0 ≠ tokFacet) (e4 : t0 ≠ tokVertex)
    (rest : Bytes) (normal verts : List UInt32) (acc : List Rec) :
    stlAsciiLoop pf32 (line (t0 :: tl) ++ rest) normal verts acc = stlAsciiLoop pf32 rest normal verts acc := by
  rw [stlAsciiLoop_line _ _ _ htok, if_neg e1, if_neg e2, if_neg e3, if_neg e4]

theorem stlLoop_endfacet (pf32 : Bytes → Option UInt32) (rest : Bytes) (normal verts : List UInt32)
    (hv : verts.length = 9) (acc : List Rec) :
    stlAsciiLoop pf32 (line [tokEndfacet] ++ rest) normal verts acc =
      stlAsciiLoop pf32 rest [0, 0, 0] [] ((normal ++ verts) :: acc) := by
  obtain ⟨_, _, _, _, _, _, _, _, k9, _⟩ := isToken_kw
  rw [stlAsciiLoop_line _ _ _ (by simp only [List.mem_cons, List.not_mem_nil, or_false, forall_eq_or_imp, forall_eq]; exact k9)]
  have e1 : tokEndfacet ≠ tokEndsolid := by decide
  rw [if_neg e1, if_pos rfl, if_pos hv]

theorem stlLoop_endsolid (pf32 : Bytes → Option UInt32) (rest : Bytes) (normal verts : List UInt32)
    (acc : List Rec) :
    stlAsciiLoop pf32 (line [tokEndsolid, ascii "m3d"] ++ rest) normal verts acc = .ok acc.reverse := by
  obtain ⟨_, k2, _, _, _, _, _, _, _, k10⟩ := isToken_kw
  rw [stlAsciiLoop_line _ _ _ (by simp only [List.mem_cons, List.not_mem_nil, or_false, forall_eq_or_imp, forall_eq]; exact ⟨k10, k2⟩), if_pos rfl]

theorem list12 {α : Type} (r : List α) (h : r.length = 12) :
    ∃ a0 a1 a2 a3 a4 a5 a6 a7 a8 a9 a10 a11 : α, r = [a0, a1, a2, a3, a4, a5, a6, a7, a8, a9, a10, a11] := by
  rcases r with _ | ⟨a0, _ | ⟨a1, _ | ⟨a2, _ | ⟨a3, _ | ⟨a4, _ | ⟨a5, _ | ⟨a6, _ | ⟨a7, _ | ⟨a8, _ | ⟨a9, _ | ⟨a10, _ | ⟨a11, _ | ⟨x, l⟩⟩⟩⟩⟩⟩⟩⟩⟩⟩⟩⟩⟩ <;> simp at h
  exact ⟨a0, a1, a2, a3, a4, a5, a6, a7, a8, a9, a10, a11, rfl⟩

/-- a float32 word whose text (`fmt32`) is a 7-bit token that the number parser reads as `g w` -/
structure WordOK (fmt32 : Nat → Bytes) (pf32 : Bytes → Option UInt32) (g : UInt32 → UInt32) (w : UInt32) : Prop where
  tok : IsToken (fmt32 w.toNat)
  parse : pf32 (fmt32 w.toNat) = some (g w)
  seven : ∀ b ∈ fmt32 w.toNat, b ≠ 0 ∧ b ≤ 127

/-- one whole facet of spec text is consumed and yields one record -/
theorem stlLoop_facetText (fmt32 : Nat → Bytes) (pf32 : Bytes → Option UInt32) (g : UInt32 → UInt32)
    (r : Rec) (h12 : r.length = 12) (hw : ∀ w ∈ r, WordOK fmt32 pf32 g w) (rest : Bytes) (acc : List Rec) :
    stlAsciiLoop pf32 (stlAsciiFacet fmt32 r ++ rest) [0, 0, 0] [] acc =
      stlAsciiLoop pf32 rest [0, 0, 0] [] (r.map g :: acc) := by
  obtain ⟨a0, a1, a2, a3, a4, a5, a6, a7, a8, a9, a10, a11, rfl⟩ := list12 r h12
  simp only [List.mem_cons, List.not_mem_nil, or_false, forall_eq_or_imp, forall_eq] at hw
  obtain ⟨w0, w1, w2, w3, w4, w5, w6, w7, w8, w9, w10, w11⟩ := hw
  obtain ⟨_, _, _, _, k5, k6, _, k8, _, _⟩ := isToken_kw
  unfold stlAsciiFacet
  simp only [List.take, List.drop, List.map, List.append_assoc]
  rw [show ascii "facet" = tokFacet from rfl, show ascii "vertex" = tokVertex from rfl,
    show ascii "endfacet" = tokEndfacet from rfl]
  rw [stlLoop_facet pf32 _ _ _ _ _ _ w0.tok w1.tok w2.tok w0.parse w1.parse w2.parse]
  rw [stlLoop_skip pf32 (ascii "outer") [ascii "loop"]
    (by simp only [List.mem_cons, List.not_mem_nil, or_false, forall_eq_or_imp, forall_eq]; exact ⟨k5, k6⟩)
    (by decide) (by decide) (by decide) (by decide)]
  rw [stlLoop_vertex pf32 _ _ _ _ _ _ w3.tok w4.tok w5.tok w3.parse w4.parse w5.parse _ _ _ (by simp)]
  rw [stlLoop_vertex pf32 _ _ _ _ _ _ w6.tok w7.tok w8.tok w6.parse w7.parse w8.parse _ _ _ (by simp)]
  rw [stlLoop_vertex pf32 _ _ _ _ _ _ w9.tok w10.tok w11.tok w9.parse w10.parse w11.parse _ _ _ (by simp)]
  rw [stlLoop_skip pf32 (ascii "endloop") []
    (by simp only [List.mem_cons, List.not_mem_nil, or_false, forall_eq]; exact k8)
    (by decide) (by decide) (by decide) (by decide)]
  rw [stlLoop_endfacet pf32 _ _ _ (by simp)]
  simp

theorem stlAsciiLoop_facets (fmt32 : Nat → Bytes) (pf32 : Bytes → Option UInt32) (g : UInt32 → UInt32)
    (ts : List Rec) (h12 : ∀ t ∈ ts, t.length = 12) (hw : ∀ t ∈ ts, ∀ w ∈ t, WordOK fmt32 pf32 g w)
    (tail : Bytes) (acc : List Rec) :
    stlAsciiLoop pf32 (ts.flatMap (stlAsciiFacet fmt32) ++ (line [tokEndsolid, ascii "m3d"] ++ tail))
        [0, 0, 0] [] acc = .ok (acc.reverse ++ ts.map (·.map g)) := by
  induction ts generalizing acc with
  | nil => simp [stlLoop_endsolid]
  | cons t ts ih =>
    rw [List.flatMap_cons, List.append_assoc,
      stlLoop_facetText fmt32 pf32 g t (h12 t List.mem_cons_self) (hw t List.mem_cons_self),
      ih (fun t' ht' => h12 t' (List.mem_cons_of_mem _ ht')) (fun t' ht' => hw t' (List.mem_cons_of_mem _ ht'))]
    simp

theorem mem_joinWith (toks : List Bytes) (b : UInt8) (h : b ∈ joinWith [SP] toks) :
    b = SP ∨ ∃ t ∈ toks, b ∈ t := by
  induction toks with
  | nil => simp [joinWith] at h
  | cons t ts ih =>
    cases ts with
    | nil =>
      simp only [joinWith] at h
      exact Or.inr ⟨t, List.mem_cons_self, h⟩
    | cons t2 ts2 =>
      simp only [joinWith, List.mem_append, List.mem_singleton] at h
      rcases h with (h | h) | h
      · exact Or.inr ⟨t, List.mem_cons_self, h⟩
      · exact Or.inl h
      · rcases ih h with h1 | ⟨t', ht', hb⟩
        · exact Or.inl h1
        · exact Or.inr ⟨t', List.mem_cons_of_mem _ ht', hb⟩

theorem mem_line (toks : List Bytes) (b : UInt8) (h : b ∈ line toks) :
    b = SP ∨ b = NL ∨ ∃ t ∈ toks, b ∈ t := by
  unfold line at h
  simp only [List.mem_append, List.mem_singleton] at h
  rcases h with h | h
  · rcases mem_joinWith toks b h with h1 | h1
    · exact Or.inl h1
    · exact Or.inr (Or.inr h1)
  · exact Or.inr (Or.inl h)

def Seven (b : UInt8) : Prop := b ≠ 0 ∧ b ≤ 127

theorem seven_line (toks : List Bytes) (h : ∀ t ∈ toks, ∀ b ∈ t, Seven b) : ∀ b ∈ line toks, Seven b := by
  intro b hb
  rcases mem_line toks b hb with rfl | rfl | ⟨t, ht, hbt⟩
  · unfold Seven SP; decide
  · unfold Seven NL; decide
  · exact h t ht b hbt

theorem seven_kw : ∀ t ∈ [ascii "solid", ascii "m3d", ascii "facet", ascii "normal", ascii "outer",
    ascii "loop", ascii "vertex", ascii "endloop", ascii "endfacet", ascii "endsolid"], ∀ b ∈ t, Seven b := by
  unfold Seven
  decide

theorem seven_facet (fmt32 : Nat → Bytes) (pf32 : Bytes → Option UInt32) (g : UInt32 → UInt32)
    (r : Rec) (hw : ∀ w ∈ r, WordOK fmt32 pf32 g w) : ∀ b ∈ stlAsciiFacet fmt32 r, Seven b := by
  have kw : ∀ s ∈ ["solid", "m3d", "facet", "normal", "outer", "loop", "vertex", "endloop", "endfacet", "endsolid"],
      ∀ b ∈ ascii s, Seven b := by
    intro s hs
    apply seven_kw (ascii s)
    simp only [List.mem_cons, List.not_mem_nil, or_false] at hs ⊢
    rcases hs with rfl | rfl | rfl | rfl | rfl | rfl | rfl | rfl | rfl | rfl <;> simp
  have words : ∀ (l : List UInt32), (∀ w ∈ l, w ∈ r) →
      ∀ t ∈ l.map (fun w => fmt32 w.toNat), ∀ b ∈ t, Seven b := by
    intro l hl t ht b hb
    obtain ⟨w, hwl, rfl⟩ := List.mem_map.mp ht
    exact (hw w (hl w hwl)).seven b hb
  have sub1 : ∀ i, ∀ w ∈ (r.drop i).take 3, w ∈ r := fun i w h =>
    List.mem_of_mem_drop (List.mem_of_mem_take h)
  have sub0 : ∀ w ∈ r.take 3, w ∈ r := fun w h => List.mem_of_mem_take h
  intro b hb
  unfold stlAsciiFacet at hb
  simp only [List.mem_append] at hb
  have vline : ∀ i, b ∈ line (ascii "vertex" :: ((r.drop i).take 3).map fun w => fmt32 w.toNat) → Seven b := by
    intro i h
    refine seven_line _ ?_ b h
    intro t ht
    rcases List.mem_cons.mp ht with rfl | ht
    · exact kw "vertex" (by simp)
    · exact words _ (sub1 i) t ht
  rcases hb with (((((h | h) | h) | h) | h) | h) | h
  · refine seven_line _ ?_ b h
    intro t ht
    rcases List.mem_cons.mp ht with rfl | ht
    · exact kw "facet" (by simp)
    · rcases List.mem_cons.mp ht with rfl | ht
      · exact kw "normal" (by simp)
      · exact words _ sub0 t ht
  · refine seven_line _ ?_ b h
    intro t ht
    simp only [List.mem_cons, List.not_mem_nil, or_false] at ht
    rcases ht with rfl | rfl
    · exact kw "outer" (by simp)
    · exact kw "loop" (by simp)
  · exact vline 3 h
  · exact vline 6 h
  · exact vline 9 h
  · refine seven_line _ ?_ b h
    intro t ht
    simp only [List.mem_cons, List.not_mem_nil, or_false] at ht
    subst ht
    exact kw "endloop" (by simp)
  · refine seven_line _ ?_ b h
    intro t ht
    simp only [List.mem_cons, List.not_mem_nil, or_false] at ht
    subst ht
    exact kw "endfacet" (by simp)

/-- **ASCII STL written to the specification is read back** (`stl_ascii_spec`): for every list of
records whose number texts are 7-bit tokens that the number parser reads as `g w`, the reader —
`NewSTLReader`'s sniffing (the text is recognised as ASCII), the header line, and the
`ReadTriangle` loop until `endsolid` — returns exactly the records, in order, normal first, with every
number replaced by what the parser makes of its text. -/
theorem stlDecode_asciiSpec (fmt32 : Nat → Bytes) (pf32 : Bytes → Option UInt32) (g : UInt32 → UInt32)
    (ts : List Rec) (h12 : ∀ t ∈ ts, t.length = 12) (hw : ∀ t ∈ ts, ∀ w ∈ t, WordOK fmt32 pf32 g w) :
    stlDecode pf32 (stlAsciiSpec fmt32 ts) = .ok (ts.map (·.map g)) := by
  have hhead : line [ascii "solid", ascii "m3d"] = [115, 111, 108, 105, 100, 32, 109, 51, 100, 10] := by decide
  have hseven : ∀ b ∈ stlAsciiSpec fmt32 ts, Seven b := by
    intro b hb
    unfold stlAsciiSpec at hb
    simp only [List.mem_append, List.mem_flatMap] at hb
    rcases hb with (h | ⟨t, ht, h⟩) | h
    · refine seven_line _ ?_ b h
      intro t ht
      exact seven_kw t (by
        simp only [List.mem_cons, List.not_mem_nil, or_false] at ht ⊢
        rcases ht with rfl | rfl <;> simp)
    · exact seven_facet fmt32 pf32 g t (hw t ht) b h
    · refine seven_line _ ?_ b h
      intro t ht
      exact seven_kw t (by
        simp only [List.mem_cons, List.not_mem_nil, or_false] at ht ⊢
        rcases ht with rfl | rfl <;> simp)
  have hascii : stlIsAscii ((stlAsciiSpec fmt32 ts).take 512) = true := by
    have hall : ((stlAsciiSpec fmt32 ts).take 512).all (fun x => x != 0 && decide (x ≤ 127)) = true := by
      rw [List.all_eq_true]
      intro b hb
      have := hseven b (List.mem_of_mem_take hb)
      unfold Seven at this
      simp [this.1, this.2]
    unfold stlIsAscii
    rw [hall]
    unfold stlAsciiSpec
    rw [hhead]
    simp [solidBytes]
  unfold stlDecode
  have hne : (stlAsciiSpec fmt32 ts).isEmpty = false := by
    unfold stlAsciiSpec; rw [hhead]; rfl
  rw [hne, hascii]
  simp only [Bool.false_eq_true, if_false, if_true]
  have hk := isToken_kw
  have hhdr : stlAsciiHeader (stlAsciiSpec fmt32 ts) =
      .ok (ts.flatMap (stlAsciiFacet fmt32) ++ (line [tokEndsolid, ascii "m3d"] ++ [])) := by
    unfold stlAsciiHeader stlAsciiSpec
    rw [List.append_assoc, readLine_line _ (by
      simp only [List.mem_cons, List.not_mem_nil, or_false, forall_eq_or_imp, forall_eq]
      exact ⟨hk.1, hk.2.1⟩)]
    simp
    rfl
  rw [hhdr]
  simp only
  rw [stlAsciiLoop_facets fmt32 pf32 g ts h12 hw]
  simp
end M3d.Codec
