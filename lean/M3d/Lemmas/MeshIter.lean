import M3d.Model.MeshIter
import M3d.Lemmas.MeshQueries
/-! Lemmas about iterations whose callback mutates the mesh (`Model/MeshIter.lean`). Core-only. -/
namespace M3d.Mesh
open M3d.FastMap
set_option linter.unusedSectionVars false

section generic
variable {σ : Type} (vis : σ → Nat → Bool) (step : σ → Nat → σ)

theorem iterGen_cons (x : Nat) (rest : List Nat) (s : σ) (k : Nat) :
    iterGen vis step (x :: rest) s k =
      if vis s x then ((iterGen vis step rest (step s k) (k + 1)).1,
          x :: (iterGen vis step rest (step s k) (k + 1)).2)
      else iterGen vis step rest s k := by
  simp only [iterGen]

/-- Only snapshot elements are visited, in snapshot order, each position at most once. -/
theorem iterGen_sublist : ∀ (l : List Nat) (s : σ) (k : Nat),
    (iterGen vis step l s k).2.Sublist l := by
  intro l
  induction l with
  | nil => intro s k; simp [iterGen]
  | cons x rest ih =>
    intro s k
    rw [iterGen_cons]
    by_cases hv : vis s x = true
    · simp only [hv, if_true]
      exact (ih _ _).cons_cons x
    · simp only [hv]
      exact (ih _ _).cons x

theorem timeline_succ_right : ∀ (i : Nat) (s : σ) (k : Nat),
    timeline step s k (i + 1) = step (timeline step s k i) (k + i) := by
  intro i
  induction i with
  | zero => intro s k; simp [timeline]
  | succ i ih =>
    intro s k
    have := ih (step s k) (k + 1)
    simp only [timeline] at this ⊢
    rw [this]
    congr 1
    omega

theorem timeline_add : ∀ (i j : Nat) (s : σ) (k : Nat),
    timeline step s k (i + j) = timeline step (timeline step s k i) (k + i) j := by
  intro i
  induction i with
  | zero => intro j s k; simp [timeline]
  | succ i ih =>
    intro j s k
    have e : i + 1 + j = (i + j) + 1 := by omega
    rw [e]
    simp only [timeline]
    rw [ih j (step s k) (k + 1)]
    congr 1
    omega

/-- The final state is the state after as many callback invocations as there were visits. -/
theorem iterGen_final : ∀ (l : List Nat) (s : σ) (k : Nat),
    (iterGen vis step l s k).1 = timeline step s k (iterGen vis step l s k).2.length := by
  intro l
  induction l with
  | nil => intro s k; simp [iterGen, timeline]
  | cons x rest ih =>
    intro s k
    rw [iterGen_cons]
    by_cases hv : vis s x = true
    · simp only [hv, if_true, List.length_cons, timeline]
      exact ih _ _
    · simp only [hv]
      exact ih _ _

/-- Every visited element passed the re-check in the state at the moment of its visit. -/
theorem iterGen_visited : ∀ (l : List Nat) (s : σ) (k : Nat) (i : Nat)
    (hi : i < (iterGen vis step l s k).2.length),
    vis (timeline step s k i) ((iterGen vis step l s k).2[i]) = true := by
  intro l
  induction l with
  | nil => intro s k i hi; simp [iterGen] at hi
  | cons x rest ih =>
    intro s k i hi
    by_cases hv : vis s x = true
    · have e : iterGen vis step (x :: rest) s k =
          ((iterGen vis step rest (step s k) (k + 1)).1,
            x :: (iterGen vis step rest (step s k) (k + 1)).2) := by
        rw [iterGen_cons]; simp [hv]
      cases i with
      | zero => simp only [e, List.getElem_cons_zero, timeline]; exact hv
      | succ i =>
        have hi' : i < (iterGen vis step rest (step s k) (k + 1)).2.length := by
          rw [e] at hi; simpa using hi
        have := ih (step s k) (k + 1) i hi'
        simp only [e, List.getElem_cons_succ, timeline]
        exact this
    · have e : iterGen vis step (x :: rest) s k = iterGen vis step rest s k := by
        rw [iterGen_cons]; simp [hv]
      have hi' : i < (iterGen vis step rest s k).2.length := by rw [e] at hi; exact hi
      have := ih s k i hi'
      simp only [e]
      exact this

theorem iterGen_append : ∀ (l1 l2 : List Nat) (s : σ) (k : Nat),
    iterGen vis step (l1 ++ l2) s k =
      ((iterGen vis step l2 (iterGen vis step l1 s k).1
          (k + (iterGen vis step l1 s k).2.length)).1,
        (iterGen vis step l1 s k).2 ++
          (iterGen vis step l2 (iterGen vis step l1 s k).1
            (k + (iterGen vis step l1 s k).2.length)).2) := by
  intro l1
  induction l1 with
  | nil => intro l2 s k; simp [iterGen]
  | cons x rest ih =>
    intro l2 s k
    rw [List.cons_append, iterGen_cons, iterGen_cons]
    by_cases hv : vis s x = true
    · simp only [hv, if_true, List.length_cons]
      rw [ih l2 (step s k) (k + 1)]
      have e : k + 1 + (iterGen vis step rest (step s k) (k + 1)).2.length =
          k + ((iterGen vis step rest (step s k) (k + 1)).2.length + 1) := by omega
      rw [e]
      simp
    · simp only [hv]
      exact ih l2 s k

/-- **Exact characterisation**: the element at a snapshot position is visited iff it passes the
re-check in the state reached after the visits of the positions before it. -/
theorem iterGen_mem_iff (pre : List Nat) (x : Nat) (post : List Nat) (s : σ) (k : Nat)
    (hn : (pre ++ x :: post).Nodup) :
    x ∈ (iterGen vis step (pre ++ x :: post) s k).2 ↔
      vis (timeline step s k (iterGen vis step pre s k).2.length) x = true := by
  rw [iterGen_append, ← iterGen_final, iterGen_cons]
  have hxpre : x ∉ pre := by
    intro hx
    have := (List.nodup_append.1 hn).2.2 x hx x (by simp)
    exact this rfl
  have hxpost : x ∉ post := by
    have := (List.nodup_append.1 hn).2.1
    exact (List.nodup_cons.1 this).1
  have h1 : x ∉ (iterGen vis step pre s k).2 := fun hx => hxpre ((iterGen_sublist vis step pre s k).subset hx)
  by_cases hv : vis (iterGen vis step pre s k).1 x = true
  · simp [hv]
  · simp only [hv, List.mem_append, h1, false_or]
    constructor
    · intro hx
      exact absurd ((iterGen_sublist vis step post _ _).subset hx) hxpost
    · intro hx; exact absurd hx (by simp)

/-- The visits of a prefix of the snapshot are a prefix of the visits. -/
theorem iterGen_prefix (pre rest : List Nat) (s : σ) (k : Nat) :
    (iterGen vis step pre s k).2 <+: (iterGen vis step (pre ++ rest) s k).2 := by
  rw [iterGen_append]
  exact List.prefix_append _ _

/-- A snapshot element that is never visited failed the re-check at some moment of the loop. -/
theorem iterGen_skipped : ∀ (l : List Nat) (s : σ) (k : Nat) (x : Nat), x ∈ l →
    x ∉ (iterGen vis step l s k).2 →
    ∃ i, i ≤ (iterGen vis step l s k).2.length ∧ vis (timeline step s k i) x = false := by
  intro l
  induction l with
  | nil => intro s k x hx; simp at hx
  | cons y rest ih =>
    intro s k x hx hnv
    by_cases hv : vis s y = true
    · have e : iterGen vis step (y :: rest) s k =
          ((iterGen vis step rest (step s k) (k + 1)).1,
            y :: (iterGen vis step rest (step s k) (k + 1)).2) := by
        rw [iterGen_cons]; simp [hv]
      rw [e] at hnv
      simp only [List.mem_cons, not_or] at hnv
      have hx' : x ∈ rest := by
        rcases List.mem_cons.1 hx with hxy | hxr
        · exact absurd hxy hnv.1
        · exact hxr
      obtain ⟨i, hi, hvi⟩ := ih (step s k) (k + 1) x hx' hnv.2
      refine ⟨i + 1, ?_, ?_⟩
      · rw [e]; simpa using hi
      · simpa [timeline] using hvi
    · have e : iterGen vis step (y :: rest) s k = iterGen vis step rest s k := by
        rw [iterGen_cons]; simp [hv]
      rw [e] at hnv ⊢
      rcases List.mem_cons.1 hx with hxy | hxr
      · subst hxy
        exact ⟨0, Nat.zero_le _, by simpa [timeline] using hv⟩
      · exact ih s k x hxr hnv

/-- An invariant of the callback is an invariant of the loop. -/
theorem iterGen_inv (P : σ → Prop) (hstep : ∀ s k, P s → P (step s k)) :
    ∀ (l : List Nat) (s : σ) (k : Nat), P s → P (iterGen vis step l s k).1 := by
  intro l
  induction l with
  | nil => intro s k hp; simpa [iterGen] using hp
  | cons x rest ih =>
    intro s k hp
    rw [iterGen_cons]
    by_cases hv : vis s x = true
    · simp only [hv, if_true]; exact ih _ _ (hstep s k hp)
    · simp only [hv]; exact ih _ _ hp

/-- Two loops over related states visit the same elements. -/
theorem iterGen_sim {τ : Type} (R : σ → τ → Prop) (vis' : τ → Nat → Bool) (step' : τ → Nat → τ)
    (hv : ∀ s t x, R s t → vis s x = vis' t x)
    (hs : ∀ s t k, R s t → R (step s k) (step' t k)) :
    ∀ (l : List Nat) (s : σ) (t : τ) (k : Nat), R s t →
      R (iterGen vis step l s k).1 (iterGen vis' step' l t k).1 ∧
        (iterGen vis step l s k).2 = (iterGen vis' step' l t k).2 := by
  intro l
  induction l with
  | nil => intro s t k r; simpa [iterGen] using r
  | cons x rest ih =>
    intro s t k r
    rw [iterGen_cons, iterGen_cons, ← hv s t x r]
    by_cases hvx : vis s x = true
    · simp only [hvx, if_true]
      obtain ⟨h1, h2⟩ := ih (step s k) (step' t k) (k + 1) (hs s t k r)
      exact ⟨h1, by rw [h2]⟩
    · simp only [hvx]
      exact ih s t k r

theorem timeline_sim {τ : Type} (R : σ → τ → Prop) (step' : τ → Nat → τ)
    (hs : ∀ s t k, R s t → R (step s k) (step' t k)) :
    ∀ (i : Nat) (s : σ) (t : τ) (k : Nat), R s t → R (timeline step s k i) (timeline step' t k i) := by
  intro i
  induction i with
  | zero => intro s t k r; simpa [timeline] using r
  | succ i ih => intro s t k r; simp only [timeline]; exact ih _ _ _ (hs s t k r)

/-! ### The snapshot order rebuilt from an observed visit sequence explains it -/

/-- A run of elements that all fail the re-check is skipped. -/
theorem iterGen_skip_run : ∀ (l rest : List Nat) (s : σ) (k : Nat),
    (∀ x ∈ l, vis s x = false) →
    iterGen vis step (l ++ rest) s k = iterGen vis step rest s k := by
  intro l
  induction l with
  | nil => intro rest s k _; rfl
  | cons x l ih =>
    intro rest s k hl
    rw [List.cons_append, iterGen_cons]
    have hx : vis s x = false := hl x (by simp)
    simp only [hx]
    exact ih rest s k (fun y hy => hl y (List.mem_cons_of_mem _ hy))

theorem iterGen_explainAux (s0 : σ) (unvisited : List Nat) (slot : Nat → Nat) :
    ∀ (V : List Nat) (i : Nat),
      (∀ j (hj : j < V.length), vis (timeline step s0 0 (i + j)) V[j] = true) →
      (∀ x ∈ unvisited, i ≤ slot x → slot x ≤ i + V.length ∧
        vis (timeline step s0 0 (slot x)) x = false) →
      (iterGen vis step (explainAux unvisited slot i V) (timeline step s0 0 i) i).2 = V := by
  intro V
  induction V with
  | nil =>
    intro i _ hu
    have hall : ∀ x ∈ unvisited.filter (fun x => decide (i ≤ slot x)),
        vis (timeline step s0 0 i) x = false := by
      intro x hx
      simp only [List.mem_filter, decide_eq_true_eq] at hx
      obtain ⟨h1, h2⟩ := hu x hx.1 hx.2
      have e : slot x = i := by simp at h1; omega
      rw [← e]; exact h2
    have := iterGen_skip_run vis step _ [] (timeline step s0 0 i) i hall
    simp only [List.append_nil] at this
    simp only [explainAux, this, iterGen]
  | cons v vs ih =>
    intro i hv hu
    have hall : ∀ x ∈ unvisited.filter (fun x => slot x == i),
        vis (timeline step s0 0 i) x = false := by
      intro x hx
      simp only [List.mem_filter, beq_iff_eq] at hx
      obtain ⟨_, h2⟩ := hu x hx.1 (by omega)
      rw [← hx.2]; exact h2
    simp only [explainAux]
    rw [iterGen_skip_run vis step _ _ _ _ hall, iterGen_cons]
    have hv0 : vis (timeline step s0 0 i) v = true := by
      have := hv 0 (by simp)
      simpa using this
    simp only [hv0, if_true]
    have hT : step (timeline step s0 0 i) i = timeline step s0 0 (i + 1) := by
      rw [timeline_succ_right]; simp
    rw [hT]
    congr 1
    apply ih (i + 1)
    · intro j hj
      have := hv (j + 1) (by simp; omega)
      simp only [List.getElem_cons_succ] at this
      have e : i + 1 + j = i + (j + 1) := by omega
      rw [e]; exact this
    · intro x hx hle
      obtain ⟨h1, h2⟩ := hu x hx (by omega)
      refine ⟨?_, h2⟩
      simp only [List.length_cons] at h1
      omega

theorem firstSkip_spec (s : σ) (n x : Nat)
    (hex : ∃ i, i ≤ n ∧ vis (timeline step s 0 i) x = false) :
    firstSkip vis step s n x ≤ n ∧
      vis (timeline step s 0 (firstSkip vis step s n x)) x = false := by
  unfold firstSkip
  cases hf : (List.range (n + 1)).find? (fun i => !(vis (timeline step s 0 i) x)) with
  | none =>
    obtain ⟨i, hi, hvi⟩ := hex
    have := List.find?_eq_none.1 hf i (List.mem_range.2 (by omega))
    simp [hvi] at this
  | some i =>
    have h1 := List.find?_some hf
    have h2 := List.mem_range.1 (List.mem_of_find?_eq_some hf)
    simp only [Option.getD_some]
    exact ⟨by omega, by simpa using h1⟩

/-- **No false alarm of the oracle construction**: if the observed visit sequence `V` is what the
loop produces for SOME snapshot order `snap` (without repetition) of the elements `univ`, then the
loop run on the rebuilt order `explainSnap … univ V` produces exactly `V` again. -/
theorem explainSnap_explains (s : σ) (snap univ : List Nat)
    (hu : ∀ x, x ∈ univ → x ∈ snap) :
    (iterGen vis step (explainSnap vis step s univ (iterGen vis step snap s 0).2) s 0).2 =
      (iterGen vis step snap s 0).2 := by
  unfold explainSnap
  have := iterGen_explainAux vis step s
    (univ.filter fun x => !((iterGen vis step snap s 0).2.contains x))
    (firstSkip vis step s (iterGen vis step snap s 0).2.length)
    (iterGen vis step snap s 0).2 0
    (fun j hj => by
      have := iterGen_visited vis step snap s 0 j hj
      simpa using this)
    (fun x hx _ => by
      simp only [List.mem_filter, Bool.not_eq_true', List.contains_eq_mem,
        decide_eq_false_iff_not] at hx
      have := firstSkip_spec vis step s (iterGen vis step snap s 0).2.length x
        (iterGen_skipped vis step snap s 0 x (hu x hx.1) hx.2)
      exact ⟨by omega, this.2⟩)
  simpa [timeline] using this

theorem explainAux_perm (unvisited : List Nat) (slot : Nat → Nat) : ∀ (V : List Nat) (i : Nat),
    (explainAux unvisited slot i V).Perm
      ((unvisited.filter fun x => decide (i ≤ slot x)) ++ V) := by
  intro V
  induction V with
  | nil => intro i; simp [explainAux]
  | cons v vs ih =>
    intro i
    simp only [explainAux]
    have hsplit : (unvisited.filter fun x => decide (i ≤ slot x)).Perm
        ((unvisited.filter fun x => slot x == i) ++
          (unvisited.filter fun x => decide (i + 1 ≤ slot x))) := by
      have h := (List.filter_append_perm (fun x => slot x == i)
        (unvisited.filter fun x => decide (i ≤ slot x))).symm
      rw [List.filter_filter, List.filter_filter] at h
      have e1 : (unvisited.filter fun x => (slot x == i) && decide (i ≤ slot x)) =
          unvisited.filter fun x => slot x == i := by
        apply List.filter_congr
        intro x _
        by_cases e : slot x = i <;> simp [e]
      have e2 : (unvisited.filter fun x => (!(slot x == i)) && decide (i ≤ slot x)) =
          unvisited.filter fun x => decide (i + 1 ≤ slot x) := by
        apply List.filter_congr
        intro x _
        by_cases e : slot x = i
        · simp [e]
        · by_cases e' : i ≤ slot x
          · have : i + 1 ≤ slot x := by omega
            simp [e, e', this]
          · have : ¬ (i + 1 ≤ slot x) := by omega
            simp [e', this]
      rw [e1, e2] at h
      exact h
    refine ((List.Perm.refl _).append ((ih (i + 1)).cons v)).trans ?_
    refine List.Perm.trans ?_ ((hsplit.symm).append (List.Perm.refl (v :: vs)))
    rw [List.append_assoc]
    refine (List.Perm.refl _).append ?_
    exact (List.perm_middle (l₁ := unvisited.filter fun x => decide (i + 1 ≤ slot x))).symm

/-- The rebuilt order is a snapshot order: a permutation of the elements. -/
theorem explainSnap_perm (s : σ) (univ V : List Nat) (hu : univ.Nodup) (hv : V.Nodup)
    (hsub : ∀ x ∈ V, x ∈ univ) : (explainSnap vis step s univ V).Perm univ := by
  unfold explainSnap
  refine (explainAux_perm _ _ V 0).trans ?_
  have e0 : ((univ.filter fun x => !(V.contains x)).filter fun x =>
      decide (0 ≤ firstSkip vis step s V.length x)) = univ.filter fun x => !(V.contains x) := by
    apply List.filter_eq_self.2
    intro a _; simp
  rw [e0]
  have hV : V.Perm (univ.filter fun x => V.contains x) := by
    rw [List.perm_ext_iff_of_nodup hv (hu.filter _)]
    intro a
    simp only [List.mem_filter, List.contains_eq_mem, decide_eq_true_eq]
    exact ⟨fun h => ⟨hsub a h, h⟩, fun h => h.2⟩
  refine ((List.Perm.refl _).append hV).trans ?_
  refine List.perm_append_comm.trans ?_
  exact List.filter_append_perm (fun x => V.contains x) univ

end generic

/-! ### The mesh instance -/
variable (h : Nat → UInt64) (tri : Nat → Tri)

theorem add_faces (m : Mesh) (f : Nat) :
    (m.add h tri f).faces = if f ∈ m.faces then m.faces else m.faces ++ [f] := by
  unfold Mesh.add
  cases m.index with
  | none => by_cases hf : f ∈ m.faces <;> simp [hf]
  | some ix => by_cases hf : f ∈ m.faces <;> simp [hf]

theorem remove_faces (m : Mesh) (f : Nat) :
    (m.remove h tri f).faces = m.faces.filter (· ≠ f) := by
  unfold Mesh.remove
  by_cases hf : f ∈ m.faces
  · simp [hf]
  · simp only [hf, if_false]
    symm
    apply List.filter_eq_self.2
    intro a ha
    simp only [ne_eq, decide_eq_true_eq]
    intro e; subst e; exact hf ha

/-- The face set after a callback invocation does not depend on the index. -/
theorem applyActs_faces : ∀ (acts : List IterAct) (m : Mesh),
    (applyActs h tri m acts).faces = specActs m.faces acts := by
  intro acts
  induction acts with
  | nil => intro m; rfl
  | cons a acts ih =>
    intro m
    unfold applyActs specActs
    simp only [List.foldl_cons]
    cases a with
    | add f =>
      have := ih (m.add h tri f)
      unfold applyActs specActs at this
      rw [this, add_faces]
    | rem f =>
      have := ih (m.remove h tri f)
      unfold applyActs specActs at this
      rw [this, remove_faces]

theorem applyActs_coherent : ∀ (acts : List IterAct) (m : Mesh), Coherent h tri m →
    Coherent h tri (applyActs h tri m acts) := by
  intro acts
  induction acts with
  | nil => intro m c; exact c
  | cons a acts ih =>
    intro m c
    unfold applyActs
    simp only [List.foldl_cons]
    cases a with
    | add f => exact ih _ (coherent_add h tri c f)
    | rem f => exact ih _ (coherent_remove h tri c f)

theorem add_index_isSome (m : Mesh) (f : Nat) : (m.add h tri f).index.isSome = m.index.isSome := by
  unfold Mesh.add
  cases hi : m.index with
  | none => by_cases hf : f ∈ m.faces <;> simp [hf, hi]
  | some ix => by_cases hf : f ∈ m.faces <;> simp [hf, hi]

theorem remove_index_isSome (m : Mesh) (f : Nat) :
    (m.remove h tri f).index.isSome = m.index.isSome := by
  unfold Mesh.remove
  by_cases hf : f ∈ m.faces
  · cases hi : m.index <;> simp [hf]
  · simp [hf]

theorem applyActs_index_isSome : ∀ (acts : List IterAct) (m : Mesh),
    (applyActs h tri m acts).index.isSome = m.index.isSome := by
  intro acts
  induction acts with
  | nil => intro m; rfl
  | cons a acts ih =>
    intro m
    unfold applyActs
    simp only [List.foldl_cons]
    cases a with
    | add f =>
      have := ih (m.add h tri f)
      unfold applyActs at this
      rw [this, add_index_isSome]
    | rem f =>
      have := ih (m.remove h tri f)
      unfold applyActs at this
      rw [this, remove_index_isSome]

/-- The mutating face iteration visits what the plain set of faces would visit and leaves the face
set the plain set would have. -/
theorem iterate_eq_spec (script : Nat → List IterAct) (snap : List Nat) (m : Mesh) :
    (m.iterate h tri script snap).1.faces = (specIterate script snap m.faces).1 ∧
      (m.iterate h tri script snap).2 = (specIterate script snap m.faces).2 := by
  unfold Mesh.iterate specIterate
  exact iterGen_sim _ _ (fun (m : Mesh) (fs : List Nat) => m.faces = fs) _ _
    (fun s t x r => by have r' : s.faces = t := r; subst r'; rfl)
    (fun s t k r => by have r' : s.faces = t := r; subst r'; exact applyActs_faces h tri _ _)
    snap m m.faces 0 rfl

theorem iterate_coherent (script : Nat → List IterAct) (snap : List Nat) {m : Mesh}
    (c : Coherent h tri m) : Coherent h tri (m.iterate h tri script snap).1 := by
  unfold Mesh.iterate
  exact iterGen_inv _ _ (Coherent h tri) (fun s k cs => applyActs_coherent h tri _ _ cs) snap m 0 c

/-- On a coherent mesh with a built index, the re-check of `IterateVertices` says whether the
vertex is a corner of a current face. -/
theorem hasVertex_iff {m : Mesh} (c : Coherent h tri m) (hix : m.index.isSome) (p : Nat) :
    m.hasVertex h p = decide (p ∈ specVertices tri m.faces) := by
  unfold Mesh.hasVertex
  cases hi : m.index with
  | none => simp [hi] at hix
  | some ix =>
    have ok := c.2 ix hi
    have hk := mem_keys_iff ok.1 p
    have hw : (m.withIndex h tri) = (m, ix) := by unfold Mesh.withIndex; simp [hi]
    have hv := (vertexSlice_spec h tri c).2 p
    unfold Mesh.vertexSlice at hv
    simp only [hw] at hv
    simp only
    rw [Bool.eq_iff_iff, decide_eq_true_iff, ← hv, hk]

theorem iterateVerts_eq_spec (script : Nat → List IterAct) (snap : List Nat) {m : Mesh}
    (c : Coherent h tri m) :
    (m.iterateVerts h tri script snap).1.faces = (specIterateVerts tri script snap m.faces).1 ∧
      (m.iterateVerts h tri script snap).2 = (specIterateVerts tri script snap m.faces).2 ∧
      Coherent h tri (m.iterateVerts h tri script snap).1 := by
  obtain ⟨cw, fw, _⟩ := coherent_withIndex h tri c
  have hsome : (m.withIndex h tri).1.index.isSome := by
    unfold Mesh.withIndex
    cases hi : m.index <;> simp [hi]
  unfold Mesh.iterateVerts specIterateVerts
  have := iterGen_sim (fun (m : Mesh) p => m.hasVertex h p)
    (fun m k => applyActs h tri m (script k))
    (fun (m : Mesh) (fs : List Nat) => (Coherent h tri m ∧ m.index.isSome) ∧ m.faces = fs)
    (fun fs p => decide (p ∈ specVertices tri fs)) (fun fs k => specActs fs (script k))
    (fun s t x r => by
      obtain ⟨⟨c1, c2⟩, c3⟩ := r
      subst c3
      exact hasVertex_iff h tri c1 c2 x)
    (fun s t k r => by
      obtain ⟨⟨c1, c2⟩, c3⟩ := r
      subst c3
      refine ⟨⟨applyActs_coherent h tri _ _ c1, ?_⟩, applyActs_faces h tri _ _⟩
      rw [applyActs_index_isSome]; exact c2)
    snap (m.withIndex h tri).1 m.faces 0 ⟨⟨cw, hsome⟩, fw⟩
  exact ⟨this.1.2, this.2, this.1.1.1⟩

/-- The sorted snapshot is the current face set, in comparator order. -/
theorem sortedSnap_perm {ord faces : List Nat} (ho : ord.Nodup) (hf : faces.Nodup)
    (hsub : ∀ f ∈ faces, f ∈ ord) : (sortedSnap ord faces).Perm faces ∧
      (sortedSnap ord faces).Sublist ord := by
  unfold sortedSnap
  refine ⟨?_, List.filter_sublist⟩
  rw [List.perm_ext_iff_of_nodup (ho.filter _) hf]
  intro a
  simp only [List.mem_filter, decide_eq_true_eq]
  exact ⟨fun x => x.2, fun x => ⟨hsub a x, x⟩⟩

end M3d.Mesh
