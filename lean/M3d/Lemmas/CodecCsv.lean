import M3d.Lemmas.CodecPly
import M3d.Model.CodecMesh
/-! Segment CSV round trip (`SegmentCSVWriter.Write` → `DecodeCSV`). -/
namespace M3d.Codec

/-- what the round trip needs from `FormatFloat(x,'G',-1,64)` / `ParseFloat(·,64)` -/
structure CsvTextOK (fmtG : UInt64 → Bytes) (pf : Bytes → Option UInt64) : Prop where
  parse : ∀ x, pf (fmtG x) = some x
  clean : ∀ x, fmtG x ≠ [] ∧ ∀ b ∈ fmtG x, b ≠ COMMA ∧ b ≠ QUOTE ∧ b ≠ NL ∧ b ≠ CR

theorem splitOnByte_ne_nil (sep : UInt8) (bs : Bytes) : splitOnByte sep bs ≠ [] := by
  induction bs with
  | nil => simp [splitOnByte]
  | cons b bs ih =>
    unfold splitOnByte
    cases h : splitOnByte sep bs with
    | nil => simp
    | cons f fs => simp only; split <;> simp

theorem splitOnByte_field (sep : UInt8) (f tail : Bytes) (h : ∀ b ∈ f, b ≠ sep) :
    splitOnByte sep (f ++ sep :: tail) = f :: splitOnByte sep tail := by
  induction f with
  | nil =>
    simp only [List.nil_append, splitOnByte]
    cases h2 : splitOnByte sep tail with
    | nil => exact absurd h2 (splitOnByte_ne_nil sep tail)
    | cons g gs => simp
  | cons b f ih =>
    have hb : b ≠ sep := h b List.mem_cons_self
    simp only [List.cons_append, splitOnByte]
    rw [ih (fun x hx => h x (List.mem_cons_of_mem _ hx))]
    simp [hb]

theorem splitOnByte_single (sep : UInt8) (f : Bytes) (h : ∀ b ∈ f, b ≠ sep) : splitOnByte sep f = [f] := by
  induction f with
  | nil => rfl
  | cons b f ih =>
    have hb : b ≠ sep := h b List.mem_cons_self
    simp only [splitOnByte]
    rw [ih (fun x hx => h x (List.mem_cons_of_mem _ hx))]
    simp [hb]

theorem splitOnByte_join (sep : UInt8) (fs : List Bytes) (hne : fs ≠ []) (h : ∀ f ∈ fs, ∀ b ∈ f, b ≠ sep) :
    splitOnByte sep (joinWith [sep] fs) = fs := by
  induction fs with
  | nil => exact absurd rfl hne
  | cons f fs ih =>
    cases fs with
    | nil => simpa [joinWith] using splitOnByte_single sep f (h f List.mem_cons_self)
    | cons g gs =>
      rw [joinWith_cons2]
      simp only [List.append_assoc, List.cons_append, List.nil_append]
      rw [splitOnByte_field sep f _ (h f List.mem_cons_self),
        ih (by simp) (fun x hx => h x (List.mem_cons_of_mem _ hx))]

theorem joinWith_mem (sep : UInt8) (fs : List Bytes) : ∀ b ∈ joinWith [sep] fs, b = sep ∨ ∃ f ∈ fs, b ∈ f := by
  induction fs with
  | nil => simp [joinWith]
  | cons f fs ih =>
    cases fs with
    | nil => intro b hb; exact Or.inr ⟨f, List.mem_cons_self, by simpa [joinWith] using hb⟩
    | cons g gs =>
      intro b hb
      rw [joinWith_cons2] at hb
      simp only [List.append_assoc, List.mem_append, List.mem_singleton] at hb
      rcases hb with hb | hb | hb
      · exact Or.inr ⟨f, List.mem_cons_self, hb⟩
      · exact Or.inl hb
      · rcases ih b hb with h | ⟨x, hx, hbx⟩
        · exact Or.inl h
        · exact Or.inr ⟨x, List.mem_cons_of_mem _ hx, hbx⟩

theorem joinWith_ne_nil (sep : UInt8) (fs : List Bytes) (h : ∃ f ∈ fs, f ≠ []) (hall : ∀ f ∈ fs, f ≠ []) :
    joinWith [sep] fs ≠ [] := by
  cases fs with
  | nil => obtain ⟨f, hf, _⟩ := h; simp at hf
  | cons f fs =>
    have hf := hall f List.mem_cons_self
    cases fs with
    | nil => simpa [joinWith] using hf
    | cons g gs => rw [joinWith_cons2]; simp [hf]

theorem mapM_fmt {fmtG : UInt64 → Bytes} {pf : Bytes → Option UInt64} (hok : CsvTextOK fmtG pf)
    (seg : List UInt64) : (seg.map fmtG).mapM pf = some seg := by
  induction seg with
  | nil => rfl
  | cons x xs ihx =>
    simp only [List.map_cons, List.mapM_cons, hok.parse x, ihx]
    rfl

/-- **CSV round trip**: `DecodeCSV` of what `SegmentCSVWriter` wrote returns the segments in order. -/
theorem csvDecodeAux_encode {fmtG : UInt64 → Bytes} {pf : Bytes → Option UInt64} (hok : CsvTextOK fmtG pf)
    (segs : List (List UInt64)) (h4 : ∀ s ∈ segs, s.length = 4) (acc : List (List UInt64)) :
    csvDecodeAux pf (csvEncode fmtG segs) acc = .ok (acc.reverse ++ segs) := by
  induction segs generalizing acc with
  | nil =>
    unfold csvDecodeAux csvEncode
    simp
  | cons seg segs ih =>
    have hlen := h4 seg List.mem_cons_self
    have hfields : ∀ f ∈ seg.map fmtG, f ≠ [] ∧ ∀ b ∈ f, b ≠ COMMA ∧ b ≠ QUOTE ∧ b ≠ NL ∧ b ≠ CR := by
      intro f hf
      obtain ⟨x, _, rfl⟩ := List.mem_map.mp hf
      exact hok.clean x
    have hne : seg.map fmtG ≠ [] := by
      intro h; have := congrArg List.length h; simp [hlen] at this
    obtain ⟨joined, hj⟩ : ∃ j, j = joinWith [COMMA] (seg.map fmtG) := ⟨_, rfl⟩
    have hjmem : ∀ b ∈ joined, b ≠ NL ∧ b ≠ CR ∧ b ≠ QUOTE := by
      intro b hb
      rcases joinWith_mem COMMA _ b (hj ▸ hb) with rfl | ⟨f, hf, hbf⟩
      · decide
      · have := (hfields f hf).2 b hbf
        exact ⟨this.2.2.1, this.2.2.2, this.2.1⟩
    have hjne : joined ≠ [] := by
      rw [hj]
      apply joinWith_ne_nil
      · cases hs : seg.map fmtG with
        | nil => exact absurd hs hne
        | cons f fs => exact ⟨f, List.mem_cons_self, (hfields f (by rw [hs]; exact List.mem_cons_self)).1⟩
      · exact fun f hf => (hfields f hf).1
    have henc : csvEncode fmtG (seg :: segs) = joined ++ NL :: csvEncode fmtG segs := by
      simp [csvEncode, csvEncodeRow, hj]
    have hrl := readLine_noNL joined (csvEncode fmtG segs) (fun b hb => (hjmem b hb).1)
    have hdrop : dropLastIf CR joined = joined := by
      unfold dropLastIf
      split
      · next hlast =>
        have := List.mem_of_getLast? hlast
        exact absurd rfl (hjmem CR this).2.1
      · rfl
    have hsplit : splitOnByte COMMA joined = seg.map fmtG := by
      rw [hj]
      exact splitOnByte_join COMMA _ hne (fun f hf b hb => ((hfields f hf).2 b hb).1)
    have hq1 : (seg.map fmtG).any (fun f => f.head? = some QUOTE) = false := by
      rw [List.any_eq_false]
      intro f hf hh
      simp only [decide_eq_true_eq] at hh
      have : QUOTE ∈ f := List.mem_of_head? hh
      exact ((hfields f hf).2 QUOTE this).2.1 rfl
    have hq2 : (seg.map fmtG).any (fun f => f.contains QUOTE) = false := by
      rw [List.any_eq_false]
      intro f hf hh
      have : QUOTE ∈ f := by simpa using hh
      exact ((hfields f hf).2 QUOTE this).2.1 rfl
    have hmap : (seg.map fmtG).mapM pf = some seg := mapM_fmt hok seg
    rw [henc]
    unfold csvDecodeAux
    have hnn : joined ++ NL :: csvEncode fmtG segs ≠ [] := by simp
    simp only [hnn, dite_false, hrl, if_true, List.dropLast_concat, hdrop]
    have hemp : joined.isEmpty = false := by
      cases hjj : joined with
      | nil => exact absurd hjj hjne
      | cons _ _ => rfl
    simp only [hemp, Bool.false_eq_true, if_false, hsplit, hq1, hq2, List.length_map, hlen, ne_eq,
      not_true_eq_false, hmap]
    rw [ih (fun s hs => h4 s (List.mem_cons_of_mem _ hs))]
    simp

theorem csvDecode_encode {fmtG : UInt64 → Bytes} {pf : Bytes → Option UInt64} (hok : CsvTextOK fmtG pf)
    (segs : List (List UInt64)) (h4 : ∀ s ∈ segs, s.length = 4) :
    csvDecode pf (csvEncode fmtG segs) = .ok segs := by
  unfold csvDecode
  rw [csvDecodeAux_encode hok segs h4 []]
  simp

end M3d.Codec
