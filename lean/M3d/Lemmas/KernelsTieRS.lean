import M3d.Gen.Kernels
import M3d.Model.RenderSampling
import Mathlib.Tactic.Ring
import Mathlib.Tactic.SplitIfs
import Mathlib.Tactic.Tauto
import Mathlib.Tactic.Order
import Mathlib.Algebra.Order.Field.Basic
/-!
# Tie between the REGENERATED kernels and the material models of C19 (`M3d/Model/RenderSampling.lean`)

`RefractMaterial.refract / refractInverse / refractBSDF / reflectBSDF / BSDF / SourceDensity / DestDensity`,
`maximumCosine`, `LambertMaterial.SourceDensity / BSDF`, `HGMaterial.numericalG`, `densityAroundUniform` and
`RefractMaterial.reflectAmount` as `render3d/material.go` defines them NOW (`M3d/Gen/Kernels.lean`) are the
model functions the C19 theorems are about, for every linear ordered field, every square root, with the
constants of `Consts` the doubles Go's constant folding produces (`cosineEpsilon`, `1 - cosineEpsilon`,
`2 / cosineEpsilon`, `1e-5`, `1 - 1e-5`) and `math.Pow(x, 5)` the model's `pow5`.
-/
namespace M3d.KernelsTie.RS
open M3d.RS M3d.Gen.Kernels
set_option linter.unusedSectionVars false
set_option linter.unusedVariables false
set_option linter.unusedSimpArgs false
set_option linter.unusedTactic false
set_option linter.unreachableTactic false

variable {K : Type} [Field K] [LinearOrder K] [IsStrictOrderedRing K] [RS.HasSqrt K] [GenPrelude.HasLibm K]

@[reducible] def gsq : GenPrelude.HasSqrt K := ⟨RS.HasSqrt.sqrt⟩
attribute [local instance] gsq

@[reducible] def g3 (a : V3 K) : model3d.Coord3D K := ⟨a.x, a.y, a.z⟩
-- conditions are rewritten from the generated vocabulary to the model's; the `Decidable` instances inside
-- `ite`/`decide` keep mentioning the generated terms, so those must unfold at reducible transparency

/-- The constants of the source as Go folds them. -/
structure ConstsOk (k : Consts K) : Prop where
  eps : k.eps = (3022314549036573 : K) / (302231454903657293676544 : K)
  oneMinusEps : k.oneMinusEps = (9007199164668999 : K) / (9007199254740992 : K)
  twoOverEps : k.twoOverEps = (200000000 : K)
  hgEps : k.hgEps = (1.0e-5 : K)
  hgMax : k.hgMax = (9007109182748445 : K) / (9007199254740992 : K)

theorem absS_eq (x : K) : GenPrelude.absS x = RS.absS x := by
  unfold GenPrelude.absS RS.absS
  rcases lt_trichotomy x 0 with h | h | h
  · simp [h, lt_asymm h]
  · simp [h]
  · simp [h, lt_asymm h]
theorem mx_eq (a b : K) : GenPrelude.mx a b = maxS a b := by
  unfold GenPrelude.mx maxS
  rcases lt_trichotomy a b with h | h | h
  · simp [h, lt_asymm h]
  · simp [h]
  · simp [h, lt_asymm h]
theorem mn_eq (a b : K) : GenPrelude.mn a b = minS a b := by
  unfold GenPrelude.mn minS
  rcases lt_trichotomy a b with h | h | h
  · simp [h, lt_asymm h]
  · simp [h]
  · simp [h, lt_asymm h]

theorem add_eq (a b : V3 K) : model3d.Coord3D_Add (g3 a) (g3 b) = g3 (a.add b) := rfl
theorem scale_eq (a : V3 K) (s : K) : model3d.Coord3D_Scale (g3 a) s = g3 (a.scale s) := rfl
theorem dot_eq (a b : V3 K) : model3d.Coord3D_Dot (g3 a) (g3 b) = a.dot b := rfl
theorem norm_eq (a : V3 K) : model3d.Coord3D_Norm (g3 a) = a.norm := rfl
theorem normalize_eq (a : V3 K) : model3d.Coord3D_Normalize (g3 a) = g3 a.normalize := rfl
theorem scale_neg_one (a : V3 K) : a.scale (-1) = a.neg := by
  simp [V3.scale, V3.neg]
theorem neg_eq (a : V3 K) : model3d.Coord3D_Scale (g3 a) (-(1 : K)) = g3 a.neg := by
  simp [model3d.Coord3D_Scale, V3.neg]
theorem sub_eq (a b : V3 K) : model3d.Coord3D_Sub (g3 a) (g3 b) = g3 (a.sub b) := by
  cases a; cases b
  simp [model3d.Coord3D_Sub, model3d.Coord3D_Add, model3d.Coord3D_Scale, V3.sub]
  try (refine ⟨?_, ?_, ?_⟩ <;> ring)
theorem projectOut_eq (a b : V3 K) : model3d.Coord3D_ProjectOut (g3 a) (g3 b) = g3 (projectOut a b) := by
  unfold model3d.Coord3D_ProjectOut RS.projectOut
  simp only [normalize_eq, dot_eq, scale_eq, sub_eq]
/-- `c.Reflect(c1).Scale(-1)`: the two negations cancel. -/
theorem reflectNeg_eq (a b : V3 K) :
    model3d.Coord3D_Scale (model3d.Coord3D_Reflect (g3 a) (g3 b)) (-(1 : K)) = g3 (reflectNeg a b) := by
  unfold model3d.Coord3D_Reflect RS.reflectNeg
  simp only [normalize_eq, dot_eq, scale_eq, add_eq]
  simp [V3.scale, V3.add]

/-! ## `RefractMaterial` -/

theorem refract_eq (ior : K) (rc sc n s : V3 K) :
    render3d.RefractMaterial_refract ⟨ior, g3 rc, g3 sc⟩ (g3 n) (g3 s) = g3 (refract ior n s) := by
  unfold render3d.RefractMaterial_refract RS.refract
  simp only [decide_eq_true_eq, gt_iff_lt]
  simp only [projectOut_eq, dot_eq]
  by_cases h : n.dot s < 0
  · simp only [h, if_true, decide_true, scale_eq, norm_eq, absS_eq, reflectNeg_eq, add_eq, scale_neg_one]
    split_ifs <;> rfl
  · simp only [h, if_false, decide_false, scale_eq, norm_eq, absS_eq, reflectNeg_eq, add_eq]
    split_ifs <;> rfl

theorem refractInverse_eq (ior : K) (rc sc n d : V3 K) :
    render3d.RefractMaterial_refractInverse ⟨ior, g3 rc, g3 sc⟩ (g3 n) (g3 d) = g3 (refractInverse ior n d) := by
  unfold render3d.RefractMaterial_refractInverse RS.refractInverse
  rw [neg_eq, refract_eq, neg_eq]

theorem maximumCosine_eq (k : Consts K) (hk : ConstsOk k) (c1 c2 : K) :
    render3d.maximumCosine c1 c2 = RS.maximumCosine k c1 c2 := by
  unfold render3d.maximumCosine RS.maximumCosine
  simp only [absS_eq, mx_eq, hk.eps]

theorem refractBSDF_eq (k : Consts K) (hk : ConstsOk k) (ior : K) (rc sc n s d : V3 K) :
    render3d.RefractMaterial_refractBSDF ⟨ior, g3 rc, g3 sc⟩ (g3 n) (g3 s) (g3 d) = refractBSDF k ior n s d := by
  unfold render3d.RefractMaterial_refractBSDF RS.refractBSDF
  simp only [decide_eq_true_eq]
  simp only [refract_eq, dot_eq, absS_eq, mx_eq, hk.eps, hk.oneMinusEps]

theorem reflectBSDF_eq (k : Consts K) (hk : ConstsOk k) (ior : K) (rc sc n s d : V3 K) :
    render3d.RefractMaterial_reflectBSDF ⟨ior, g3 rc, g3 sc⟩ (g3 n) (g3 s) (g3 d) = reflectBSDF k n s d := by
  unfold render3d.RefractMaterial_reflectBSDF RS.reflectBSDF
  simp only [decide_eq_true_eq]
  simp only [reflectNeg_eq, dot_eq, maximumCosine_eq k hk, hk.eps, hk.oneMinusEps]

/-- `reflectAmount` with `math.Pow(x, 5)` read as the model's `pow5` (what Go's `Pow` computes for the
exponent 5, confirmed bit for bit by the correspondence on every run). -/
theorem reflectAmount_eq (hp : ∀ x : K, GenPrelude.HasLibm.pow x 5 = pow5 x) (ior : K) (rc sc n s : V3 K) :
    render3d.RefractMaterial_reflectAmount ⟨ior, g3 rc, g3 sc⟩ (g3 n) (g3 s) = reflectAmount ior n s := by
  unfold render3d.RefractMaterial_reflectAmount RS.reflectAmount schlick schlickR0
  simp only [dot_eq, absS_eq, hp]

/-- Go's `r.SpecularColor != (Color{})` -/
def hasSpec (sc : V3 K) : Bool :=
  !(GenPrelude.feq sc.x 0 && GenPrelude.feq sc.y 0 && GenPrelude.feq sc.z 0)

theorem refractMatBSDF_eq (hp : ∀ x : K, GenPrelude.HasLibm.pow x 5 = pow5 x) (k : Consts K) (hk : ConstsOk k)
    (ior : K) (rc sc n s d : V3 K) :
    render3d.RefractMaterial_BSDF ⟨ior, g3 rc, g3 sc⟩ (g3 n) (g3 s) (g3 d) =
      g3 (refractMatBSDF k ior (hasSpec sc) rc sc n s d) := by
  unfold render3d.RefractMaterial_BSDF refractMatBSDF lobeWeights hasSpec
  simp only [refractBSDF_eq k hk, reflectBSDF_eq k hk, reflectAmount_eq hp, scale_eq, add_eq]
  cases hc : (GenPrelude.feq sc.x 0 && GenPrelude.feq sc.y 0 && GenPrelude.feq sc.z 0) <;> simp [hc]

theorem refractSourceDensity_eq (hp : ∀ x : K, GenPrelude.HasLibm.pow x 5 = pow5 x) (k : Consts K)
    (hk : ConstsOk k) (ior : K) (rc sc n s d : V3 K) :
    render3d.RefractMaterial_SourceDensity ⟨ior, g3 rc, g3 sc⟩ (g3 n) (g3 s) (g3 d) =
      refractSourceDensity k ior (hasSpec sc) n s d := by
  unfold render3d.RefractMaterial_SourceDensity refractSourceDensity hasSpec
  simp only [decide_eq_true_eq, ge_iff_le]
  simp only [refractInverse_eq, reflectNeg_eq, reflectAmount_eq hp, dot_eq, hk.eps, hk.oneMinusEps,
    hk.twoOverEps]
  cases hc : (GenPrelude.feq sc.x 0 && GenPrelude.feq sc.y 0 && GenPrelude.feq sc.z 0)
  · simp only [hc, Bool.not_false, Bool.not_true, if_false, Bool.false_eq_true]
    split_ifs <;> first | rfl | (exfalso; order) | simp_all
  · simp only [hc, Bool.not_true, if_true]
    split_ifs <;> first | rfl | (exfalso; order) | simp_all

theorem refractDestDensity_eq (hp : ∀ x : K, GenPrelude.HasLibm.pow x 5 = pow5 x) (k : Consts K)
    (hk : ConstsOk k) (ior : K) (rc sc n s d : V3 K) :
    render3d.RefractMaterial_DestDensity ⟨ior, g3 rc, g3 sc⟩ (g3 n) (g3 s) (g3 d) =
      refractDestDensity k ior (hasSpec sc) n s d := by
  unfold render3d.RefractMaterial_DestDensity refractDestDensity
  rw [neg_eq, refractSourceDensity_eq hp k hk]

/-! ## `LambertMaterial`, `HGMaterial`, uniform cap -/

theorem lambertDensity_eq (dc ac ec n s d : V3 K) :
    render3d.LambertMaterial_SourceDensity ⟨g3 dc, g3 ac, g3 ec⟩ (g3 n) (g3 s) (g3 d) = lambertDensity n s := by
  unfold render3d.LambertMaterial_SourceDensity lambertDensity
  simp only [decide_eq_true_eq]
  simp only [dot_eq]
  rfl

theorem lambertBSDF_eq (dc ac ec n s d : V3 K) :
    render3d.LambertMaterial_BSDF ⟨g3 dc, g3 ac, g3 ec⟩ (g3 n) (g3 s) (g3 d) = g3 (lambertBSDF dc n s d) := by
  unfold render3d.LambertMaterial_BSDF lambertBSDF
  simp only [Bool.or_eq_true, decide_eq_true_eq, gt_iff_lt]
  split_ifs with h1 h2 h2
  · rfl
  · exact absurd h1 h2
  · exact absurd h2 h1
  · rfl

theorem hgNumericalG_eq (k : Consts K) (hk : ConstsOk k) (g : K) (sc : V3 K) (b : Bool) :
    render3d.HGMaterial_numericalG ⟨g, g3 sc, b⟩ = hgNumericalG k g := by
  unfold render3d.HGMaterial_numericalG hgNumericalG
  simp only [decide_eq_true_eq]
  simp only [absS_eq, mx_eq, mn_eq, hk.hgEps, hk.hgMax]

theorem aroundUniformDensity_eq (minCos : K) (dir sample : V3 K) :
    render3d.densityAroundUniform minCos (g3 dir) (g3 sample) = aroundUniformDensity minCos dir sample := by
  unfold render3d.densityAroundUniform aroundUniformDensity
  simp only [decide_eq_true_eq]
  simp only [dot_eq]
  rfl

/-! ## `HGMaterial` density / BSDF, the Phong lobe and `PhongMaterial`

`math.Pow` with a non-integer exponent stays the abstract libm operation `HasLibm.pow`: the models take its
value as an argument (the harness passes the value Go computed), so the ties state that the generated
functions are the models *applied to the generated `pow` expression*. -/

theorem hgCosDensity_eq (k : Consts K) (hk : ConstsOk k) (g : K) (sc : V3 K) (b : Bool) (cos : K) :
    render3d.HGMaterial_cosDensity ⟨g, g3 sc, b⟩ cos =
      hgCosDensity (hgNumericalG k g)
        (GenPrelude.HasLibm.pow (hgDivisor (hgNumericalG k g) cos) ((3 : K) / 2)) := by
  unfold render3d.HGMaterial_cosDensity hgCosDensity hgDivisor
  simp only [hgNumericalG_eq k hk]
  try (congr 1 <;> first | rfl | ring | (congr 1 <;> first | rfl | ring))

theorem hgSourceDensity_eq (k : Consts K) (hk : ConstsOk k) (g : K) (sc : V3 K) (b : Bool) (n s d : V3 K) :
    render3d.HGMaterial_SourceDensity ⟨g, g3 sc, b⟩ (g3 n) (g3 s) (g3 d) =
      hgCosDensity (hgNumericalG k g)
        (GenPrelude.HasLibm.pow (hgDivisor (hgNumericalG k g) (s.dot d)) ((3 : K) / 2)) := by
  unfold render3d.HGMaterial_SourceDensity
  rw [dot_eq, hgCosDensity_eq k hk]

theorem hgBSDF_eq (k : Consts K) (hk : ConstsOk k) (g : K) (sc : V3 K) (ign : Bool) (n s d : V3 K) :
    render3d.HGMaterial_BSDF ⟨g, g3 sc, ign⟩ (g3 n) (g3 s) (g3 d) =
      g3 (hgBSDF k sc ign n s (hgCosDensity (hgNumericalG k g)
        (GenPrelude.HasLibm.pow (hgDivisor (hgNumericalG k g) (s.dot d)) ((3 : K) / 2)))) := by
  unfold render3d.HGMaterial_BSDF hgBSDF
  simp only [dot_eq, hgCosDensity_eq k hk, absS_eq, mx_eq, hk.hgEps, scale_eq]
  cases ign <;> simp

theorem aroundDirDensity_eq (alpha : K) (dir sample : V3 K) :
    render3d.densityAroundDirection alpha (g3 dir) (g3 sample) =
      aroundDirDensity alpha dir sample
        (GenPrelude.HasLibm.pow (GenPrelude.HasLibm.pow (dir.dot sample) (alpha + 1)) (1 / (alpha + 1) - 1)) := by
  unfold render3d.densityAroundDirection aroundDirDensity
  simp only [decide_eq_true_eq]
  simp only [dot_eq]
  rfl

/-- Go's `p.DiffuseColor != (Color{})` -/
def hasDiffuse (dc : V3 K) : Bool :=
  !(GenPrelude.feq dc.x 0 && GenPrelude.feq dc.y 0 && GenPrelude.feq dc.z 0)

theorem phongSpecularDensity_eq (alpha : K) (sp dc ec ac : V3 K) (nf : Bool) (n s d : V3 K) :
    render3d.PhongMaterial_specularDensity ⟨alpha, g3 sp, g3 dc, g3 ec, g3 ac, nf⟩ (g3 n) (g3 s) (g3 d) =
      aroundDirDensity alpha (reflectNeg n d) s
        (GenPrelude.HasLibm.pow (GenPrelude.HasLibm.pow ((reflectNeg n d).dot s) (alpha + 1)) (1 / (alpha + 1) - 1)) := by
  unfold render3d.PhongMaterial_specularDensity
  rw [reflectNeg_eq, aroundDirDensity_eq]

theorem phongSourceDensity_eq (alpha : K) (sp dc ec ac : V3 K) (nf : Bool) (n s d : V3 K) :
    render3d.PhongMaterial_SourceDensity ⟨alpha, g3 sp, g3 dc, g3 ec, g3 ac, nf⟩ (g3 n) (g3 s) (g3 d) =
      phongSourceDensity (hasDiffuse dc)
        (aroundDirDensity alpha (reflectNeg n d) s
          (GenPrelude.HasLibm.pow (GenPrelude.HasLibm.pow ((reflectNeg n d).dot s) (alpha + 1)) (1 / (alpha + 1) - 1)))
        n s := by
  unfold render3d.PhongMaterial_SourceDensity phongSourceDensity hasDiffuse
  simp only [phongSpecularDensity_eq]
  have hl := lambertDensity_eq (⟨0, 0, 0⟩ : V3 K) ⟨0, 0, 0⟩ ⟨0, 0, 0⟩ n s d
  simp only [g3] at hl
  simp only [hl]
  cases hc : (GenPrelude.feq dc.x 0 && GenPrelude.feq dc.y 0 && GenPrelude.feq dc.z 0) <;> simp [hc]

theorem phongBSDF_eq (k : Consts K) (hk : ConstsOk k) (alpha : K) (sp dc ec ac : V3 K) (nf : Bool) (n s d : V3 K) :
    render3d.PhongMaterial_BSDF ⟨alpha, g3 sp, g3 dc, g3 ec, g3 ac, nf⟩ (g3 n) (g3 s) (g3 d) =
      g3 (phongBSDF k alpha nf (hasDiffuse dc) sp dc n s d
        (GenPrelude.HasLibm.pow ((reflectNeg n s).dot d) alpha)) := by
  unfold render3d.PhongMaterial_BSDF phongBSDF hasDiffuse
  simp only [Bool.or_eq_true, decide_eq_true_eq]
  simp only [dot_eq, reflectNeg_eq, maximumCosine_eq k hk, scale_eq]
  -- the arithmetic of each branch is closed by `ring`, so that re-associated / commuted products in the source
  -- (bit-identical in IEEE arithmetic as well) do not break the tie
  cases hc : (GenPrelude.feq dc.x 0 && GenPrelude.feq dc.y 0 && GenPrelude.feq dc.z 0) <;>
    cases nf <;> simp [hc] <;> split_ifs <;>
    first
    | rfl
    | (simp only [add_eq, scale_eq, V3.add, V3.scale, model3d.Coord3D_Add, g3, model3d.Coord3D.mk.injEq]
       refine ⟨?_, ?_, ?_⟩ <;> ring)
    | (simp_all [add_eq, scale_eq, V3.add, V3.scale, model3d.Coord3D_Add]; done)

end M3d.KernelsTie.RS
