import M3d.Gen.Kernels
import M3d.Lemmas.MarchingFilter
/-!
# Tie between the REGENERATED `msBlock.Bounds` / `mcBlock.Bounds` and the filter-rectangle model of C02

`model2d.msBlock_Bounds` / `model3d.mcBlock_Bounds` of `M3d/Gen/Kernels.lean` are what
`model2d/marching.go` / `model3d/mc.go` say NOW.  The theorems below re-prove against that text, for
every linear ordered field, every spacer and every block, that

* the rectangle handed to the user's filter (`blockBounds2` / `blockBounds3` of
  `M3d/Model/MarchingFilter.lean` is the hand-written copy) contains every lattice point `Xs[i], Ys[j] (, Zs[k])` with `min ≤ index ≤ max` of the block,
  both ends inclusive, whenever the spacer arrays are non-decreasing and `epsilon ≥ 0`
  (`*_bounds_cover`).  The points with index `max` are the corners of the block's last column / row /
  layer of cells: a rectangle that stops at `Xs[max-1]` lets a conservative filter reject a block
  whose only sign changes are there, and the cells are dropped.

  `*_filter_point_sound` then turn a conservative user filter into a sound block oracle.

An edit of `Bounds` changes the generated text; a harmless one (a larger margin, another way of
writing the same corners) is absorbed by the proofs (`simp` + `linarith`), a harmful one stops this
file from compiling and the check reports the broken obligation
and looks for the failing input with the `msf` / `mcf` correspondence kinds.
-/
namespace M3d.KernelsTie.FilterBounds
open M3d.Partition M3d.MarchingFilter M3d.Gen.Kernels M3d.GenPrelude
set_option linter.unusedSectionVars false
set_option linter.unusedVariables false
set_option linter.unusedSimpArgs false

variable {K : Type} [Field K] [LinearOrder K] [IsStrictOrderedRing K]

/-- the Go value of a model block -/
@[reducible] def gb2 (sp : model2d.squareSpacer K) (b : Block2) : model2d.msBlock K :=
  ⟨sp, ⟨(b.x0 : Int), (b.y0 : Int)⟩, ⟨(b.x1 : Int), (b.y1 : Int)⟩⟩

@[reducible] def gb3 (sp : model3d.squareSpacer K) (b : Block) : model3d.mcBlock K :=
  ⟨sp, ⟨(b.x0 : Int), (b.y0 : Int), (b.z0 : Int)⟩, ⟨(b.x1 : Int), (b.y1 : Int), (b.z1 : Int)⟩⟩

@[reducible] def gr2 (r : Rect2 K) : model2d.Rect K := ⟨⟨r.minX, r.minY⟩, ⟨r.maxX, r.maxY⟩⟩
@[reducible] def gr3 (r : Rect3 K) : model3d.Rect K := ⟨⟨r.minX, r.minY, r.minZ⟩, ⟨r.maxX, r.maxY, r.maxZ⟩⟩

/-- the spacer arrays as functions of the index (`Xs[i]`) -/
@[reducible] def at' (l : List K) (i : Nat) : K := l.getD i 0

/-- the spacer array is non-decreasing (within its length; `Xs[i]` beyond it is never read) -/
def Sorted (l : List K) : Prop := ∀ i j, i ≤ j → j < l.length → at' l i ≤ at' l j

/-- **The filter rectangle of a block contains all of the block's lattice points** (`model2d`):
the regenerated `msBlock.Bounds(ε)` of the block with cells `[x0,x1) × [y0,y1)` of the lattice contains
`(Xs[i], Ys[j])` for every `x0 ≤ i ≤ x1`, `y0 ≤ j ≤ y1`. -/
theorem msBlock_bounds_cover (sp : model2d.squareSpacer K) (hX : Sorted sp.Xs) (hY : Sorted sp.Ys)
    (eps : K) (he : 0 ≤ eps) (b : Block2) (hbx : b.x1 < sp.Xs.length) (hby : b.y1 < sp.Ys.length)
    (i j : Nat) (hi0 : b.x0 ≤ i) (hi1 : i ≤ b.x1) (hj0 : b.y0 ≤ j) (hj1 : j ≤ b.y1) :
    let r := model2d.msBlock_Bounds (gb2 sp b) eps
    r.MinVal.X ≤ at' sp.Xs i ∧ at' sp.Xs i ≤ r.MaxVal.X ∧ r.MinVal.Y ≤ at' sp.Ys j ∧ at' sp.Ys j ≤ r.MaxVal.Y := by
  intro r
  have a1 := hX _ _ hi0 (by omega); have a2 := hX _ _ hi1 hbx
  have b1 := hY _ _ hj0 (by omega); have b2 := hY _ _ hj1 hby
  simp only [r, model2d.msBlock_Bounds, model2d.NewRect, model2d.Coord_AddScalar, model2d.XY, Int.toNat_natCast]
  refine ⟨?_, ?_, ?_, ?_⟩ <;> linarith

/-- **The filter box of a block contains all of the block's lattice points** (`model3d`). -/
theorem mcBlock_bounds_cover (sp : model3d.squareSpacer K) (hX : Sorted sp.Xs) (hY : Sorted sp.Ys)
    (hZ : Sorted sp.Zs) (eps : K) (he : 0 ≤ eps) (b : Block)
    (hbx : b.x1 < sp.Xs.length) (hby : b.y1 < sp.Ys.length) (hbz : b.z1 < sp.Zs.length) (i j k : Nat)
    (hi0 : b.x0 ≤ i) (hi1 : i ≤ b.x1) (hj0 : b.y0 ≤ j) (hj1 : j ≤ b.y1) (hk0 : b.z0 ≤ k) (hk1 : k ≤ b.z1) :
    let r := model3d.mcBlock_Bounds (gb3 sp b) eps
    r.MinVal.X ≤ at' sp.Xs i ∧ at' sp.Xs i ≤ r.MaxVal.X ∧ r.MinVal.Y ≤ at' sp.Ys j ∧ at' sp.Ys j ≤ r.MaxVal.Y ∧
      r.MinVal.Z ≤ at' sp.Zs k ∧ at' sp.Zs k ≤ r.MaxVal.Z := by
  intro r
  have a1 := hX _ _ hi0 (by omega); have a2 := hX _ _ hi1 hbx
  have b1 := hY _ _ hj0 (by omega); have b2 := hY _ _ hj1 hby
  have c1 := hZ _ _ hk0 (by omega); have c2 := hZ _ _ hk1 hbz
  simp only [r, model3d.mcBlock_Bounds, model3d.NewRect, model3d.Coord3D_AddScalar, model3d.XYZ, Int.toNat_natCast]
  refine ⟨?_, ?_, ?_, ?_, ?_, ?_⟩ <;> linarith

/-- closed-rectangle membership on the generated `Rect` (what `Rect.Contains` decides) -/
def In2 (r : model2d.Rect K) (x y : K) : Prop :=
  r.MinVal.X ≤ x ∧ x ≤ r.MaxVal.X ∧ r.MinVal.Y ≤ y ∧ y ≤ r.MaxVal.Y

def In3 (r : model3d.Rect K) (x y z : K) : Prop :=
  r.MinVal.X ≤ x ∧ x ≤ r.MaxVal.X ∧ r.MinVal.Y ≤ y ∧ y ≤ r.MaxVal.Y ∧ r.MinVal.Z ≤ z ∧ z ≤ r.MaxVal.Z

/-- **With the real `Bounds`, a conservative user filter is sound for the lattice labelling**: the
lattice has `nx × ny` cells (`len(Xs) = nx+1`, `len(Ys) = ny+1`, as `newMsBlock` assumes); if `F` answers
`false` only for rectangles on which `Contains` (`C`) is constant, the block oracle
`b ↦ F(b.Bounds(ε))` — `Bounds` being the REGENERATED function — rejects only blocks whose lattice
points `min..max` all carry one label.  Together with `M3d.C02.ms_filter_same_mesh` this is
"`MarchingSquaresFilter` with a conservative filter loses no cell", for the source as it is now. -/
theorem msBlock_filter_point_sound (sp : model2d.squareSpacer K) (hX : Sorted sp.Xs) (hY : Sorted sp.Ys)
    (nx ny : Nat) (hnx : sp.Xs.length = nx + 1) (hny : sp.Ys.length = ny + 1)
    (eps : K) (he : 0 ≤ eps) (C : K → K → Bool) (F : model2d.Rect K → Bool)
    (hF : ∀ r, F r = false → ∀ x y x' y', In2 r x y → In2 r x' y' → C x y = C x' y') :
    PointSound2 nx ny (fun i j => C (at' sp.Xs i) (at' sp.Ys j))
      (fun b => F (model2d.msBlock_Bounds (gb2 sp b) eps)) := by
  intro b hw hb x y hx0 hx1 hy0 hy1
  obtain ⟨w1, w2, w3, w4⟩ := hw
  exact hF _ hb _ _ _ _
    (msBlock_bounds_cover sp hX hY eps he b (by omega) (by omega) x y hx0 hx1 hy0 hy1)
    (msBlock_bounds_cover sp hX hY eps he b (by omega) (by omega) b.x0 b.y0 (Nat.le_refl _) w1 (Nat.le_refl _) w3)

theorem mcBlock_filter_point_sound (sp : model3d.squareSpacer K) (hX : Sorted sp.Xs) (hY : Sorted sp.Ys)
    (hZ : Sorted sp.Zs) (nx ny nz : Nat) (hnx : sp.Xs.length = nx + 1) (hny : sp.Ys.length = ny + 1)
    (hnz : sp.Zs.length = nz + 1)
    (eps : K) (he : 0 ≤ eps) (C : K → K → K → Bool) (F : model3d.Rect K → Bool)
    (hF : ∀ r, F r = false → ∀ x y z x' y' z', In3 r x y z → In3 r x' y' z' → C x y z = C x' y' z') :
    PointSound3 nx ny nz (fun i j k => C (at' sp.Xs i) (at' sp.Ys j) (at' sp.Zs k))
      (fun b => F (model3d.mcBlock_Bounds (gb3 sp b) eps)) := by
  intro b hw hb x y z hx0 hx1 hy0 hy1 hz0 hz1
  obtain ⟨w1, w2, w3, w4, w5, w6⟩ := hw
  exact hF _ hb _ _ _ _ _ _
    (mcBlock_bounds_cover sp hX hY hZ eps he b (by omega) (by omega) (by omega) x y z hx0 hx1 hy0 hy1 hz0 hz1)
    (mcBlock_bounds_cover sp hX hY hZ eps he b (by omega) (by omega) (by omega) b.x0 b.y0 b.z0
      (Nat.le_refl _) w1 (Nat.le_refl _) w3 (Nat.le_refl _) w5)

/-- non-vacuity: the spacer `[0, 1, 2]` is sorted -/
example : Sorted ([0, 1, 2] : List ℚ) := by
  intro i j hij hj
  simp only [List.length_cons, List.length_nil] at hj
  have hj' : j = 0 ∨ j = 1 ∨ j = 2 := by omega
  rcases hj' with rfl | rfl | rfl
  · have : i = 0 := by omega
    subst this; simp [at']
  · have : i = 0 ∨ i = 1 := by omega
    rcases this with rfl | rfl <;> simp [at']
  · have : i = 0 ∨ i = 1 ∨ i = 2 := by omega
    rcases this with rfl | rfl | rfl <;> simp [at']

end M3d.KernelsTie.FilterBounds
