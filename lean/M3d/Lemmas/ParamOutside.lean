import M3d.Model.Param
import M3d.Lemmas.ParamNear
import Mathlib.Algebra.Order.Field.Basic
import Mathlib.Tactic.Linarith
import Mathlib.Tactic.Ring
import Mathlib.Tactic.FieldSimp
import Mathlib.Tactic.LinearCombination
/-!
# `findContains = none` means: the query is outside every (non-degenerate) UV triangle

The link between the containment branch of `MapFn` and the nearest-triangle branch: when the containment scan
finds nothing, every non-degenerate UV triangle gives the query a negative barycentric coordinate — the
hypothesis `hneg` of `mapfn_nearest_point_closest`.
-/
namespace M3d.Param

set_option linter.unusedSectionVars false

variable {K : Type} [Field K] [LinearOrder K] [IsStrictOrderedRing K]

omit [LinearOrder K] [IsStrictOrderedRing K] in
/-- For a non-degenerate triangle the computed barycentric coordinates sum to 1 and reproduce the query. -/
theorem atBary2_bary2 (t : Tri2 K) (p : V2 K) (hdet : t.orient ≠ 0) :
    (bary2 t p).1 + (bary2 t p).2.1 + (bary2 t p).2.2 = 1 ∧ atBary2 t (bary2 t p) = p := by
  obtain ⟨⟨ax, ay⟩, ⟨bx, by'⟩, ⟨cx, cy⟩⟩ := t
  obtain ⟨px, py⟩ := p
  simp only [Tri2.orient, orient] at hdet
  have hs : ((bx - ax) * (cy - ay) - (cx - ax) * (by' - ay)) * (1 / ((bx - ax) * (cy - ay) - (cx - ax) * (by' - ay))) = 1 := by
    field_simp
  simp only [bary2, atBary2, V2.sub, V2.add, V2.scale, V2.mk.injEq]
  generalize (1 / ((bx - ax) * (cy - ay) - (cx - ax) * (by' - ay))) = s at hs ⊢
  refine ⟨by ring, ?_, ?_⟩
  · linear_combination (px - ax) * hs
  · linear_combination (py - ay) * hs

/-- A convex combination of three numbers lies between their minimum and their maximum. -/
theorem convex_between (a b c α β γ : K) (hα : 0 ≤ α) (hβ : 0 ≤ β) (hγ : 0 ≤ γ) (hsum : α + β + γ = 1) :
    min3 a b c ≤ α * a + β * b + γ * c ∧ α * a + β * b + γ * c ≤ max3 a b c := by
  obtain ⟨m1, m2, m3⟩ := min3_le a b c
  obtain ⟨x1, x2, x3⟩ := le_max3 a b c
  constructor
  · have : min3 a b c = α * min3 a b c + β * min3 a b c + γ * min3 a b c := by
      linear_combination (-(min3 a b c)) * hsum
    rw [this]
    nlinarith [mul_le_mul_of_nonneg_left m1 hα, mul_le_mul_of_nonneg_left m2 hβ, mul_le_mul_of_nonneg_left m3 hγ]
  · have : max3 a b c = α * max3 a b c + β * max3 a b c + γ * max3 a b c := by
      linear_combination (-(max3 a b c)) * hsum
    rw [this]
    nlinarith [mul_le_mul_of_nonneg_left x1 hα, mul_le_mul_of_nonneg_left x2 hβ, mul_le_mul_of_nonneg_left x3 hγ]

/-- A point with non-negative barycentric coordinates passes the bounding-box test of `findContains`. -/
theorem inBounds2_of_nonneg (t : Tri2 K) (p : V2 K) (hdet : t.orient ≠ 0)
    (h1 : 0 ≤ (bary2 t p).1) (h2 : 0 ≤ (bary2 t p).2.1) (h3 : 0 ≤ (bary2 t p).2.2) : inBounds2 t p = true := by
  obtain ⟨hsum, hp⟩ := atBary2_bary2 t p hdet
  generalize bary2 t p = w at *
  obtain ⟨α, β, γ⟩ := w
  simp only at h1 h2 h3 hsum
  have hx : p.x = α * t.a.x + β * t.b.x + γ * t.c.x := by
    rw [← hp]; simp only [atBary2, V2.add, V2.scale]; ring
  have hy : p.y = α * t.a.y + β * t.b.y + γ * t.c.y := by
    rw [← hp]; simp only [atBary2, V2.add, V2.scale]; ring
  obtain ⟨x1, x2⟩ := convex_between t.a.x t.b.x t.c.x α β γ h1 h2 h3 hsum
  obtain ⟨y1, y2⟩ := convex_between t.a.y t.b.y t.c.y α β γ h1 h2 h3 hsum
  unfold inBounds2
  simp only [Bool.and_eq_true, Bool.not_eq_true', decide_eq_false_iff_not, not_lt]
  rw [hx, hy]
  exact ⟨⟨⟨x1, x2⟩, y1⟩, y2⟩

theorem findContains_go_none (p : V2 K) : ∀ (l : List (Tri2 K)) (k : Nat), findContains.go p k l = none →
    ∀ t ∈ l, ¬ (inBounds2 t p = true ∧ 0 ≤ (bary2 t p).1 ∧ 0 ≤ (bary2 t p).2.1 ∧ 0 ≤ (bary2 t p).2.2)
  | [], _, _ => fun t ht => absurd ht (by simp)
  | u :: r, k, h => by
    simp only [findContains.go] at h
    split at h
    · exact absurd h (by simp)
    · rename_i hc
      intro t ht
      rcases List.mem_cons.1 ht with rfl | ht
      · intro ⟨b, w1, w2, w3⟩
        apply hc
        simp only [Bool.and_eq_true, Bool.not_eq_true', decide_eq_false_iff_not, not_lt]
        exact ⟨⟨⟨b, w1⟩, w2⟩, w3⟩
      · exact findContains_go_none p r (k + 1) h t ht

/-- `findContains = none`: every non-degenerate triangle of the map gives the query a negative barycentric
coordinate (the coordinates still sum to 1 and reproduce the query). -/
theorem findContains_none_outside (ts : List (Tri2 K)) (p : V2 K) (h : findContains ts p = none)
    (t : Tri2 K) (ht : t ∈ ts) (hdet : t.orient ≠ 0) :
    ((bary2 t p).1 < 0 ∨ (bary2 t p).2.1 < 0 ∨ (bary2 t p).2.2 < 0) ∧
    (bary2 t p).1 + (bary2 t p).2.1 + (bary2 t p).2.2 = 1 ∧ atBary2 t (bary2 t p) = p := by
  refine ⟨?_, atBary2_bary2 t p hdet⟩
  by_contra hc
  simp only [not_or, not_lt] at hc
  exact findContains_go_none p ts 0 h t ht ⟨inBounds2_of_nonneg t p hdet hc.1 hc.2.1 hc.2.2, hc.1, hc.2.1, hc.2.2⟩

theorem sumsq_pos_or_zero (x y : K) : 0 < x * x + y * y ∨ (x = 0 ∧ y = 0) := by
  rcases lt_or_eq_of_le (add_nonneg (mul_self_nonneg x) (mul_self_nonneg y)) with h | h
  · exact Or.inl h
  · right
    have hx : x * x = 0 := by nlinarith [mul_self_nonneg x, mul_self_nonneg y]
    have hy : y * y = 0 := by nlinarith [mul_self_nonneg x, mul_self_nonneg y]
    exact ⟨mul_self_eq_zero.1 hx, mul_self_eq_zero.1 hy⟩

/-- A triangle of non-zero area has three non-degenerate edges. -/
theorem edges_pos_of_orient (t : Tri2 K) (h : t.orient ≠ 0) :
    0 < dot2 (t.b.sub t.a) (t.b.sub t.a) ∧ 0 < dot2 (t.c.sub t.b) (t.c.sub t.b) ∧
    0 < dot2 (t.a.sub t.c) (t.a.sub t.c) := by
  obtain ⟨⟨ax, ay⟩, ⟨bx, by'⟩, ⟨cx, cy⟩⟩ := t
  simp only [Tri2.orient, orient] at h
  simp only [dot2, V2.sub]
  refine ⟨?_, ?_, ?_⟩
  · rcases sumsq_pos_or_zero (bx - ax) (by' - ay) with h1 | ⟨h1, h2⟩
    · exact h1
    · exact absurd (by rw [h1, h2]; ring) h
  · rcases sumsq_pos_or_zero (cx - bx) (cy - by') with h1 | ⟨h1, h2⟩
    · exact h1
    · refine absurd ?_ h
      have e1 : cx = bx := by linarith
      have e2 : cy = by' := by linarith
      rw [e1, e2]; ring
  · rcases sumsq_pos_or_zero (ax - cx) (ay - cy) with h1 | ⟨h1, h2⟩
    · exact h1
    · refine absurd ?_ h
      have e1 : cx = ax := by linarith
      have e2 : cy = ay := by linarith
      rw [e1, e2]; ring

end M3d.Param
